/-
Discoverer entries converge to the bus state (C19).
-/
import Aldrin.Model.Discoverer
import Aldrin.Lemmas.Broker.AL

namespace Aldrin.Disc
open Aldrin.Broker

/-- the bus as a fold of its events: live objects (uuid ↦ cookie) and live services
((object uuid, service uuid) ↦ (object cookie, service cookie)) -/
structure Bus where
  objs : List (Uuid × Cookie) := []
  svcs : List ((Uuid × Uuid) × (Cookie × Cookie)) := []
  deriving Repr

def Bus.apply (b : Bus) : BusEv → Bus
  | .objCreated id => { b with objs := AL.insert id.uuid id.cookie b.objs }
  | .objDestroyed id => { b with objs := AL.erase id.uuid b.objs }
  | .svcCreated sid => { b with svcs := AL.insert (sid.obj.uuid, sid.uuid) (sid.obj.cookie, sid.cookie) b.svcs }
  | .svcDestroyed sid => { b with svcs := AL.erase (sid.obj.uuid, sid.uuid) b.svcs }

/-- what the broker guarantees about the order of bus events (C03 / C10): creations of things that do not
exist, destructions of things that exist, services inside their object's lifetime -/
def Bus.okEv (b : Bus) : BusEv → Prop
  | .objCreated id => AL.find? id.uuid b.objs = none
  | .objDestroyed id => AL.find? id.uuid b.objs = some id.cookie ∧ ∀ su, AL.find? (id.uuid, su) b.svcs = none
  | .svcCreated sid => AL.find? sid.obj.uuid b.objs = some sid.obj.cookie ∧ AL.find? (sid.obj.uuid, sid.uuid) b.svcs = none
  | .svcDestroyed sid => AL.find? (sid.obj.uuid, sid.uuid) b.svcs = some (sid.obj.cookie, sid.cookie)

/-- every live service belongs to the live object with that cookie -/
def Bus.Inv (b : Bus) : Prop := ∀ ou su oc sc, AL.find? (ou, su) b.svcs = some (oc, sc) → AL.find? ou b.objs = some oc

theorem Bus.inv_apply {b : Bus} {e : BusEv} (h : b.Inv) (ho : b.okEv e) : (b.apply e).Inv := by
  intro ou su oc sc hf
  cases e with
  | objCreated id =>
    simp only [Bus.apply] at hf ⊢
    have := h _ _ _ _ hf
    rw [AL.find?_insert]
    split
    · rename_i he; subst he; simp only [Bus.okEv] at ho; rw [ho] at this; simp at this
    · exact this
  | objDestroyed id =>
    simp only [Bus.apply] at hf ⊢
    have := h _ _ _ _ hf
    rw [AL.find?_erase]
    split
    · rename_i he; subst he; simp only [Bus.okEv] at ho; rw [ho.2 su] at hf; simp at hf
    · exact this
  | svcCreated sid =>
    simp only [Bus.apply] at hf ⊢
    rw [AL.find?_insert] at hf
    split at hf
    · rename_i he
      simp only [Prod.mk.injEq] at he
      simp only [Option.some.injEq, Prod.mk.injEq] at hf
      obtain ⟨rfl, _⟩ := he
      obtain ⟨rfl, _⟩ := hf
      exact ho.1
    · exact h _ _ _ _ hf
  | svcDestroyed sid =>
    simp only [Bus.apply] at hf ⊢
    rw [AL.find?_erase] at hf
    split at hf
    · simp at hf
    · exact h _ _ _ _ hf

/-- what a transition of the found-set at `ou` looks like as a discoverer event -/
def transition (k : Nat) (ou : Uuid) (before after : Option Cookie) : Option DEvent :=
  match before, after with
  | none, some c => some ⟨k, .created, ⟨ou, c⟩⟩
  | some c, none => some ⟨k, .destroyed, ⟨ou, c⟩⟩
  | _, _ => none

/-! ### bare objects -/

def RelBare (o : Uuid) (cookie : Option Cookie) (b : Bus) : Prop := cookie = AL.find? o b.objs

theorem bare_step {k : Nat} {o : Uuid} {cookie : Option Cookie} {b : Bus} {e : BusEv}
    (hr : RelBare o cookie b) (ho : b.okEv e) :
    ∃ cookie' dev, (Entry.bare k o cookie).handle e = .ok (.bare k o cookie', dev) ∧ RelBare o cookie' (b.apply e) ∧
      dev = transition k o cookie cookie' := by
  unfold RelBare at *
  cases e with
  | objCreated id =>
    simp only [Entry.handle, Bus.apply, Bus.okEv] at *
    by_cases hu : id.uuid = o
    · subst hu
      rw [ho] at hr; subst hr
      exact ⟨some id.cookie, some ⟨k, .created, id⟩, by simp, by simp, by simp [transition]⟩
    · refine ⟨cookie, none, by simp [hu], by rw [AL.find?_insert_ne _ _ hu]; exact hr, ?_⟩
      cases cookie <;> simp [transition]
  | objDestroyed id =>
    simp only [Entry.handle, Bus.apply, Bus.okEv] at *
    by_cases hu : id.uuid = o
    · subst hu
      rw [ho.1] at hr; subst hr
      exact ⟨none, some ⟨k, .destroyed, id⟩, by simp, by simp, by simp [transition]⟩
    · refine ⟨cookie, none, by simp [hu], by rw [AL.find?_erase_ne _ hu]; exact hr, ?_⟩
      cases cookie <;> simp [transition]
  | svcCreated sid => exact ⟨cookie, none, by simp [Entry.handle], by simpa [Bus.apply] using hr, by cases cookie <;> simp [transition]⟩
  | svcDestroyed sid => exact ⟨cookie, none, by simp [Entry.handle], by simpa [Bus.apply] using hr, by cases cookie <;> simp [transition]⟩

/-! ### helper: `all` over a map with unique keys is a statement about lookups -/

theorem find_of_mem_nodup {K V : Type} [DecidableEq K] : ∀ {m : List (K × V)} {k : K} {v : V},
    AL.NodupKeys m → (k, v) ∈ m → AL.find? k m = some v
  | [], _, _, _, h => by simp at h
  | (a, b) :: r, k, v, hn, h => by
    simp only [AL.NodupKeys, List.map_cons, List.nodup_cons] at hn
    simp only [List.mem_cons, Prod.mk.injEq] at h
    simp only [AL.find?_cons]
    rcases h with ⟨rfl, rfl⟩ | h
    · simp
    · have hne : a ≠ k := by
        intro he; subst he
        exact hn.1 (List.mem_map.mpr ⟨(a, v), h, rfl⟩)
      simp only [hne, ↓reduceIte]
      exact find_of_mem_nodup hn.2 h

theorem all_iff_find {K V : Type} [DecidableEq K] {m : List (K × V)} (P : V → Bool) (hn : AL.NodupKeys m) :
    m.all (fun p => P p.2) = true ↔ ∀ k v, AL.find? k m = some v → P v = true := by
  rw [List.all_eq_true]
  constructor
  · intro h k v hf; exact h (k, v) (AL.find?_some_mem hf)
  · intro h p hp; exact h p.1 p.2 (find_of_mem_nodup hn hp)

/-! ### a specific object with required services -/

structure RelWith (o : Uuid) (cookie : Option Cookie) (svcs : List (Uuid × Option Cookie)) (b : Bus) : Prop where
  nodup : AL.NodupKeys svcs
  nonempty : svcs ≠ []
  each : ∀ s c, AL.find? s svcs = some c → c = (AL.find? (o, s) b.svcs).map (·.2)
  cookie : cookie = if svcs.all (fun p => p.2.isSome) then AL.find? o b.objs else none

/-- a required service is missing ⇒ not all present -/
theorem not_all_of_none {svcs : List (Uuid × Option Cookie)} (hn : AL.NodupKeys svcs) {s : Uuid}
    (h : AL.find? s svcs = some none) : svcs.all (fun p => p.2.isSome) = false := by
  cases hall : svcs.all (fun p => p.2.isSome) with
  | false => rfl
  | true => have := (all_iff_find (fun c : Option Cookie => c.isSome) hn).mp hall s none h; simp at this

theorem exists_key_of_ne_nil {V : Type} {m : List (Uuid × V)} (h : m ≠ []) : ∃ k v, AL.find? k m = some v := by
  cases m with
  | nil => exact absurd rfl h
  | cons p r => exact ⟨p.1, p.2, by obtain ⟨a, b⟩ := p; simp⟩

theorem with_step {k : Nat} {o : Uuid} {cookie : Option Cookie} {svcs : List (Uuid × Option Cookie)} {b : Bus} {e : BusEv}
    (hr : RelWith o cookie svcs b) (hi : b.Inv) (ho : b.okEv e) :
    ∃ cookie' svcs' dev, (Entry.withSvcs k o cookie svcs).handle e = .ok (.withSvcs k o cookie' svcs', dev) ∧
      RelWith o cookie' svcs' (b.apply e) ∧
      dev = transition k o cookie cookie' := by
  obtain ⟨hn, hne, heach, hck⟩ := hr
  cases e with
  | objCreated id =>
    refine ⟨cookie, svcs, none, by simp [Entry.handle], ⟨hn, hne, by simpa [Bus.apply] using heach, ?_⟩, by cases cookie <;> simp [transition]⟩
    simp only [Bus.apply]
    by_cases hu : id.uuid = o
    · -- the object did not exist, so no required service can be present
      subst hu
      obtain ⟨s, c, hs⟩ := exists_key_of_ne_nil hne
      have hc := heach s c hs
      have hnone : AL.find? (id.uuid, s) b.svcs = none := by
        cases hf : AL.find? (id.uuid, s) b.svcs with
        | none => rfl
        | some p => have := hi _ _ _ _ (show AL.find? (id.uuid, s) b.svcs = some (p.1, p.2) from hf); simp only [Bus.okEv] at ho; rw [ho] at this; simp at this
      rw [hnone] at hc; simp at hc; subst hc
      rw [not_all_of_none hn hs] at hck ⊢
      simpa using hck
    · rw [AL.find?_insert_ne _ _ hu]; exact hck
  | objDestroyed id =>
    refine ⟨cookie, svcs, none, by simp [Entry.handle], ⟨hn, hne, by simpa [Bus.apply] using heach, ?_⟩, by cases cookie <;> simp [transition]⟩
    simp only [Bus.apply]
    by_cases hu : id.uuid = o
    · subst hu
      obtain ⟨s, c, hs⟩ := exists_key_of_ne_nil hne
      have hc := heach s c hs
      rw [ho.2 s] at hc; simp at hc; subst hc
      rw [not_all_of_none hn hs] at hck ⊢
      simpa using hck
    · rw [AL.find?_erase_ne _ hu]; exact hck
  | svcCreated sid =>
    simp only [Entry.handle]
    by_cases hu : sid.obj.uuid = o
    · simp only [hu, ne_eq, not_true_eq_false, ↓reduceIte]
      cases hf : AL.find? sid.uuid svcs with
      | none =>
        refine ⟨cookie, svcs, none, rfl, ⟨hn, hne, ?_, by simpa [Bus.apply] using hck⟩, by cases cookie <;> simp [transition]⟩
        intro s c hs
        simp only [Bus.apply]
        have : (sid.obj.uuid, sid.uuid) ≠ (o, s) := by
          intro he; simp only [Prod.mk.injEq] at he; rw [he.2] at hf; rw [hf] at hs; simp at hs
        rw [AL.find?_insert_ne _ _ this]; exact heach s c hs
      | some cur =>
        have hcur := heach _ _ hf
        simp only [Bus.okEv] at ho
        rw [← hu, ho.2] at hcur; simp at hcur; subst hcur
        simp only [Option.isSome_none, Bool.false_eq_true, ↓reduceIte]
        have hn' : AL.NodupKeys (AL.insert sid.uuid (some sid.cookie) svcs) := AL.nodupKeys_insert hn
        have hne' : AL.insert sid.uuid (some sid.cookie) svcs ≠ [] := by
          cases svcs <;> simp [AL.insert]; split <;> simp
        have heach' : ∀ s c, AL.find? s (AL.insert sid.uuid (some sid.cookie) svcs) = some c →
            c = (AL.find? (o, s) (b.apply (.svcCreated sid)).svcs).map (·.2) := by
          intro s c hs
          simp only [Bus.apply]
          rw [AL.find?_insert] at hs
          split at hs
          · rename_i he; subst he; simp at hs; subst hs; simp [hu]
          · rename_i he
            have : (sid.obj.uuid, sid.uuid) ≠ (o, s) := by intro h2; simp only [Prod.mk.injEq] at h2; exact he h2.2
            rw [AL.find?_insert_ne _ _ this]; exact heach s c hs
        have hold : cookie = none := by rw [not_all_of_none hn hf] at hck; simpa using hck
        subst hold
        by_cases hall : (AL.insert sid.uuid (some sid.cookie) svcs).all (fun p => p.2.isSome) = true
        · simp only [hall, ↓reduceIte]
          refine ⟨some sid.obj.cookie, _, some ⟨k, .created, sid.obj⟩, rfl, ⟨hn', hne', heach', ?_⟩, by simp [← hu, transition]⟩
          simp only [hall, ↓reduceIte, Bus.apply]
          rw [← hu, ho.1]
        · simp only [hall, Bool.false_eq_true, ↓reduceIte]
          refine ⟨none, _, none, rfl, ⟨hn', hne', heach', ?_⟩, by simp [transition]⟩
          simp [hall]
    · refine ⟨cookie, svcs, none, by simp [hu], ⟨hn, hne, ?_, by simpa [Bus.apply] using hck⟩, by cases cookie <;> simp [transition]⟩
      intro s c hs
      simp only [Bus.apply]
      have : (sid.obj.uuid, sid.uuid) ≠ (o, s) := by intro he; simp only [Prod.mk.injEq] at he; exact hu he.1
      rw [AL.find?_insert_ne _ _ this]; exact heach s c hs
  | svcDestroyed sid =>
    simp only [Entry.handle]
    by_cases hu : sid.obj.uuid = o
    · simp only [hu, ne_eq, not_true_eq_false, ↓reduceIte]
      cases hf : AL.find? sid.uuid svcs with
      | none =>
        refine ⟨cookie, svcs, none, rfl, ⟨hn, hne, ?_, by simpa [Bus.apply] using hck⟩, by cases cookie <;> simp [transition]⟩
        intro s c hs
        simp only [Bus.apply]
        have : (sid.obj.uuid, sid.uuid) ≠ (o, s) := by
          intro he; simp only [Prod.mk.injEq] at he; rw [he.2] at hf; rw [hf] at hs; simp at hs
        rw [AL.find?_erase_ne _ this]; exact heach s c hs
      | some cur =>
        have hcur := heach _ _ hf
        simp only [Bus.okEv] at ho
        rw [← hu, ho] at hcur; simp at hcur; subst hcur
        simp only [ne_eq, not_true_eq_false, ↓reduceIte]
        have hn' : AL.NodupKeys (AL.insert sid.uuid (none : Option Cookie) svcs) := AL.nodupKeys_insert hn
        have hne' : AL.insert sid.uuid (none : Option Cookie) svcs ≠ [] := by
          cases svcs <;> simp [AL.insert]; split <;> simp
        have heach' : ∀ s c, AL.find? s (AL.insert sid.uuid (none : Option Cookie) svcs) = some c →
            c = (AL.find? (o, s) (b.apply (.svcDestroyed sid)).svcs).map (·.2) := by
          intro s c hs
          simp only [Bus.apply]
          rw [AL.find?_insert] at hs
          split at hs
          · rename_i he; subst he; simp at hs; subst hs; simp [hu]
          · rename_i he
            have : (sid.obj.uuid, sid.uuid) ≠ (o, s) := by intro h2; simp only [Prod.mk.injEq] at h2; exact he h2.2
            rw [AL.find?_erase_ne _ this]; exact heach s c hs
        have hnew : (AL.insert sid.uuid (none : Option Cookie) svcs).all (fun p => p.2.isSome) = false :=
          not_all_of_none (s := sid.uuid) hn' (AL.find?_insert_self _ _ _)
        have hobj : AL.find? o b.objs = some sid.obj.cookie := by rw [← hu]; exact hi _ _ _ _ ho
        cases cookie with
        | none =>
          exact ⟨none, _, none, by simp, ⟨hn', hne', heach', by simp [hnew]⟩, by simp [transition]⟩
        | some c =>
          have hc : c = sid.obj.cookie := by
            split at hck
            · rw [hobj] at hck; simpa using hck
            · simp at hck
          subst hc
          exact ⟨none, _, some ⟨k, .destroyed, sid.obj⟩, by simp, ⟨hn', hne', heach', by simp [hnew]⟩, by simp [← hu, transition]⟩
    · refine ⟨cookie, svcs, none, by simp [hu], ⟨hn, hne, ?_, by simpa [Bus.apply] using hck⟩, by cases cookie <;> simp [transition]⟩
      intro s c hs
      simp only [Bus.apply]
      have : (sid.obj.uuid, sid.uuid) ≠ (o, s) := by intro he; simp only [Prod.mk.injEq] at he; exact hu he.1
      rw [AL.find?_erase_ne _ this]; exact heach s c hs

/-! ### any object with a set of services -/

theorem all_iff_find' {K V : Type} [DecidableEq K] {m : List (K × V)} (P : K × V → Bool) (hn : AL.NodupKeys m) :
    m.all P = true ↔ ∀ k v, AL.find? k m = some v → P (k, v) = true := by
  rw [List.all_eq_true]
  constructor
  · intro h k v hf; exact h (k, v) (AL.find?_some_mem hf)
  · intro h p hp; exact h p.1 p.2 (find_of_mem_nodup hn hp)

/-- the condition "object `ou` has every required service", as the entry sees it and as the bus has it -/
def hasAll (svcs : List (Uuid × List (Uuid × Cookie))) (b : Bus) (ou : Uuid) : Bool :=
  svcs.all (fun p => (AL.find? (ou, p.1) b.svcs).isSome)

structure RelAny (svcs : List (Uuid × List (Uuid × Cookie))) (created : List (Uuid × Cookie)) (b : Bus) : Prop where
  nodup : AL.NodupKeys svcs
  each : ∀ s m, AL.find? s svcs = some m → ∀ ou, AL.find? ou m = (AL.find? (ou, s) b.svcs).map (·.2)
  created : ∀ ou, AL.find? ou created = if hasAll svcs b ou then AL.find? ou b.objs else none

theorem all_congr_mem {α : Type} (f g : α → Bool) : ∀ (l : List α), (∀ p ∈ l, f p = g p) → l.all f = l.all g
  | [], _ => rfl
  | a :: l, h => by
    simp only [List.all_cons, h a (List.mem_cons_self)]
    rw [all_congr_mem f g l (fun p hp => h p (List.mem_cons_of_mem _ hp))]

theorem hasAll_congr {svcs : List (Uuid × List (Uuid × Cookie))} {b b' : Bus} {ou : Uuid}
    (h : ∀ p ∈ svcs, (AL.find? (ou, p.1) b'.svcs).isSome = (AL.find? (ou, p.1) b.svcs).isSome) :
    hasAll svcs b' ou = hasAll svcs b ou := by
  unfold hasAll
  apply all_congr_mem
  intro p hp; exact h p hp

theorem hasAll_keys {svcs svcs' : List (Uuid × List (Uuid × Cookie))} {b : Bus} {ou : Uuid}
    (hk : svcs'.map Prod.fst = svcs.map Prod.fst) : hasAll svcs' b ou = hasAll svcs b ou := by
  unfold hasAll
  have : ∀ (l : List (Uuid × List (Uuid × Cookie))), l.all (fun p => (AL.find? (ou, p.1) b.svcs).isSome) =
      (l.map Prod.fst).all (fun s => (AL.find? (ou, s) b.svcs).isSome) := by
    intro l; induction l with
    | nil => rfl
    | cons p l ih => simp [List.all_cons, ih]
  rw [this, this, hk]

/-- the entry's own test after a service event equals the bus-level condition -/
theorem entry_all_eq {svcs : List (Uuid × List (Uuid × Cookie))} {b : Bus} {ou : Uuid} (hn : AL.NodupKeys svcs)
    (heach : ∀ s m, AL.find? s svcs = some m → ∀ ou, AL.find? ou m = (AL.find? (ou, s) b.svcs).map (·.2)) :
    svcs.all (fun p => (AL.find? ou p.2).isSome) = hasAll svcs b ou := by
  unfold hasAll
  apply all_congr_mem
  intro p hp
  have := heach p.1 p.2 (find_of_mem_nodup hn hp) ou
  rw [this]; cases AL.find? (ou, p.1) b.svcs <;> simp

theorem not_hasAll_of_missing {svcs : List (Uuid × List (Uuid × Cookie))} {b : Bus} {ou s : Uuid} {m}
    (hs : AL.find? s svcs = some m) (hmiss : AL.find? (ou, s) b.svcs = none) : hasAll svcs b ou = false := by
  unfold hasAll
  rw [List.all_eq_false]
  exact ⟨(s, m), AL.find?_some_mem hs, by simp [hmiss]⟩

def evObj : BusEv → Uuid
  | .objCreated id | .objDestroyed id => id.uuid
  | .svcCreated sid | .svcDestroyed sid => sid.obj.uuid

theorem svc_key_ne {a b c d : Uuid} (h : a ≠ c ∨ b ≠ d) : (a, b) ≠ (c, d) := by
  intro he; simp only [Prod.mk.injEq] at he; rcases h with h | h
  · exact h he.1
  · exact h he.2

theorem any_step {k : Nat} {svcs : List (Uuid × List (Uuid × Cookie))} {created : List (Uuid × Cookie)} {b : Bus} {e : BusEv}
    (hr : RelAny svcs created b) (hi : b.Inv) (ho : b.okEv e) :
    ∃ svcs' created' dev, (Entry.any k svcs created).handle e = .ok (.any k svcs' created', dev) ∧
      RelAny svcs' created' (b.apply e) ∧
      dev = transition k (evObj e) (AL.find? (evObj e) created) (AL.find? (evObj e) created') ∧
      (∀ ou, ou ≠ evObj e → AL.find? ou created' = AL.find? ou created) := by
  obtain ⟨hn, heach, hcr⟩ := hr
  cases e with
  | objCreated id =>
    simp only [Bus.okEv] at ho
    simp only [Entry.handle, evObj]
    by_cases hemp : svcs.isEmpty = true
    · have hs : svcs = [] := List.isEmpty_iff.mp hemp
      subst hs
      have hnone : AL.find? id.uuid created = none := by rw [hcr]; simp [hasAll, ho]
      simp only [List.isEmpty_nil, ↓reduceIte, hnone, Option.isSome_none, Bool.false_eq_true]
      refine ⟨[], _, _, rfl, ⟨hn, by intro s m h; simp at h, ?_⟩, by simp [transition], ?_⟩
      · intro ou; simp only [hasAll, List.all_nil, ↓reduceIte, Bus.apply]
        rw [AL.find?_insert, AL.find?_insert]; split
        · rfl
        · have := hcr ou; simpa [hasAll] using this
      · intro ou hne; rw [AL.find?_insert_ne _ _ (Ne.symm hne)]
    · simp only [hemp, Bool.false_eq_true, ↓reduceIte]
      refine ⟨svcs, created, none, rfl, ⟨hn, by simpa [Bus.apply] using heach, ?_⟩, by cases AL.find? id.uuid created <;> simp [transition], fun _ _ => rfl⟩
      intro ou
      have hsame : hasAll svcs (b.apply (.objCreated id)) ou = hasAll svcs b ou := by simp [hasAll, Bus.apply]
      rw [hsame, hcr ou]
      simp only [Bus.apply]
      by_cases hu : id.uuid = ou
      · subst hu
        -- the object did not exist, so it has none of the (non-empty) required services
        obtain ⟨p, hp⟩ : ∃ p, p ∈ svcs := by
          cases svcs with
          | nil => simp at hemp
          | cons p r => exact ⟨p, List.mem_cons_self⟩
        have hfs := find_of_mem_nodup hn hp
        have hmiss : AL.find? (id.uuid, p.1) b.svcs = none := by
          cases hf : AL.find? (id.uuid, p.1) b.svcs with
          | none => rfl
          | some q => have := hi _ _ _ _ (show AL.find? (id.uuid, p.1) b.svcs = some (q.1, q.2) from hf); rw [ho] at this; simp at this
        rw [not_hasAll_of_missing hfs hmiss]; simp
      · rw [AL.find?_insert_ne _ _ hu]
  | objDestroyed id =>
    simp only [Bus.okEv] at ho
    simp only [Entry.handle, evObj]
    have hsame : ∀ ou, hasAll svcs (b.apply (.objDestroyed id)) ou = hasAll svcs b ou := by intro ou; simp [hasAll, Bus.apply]
    cases hf : AL.find? id.uuid created with
    | none =>
      refine ⟨svcs, created, none, rfl, ⟨hn, by simpa [Bus.apply] using heach, ?_⟩, by simp [transition, hf], fun _ _ => rfl⟩
      intro ou
      rw [hsame, hcr ou]
      simp only [Bus.apply]
      by_cases hu : id.uuid = ou
      · subst hu
        have := hcr id.uuid; rw [hf] at this
        rw [AL.find?_erase_self]
        split at this
        · rw [← this]
        · simp_all
      · rw [AL.find?_erase_ne _ hu]
    | some c =>
      have hc : c = id.cookie := by
        have := hcr id.uuid; rw [hf] at this
        split at this
        · rw [ho.1] at this; simpa using this
        · simp at this
      subst hc
      simp only [ne_eq, not_true_eq_false, ↓reduceIte]
      refine ⟨svcs, _, _, rfl, ⟨hn, by simpa [Bus.apply] using heach, ?_⟩, by simp [transition, hf], ?_⟩
      · intro ou
        rw [hsame]
        simp only [Bus.apply]
        by_cases hu : id.uuid = ou
        · subst hu; rw [AL.find?_erase_self, AL.find?_erase_self]; split <;> rfl
        · rw [AL.find?_erase_ne _ hu, AL.find?_erase_ne _ hu]; exact hcr ou
      · intro ou hne; rw [AL.find?_erase_ne _ (Ne.symm hne)]
  | svcCreated sid =>
    simp only [Bus.okEv] at ho
    simp only [Entry.handle, evObj]
    cases hf : AL.find? sid.uuid svcs with
    | none =>
      -- not one of the required services: nothing the entry looks at changes
      have hsame : ∀ ou, hasAll svcs (b.apply (.svcCreated sid)) ou = hasAll svcs b ou := by
        intro ou; apply hasAll_congr; intro p hp
        have hpk : p.1 ≠ sid.uuid := by intro he; have := find_of_mem_nodup hn hp; rw [he, hf] at this; simp at this
        simp only [Bus.apply]; rw [AL.find?_insert_ne _ _ (svc_key_ne (Or.inr (Ne.symm hpk)))]
      refine ⟨svcs, created, none, rfl, ⟨hn, ?_, ?_⟩, by cases AL.find? sid.obj.uuid created <;> simp [transition], fun _ _ => rfl⟩
      · intro s m hs ou
        have hsk : s ≠ sid.uuid := by intro he; rw [he, hf] at hs; simp at hs
        simp only [Bus.apply]; rw [AL.find?_insert_ne _ _ (svc_key_ne (Or.inr (Ne.symm hsk)))]; exact heach s m hs ou
      · intro ou; rw [hsame, hcr ou]; simp [Bus.apply]
    | some objs =>
      have hnodup : AL.find? sid.obj.uuid objs = none := by rw [heach _ _ hf, ho.2]; rfl
      simp only [hnodup, Option.isSome_none, Bool.false_eq_true, ↓reduceIte]
      have hn' : AL.NodupKeys (AL.insert sid.uuid (AL.insert sid.obj.uuid sid.cookie objs) svcs) := AL.nodupKeys_insert hn
      have heach' : ∀ s m, AL.find? s (AL.insert sid.uuid (AL.insert sid.obj.uuid sid.cookie objs) svcs) = some m → ∀ ou,
          AL.find? ou m = (AL.find? (ou, s) (b.apply (.svcCreated sid)).svcs).map (·.2) := by
        intro s m hs ou
        simp only [Bus.apply]
        rw [AL.find?_insert] at hs
        split at hs
        · rename_i he; subst he
          simp only [Option.some.injEq] at hs; subst hs
          rw [AL.find?_insert, AL.find?_insert]
          by_cases h1 : sid.obj.uuid = ou
          · subst h1; simp
          · have : (sid.obj.uuid, sid.uuid) ≠ (ou, sid.uuid) := svc_key_ne (Or.inl h1)
            simp only [h1, this, ↓reduceIte]; exact heach _ _ hf ou
        · rename_i he
          rw [AL.find?_insert_ne _ _ (svc_key_ne (Or.inr he))]; exact heach s m hs ou
      have hkeys : (AL.insert sid.uuid (AL.insert sid.obj.uuid sid.cookie objs) svcs).map Prod.fst = svcs.map Prod.fst :=
        AL.keys_insert_of_some hf
      have htest := entry_all_eq (ou := sid.obj.uuid) hn' heach'
      rw [hasAll_keys hkeys] at htest
      -- before the event the object lacked this service
      have hbefore : AL.find? sid.obj.uuid created = none := by
        rw [hcr, not_hasAll_of_missing hf ho.2]; simp
      have hother : ∀ ou, ou ≠ sid.obj.uuid → hasAll svcs (b.apply (.svcCreated sid)) ou = hasAll svcs b ou := by
        intro ou hne; apply hasAll_congr; intro p _
        simp only [Bus.apply]; rw [AL.find?_insert_ne _ _ (svc_key_ne (Or.inl (Ne.symm hne)))]
      by_cases hall : hasAll svcs (b.apply (.svcCreated sid)) sid.obj.uuid = true
      · rw [htest, hall]
        simp only [↓reduceIte, hbefore, Option.isSome_none, Bool.false_eq_true]
        refine ⟨_, _, _, rfl, ⟨hn', heach', ?_⟩, by simp [transition, hbefore], ?_⟩
        · intro ou
          rw [hasAll_keys hkeys]
          by_cases hu : ou = sid.obj.uuid
          · subst hu; rw [hall]; simp [Bus.apply, ho.1]
          · rw [AL.find?_insert_ne _ _ (Ne.symm hu), hother ou hu, hcr ou]; simp [Bus.apply]
        · intro ou hne; rw [AL.find?_insert_ne _ _ (Ne.symm hne)]
      · have hall' : hasAll svcs (b.apply (.svcCreated sid)) sid.obj.uuid = false := by simpa using hall
        rw [htest, hall']
        simp only [Bool.false_eq_true, ↓reduceIte]
        refine ⟨_, created, none, rfl, ⟨hn', heach', ?_⟩, by simp [transition, hbefore], fun _ _ => rfl⟩
        intro ou
        rw [hasAll_keys hkeys]
        by_cases hu : ou = sid.obj.uuid
        · subst hu; rw [hall', hbefore]; simp
        · rw [hother ou hu, hcr ou]; simp [Bus.apply]
  | svcDestroyed sid =>
    simp only [Bus.okEv] at ho
    simp only [Entry.handle, evObj]
    cases hf : AL.find? sid.uuid svcs with
    | none =>
      have hsame : ∀ ou, hasAll svcs (b.apply (.svcDestroyed sid)) ou = hasAll svcs b ou := by
        intro ou; apply hasAll_congr; intro p hp
        have hpk : p.1 ≠ sid.uuid := by intro he; have := find_of_mem_nodup hn hp; rw [he, hf] at this; simp at this
        simp only [Bus.apply]; rw [AL.find?_erase_ne _ (svc_key_ne (Or.inr (Ne.symm hpk)))]
      refine ⟨svcs, created, none, rfl, ⟨hn, ?_, ?_⟩, by cases AL.find? sid.obj.uuid created <;> simp [transition], fun _ _ => rfl⟩
      · intro s m hs ou
        have hsk : s ≠ sid.uuid := by intro he; rw [he, hf] at hs; simp at hs
        simp only [Bus.apply]; rw [AL.find?_erase_ne _ (svc_key_ne (Or.inr (Ne.symm hsk)))]; exact heach s m hs ou
      · intro ou; rw [hsame, hcr ou]; simp [Bus.apply]
    | some objs =>
      have hthere : AL.find? sid.obj.uuid objs = some sid.cookie := by rw [heach _ _ hf, ho]; rfl
      simp only [hthere, ne_eq, not_true_eq_false, ↓reduceIte]
      have hn' : AL.NodupKeys (AL.insert sid.uuid (AL.erase sid.obj.uuid objs) svcs) := AL.nodupKeys_insert hn
      have heach' : ∀ s m, AL.find? s (AL.insert sid.uuid (AL.erase sid.obj.uuid objs) svcs) = some m → ∀ ou,
          AL.find? ou m = (AL.find? (ou, s) (b.apply (.svcDestroyed sid)).svcs).map (·.2) := by
        intro s m hs ou
        simp only [Bus.apply]
        rw [AL.find?_insert] at hs
        split at hs
        · rename_i he; subst he
          simp only [Option.some.injEq] at hs; subst hs
          rw [AL.find?_erase, AL.find?_erase]
          by_cases h1 : sid.obj.uuid = ou
          · subst h1; simp
          · have : (sid.obj.uuid, sid.uuid) ≠ (ou, sid.uuid) := svc_key_ne (Or.inl h1)
            simp only [h1, this, ↓reduceIte]; exact heach _ _ hf ou
        · rename_i he
          rw [AL.find?_erase_ne _ (svc_key_ne (Or.inr he))]; exact heach s m hs ou
      have hkeys : (AL.insert sid.uuid (AL.erase sid.obj.uuid objs) svcs).map Prod.fst = svcs.map Prod.fst :=
        AL.keys_insert_of_some hf
      have hafter : hasAll svcs (b.apply (.svcDestroyed sid)) sid.obj.uuid = false :=
        not_hasAll_of_missing hf (by simp [Bus.apply])
      have hother : ∀ ou, ou ≠ sid.obj.uuid → hasAll svcs (b.apply (.svcDestroyed sid)) ou = hasAll svcs b ou := by
        intro ou hne; apply hasAll_congr; intro p _
        simp only [Bus.apply]; rw [AL.find?_erase_ne _ (svc_key_ne (Or.inl (Ne.symm hne)))]
      have hobj : AL.find? sid.obj.uuid b.objs = some sid.obj.cookie := hi _ _ _ _ ho
      cases hc : AL.find? sid.obj.uuid created with
      | none =>
        refine ⟨_, created, none, rfl, ⟨hn', heach', ?_⟩, by simp [transition, hc], fun _ _ => rfl⟩
        intro ou
        rw [hasAll_keys hkeys]
        by_cases hu : ou = sid.obj.uuid
        · subst hu; rw [hafter, hc]; simp
        · rw [hother ou hu, hcr ou]; simp [Bus.apply]
      | some c =>
        have hcc : c = sid.obj.cookie := by
          have := hcr sid.obj.uuid; rw [hc] at this
          split at this
          · rw [hobj] at this; simpa using this
          · simp at this
        subst hcc
        simp only [ne_eq, not_true_eq_false, ↓reduceIte]
        refine ⟨_, _, _, rfl, ⟨hn', heach', ?_⟩, by simp [transition, hc], ?_⟩
        · intro ou
          rw [hasAll_keys hkeys]
          by_cases hu : ou = sid.obj.uuid
          · subst hu; rw [hafter, AL.find?_erase_self]; simp
          · rw [AL.find?_erase_ne _ (Ne.symm hu), hother ou hu, hcr ou]; simp [Bus.apply]
        · intro ou hne; rw [AL.find?_erase_ne _ (Ne.symm hne)]

/-! ### all entry kinds, whole histories -/

/-- the entry's state is the view of the bus it is meant to be -/
def Rel : Entry → Bus → Prop
  | .any _ svcs created, b => RelAny svcs created b
  | .withSvcs _ o cookie svcs, b => RelWith o cookie svcs b
  | .bare _ o cookie, b => RelBare o cookie b

/-- the cookie under which the entry currently reports object `ou`, if it does -/
def Entry.reports : Entry → Uuid → Option Cookie
  | .any _ _ created, ou => AL.find? ou created
  | .withSvcs _ o cookie _, ou => if ou = o then cookie else none
  | .bare _ o cookie, ou => if ou = o then cookie else none

theorem entry_step {en : Entry} {b : Bus} {e : BusEv} (hr : Rel en b) (hi : b.Inv) (ho : b.okEv e) :
    ∃ en' dev, en.handle e = .ok (en', dev) ∧ Rel en' (b.apply e) ∧ en'.key = en.key ∧
      (∃ ou, dev = transition en.key ou (en.reports ou) (en'.reports ou) ∧ ∀ x, x ≠ ou → en'.reports x = en.reports x) := by
  cases en with
  | any k svcs created =>
    obtain ⟨svcs', created', dev, h1, h2, h3, h4⟩ := any_step (k := k) hr hi ho
    exact ⟨_, dev, h1, h2, rfl, evObj e, h3, h4⟩
  | withSvcs k o cookie svcs =>
    obtain ⟨cookie', svcs', dev, h1, h2, h3⟩ := with_step (k := k) hr hi ho
    refine ⟨_, dev, h1, h2, rfl, o, ?_, ?_⟩
    · simp only [Entry.reports, Entry.key, ↓reduceIte]; exact h3
    · intro x hx; simp [Entry.reports, hx]
  | bare k o cookie =>
    obtain ⟨cookie', dev, h1, h2, h3⟩ := bare_step (k := k) hr ho
    refine ⟨_, dev, h1, h2, rfl, o, ?_, ?_⟩
    · simp only [Entry.reports, Entry.key, ↓reduceIte]; exact h3
    · intro x hx; simp [Entry.reports, hx]

/-- a history the broker can produce from bus state `b` -/
def okHist : Bus → List BusEv → Prop
  | _, [] => True
  | b, e :: es => b.okEv e ∧ okHist (b.apply e) es

def Bus.run (b : Bus) (es : List BusEv) : Bus := es.foldl Bus.apply b

/-- fold an entry over a history, collecting its events -/
def Entry.run : Entry → List BusEv → Except DAssert (Entry × List DEvent)
  | en, [] => .ok (en, [])
  | en, e :: es =>
    match en.handle e with
    | .error a => .error a
    | .ok (en', dev) =>
      match Entry.run en' es with
      | .error a => .error a
      | .ok (en'', devs) => .ok (en'', (match dev with | some d => [d] | none => []) ++ devs)

/-- over every history the broker can produce: no `debug_assert!` of the entry code fails, and the entry
ends up as the view of the final bus state -/
theorem entry_run (es : List BusEv) : ∀ (en : Entry) (b : Bus), Rel en b → b.Inv → okHist b es →
    ∃ en' devs, en.run es = .ok (en', devs) ∧ Rel en' (b.run es) ∧ (b.run es).Inv := by
  induction es with
  | nil => intro en b hr hi _; exact ⟨en, [], rfl, hr, hi⟩
  | cons e es ih =>
    intro en b hr hi ho
    obtain ⟨en1, dev, h1, h2, _, _⟩ := entry_step hr hi ho.1
    obtain ⟨en2, devs, h3, h4, h5⟩ := ih en1 (b.apply e) h2 (Bus.inv_apply hi ho.1) ho.2
    refine ⟨en2, (match dev with | some d => [d] | none => []) ++ devs, ?_, h4, h5⟩
    simp only [Entry.run, h1, h3]
    cases dev <;> rfl

/-- new entries (and entries after `reset`) are the view of the empty bus -/
theorem rel_new_any (k : Nat) (services : List Uuid) (hn : services.Nodup) : Rel (Entry.mkAny k services) {} := by
  have hkeys : ∀ (l : List Uuid), (l.map (fun s => (s, ([] : List (Uuid × Cookie))))).map Prod.fst = l := by
    intro l; induction l <;> simp_all
  refine ⟨?_, ?_, ?_⟩
  · simp only [AL.NodupKeys, Entry.mkAny]; rw [hkeys]; exact hn
  · intro s m hs ou
    have := AL.find?_some_mem hs
    simp only [List.mem_map] at this
    obtain ⟨x, _, hx⟩ := this
    simp only [Prod.mk.injEq] at hx
    rw [← hx.2]; simp
  · intro ou; simp

theorem rel_new_specific (k : Nat) (o : Uuid) (services : List Uuid) (hn : services.Nodup) :
    Rel (Entry.mkSpecific k o services) {} := by
  unfold Entry.mkSpecific
  split
  · simp [Rel, RelBare]
  · rename_i hne
    have hkeys : ∀ (l : List Uuid), (l.map (fun s => (s, (none : Option Cookie)))).map Prod.fst = l := by
      intro l; induction l <;> simp_all
    refine ⟨?_, ?_, ?_, ?_⟩
    · simp only [AL.NodupKeys]; rw [hkeys]; exact hn
    · intro h; apply hne; cases services <;> simp_all
    · intro s c hs
      have := AL.find?_some_mem hs
      simp only [List.mem_map] at this
      obtain ⟨x, _, hx⟩ := this
      simp only [Prod.mk.injEq] at hx
      rw [← hx.2]; simp
    · simp

/-! ### what a related entry reports -/

/-- a bare-object entry reports the object exactly while it exists, with its current cookie -/
theorem bare_reports {k : Nat} {o : Uuid} {cookie : Option Cookie} {b : Bus} (h : Rel (.bare k o cookie) b) (ou : Uuid) :
    (Entry.bare k o cookie).reports ou = if ou = o then AL.find? o b.objs else none := by
  simp only [Entry.reports]; split
  · exact h
  · rfl

/-- an object-with-services entry reports the object exactly while it has every required service, with
its current cookie and the current service cookies -/
theorem with_reports {k : Nat} {o : Uuid} {cookie : Option Cookie} {svcs : List (Uuid × Option Cookie)} {b : Bus}
    (h : Rel (.withSvcs k o cookie svcs) b) :
    (cookie = if svcs.all (fun p => (AL.find? (o, p.1) b.svcs).isSome) then AL.find? o b.objs else none) ∧
    ∀ s c, AL.find? s svcs = some c → c = (AL.find? (o, s) b.svcs).map (·.2) := by
  obtain ⟨hn, _, heach, hck⟩ := h
  refine ⟨?_, heach⟩
  rw [hck]
  have hb : svcs.all (fun p => p.2.isSome) = svcs.all (fun p => (AL.find? (o, p.1) b.svcs).isSome) := by
    apply all_congr_mem
    intro p hp
    have := heach p.1 p.2 (find_of_mem_nodup hn hp)
    rw [this]; cases AL.find? (o, p.1) b.svcs <;> simp
  rw [hb]

/-- an any-object entry reports exactly the existing objects that have every required service, with their
current cookies; the service cookies it hands out are the current ones -/
theorem any_reports {k : Nat} {svcs : List (Uuid × List (Uuid × Cookie))} {created : List (Uuid × Cookie)} {b : Bus}
    (h : Rel (.any k svcs created) b) (ou : Uuid) :
    (Entry.any k svcs created).reports ou = (if hasAll svcs b ou then AL.find? ou b.objs else none) ∧
    ∀ s m, AL.find? s svcs = some m → AL.find? ou m = (AL.find? (ou, s) b.svcs).map (·.2) :=
  ⟨h.created ou, fun s m hs => h.each s m hs ou⟩

end Aldrin.Disc
