import Aldrin.Model.Bytes
namespace Aldrin

@[simp] theorem leBytes_length (k n : Nat) : (leBytes k n).length = k := by
  induction k generalizing n with
  | zero => simp [leBytes]
  | succ k ih => simp [leBytes, ih]

theorem ofLeBytes_leBytes (k n : Nat) : ofLeBytes (leBytes k n) = n % 256 ^ k := by
  induction k generalizing n with
  | zero => simp [leBytes, ofLeBytes, Nat.mod_one]
  | succ k ih =>
    simp only [leBytes, ofLeBytes, ih]
    have h1 : (UInt8.ofNat (n % 256)).toNat = n % 256 := by
      simp [UInt8.toNat_ofNat']
    rw [h1, Nat.pow_succ, Nat.mul_comm (256 ^ k) 256, Nat.mod_mul]

theorem lt_pow_sigBytesAux : ∀ (f n : Nat), n ≤ f → n < 256 ^ sigBytesAux f n := by
  intro f
  induction f with
  | zero => intro n h; have : n = 0 := by omega
            subst this; simp [sigBytesAux]
  | succ f ih =>
    intro n h
    simp only [sigBytesAux]
    split
    · subst_vars; simp
    · rename_i hn
      have := ih (n / 256) (by omega)
      rw [Nat.add_comm, Nat.pow_succ]
      omega

theorem lt_pow_sigBytes (n : Nat) : n < 256 ^ sigBytes n := lt_pow_sigBytesAux n n (Nat.le_refl n)

theorem sigBytesAux_le : ∀ (f n N : Nat), n < 256 ^ N → sigBytesAux f n ≤ N := by
  intro f
  induction f with
  | zero => intro n N _; simp [sigBytesAux]
  | succ f ih =>
    intro n N h
    simp only [sigBytesAux]
    split
    · omega
    · rename_i hn
      cases N with
      | zero => simp at h; omega
      | succ N =>
        have : n / 256 < 256 ^ N := by rw [Nat.pow_succ] at h; omega
        have := ih _ _ this
        omega

theorem sigBytes_le {n N : Nat} (h : n < 256 ^ N) : sigBytes n ≤ N := sigBytesAux_le n n N h

theorem sigBytes_lt_256 {n : Nat} (h : sigBytes n < 2) : n < 256 := by
  have := lt_pow_sigBytes n
  have h2 : sigBytes n = 0 ∨ sigBytes n = 1 := by omega
  rcases h2 with h2 | h2 <;> simp [h2] at this <;> omega

theorem ofLeBytes_lt (bs : Bytes) : ofLeBytes bs < 256 ^ bs.length := by
  induction bs with
  | nil => simp [ofLeBytes]
  | cons b bs ih =>
    simp only [ofLeBytes, List.length_cons, Nat.pow_succ]
    have := b.toNat_lt
    omega

/-- Reading back a written varint: the value, and exactly the written bytes consumed. -/
theorem getVarint_putVarint (N n : Nat) (hN1 : 1 ≤ N) (hN8 : N ≤ 8) (h : n < 256 ^ N) (rest : Bytes) :
    getVarint N (putVarint N n ++ rest) = .ok (n, rest) := by
  have hk := sigBytes_le h
  unfold putVarint
  simp only
  split
  · rename_i h2
    have hlt : 255 - N + sigBytes n < 256 := by omega
    simp only [List.cons_append, getVarint]
    have e1 : (UInt8.ofNat (255 - N + sigBytes n)).toNat = 255 - N + sigBytes n := by
      simp [UInt8.toNat_ofNat']; omega
    rw [e1]
    have e2 : 255 - N + sigBytes n > 255 - N := by omega
    have e3 : 255 - N + sigBytes n + N - 255 = sigBytes n := by omega
    simp only [e2, ↓reduceIte, e3]
    have e4 : ¬ (leBytes (sigBytes n) n ++ rest).length < sigBytes n := by simp
    simp only [short_eq, e4, decide_false, Bool.false_eq_true, ↓reduceIte]
    have e5 : List.take (sigBytes n) (leBytes (sigBytes n) n ++ rest) = leBytes (sigBytes n) n := by
      rw [List.take_append_of_le_length (by simp)]
      exact List.take_of_length_le (by simp)
    have e6 : List.drop (sigBytes n) (leBytes (sigBytes n) n ++ rest) = rest := by
      rw [List.drop_append_of_le_length (by simp)]
      simp [List.drop_of_length_le]
    rw [e5, e6, ofLeBytes_leBytes, Nat.mod_eq_of_lt (lt_pow_sigBytes n)]
  · rename_i h2
    have hn : n < 256 := sigBytes_lt_256 (by omega)
    have en : (UInt8.ofNat n).toNat = n := by simp [UInt8.toNat_ofNat']; omega
    split
    · rename_i h3
      have e1 : (UInt8.ofNat (255 - N + 1)).toNat = 255 - N + 1 := by
        simp [UInt8.toNat_ofNat']; omega
      simp only [List.cons_append, getVarint, e1]
      have e2 : 255 - N + 1 > 255 - N := by omega
      have e3 : 255 - N + 1 + N - 255 = 1 := by omega
      simp [e2, e3, ofLeBytes, en]
    · rename_i h3
      simp only [List.cons_append, List.nil_append, getVarint, en]
      simp [h3]

/-- Skipping a varint succeeds exactly when reading it does, and leaves the same rest. -/
theorem skipVarint_eq_getVarint (N : Nat) (bs : Bytes) :
    skipVarint N bs = (getVarint N bs).map (·.2) := by
  cases bs with
  | nil => rfl
  | cons first r =>
    simp only [skipVarint, getVarint]
    by_cases h1 : first.toNat > 255 - N
    · by_cases h2 : r.length < first.toNat + N - 255
      · simp [h1, h2, Except.map]
      · simp [h1, h2, Except.map]
    · simp [h1, Except.map]

theorem putVarint_length_pos (N n : Nat) : 0 < (putVarint N n).length := by
  unfold putVarint; simp only; split <;> (try split) <;> simp

theorem putVarint_length_le (N n : Nat) (hN : 1 ≤ N) (h : n < 256 ^ N) : (putVarint N n).length ≤ N + 1 := by
  have := sigBytes_le h
  unfold putVarint; simp only; split <;> (try split) <;> simp <;> omega

/-- A successful read consumes between 1 and `N+1` bytes and yields an `N`-byte value. -/
theorem getVarint_ok {N : Nat} {bs rest : Bytes} {n : Nat} (hN1 : 1 ≤ N) (hN8 : N ≤ 8)
    (h : getVarint N bs = .ok (n, rest)) :
    rest.length < bs.length ∧ bs.length ≤ rest.length + N + 1 ∧ n < 256 ^ N ∧
      ∃ pre, bs = pre ++ rest := by
  cases bs with
  | nil => simp [getVarint] at h
  | cons first r =>
    simp only [getVarint] at h
    have hf := first.toNat_lt
    split at h
    · split at h
      · simp at h
      · rename_i h1 h2
        simp only [Except.ok.injEq, Prod.mk.injEq] at h
        obtain ⟨rfl, rfl⟩ := h
        refine ⟨by simp; omega, by simp; omega, ?_, first :: r.take (first.toNat + N - 255), by simp⟩
        have := ofLeBytes_lt (r.take (first.toNat + N - 255))
        have hl : (r.take (first.toNat + N - 255)).length ≤ N := by simp; omega
        exact Nat.lt_of_lt_of_le this (Nat.pow_le_pow_right (by omega) hl)
    · rename_i h1
      simp only [Except.ok.injEq, Prod.mk.injEq] at h
      obtain ⟨rfl, rfl⟩ := h
      refine ⟨by simp, by simp, ?_, [first], by simp⟩
      have : first.toNat < 256 ^ 1 := by simpa using hf
      cases N with
      | zero => omega
      | succ N => exact Nat.lt_of_lt_of_le this (Nat.pow_le_pow_right (by omega) (by omega))

/-- Zig-zag round trip. -/
theorem zzDec_zzEnc (i : Int) : zzDec (zzEnc i) = i := by
  unfold zzDec zzEnc
  split <;> split <;> omega

theorem zzEnc_zzDec (n : Nat) : zzEnc (zzDec n) = n := by
  unfold zzDec zzEnc
  split <;> split <;> omega

theorem zzEnc_lt {w : Nat} {i : Int} (h1 : -(2 ^ (w - 1) : Int) ≤ i) (h2 : i < (2 ^ (w - 1) : Int))
    (hw : 1 ≤ w) : zzEnc i < 2 ^ w := by
  have : (2 : Int) ^ w = 2 * 2 ^ (w - 1) := by
    rw [show w = (w - 1) + 1 by omega, Int.pow_succ]; simp; omega
  unfold zzEnc
  have h3 : ((2 ^ w : Nat) : Int) = (2 : Int) ^ w := by simp
  split <;> omega

end Aldrin
