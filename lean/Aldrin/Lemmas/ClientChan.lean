/-
Producer, broker and consumer of one established channel agree on the capacity, for every schedule of sends, takes
and polls: what the sender believes it may send (its `capacity` plus the announcements still in its queue) is the
broker's credit of the sender; what the receiver still has (`cur_capacity`) is the broker's credit of the receiver
plus the items it has not taken yet. Hence no `debug_assert!` of `Sender` / `Receiver` fails, the broker never refuses
an item or a grant, and a sender whose receiver has taken every item may send.
-/
import Aldrin.Model.ClientChan

namespace Aldrin.ClientChan
open Aldrin.Broker Generated

structure Inv (s : Sys) : Prop where
  ex : ∃ sc rc, s.chan = ⟨.claimed sid sc, .claimed rid rc⟩ ∧
    s.snd.capacity + s.snd.queue.sum = sc ∧ s.rcv.cur = rc + s.rcv.items ∧
    sc ≤ rc ∧ (sc ≤ lowCapacity → sc = rc)
  curPos : 0 < s.rcv.cur
  curLe : s.rcv.cur ≤ s.rcv.max
  maxLe : s.rcv.max ≤ u32Max

theorem init_inv {max : Nat} (h1 : 0 < max) (h2 : max ≤ u32Max) : Inv (init max) := by
  refine ⟨⟨max, max, rfl, ?_, ?_, Nat.le_refl _, fun _ => rfl⟩, h1, Nat.le_refl _, h2⟩ <;> simp [init]

@[simp] theorem drain_capacity (s : Sender) : s.drain.capacity = s.capacity + s.queue.sum := rfl
@[simp] theorem drain_queue (s : Sender) : s.drain.queue = [] := rfl

/-- a step from a state with the invariant: no panic, the invariant again, and the broker refused nothing -/
theorem step_inv {s : Sys} (h : Inv s) (op : Op) : ∃ s' o, step s op = .ok (s', o) ∧ Inv s' ∧ o ≠ .cutOff := by
  obtain ⟨⟨sc, rc, hc, hs, hr, hle, hlow⟩, hpos, hcur, hmax⟩ := h
  cases op with
  | ready =>
    refine ⟨_, _, rfl, ⟨⟨sc, rc, hc, by simpa using hs, hr, hle, hlow⟩, hpos, hcur, hmax⟩, ?_⟩
    split <;> simp
  | pollClosed =>
    exact ⟨_, _, rfl, ⟨⟨sc, rc, hc, by simpa using hs, hr, hle, hlow⟩, hpos, hcur, hmax⟩, by simp⟩
  | send =>
    by_cases h0 : sc = 0
    · refine ⟨{ s with snd := s.snd.drain }, .blocked, ?_, ⟨⟨sc, rc, hc, by simpa using hs, hr, hle, hlow⟩, hpos, hcur, hmax⟩, by simp⟩
      simp only [step, drain_capacity, hs, h0, ↓reduceIte]
    · have hrc : rc ≠ 0 := by omega
      by_cases hann : sc - 1 ≤ lowCapacity ∧ rc - 1 > sc - 1
      · refine ⟨{ snd := { capacity := sc - 1, queue := [rc - 1 - (sc - 1)] }, chan := ⟨.claimed sid (rc - 1), .claimed rid (rc - 1)⟩,
                  rcv := { s.rcv with items := s.rcv.items + 1 } }, .sent, ?_, ⟨⟨rc - 1, rc - 1, rfl, ?_, ?_, Nat.le_refl _, fun _ => rfl⟩, hpos, hcur, hmax⟩, by simp⟩
        · simp only [step, drain_capacity, hs, h0, ↓reduceIte, hc, Chan.sendItem, ne_eq, not_true_eq_false, hrc, hann, and_self,
            drain_queue, List.nil_append, Option.toList_some]
        · simp; omega
        · simp; omega
      · refine ⟨{ snd := { capacity := sc - 1, queue := [] }, chan := ⟨.claimed sid (sc - 1), .claimed rid (rc - 1)⟩,
                  rcv := { s.rcv with items := s.rcv.items + 1 } }, .sent, ?_, ⟨⟨sc - 1, rc - 1, rfl, ?_, ?_, by omega, ?_⟩, hpos, hcur, hmax⟩, by simp⟩
        · simp only [step, drain_capacity, hs, h0, ↓reduceIte, hc, Chan.sendItem, ne_eq, not_true_eq_false, hrc, hann,
            drain_queue, List.nil_append, Option.toList_none, List.append_nil]
        · simp
        · simp; omega
        · intro hl
          have : ¬ (rc - 1 > sc - 1) := fun hgt => hann ⟨hl, hgt⟩
          omega
  | take =>
    have hcur0 : s.rcv.cur ≠ 0 := by omega
    have hngt : ¬ s.rcv.cur > s.rcv.max := by omega
    by_cases hit : s.rcv.items = 0
    · refine ⟨s, .empty, ?_, ⟨⟨sc, rc, hc, hs, hr, hle, hlow⟩, hpos, hcur, hmax⟩, by simp⟩
      simp only [step, hcur0, hngt, hit, ↓reduceIte]
    · by_cases hl : s.rcv.cur - 1 ≤ clientLowCapacity
      · -- the receiver tops up to its maximum
        have hdiff : ¬ (s.rcv.max - (s.rcv.cur - 1) < 1) := by omega
        have hd0 : s.rcv.max - (s.rcv.cur - 1) ≠ 0 := by omega
        have hov : ¬ (rc + (s.rcv.max - (s.rcv.cur - 1)) > u32Max) := by omega
        have hafter : ¬ (s.rcv.cur - 1 + (s.rcv.max - (s.rcv.cur - 1)) = 0 ∨ s.rcv.cur - 1 + (s.rcv.max - (s.rcv.cur - 1)) > s.rcv.max) := by omega
        by_cases hsl : sc ≤ lowCapacity
        · have hsr : sc = rc := hlow hsl
          have hgt : rc + (s.rcv.max - (s.rcv.cur - 1)) > sc := by omega
          refine ⟨{ snd := { s.snd with queue := s.snd.queue ++ [rc + (s.rcv.max - (s.rcv.cur - 1)) - sc] },
                    chan := ⟨.claimed sid (rc + (s.rcv.max - (s.rcv.cur - 1))), .claimed rid (rc + (s.rcv.max - (s.rcv.cur - 1)))⟩,
                    rcv := { s.rcv with cur := s.rcv.cur - 1 + (s.rcv.max - (s.rcv.cur - 1)), items := s.rcv.items - 1 } }, .item, ?_,
                  ⟨⟨_, _, rfl, ?_, ?_, Nat.le_refl _, fun _ => rfl⟩, ?_, ?_, hmax⟩, by simp⟩
          · simp only [step, hcur0, hngt, hit, ↓reduceIte, hl, hdiff, hc, Chan.addCapacity, hd0, ne_eq, not_true_eq_false, hov, hsl,
              hgt, hafter, Option.map_some, Option.toList_some]
          · simp; omega
          · simp; omega
          · simp; omega
          · simp; omega
        · refine ⟨{ snd := s.snd,
                    chan := ⟨.claimed sid sc, .claimed rid (rc + (s.rcv.max - (s.rcv.cur - 1)))⟩,
                    rcv := { s.rcv with cur := s.rcv.cur - 1 + (s.rcv.max - (s.rcv.cur - 1)), items := s.rcv.items - 1 } }, .item, ?_,
                  ⟨⟨_, _, rfl, hs, ?_, by omega, fun h => absurd h hsl⟩, ?_, ?_, hmax⟩, by simp⟩
          · simp only [step, hcur0, hngt, hit, ↓reduceIte, hl, hdiff, hc, Chan.addCapacity, hd0, ne_eq, not_true_eq_false, hov, hsl,
              hafter, Option.map_none, Option.toList_none, List.append_nil]
          · simp; omega
          · simp; omega
          · simp; omega
      · have hafter : ¬ (s.rcv.cur - 1 = 0 ∨ s.rcv.cur - 1 > s.rcv.max) := by omega
        refine ⟨{ s with rcv := { s.rcv with cur := s.rcv.cur - 1, items := s.rcv.items - 1 } }, .item, ?_,
                ⟨⟨sc, rc, hc, hs, ?_, hle, hlow⟩, ?_, ?_, hmax⟩, by simp⟩
        · simp only [step, hcur0, hngt, hit, ↓reduceIte, hl, hafter]
        · simp; omega
        · simp; omega
        · simp; omega

theorem run_inv {s : Sys} (h : Inv s) (ops : List Op) : ∃ s' os, run s ops = .ok (s', os) ∧ Inv s' ∧ .cutOff ∉ os := by
  induction ops generalizing s with
  | nil => exact ⟨s, [], rfl, h, by simp⟩
  | cons op ops ih =>
    obtain ⟨s1, o, h1, hi1, ho⟩ := step_inv h op
    obtain ⟨s2, os, h2, hi2, hos⟩ := ih hi1
    refine ⟨s2, o :: os, by simp [run, h1, h2], hi2, ?_⟩
    simp only [List.mem_cons, not_or]
    exact ⟨fun e => ho e.symm, hos⟩

/-- a sender whose receiver has taken every item may send -/
theorem ready_of_caught_up {s : Sys} (h : Inv s) (hi : s.rcv.items = 0) : 0 < s.snd.drain.capacity := by
  obtain ⟨⟨sc, rc, hc, hs, hr, hle, hlow⟩, hpos, hcur, hmax⟩ := h
  simp only [drain_capacity, hs]
  have : lowCapacity = 4 := rfl
  by_cases hl : sc ≤ lowCapacity
  · have := hlow hl; omega
  · omega

end Aldrin.ClientChan

namespace Aldrin.ClientChan
open Aldrin.Broker Generated

/-- the items waiting at the receiver are those sent and not yet taken (one step) -/
theorem step_items {s s' : Sys} {op : Op} {o : Obs} (h : step s op = .ok (s', o)) :
    s'.rcv.items + (if o = .item then 1 else 0) = s.rcv.items + (if o = .sent then 1 else 0) := by
  cases op <;> simp only [step] at h
  · -- send
    repeat' split at h
    all_goals (simp only [Except.ok.injEq, Prod.mk.injEq, reduceCtorEq] at h)
    all_goals (try (obtain ⟨rfl, rfl⟩ := h))
    all_goals (try (exact h.elim))
    all_goals simp
  · -- take
    repeat' split at h
    all_goals (simp only [Except.ok.injEq, Prod.mk.injEq, reduceCtorEq] at h)
    all_goals (try (obtain ⟨rfl, rfl⟩ := h))
    all_goals (try (exact h.elim))
    all_goals simp
    all_goals omega
  · obtain ⟨rfl, rfl⟩ := Prod.mk.inj (Except.ok.inj h); simp
  · obtain ⟨rfl, rfl⟩ := Prod.mk.inj (Except.ok.inj h)
    split <;> simp

def count (x : Obs) (os : List Obs) : Nat := (os.filter (· = x)).length

theorem run_items {s s' : Sys} {ops : List Op} {os : List Obs} (h : run s ops = .ok (s', os)) :
    s'.rcv.items + count .item os = s.rcv.items + count .sent os := by
  induction ops generalizing s os with
  | nil => simp only [run, Except.ok.injEq, Prod.mk.injEq] at h; obtain ⟨rfl, rfl⟩ := h; simp [count]
  | cons op ops ih =>
    simp only [run] at h
    split at h
    · simp at h
    · rename_i s1 o h1
      split at h
      · simp at h
      · rename_i s2 os2 h2
        simp only [Except.ok.injEq, Prod.mk.injEq] at h
        obtain ⟨rfl, rfl⟩ := h
        have e1 := step_items h1
        have e2 := ih h2
        simp only [count, List.filter_cons] at *
        by_cases hi : o = .item <;> by_cases hs : o = .sent <;> simp_all <;> omega

end Aldrin.ClientChan
