import Aldrin.Model.Packetizer
import Aldrin.Lemmas.Msg
namespace Aldrin

/-- A frame as `serialize_message` produces it: at least the 4-byte prefix, and the prefix is the
frame length. -/
def WellPrefixed (f : Bytes) : Prop := 4 ≤ f.length ∧ ofLeBytes (f.take 4) = f.length

def flat : List Bytes → Bytes
  | [] => []
  | f :: fs => f ++ flat fs

/-- The cached length, if any, is the prefix of what is buffered. -/
def LenOk (p : Pk) : Prop := ∀ l, p.len = some l → 4 ≤ p.buf.length ∧ l = ofLeBytes (p.buf.take 4)

theorem take4_prefix (a b : Bytes) (h : 4 ≤ a.length) : (a ++ b).take 4 = a.take 4 := by
  rw [List.take_append_of_le_length h]

/-- `next_message` on a buffer that starts with (a prefix of) a well-prefixed frame. -/
theorem next_on_stream (p : Pk) (f rest unfed : Bytes) (hf : WellPrefixed f) (hl : LenOk p)
    (hs : p.buf ++ unfed = f ++ rest) :
    (f.length ≤ p.buf.length → p.next = ({ p with buf := p.buf.drop f.length, len := none, cap := p.cap - f.length }, some f)) ∧
    (p.buf.length < f.length → (p.next).2 = none ∧ (p.next).1.buf = p.buf ∧ (p.next).1.cap = p.cap ∧ LenOk (p.next).1) := by
  obtain ⟨hf4, hfl⟩ := hf
  -- the first four buffered bytes, once there, are the frame's prefix
  have hpre : 4 ≤ p.buf.length → p.buf.take 4 = f.take 4 := by
    intro h4
    have h1 : (p.buf ++ unfed).take 4 = p.buf.take 4 := take4_prefix _ _ h4
    have h2 : (f ++ rest).take 4 = f.take 4 := take4_prefix _ _ hf4
    rw [← h1, hs, h2]
  have hcached : ∀ l, p.len = some l → l = f.length := by
    intro l hl'
    obtain ⟨h4, e⟩ := hl l hl'
    rw [e, hpre h4, hfl]
  constructor
  · intro hge
    have h4 : ¬ p.buf.length < 4 := by omega
    have hlen : p.curLen = f.length := by
      unfold Pk.curLen
      cases hp : p.len with
      | none => simp only; rw [hpre (by omega), hfl]
      | some l => simp only; exact hcached l hp
    unfold Pk.next
    simp only [h4, ↓reduceIte, hlen, ge_iff_le, hge]
    have hmax : max f.length 4 = f.length := by omega
    rw [hmax]
    have hbuf : p.buf.take f.length = f := by
      have : (p.buf ++ unfed).take f.length = p.buf.take f.length := List.take_append_of_le_length hge
      rw [← this, hs]; simp
    simp [hbuf]
  · intro hlt
    unfold Pk.next
    by_cases h4 : p.buf.length < 4
    · rw [if_pos h4]
      exact ⟨rfl, rfl, rfl, hl⟩
    · have hlen : p.curLen = f.length := by
        unfold Pk.curLen
        cases hp : p.len with
        | none => simp only; rw [hpre (by omega), hfl]
        | some l => simp only; exact hcached l hp
      have hnot : ¬ f.length ≤ p.buf.length := by omega
      rw [if_neg h4]
      simp only [hlen, ge_iff_le, hnot, ↓reduceIte]
      refine ⟨trivial, trivial, trivial, ?_⟩
      intro l hl'
      simp at hl'
      subst hl'
      exact ⟨by simp at h4; omega, by simp; rw [hpre (by omega), hfl]⟩

theorem next_on_empty_stream (p : Pk) (hl : LenOk p) (hb : p.buf = []) : p.next = (p, none) := by
  unfold Pk.next; simp [hb]

/-- Both feed interfaces only append to the buffer. -/
theorem extend_buf (p : Pk) (bs : Bytes) : (p.extend bs).buf = p.buf ++ bs ∧ (p.extend bs).len = p.len := by
  simp [Pk.extend]

theorem spare_buf (p : Pk) : p.spare.buf = p.buf ∧ p.spare.len = p.len := by
  unfold Pk.spare Pk.reserve
  cases hp : p.len <;> simp <;> (repeat' split) <;> simp [hp]

theorem written_buf (p : Pk) (bs : Bytes) : (p.written bs).buf = p.buf ++ bs ∧ (p.written bs).len = p.len := by
  simp [Pk.written, (spare_buf p).1, (spare_buf p).2]

theorem LenOk_append (p q : Pk) (bs : Bytes) (hb : q.buf = p.buf ++ bs) (hlen : q.len = p.len) (h : LenOk p) : LenOk q := by
  intro l hl
  rw [hlen] at hl
  obtain ⟨h4, e⟩ := h l hl
  rw [hb]
  exact ⟨by simp; omega, by rw [take4_prefix _ _ h4]; exact e⟩

end Aldrin

namespace Aldrin

/-- Run invariant with the number of frames already emitted made explicit. -/
def PkInvK (fs : List Bytes) (r : PkRun) (k : Nat) : Prop :=
  k ≤ fs.length ∧ r.out = fs.take k ∧ r.pk.buf ++ r.unfed = flat (fs.drop k) ∧ LenOk r.pk

theorem flat_nil_of_wp (fs : List Bytes) (hw : ∀ f ∈ fs, WellPrefixed f) (h : flat fs = []) : fs = [] := by
  cases fs with
  | nil => rfl
  | cons f fs =>
    have := (hw f (by simp)).1
    simp [flat] at h
    have : f.length = 0 := by simp [h.1]
    omega

theorem take_succ_of_drop {α : Type} (l : List α) (k : Nat) (f : α) (rest : List α) (h : l.drop k = f :: rest) :
    l.take (k + 1) = l.take k ++ [f] ∧ l.drop (k + 1) = rest ∧ k < l.length := by
  have hk : k < l.length := by
    rcases Nat.lt_or_ge k l.length with h1 | h1
    · exact h1
    · have : l.drop k = [] := List.drop_of_length_le h1
      rw [this] at h; cases h
  have hf : l[k] = f := by
    have h0 : (l.drop k)[0]? = some f := by rw [h]; rfl
    rw [List.getElem?_drop] at h0
    simp only [Nat.add_zero] at h0
    rw [List.getElem?_eq_getElem hk] at h0
    exact Option.some.inj h0
  refine ⟨?_, ?_, hk⟩
  · rw [List.take_succ_eq_append_getElem hk, hf]
  · have : l.drop (k + 1) = (l.drop k).drop 1 := by rw [List.drop_drop]
    rw [this, h]; rfl

theorem step_inv (fs : List Bytes) (hw : ∀ f ∈ fs, WellPrefixed f) (r : PkRun) (k : Nat) (op : PkOp)
    (h : PkInvK fs r k) : PkInvK fs (r.step op) k ∨ (op = .drain ∧ PkInvK fs (r.step op) (k + 1)) := by
  obtain ⟨hk, hout, hbuf, hlen⟩ := h
  cases op with
  | extend n =>
    left
    refine ⟨hk, hout, ?_, ?_⟩
    · simp only [PkRun.step, (extend_buf _ _).1, List.append_assoc, List.take_append_drop]; exact hbuf
    · exact LenOk_append r.pk _ _ (extend_buf _ _).1 (extend_buf _ _).2 hlen
  | fill n =>
    left
    refine ⟨hk, hout, ?_, ?_⟩
    · simp only [PkRun.step, (written_buf _ _).1, List.append_assoc, List.take_append_drop]; exact hbuf
    · exact LenOk_append r.pk _ _ (written_buf _ _).1 (written_buf _ _).2 hlen
  | drain =>
    cases hd : fs.drop k with
    | nil =>
      left
      rw [hd] at hbuf
      simp only [flat, List.append_eq_nil_iff] at hbuf
      have hn := next_on_empty_stream r.pk hlen hbuf.1
      simp only [PkRun.step, hn]
      exact ⟨hk, hout, by rw [hd]; simp [flat, hbuf.1, hbuf.2], hlen⟩
    | cons f rest =>
      have hfw : WellPrefixed f := hw f (by
        have : f ∈ fs.drop k := by rw [hd]; simp
        exact List.mem_of_mem_drop this)
      rw [hd] at hbuf
      simp only [flat] at hbuf
      obtain ⟨hA, hB⟩ := next_on_stream r.pk f (flat rest) r.unfed hfw hlen hbuf
      obtain ⟨ht, hdrop, hlt⟩ := take_succ_of_drop fs k f rest hd
      by_cases hc : f.length ≤ r.pk.buf.length
      · right
        refine ⟨rfl, ?_⟩
        have hn := hA hc
        simp only [PkRun.step, hn]
        refine ⟨by omega, by rw [hout, ht], ?_, ?_⟩
        · rw [hdrop]
          have : r.pk.buf.drop f.length ++ r.unfed = (r.pk.buf ++ r.unfed).drop f.length := by
            rw [List.drop_append_of_le_length hc]
          simp only
          rw [this, hbuf]; simp
        · intro l hl; simp at hl
      · left
        obtain ⟨h1, h2, h3, h4⟩ := hB (by omega)
        have : r.pk.next = ((r.pk.next).1, none) := by rw [← h1]
        simp only [PkRun.step]
        rw [this]
        simp only
        exact ⟨hk, hout, by rw [h2, hd]; simpa [flat] using hbuf, h4⟩

theorem run_inv (fs : List Bytes) (hw : ∀ f ∈ fs, WellPrefixed f) : ∀ (ops : List PkOp) (r : PkRun) (k : Nat),
    PkInvK fs r k → ∃ k', k ≤ k' ∧ PkInvK fs (r.run ops) k'
  | [], r, k, h => ⟨k, Nat.le_refl k, h⟩
  | op :: ops, r, k, h => by
    rcases step_inv fs hw r k op h with h1 | ⟨_, h1⟩
    · obtain ⟨k', hk, hi⟩ := run_inv fs hw ops (r.step op) k h1
      exact ⟨k', hk, by simpa [PkRun.run] using hi⟩
    · obtain ⟨k', hk, hi⟩ := run_inv fs hw ops (r.step op) (k + 1) h1
      exact ⟨k', by omega, by simpa [PkRun.run] using hi⟩

theorem init_inv (fs : List Bytes) : PkInvK fs { unfed := flat fs } 0 := by
  refine ⟨by omega, by simp, by simp, ?_⟩
  intro l hl; simp at hl

/-- Once everything has been fed, every further `next_message` yields the next frame until all are
out. -/
theorem drain_progress (fs : List Bytes) (hw : ∀ f ∈ fs, WellPrefixed f) (r : PkRun) (k : Nat)
    (h : PkInvK fs r k) (hu : r.unfed = []) (hk : k < fs.length) :
    PkInvK fs (r.step .drain) (k + 1) ∧ (r.step .drain).unfed = [] := by
  obtain ⟨hk', hout, hbuf, hlen⟩ := h
  cases hd : fs.drop k with
  | nil =>
    have : (fs.drop k).length = fs.length - k := List.length_drop
    rw [hd] at this; simp at this; omega
  | cons f rest =>
    have hfw : WellPrefixed f := hw f (by
      have : f ∈ fs.drop k := by rw [hd]; simp
      exact List.mem_of_mem_drop this)
    rw [hd, hu] at hbuf
    simp only [flat, List.append_nil] at hbuf
    have hc : f.length ≤ r.pk.buf.length := by rw [hbuf]; simp
    rcases step_inv fs hw r k .drain ⟨hk', hout, by rw [hd, hu]; simpa [flat] using hbuf, hlen⟩ with h1 | ⟨_, h1⟩
    · -- impossible: the whole frame is buffered, so it is emitted
      obtain ⟨hA, _⟩ := next_on_stream r.pk f (flat rest) [] hfw hlen (by simpa using hbuf)
      have hn := hA hc
      have ho : (r.step .drain).out = r.out ++ [f] := by simp [PkRun.step, hn]
      obtain ⟨_, ho', _, _⟩ := h1
      obtain ⟨ht, _, _⟩ := take_succ_of_drop fs k f rest hd
      rw [ho, hout] at ho'
      have : (fs.take k ++ [f]).length = (fs.take k).length := by rw [ho']
      simp at this
    · refine ⟨h1, ?_⟩
      simp only [PkRun.step]
      split <;> simp [hu]

end Aldrin
