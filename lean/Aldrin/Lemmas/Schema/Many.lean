/-
Repetition: `many` / `manyTail` on a concatenation of item texts return the items, provided every item parses
at its position and nothing more parses after the last one. An item is a triple `(a, t, w)`: the parser, after
skipping white space, consumes `t` (which may start with white space) and stops in front of the blank run `w`
(e.g. the line end after a field).
-/
import Aldrin.Lemmas.Schema.Atoms

namespace Aldrin.Schema

def joined {α : Type} (l : List (α × Str × Str)) : Str := (l.map (fun x => x.2.1 ++ x.2.2)).flatten

@[simp] theorem joined_nil {α : Type} : joined ([] : List (α × Str × Str)) = [] := rfl
@[simp] theorem joined_cons {α : Type} (a : α) (t w : Str) (l : List (α × Str × Str)) :
    joined ((a, t, w) :: l) = t ++ (w ++ joined l) := by
  simp [joined]

theorem joined_append {α : Type} (l m : List (α × Str × Str)) : joined (l ++ m) = joined l ++ joined m := by
  simp [joined]

/-- Every item parses where it stands (after optional white space) and the parser fails after the last. -/
def SeqOk {α : Type} (p : P α) : List (α × Str × Str) → Str → Prop
  | [], rest => p (skipWs rest) = none
  | (a, t, w) :: l, rest =>
    Blank w ∧ p (skipWs (t ++ (w ++ (joined l ++ rest)))) = some (a, w ++ (joined l ++ rest)) ∧ SeqOk p l rest

theorem manyTail_seq {α : Type} (p : P α) : ∀ (l : List (α × Str × Str)) (rest : Str) (fuel : Nat), SeqOk p l rest →
    l.length < fuel →
    (manyTail p fuel (joined l ++ rest)).1 = l.map (·.1) ∧ skipWs (manyTail p fuel (joined l ++ rest)).2 = skipWs rest
  | [], rest, fuel + 1, h, _ => by simp [manyTail, SeqOk] at h ⊢; simp [h]
  | (a, t, w) :: l, rest, fuel + 1, h, hl => by
    obtain ⟨hw, h1, h2⟩ := h
    have ih := manyTail_seq p l rest fuel h2 (by simpa using hl)
    -- after the item the parser stands in front of `w`, which the next repetition skips
    have hstep : ∀ f, manyTail p f (w ++ (joined l ++ rest)) =
        (manyTail p f (joined l ++ rest)) ∨ True := fun _ => Or.inr trivial
    simp only [joined_cons, List.append_assoc, manyTail, h1, List.map_cons]
    have hskip : ∀ f, (manyTail p f (w ++ (joined l ++ rest))).1 = (manyTail p f (joined l ++ rest)).1 ∧
        skipWs (manyTail p f (w ++ (joined l ++ rest))).2 = skipWs (manyTail p f (joined l ++ rest)).2 := by
      intro f
      cases f with
      | zero => simp [manyTail, skipWs_blank hw]
      | succ f =>
        simp only [manyTail, skipWs_blank hw]
        cases p (skipWs (joined l ++ rest)) with
        | none => simp [skipWs_blank hw]
        | some x => simp
    exact ⟨by rw [(hskip fuel).1, ih.1], by rw [(hskip fuel).2, ih.2]⟩
  | _, _, 0, _, hl => by simp at hl

theorem many_seq {α : Type} (p : P α) (l : List (α × Str × Str)) (rest : Str) (fuel : Nat) (h : SeqOk p l rest)
    (hl : l.length < fuel) :
    (many p fuel (skipWs (joined l ++ rest))).1 = l.map (·.1) ∧
    skipWs (many p fuel (skipWs (joined l ++ rest))).2 = skipWs rest := by
  cases fuel with
  | zero => simp at hl
  | succ fuel =>
    cases l with
    | nil =>
      simp only [SeqOk] at h
      simp [many, h, skipWs_idem]
    | cons x l =>
      obtain ⟨a, t, w⟩ := x
      obtain ⟨hw, h1, h2⟩ := h
      have ih := manyTail_seq p l rest fuel h2 (by simpa using hl)
      have hskip : (manyTail p fuel (w ++ (joined l ++ rest))).1 = (manyTail p fuel (joined l ++ rest)).1 ∧
          skipWs (manyTail p fuel (w ++ (joined l ++ rest))).2 = skipWs (manyTail p fuel (joined l ++ rest)).2 := by
        cases fuel with
        | zero => simp [manyTail, skipWs_blank hw]
        | succ f =>
          simp only [manyTail, skipWs_blank hw]
          cases p (skipWs (joined l ++ rest)) with
          | none => simp [skipWs_blank hw]
          | some x => simp
      simp only [joined_cons, List.append_assoc, many, h1, List.map_cons]
      exact ⟨by rw [hskip.1, ih.1], by rw [hskip.2, ih.2]⟩

/-- Every item parses where it stands; nothing is said about what follows the last one. -/
def SeqItems {α : Type} (p : P α) : List (α × Str × Str) → Str → Prop
  | [], _ => True
  | (a, t, w) :: l, rest =>
    Blank w ∧ p (skipWs (t ++ (w ++ (joined l ++ rest)))) = some (a, w ++ (joined l ++ rest)) ∧ SeqItems p l rest

theorem seqOk_append {α : Type} (p : P α) : ∀ (l1 l2 : List (α × Str × Str)) (rest : Str),
    SeqItems p l1 (joined l2 ++ rest) → SeqOk p l2 rest → SeqOk p (l1 ++ l2) rest
  | [], l2, rest, _, h2 => by simpa using h2
  | (a, t, w) :: l1, l2, rest, h1, h2 => by
    obtain ⟨hw, hp, hr⟩ := h1
    refine ⟨hw, ?_, seqOk_append p l1 l2 rest hr h2⟩
    simpa [joined_append, List.append_assoc] using hp

theorem seqItems_map {α β : Type} (p : P α) (l : List β) (f : β → α × Str × Str) (rest : Str)
    (h : ∀ b ∈ l, ∀ tail, Blank (f b).2.2 ∧
      p (skipWs ((f b).2.1 ++ ((f b).2.2 ++ tail))) = some ((f b).1, (f b).2.2 ++ tail)) :
    SeqItems p (l.map f) rest := by
  induction l with
  | nil => trivial
  | cons b l ih =>
    have hb := h b List.mem_cons_self (joined (l.map f) ++ rest)
    simp only [List.map_cons]
    exact ⟨hb.1, hb.2, ih (fun x hx => h x (List.mem_cons_of_mem _ hx))⟩

/-- When nothing parses, `many` returns nothing and stays put. -/
theorem many_none {α : Type} (p : P α) (fuel : Nat) (cs : Str) (h : p cs = none) : many p fuel cs = ([], cs) := by
  cases fuel <;> simp [many, h]

end Aldrin.Schema
