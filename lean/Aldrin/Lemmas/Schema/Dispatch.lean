/-
Choosing between definitions: on the text of one kind of definition the parsers of the other kinds fail, and
the import parser fails on every definition. The parsers differ in which prelude items they accept, so they
stop either at the keyword or at the first item they do not accept (`/` of a doc string, `#` of an attribute).
-/
import Aldrin.Lemmas.Schema.Defs2

namespace Aldrin.Schema

theorem preItems_split (cm dc : List Line) (ats : List Attribute) (ind : Nat) :
    joined (preItems cm dc ats ind) =
      joined (preItems cm [] [] ind) ++ (joined (preItems [] dc [] ind) ++ joined (preItems [] [] ats ind)) := by
  simp [preItems, joined_append]

theorem noPre_hash (c d : Bool) (fuel : Nat) (w rest : Str) (hw : Blank w) : NoPre c d false fuel (w ++ ('#' :: rest)) := by
  unfold NoPre
  rw [skipWs_blank hw, skipWs_cons_nws (by decide)]
  cases c <;> cases d <;> simp [preItemP, commentP, docP]

theorem noPre_docline (fuel : Nat) (w i rest : Str) (hw : Blank w) :
    NoPre true false false fuel (w ++ (canonLine (chars! "///") i ++ rest)) := by
  unfold NoPre
  rw [skipWs_blank hw]
  have : skipWs (canonLine (chars! "///") i ++ rest) = canonLine (chars! "///") i ++ rest := by
    simp only [canonLine, List.cons_append]; exact skipWs_cons_nws (by decide) _
  rw [this]
  simp [preItemP, commentP_doc]

/-- The head of what a parser with restricted prelude flags is left with: the keyword text itself, or the first
prelude item it does not accept. -/
def StopsAt (r kwText : Str) : Prop := r = kwText ∨ (∃ t, r = '/' :: '/' :: '/' :: t) ∨ (∃ t, r = '#' :: t)

theorem attrItems_head (ats : List Attribute) (hne : ats ≠ []) (ind : Nat) (rest : Str) :
    ∃ t, skipWs (joined (preItems [] [] ats ind) ++ rest) = '#' :: t := by
  cases ats with
  | nil => exact absurd rfl hne
  | cons a ats =>
    simp only [preItems, List.map_nil, List.nil_append, List.map_cons, joined_cons, List.append_assoc]
    rw [skipWs_indent]
    cases hi : a.options.isEmpty <;> simp [attrText, hi, skipWs_cons_nws, isWhiteSpace]

theorem docItems_head (dc : List Line) (hne : dc ≠ []) (ind : Nat) (rest : Str) :
    ∃ t, skipWs (joined (preItems [] dc [] ind) ++ rest) = '/' :: '/' :: '/' :: t := by
  cases dc with
  | nil => exact absurd rfl hne
  | cons a dc =>
    simp only [preItems, List.map_nil, List.nil_append, List.append_nil, List.map_cons, joined_cons, List.append_assoc]
    rw [skipWs_indent]
    simp [canonD, canonLine, skipWs_cons_nws, isWhiteSpace]

/-- A parser that accepts comments and doc strings but no attributes. -/
theorem preludeP_no_attrs (cm dc : List Line) (ats : List Attribute) (fuel : Nat) {k : Str} (hk : ValidIdent k) (more : Str)
    (hvc : ValidLines 2 cm) (hvd : ValidLines 3 dc) (hfuel : cm.length + dc.length < fuel) (w : Str) (hw : Blank w) :
    StopsAt (preludeP true true false fuel (skipWs (w ++ (joined (preItems cm dc ats 0) ++ (k ++ more))))).2 (k ++ more) := by
  rw [preItems_split, show preItems cm [] [] 0 = preItems cm [] [] 0 from rfl]
  have hcd : joined (preItems cm [] [] 0) ++ (joined (preItems [] dc [] 0) ++ joined (preItems [] [] ats 0))
      = joined (preItems cm dc [] 0) ++ joined (preItems [] [] ats 0) := by simp [preItems, joined_append]
  rw [hcd, List.append_assoc]
  by_cases hats : ats = []
  · subst hats
    have hnp : NoPre true true false fuel (joined (preItems [] [] [] 0) ++ (k ++ more)) := by
      simpa [preItems] using noPre_ident hk true true false fuel [] more blank_nil
    have := preludeP_text cm dc [] 0 true true false fuel (joined (preItems [] [] [] 0) ++ (k ++ more))
      (fun _ => rfl) (fun _ => rfl) (fun h => absurd rfl h) hvc hvd (by simp) hnp (by simp; omega) w hw
    simp only [] at this
    rw [this.2.2.2]
    left
    simpa [preItems] using skipWs_ident hk more
  · obtain ⟨t, ht⟩ := attrItems_head ats hats 0 (k ++ more)
    have hnp : NoPre true true false fuel (joined (preItems [] [] ats 0) ++ (k ++ more)) := by
      unfold NoPre; rw [ht]; simp [preItemP, commentP, docP]
    have := preludeP_text cm dc [] 0 true true false fuel (joined (preItems [] [] ats 0) ++ (k ++ more))
      (fun _ => rfl) (fun _ => rfl) (fun h => absurd rfl h) hvc hvd (by simp) hnp (by simp; omega) w hw
    simp only [] at this
    rw [this.2.2.2, ht]
    exact Or.inr (Or.inr ⟨t, rfl⟩)

/-- A parser that accepts comments only. -/
theorem preludeP_comments_only (cm dc : List Line) (ats : List Attribute) (fuel : Nat) {k : Str} (hk : ValidIdent k) (more : Str)
    (hvc : ValidLines 2 cm) (hfuel : cm.length < fuel) (w : Str) (hw : Blank w) :
    StopsAt (preludeP true false false fuel (skipWs (w ++ (joined (preItems cm dc ats 0) ++ (k ++ more))))).2 (k ++ more) := by
  rw [preItems_split, List.append_assoc, List.append_assoc]
  have hrest : ∃ r, skipWs (joined (preItems [] dc [] 0) ++ (joined (preItems [] [] ats 0) ++ (k ++ more))) = r ∧
      StopsAt r (k ++ more) ∧ preItemP true false false fuel r = none := by
    by_cases hdc : dc = []
    · subst hdc
      by_cases hats : ats = []
      · subst hats
        refine ⟨k ++ more, by simpa [preItems] using skipWs_ident hk more, Or.inl rfl, ?_⟩
        obtain ⟨ch, r, rfl, hch, _⟩ := hk
        exact preItemP_ident_none _ _ _ _ _ hch
      · obtain ⟨t, ht⟩ := attrItems_head ats hats 0 (k ++ more)
        exact ⟨'#' :: t, by simpa [preItems] using ht, Or.inr (Or.inr ⟨t, rfl⟩), by simp [preItemP, commentP]⟩
    · obtain ⟨t, ht⟩ := docItems_head dc hdc 0 (joined (preItems [] [] ats 0) ++ (k ++ more))
      exact ⟨_, ht, Or.inr (Or.inl ⟨t, rfl⟩), by simp [preItemP, commentP]⟩
  obtain ⟨r, hr, hstop, hnone⟩ := hrest
  have hnp : NoPre true false false fuel (joined (preItems [] dc [] 0) ++ (joined (preItems [] [] ats 0) ++ (k ++ more))) := by
    unfold NoPre; rw [hr]; exact hnone
  have := preludeP_text cm [] [] 0 true false false fuel _
    (fun _ => rfl) (fun h => absurd rfl h) (fun h => absurd rfl h) hvc (by intro l hl; cases hl) (by simp) hnp (by simp; omega) w hw
  simp only [] at this
  rw [this.2.2.2, hr]
  exact hstop

/-- A keyword parser fails where the text stops at a different keyword or at a prelude item. -/
theorem kwWs_stops_none {kx k more r : Str} (hs : StopsAt r (k ++ more))
    (hx1 : ∀ t, kw kx ('/' :: t) = none) (hx2 : ∀ t, kw kx ('#' :: t) = none) (hx3 : kw kx (k ++ more) = none) :
    kwWs kx r = none := by
  rcases hs with rfl | ⟨t, rfl⟩ | ⟨t, rfl⟩
  · simp [kwWs, hx3]
  · simp [kwWs, hx1]
  · simp [kwWs, hx2]

end Aldrin.Schema
