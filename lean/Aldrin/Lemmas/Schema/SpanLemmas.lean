/-
Facts about the doc-link position arithmetic (`Model/Schema/Span.lean`).
-/
import Aldrin.Model.Schema.Span

namespace Aldrin.Schema.Span

/-- where piece `k` starts -/
def offsetOf : List Bytes → Nat → Nat
  | _, 0 => 0
  | [], _ + 1 => 0
  | p :: ps, k + 1 => p.length + 1 + offsetOf ps k

/-- length of the pieces joined by single separators -/
def joinLen : List Bytes → Nat
  | [] => 0
  | [p] => p.length
  | p :: q :: ps => p.length + 1 + joinLen (q :: ps)

theorem splitCR_ne_nil (v : Bytes) : splitCR v ≠ [] := by
  cases v with
  | nil => simp [splitCR]
  | cons b r =>
    unfold splitCR
    split
    · simp
    · split <;> simp

theorem joinLen_splitCR (v : Bytes) : joinLen (splitCR v) = v.length := by
  induction v with
  | nil => simp [splitCR, joinLen]
  | cons b r ih =>
    unfold splitCR
    split
    · have hne := splitCR_ne_nil r
      cases hs : splitCR r with
      | nil => exact absurd hs hne
      | cons q qs => rw [hs] at ih; simp [joinLen, ih]; omega
    · split
      · rename_i p ps hs
        rw [hs] at ih
        cases ps with
        | nil => simp [joinLen] at ih ⊢; omega
        | cons q qs => simp [joinLen] at ih ⊢; omega
      · rename_i hs; exact absurd hs (splitCR_ne_nil r)

/-- a piece ends inside the value -/
theorem offsetOf_add_le (ps : List Bytes) (k : Nat) (hk : k < ps.length) :
    offsetOf ps k + (ps[k]'hk).length ≤ joinLen ps := by
  induction ps generalizing k with
  | nil => simp at hk
  | cons p ps ih =>
    cases k with
    | zero =>
      cases ps with
      | nil => simp [offsetOf, joinLen]
      | cons q qs => simp [offsetOf, joinLen]; omega
    | succ k =>
      cases ps with
      | nil => simp at hk
      | cons q qs =>
        have := ih k (by simpa using hk)
        simp only [offsetOf, joinLen, List.getElem_cons_succ] at this ⊢
        omega

/-- later pieces start after earlier ones end -/
theorem offsetOf_mono (ps : List Bytes) (j k : Nat) (hjk : j < k) (hk : k < ps.length) :
    offsetOf ps j + (ps[j]'(by omega)).length + 1 ≤ offsetOf ps k := by
  induction ps generalizing j k with
  | nil => simp at hk
  | cons p ps ih =>
    cases k with
    | zero => omega
    | succ k =>
      cases j with
      | zero => simp [offsetOf]
      | succ j =>
        have := ih j k (by omega) (by simpa using hk)
        simp only [offsetOf, List.getElem_cons_succ] at this ⊢
        omega

/-- the loop over the pieces, as a table lookup -/
theorem inner_spec (d : DocLine) (t c : Nat) (e : Bool) : ∀ (ps : List Bytes) (line off : Nat),
    (∀ r, inner d t c e line off ps = .inl r →
      ∃ k, ∃ hk : k < ps.length, line + k + 1 = t ∧ r = atPart d c e (off + offsetOf ps k) (ps[k]'hk)) ∧
    (∀ line', inner d t c e line off ps = .inr line' → line' = line + ps.length ∧ (t ≤ line ∨ line + ps.length < t)) := by
  intro ps
  induction ps with
  | nil => intro line off; simp [inner]; omega
  | cons p ps ih =>
    intro line off
    unfold inner
    split
    · rename_i ht
      constructor
      · intro r hr
        simp at hr
        exact ⟨0, by simp, by omega, by simp [offsetOf, hr]⟩
      · intro l hl; simp at hl
    · rename_i ht
      obtain ⟨ih1, ih2⟩ := ih (line + 1) (off + p.length + 1)
      constructor
      · intro r hr
        obtain ⟨k, hk, hkt, hrk⟩ := ih1 r hr
        refine ⟨k + 1, by simp; omega, by omega, ?_⟩
        simp only [offsetOf, List.getElem_cons_succ]
        rw [hrk]
        congr 1
        omega
      · intro l hl
        obtain ⟨h1, h2⟩ := ih2 l hl
        simp only [List.length_cons]
        omega

theorem atPart_some {d : DocLine} {c : Nat} {e : Bool} {off : Nat} {part : Bytes} {i : Nat}
    (h : atPart d c e off part = .some i) :
    c ≤ part.length ∧ 0 < off + c ∧ i = d.start + (off + c - 1 + (if e then 1 else 0)) ∧
    isCharBoundary d.value (off + c - 1 + (if e then 1 else 0)) = true := by
  unfold atPart at h
  by_cases h1 : c > part.length
  · simp [h1] at h
  · by_cases h2 : off + c = 0
    · simp [h1, h2] at h
    · simp only [h1, h2, if_false] at h
      by_cases h3 : isCharBoundary d.value (off + c - 1 + (if e then 1 else 0)) = true
      · simp only [h3, if_true, Res.some.injEq] at h
        exact ⟨by omega, by omega, h.symm, h3⟩
      · simp [h3] at h

theorem atPart_underflow {d : DocLine} {c : Nat} {e : Bool} {off : Nat} {part : Bytes}
    (h : atPart d c e off part = .underflow) : off + c = 0 := by
  unfold atPart at h
  by_cases h1 : c > part.length
  · simp [h1] at h
  · by_cases h2 : off + c = 0
    · exact h2
    · simp only [h1, h2, if_false] at h
      by_cases h3 : isCharBoundary d.value (off + c - 1 + (if e then 1 else 0)) = true
      · simp [h3] at h
      · simp [h3] at h

theorem isCharBoundary_le {v : Bytes} {idx : Nat} (h : isCharBoundary v idx = true) : idx ≤ v.length := by
  unfold isCharBoundary at h
  split at h
  · omega
  · split at h
    · simp at h; omega
    · rename_i b hb
      have := (List.getElem?_eq_some_iff.mp hb).1
      omega

end Aldrin.Schema.Span

namespace Aldrin.Schema.Span

/-- number of lines of the docs before index `j` -/
def linesBefore : List DocLine → Nat → Nat
  | _, 0 => 0
  | [], _ + 1 => 0
  | d :: ds, j + 1 => (splitCR d.value).length + linesBefore ds j

theorem linesBefore_mono (docs : List DocLine) (i j : Nat) (hij : i < j) (hj : j < docs.length) :
    linesBefore docs i + (splitCR (docs[i]'(by omega)).value).length ≤ linesBefore docs j := by
  induction docs generalizing i j with
  | nil => simp at hj
  | cons d ds ih =>
    cases j with
    | zero => omega
    | succ j =>
      cases i with
      | zero => simp [linesBefore]
      | succ i =>
        have := ih i j (by omega) (by simpa using hj)
        simp only [linesBefore, List.getElem_cons_succ] at this ⊢
        omega

/-- `linecol_to_index` as a table lookup: the wanted line is piece `k` of doc `j` -/
theorem linecolFrom_spec (t c : Nat) (e : Bool) : ∀ (docs : List DocLine) (line : Nat) (r : Res),
    linecolFrom t c e line docs = r → r ≠ .none →
    ∃ j, ∃ hj : j < docs.length, ∃ k, ∃ hk : k < (splitCR (docs[j]'hj).value).length,
      line + linesBefore docs j + k + 1 = t ∧
      r = atPart (docs[j]'hj) c e (offsetOf (splitCR (docs[j]'hj).value) k) ((splitCR (docs[j]'hj).value)[k]'hk) := by
  intro docs
  induction docs with
  | nil => intro line r h hn; simp [linecolFrom] at h; exact absurd h.symm hn
  | cons d ds ih =>
    intro line r h hn
    unfold linecolFrom at h
    obtain ⟨s1, s2⟩ := inner_spec d t c e (splitCR d.value) line 0
    split at h
    · rename_i r' hr'
      subst h
      obtain ⟨k, hk, hkt, hrk⟩ := s1 _ hr'
      exact ⟨0, by simp, k, hk, by simp [linesBefore]; omega, by simpa using hrk⟩
    · rename_i line' hl'
      obtain ⟨hl, _⟩ := s2 _ hl'
      obtain ⟨j, hj, k, hk, hkt, hrk⟩ := ih line' r h hn
      refine ⟨j + 1, by simp; omega, k, by simpa using hk, ?_, by simpa using hrk⟩
      simp only [linesBefore]
      omega

/-- the docs lie in the source one after the other -/
def Ordered (docs : List DocLine) : Prop :=
  ∀ i j (hi : i < docs.length) (hj : j < docs.length), i < j → (docs[i]).start + (docs[i]).value.length ≤ (docs[j]).start

theorem no_underflow (docs : List DocLine) (l c : Nat) (e : Bool) (hc : 1 ≤ c) : linecolToIndex docs l c e ≠ .underflow := by
  intro h
  obtain ⟨j, hj, k, hk, _, hr⟩ := linecolFrom_spec l c e docs 0 _ h (by simp)
  have := atPart_underflow hr.symm
  omega

/-- the only way to wrap: column 0 in the first piece of a doc string -/
theorem underflow_only_at_column_zero (docs : List DocLine) (l c : Nat) (e : Bool)
    (h : linecolToIndex docs l c e = .underflow) : c = 0 := by
  by_cases hc : 1 ≤ c
  · exact absurd h (no_underflow docs l c e hc)
  · omega

theorem index_in_doc (docs : List DocLine) (l c : Nat) (e : Bool) (i : Nat) (h : linecolToIndex docs l c e = .some i) :
    ∃ d ∈ docs, d.start ≤ i ∧ i ≤ d.start + d.value.length ∧ isCharBoundary d.value (i - d.start) = true := by
  obtain ⟨j, hj, k, hk, _, hr⟩ := linecolFrom_spec l c e docs 0 _ h (by simp)
  obtain ⟨_, _, hi, hb⟩ := atPart_some hr.symm
  refine ⟨docs[j], List.getElem_mem hj, by omega, ?_, ?_⟩
  · have := isCharBoundary_le hb; omega
  · have : i - docs[j].start = offsetOf (splitCR docs[j].value) k + c - 1 + (if e then 1 else 0) := by omega
    rw [this]; exact hb

/-- start of a link before its end in the comment ⇒ start offset before end offset in the source -/
theorem span_ordered (docs : List DocLine) (ho : Ordered docs) (l1 c1 l2 c2 s t : Nat) (hc1 : 1 ≤ c1)
    (hle : l1 < l2 ∨ (l1 = l2 ∧ c1 ≤ c2))
    (hs : linecolToIndex docs l1 c1 false = .some s) (ht : linecolToIndex docs l2 c2 true = .some t) : s ≤ t := by
  obtain ⟨j1, hj1, k1, hk1, hl1, hr1⟩ := linecolFrom_spec l1 c1 false docs 0 _ hs (by simp)
  obtain ⟨j2, hj2, k2, hk2, hl2, hr2⟩ := linecolFrom_spec l2 c2 true docs 0 _ ht (by simp)
  obtain ⟨hc1', _, hs', hb1⟩ := atPart_some hr1.symm
  obtain ⟨hc2', _, ht', hb2⟩ := atPart_some hr2.symm
  simp only [Bool.false_eq_true, if_false, if_true, Nat.add_zero] at hs' ht' hb1 hb2
  by_cases hjj : j1 = j2
  · subst hjj
    -- same doc string
    by_cases hkk : k1 = k2
    · subst hkk
      have : c1 ≤ c2 := by omega
      omega
    · by_cases hlt : k1 < k2
      · have := offsetOf_mono (splitCR docs[j1].value) k1 k2 hlt hk2
        omega
      · omega
  · by_cases hlt : j1 < j2
    · -- an earlier doc string: it ends before the later one starts
      have h1 := ho j1 j2 hj1 hj2 hlt
      have h2 := isCharBoundary_le hb1
      omega
    · have hgt : j2 < j1 := by omega
      have := linesBefore_mono docs j2 j1 hgt hj1
      omega

end Aldrin.Schema.Span
