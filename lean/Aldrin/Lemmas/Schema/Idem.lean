/-
The formatter looks at comment and doc lines only through their inner text, and sorting sorted imports changes
nothing: formatting the canonical form of a schema gives the same text as formatting the schema.
-/
import Aldrin.Lemmas.Schema.Schema

namespace Aldrin.Schema

theorem forF_map {α β : Type} (l : List α) (g : α → β) (f : β → F) : forF (l.map g) f = forF l (fun a => f (g a)) := by
  funext st; simp [forF, List.foldl_map]

theorem forF_congr {α : Type} (l : List α) (f g : α → F) (h : ∀ a ∈ l, f a = g a) : forF l f = forF l g := by
  funext st
  induction l generalizing st with
  | nil => rfl
  | cons a l ih =>
    simp only [forF, List.foldl_cons] at ih ⊢
    rw [h a List.mem_cons_self]
    exact ih (fun b hb => h b (List.mem_cons_of_mem _ hb)) _

theorem inner_canonC (l : Line) : inner 2 (canonC l) = inner 2 l := canonLine_inner_idem (chars! "//") 2 l rfl
theorem inner_canonD (l : Line) : inner 3 (canonD l) = inner 3 l := canonLine_inner_idem (chars! "///") 3 l rfl
theorem inner_canonDI (l : Line) : inner 3 (canonDI l) = inner 3 l := canonLine_inner_idem (chars! "//!") 3 l rfl

theorem commentLines_canon (cm : List Line) (ind : Nat) : commentLines (cm.map canonC) ind = commentLines cm ind := by
  unfold commentLines
  rw [forF_map]
  apply forF_congr
  intro c _
  simp only [inner_canonC]

theorem docLines_canonD (dc : List Line) (ind : Nat) (style : Str) : docLines (dc.map canonD) ind style = docLines dc ind style := by
  unfold docLines
  rw [forF_map]
  apply forF_congr
  intro c _
  simp only [inner_canonD]

theorem docLines_canonDI (dc : List Line) (ind : Nat) (style : Str) : docLines (dc.map canonDI) ind style = docLines dc ind style := by
  unfold docLines
  rw [forF_map]
  apply forF_congr
  intro c _
  simp only [inner_canonDI]

theorem prelude_canon (cm dc : List Line) (ats : List Attribute) (ind : Nat) (inline : Bool) :
    prelude (cm.map canonC) (dc.map canonD) ats ind inline = prelude cm dc ats ind inline := by
  unfold prelude; rw [commentLines_canon, docLines_canonD]

theorem prelude_canonDI (dc : List Line) (ats : List Attribute) (ind : Nat) (inline : Bool) :
    prelude [] (dc.map canonDI) ats ind inline = prelude [] dc ats ind inline := by
  unfold prelude; rw [docLines_canonDI]

@[simp] theorem isEmpty_map {α β : Type} (l : List α) (f : α → β) : (l.map f).isEmpty = l.isEmpty := by cases l <;> rfl

theorem fieldF_canon (f : StructField) (ind : Nat) : fieldF (canonField f) ind = fieldF f ind := by
  unfold fieldF canonField
  simp only [isEmpty_map, prelude_canon]

theorem variantF_canon (v : EnumVariant) (ind : Nat) : variantF (canonVariant v) ind = variantF v ind := by
  simp [variantF, canonVariant, prelude_canon]

theorem fallbackEntryF_canon (fb : Fallback) (ind : Nat) : fallbackEntryF (canonFallback fb) ind = fallbackEntryF fb ind := by
  simp [fallbackEntryF, canonFallback, prelude_canon]

theorem fieldsF_canon (fs : List StructField) (fb : Option Fallback) (ind : Nat) :
    fieldsF (fs.map canonField) (fb.map canonFallback) ind = fieldsF fs fb ind := by
  unfold fieldsF
  rw [forF_map, forF_congr fs _ (fun f => fieldF f ind) (fun f _ => fieldF_canon f ind)]
  cases fb <;> simp [fallbackEntryF_canon]

theorem variantsF_canon (vs : List EnumVariant) (fb : Option Fallback) (ind : Nat) :
    variantsF (vs.map canonVariant) (fb.map canonFallback) ind = variantsF vs fb ind := by
  unfold variantsF
  rw [forF_map, forF_congr vs _ (fun v => variantF v ind) (fun v _ => variantF_canon v ind)]
  cases fb <;> simp [fallbackEntryF_canon]

@[simp] theorem isSome_map {α β : Type} (o : Option α) (f : α → β) : (o.map f).isSome = o.isSome := by cases o <;> rfl

theorem structDefF_canon (d : StructDef) : structDefF (canonStruct d) = structDefF d := by
  simp [structDefF, canonStruct, prelude_canon, fieldsF_canon, isMultiStruct]

theorem enumDefF_canon (d : EnumDef) : enumDefF (canonEnum d) = enumDefF d := by
  simp [enumDefF, canonEnum, prelude_canon, variantsF_canon, isMultiEnum]

theorem newtypeF_canon (d : NewtypeDef) : newtypeF (canonNewtype d) = newtypeF d := by
  simp [newtypeF, canonNewtype, prelude_canon]

theorem constF_canon (d : ConstDef) : constF (canonConst d) = constF d := by
  simp [constF, canonConst, prelude_canon]

theorem inlineStructF_canon (s : InlineStruct) (ind : Nat) : inlineStructF (canonInlineStruct s) ind = inlineStructF s ind := by
  simp [inlineStructF, canonInlineStruct, prelude_canonDI, fieldsF_canon, isMultiStruct]

theorem inlineEnumF_canon (e : InlineEnum) (ind : Nat) : inlineEnumF (canonInlineEnum e) ind = inlineEnumF e ind := by
  simp [inlineEnumF, canonInlineEnum, prelude_canonDI, variantsF_canon, isMultiEnum]

theorem typeOrInlineF_canon (t : TypeOrInline) (ind : Nat) : typeOrInlineF (canonInline t) ind = typeOrInlineF t ind := by
  cases t <;> simp [typeOrInlineF, canonInline, inlineStructF_canon, inlineEnumF_canon]

theorem isTypeName_canon (t : TypeOrInline) : isTypeName (canonInline t) = isTypeName t := by cases t <;> rfl

theorem isMulti_canon (t : TypeOrInline) : isMultiTypeOrInline (canonInline t) = isMultiTypeOrInline t := by
  cases t <;> simp [isMultiTypeOrInline, canonInline, canonInlineStruct, canonInlineEnum, isMultiStruct, isMultiEnum]

theorem eqInlineF_canon (t : TypeOrInline) (ind : Nat) : eqInlineF (canonInline t) ind = eqInlineF t ind := by
  simp [eqInlineF, typeOrInlineF_canon, isTypeName_canon]

theorem fnPartF_canon (p : FnPart) (k : Str) : fnPartF (canonPart p) k = fnPartF p k := by
  simp [fnPartF, canonPart, commentLines_canon, prelude, typeOrInlineF_canon, isTypeName_canon, isMulti_canon]

theorem optPartF_canon (o : Option FnPart) (k : Str) : optPartF (o.map canonPart) k = optPartF o k := by
  cases o <;> simp [optPartF, fnPartF_canon]

theorem fnDefF_canon (f : FnDef) : fnDefF (canonFn f) = fnDefF f := by
  have hm : fnMulti (canonFn f) = fnMulti f := by
    simp only [fnMulti, canonFn, isEmpty_map, isSome_map]
    cases f.ok <;> simp [canonPart, isMulti_canon]
  have hc : okHasComment (canonFn f) = okHasComment f := by
    simp only [okHasComment, canonFn]
    cases f.ok <;> simp [canonPart]
  unfold fnDefF
  rw [hm, hc]
  simp only [canonFn, prelude_canon, isSome_map, optPartF_canon]
  cases f.ok <;> simp [canonPart, eqInlineF_canon]

theorem eventF_canon (e : EventDef) : eventF (canonEvent e) = eventF e := by
  have hm : eventMulti (canonEvent e) = eventMulti e := by
    simp only [eventMulti, canonEvent, isEmpty_map]
    cases e.ty <;> simp [isMulti_canon]
  unfold eventF
  rw [hm]
  simp only [canonEvent, prelude_canon]
  cases e.ty <;> simp [eqInlineF_canon]

theorem serviceItemF_canon (i : ServiceItem) : serviceItemF (canonItem i) = serviceItemF i := by
  cases i <;> simp [serviceItemF, canonItem, fnDefF_canon, eventF_canon]

theorem itemFallbackF_canon (fb : Fallback) (k : Str) : itemFallbackF (canonFallback fb) k = itemFallbackF fb k := by
  simp [itemFallbackF, canonFallback, prelude_canon]

theorem optFallbackF_canon (fb : Option Fallback) (pre : F) (k : Str) :
    optFallbackF (fb.map canonFallback) pre k = optFallbackF fb pre k := by
  cases fb <;> simp [optFallbackF, itemFallbackF_canon]

theorem isFn_canon (i : ServiceItem) : isFn (canonItem i) = isFn i := by cases i <;> rfl

theorem itemsF_canon (items : List ServiceItem) (fnFb evFb : Option Fallback) :
    itemsF (items.map canonItem) (fnFb.map canonFallback) (evFb.map canonFallback) = itemsF items fnFb evFb := by
  have hfm : fallbackMulti (fnFb.map canonFallback) = fallbackMulti fnFb := by
    cases fnFb <;> simp [fallbackMulti, canonFallback]
  have hany1 : (items.map canonItem).any isFn = items.any isFn := by
    simp [List.any_map, Function.comp_def, isFn_canon]
  have hany2 : (items.map canonItem).any (fun i => !isFn i) = items.any (fun i => !isFn i) := by
    simp [List.any_map, Function.comp_def, isFn_canon]
  unfold itemsF
  simp only [hfm, hany1, hany2, isSome_map, optFallbackF_canon, forF_map, serviceItemF_canon, Option.isNone_map]

theorem serviceF_canon (d : ServiceDef) : serviceF (canonService d) = serviceF d := by
  unfold serviceF
  simp only [canonService, prelude_canon, itemsF_canon, isEmpty_map]
  have h1 : prelude (d.uuidComment.map canonC) [] [] 4 false = prelude d.uuidComment [] [] 4 false := by
    have := prelude_canon d.uuidComment [] [] 4 false; simpa using this
  have h2 : prelude (d.versionComment.map canonC) [] [] 4 false = prelude d.versionComment [] [] 4 false := by
    have := prelude_canon d.versionComment [] [] 4 false; simpa using this
  rw [h1, h2]

theorem definitionF_canon (d : Definition) : definitionF (canonDef d) = definitionF d := by
  cases d <;> simp [definitionF, canonDef, structDefF_canon, enumDefF_canon, serviceF_canon, constF_canon, newtypeF_canon]

theorem importF_canon (i : Import) : importF (canonImport i) = importF i := by
  have := prelude_canon i.comment [] [] 0 false
  simp only [List.map_nil] at this
  simp [importF, canonImport, this]

/-! ### sorting sorted imports -/

def ikey (i : Import) : List Nat := i.name.map Char.toNat

theorem strLt_iff (a b : Import) : strLt a.name b.name = true ↔ ikey a < ikey b := by
  simp [strLt, ikey]

def SortedI (l : List Import) : Prop := l.Pairwise (fun a b => ikey a ≤ ikey b)

theorem insertImport_sorted (i : Import) : ∀ (l : List Import), SortedI l → SortedI (insertImport i l) ∧
    (∀ x ∈ insertImport i l, x = i ∨ x ∈ l)
  | [], _ => ⟨by simp [insertImport, SortedI], by simp [insertImport]⟩
  | j :: r, h => by
    have hj : ∀ x ∈ r, ikey j ≤ ikey x := (List.pairwise_cons.1 h).1
    have hr : SortedI r := (List.pairwise_cons.1 h).2
    obtain ⟨ih1, ih2⟩ := insertImport_sorted i r hr
    unfold insertImport
    by_cases hlt : strLt j.name i.name = true
    · simp only [hlt, ↓reduceIte]
      have hji : ikey j ≤ ikey i := List.le_of_lt ((strLt_iff j i).1 hlt)
      refine ⟨List.pairwise_cons.2 ⟨fun x hx => ?_, ih1⟩, fun x hx => ?_⟩
      · rcases ih2 x hx with rfl | hx
        · exact hji
        · exact hj x hx
      · rcases List.mem_cons.1 hx with rfl | hx
        · exact Or.inr List.mem_cons_self
        · rcases ih2 x hx with rfl | hx
          · exact Or.inl rfl
          · exact Or.inr (List.mem_cons_of_mem _ hx)
    · simp only [hlt, Bool.false_eq_true, ↓reduceIte]
      have hij : ikey i ≤ ikey j := List.not_lt.1 (fun h' => hlt ((strLt_iff j i).2 h'))
      refine ⟨List.pairwise_cons.2 ⟨fun x hx => ?_, h⟩, fun x hx => ?_⟩
      · rcases List.mem_cons.1 hx with rfl | hx
        · exact hij
        · exact List.le_trans hij (hj x hx)
      · rcases List.mem_cons.1 hx with rfl | hx
        · exact Or.inl rfl
        · exact Or.inr hx

theorem sortImports_sorted : ∀ (l : List Import), SortedI (sortImports l)
  | [] => by simp [sortImports, SortedI]
  | x :: l => by
    simp only [sortImports, List.foldr_cons]
    exact (insertImport_sorted x _ (sortImports_sorted l)).1

theorem sortImports_of_sorted : ∀ (l : List Import), SortedI l → sortImports l = l
  | [], _ => rfl
  | x :: l, h => by
    have hx : ∀ y ∈ l, ikey x ≤ ikey y := (List.pairwise_cons.1 h).1
    have hl : SortedI l := (List.pairwise_cons.1 h).2
    simp only [sortImports, List.foldr_cons]
    have ih := sortImports_of_sorted l hl
    simp only [sortImports] at ih
    rw [ih]
    cases l with
    | nil => rfl
    | cons j r =>
      unfold insertImport
      have : strLt j.name x.name = false := by
        cases hs : strLt j.name x.name with
        | false => rfl
        | true =>
          have h1 := (strLt_iff j x).1 hs
          have h2 := hx j List.mem_cons_self
          exact absurd h1 (List.not_lt.2 h2)
      simp [this]

theorem sortImports_idem (l : List Import) : sortImports (sortImports l) = sortImports l :=
  sortImports_of_sorted _ (sortImports_sorted l)

theorem insertImport_map (g : Import → Import) (hg : ∀ i, (g i).name = i.name) (i : Import) :
    ∀ (l : List Import), insertImport (g i) (l.map g) = (insertImport i l).map g
  | [] => rfl
  | j :: r => by
    simp only [List.map_cons, insertImport, hg]
    split <;> simp [insertImport_map g hg i r]

theorem sortImports_map (g : Import → Import) (hg : ∀ i, (g i).name = i.name) :
    ∀ (l : List Import), sortImports (l.map g) = (sortImports l).map g
  | [] => rfl
  | x :: l => by
    simp only [List.map_cons, sortImports, List.foldr_cons]
    have ih := sortImports_map g hg l
    simp only [sortImports] at ih
    rw [ih, insertImport_map g hg]

/-! ### the whole schema -/

/-- The formatter does not distinguish a schema from its canonical form. -/
theorem format_canon (s : Schema) : format (canonSchema s) = format s := by
  unfold format schemaF canonSchema
  simp only [isEmpty_map, commentLines_canon, docLines_canonDI]
  have himp : importsF ((sortImports s.imports).map canonImport) = importsF s.imports := by
    unfold importsF
    simp only [sortImports_map canonImport (fun _ => rfl), sortImports_idem, isEmpty_map, forF_map, importF_canon]
  have hdefs : forF (s.defs.map canonDef) definitionF = forF s.defs definitionF := by
    rw [forF_map]
    exact forF_congr _ _ _ (fun d _ => definitionF_canon d)
  rw [himp, hdefs]

end Aldrin.Schema
