/-
The whole file: schema comments and docs, imports (sorted by the formatter), definitions.
-/
import Aldrin.Lemmas.Schema.File

namespace Aldrin.Schema

/-! ### what can follow the schema prelude: an import, a definition, or the end of the file -/

/-- A text that starts (after a blank run) with the prelude of an import or definition and its keyword, or is
empty. -/
inductive ItemStart (fuel : Nat) (K : Str → Prop) : Str → Prop
  | eof : ItemStart fuel K []
  | item (w : Str) (cm dc : List Line) (ats : List Attribute) (k more : Str) : Blank w → ValidLines 2 cm → cm.length < fuel →
      ValidIdent k → K k → ItemStart fuel K (w ++ (joined (preItems cm dc ats 0) ++ (k ++ more)))

/-- After the leading comments of an item no inline doc string follows. -/
theorem commentItems_then (cm dc : List Line) (ats : List Attribute) {k : Str} (hk : ValidIdent k) (more : Str) :
    ∃ r, skipWs (joined (preItems [] dc [] 0) ++ (joined (preItems [] [] ats 0) ++ (k ++ more))) = r ∧
      commentP r = none ∧ docInlineP r = none := by
  by_cases hdc : dc = []
  · subst hdc
    by_cases hats : ats = []
    · subst hats
      obtain ⟨ch, r, rfl, hch, _⟩ := hk
      have h1 : ch ≠ '/' := by intro he; subst he; simp [isIdStart] at hch
      refine ⟨ch :: r ++ more, by simpa [preItems] using skipWs_cons_nws (idStart_not_ws' hch) _, ?_, ?_⟩
      · simp [commentP, h1, Ne.symm h1]
      · simp [docInlineP, h1, Ne.symm h1]
    · obtain ⟨t, ht⟩ := attrItems_head ats hats 0 (k ++ more)
      exact ⟨'#' :: t, by simpa [preItems] using ht, by simp [commentP], by simp [docInlineP]⟩
  · obtain ⟨t, ht⟩ := docItems_head dc hdc 0 (joined (preItems [] [] ats 0) ++ (k ++ more))
    exact ⟨_, ht, by simp [commentP], by simp [docInlineP]⟩

theorem commentP_items (cm : List Line) (hvc : ValidLines 2 cm) (rest : Str) :
    SeqItems commentP (cm.map (fun c => (canonC c, List.replicate 0 ' ' ++ canonC c, ([] : Str)))) rest := by
  apply seqItems_map
  intro x hx tail
  refine ⟨blank_nil, ?_⟩
  simp only [canonC, List.replicate, List.nil_append]
  have : skipWs (canonLine (chars! "//") (inner 2 x) ++ tail) = canonLine (chars! "//") (inner 2 x) ++ tail := by
    simp only [canonLine, List.cons_append]; exact skipWs_cons_nws (by decide) _
  rw [this]
  exact commentP_canon _ tail (hvc x hx)

theorem joined_commentItems (cm : List Line) :
    joined (cm.map (fun c => (canonC c, List.replicate 0 ' ' ++ canonC c, ([] : Str)))) = joined (preItems cm [] [] 0) := by
  simp [preItems, joined, Function.comp_def]

/-- `comment* ~ doc_string_inline` fails where an item (or the end of the file) starts. -/
theorem fileGroupP_none {fuel : Nat} {K : Str → Prop} {cs : Str} (h : ItemStart fuel K cs) : fileGroupP fuel (skipWs cs) = none := by
  cases h with
  | eof => cases fuel <;> simp [fileGroupP, many, commentP, docInlineP]
  | item w cm dc ats k more hw hvc hf hk _ =>
    obtain ⟨r, hr, hc, hd⟩ := commentItems_then cm dc ats hk more
    have hseq : SeqOk commentP (cm.map (fun c => (canonC c, List.replicate 0 ' ' ++ canonC c, ([] : Str))) ++ [])
        (joined (preItems [] dc [] 0) ++ (joined (preItems [] [] ats 0) ++ (k ++ more))) :=
      seqOk_append _ _ [] _ (by simpa using commentP_items cm hvc _) (by show commentP (skipWs _) = none; rw [hr]; exact hc)
    rw [List.append_nil] at hseq
    have hm := many_seq commentP _ _ fuel hseq (by simpa using hf)
    rw [joined_commentItems] at hm
    have htxt : w ++ (joined (preItems cm dc ats 0) ++ (k ++ more)) =
        w ++ (joined (preItems cm [] [] 0) ++ (joined (preItems [] dc [] 0) ++ (joined (preItems [] [] ats 0) ++ (k ++ more)))) := by
      rw [preItems_split]; simp [List.append_assoc]
    rw [htxt, skipWs_blank hw]
    unfold fileGroupP
    rw [hm.2, hr, hd]

/-! ### the schema prelude -/

def docsText (dc : List Line) : Str := (dc.map (fun d => canonDI d)).flatten

/-- The groups `(comment* ~ doc_string_inline)` the written prelude consists of. -/
def headerGroups (cm dc : List Line) (b : Str) : List ((List Line × Line) × Str × Str) :=
  match dc with
  | [] => []
  | d :: ds => ((cm.map canonC, canonDI d), joined (preItems cm [] [] 0) ++ (b ++ canonDI d), ([] : Str)) ::
      ds.map (fun d => ((([] : List Line), canonDI d), canonDI d, ([] : Str)))

theorem joined_headerGroups (cm dc : List Line) (b : Str) (hne : dc ≠ []) :
    joined (headerGroups cm dc b) = joined (preItems cm [] [] 0) ++ (b ++ docsText dc) := by
  cases dc with
  | nil => exact absurd rfl hne
  | cons d ds =>
    simp only [headerGroups, joined_cons, List.nil_append, docsText, List.map_cons, List.flatten_cons, List.append_assoc]
    congr 2
    congr 1
    induction ds with
    | nil => rfl
    | cons x xs ih => simp [joined_cons, ih]

theorem canonDI_skip (d : Line) (tail : Str) : skipWs (canonDI d ++ tail) = canonDI d ++ tail := by
  simp only [canonDI, canonLine, List.cons_append]; exact skipWs_cons_nws (by decide) _

theorem fileGroupP_doc (d : Line) (hv : '\n' ∉ inner 3 d) (fuel : Nat) (tail : Str) :
    fileGroupP fuel (canonDI d ++ tail) = some (([], canonDI d), tail) := by
  have hm : many commentP fuel (canonDI d ++ tail) = ([], canonDI d ++ tail) :=
    many_none _ _ _ (commentP_docInline _ _)
  unfold fileGroupP
  rw [hm]
  simp only [canonDI_skip]
  rw [show canonDI d = canonLine (chars! "//!") (inner 3 d) from rfl, docInlineP_canon _ tail hv]

theorem headerGroups_seqOk (cm dc : List Line) (b : Str) (hb : Blank b) (hvc : ValidLines 2 cm) (hvd : ValidLines 3 dc)
    (fuel : Nat) (hf : cm.length < fuel) (rest : Str) (hend : fileGroupP fuel (skipWs rest) = none) :
    SeqOk (fileGroupP fuel) (headerGroups cm dc b) rest := by
  cases dc with
  | nil => exact hend
  | cons d ds =>
    have htail : SeqOk (fileGroupP fuel) (ds.map (fun d => ((([] : List Line), canonDI d), canonDI d, ([] : Str))) ++ []) rest := by
      apply seqOk_append _ _ [] rest _ hend
      apply seqItems_map
      intro x hx tail
      refine ⟨blank_nil, ?_⟩
      simp only [List.nil_append]
      rw [canonDI_skip]
      exact fileGroupP_doc x (hvd x (List.mem_cons_of_mem _ hx)) fuel tail
    rw [List.append_nil] at htail
    refine ⟨blank_nil, ?_, htail⟩
    -- the first group: all comments, then the first doc line
    simp only [List.nil_append]
    generalize hT : joined (ds.map (fun d => ((([] : List Line), canonDI d), canonDI d, ([] : Str)))) ++ rest = T
    have hseq : SeqOk commentP (cm.map (fun c => (canonC c, List.replicate 0 ' ' ++ canonC c, ([] : Str))) ++ [])
        (b ++ (canonDI d ++ T)) :=
      seqOk_append _ _ [] _ (by simpa using commentP_items cm hvc _)
        (by show commentP (skipWs _) = none; rw [skipWs_blank hb, canonDI_skip]; exact commentP_docInline _ _)
    rw [List.append_nil] at hseq
    have hm := many_seq commentP _ _ fuel hseq (by simpa using hf)
    rw [joined_commentItems] at hm
    unfold fileGroupP
    simp only [List.append_assoc]
    rw [hm.2, skipWs_blank hb, canonDI_skip, hm.1]
    rw [show canonDI d = canonLine (chars! "//!") (inner 3 d) from rfl, docInlineP_canon _ T (hvd d List.mem_cons_self)]
    simp [Function.comp_def]

theorem headerGroups_result (cm dc : List Line) (b : Str) (hcm : dc = [] → cm = []) :
    (((headerGroups cm dc b).map (·.1)).map (·.1)).flatten = cm.map canonC ∧
    ((headerGroups cm dc b).map (·.1)).map (·.2) = dc.map canonDI := by
  cases dc with
  | nil => simp [headerGroups, hcm rfl]
  | cons d ds =>
    simp only [headerGroups, List.map_cons, List.map_map, Function.comp_def, List.flatten_cons]
    refine ⟨?_, by simp⟩
    have : (ds.map (fun _ => ([] : List Line))).flatten = [] := by induction ds <;> simp_all
    simp [this]

/-! ### where blocks start and end -/

theorem block_itemStart {β γ : Type} (canon : β → γ) (T : β → Str → Prop) (fuel : Nat) (K : Str → Prop)
    (hs : ∀ x txt, T x txt → ∃ cm dc ats k more, txt = joined (preItems cm dc ats 0) ++ (k ++ more) ∧ ValidLines 2 cm ∧
      cm.length < fuel ∧ ValidIdent k ∧ K k)
    (l : List β) (wts : List (Str × Str)) (hrel : BlockRel T l wts) (R : Str) (hR : ItemStart fuel K R) :
    ItemStart fuel K (joined (blockItems canon l wts) ++ R) := by
  cases l with
  | nil =>
    have : wts = [] := by cases wts <;> simp_all [BlockRel]
    subst this
    simpa [blockItems] using hR
  | cons x l =>
    cases wts with
    | nil => simp [BlockRel] at hrel
    | cons p wts =>
      obtain ⟨w, txt⟩ := p
      obtain ⟨hw, ht, _⟩ := hrel
      obtain ⟨cm, dc, ats, k, more, rfl, hvc, hf, hk, hK⟩ := hs x txt ht
      have := ItemStart.item (fuel := fuel) (K := K) w cm dc ats k (more ++ (['\n'] ++ (joined (blockItems canon l wts) ++ R))) hw hvc hf hk hK
      simpa [blockItems, List.append_assoc] using this

theorem itemStart_mono {fuel : Nat} {K K' : Str → Prop} (h : ∀ k, K k → K' k) {cs : Str} (hs : ItemStart fuel K cs) :
    ItemStart fuel K' cs := by
  cases hs with
  | eof => exact .eof
  | item w cm dc ats k more hw hvc hf hk hK => exact .item w cm dc ats k more hw hvc hf hk (h k hK)

/-- The import parser fails where a definition starts and at the end of the file. -/
theorem importP_none_at (fuel : Nat) (cs : Str) (h : ItemStart fuel (fun k => ∀ m, kw (chars! "import") (k ++ m) = none) cs) :
    importP fuel (skipWs cs) = none := by
  cases h with
  | eof =>
    have hm : many (preItemP true false false fuel) fuel [] = ([], []) := many_none _ _ _ (by simp [preItemP, commentP])
    simp [importP, preludeP, hm, headerP, kwWs, kw, lit]
  | item w cm dc ats k more hw hvc hf hkv hK =>
    have hs := preludeP_comments_only cm dc ats fuel hkv more hvc hf w hw
    have hnone := kwWs_stops_none (kx := chars! "import") hs (by intro t; simp [kw, lit]) (by intro t; simp [kw, lit]) (hK _)
    unfold importP
    simp [headerP, hnone]

theorem defP_nil (fuel : Nat) : defP fuel [] = none := by
  have hm : ∀ c d a, many (preItemP c d a fuel) fuel [] = ([], []) := fun c d a =>
    many_none _ _ _ (by cases c <;> cases d <;> cases a <;> simp [preItemP, commentP, docP, attributeP, kw, lit, Option.bind_eq_bind])
  simp [defP, structDefP, enumDefP, serviceDefP, constDefP, newtypeDefP, preludeP, hm, defOpenP, nameEqP, headerP, kwWs, kw, lit]

/-! ### the file -/

def ValidSchema (s : Schema) : Prop :=
  ValidLines 2 s.comment ∧ ValidLines 3 s.doc ∧ (s.doc = [] → s.comment = []) ∧ (∀ i ∈ s.imports, ValidImport i) ∧
  (∀ d ∈ s.defs, ValidDef d)

/-- The schema the formatted text stands for: lines in canonical form, imports sorted. -/
def canonSchema (s : Schema) : Schema :=
  { comment := s.comment.map canonC, doc := s.doc.map canonDI, imports := (sortImports s.imports).map canonImport,
    defs := s.defs.map canonDef }

def schemaFuel (s : Schema) : Nat :=
  s.comment.length + s.doc.length + s.imports.length + listMax (s.imports.map (·.comment.length)) +
  s.defs.length + listMax (s.defs.map defFuel) + 2

theorem mem_insertImport {i j : Import} : ∀ {l : List Import}, j ∈ insertImport i l → j = i ∨ j ∈ l
  | [], h => by simpa [insertImport] using h
  | x :: l, h => by
    unfold insertImport at h
    split at h
    · rcases List.mem_cons.1 h with rfl | h
      · exact Or.inr List.mem_cons_self
      · rcases mem_insertImport h with h | h
        · exact Or.inl h
        · exact Or.inr (List.mem_cons_of_mem _ h)
    · rcases List.mem_cons.1 h with rfl | h
      · exact Or.inl rfl
      · exact Or.inr h

theorem mem_sortImports {j : Import} : ∀ {l : List Import}, j ∈ sortImports l → j ∈ l
  | [], h => by simp [sortImports] at h
  | x :: l, h => by
    simp only [sortImports, List.foldr_cons] at h
    rcases mem_insertImport h with rfl | h
    · exact List.mem_cons_self
    · exact List.mem_cons_of_mem _ (mem_sortImports h)

theorem length_insertImport (i : Import) : ∀ (l : List Import), (insertImport i l).length = l.length + 1
  | [] => rfl
  | x :: l => by unfold insertImport; split <;> simp [length_insertImport i l]

theorem length_sortImports : ∀ (l : List Import), (sortImports l).length = l.length
  | [] => rfl
  | x :: l => by simp [sortImports, length_insertImport, ← length_sortImports l]

def headerText (s : Schema) (b : Str) : Str :=
  if s.doc = [] then joined (preItems s.comment [] [] 0) else joined (headerGroups s.comment s.doc b)

theorem schemaF_out (s : Schema) : ∃ b wtsI wtsD, Blank b ∧
    BlockRel (fun (i : Import) t => t = importText i) (sortImports s.imports) wtsI ∧ BlockRel DefTexts s.defs wtsD ∧
    format s = headerText s b ++ (joined (blockItems canonImport (sortImports s.imports) wtsI) ++
      joined (blockItems canonDef s.defs wtsD)) := by
  unfold format schemaF
  simp only [seqF_cons]
  -- schema comments
  let st0 : FSt := {}
  let st1 := (if (!s.comment.isEmpty) = true then seqF [setNewline true, commentLines s.comment 0] else id) st0
  have h1 : st1.out = joined (preItems s.comment [] [] 0) := by
    show ((if (!s.comment.isEmpty) = true then seqF [setNewline true, commentLines s.comment 0] else id) st0).out = _
    by_cases hc : (!s.comment.isEmpty) = true
    · simp only [hc, ↓reduceIte, seqF, id]
      rw [pure_out (pure_commentLines s.comment 0)]
      simp [preItems, joined, Function.comp_def, st0]
    · have : s.comment = [] := by cases h : s.comment <;> simp_all
      simp [hc, this, preItems, st0]
  -- schema docs
  let st2 := (if (!s.doc.isEmpty) = true then seqF [newlineF, docLines s.doc 0 (chars! "//!"), setNewline true] else id) st1
  have h2 : ∃ b, Blank b ∧ st2.out = headerText s b := by
    by_cases hd : (!s.doc.isEmpty) = true
    · have hne : s.doc ≠ [] := by intro h; simp [h] at hd
      refine ⟨nlIf st1.newline, blank_nlIf _, ?_⟩
      show ((if (!s.doc.isEmpty) = true then seqF [newlineF, docLines s.doc 0 (chars! "//!"), setNewline true] else id) st1).out = _
      simp only [hd, ↓reduceIte, seqF, id, setNewline_out]
      rw [pure_out (pure_docLines s.doc 0 _), newlineF_out, h1]
      simp only [headerText, hne, ↓reduceIte, joined_headerGroups _ _ _ hne, docsText, canonDI, List.replicate, List.nil_append,
        List.append_assoc]
    · have : s.doc = [] := by cases h : s.doc <;> simp_all
      refine ⟨[], blank_nil, ?_⟩
      show ((if (!s.doc.isEmpty) = true then seqF [newlineF, docLines s.doc 0 (chars! "//!"), setNewline true] else id) st1).out = _
      simp [hd, this, headerText, h1]
  obtain ⟨b, hb, h2⟩ := h2
  obtain ⟨wtsI, hrelI, houtI⟩ := forF_emits canonImport importF (fun (i : Import) t => t = importText i) (sortImports s.imports)
    (fun i _ => emits_importF i) st2
  obtain ⟨wtsD, hrelD, houtD⟩ := forF_emits canonDef definitionF DefTexts s.defs (fun d _ => emits_definitionF d)
    (importsF s.imports st2)
  refine ⟨b, wtsI, wtsD, hb, hrelI, hrelD, ?_⟩
  show (seqF [] (forF s.defs definitionF (importsF s.imports st2))).out = _
  simp only [seqF, id]
  rw [houtD]
  have : (importsF s.imports st2).out = (forF (sortImports s.imports) importF st2).out := by
    simp [importsF, seqF]
  rw [this, houtI, h2]
  simp [List.append_assoc]

theorem importText_shape (i : Import) :
    importText i = joined (preItems i.comment [] [] 0) ++ (chars! "import" ++ (' ' :: (i.name ++ [';']))) := by
  simp [importText]

theorem defText_shape (d : Definition) (hv : ValidDef d) (txt : Str) (ht : DefTexts d txt) :
    ∃ cm dc ats k more, txt = joined (preItems cm dc ats 0) ++ (k ++ more) ∧ ValidLines 2 cm ∧ cm.length < defFuel d ∧
      ValidIdent k ∧ (∀ m, kw (chars! "import") (k ++ m) = none) := by
  cases d with
  | struct d =>
    obtain ⟨more, rfl⟩ := structText_shape d txt ht
    exact ⟨d.comment, d.doc, d.attrs, chars! "struct", ' ' :: more, rfl, hv.1, by simp only [defFuel, structFuel]; omega, vi_struct,
      by intro m; simp [kw, lit]⟩
  | enum d =>
    obtain ⟨more, rfl⟩ := enumText_shape d txt ht
    exact ⟨d.comment, d.doc, d.attrs, chars! "enum", ' ' :: more, rfl, hv.1, by simp only [defFuel, enumFuel]; omega, vi_enum,
      by intro m; simp [kw, lit]⟩
  | service d =>
    obtain ⟨more, rfl⟩ := serviceText_shape d txt ht
    exact ⟨d.comment, d.doc, [], chars! "service", ' ' :: more, rfl, hv.1, by simp only [defFuel, serviceFuel]; omega, vi_service,
      by intro m; simp [kw, lit]⟩
  | const d =>
    simp only [DefTexts] at ht; subst ht
    obtain ⟨more, h⟩ := constText_shape d
    exact ⟨d.comment, d.doc, [], chars! "const", ' ' :: more, h, hv.1, by simp only [defFuel]; omega, vi_const,
      by intro m; simp [kw, lit]⟩
  | newtype d =>
    simp only [DefTexts] at ht; subst ht
    obtain ⟨more, h⟩ := newtypeText_shape d
    exact ⟨d.comment, d.doc, d.attrs, chars! "newtype", ' ' :: more, h, hv.1, by simp only [defFuel, newtypeFuel]; omega, vi_newtype,
      by intro m; simp [kw, lit]⟩

theorem blockRel_mem {β : Type} (T : β → Str → Prop) (M : β → Prop) :
    ∀ (l : List β) (wts : List (Str × Str)), (∀ x ∈ l, M x) → BlockRel T l wts → BlockRel (fun x txt => T x txt ∧ M x) l wts
  | [], [], _, _ => trivial
  | [], _ :: _, _, h => by simp [BlockRel] at h
  | _ :: _, [], _, h => by simp [BlockRel] at h
  | x :: l, (w, txt) :: wts, hm, h =>
    ⟨h.1, ⟨h.2.1, hm x List.mem_cons_self⟩, blockRel_mem T M l wts (fun y hy => hm y (List.mem_cons_of_mem _ hy)) h.2.2⟩

def NotImportKw (k : Str) : Prop := ∀ m, kw (chars! "import") (k ++ m) = none

/-- The formatted text of a schema is read back as the schema in canonical form. -/
theorem fileP_format (s : Schema) (hv : ValidSchema s) (fuel : Nat) (hf : schemaFuel s ≤ fuel) :
    fileP fuel (format s) = some (canonSchema s) := by
  obtain ⟨hvc, hvd, hcd, hvi, hvdf⟩ := hv
  obtain ⟨b, wtsI, wtsD, hb, hrelI, hrelD, hfmt⟩ := schemaF_out s
  unfold schemaFuel at hf
  have hfuelD : ∀ d ∈ s.defs, defFuel d ≤ fuel := fun d hd => by
    have := le_listMax (List.mem_map_of_mem (f := defFuel) hd); omega
  have hfuelI : ∀ i ∈ sortImports s.imports, i.comment.length < fuel := fun i hi => by
    have := le_listMax (List.mem_map_of_mem (f := fun (x : Import) => x.comment.length) (mem_sortImports hi)); omega
  -- definitions up to the end of the file
  have hdefs := many_block canonDef DefTexts (defP fuel) s.defs wtsD [] fuel hrelD
    (fun d hd w txt tail hw ht => defP_text d (hvdf d hd) fuel (hfuelD d hd) txt ht w tail hw)
    (by simpa using defP_nil fuel) (by omega)
  simp only [List.append_nil, skipWs_nil] at hdefs
  -- where the definitions start
  have hstartD : ItemStart fuel NotImportKw (joined (blockItems canonDef s.defs wtsD) ++ []) :=
    block_itemStart canonDef (fun d txt => DefTexts d txt ∧ d ∈ s.defs) fuel NotImportKw
      (fun d txt ⟨ht, hd⟩ => by
        obtain ⟨cm, dc, ats, k, more, h1, h2, h3, h4, h5⟩ := defText_shape d (hvdf d hd) txt ht
        exact ⟨cm, dc, ats, k, more, h1, h2, by have := hfuelD d hd; omega, h4, h5⟩)
      s.defs wtsD (blockRel_mem DefTexts (· ∈ s.defs) s.defs wtsD (fun d hd => hd) hrelD) [] ItemStart.eof
  rw [List.append_nil] at hstartD
  -- imports, up to the definitions
  have himports := many_block canonImport (fun (i : Import) t => t = importText i) (importP fuel) (sortImports s.imports) wtsI
    (joined (blockItems canonDef s.defs wtsD)) fuel hrelI
    (fun i hi w txt tail hw ht => by
      subst ht
      exact importP_text i (hvi i (mem_sortImports hi)) fuel (hfuelI i hi) w tail hw)
    (importP_none_at fuel _ hstartD) (by rw [length_sortImports]; omega)
  -- where the imports start
  have hstartI : ItemStart fuel (fun _ => True) (joined (blockItems canonImport (sortImports s.imports) wtsI) ++
      joined (blockItems canonDef s.defs wtsD)) :=
    block_itemStart canonImport (fun (i : Import) txt => txt = importText i ∧ i ∈ sortImports s.imports) fuel (fun _ => True)
      (fun i txt ⟨ht, hi⟩ => ⟨i.comment, [], [], chars! "import", ' ' :: (i.name ++ [';']), by rw [ht, importText_shape],
        (hvi i (mem_sortImports hi)).1, hfuelI i hi, vi_import, trivial⟩)
      (sortImports s.imports) wtsI (blockRel_mem _ (· ∈ sortImports s.imports) _ wtsI (fun i hi => hi) hrelI) _
      (itemStart_mono (fun _ _ => trivial) hstartD)
  -- the schema prelude
  have hgroups : ((many (fileGroupP fuel) fuel (skipWs (format s))).1.map (·.1)).flatten = s.comment.map canonC ∧
      (many (fileGroupP fuel) fuel (skipWs (format s))).1.map (·.2) = s.doc.map canonDI ∧
      skipWs (many (fileGroupP fuel) fuel (skipWs (format s))).2 =
        skipWs (joined (blockItems canonImport (sortImports s.imports) wtsI) ++ joined (blockItems canonDef s.defs wtsD)) := by
    have hend := fileGroupP_none hstartI
    by_cases hdoc : s.doc = []
    · have hcm := hcd hdoc
      have hm := many_seq (fileGroupP fuel) [] _ fuel hend (by simp; omega)
      simp only [joined_nil, List.nil_append, List.map_nil] at hm
      rw [hfmt]
      simp only [headerText, hdoc, hcm, ↓reduceIte, preItems, List.map_nil, List.append_nil, joined_nil, List.nil_append]
      simp [hm.1, hm.2]
    · have hseq := headerGroups_seqOk s.comment s.doc b hb hvc hvd fuel (by omega) _ hend
      have hlen : (headerGroups s.comment s.doc b).length < fuel := by
        cases hd : s.doc with
        | nil => exact absurd hd hdoc
        | cons d ds => simp [headerGroups]; rw [hd] at hf; simp at hf; omega
      have hm := many_seq (fileGroupP fuel) _ _ fuel hseq hlen
      obtain ⟨hr1, hr2⟩ := headerGroups_result s.comment s.doc b hcd
      rw [hfmt]
      simp only [headerText, hdoc, ↓reduceIte]
      rw [hm.1]
      exact ⟨hr1, hr2, hm.2⟩
  obtain ⟨hg1, hg2, hg3⟩ := hgroups
  unfold fileP
  simp only [hg3, himports.1, himports.2, hdefs.1, hdefs.2, List.isEmpty_nil, ↓reduceIte, hg1, hg2]
  rfl

end Aldrin.Schema
