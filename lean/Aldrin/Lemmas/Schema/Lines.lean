/-
Comment and doc lines: what the formatter writes for a line is read back as a line with the same `inner`.
-/
import Aldrin.Lemmas.Schema.Atoms

namespace Aldrin.Schema

/-- The line the formatter writes for a comment / doc string with inner text `i`. -/
def canonLine (pre : Str) (i : Str) : Line := pre ++ (if i.isEmpty then [] else ' ' :: i) ++ ['\n']

theorem lineTail_append : ∀ (body rest : Str), '\n' ∉ body → lineTail (body ++ '\n' :: rest) = (body ++ ['\n'], rest)
  | [], rest, _ => by simp [lineTail]
  | c :: body, rest, h => by
    have hc : c ≠ '\n' := fun he => h (he ▸ List.mem_cons_self)
    have hb : '\n' ∉ body := fun hm => h (List.mem_cons_of_mem _ hm)
    have ih := lineTail_append body rest hb
    rw [List.cons_append]
    unfold lineTail
    split
    · rename_i heq; cases heq
    · rename_i r heq
      simp only [List.cons.injEq] at heq
      exact absurd heq.1 hc
    · rename_i r heq
      simp only [List.cons.injEq] at heq
      obtain ⟨rfl, heq⟩ := heq
      cases body with
      | nil => simp at heq; simp [heq]
      | cons d body =>
        simp only [List.cons_append, List.cons.injEq] at heq
        exact absurd heq.1.symm (fun he => hb (he ▸ List.mem_cons_self))
    · rename_i c' r h1 h2 heq
      simp only [List.cons.injEq] at heq
      obtain ⟨rfl, rfl⟩ := heq
      simp [ih]

/-! ### `trim_end` -/

theorem trimEnd_eq_self_iff (s : Str) : trimEnd s = s ↔ (∀ c, s.getLast? = some c → isWs c = false) := by
  unfold trimEnd
  constructor
  · intro h c hc
    have hr : s.reverse.head? = some c := by simpa [List.head?_reverse] using hc
    cases hrev : s.reverse with
    | nil => rw [hrev] at hr; simp at hr
    | cons d r =>
      rw [hrev] at hr h
      simp only [List.head?_cons, Option.some.injEq] at hr
      subst hr
      by_cases hw : isWs d = true
      · exfalso
        simp only [List.dropWhile, hw] at h
        have hlen := congrArg List.length h
        have hle := (List.dropWhile_sublist isWs (l := r)).length_le
        have : s.length = r.length + 1 := by
          have := congrArg List.length hrev; simpa using this
        simp at hlen; omega
      · simpa using hw
  · intro h
    cases hrev : s.reverse with
    | nil =>
      have : s = [] := by simpa using hrev
      simp [this]
    | cons d r =>
      have hl : s.getLast? = some d := by
        rw [← List.head?_reverse, hrev]; rfl
      have hw := h d hl
      simp only [List.dropWhile, hw]
      rw [← hrev, List.reverse_reverse]

theorem trimEnd_idem (s : Str) : trimEnd (trimEnd s) = trimEnd s := by
  rw [trimEnd_eq_self_iff]
  intro c hc
  unfold trimEnd at hc
  rw [List.getLast?_reverse] at hc
  cases hd : s.reverse.dropWhile isWs with
  | nil => rw [hd] at hc; simp at hc
  | cons d r =>
    rw [hd] at hc
    simp only [List.head?_cons, Option.some.injEq] at hc
    subst hc
    have := List.head_dropWhile_not isWs (l := s.reverse) (by rw [hd]; simp)
    simpa [hd] using this

theorem trimEnd_append_ws (s : Str) {c : Char} (hc : isWs c = true) : trimEnd (s ++ [c]) = trimEnd s := by
  simp [trimEnd, List.dropWhile, hc]

theorem inner_trimmed (k : Nat) (raw : Line) : trimEnd (inner k raw) = inner k raw := by
  unfold inner
  exact trimEnd_idem _

/-- Reading back what was written: the inner text is unchanged. -/
theorem inner_canonLine (pre : Str) (i : Str) (hi : trimEnd i = i) : inner pre.length (canonLine pre i) = i := by
  unfold inner canonLine
  simp only [List.append_assoc, List.drop_left]
  by_cases he : i = []
  · subst he
    simp [trimEnd, isWs]
  · have : i.isEmpty = false := by cases i <;> simp_all
    simp only [this, Bool.false_eq_true, ↓reduceIte, List.cons_append]
    rw [trimEnd_append_ws _ (by decide)]
    exact hi

theorem canonLine_inner_idem (pre : Str) (k : Nat) (raw : Line) (hk : pre.length = k) :
    inner k (canonLine pre (inner k raw)) = inner k raw := by
  subst hk
  exact inner_canonLine pre _ (inner_trimmed _ raw)

/-! ### the three line parsers on written lines -/

theorem commentP_canon (i rest : Str) (hn : '\n' ∉ i) :
    commentP (canonLine (chars! "//") i ++ rest) = some (canonLine (chars! "//") i, rest) := by
  unfold canonLine
  by_cases he : i = []
  · subst he
    simp [commentP, lineTail]
  · have hne : i.isEmpty = false := by cases i <;> simp_all
    simp only [hne, Bool.false_eq_true, ↓reduceIte]
    have hbody : '\n' ∉ ((chars! "//") ++ ' ' :: i) := by simp [hn]
    have := lineTail_append ((chars! "//") ++ ' ' :: i) rest hbody
    have e : (chars! "//") ++ ' ' :: i ++ ['\n'] ++ rest = ((chars! "//") ++ ' ' :: i) ++ '\n' :: rest := by simp
    rw [e]
    unfold commentP
    rw [this]
    simp

theorem docP_canon (i rest : Str) (hn : '\n' ∉ i) :
    docP (canonLine (chars! "///") i ++ rest) = some (canonLine (chars! "///") i, rest) := by
  unfold canonLine
  by_cases he : i = []
  · subst he
    simp [docP, lineTail]
  · have hne : i.isEmpty = false := by cases i <;> simp_all
    simp only [hne, Bool.false_eq_true, ↓reduceIte]
    have hbody : '\n' ∉ ((chars! "///") ++ ' ' :: i) := by simp [hn]
    have := lineTail_append ((chars! "///") ++ ' ' :: i) rest hbody
    have e : (chars! "///") ++ ' ' :: i ++ ['\n'] ++ rest = ((chars! "///") ++ ' ' :: i) ++ '\n' :: rest := by simp
    rw [e]
    unfold docP
    rw [this]
    simp

theorem docInlineP_canon (i rest : Str) (hn : '\n' ∉ i) :
    docInlineP (canonLine (chars! "//!") i ++ rest) = some (canonLine (chars! "//!") i, rest) := by
  unfold canonLine
  by_cases he : i = []
  · subst he
    simp [docInlineP, lineTail]
  · have hne : i.isEmpty = false := by cases i <;> simp_all
    simp only [hne, Bool.false_eq_true, ↓reduceIte]
    have hbody : '\n' ∉ ((chars! "//!") ++ ' ' :: i) := by simp [hn]
    have := lineTail_append ((chars! "//!") ++ ' ' :: i) rest hbody
    have e : (chars! "//!") ++ ' ' :: i ++ ['\n'] ++ rest = ((chars! "//!") ++ ' ' :: i) ++ '\n' :: rest := by simp
    rw [e]
    unfold docInlineP
    rw [this]
    simp

/-- A written comment line is neither a doc string nor an inline doc string, and vice versa. -/
theorem docP_comment (i rest : Str) : docP (canonLine (chars! "//") i ++ rest) = none := by
  unfold canonLine docP
  by_cases he : i = [] <;> simp [he]

theorem commentP_doc (i rest : Str) : commentP (canonLine (chars! "///") i ++ rest) = none := by
  unfold canonLine commentP
  simp

theorem commentP_docInline (i rest : Str) : commentP (canonLine (chars! "//!") i ++ rest) = none := by
  unfold canonLine commentP
  simp

end Aldrin.Schema
