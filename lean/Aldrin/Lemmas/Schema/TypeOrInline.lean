/-
`type_name_or_inline`: a type followed by `;`, an inline struct or an inline enum.
-/
import Aldrin.Lemmas.Schema.Inline

namespace Aldrin.Schema

def ValidInline : TypeOrInline → Prop
  | .ty t => ValidType t
  | .struct s => ValidInlineStruct s
  | .enum e => ValidInlineEnum e

def canonInline : TypeOrInline → TypeOrInline
  | .ty t => .ty t
  | .struct s => .struct (canonInlineStruct s)
  | .enum e => .enum (canonInlineEnum e)

def InlineTexts (t : TypeOrInline) (ind : Nat) (txt : Str) : Prop :=
  match t with
  | .ty ty => txt = typeText ty ++ [';']
  | .struct s => InlineStructTexts s ind txt
  | .enum e => InlineEnumTexts e ind txt

def inlineFuel : TypeOrInline → Nat
  | .ty t => t.depth
  | .struct s => inlineStructFuel s
  | .enum e => inlineEnumFuel e

/-- `type_or_inline`, then `;` and a line end when it was a type name: together a text and a line end. -/
theorem inlineTail_out (t : TypeOrInline) (ind : Nat) (st : FSt) :
    ∃ txt, InlineTexts t ind txt ∧
      ((if isTypeName t then seqF [w (chars! ";"), nl] else id) (typeOrInlineF t ind st)).out = st.out ++ (txt ++ ['\n']) := by
  cases t with
  | ty ty => exact ⟨_, rfl, by simp [typeOrInlineF, isTypeName, seqF, nl, w]⟩
  | struct s =>
    obtain ⟨txt, ht, hout⟩ := inlineStructF_out s ind st
    exact ⟨txt, ht, by simpa [typeOrInlineF, isTypeName] using hout⟩
  | enum e =>
    obtain ⟨txt, ht, hout⟩ := inlineEnumF_out e ind st
    exact ⟨txt, ht, by simpa [typeOrInlineF, isTypeName] using hout⟩

theorem notKwPrefixed_struct : NotKwPrefixed (chars! "struct") := by
  intro p hp
  simp only [allPrims, List.mem_cons, List.not_mem_nil, or_false] at hp
  rcases hp with h | h | h | h | h | h | h | h | h | h | h | h | h | h | h | h | h | h | h <;> subst h <;> decide

theorem notKwPrefixed_enum : NotKwPrefixed (chars! "enum") := by
  intro p hp
  simp only [allPrims, List.mem_cons, List.not_mem_nil, or_false] at hp
  rcases hp with h | h | h | h | h | h | h | h | h | h | h | h | h | h | h | h | h | h | h <;> subst h <;> decide

/-- `struct {` and `enum {` are not a type followed by `;`. -/
theorem typeTermP_kw_none (k : Str) (hk : ValidIdent k) (hnk : NotKwPrefixed k) (fuel : Nat) (more : Str) :
    typeTermP (fuel + 1) (k ++ (' ' :: '{' :: more)) = none := by
  have hf : TypeFollow (' ' :: '{' :: more) := by
    refine ⟨noCont_cons _ (by decide), fun c r h => ?_⟩
    rw [skipWs_space, skipWs_cons_nws (by decide)] at h
    cases h; exact ⟨by decide, by decide⟩
  have := typeNameP_ref (r := .intern k) hk hnk hf fuel
  simp only [namedRefText] at this
  simp [typeTermP, this, tok, kw, lit, skipWs_cons_nws, isWhiteSpace]

theorem typeOrInlineP_text (t : TypeOrInline) (hv : ValidInline t) (ind fuel : Nat) (hf : inlineFuel t < fuel)
    (txt : Str) (ht : InlineTexts t ind txt) (rest : Str) :
    typeOrInlineP fuel (txt ++ rest) = some (canonInline t, rest) := by
  cases fuel with
  | zero => simp at hf
  | succ fuel =>
    cases t with
    | ty ty =>
      simp only [InlineTexts] at ht
      subst ht
      simp only [inlineFuel] at hf
      have := typeTermP_text (show ValidType ty from hv) (fuel + 1) (by omega) rest
      simp only [List.append_assoc, List.cons_append, List.nil_append]
      simp [typeOrInlineP, this, canonInline]
    | struct s =>
      have hp := inlineStructP_text s hv ind (fuel + 1) (by simp only [inlineFuel] at hf; omega) txt ht rest
      obtain ⟨wts, wfb, _, _, rfl⟩ := ht
      have hnone : typeTermP (fuel + 1) ((chars! "struct" ++ (if isMultiStruct [] s.doc s.attrs s.fields s.fallback then
          ' ' :: '{' :: '\n' :: (joined (inlinePreItems s.doc s.attrs (ind + 4)) ++ (joined (blockItems canonField s.fields wts) ++
            (fbPart s.fallback wfb (ind + 4) ++ (List.replicate ind ' ' ++ ['}']))))
          else chars! " {}")) ++ rest) = none := by
        split
        · have := typeTermP_kw_none (chars! "struct") ⟨'s', chars! "truct", rfl, by decide, by decide⟩ notKwPrefixed_struct fuel
            ('\n' :: (joined (inlinePreItems s.doc s.attrs (ind + 4)) ++ (joined (blockItems canonField s.fields wts) ++
              (fbPart s.fallback wfb (ind + 4) ++ (List.replicate ind ' ' ++ ['}'])))) ++ rest)
          simpa using this
        · have := typeTermP_kw_none (chars! "struct") ⟨'s', chars! "truct", rfl, by decide, by decide⟩ notKwPrefixed_struct fuel
            ('}' :: rest)
          simpa using this
      unfold typeOrInlineP
      simp only [hnone, hp]
      rfl
    | enum e =>
      have hp := inlineEnumP_text e hv ind (fuel + 1) (by simp only [inlineFuel] at hf; omega) txt ht rest
      obtain ⟨wts, wfb, _, _, rfl⟩ := ht
      have hnone : typeTermP (fuel + 1) ((chars! "enum" ++ (if isMultiEnum [] e.doc e.attrs e.variants e.fallback then
          ' ' :: '{' :: '\n' :: (joined (inlinePreItems e.doc e.attrs (ind + 4)) ++ (joined (blockItems canonVariant e.variants wts) ++
            (fbPart e.fallback wfb (ind + 4) ++ (List.replicate ind ' ' ++ ['}']))))
          else chars! " {}")) ++ rest) = none := by
        split
        · have := typeTermP_kw_none (chars! "enum") ⟨'e', chars! "num", rfl, by decide, by decide⟩ notKwPrefixed_enum fuel
            ('\n' :: (joined (inlinePreItems e.doc e.attrs (ind + 4)) ++ (joined (blockItems canonVariant e.variants wts) ++
              (fbPart e.fallback wfb (ind + 4) ++ (List.replicate ind ' ' ++ ['}'])))) ++ rest)
          simpa using this
        · have := typeTermP_kw_none (chars! "enum") ⟨'e', chars! "num", rfl, by decide, by decide⟩ notKwPrefixed_enum fuel
            ('}' :: rest)
          simpa using this
      -- the struct alternative fails on `enum`
      have hs : inlineStructP (fuel + 1) ((chars! "enum" ++ (if isMultiEnum [] e.doc e.attrs e.variants e.fallback then
          ' ' :: '{' :: '\n' :: (joined (inlinePreItems e.doc e.attrs (ind + 4)) ++ (joined (blockItems canonVariant e.variants wts) ++
            (fbPart e.fallback wfb (ind + 4) ++ (List.replicate ind ' ' ++ ['}']))))
          else chars! " {}")) ++ rest) = none := by
        simp [inlineStructP, inlineOpenP, kwWs, kw, lit]
      unfold typeOrInlineP
      simp only [hnone, hs, hp]
      rfl

end Aldrin.Schema
