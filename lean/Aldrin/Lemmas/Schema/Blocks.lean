/-
Blocks of items (fields of a struct, variants of an enum, items of a service, definitions of a file).

`Emits f T`: whatever the formatter state, `f` appends a blank run, a text satisfying `T` and a line end.
`forF` over such functions appends a sequence of such pieces; `many` reads it back when every piece parses.
The blank-line state of the formatter therefore never has to be tracked: it only decides which blank run is
written.
-/
import Aldrin.Lemmas.Schema.Items

namespace Aldrin.Schema

def Emits (f : F) (T : Str → Prop) : Prop :=
  ∀ st, ∃ w txt, Blank w ∧ T txt ∧ (f st).out = st.out ++ (w ++ (txt ++ ['\n']))

/-- The items of a block as `(parsed item, text with its leading blank, line end)`. -/
def blockItems {β γ : Type} (canon : β → γ) : List β → List (Str × Str) → List (γ × Str × Str)
  | x :: l, (w, txt) :: r => (canon x, w ++ txt, ['\n']) :: blockItems canon l r
  | _, _ => []

def BlockRel {β : Type} (T : β → Str → Prop) : List β → List (Str × Str) → Prop
  | [], [] => True
  | x :: l, (w, txt) :: r => Blank w ∧ T x txt ∧ BlockRel T l r
  | _, _ => False

theorem forF_emits {β γ : Type} (canon : β → γ) (f : β → F) (T : β → Str → Prop) :
    ∀ (l : List β), (∀ x ∈ l, Emits (f x) (T x)) → ∀ (st : FSt), ∃ wts : List (Str × Str),
      BlockRel T l wts ∧ (forF l f st).out = st.out ++ joined (blockItems canon l wts)
  | [], _, st => ⟨[], trivial, by simp [forF, blockItems]⟩
  | x :: l, h, st => by
    obtain ⟨w, txt, hw, ht, hout⟩ := h x List.mem_cons_self st
    obtain ⟨wts, hrel, hout2⟩ := forF_emits canon f T l (fun y hy => h y (List.mem_cons_of_mem _ hy)) (f x st)
    refine ⟨(w, txt) :: wts, ⟨hw, ht, hrel⟩, ?_⟩
    simp only [forF, List.foldl_cons] at hout2 ⊢
    rw [hout2, hout]
    simp [blockItems]

theorem blockItems_seqItems {β γ : Type} (canon : β → γ) (T : β → Str → Prop) (p : P γ) :
    ∀ (l : List β) (wts : List (Str × Str)) (rest : Str), BlockRel T l wts →
      (∀ x ∈ l, ∀ w txt tail, Blank w → T x txt → p (skipWs (w ++ (txt ++ tail))) = some (canon x, tail)) →
      SeqItems p (blockItems canon l wts) rest
  | [], [], _, _, _ => by simp [blockItems, SeqItems]
  | [], _ :: _, _, h, _ => by simp [BlockRel] at h
  | x :: l, [], _, h, _ => by simp [BlockRel] at h
  | x :: l, (w, txt) :: r, rest, ⟨hw, ht, hrel⟩, hp => by
    refine ⟨blank_nl, ?_, blockItems_seqItems canon T p l r rest hrel
      (fun y hy => hp y (List.mem_cons_of_mem _ hy))⟩
    have := hp x List.mem_cons_self w txt (['\n'] ++ (joined (blockItems canon l r) ++ rest)) hw ht
    simpa [List.append_assoc] using this

theorem blockItems_map_fst {β γ : Type} (canon : β → γ) (T : β → Str → Prop) :
    ∀ (l : List β) (wts : List (Str × Str)), BlockRel T l wts → (blockItems canon l wts).map (·.1) = l.map canon
  | [], [], _ => by simp [blockItems]
  | [], _ :: _, h => by simp [BlockRel] at h
  | x :: l, [], h => by simp [BlockRel] at h
  | x :: l, (w, txt) :: r, ⟨_, _, hrel⟩ => by simp [blockItems, blockItems_map_fst canon T l r hrel]

theorem blockItems_length {β γ : Type} (canon : β → γ) (T : β → Str → Prop) :
    ∀ (l : List β) (wts : List (Str × Str)), BlockRel T l wts → (blockItems canon l wts).length = l.length
  | [], [], _ => by simp [blockItems]
  | [], _ :: _, h => by simp [BlockRel] at h
  | x :: l, [], h => by simp [BlockRel] at h
  | x :: l, (w, txt) :: r, ⟨_, _, hrel⟩ => by simp [blockItems, blockItems_length canon T l r hrel]

/-- Reading a block back: the items, and a position from which white space leads to `rest`. -/
theorem many_block {β γ : Type} (canon : β → γ) (T : β → Str → Prop) (p : P γ) (l : List β) (wts : List (Str × Str))
    (rest : Str) (fuel : Nat) (hrel : BlockRel T l wts)
    (hp : ∀ x ∈ l, ∀ w txt tail, Blank w → T x txt → p (skipWs (w ++ (txt ++ tail))) = some (canon x, tail))
    (hend : p (skipWs rest) = none) (hfuel : l.length < fuel) :
    (many p fuel (skipWs (joined (blockItems canon l wts) ++ rest))).1 = l.map canon ∧
    skipWs (many p fuel (skipWs (joined (blockItems canon l wts) ++ rest))).2 = skipWs rest := by
  have hitems := blockItems_seqItems canon T p l wts rest hrel hp
  have hseq : SeqOk p (blockItems canon l wts ++ []) rest :=
    seqOk_append p _ [] rest (by simpa using hitems) hend
  rw [List.append_nil] at hseq
  have := many_seq p _ rest fuel hseq (by rw [blockItems_length canon T l wts hrel]; exact hfuel)
  rw [blockItems_map_fst canon T l wts hrel] at this
  exact this

/-! ### items as emitters -/

theorem emits_itemF (multi : Bool) (txt : Str) : Emits (itemF multi txt) (fun t => t = txt) := by
  intro st
  exact ⟨nlIf (st.newline || (!st.first && multi)), txt, blank_nlIf _, rfl, by rw [itemF_spec]⟩

theorem emits_fieldF (f : StructField) (ind : Nat) : Emits (fieldF f ind) (fun t => t = fieldText f ind) := by
  rw [fieldF_eq]; exact emits_itemF _ _

end Aldrin.Schema
