/-
Attributes and preludes (the comments, doc strings and attributes in front of an item): what the formatter
writes is read back as the same lists, with every line in its canonical form.
-/
import Aldrin.Lemmas.Schema.Many
import Aldrin.Lemmas.Schema.Lines
import Aldrin.Lemmas.Schema.Types

namespace Aldrin.Schema

/-! ### formatter bookkeeping -/

/-- `f` only appends `txt` to the output. -/
def Pure (f : F) (txt : Str) : Prop := ∀ st, f st = { st with out := st.out ++ txt }

theorem pure_w (s : Str) : Pure (w s) s := fun _ => rfl
theorem pure_nl : Pure nl ['\n'] := fun _ => rfl
theorem pure_id : Pure id [] := fun st => by simp
theorem pure_indent (n : Nat) : Pure (indent n) (List.replicate n ' ') := fun _ => rfl

theorem pure_seq2 {f g : F} {a b : Str} (hf : Pure f a) (hg : Pure g b) : Pure (seqF [f, g]) (a ++ b) := by
  intro st; simp [seqF, hf st, hg _]

theorem pure_seq_cons {f : F} {fs : List F} {a b : Str} (hf : Pure f a) (hg : Pure (seqF fs) b) :
    Pure (seqF (f :: fs)) (a ++ b) := by
  intro st; simp [seqF, hf st, hg _]

theorem pure_seq_nil : Pure (seqF []) [] := fun st => by simp [seqF]

theorem pure_forF {α : Type} (l : List α) (f : α → F) (t : α → Str) (h : ∀ a ∈ l, Pure (f a) (t a)) :
    Pure (forF l f) (l.map t).flatten := by
  induction l with
  | nil => intro st; simp [forF]
  | cons a l ih =>
    intro st
    have ha := h a List.mem_cons_self
    have := ih (fun b hb => h b (List.mem_cons_of_mem _ hb)) (f a st)
    simp only [forF, List.foldl_cons] at this ⊢
    rw [this, ha st]
    simp

theorem pure_congr {f : F} {a b : Str} (h : Pure f a) (e : a = b) : Pure f b := e ▸ h

theorem pure_ite {c : Prop} [Decidable c] {f g : F} {a b : Str} (hf : Pure f a) (hg : Pure g b) :
    Pure (if c then f else g) (if c then a else b) := by
  split <;> assumption

theorem pure_match_opt {α : Type} {o : Option α} {f : α → F} {g : F} {a : α → Str} {b : Str}
    (hf : ∀ x, Pure (f x) (a x)) (hg : Pure g b) :
    Pure (match o with | some x => f x | none => g) (match o with | some x => a x | none => b) := by
  cases o <;> simp [hf, hg]

/-- Decompose a `seqF` / `w` / `nl` / `indent` / `if` expression into the text it appends. -/
macro "pure_tac" : tactic =>
  `(tactic| repeat (first
    | with_reducible exact pure_seq_nil
    | with_reducible exact pure_w _
    | with_reducible exact pure_nl
    | with_reducible exact pure_id
    | with_reducible exact pure_indent _
    | with_reducible apply pure_seq_cons
    | with_reducible apply pure_ite
    | assumption))

/-! ### attributes -/

def ValidAttr (a : Attribute) : Prop := ValidIdent a.name ∧ ∀ o ∈ a.options, ValidIdent o

/-- Text of an attribute without its line end. -/
def attrText (a : Attribute) (inline : Bool) : Str :=
  (if inline then chars! "#![" else chars! "#[") ++ a.name ++
    (if a.options.isEmpty then [] else chars! "(" ++ intercalate (chars! ", ") a.options ++ chars! ")") ++ chars! "]"

theorem pure_attributeF (a : Attribute) (ind : Nat) (inline : Bool) :
    Pure (attributeF a ind inline) (List.replicate ind ' ' ++ (attrText a inline ++ ['\n'])) := by
  unfold attributeF attrText
  apply pure_congr
  · pure_tac
  · cases inline <;> cases h : a.options.isEmpty <;> simp [h]

theorem noCont_cons {c : Char} (r : Str) (h : isIdCont c = false) : NoCont (c :: r) := by
  intro d r' he; cases he; exact h

theorem commaIdent_items (opts : List Str) (hv : ∀ o ∈ opts, ValidIdent o) (rest : Str) :
    SeqOk commaIdentP (opts.map (fun o => (o, ',' :: ' ' :: o, ([] : Str)))) (')' :: rest) := by
  induction opts with
  | nil => simp [SeqOk, commaIdentP, skipWs_cons_nws, isWhiteSpace, kw, lit]
  | cons o opts ih =>
    have ho := hv o List.mem_cons_self
    refine ⟨blank_nil, ?_, ih (fun x hx => hv x (List.mem_cons_of_mem _ hx))⟩
    -- what follows the identifier is `,` or `)`
    have hfollow : NoCont (joined (opts.map (fun o => (o, ',' :: ' ' :: o, ([] : Str)))) ++ ')' :: rest) := by
      cases opts with
      | nil => simpa using noCont_cons rest (by decide)
      | cons o2 opts => simpa using noCont_cons _ (by decide)
    have hid := identP_append ho hfollow
    simp only [List.cons_append, List.nil_append, skipWs_cons_nws (show isWhiteSpace ',' = false by decide)]
    simp [commaIdentP, kw, lit, skipWs_ident ho, hid]

theorem joined_commaIdent (opts : List Str) :
    joined (opts.map (fun o => (o, ',' :: ' ' :: o, ([] : Str)))) = (opts.map (fun o => ',' :: ' ' :: o)).flatten := by
  induction opts with
  | nil => rfl
  | cons o opts ih => simp [ih]

theorem intercalate_cons (o : Str) (opts : List Str) :
    intercalate (chars! ", ") (o :: opts) = o ++ (opts.map (fun x => ',' :: ' ' :: x)).flatten := by
  induction opts generalizing o with
  | nil => simp [intercalate]
  | cons p opts ih => simp [intercalate, ih p]

theorem attrOptionsP_text (a : Attribute) (ha : ValidAttr a) (rest : Str) (fuel : Nat) (hf : a.options.length < fuel) :
    attrOptionsP fuel
      ((if a.options.isEmpty then [] else chars! "(" ++ intercalate (chars! ", ") a.options ++ chars! ")") ++ ']' :: rest)
      = some (a.options, ']' :: rest) := by
  cases hopts : a.options with
  | nil =>
    simp [attrOptionsP, attrOptionsInnerP, tok, kw, lit, skipWs_cons_nws, isWhiteSpace]
  | cons o opts =>
    have ho : ValidIdent o := ha.2 o (by rw [hopts]; exact List.mem_cons_self)
    have hrest : ∀ x ∈ opts, ValidIdent x := fun x hx => ha.2 x (by rw [hopts]; exact List.mem_cons_of_mem _ hx)
    have hseq := commaIdent_items opts hrest (']' :: rest)
    have hm := many_seq commaIdentP _ (')' :: ']' :: rest) fuel hseq (by rw [hopts] at hf; simpa using Nat.lt_of_succ_lt hf)
    rw [joined_commaIdent] at hm
    -- what follows the first identifier
    have hfollow : NoCont ((opts.map (fun x => ',' :: ' ' :: x)).flatten ++ ')' :: ']' :: rest) := by
      cases opts with
      | nil => simpa using noCont_cons _ (by decide)
      | cons o2 opts => simpa using noCont_cons _ (by decide)
    have hid := identP_append ho hfollow
    have hsk : skipWs ((opts.map (fun x => ',' :: ' ' :: x)).flatten ++ ')' :: ']' :: rest)
        = (opts.map (fun x => ',' :: ' ' :: x)).flatten ++ ')' :: ']' :: rest := by
      cases opts with
      | nil => simp [skipWs_cons_nws, isWhiteSpace]
      | cons o2 opts => simp [skipWs_cons_nws, isWhiteSpace]
    rw [hsk] at hm
    obtain ⟨hm1, hm2⟩ := hm
    simp only [List.isEmpty_cons, Bool.false_eq_true, ↓reduceIte, intercalate_cons, List.append_assoc,
      List.cons_append, List.nil_append]
    have htokc : tok (chars! ",") (many commaIdentP fuel ((opts.map (fun x => ',' :: ' ' :: x)).flatten ++ ')' :: ']' :: rest)).2 = none := by
      simp only [tok, hm2, skipWs_cons_nws (show isWhiteSpace ')' = false by decide)]
      simp [kw, lit]
    have htokp : tok (chars! ")") (many commaIdentP fuel ((opts.map (fun x => ',' :: ' ' :: x)).flatten ++ ')' :: ']' :: rest)).2
        = some ((), ']' :: rest) := by
      simp only [tok, hm2, skipWs_cons_nws (show isWhiteSpace ')' = false by decide)]
      simp [kw, lit]
    have hinner : attrOptionsInnerP fuel ('(' :: (o ++ ((opts.map (fun x => ',' :: ' ' :: x)).flatten ++ ')' :: ']' :: rest)))
        = some (o :: opts, ']' :: rest) := by
      unfold attrOptionsInnerP
      simp only [tok, skipWs_cons_nws (show isWhiteSpace '(' = false by decide),
        show ∀ r : Str, kw (chars! "(") ('(' :: r) = some ((), r) from fun r => kw_append (chars! "(") r,
        skipWs_ident ho, hid, hsk]
      simp only [tok] at htokc htokp
      simp only [htokc, htokp, hm1, List.map_map, Function.comp_def, List.map_id']
    simp [attrOptionsP, hinner]

theorem attributeP_text (a : Attribute) (ha : ValidAttr a) (inline : Bool) (rest : Str) (fuel : Nat)
    (hf : a.options.length < fuel) : attributeP inline fuel (attrText a inline ++ rest) = some (a, rest) := by
  have hfollow : NoCont ((if a.options.isEmpty then [] else chars! "(" ++ intercalate (chars! ", ") a.options ++ chars! ")") ++ ']' :: rest) := by
    split
    · simpa using noCont_cons rest (by decide)
    · simpa using noCont_cons _ (by decide)
  have hid := identP_append ha.1 hfollow
  have hopt := attrOptionsP_text a ha rest fuel hf
  simp only [List.cons_append, List.nil_append, List.append_assoc, List.isEmpty_iff] at hid hopt
  unfold attributeP attrText
  cases inline <;>
  · simp only [Bool.false_eq_true, ↓reduceIte, List.append_assoc, List.cons_append, List.nil_append]
    simp [Option.bind_eq_bind, Option.pure_def, tok, kw, lit, skipWs_cons_nws, isWhiteSpace, skipWs_ident ha.1, hid, hopt]

/-! ### preludes -/

def canonC (l : Line) : Line := canonLine (chars! "//") (inner 2 l)
def canonD (l : Line) : Line := canonLine (chars! "///") (inner 3 l)
def canonDI (l : Line) : Line := canonLine (chars! "//!") (inner 3 l)

/-- The inner text of every line is on one line (true of everything the line parsers produce). -/
def ValidLines (k : Nat) (ls : List Line) : Prop := ∀ l ∈ ls, '\n' ∉ inner k l

def preItems (cm dc : List Line) (ats : List Attribute) (ind : Nat) : List (PreItem × Str × Str) :=
  cm.map (fun c => (PreItem.comment (canonC c), List.replicate ind ' ' ++ canonC c, ([] : Str))) ++
  (dc.map (fun d => (PreItem.doc (canonD d), List.replicate ind ' ' ++ canonD d, ([] : Str))) ++
   ats.map (fun a => (PreItem.attr a, List.replicate ind ' ' ++ attrText a false, ['\n'])))

theorem pure_commentLines (cm : List Line) (ind : Nat) :
    Pure (commentLines cm ind) (cm.map (fun c => List.replicate ind ' ' ++ canonC c)).flatten := by
  unfold commentLines
  apply pure_forF
  intro c _
  apply pure_congr
  · pure_tac
  · simp only [canonC, canonLine]
    cases h : (inner 2 c).isEmpty <;> simp [h]

theorem pure_docLines (dc : List Line) (ind : Nat) (style : Str) :
    Pure (docLines dc ind style) (dc.map (fun d => List.replicate ind ' ' ++ canonLine style (inner 3 d))).flatten := by
  unfold docLines
  apply pure_forF
  intro c _
  apply pure_congr
  · pure_tac
  · simp only [canonLine]
    cases h : (inner 3 c).isEmpty <;> simp [h]

theorem pure_prelude (cm dc : List Line) (ats : List Attribute) (ind : Nat) :
    Pure (prelude cm dc ats ind false) (joined (preItems cm dc ats ind)) := by
  unfold prelude
  apply pure_congr
  · apply pure_seq_cons (pure_commentLines cm ind)
    apply pure_seq_cons (pure_docLines dc ind _)
    apply pure_seq_cons
    · exact pure_forF ats _ _ (fun a _ => pure_attributeF a ind false)
    · exact pure_seq_nil
  · simp [preItems, joined, canonD, List.map_append, List.flatten_append, Function.comp_def]

theorem skipWs_indent (ind : Nat) (r : Str) : skipWs (List.replicate ind ' ' ++ r) = skipWs r :=
  skipWs_blank (blank_replicate ind) r

theorem canonLine_head (pre i : Str) (c : Char) (p' : Str) (hp : pre = c :: p') (rest : Str) :
    canonLine pre i ++ rest = c :: (p' ++ (if i.isEmpty then [] else ' ' :: i) ++ ['\n'] ++ rest) := by
  subst hp; simp [canonLine]

/-- Nothing that could be read as a further prelude item follows. -/
def NoPre (comments docs attrs : Bool) (fuel : Nat) (rest : Str) : Prop :=
  preItemP comments docs attrs fuel (skipWs rest) = none

theorem preItems_seqOk (cm dc : List Line) (ats : List Attribute) (ind : Nat) (c d a : Bool) (fuel : Nat) (rest : Str)
    (hc : cm ≠ [] → c = true) (hd : dc ≠ [] → d = true) (ha : ats ≠ [] → a = true)
    (hvc : ValidLines 2 cm) (hvd : ValidLines 3 dc) (hva : ∀ x ∈ ats, ValidAttr x ∧ x.options.length < fuel)
    (hend : NoPre c d a fuel rest) : SeqOk (preItemP c d a fuel) (preItems cm dc ats ind) rest := by
  unfold preItems
  have hlineskip : ∀ (pre i tail : Str) (ch : Char) (p' : Str), pre = ch :: p' → isWhiteSpace ch = false →
      skipWs (List.replicate ind ' ' ++ canonLine pre i ++ ([] ++ tail)) = canonLine pre i ++ tail := by
    intro pre i tail ch p' hp hch
    rw [List.append_assoc, skipWs_indent, List.nil_append]
    subst hp
    simp only [canonLine, List.cons_append]
    exact skipWs_cons_nws hch _
  apply seqOk_append
  · -- comments
    apply seqItems_map
    intro x hx tail
    have hcc : c = true := hc (List.ne_nil_of_mem hx)
    refine ⟨blank_nil, ?_⟩
    simp only [canonC]
    rw [hlineskip _ _ _ '/' (chars! "/") rfl (by decide)]
    simp [preItemP, hcc, commentP_canon _ tail (hvc x hx)]
  · apply seqOk_append
    · -- doc strings
      apply seqItems_map
      intro x hx tail
      have hdd : d = true := hd (List.ne_nil_of_mem hx)
      refine ⟨blank_nil, ?_⟩
      simp only [canonD]
      rw [hlineskip _ _ _ '/' (chars! "//") rfl (by decide)]
      simp [preItemP, hdd, commentP_doc, docP_canon _ tail (hvd x hx)]
    · -- attributes
      have : SeqItems (preItemP c d a fuel)
          (ats.map (fun a => (PreItem.attr a, List.replicate ind ' ' ++ attrText a false, ['\n']))) rest := by
        apply seqItems_map
        intro x hx tail
        have haa : a = true := ha (List.ne_nil_of_mem hx)
        refine ⟨blank_nl, ?_⟩
        simp only []
        rw [List.append_assoc, skipWs_indent]
        have hhead : attrText x false ++ ('\n' :: tail) = '#' :: ('[' :: (x.name ++ ((if x.options.isEmpty then [] else chars! "(" ++ intercalate (chars! ", ") x.options ++ chars! ")") ++ chars! "]" ++ '\n' :: tail))) := by
          simp [attrText]
        have hp := attributeP_text x (hva x hx).1 false ('\n' :: tail) fuel (hva x hx).2
        rw [show ['\n'] ++ tail = '\n' :: tail from rfl, hhead, skipWs_cons_nws (by decide)]
        rw [hhead] at hp
        simp only [List.cons_append, List.nil_append, List.append_assoc, List.isEmpty_iff] at hp
        simp [preItemP, haa, commentP, docP, hp]
      -- nothing after the last attribute
      have hlast : SeqOk (preItemP c d a fuel) [] rest := hend
      have := seqOk_append _ _ [] rest (by simpa using this) hlast
      simpa using this

end Aldrin.Schema
