/-
Struct and enum definitions (top level): text written, and reading it back.
-/
import Aldrin.Lemmas.Schema.Bodies

namespace Aldrin.Schema

/-! ### the blank-line functions only ever write a blank run -/

theorem newlineF_out (st : FSt) : (newlineF st).out = st.out ++ nlIf st.newline := by
  unfold newlineF nlIf nl w
  cases h : st.newline <;> simp [h]

theorem newlineWithFirst_out (m : Bool) (st : FSt) : ∃ b, (newlineWithFirst m st).out = st.out ++ nlIf b := by
  unfold newlineWithFirst
  exact ⟨_, newlineF_out _⟩

theorem newlineDef_out (k : DefKind) (m : Bool) (st : FSt) : ∃ b, (newlineDef k m st).out = st.out ++ nlIf b := by
  unfold newlineDef
  cases h : st.lastDef with
  | none => simpa [h] using newlineWithFirst_out m _
  | some last =>
    by_cases hk : last = k
    · simpa [h, hk] using newlineWithFirst_out m _
    · simpa [h, hk] using newlineWithFirst_out m _

theorem newlineItem_out (k : ItemKind) (m : Bool) (st : FSt) : ∃ b, (newlineItem k m st).out = st.out ++ nlIf b := by
  unfold newlineItem
  cases h : st.lastItem with
  | none => simpa [h] using newlineWithFirst_out m _
  | some last =>
    by_cases hk : last = k
    · simpa [h, hk] using newlineWithFirst_out m _
    · simpa [h, hk] using newlineWithFirst_out m _

@[simp] theorem setNewline_out (b : Bool) (st : FSt) : (setNewline b st).out = st.out := rfl
@[simp] theorem setFirst_out (b : Bool) (st : FSt) : (setFirst b st).out = st.out := rfl
@[simp] theorem orNewline_out (b : Bool) (st : FSt) : (orNewline b st).out = st.out := rfl

theorem pure_out {f : F} {t : Str} (h : Pure f t) (st : FSt) : (f st).out = st.out ++ t := by rw [h st]

/-! ### bodies, written -/

theorem fieldsF_out (fs : List StructField) (fb : Option Fallback) (ind : Nat) (st : FSt) :
    ∃ wts wfb, BlockRel (fun (f : StructField) t => t = fieldText f ind) fs wts ∧ Blank wfb ∧
      (fieldsF fs fb ind st).out = st.out ++ (joined (blockItems canonField fs wts) ++ fbPart fb wfb ind) := by
  obtain ⟨wts, hrel, hout⟩ := forF_emits canonField (fun f => fieldF f ind) (fun (f : StructField) t => t = fieldText f ind) fs
    (fun f _ => emits_fieldF f ind) (setFirst true st)
  cases fb with
  | none =>
    refine ⟨wts, [], hrel, blank_nil, ?_⟩
    simp only [fieldsF, seqF, id, hout, setFirst_out, fbPart, List.append_nil]
  | some f =>
    obtain ⟨w, txt, hw, rfl, hout2⟩ := emits_fallbackEntryF f ind (forF fs (fun f => fieldF f ind) (setFirst true st))
    refine ⟨wts, w, hrel, hw, ?_⟩
    simp only [fieldsF, seqF, id, hout2, hout, setFirst_out, fbPart, List.append_assoc]

theorem variantsF_out (vs : List EnumVariant) (fb : Option Fallback) (ind : Nat) (st : FSt) :
    ∃ wts wfb, BlockRel (fun (v : EnumVariant) t => t = variantText v ind) vs wts ∧ Blank wfb ∧
      (variantsF vs fb ind st).out = st.out ++ (joined (blockItems canonVariant vs wts) ++ fbPart fb wfb ind) := by
  obtain ⟨wts, hrel, hout⟩ := forF_emits canonVariant (fun v => variantF v ind) (fun (v : EnumVariant) t => t = variantText v ind) vs
    (fun v _ => emits_variantF v ind) (setFirst true st)
  cases fb with
  | none =>
    refine ⟨wts, [], hrel, blank_nil, ?_⟩
    simp only [variantsF, seqF, id, hout, setFirst_out, fbPart, List.append_nil]
  | some f =>
    obtain ⟨w, txt, hw, rfl, hout2⟩ := emits_fallbackEntryF f ind (forF vs (fun v => variantF v ind) (setFirst true st))
    refine ⟨wts, w, hrel, hw, ?_⟩
    simp only [variantsF, seqF, id, hout2, hout, setFirst_out, fbPart, List.append_assoc]

/-! ### struct definitions -/

/-- `{ … }` of a struct with the blank runs the formatter chose. -/
def structBodyText (fs : List StructField) (fb : Option Fallback) (ind : Nat) (wts : List (Str × Str)) (wfb : Str) : Str :=
  chars! " {\n" ++ (joined (blockItems canonField fs wts) ++ (fbPart fb wfb ind ++ (List.replicate (ind - 4) ' ' ++ ['}'])))

def StructTexts (d : StructDef) (t : Str) : Prop :=
  ∃ wts wfb, BlockRel (fun (f : StructField) t => t = fieldText f 4) d.fields wts ∧ Blank wfb ∧
    t = joined (preItems d.comment d.doc d.attrs 0) ++ (chars! "struct " ++ (d.name ++
      (if !d.fields.isEmpty || d.fallback.isSome then structBodyText d.fields d.fallback 4 wts wfb else chars! " {}")))

theorem emits_structDefF (d : StructDef) : Emits (structDefF d) (StructTexts d) := by
  intro st
  obtain ⟨b, hb⟩ := newlineDef_out .struct (isMultiStruct d.comment d.doc d.attrs d.fields d.fallback) st
  unfold structDefF
  simp only [seqF_cons]
  have hpre := pure_out (pure_prelude d.comment d.doc d.attrs 0)
  by_cases hf : (!d.fields.isEmpty || d.fallback.isSome) = true
  · simp only [hf, ↓reduceIte]
    -- header, fields, closing brace
    let st1 := newlineDef DefKind.struct (isMultiStruct d.comment d.doc d.attrs d.fields d.fallback) st
    let st2 := prelude d.comment d.doc d.attrs 0 false st1
    have hhead : Pure (seqF [w (chars! "struct "), w d.name, w (chars! " {"), nl]) (chars! "struct " ++ (d.name ++ chars! " {\n")) := by
      apply pure_congr
      · pure_tac
      · simp
    obtain ⟨wts, wfb, hrel, hwfb, hfo⟩ := fieldsF_out d.fields d.fallback 4
      (seqF [w (chars! "struct "), w d.name, w (chars! " {"), nl] st2)
    refine ⟨nlIf b, _, blank_nlIf b, ⟨wts, wfb, hrel, hwfb, rfl⟩, ?_⟩
    have hsplit := seqF_append [w (chars! "struct "), w d.name, w (chars! " {"), nl]
      [fieldsF d.fields d.fallback 4, w (chars! "}"), nl] st2
    simp only [List.cons_append, List.nil_append] at hsplit
    simp only [seqF, id, setNewline_out] at hsplit ⊢
    simp only [seqF, id] at hfo
    rw [show (nl (w (chars! "}") (fieldsF d.fields d.fallback 4 (nl (w (chars! " {") (w d.name (w (chars! "struct ") st2))))))).out
        = (fieldsF d.fields d.fallback 4 (nl (w (chars! " {") (w d.name (w (chars! "struct ") st2))))).out ++ chars! "}\n" from by
      simp [nl, w]]
    rw [hfo]
    simp only [nl, w, st2, st1, hpre, hb, hf, ↓reduceIte, structBodyText]
    simp
  · have hf' : (!d.fields.isEmpty || d.fallback.isSome) = false := by simpa using hf
    simp only [hf', Bool.false_eq_true, ↓reduceIte]
    refine ⟨nlIf b, _, blank_nlIf b, ⟨[], [], ?_, blank_nil, rfl⟩, ?_⟩
    · have : d.fields = [] := by
        cases hfs : d.fields with
        | nil => rfl
        | cons x l => simp [hfs] at hf'
      rw [this]; trivial
    · simp only [seqF, id, setNewline_out, nl, w, hpre, hb, hf', Bool.false_eq_true, ↓reduceIte]
      simp

def ValidStruct (d : StructDef) : Prop :=
  ValidLines 2 d.comment ∧ ValidLines 3 d.doc ∧ (∀ a ∈ d.attrs, ValidAttr a) ∧ ValidIdent d.name ∧
  (∀ f ∈ d.fields, ValidField f) ∧ (∀ fb, d.fallback = some fb → ValidFallback fb)

def canonStruct (d : StructDef) : StructDef :=
  { d with comment := d.comment.map canonC, doc := d.doc.map canonD, fields := d.fields.map canonField,
           fallback := d.fallback.map canonFallback }

def listMax (l : List Nat) : Nat := l.foldr max 0

theorem le_listMax {l : List Nat} {n : Nat} (h : n ∈ l) : n ≤ listMax l := by
  induction l with
  | nil => cases h
  | cons a l ih =>
    rcases List.mem_cons.1 h with rfl | h
    · simp only [listMax, List.foldr_cons]; omega
    · have := ih h; simp only [listMax, List.foldr_cons] at this ⊢; omega

def fallbackFuel (fb : Option Fallback) : Nat := match fb with | some f => f.comment.length + f.doc.length + 1 | none => 0

def structFuel (d : StructDef) : Nat :=
  d.comment.length + d.doc.length + d.attrs.length + listMax (d.attrs.map (·.options.length)) +
  d.fields.length + listMax (d.fields.map fieldFuel) + fallbackFuel d.fallback + 1

theorem headerP_text (k : Str) (hk : ∀ c ∈ k, isIdCont c = true) {name : Str} (hn : ValidIdent name) (rest : Str)
    (hr : NoCont rest) : headerP k (k ++ (' ' :: (name ++ rest))) = some (name, rest) := by
  unfold headerP kwWs
  rw [kw_append]
  simp [atWs, isWhiteSpace, skipWs_ident hn, identP_append hn hr]

theorem defOpenP_text (k : Str) (hk : ∀ c ∈ k, isIdCont c = true) {name : Str} (hn : ValidIdent name) (rest : Str) :
    defOpenP k (k ++ (' ' :: (name ++ (' ' :: '{' :: rest)))) = some (name, skipWs rest) := by
  unfold defOpenP
  rw [headerP_text k hk hn _ (noCont_cons _ (by decide))]
  simp [tok, kw, lit, skipWs_cons_nws, isWhiteSpace]

theorem structDefP_text (d : StructDef) (hv : ValidStruct d) (fuel : Nat) (hf : structFuel d ≤ fuel)
    (t : Str) (ht : StructTexts d t) (w rest : Str) (hw : Blank w) :
    structDefP fuel (skipWs (w ++ (t ++ rest))) = some (canonStruct d, rest) := by
  obtain ⟨hvc, hvd, hva, hn, hvf, hvfb⟩ := hv
  obtain ⟨wts, wfb, hrel, hwfb, rfl⟩ := ht
  unfold structFuel at hf
  have hkw : ValidIdent (chars! "struct") := ⟨'s', chars! "truct", rfl, by decide, by decide⟩
  -- the prelude
  have hpre := preludeP_text d.comment d.doc d.attrs 0 true true true fuel
    (chars! "struct " ++ (d.name ++ ((if !d.fields.isEmpty || d.fallback.isSome then structBodyText d.fields d.fallback 4 wts wfb else chars! " {}") ++ rest)))
    (fun _ => rfl) (fun _ => rfl) (fun _ => rfl) hvc hvd
    (fun a ha => ⟨hva a ha, by
      have := le_listMax (List.mem_map_of_mem (f := fun (x : Attribute) => x.options.length) ha); omega⟩)
    (by
      have := noPre_ident hkw true true true fuel [] (' ' :: (d.name ++ ((if !d.fields.isEmpty || d.fallback.isSome then structBodyText d.fields d.fallback 4 wts wfb else chars! " {}") ++ rest))) blank_nil
      simpa using this)
    (by omega) w hw
  simp only [] at hpre
  obtain ⟨hp1, hp2, hp3, hp4⟩ := hpre
  rw [show skipWs (chars! "struct " ++ (d.name ++ ((if !d.fields.isEmpty || d.fallback.isSome then structBodyText d.fields d.fallback 4 wts wfb else chars! " {}") ++ rest)))
      = chars! "struct " ++ (d.name ++ ((if !d.fields.isEmpty || d.fallback.isSome then structBodyText d.fields d.fallback 4 wts wfb else chars! " {}") ++ rest)) from
    skipWs_cons_nws (by decide) _] at hp4
  -- the body
  have hbody : ∀ tail : Str, (tail = (if !d.fields.isEmpty || d.fallback.isSome then structBodyText d.fields d.fallback 4 wts wfb else chars! " {}") ++ rest) →
      ∃ tail', tail = ' ' :: '{' :: tail' ∧
        bodyP structFieldP fuel (skipWs tail') = some ((d.fields.map canonField, d.fallback.map canonFallback), rest) := by
    intro tail htail
    have hfuelF : ∀ f ∈ d.fields, fieldFuel f ≤ fuel := fun f hf' => by
      have := le_listMax (List.mem_map_of_mem (f := fieldFuel) hf'); omega
    have hb := bodyP_text canonField (fun (f : StructField) t => t = fieldText f 4) structFieldP d.fields wts d.fallback wfb
      (List.replicate (4 - 4) ' ') rest 4 fuel hrel
      (fun f hf' w txt tail' hw' htxt => by subst htxt; exact structFieldP_text f (hvf f hf') 4 fuel (hfuelF f hf') w tail' hw')
      (fun f w tail' hfb hw' => structFieldP_fallback_none f (hvfb f hfb) 4 fuel (by simp [fallbackFuel, hfb] at hf; omega) w tail' hw')
      (structFieldP_close_none fuel)
      (fun f hfb => ⟨hvfb f hfb, by simp [fallbackFuel, hfb] at hf; omega⟩)
      hwfb (blank_replicate _) (by omega)
    by_cases hfl : (!d.fields.isEmpty || d.fallback.isSome) = true
    · refine ⟨'\n' :: (joined (blockItems canonField d.fields wts) ++ (fbPart d.fallback wfb 4 ++ (List.replicate (4 - 4) ' ' ++ '}' :: rest))), ?_, ?_⟩
      · simp [htail, hfl, structBodyText]
      · rw [skipWs_newline]; exact hb
    · have hfl' : (!d.fields.isEmpty || d.fallback.isSome) = false := by simpa using hfl
      have hfe : d.fields = [] := by
        cases hfs : d.fields with
        | nil => rfl
        | cons x l => simp [hfs] at hfl'
      have hfbn : d.fallback = none := by
        cases hfs : d.fallback with
        | none => rfl
        | some x => simp [hfs] at hfl'
      refine ⟨'}' :: rest, by simp [htail, hfl'], ?_⟩
      have : wts = [] := by
        rw [hfe] at hrel
        cases wts with
        | nil => rfl
        | cons x l => simp [BlockRel] at hrel
      simpa [hfe, hfbn, this, blockItems, fbPart] using hb
  obtain ⟨tail', htail', hbodyres⟩ := hbody _ rfl
  unfold structDefP
  simp only [List.append_assoc, hp4, hp1, hp2, hp3]
  rw [htail']
  have hopen := defOpenP_text (chars! "struct") (by decide) hn tail'
  simp only [List.cons_append, List.nil_append] at hopen ⊢
  rw [hopen]
  simp only [hbodyres]
  rfl

/-! ### enum definitions -/

/-- `{ … }` of a struct with the blank runs the formatter chose. -/
def enumBodyText (fs : List EnumVariant) (fb : Option Fallback) (ind : Nat) (wts : List (Str × Str)) (wfb : Str) : Str :=
  chars! " {\n" ++ (joined (blockItems canonVariant fs wts) ++ (fbPart fb wfb ind ++ (List.replicate (ind - 4) ' ' ++ ['}'])))

def EnumTexts (d : EnumDef) (t : Str) : Prop :=
  ∃ wts wfb, BlockRel (fun (f : EnumVariant) t => t = variantText f 4) d.variants wts ∧ Blank wfb ∧
    t = joined (preItems d.comment d.doc d.attrs 0) ++ (chars! "enum " ++ (d.name ++
      (if !d.variants.isEmpty || d.fallback.isSome then enumBodyText d.variants d.fallback 4 wts wfb else chars! " {}")))

theorem emits_enumDefF (d : EnumDef) : Emits (enumDefF d) (EnumTexts d) := by
  intro st
  obtain ⟨b, hb⟩ := newlineDef_out .enum (isMultiEnum d.comment d.doc d.attrs d.variants d.fallback) st
  unfold enumDefF
  simp only [seqF_cons]
  have hpre := pure_out (pure_prelude d.comment d.doc d.attrs 0)
  by_cases hf : (!d.variants.isEmpty || d.fallback.isSome) = true
  · simp only [hf, ↓reduceIte]
    -- header, fields, closing brace
    let st1 := newlineDef .enum (isMultiEnum d.comment d.doc d.attrs d.variants d.fallback) st
    let st2 := prelude d.comment d.doc d.attrs 0 false st1
    have hhead : Pure (seqF [w (chars! "enum "), w d.name, w (chars! " {"), nl]) (chars! "enum " ++ (d.name ++ chars! " {\n")) := by
      apply pure_congr
      · pure_tac
      · simp
    obtain ⟨wts, wfb, hrel, hwfb, hfo⟩ := variantsF_out d.variants d.fallback 4
      (seqF [w (chars! "enum "), w d.name, w (chars! " {"), nl] st2)
    refine ⟨nlIf b, _, blank_nlIf b, ⟨wts, wfb, hrel, hwfb, rfl⟩, ?_⟩
    have hsplit := seqF_append [w (chars! "enum "), w d.name, w (chars! " {"), nl]
      [variantsF d.variants d.fallback 4, w (chars! "}"), nl] st2
    simp only [List.cons_append, List.nil_append] at hsplit
    simp only [seqF, id, setNewline_out] at hsplit ⊢
    simp only [seqF, id] at hfo
    rw [show (nl (w (chars! "}") (variantsF d.variants d.fallback 4 (nl (w (chars! " {") (w d.name (w (chars! "enum ") st2))))))).out
        = (variantsF d.variants d.fallback 4 (nl (w (chars! " {") (w d.name (w (chars! "enum ") st2))))).out ++ chars! "}\n" from by
      simp [nl, w]]
    rw [hfo]
    simp only [nl, w, st2, st1, hpre, hb, hf, ↓reduceIte, enumBodyText]
    simp
  · have hf' : (!d.variants.isEmpty || d.fallback.isSome) = false := by simpa using hf
    simp only [hf', Bool.false_eq_true, ↓reduceIte]
    refine ⟨nlIf b, _, blank_nlIf b, ⟨[], [], ?_, blank_nil, rfl⟩, ?_⟩
    · have : d.variants = [] := by
        cases hfs : d.variants with
        | nil => rfl
        | cons x l => simp [hfs] at hf'
      rw [this]; trivial
    · simp only [seqF, id, setNewline_out, nl, w, hpre, hb, hf', Bool.false_eq_true, ↓reduceIte]
      simp

def ValidEnum (d : EnumDef) : Prop :=
  ValidLines 2 d.comment ∧ ValidLines 3 d.doc ∧ (∀ a ∈ d.attrs, ValidAttr a) ∧ ValidIdent d.name ∧
  (∀ f ∈ d.variants, ValidVariant f) ∧ (∀ fb, d.fallback = some fb → ValidFallback fb)

def canonEnum (d : EnumDef) : EnumDef :=
  { d with comment := d.comment.map canonC, doc := d.doc.map canonD, variants := d.variants.map canonVariant,
           fallback := d.fallback.map canonFallback }

def enumFuel (d : EnumDef) : Nat :=
  d.comment.length + d.doc.length + d.attrs.length + listMax (d.attrs.map (·.options.length)) +
  d.variants.length + listMax (d.variants.map variantFuel) + fallbackFuel d.fallback + 1

theorem enumDefP_text (d : EnumDef) (hv : ValidEnum d) (fuel : Nat) (hf : enumFuel d ≤ fuel)
    (t : Str) (ht : EnumTexts d t) (w rest : Str) (hw : Blank w) :
    enumDefP fuel (skipWs (w ++ (t ++ rest))) = some (canonEnum d, rest) := by
  obtain ⟨hvc, hvd, hva, hn, hvf, hvfb⟩ := hv
  obtain ⟨wts, wfb, hrel, hwfb, rfl⟩ := ht
  unfold enumFuel at hf
  have hkw : ValidIdent (chars! "enum") := ⟨'e', chars! "num", rfl, by decide, by decide⟩
  -- the prelude
  have hpre := preludeP_text d.comment d.doc d.attrs 0 true true true fuel
    (chars! "enum " ++ (d.name ++ ((if !d.variants.isEmpty || d.fallback.isSome then enumBodyText d.variants d.fallback 4 wts wfb else chars! " {}") ++ rest)))
    (fun _ => rfl) (fun _ => rfl) (fun _ => rfl) hvc hvd
    (fun a ha => ⟨hva a ha, by
      have := le_listMax (List.mem_map_of_mem (f := fun (x : Attribute) => x.options.length) ha); omega⟩)
    (by
      have := noPre_ident hkw true true true fuel [] (' ' :: (d.name ++ ((if !d.variants.isEmpty || d.fallback.isSome then enumBodyText d.variants d.fallback 4 wts wfb else chars! " {}") ++ rest))) blank_nil
      simpa using this)
    (by omega) w hw
  simp only [] at hpre
  obtain ⟨hp1, hp2, hp3, hp4⟩ := hpre
  rw [show skipWs (chars! "enum " ++ (d.name ++ ((if !d.variants.isEmpty || d.fallback.isSome then enumBodyText d.variants d.fallback 4 wts wfb else chars! " {}") ++ rest)))
      = chars! "enum " ++ (d.name ++ ((if !d.variants.isEmpty || d.fallback.isSome then enumBodyText d.variants d.fallback 4 wts wfb else chars! " {}") ++ rest)) from
    skipWs_cons_nws (by decide) _] at hp4
  -- the body
  have hbody : ∀ tail : Str, (tail = (if !d.variants.isEmpty || d.fallback.isSome then enumBodyText d.variants d.fallback 4 wts wfb else chars! " {}") ++ rest) →
      ∃ tail', tail = ' ' :: '{' :: tail' ∧
        bodyP enumVariantP fuel (skipWs tail') = some ((d.variants.map canonVariant, d.fallback.map canonFallback), rest) := by
    intro tail htail
    have hfuelF : ∀ f ∈ d.variants, variantFuel f ≤ fuel := fun f hf' => by
      have := le_listMax (List.mem_map_of_mem (f := variantFuel) hf'); omega
    have hb := bodyP_text canonVariant (fun (f : EnumVariant) t => t = variantText f 4) enumVariantP d.variants wts d.fallback wfb
      (List.replicate (4 - 4) ' ') rest 4 fuel hrel
      (fun f hf' w txt tail' hw' htxt => by subst htxt; exact enumVariantP_text f (hvf f hf') 4 fuel (hfuelF f hf') w tail' hw')
      (fun f w tail' hfb hw' => enumVariantP_fallback_none f (hvfb f hfb) 4 fuel (by simp [fallbackFuel, hfb] at hf; omega) w tail' hw')
      (enumVariantP_close_none fuel)
      (fun f hfb => ⟨hvfb f hfb, by simp [fallbackFuel, hfb] at hf; omega⟩)
      hwfb (blank_replicate _) (by omega)
    by_cases hfl : (!d.variants.isEmpty || d.fallback.isSome) = true
    · refine ⟨'\n' :: (joined (blockItems canonVariant d.variants wts) ++ (fbPart d.fallback wfb 4 ++ (List.replicate (4 - 4) ' ' ++ '}' :: rest))), ?_, ?_⟩
      · simp [htail, hfl, enumBodyText]
      · rw [skipWs_newline]; exact hb
    · have hfl' : (!d.variants.isEmpty || d.fallback.isSome) = false := by simpa using hfl
      have hfe : d.variants = [] := by
        cases hfs : d.variants with
        | nil => rfl
        | cons x l => simp [hfs] at hfl'
      have hfbn : d.fallback = none := by
        cases hfs : d.fallback with
        | none => rfl
        | some x => simp [hfs] at hfl'
      refine ⟨'}' :: rest, by simp [htail, hfl'], ?_⟩
      have : wts = [] := by
        rw [hfe] at hrel
        cases wts with
        | nil => rfl
        | cons x l => simp [BlockRel] at hrel
      simpa [hfe, hfbn, this, blockItems, fbPart] using hb
  obtain ⟨tail', htail', hbodyres⟩ := hbody _ rfl
  unfold enumDefP
  simp only [List.append_assoc, hp4, hp1, hp2, hp3]
  rw [htail']
  have hopen := defOpenP_text (chars! "enum") (by decide) hn tail'
  simp only [List.cons_append, List.nil_append] at hopen ⊢
  rw [hopen]
  simp only [hbodyres]
  rfl


end Aldrin.Schema
