/-
Services: function parts, functions, events, the two item fallbacks, the item block and the service itself.
-/
import Aldrin.Lemmas.Schema.TypeOrInline

namespace Aldrin.Schema

/-! ### function parts (`args`, `ok`, `err`) -/

def ValidPart (p : FnPart) : Prop := ValidLines 2 p.comment ∧ ValidInline p.ty

def canonPart (p : FnPart) : FnPart := { comment := p.comment.map canonC, ty := canonInline p.ty }

def partFuel (p : FnPart) : Nat := p.comment.length + inlineFuel p.ty + 1

def FnPartTexts (p : FnPart) (kind : Str) (txt : Str) : Prop :=
  ∃ itxt, InlineTexts p.ty 8 itxt ∧
    txt = joined (preItems p.comment [] [] 8) ++ (List.replicate 8 ' ' ++ (kind ++ (' ' :: '=' :: ' ' :: itxt)))

theorem emits_fnPartF (p : FnPart) (kind : Str) : Emits (fnPartF p kind) (FnPartTexts p kind) := by
  intro st
  obtain ⟨b, hb⟩ := newlineWithFirst_out (!p.comment.isEmpty || isMultiTypeOrInline p.ty) st
  have hmid : Pure (seqF [prelude p.comment [] [] 8 false, w (chars! "        "), w kind, w (chars! " = ")])
      (joined (preItems p.comment [] [] 8) ++ (List.replicate 8 ' ' ++ (kind ++ chars! " = "))) := by
    apply pure_congr
    · apply pure_seq_cons (pure_prelude _ _ _ _); pure_tac
    · simp [List.replicate]
  let st1 := seqF [prelude p.comment [] [] 8 false, w (chars! "        "), w kind, w (chars! " = ")]
    (newlineWithFirst (!p.comment.isEmpty || isMultiTypeOrInline p.ty) st)
  obtain ⟨itxt, hit, hout⟩ := inlineTail_out p.ty 8 st1
  refine ⟨nlIf b, _, blank_nlIf b, ⟨itxt, hit, rfl⟩, ?_⟩
  unfold fnPartF
  have hsplit := seqF_append [prelude p.comment [] [] 8 false, w (chars! "        "), w kind, w (chars! " = ")]
    [typeOrInlineF p.ty 8, if isTypeName p.ty then seqF [w (chars! ";"), nl] else id,
      setNewline (!p.comment.isEmpty || isMultiTypeOrInline p.ty)]
    (newlineWithFirst (!p.comment.isEmpty || isMultiTypeOrInline p.ty) st)
  simp only [List.cons_append, List.nil_append] at hsplit
  rw [seqF_cons, hsplit]
  have key : ∀ s0 : FSt, (seqF [typeOrInlineF p.ty 8, if isTypeName p.ty then seqF [w (chars! ";"), nl] else id,
      setNewline (!p.comment.isEmpty || isMultiTypeOrInline p.ty)] s0).out
      = ((if isTypeName p.ty then seqF [w (chars! ";"), nl] else id) (typeOrInlineF p.ty 8 s0)).out := fun _ => rfl
  rw [key]
  show ((if isTypeName p.ty then seqF [w (chars! ";"), nl] else id) (typeOrInlineF p.ty 8 st1)).out = _
  rw [hout]
  show (seqF [prelude p.comment [] [] 8 false, w (chars! "        "), w kind, w (chars! " = ")]
    (newlineWithFirst (!p.comment.isEmpty || isMultiTypeOrInline p.ty) st)).out ++ _ = _
  rw [hmid]
  simp [hb]

theorem skipWs_inlineTxt (t : TypeOrInline) (hv : ValidInline t) (ind : Nat) (txt : Str) (ht : InlineTexts t ind txt)
    (rest : Str) : skipWs (txt ++ rest) = txt ++ rest := by
  cases t with
  | ty ty =>
    simp only [InlineTexts] at ht; subst ht
    rw [List.append_assoc]; exact skipWs_typeText hv _
  | struct s => obtain ⟨_, _, _, _, rfl⟩ := ht; exact skipWs_cons_nws (by decide) _
  | enum e => obtain ⟨_, _, _, _, rfl⟩ := ht; exact skipWs_cons_nws (by decide) _

theorem fnPartP_text (p : FnPart) (hv : ValidPart p) (kind : Str) (hk : ValidIdent kind) (fuel : Nat)
    (hf : partFuel p < fuel) (txt : Str) (ht : FnPartTexts p kind txt) (w rest : Str) (hw : Blank w) :
    fnPartP kind fuel (skipWs (w ++ (txt ++ rest))) = some (canonPart p, rest) := by
  obtain ⟨hvc, hvt⟩ := hv
  obtain ⟨itxt, hit, rfl⟩ := ht
  unfold partFuel at hf
  have hpre := preludeP_text p.comment [] [] 8 true false false fuel
    (List.replicate 8 ' ' ++ (kind ++ (' ' :: '=' :: ' ' :: itxt ++ rest)))
    (fun _ => rfl) (fun h => absurd rfl h) (fun h => absurd rfl h) hvc (by intro l hl; cases hl) (by simp)
    (noPre_ident hk true false false fuel _ _ (blank_replicate 8)) (by simp; omega) w hw
  simp only [] at hpre
  obtain ⟨hp1, _, _, hp4⟩ := hpre
  rw [skipWs_indent, skipWs_ident hk] at hp4
  have hin := typeOrInlineP_text p.ty hvt 8 fuel (by omega) itxt hit rest
  unfold fnPartP
  simp only [List.append_assoc, List.cons_append] at hp1 hp4 ⊢
  simp only [hp4, hp1, kwEqInlineP, kw_append, tok, skipWs_space, skipWs_cons_nws (show isWhiteSpace '=' = false by decide)]
  simp [kw, lit, skipWs_inlineTxt p.ty hvt 8 itxt hit, hin, canonPart]

/-- A part parser fails where a different part, or the closing brace of the function body, starts. -/
theorem fnPartP_other_none (kind kind' : Str) (hk' : ValidIdent kind') (hne : ∀ more, kw kind (kind' ++ more) = none)
    (cm : List Line) (hvc : ValidLines 2 cm) (fuel : Nat) (hf : cm.length < fuel) (more w : Str) (hw : Blank w) :
    fnPartP kind fuel (skipWs (w ++ (joined (preItems cm [] [] 8) ++ (List.replicate 8 ' ' ++ (kind' ++ more))))) = none := by
  have hpre := preludeP_text cm [] [] 8 true false false fuel (List.replicate 8 ' ' ++ (kind' ++ more))
    (fun _ => rfl) (fun h => absurd rfl h) (fun h => absurd rfl h) hvc (by intro l hl; cases hl) (by simp)
    (noPre_ident hk' true false false fuel _ _ (blank_replicate 8)) (by simp; omega) w hw
  simp only [] at hpre
  obtain ⟨_, _, _, hp4⟩ := hpre
  rw [skipWs_indent, skipWs_ident hk'] at hp4
  unfold fnPartP
  simp only [hp4, kwEqInlineP, hne]

theorem fnPartP_close_none (kind : Str) (hk : ∀ more, kw kind ('}' :: more) = none) (fuel : Nat) (more w : Str)
    (hw : Blank w) : fnPartP kind fuel (skipWs (w ++ ('}' :: more))) = none := by
  rw [skipWs_blank hw, skipWs_cons_nws (by decide)]
  have hm : many (preItemP true false false fuel) fuel ('}' :: more) = ([], '}' :: more) :=
    many_none _ _ _ (by simp [preItemP, commentP])
  simp [fnPartP, preludeP, hm, skipWs_cons_nws, isWhiteSpace, kwEqInlineP, hk]

/-! ### function definitions -/

def ValidFn (f : FnDef) : Prop :=
  ValidLines 2 f.comment ∧ ValidLines 3 f.doc ∧ ValidIdent f.name ∧ ValidInt f.id ∧
  (∀ p, f.args = some p → ValidPart p) ∧ (∀ p, f.ok = some p → ValidPart p) ∧ (∀ p, f.err = some p → ValidPart p)

def canonFn (f : FnDef) : FnDef :=
  { f with comment := f.comment.map canonC, doc := f.doc.map canonD, args := f.args.map canonPart,
           ok := f.ok.map canonPart, err := f.err.map canonPart }

def optPartFuel (o : Option FnPart) : Nat := match o with | some p => partFuel p + 1 | none => 0

def fnFuel (f : FnDef) : Nat :=
  f.comment.length + f.doc.length + optPartFuel f.args + optPartFuel f.ok + optPartFuel f.err + 1

/-- Text of one optional part inside a full function body: blank run, part, line end. -/
def partChunk (o : Option FnPart) (w t : Str) : Str :=
  match o with
  | some _ => w ++ (t ++ ['\n'])
  | none => []

def fnHead (f : FnDef) : Str :=
  joined (preItems f.comment f.doc [] 4) ++ (chars! "    fn " ++ (f.name ++ (' ' :: '@' :: ' ' :: f.id)))

def FnTexts (f : FnDef) (txt : Str) : Prop :=
  if f.args.isSome || okHasComment f || f.err.isSome then
    ∃ wa ta wo to we te,
      (∀ p, f.args = some p → Blank wa ∧ FnPartTexts p (chars! "args") ta) ∧
      (∀ p, f.ok = some p → Blank wo ∧ FnPartTexts p (chars! "ok") to) ∧
      (∀ p, f.err = some p → Blank we ∧ FnPartTexts p (chars! "err") te) ∧
      txt = fnHead f ++ (' ' :: '{' :: '\n' :: (partChunk f.args wa ta ++ (partChunk f.ok wo to ++ (partChunk f.err we te ++ chars! "    }"))))
  else match f.ok with
    | some ok => ∃ itxt, InlineTexts ok.ty 4 itxt ∧ txt = fnHead f ++ (' ' :: '=' :: ' ' :: itxt)
    | none => txt = fnHead f ++ [';']

theorem optPart_out (o : Option FnPart) (kind : Str) (st : FSt) :
    ∃ w t, (∀ p, o = some p → Blank w ∧ FnPartTexts p kind t) ∧
      (optPartF o kind st).out = st.out ++ partChunk o w t := by
  cases o with
  | none => exact ⟨[], [], by simp, by simp [partChunk, optPartF]⟩
  | some p =>
    obtain ⟨w, t, hw, ht, hout⟩ := emits_fnPartF p kind st
    exact ⟨w, t, fun q hq => by cases hq; exact ⟨hw, ht⟩, by simpa [partChunk, optPartF] using hout⟩

theorem eqInlineF_out (t : TypeOrInline) (ind : Nat) (st : FSt) :
    ∃ itxt, InlineTexts t ind itxt ∧ (eqInlineF t ind st).out = st.out ++ (' ' :: '=' :: ' ' :: (itxt ++ ['\n'])) := by
  obtain ⟨itxt, hit, hout⟩ := inlineTail_out t ind (w (chars! " = ") st)
  refine ⟨itxt, hit, ?_⟩
  show ((if isTypeName t then seqF [w (chars! ";"), nl] else id) (typeOrInlineF t ind (w (chars! " = ") st))).out = _
  rw [hout]
  simp [w]

theorem emits_fnDefF (f : FnDef) : Emits (fnDefF f) (FnTexts f) := by
  intro st
  have hmid : Pure (seqF [prelude f.comment f.doc [] 4 false, w (chars! "    fn "), w f.name, w (chars! " @ "), w f.id])
      (fnHead f) := by
    apply pure_congr
    · apply pure_seq_cons (pure_prelude _ _ _ _); pure_tac
    · simp [fnHead]
  obtain ⟨b, hb⟩ := newlineItem_out .function (fnMulti f) st
  let st1 := seqF [prelude f.comment f.doc [] 4 false, w (chars! "    fn "), w f.name, w (chars! " @ "), w f.id]
    (newlineItem .function (fnMulti f) st)
  have hst1 : st1.out = st.out ++ (nlIf b ++ fnHead f) := by
    show (seqF _ (newlineItem .function (fnMulti f) st)).out = _
    rw [hmid]; simp [hb]
  unfold fnDefF
  -- peel the first six list elements
  have hsplit : ∀ (body : F), seqF [newlineItem .function (fnMulti f), prelude f.comment f.doc [] 4 false, w (chars! "    fn "),
      w f.name, w (chars! " @ "), w f.id, body, setNewline (fnMulti f)] st = setNewline (fnMulti f) (body st1) := fun _ => rfl
  rw [hsplit]
  simp only [setNewline_out]
  by_cases hc : (f.args.isSome || okHasComment f || f.err.isSome) = true
  · simp only [hc, ↓reduceIte]
    let st2 := setFirst true (setNewline false (nl (w (chars! " {") st1)))
    obtain ⟨wa, ta, ha, houta⟩ := optPart_out f.args (chars! "args") st2
    obtain ⟨wo, to, ho, houto⟩ := optPart_out f.ok (chars! "ok") (optPartF f.args (chars! "args") st2)
    obtain ⟨we, te, he, houte⟩ := optPart_out f.err (chars! "err")
      (optPartF f.ok (chars! "ok") (optPartF f.args (chars! "args") st2))
    refine ⟨nlIf b, fnHead f ++ (' ' :: '{' :: '\n' :: (partChunk f.args wa ta ++ (partChunk f.ok wo to ++ (partChunk f.err we te ++ chars! "    }")))),
      blank_nlIf b, ?_, ?_⟩
    · unfold FnTexts
      rw [if_pos hc]
      exact ⟨wa, ta, wo, to, we, te, ha, ho, he, rfl⟩
    · show (nl (w (chars! "    }") (optPartF f.err (chars! "err")
        (optPartF f.ok (chars! "ok") (optPartF f.args (chars! "args") st2))))).out = _
      simp only [nl, w]
      rw [houte, houto, houta]
      simp only [st2, setFirst_out, setNewline_out, nl, w, hst1]
      simp
  · have hc' : (f.args.isSome || okHasComment f || f.err.isSome) = false := by simpa using hc
    simp only [hc', Bool.false_eq_true, ↓reduceIte]
    cases hok : f.ok with
    | none =>
      refine ⟨nlIf b, fnHead f ++ [';'], blank_nlIf b, ?_, ?_⟩
      · unfold FnTexts; rw [if_neg hc]; simp only [hok]
      · simp [seqF, nl, w, hst1]
    | some ok =>
      obtain ⟨itxt, hit, hout⟩ := eqInlineF_out ok.ty 4 st1
      refine ⟨nlIf b, fnHead f ++ (' ' :: '=' :: ' ' :: itxt), blank_nlIf b, ?_, ?_⟩
      · unfold FnTexts; rw [if_neg hc]; simp only [hok]; exact ⟨itxt, hit, rfl⟩
      · simp only []
        rw [hout, hst1]
        simp

theorem optPartP_stage (k : Str) (hk : ValidIdent k) (o : Option FnPart) (w t B R : Str) (fuel : Nat)
    (ho : ∀ p, o = some p → Blank w ∧ FnPartTexts p k t ∧ ValidPart p ∧ partFuel p < fuel)
    (hnone : o = none → fnPartP k fuel (skipWs R) = none) (hB : Blank B) :
    (optP (fnPartP k fuel) (skipWs (B ++ (partChunk o w t ++ R)))).1 = o.map canonPart ∧
    skipWs (optP (fnPartP k fuel) (skipWs (B ++ (partChunk o w t ++ R)))).2 = skipWs R := by
  cases o with
  | none =>
    simp only [partChunk, List.nil_append, skipWs_blank hB, optP, hnone rfl, Option.map_none, skipWs_idem, and_self]
  | some p =>
    obtain ⟨hw, ht, hv, hf⟩ := ho p rfl
    have := fnPartP_text p hv k hk fuel hf t ht (B ++ w) (['\n'] ++ R) (blank_append hB hw)
    simp only [partChunk, List.append_assoc, List.cons_append, List.nil_append] at this ⊢
    simp [optP, this]

theorem partChunk_not_start (k k' : Str) (hk' : ValidIdent k') (hne : ∀ more, kw k (k' ++ more) = none)
    (p : FnPart) (hv : ValidPart p) (w t R : Str) (hw : Blank w) (ht : FnPartTexts p k' t) (fuel : Nat)
    (hf : partFuel p < fuel) : fnPartP k fuel (skipWs (partChunk (some p) w t ++ R)) = none := by
  obtain ⟨itxt, _, rfl⟩ := ht
  simp only [partChunk, List.append_assoc]
  exact fnPartP_other_none k k' hk' hne p.comment hv.1 fuel (by unfold partFuel at hf; omega) _ w hw

theorem vi_args : ValidIdent (chars! "args") := ⟨'a', chars! "rgs", rfl, by decide, by decide⟩
theorem vi_ok : ValidIdent (chars! "ok") := ⟨'o', chars! "k", rfl, by decide, by decide⟩
theorem vi_err : ValidIdent (chars! "err") := ⟨'e', chars! "rr", rfl, by decide, by decide⟩

theorem fnBodyFullP_text (f : FnDef) (hv : ValidFn f) (fuel : Nat) (hf : fnFuel f ≤ fuel)
    (wa ta wo to we te : Str)
    (ha : ∀ p, f.args = some p → Blank wa ∧ FnPartTexts p (chars! "args") ta)
    (ho : ∀ p, f.ok = some p → Blank wo ∧ FnPartTexts p (chars! "ok") to)
    (he : ∀ p, f.err = some p → Blank we ∧ FnPartTexts p (chars! "err") te) (rest : Str) :
    fnBodyFullP fuel ('{' :: '\n' :: (partChunk f.args wa ta ++ (partChunk f.ok wo to ++ (partChunk f.err we te ++ (chars! "    }" ++ rest)))))
      = some ((f.args.map canonPart, f.ok.map canonPart, f.err.map canonPart), rest) := by
  obtain ⟨_, _, _, _, hva, hvo, hve⟩ := hv
  unfold fnFuel at hf
  have hfa : ∀ p, f.args = some p → partFuel p < fuel := fun p h => by simp [optPartFuel, h] at hf; omega
  have hfo : ∀ p, f.ok = some p → partFuel p < fuel := fun p h => by simp [optPartFuel, h] at hf; omega
  have hfe : ∀ p, f.err = some p → partFuel p < fuel := fun p h => by simp [optPartFuel, h] at hf; omega
  have hclose : ∀ k : Str, (∀ more, kw k ('}' :: more) = none) → fnPartP k fuel (skipWs (chars! "    }" ++ rest)) = none := by
    intro k hk
    have := fnPartP_close_none k hk fuel rest (chars! "    ") (by intro c hc; simp at hc; exact Or.inl hc)
    simpa using this
  -- where the `err` part would start
  have herr_none : ∀ k : Str, (∀ more, kw k (chars! "err" ++ more) = none) → (∀ more, kw k ('}' :: more) = none) →
      fnPartP k fuel (skipWs (partChunk f.err we te ++ (chars! "    }" ++ rest))) = none := by
    intro k hk1 hk2
    cases herr : f.err with
    | none => simpa [partChunk] using hclose k hk2
    | some p => exact partChunk_not_start k (chars! "err") vi_err hk1 p (hve p herr) we te _ (he p herr).1 (he p herr).2 fuel (hfe p herr)
  have hok_none : ∀ k : Str, (∀ more, kw k (chars! "ok" ++ more) = none) → (∀ more, kw k (chars! "err" ++ more) = none) →
      (∀ more, kw k ('}' :: more) = none) →
      fnPartP k fuel (skipWs (partChunk f.ok wo to ++ (partChunk f.err we te ++ (chars! "    }" ++ rest)))) = none := by
    intro k hk0 hk1 hk2
    cases hok : f.ok with
    | none => simpa [partChunk] using herr_none k hk1 hk2
    | some p => exact partChunk_not_start k (chars! "ok") vi_ok hk0 p (hvo p hok) wo to _ (ho p hok).1 (ho p hok).2 fuel (hfo p hok)
  have s1 := optPartP_stage (chars! "args") vi_args f.args wa ta ['\n']
    (partChunk f.ok wo to ++ (partChunk f.err we te ++ (chars! "    }" ++ rest))) fuel
    (fun p h => ⟨(ha p h).1, (ha p h).2, hva p h, hfa p h⟩)
    (fun _ => hok_none (chars! "args") (by intro m; simp [kw, lit]) (by intro m; simp [kw, lit]) (by intro m; simp [kw, lit]))
    blank_nl
  obtain ⟨s1a, s1b⟩ := s1
  -- second stage starts from a position that leads, through white space, to the `ok` chunk
  have s2 := optPartP_stage (chars! "ok") vi_ok f.ok wo to [] (partChunk f.err we te ++ (chars! "    }" ++ rest)) fuel
    (fun p h => ⟨(ho p h).1, (ho p h).2, hvo p h, hfo p h⟩)
    (fun _ => herr_none (chars! "ok") (by intro m; simp [kw, lit]) (by intro m; simp [kw, lit])) blank_nil
  simp only [List.nil_append] at s2
  obtain ⟨s2a, s2b⟩ := s2
  have s3 := optPartP_stage (chars! "err") vi_err f.err we te [] (chars! "    }" ++ rest) fuel
    (fun p h => ⟨(he p h).1, (he p h).2, hve p h, hfe p h⟩)
    (fun _ => hclose (chars! "err") (by intro m; simp [kw, lit])) blank_nil
  simp only [List.nil_append] at s3
  obtain ⟨s3a, s3b⟩ := s3
  unfold fnBodyFullP
  simp only [show kw (chars! "{") ('{' :: '\n' :: (partChunk f.args wa ta ++ (partChunk f.ok wo to ++ (partChunk f.err we te ++ (chars! "    }" ++ rest)))))
    = some ((), '\n' :: (partChunk f.args wa ta ++ (partChunk f.ok wo to ++ (partChunk f.err we te ++ (chars! "    }" ++ rest))))) from kw_append (chars! "{") _]
  simp only [List.cons_append, List.nil_append] at s1a s1b s2a s2b s3a s3b ⊢
  simp only [s1a, s1b, s2a, s2b, s3a, s3b, tok]
  simp [skipWs_cons_nws, isWhiteSpace, kw, lit]

theorem itemHeadP_text (k : Str) (hk : ∀ c ∈ k, isIdCont c = true) {name id : Str} (hn : ValidIdent name) (hi : ValidInt id)
    (rest : Str) (hr : NoDigit rest) :
    itemHeadP k (k ++ (' ' :: (name ++ (' ' :: '@' :: ' ' :: (id ++ rest))))) = some ((name, id), skipWs rest) := by
  unfold itemHeadP kwWs
  rw [kw_append]
  simp [atWs, isWhiteSpace, skipWs_ident hn, nameIdP_text hn hi hr]

theorem eqInlineP_text (t : TypeOrInline) (hv : ValidInline t) (ind fuel : Nat) (hf : inlineFuel t < fuel) (itxt : Str)
    (hit : InlineTexts t ind itxt) (rest : Str) :
    eqInlineP fuel ('=' :: ' ' :: (itxt ++ rest)) = some (canonInline t, rest) := by
  simp [eqInlineP, kw, lit, skipWs_inlineTxt t hv ind itxt hit, typeOrInlineP_text t hv ind fuel hf itxt hit rest]

theorem fnDefP_text (f : FnDef) (hv : ValidFn f) (fuel : Nat) (hf : fnFuel f ≤ fuel) (txt : Str) (ht : FnTexts f txt)
    (w rest : Str) (hw : Blank w) : fnDefP fuel (skipWs (w ++ (txt ++ rest))) = some (canonFn f, rest) := by
  have hv' := hv
  obtain ⟨hvc, hvd, hn, hi, hva, hvo, hve⟩ := hv
  have hfn : ValidIdent (chars! "fn") := ⟨'f', chars! "n", rfl, by decide, by decide⟩
  -- everything after `fn name @ id`
  obtain ⟨X, hX, hbody⟩ : ∃ X, txt = fnHead f ++ X ∧ NoDigit (X ++ rest) ∧
      fnBodyP fuel (skipWs (X ++ rest)) = some ((f.args.map canonPart, f.ok.map canonPart, f.err.map canonPart), rest) := by
    unfold FnTexts at ht
    by_cases hc : (f.args.isSome || okHasComment f || f.err.isSome) = true
    · rw [if_pos hc] at ht
      obtain ⟨wa, ta, wo, to, we, te, ha, ho, he, rfl⟩ := ht
      refine ⟨_, rfl, fun c r h => by cases h; decide, ?_⟩
      have := fnBodyFullP_text f hv' fuel hf wa ta wo to we te ha ho he rest
      simp only [List.cons_append, List.append_assoc, skipWs_space, skipWs_cons_nws (show isWhiteSpace '{' = false by decide)]
      simp only [List.cons_append, List.nil_append, List.append_assoc] at this
      simp [fnBodyP, this]
    · rw [if_neg hc] at ht
      have hc' : (f.args.isSome || okHasComment f || f.err.isSome) = false := by simpa using hc
      simp only [Bool.or_eq_false_iff, Option.isSome_eq_false_iff, Option.isNone_iff_eq_none] at hc'
      obtain ⟨⟨hargs, hokc⟩, herr⟩ := hc'
      cases hok : f.ok with
      | none =>
        simp only [hok] at ht
        subst ht
        refine ⟨[';'], rfl, fun c r h => by cases h; decide, ?_⟩
        simp [fnBodyP, fnBodyFullP, eqInlineP, kw, lit, skipWs_cons_nws, isWhiteSpace, hargs, herr, hok]
      | some ok =>
        simp only [hok] at ht
        obtain ⟨itxt, hit, rfl⟩ := ht
        refine ⟨_, rfl, fun c r h => by cases h; decide, ?_⟩
        have hfo : inlineFuel ok.ty < fuel := by
          unfold fnFuel at hf; simp [optPartFuel, hok, partFuel] at hf; omega
        have := eqInlineP_text ok.ty (hvo ok hok).2 4 fuel hfo itxt hit rest
        have hcm : ok.comment = [] := by
          simp only [okHasComment, hok, Bool.not_eq_false', List.isEmpty_iff] at hokc; exact hokc
        simp only [List.cons_append, List.append_assoc, skipWs_space, skipWs_cons_nws (show isWhiteSpace '=' = false by decide)]
        simp [fnBodyP, fnBodyFullP, kw, lit, this, hargs, herr, hok, canonPart, hcm]
  subst hX
  unfold fnFuel at hf
  have hpre := preludeP_text f.comment f.doc [] 4 true true false fuel
    (chars! "    fn " ++ (f.name ++ (' ' :: '@' :: ' ' :: (f.id ++ (X ++ rest)))))
    (fun _ => rfl) (fun _ => rfl) (fun h => absurd rfl h) hvc hvd (by simp)
    (by
      have := noPre_ident hfn true true false fuel (chars! "    ") (' ' :: (f.name ++ (' ' :: '@' :: ' ' :: (f.id ++ (X ++ rest)))))
        (by intro c hc; simp at hc; exact Or.inl hc)
      simpa using this)
    (by simp; omega) w hw
  simp only [] at hpre
  obtain ⟨hp1, hp2, _, hp4⟩ := hpre
  have hsk : skipWs (chars! "    fn " ++ (f.name ++ (' ' :: '@' :: ' ' :: (f.id ++ (X ++ rest)))))
      = chars! "fn" ++ (' ' :: (f.name ++ (' ' :: '@' :: ' ' :: (f.id ++ (X ++ rest))))) := by
    simp [skipWs_cons_nws, isWhiteSpace]
  rw [hsk] at hp4
  have hhead := itemHeadP_text (chars! "fn") (by decide) hn hi (X ++ rest) hbody.1
  unfold fnDefP fnHead
  simp only [List.append_assoc, List.cons_append, List.nil_append] at hp1 hp2 hp4 hhead ⊢
  simp only [hp4, hp1, hp2, hhead, hbody.2]
  rfl

/-! ### events -/

def ValidEvent (e : EventDef) : Prop :=
  ValidLines 2 e.comment ∧ ValidLines 3 e.doc ∧ ValidIdent e.name ∧ ValidInt e.id ∧ (∀ t, e.ty = some t → ValidInline t)

def canonEvent (e : EventDef) : EventDef :=
  { e with comment := e.comment.map canonC, doc := e.doc.map canonD, ty := e.ty.map canonInline }

def eventFuel (e : EventDef) : Nat :=
  e.comment.length + e.doc.length + (match e.ty with | some t => inlineFuel t + 1 | none => 0) + 1

def eventHead (e : EventDef) : Str :=
  joined (preItems e.comment e.doc [] 4) ++ (chars! "    event " ++ (e.name ++ (' ' :: '@' :: ' ' :: e.id)))

def EventTexts (e : EventDef) (txt : Str) : Prop :=
  match e.ty with
  | some t => ∃ itxt, InlineTexts t 4 itxt ∧ txt = eventHead e ++ (' ' :: '=' :: ' ' :: itxt)
  | none => txt = eventHead e ++ [';']

theorem emits_eventF (e : EventDef) : Emits (eventF e) (EventTexts e) := by
  intro st
  have hmid : Pure (seqF [prelude e.comment e.doc [] 4 false, w (chars! "    event "), w e.name, w (chars! " @ "), w e.id])
      (eventHead e) := by
    apply pure_congr
    · apply pure_seq_cons (pure_prelude _ _ _ _); pure_tac
    · simp [eventHead]
  obtain ⟨b, hb⟩ := newlineItem_out .event (eventMulti e) st
  let st1 := seqF [prelude e.comment e.doc [] 4 false, w (chars! "    event "), w e.name, w (chars! " @ "), w e.id]
    (newlineItem .event (eventMulti e) st)
  have hst1 : st1.out = st.out ++ (nlIf b ++ eventHead e) := by
    show (seqF _ (newlineItem .event (eventMulti e) st)).out = _
    rw [hmid]; simp [hb]
  unfold eventF
  have hsplit : ∀ (body : F), seqF [newlineItem .event (eventMulti e), prelude e.comment e.doc [] 4 false, w (chars! "    event "),
      w e.name, w (chars! " @ "), w e.id, body, setNewline (eventMulti e)] st = setNewline (eventMulti e) (body st1) := fun _ => rfl
  rw [hsplit]
  simp only [setNewline_out]
  cases hty : e.ty with
  | none =>
    refine ⟨nlIf b, eventHead e ++ [';'], blank_nlIf b, ?_, ?_⟩
    · unfold EventTexts; simp only [hty]
    · simp [seqF, nl, w, hst1]
  | some t =>
    obtain ⟨itxt, hit, hout⟩ := eqInlineF_out t 4 st1
    refine ⟨nlIf b, eventHead e ++ (' ' :: '=' :: ' ' :: itxt), blank_nlIf b, ?_, ?_⟩
    · unfold EventTexts; simp only [hty]; exact ⟨itxt, hit, rfl⟩
    · simp only []
      rw [hout, hst1]
      simp

theorem eventDefP_text (e : EventDef) (hv : ValidEvent e) (fuel : Nat) (hf : eventFuel e ≤ fuel) (txt : Str)
    (ht : EventTexts e txt) (w rest : Str) (hw : Blank w) :
    eventDefP fuel (skipWs (w ++ (txt ++ rest))) = some (canonEvent e, rest) := by
  obtain ⟨hvc, hvd, hn, hi, hvt⟩ := hv
  have hev : ValidIdent (chars! "event") := ⟨'e', chars! "vent", rfl, by decide, by decide⟩
  obtain ⟨X, hX, hnd, hbody⟩ : ∃ X, txt = eventHead e ++ X ∧ NoDigit (X ++ rest) ∧
      eventBodyP fuel (skipWs (X ++ rest)) = some (e.ty.map canonInline, rest) := by
    unfold EventTexts at ht
    cases hty : e.ty with
    | none =>
      simp only [hty] at ht
      subst ht
      refine ⟨[';'], rfl, fun c r h => by cases h; decide, ?_⟩
      simp [eventBodyP, eqInlineP, kw, lit, skipWs_cons_nws, isWhiteSpace]
    | some t =>
      simp only [hty] at ht
      obtain ⟨itxt, hit, rfl⟩ := ht
      refine ⟨_, rfl, fun c r h => by cases h; decide, ?_⟩
      have hft : inlineFuel t < fuel := by unfold eventFuel at hf; simp [hty] at hf; omega
      have := eqInlineP_text t (hvt t hty) 4 fuel hft itxt hit rest
      simp only [List.cons_append, List.append_assoc, skipWs_space, skipWs_cons_nws (show isWhiteSpace '=' = false by decide)]
      simp [eventBodyP, this]
  subst hX
  unfold eventFuel at hf
  have hpre := preludeP_text e.comment e.doc [] 4 true true false fuel
    (chars! "    event " ++ (e.name ++ (' ' :: '@' :: ' ' :: (e.id ++ (X ++ rest)))))
    (fun _ => rfl) (fun _ => rfl) (fun h => absurd rfl h) hvc hvd (by simp)
    (by
      have := noPre_ident hev true true false fuel (chars! "    ") (' ' :: (e.name ++ (' ' :: '@' :: ' ' :: (e.id ++ (X ++ rest)))))
        (by intro c hc; simp at hc; exact Or.inl hc)
      simpa using this)
    (by simp; omega) w hw
  simp only [] at hpre
  obtain ⟨hp1, hp2, _, hp4⟩ := hpre
  have hsk : skipWs (chars! "    event " ++ (e.name ++ (' ' :: '@' :: ' ' :: (e.id ++ (X ++ rest)))))
      = chars! "event" ++ (' ' :: (e.name ++ (' ' :: '@' :: ' ' :: (e.id ++ (X ++ rest))))) := by
    simp [skipWs_cons_nws, isWhiteSpace]
  rw [hsk] at hp4
  have hhead := itemHeadP_text (chars! "event") (by decide) hn hi (X ++ rest) hnd
  unfold eventDefP eventHead
  simp only [List.append_assoc, List.cons_append, List.nil_append] at hp1 hp2 hp4 hhead ⊢
  simp only [hp4, hp1, hp2, hhead, hbody]
  rfl

/-! ### `fn x = fallback;` and `event x = fallback;` -/

def itemFallbackText (fb : Fallback) (k : Str) : Str :=
  joined (preItems fb.comment fb.doc [] 4) ++ (chars! "    " ++ (k ++ (' ' :: (fb.name ++ chars! " = fallback;"))))

theorem emits_itemFallbackF (fb : Fallback) (k : Str) : Emits (itemFallbackF fb k) (fun t => t = itemFallbackText fb k) := by
  have := emits_line (newlineWithFirst (!fb.comment.isEmpty || !fb.doc.isEmpty)) (newlineWithFirst_out _)
    [prelude fb.comment fb.doc [] 4 false, w (chars! "    "), w k, w (chars! " "), w fb.name, w (chars! " = fallback;")]
    (itemFallbackText fb k)
    (by apply pure_congr
        · apply pure_seq_cons (pure_prelude _ _ _ _); pure_tac
        · simp [itemFallbackText])
    (!fb.comment.isEmpty || !fb.doc.isEmpty)
  simpa [itemFallbackF] using this

theorem itemFallbackP_text (fb : Fallback) (hv : ValidFallback fb) (k : Str) (hk : ValidIdent k) (fuel : Nat)
    (hf : fb.comment.length + fb.doc.length < fuel) (w rest : Str) (hw : Blank w) :
    itemFallbackP k fuel (skipWs (w ++ (itemFallbackText fb k ++ rest))) = some (canonFallback fb, rest) := by
  obtain ⟨hvc, hvd, hn⟩ := hv
  have hpre := preludeP_text fb.comment fb.doc [] 4 true true false fuel
    (chars! "    " ++ (k ++ (' ' :: (fb.name ++ (chars! " = fallback;" ++ rest)))))
    (fun _ => rfl) (fun _ => rfl) (fun h => absurd rfl h) hvc hvd (by simp)
    (noPre_ident hk true true false fuel (chars! "    ") _ (by intro c hc; simp at hc; exact Or.inl hc))
    (by simp; omega) w hw
  simp only [] at hpre
  obtain ⟨hp1, hp2, _, hp4⟩ := hpre
  have hsk : skipWs (chars! "    " ++ (k ++ (' ' :: (fb.name ++ (chars! " = fallback;" ++ rest)))))
      = k ++ (' ' :: (fb.name ++ (chars! " = fallback;" ++ rest))) := by
    have := skipWs_ident hk (' ' :: (fb.name ++ (chars! " = fallback;" ++ rest)))
    simpa using this
  rw [hsk] at hp4
  unfold itemFallbackP itemFallbackText kwWs
  simp only [List.append_assoc, List.cons_append, List.nil_append] at hp1 hp2 hp4 ⊢
  simp only [hp4, hp1, hp2]
  rw [kw_append]
  have := fallbackTailP_text hn rest
  simp only [List.cons_append, List.nil_append] at this
  simp [atWs, isWhiteSpace, skipWs_ident hn, this, canonFallback]

end Aldrin.Schema
