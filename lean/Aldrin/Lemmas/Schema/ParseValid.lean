/-
Everything the parser returns is well formed (`ValidSchema`): the hypothesis of the round-trip theorem holds
for every AST that comes from a source text.
-/
import Aldrin.Lemmas.Schema.Schema

namespace Aldrin.Schema

/-! ### repetition -/

theorem manyTail_forall {α : Type} (p : P α) (Q : α → Prop) (hp : ∀ cs a r, p cs = some (a, r) → Q a) :
    ∀ (fuel : Nat) (cs : Str), ∀ a ∈ (manyTail p fuel cs).1, Q a
  | 0, cs => by simp [manyTail]
  | fuel + 1, cs => by
    unfold manyTail
    cases h : p (skipWs cs) with
    | none => simp
    | some x =>
      obtain ⟨a, r⟩ := x
      intro b hb
      simp only [List.mem_cons] at hb
      rcases hb with rfl | hb
      · exact hp _ _ _ h
      · exact manyTail_forall p Q hp fuel r b hb

theorem many_forall {α : Type} (p : P α) (Q : α → Prop) (hp : ∀ cs a r, p cs = some (a, r) → Q a) (fuel : Nat) (cs : Str) :
    ∀ a ∈ (many p fuel cs).1, Q a := by
  cases fuel with
  | zero => simp [many]
  | succ fuel =>
    unfold many
    cases h : p cs with
    | none => simp [h]
    | some x =>
      obtain ⟨a, r⟩ := x
      intro b hb
      simp only [h, List.mem_cons] at hb
      rcases hb with rfl | hb
      · exact hp _ _ _ h
      · exact manyTail_forall p Q hp fuel r b hb

/-! ### leaves -/

theorem mem_takeWhile {p : Char → Bool} : ∀ {l : Str} {d : Char}, d ∈ l.takeWhile p → p d = true
  | [], d, h => by simp at h
  | c :: l, d, h => by
    simp only [List.takeWhile] at h
    split at h
    · rename_i hc
      rcases List.mem_cons.1 h with rfl | h
      · exact hc
      · exact mem_takeWhile h
    · simp at h


theorem identP_valid {cs n r : Str} (h : identP cs = some (n, r)) : ValidIdent n := by
  unfold identP at h
  cases cs with
  | nil => simp at h
  | cons c t =>
    simp only at h
    split at h
    · rename_i hc
      simp only [Option.some.injEq, Prod.mk.injEq] at h
      obtain ⟨rfl, _⟩ := h
      exact ⟨c, _, rfl, hc, fun d hd => (mem_takeWhile hd)⟩
    · simp at h

theorem digitsP_valid {cs ds r : Str} (h : digitsP cs = some (ds, r)) : ds ≠ [] ∧ ∀ d ∈ ds, d.isDigit = true := by
  unfold digitsP at h
  simp only at h
  split at h
  · simp at h
  · rename_i hne
    simp only [Option.some.injEq, Prod.mk.injEq] at h
    obtain ⟨rfl, _⟩ := h
    exact ⟨by intro he; simp [he] at hne, fun d hd => mem_takeWhile hd⟩

theorem litIntP_valid {cs v r : Str} (h : litIntP cs = some (v, r)) : ValidInt v := by
  unfold litIntP at h
  split at h
  · rename_i t
    simp only [Option.map_eq_some_iff, Prod.mk.injEq, Prod.exists] at h
    obtain ⟨ds, r', hd, rfl, _⟩ := h
    obtain ⟨h1, h2⟩ := digitsP_valid hd
    exact ⟨ds, h1, h2, Or.inr rfl⟩
  · obtain ⟨h1, h2⟩ := digitsP_valid h
    exact ⟨v, h1, h2, Or.inl rfl⟩

theorem hexN_valid : ∀ (n : Nat) {cs a r : Str}, hexN n cs = some (a, r) → a.length = n ∧ ∀ c ∈ a, isHex c = true
  | 0, cs, a, r, h => by simp [hexN] at h; obtain ⟨rfl, _⟩ := h; simp
  | n + 1, [], a, r, h => by simp [hexN] at h
  | n + 1, c :: t, a, r, h => by
    unfold hexN at h
    split at h
    · rename_i hc
      simp only [Option.map_eq_some_iff, Prod.mk.injEq, Prod.exists] at h
      obtain ⟨a', r', h', rfl, _⟩ := h
      obtain ⟨hl, hx⟩ := hexN_valid n h'
      exact ⟨by simp [hl], fun d hd => by rcases List.mem_cons.1 hd with rfl | hd; exact hc; exact hx d hd⟩
    · simp at h

theorem kw_dash {cs r : Str} (h : kw (chars! "-") cs = some ((), r)) : cs = '-' :: r := by
  unfold kw lit at h
  split at h
  · rename_i hp
    simp only [Option.some.injEq, Prod.mk.injEq, true_and] at h
    cases cs with
    | nil => simp at hp
    | cons c t =>
      simp only [List.isPrefixOf, Bool.and_true, beq_iff_eq] at hp
      simp at h
      rw [← hp, h]
  · simp at h

theorem litUuidP_valid {cs u r : Str} (h : litUuidP cs = some (u, r)) : ValidUuid u := by
  unfold litUuidP at h
  simp only [Option.bind_eq_bind, Option.bind_eq_some_iff, Prod.exists, Option.pure_def, Option.some.injEq, Prod.mk.injEq] at h
  obtain ⟨a, r1, ha, ⟨⟩, r2, _, b, r3, hb, ⟨⟩, r4, _, c, r5, hc, ⟨⟩, r6, _, d, r7, hd, ⟨⟩, r8, _, e, r9, he, rfl, _⟩ := h
  obtain ⟨la, xa⟩ := hexN_valid 8 ha
  obtain ⟨lb, xb⟩ := hexN_valid 4 hb
  obtain ⟨lc, xc⟩ := hexN_valid 4 hc
  obtain ⟨ld, xd⟩ := hexN_valid 4 hd
  obtain ⟨le, xe⟩ := hexN_valid 12 he
  refine ⟨a, b, c, d, e, rfl, la, lb, lc, ld, le, ?_⟩
  intro x hx
  simp only [List.mem_append] at hx
  rcases hx with (((hx | hx) | hx) | hx) | hx
  · exact xa x hx
  · exact xb x hx
  · exact xc x hx
  · exact xd x hx
  · exact xe x hx

/-! ### string literals -/


end Aldrin.Schema
