/-
Everything the parser returns is well formed (`ValidSchema`): the hypothesis of the round-trip theorem holds
for every AST that comes from a source text.
-/
import Aldrin.Lemmas.Schema.Schema

namespace Aldrin.Schema

/-! ### repetition -/

theorem manyTail_forall {α : Type} (p : P α) (Q : α → Prop) (hp : ∀ cs a r, p cs = some (a, r) → Q a) :
    ∀ (fuel : Nat) (cs : Str), ∀ a ∈ (manyTail p fuel cs).1, Q a
  | 0, cs => by simp [manyTail]
  | fuel + 1, cs => by
    unfold manyTail
    cases h : p (skipWs cs) with
    | none => simp
    | some x =>
      obtain ⟨a, r⟩ := x
      intro b hb
      simp only [List.mem_cons] at hb
      rcases hb with rfl | hb
      · exact hp _ _ _ h
      · exact manyTail_forall p Q hp fuel r b hb

theorem many_forall {α : Type} (p : P α) (Q : α → Prop) (hp : ∀ cs a r, p cs = some (a, r) → Q a) (fuel : Nat) (cs : Str) :
    ∀ a ∈ (many p fuel cs).1, Q a := by
  cases fuel with
  | zero => simp [many]
  | succ fuel =>
    unfold many
    cases h : p cs with
    | none => simp [h]
    | some x =>
      obtain ⟨a, r⟩ := x
      intro b hb
      simp only [h, List.mem_cons] at hb
      rcases hb with rfl | hb
      · exact hp _ _ _ h
      · exact manyTail_forall p Q hp fuel r b hb

/-! ### leaves -/

theorem mem_takeWhile {p : Char → Bool} : ∀ {l : Str} {d : Char}, d ∈ l.takeWhile p → p d = true
  | [], d, h => by simp at h
  | c :: l, d, h => by
    simp only [List.takeWhile] at h
    split at h
    · rename_i hc
      rcases List.mem_cons.1 h with rfl | h
      · exact hc
      · exact mem_takeWhile h
    · simp at h


theorem identP_valid {cs n r : Str} (h : identP cs = some (n, r)) : ValidIdent n := by
  unfold identP at h
  cases cs with
  | nil => simp at h
  | cons c t =>
    simp only at h
    split at h
    · rename_i hc
      simp only [Option.some.injEq, Prod.mk.injEq] at h
      obtain ⟨rfl, _⟩ := h
      exact ⟨c, _, rfl, hc, fun d hd => (mem_takeWhile hd)⟩
    · simp at h

theorem digitsP_valid {cs ds r : Str} (h : digitsP cs = some (ds, r)) : ds ≠ [] ∧ ∀ d ∈ ds, d.isDigit = true := by
  unfold digitsP at h
  simp only at h
  split at h
  · simp at h
  · rename_i hne
    simp only [Option.some.injEq, Prod.mk.injEq] at h
    obtain ⟨rfl, _⟩ := h
    exact ⟨by intro he; simp [he] at hne, fun d hd => mem_takeWhile hd⟩

theorem litIntP_valid {cs v r : Str} (h : litIntP cs = some (v, r)) : ValidInt v := by
  unfold litIntP at h
  split at h
  · rename_i t
    simp only [Option.map_eq_some_iff, Prod.mk.injEq, Prod.exists] at h
    obtain ⟨ds, r', hd, rfl, _⟩ := h
    obtain ⟨h1, h2⟩ := digitsP_valid hd
    exact ⟨ds, h1, h2, Or.inr rfl⟩
  · obtain ⟨h1, h2⟩ := digitsP_valid h
    exact ⟨v, h1, h2, Or.inl rfl⟩

theorem hexN_valid : ∀ (n : Nat) {cs a r : Str}, hexN n cs = some (a, r) → a.length = n ∧ ∀ c ∈ a, isHex c = true
  | 0, cs, a, r, h => by simp [hexN] at h; obtain ⟨rfl, _⟩ := h; simp
  | n + 1, [], a, r, h => by simp [hexN] at h
  | n + 1, c :: t, a, r, h => by
    unfold hexN at h
    split at h
    · rename_i hc
      simp only [Option.map_eq_some_iff, Prod.mk.injEq, Prod.exists] at h
      obtain ⟨a', r', h', rfl, _⟩ := h
      obtain ⟨hl, hx⟩ := hexN_valid n h'
      exact ⟨by simp [hl], fun d hd => by rcases List.mem_cons.1 hd with rfl | hd; exact hc; exact hx d hd⟩
    · simp at h

theorem kw_dash {cs r : Str} (h : kw (chars! "-") cs = some ((), r)) : cs = '-' :: r := by
  unfold kw lit at h
  split at h
  · rename_i hp
    simp only [Option.some.injEq, Prod.mk.injEq, true_and] at h
    cases cs with
    | nil => simp at hp
    | cons c t =>
      simp only [List.isPrefixOf, Bool.and_true, beq_iff_eq] at hp
      simp at h
      rw [← hp, h]
  · simp at h

theorem litUuidP_valid {cs u r : Str} (h : litUuidP cs = some (u, r)) : ValidUuid u := by
  unfold litUuidP at h
  simp only [Option.bind_eq_bind, Option.bind_eq_some_iff, Prod.exists, Option.pure_def, Option.some.injEq, Prod.mk.injEq] at h
  obtain ⟨a, r1, ha, ⟨⟩, r2, _, b, r3, hb, ⟨⟩, r4, _, c, r5, hc, ⟨⟩, r6, _, d, r7, hd, ⟨⟩, r8, _, e, r9, he, rfl, _⟩ := h
  obtain ⟨la, xa⟩ := hexN_valid 8 ha
  obtain ⟨lb, xb⟩ := hexN_valid 4 hb
  obtain ⟨lc, xc⟩ := hexN_valid 4 hc
  obtain ⟨ld, xd⟩ := hexN_valid 4 hd
  obtain ⟨le, xe⟩ := hexN_valid 12 he
  refine ⟨a, b, c, d, e, rfl, la, lb, lc, ld, le, ?_⟩
  intro x hx
  simp only [List.mem_append] at hx
  rcases hx with (((hx | hx) | hx) | hx) | hx
  · exact xa x hx
  · exact xb x hx
  · exact xc x hx
  · exact xd x hx
  · exact xe x hx

/-! ### string literals -/


/-! ### lines -/

theorem mem_trimEnd {s : Str} {c : Char} (h : c ∈ trimEnd s) : c ∈ s := by
  unfold trimEnd at h
  have := (List.dropWhile_sublist isWs (l := s.reverse)).subset (List.mem_reverse.mp h)
  exact List.mem_reverse.mp this

theorem dropWhile_append_all {p : Char → Bool} : ∀ (l1 l2 : Str), (∀ c ∈ l1, p c = true) → (l1 ++ l2).dropWhile p = l2.dropWhile p
  | [], l2, _ => rfl
  | c :: l1, l2, h => by
    simp only [List.cons_append, List.dropWhile, h c (by simp)]
    exact dropWhile_append_all l1 l2 (fun d hd => h d (by simp [hd]))

theorem trimEnd_append_allws (s t : Str) (ht : ∀ c ∈ t, isWs c = true) : trimEnd (s ++ t) = trimEnd s := by
  unfold trimEnd
  rw [List.reverse_append, dropWhile_append_all _ _ (fun c hc => ht c (List.mem_reverse.mp hc))]

/-- a line as `lineTail` cuts it: text without a line feed, then the line end (if any) -/
theorem lineTail_shape : ∀ (cs a b : Str), lineTail cs = (a, b) →
    ∃ body term, a = body ++ term ∧ '\n' ∉ body ∧ ∀ c ∈ term, isWs c = true
  | [], a, b, h => by simp [lineTail] at h; exact ⟨[], [], by simp [h.1], by simp, by simp⟩
  | c :: r, a, b, h => by
    by_cases h1 : c = '\n'
    · subst h1
      simp [lineTail] at h
      exact ⟨[], ['\n'], by simp [h.1], by simp, by simp [isWs]⟩
    · by_cases h2 : c = '\r' ∧ ∃ r', r = '\n' :: r'
      · obtain ⟨rfl, r', rfl⟩ := h2
        simp [lineTail] at h
        exact ⟨[], ['\r', '\n'], by simp [h.1], by simp, by intro c hc; simp at hc; rcases hc with rfl | rfl <;> simp [isWs]⟩
      · have hstep : lineTail (c :: r) = (c :: (lineTail r).1, (lineTail r).2) := by
          rw [lineTail]
          · intro hc; exact h1 hc
          · intro r' hc hr; exact h2 ⟨hc, r', hr⟩
        rw [hstep] at h
        simp only [Prod.mk.injEq] at h
        obtain ⟨body, term, hb, hn, ht⟩ := lineTail_shape r _ _ rfl
        refine ⟨c :: body, term, ?_, ?_, ht⟩
        · rw [← h.1, hb]; simp
        · simp only [List.mem_cons, not_or]
          exact ⟨fun hc => h1 hc.symm, hn⟩

theorem inner_no_newline (k : Nat) (body term : Str) (hn : '\n' ∉ body) (ht : ∀ c ∈ term, isWs c = true) :
    '\n' ∉ inner k (body ++ term) := by
  unfold inner
  -- after dropping and stripping the text still is "no line feed, then white space"
  have hshape : ∀ x : Str, (∃ b t, x = b ++ t ∧ '\n' ∉ b ∧ ∀ c ∈ t, isWs c = true) → '\n' ∉ trimEnd x := by
    rintro x ⟨b, t, rfl, hb, ht'⟩ hmem
    rw [trimEnd_append_allws _ _ ht'] at hmem
    exact hb (mem_trimEnd hmem)
  apply hshape
  have hdrop : ∃ b t, (body ++ term).drop k = b ++ t ∧ '\n' ∉ b ∧ ∀ c ∈ t, isWs c = true := by
    by_cases hk : k ≤ body.length
    · exact ⟨body.drop k, term, by rw [List.drop_append_of_le_length hk], fun h => hn (List.mem_of_mem_drop h), ht⟩
    · refine ⟨[], (body ++ term).drop k, by simp, by simp, ?_⟩
      intro c hc
      have hc' := List.mem_of_mem_drop hc
      have : (body ++ term).drop k = term.drop (k - body.length) := by
        have hk' : k = body.length + (k - body.length) := by omega
        rw [hk', List.drop_append]; simp
      rw [this] at hc
      exact ht c (List.mem_of_mem_drop hc)
  obtain ⟨b, t, hbt, hb, ht'⟩ := hdrop
  rw [hbt]
  cases b with
  | nil =>
    cases t with
    | nil => exact ⟨[], [], by simp, by simp, by simp⟩
    | cons c t =>
      simp only [List.nil_append]
      split
      · rename_i r heq
        simp only [List.cons.injEq] at heq
        exact ⟨[], r, by simp, by simp, fun d hd => ht' d (by rw [← heq.2] at hd; simp [hd])⟩
      · exact ⟨[], c :: t, by simp, by simp, ht'⟩
  | cons c b =>
    simp only [List.cons_append]
    split
    · rename_i r heq
      simp only [List.cons.injEq] at heq
      refine ⟨b, t, heq.2.symm, ?_, ht'⟩
      intro h; exact hb (by simp [h])
    · exact ⟨c :: b, t, by simp, hb, ht'⟩

theorem commentP_valid {cs l r : Str} (h : commentP cs = some (l, r)) : '\n' ∉ inner 2 l := by
  unfold commentP at h
  split at h
  · simp at h
  · split at h
    · simp only [Option.some.injEq, Prod.mk.injEq] at h
      obtain ⟨body, term, hb, hn, ht⟩ := lineTail_shape cs _ _ rfl
      rw [← h.1, hb]; exact inner_no_newline 2 body term hn ht
    · simp at h

theorem docP_valid {cs l r : Str} (h : docP cs = some (l, r)) : '\n' ∉ inner 3 l := by
  unfold docP at h
  split at h
  · simp only [Option.some.injEq, Prod.mk.injEq] at h
    obtain ⟨body, term, hb, hn, ht⟩ := lineTail_shape cs _ _ rfl
    rw [← h.1, hb]; exact inner_no_newline 3 body term hn ht
  · simp at h

theorem docInlineP_valid {cs l r : Str} (h : docInlineP cs = some (l, r)) : '\n' ∉ inner 3 l := by
  unfold docInlineP at h
  split at h
  · simp only [Option.some.injEq, Prod.mk.injEq] at h
    obtain ⟨body, term, hb, hn, ht⟩ := lineTail_shape cs _ _ rfl
    rw [← h.1, hb]; exact inner_no_newline 3 body term hn ht
  · simp at h


/-! ### references and types -/

theorem identP_split {cs n r : Str} (h : identP cs = some (n, r)) : cs = n ++ r := by
  unfold identP at h
  cases cs with
  | nil => simp at h
  | cons c t =>
    simp only at h
    split at h
    · simp only [Option.some.injEq, Prod.mk.injEq] at h
      obtain ⟨rfl, rfl⟩ := h
      simp [List.takeWhile_append_dropWhile]
    · simp at h

theorem namedRefP_valid {cs r : Str} {n : NamedRef} (h : namedRefP cs = some (n, r)) : ValidRef n ∧ n.head <+: cs := by
  unfold namedRefP at h
  cases hi : identP cs with
  | none => simp [hi] at h
  | some x =>
    obtain ⟨a, r1⟩ := x
    have ha := identP_valid hi
    have hp : a <+: cs := ⟨r1, (identP_split hi).symm⟩
    simp only [hi] at h
    split at h
    · split at h
      · rename_i b r3 hb
        simp only [Option.some.injEq, Prod.mk.injEq] at h
        obtain ⟨rfl, _⟩ := h
        exact ⟨⟨ha, identP_valid hb⟩, hp⟩
      · simp only [Option.some.injEq, Prod.mk.injEq] at h
        obtain ⟨rfl, _⟩ := h
        exact ⟨ha, hp⟩
    · simp only [Option.some.injEq, Prod.mk.injEq] at h
      obtain ⟨rfl, _⟩ := h
      exact ⟨ha, hp⟩

theorem arrayLenP_valid {cs r : Str} {l : ArrayLen} (h : arrayLenP cs = some (l, r)) : ValidLen l := by
  unfold arrayLenP at h
  split at h
  · rename_i v r' hv
    simp only [Option.some.injEq, Prod.mk.injEq] at h
    obtain ⟨rfl, _⟩ := h
    exact litIntP_valid hv
  · simp only [Option.map_eq_some_iff] at h
    obtain ⟨⟨n, r'⟩, hn, he⟩ := h
    simp only [Prod.mk.injEq] at he
    obtain ⟨rfl, _⟩ := he
    exact (namedRefP_valid hn).1

theorem firstPrim_none_of {ps : List Prim} {cs : Str} (h : firstPrim ps cs = none) : ∀ p ∈ ps, kw p.kwText cs = none := by
  induction ps with
  | nil => simp
  | cons p ps ih =>
    unfold firstPrim at h
    split at h
    · simp at h
    · rename_i hk
      intro q hq
      rcases List.mem_cons.1 hq with rfl | hq
      · exact hk
      · exact ih h q hq

theorem kw_none_not_prefix {k cs : Str} (h : kw k cs = none) : ¬ k <+: cs := by
  unfold kw lit at h
  split at h
  · simp at h
  · rename_i hp
    intro hpre
    exact hp (List.isPrefixOf_iff_prefix.mpr hpre)

theorem orElse_some {α : Type} {a b : Option α} {x : α} (h : (a <|> b) = some x) : a = some x ∨ (a = none ∧ b = some x) := by
  cases a <;> simp_all

theorem generic1P_valid {rec : P TypeName} {k : Str} {mk : TypeName → TypeName} {cs r : Str} {t : TypeName}
    (hrec : ∀ cs t r, rec cs = some (t, r) → ValidType t) (hmk : ∀ t, ValidType t → ValidType (mk t))
    (h : generic1P rec k mk cs = some (t, r)) : ValidType t := by
  unfold generic1P at h
  repeat' split at h
  all_goals (try (simp at h; done))
  simp only [Option.some.injEq, Prod.mk.injEq] at h
  obtain ⟨rfl, _⟩ := h
  exact hmk _ (hrec _ _ _ (by assumption))

theorem generic2P_valid {rec : P TypeName} {k sep : Str} {mk : TypeName → TypeName → TypeName} {cs r : Str} {t : TypeName}
    (hrec : ∀ cs t r, rec cs = some (t, r) → ValidType t) (hmk : ∀ a b, ValidType a → ValidType b → ValidType (mk a b))
    (h : generic2P rec k sep mk cs = some (t, r)) : ValidType t := by
  unfold generic2P at h
  repeat' split at h
  all_goals (try (simp at h; done))
  simp only [Option.some.injEq, Prod.mk.injEq] at h
  obtain ⟨rfl, _⟩ := h
  exact hmk _ _ (hrec _ _ _ (by assumption)) (hrec _ _ _ (by assumption))

theorem arrayP_valid {rec : P TypeName} {cs r : Str} {t : TypeName}
    (hrec : ∀ cs t r, rec cs = some (t, r) → ValidType t) (h : arrayP rec cs = some (t, r)) : ValidType t := by
  unfold arrayP at h
  repeat' split at h
  all_goals (try (simp at h; done))
  simp only [Option.some.injEq, Prod.mk.injEq] at h
  obtain ⟨rfl, _⟩ := h
  exact ⟨hrec _ _ _ (by assumption), arrayLenP_valid (by assumption)⟩


theorem orElse_none {α : Type} {a b : Option α} (h : (a <|> b) = none) : a = none ∧ b = none := by
  cases a <;> simp_all

theorem primKwP_kw_none {p : Prim} {cs : Str} (h : primKwP p cs = none) : kw p.kwText cs = none := by
  unfold primKwP at h
  cases hk : kw p.kwText cs <;> simp_all

theorem typeNameP_valid : ∀ (fuel : Nat) (cs : Str) (t : TypeName) (r : Str), typeNameP fuel cs = some (t, r) → ValidType t
  | 0, cs, t, r, h => by simp [typeNameP] at h
  | fuel + 1, cs, t, r, h => by
    have ih := typeNameP_valid fuel
    have g1 : ∀ {k : Str} {mk : TypeName → TypeName} (_ : ∀ t, ValidType t → ValidType (mk t)) {cs r t},
        generic1P (typeNameP fuel) k mk cs = some (t, r) → ValidType t :=
      fun hmk _ _ _ hg => generic1P_valid ih hmk hg
    unfold typeNameP at h
    have hprim : ∀ {p : Prim} {cs r t}, primKwP p cs = some (t, r) → ValidType t := by
      intro p cs r t hp
      unfold primKwP at hp
      simp only [Option.map_eq_some_iff] at hp
      obtain ⟨⟨u, r'⟩, _, he⟩ := hp
      simp only [Prod.mk.injEq] at he
      obtain ⟨rfl, _⟩ := he
      trivial
    rcases orElse_some h with h | ⟨hfirst, h⟩
    · simp only [Option.map_eq_some_iff] at h
      obtain ⟨⟨p, r'⟩, _, he⟩ := h
      simp only [Prod.mk.injEq] at he
      obtain ⟨rfl, _⟩ := he
      trivial
    rcases orElse_some h with h | ⟨_, h⟩
    · exact generic1P_valid ih (by intro t ht; exact ht) h
    rcases orElse_some h with h | ⟨_, h⟩
    · exact generic1P_valid ih (by intro t ht; exact ht) h
    rcases orElse_some h with h | ⟨_, h⟩
    · exact generic1P_valid ih (by intro t ht; exact ht) h
    rcases orElse_some h with h | ⟨hbytes, h⟩
    · exact hprim h
    rcases orElse_some h with h | ⟨_, h⟩
    · exact generic2P_valid ih (by intro a b ha hb; exact ⟨ha, hb⟩) h
    rcases orElse_some h with h | ⟨_, h⟩
    · exact generic1P_valid ih (by intro t ht; exact ht) h
    rcases orElse_some h with h | ⟨_, h⟩
    · exact generic1P_valid ih (by intro t ht; exact ht) h
    rcases orElse_some h with h | ⟨_, h⟩
    · exact generic1P_valid ih (by intro t ht; exact ht) h
    rcases orElse_some h with h | ⟨hlife, h⟩
    · exact hprim h
    rcases orElse_some h with h | ⟨hunit, h⟩
    · exact hprim h
    rcases orElse_some h with h | ⟨_, h⟩
    · exact generic2P_valid ih (by intro a b ha hb; exact ⟨ha, hb⟩) h
    rcases orElse_some h with h | ⟨_, h⟩
    · exact arrayP_valid ih h
    -- a reference: no keyword is a prefix of the input, hence none of the name
    simp only [Option.map_eq_some_iff] at h
    obtain ⟨⟨n, r'⟩, hn', he⟩ := h
    simp only [Prod.mk.injEq] at he
    obtain ⟨rfl, _⟩ := he
    obtain ⟨hv, hpre⟩ := namedRefP_valid hn'
    refine ⟨hv, ?_⟩
    have hfp : firstPrim primsA cs = none := by
      cases hf : firstPrim primsA cs <;> simp_all
    have hA := firstPrim_none_of hfp
    intro p hp hpp
    have hkw : kw p.kwText cs = none := by
      simp only [allPrims, List.mem_cons, List.not_mem_nil, or_false] at hp
      rcases hp with rfl | rfl | rfl | rfl | rfl | rfl | rfl | rfl | rfl | rfl | rfl | rfl | rfl | rfl | rfl | rfl | rfl | rfl | rfl
      all_goals first
        | exact hA _ (by decide)
        | exact primKwP_kw_none hbytes
        | exact primKwP_kw_none hlife
        | exact primKwP_kw_none hunit
    exact kw_none_not_prefix hkw (hpp.trans hpre)


/-! ### attributes and preludes -/

theorem commaIdentP_valid {cs n r : Str} (h : commaIdentP cs = some (n, r)) : ValidIdent n := by
  unfold commaIdentP at h
  split at h
  · simp at h
  · exact identP_valid h

theorem attrOptionsP_valid {fuel : Nat} {cs r : Str} {os : List Str} (h : attrOptionsP fuel cs = some (os, r)) :
    ∀ o ∈ os, ValidIdent o := by
  unfold attrOptionsP at h
  split at h
  · rename_i x hx
    simp only [Option.some.injEq] at h
    subst h
    unfold attrOptionsInnerP at hx
    split at hx
    · simp at hx
    · split at hx
      · simp at hx
      · rename_i a r2 ha
        simp only at hx
        split at hx
        · simp at hx
        · simp only [Option.some.injEq, Prod.mk.injEq] at hx
          obtain ⟨rfl, _⟩ := hx
          intro o ho
          rcases List.mem_cons.1 ho with rfl | ho
          · exact identP_valid ha
          · exact many_forall commaIdentP ValidIdent (fun _ _ _ hc => commaIdentP_valid hc) _ _ o ho
  · simp only [Option.some.injEq, Prod.mk.injEq] at h
    obtain ⟨rfl, _⟩ := h
    simp

theorem attributeP_valid {inline : Bool} {fuel : Nat} {cs r : Str} {a : Attribute} (h : attributeP inline fuel cs = some (a, r)) :
    ValidAttr a := by
  unfold attributeP at h
  cases inline
  · simp only [Option.bind_eq_bind, Option.bind_eq_some_iff, Prod.exists, Option.pure_def, Option.some.injEq, Prod.mk.injEq,
      Bool.false_eq_true, if_false] at h
    obtain ⟨_, r1, _, r2, _, _, r3, _, name, r4, hname, opts, r5, hopts, _, r6, _, rfl, _⟩ := h
    exact ⟨identP_valid hname, attrOptionsP_valid hopts⟩
  · simp only [Option.bind_eq_bind, Option.bind_eq_some_iff, Prod.exists, Option.pure_def, Option.some.injEq, Prod.mk.injEq,
      if_true, Option.map_eq_some_iff] at h
    obtain ⟨_, r1, _, r2, _, _, r3, _, name, r4, hname, opts, r5, hopts, _, r6, _, rfl, _⟩ := h
    exact ⟨identP_valid hname, attrOptionsP_valid hopts⟩

def PreItemValid : PreItem → Prop
  | .comment l => '\n' ∉ inner 2 l
  | .doc l => '\n' ∉ inner 3 l
  | .attr a => ValidAttr a

theorem preItemP_valid {c d a : Bool} {fuel : Nat} {cs r : Str} {x : PreItem} (h : preItemP c d a fuel cs = some (x, r)) :
    PreItemValid x := by
  unfold preItemP at h
  split at h
  · rename_i l r' hl
    simp only [Option.some.injEq, Prod.mk.injEq] at h
    obtain ⟨rfl, _⟩ := h
    split at hl
    · exact commentP_valid hl
    · simp at hl
  · split at h
    · rename_i l r' hl
      simp only [Option.some.injEq, Prod.mk.injEq] at h
      obtain ⟨rfl, _⟩ := h
      split at hl
      · exact docP_valid hl
      · simp at hl
    · split at h
      · simp only [Option.map_eq_some_iff] at h
        obtain ⟨⟨at', r'⟩, ha, he⟩ := h
        simp only [Prod.mk.injEq] at he
        obtain ⟨rfl, _⟩ := he
        exact attributeP_valid ha
      · simp at h

theorem inlinePreItemP_valid {fuel : Nat} {cs r : Str} {x : PreItem} (h : inlinePreItemP fuel cs = some (x, r)) :
    PreItemValid x := by
  unfold inlinePreItemP at h
  split at h
  · rename_i l r' hl
    simp only [Option.some.injEq, Prod.mk.injEq] at h
    obtain ⟨rfl, _⟩ := h
    exact docInlineP_valid hl
  · simp only [Option.map_eq_some_iff] at h
    obtain ⟨⟨at', r'⟩, ha, he⟩ := h
    simp only [Prod.mk.injEq] at he
    obtain ⟨rfl, _⟩ := he
    exact attributeP_valid ha

theorem preComments_valid {l : List PreItem} (h : ∀ x ∈ l, PreItemValid x) : ValidLines 2 (preComments l) := by
  intro c hc
  simp only [preComments, List.mem_filterMap] at hc
  obtain ⟨x, hx, he⟩ := hc
  cases x <;> simp at he
  subst he
  exact h _ hx

theorem preDocs_valid {l : List PreItem} (h : ∀ x ∈ l, PreItemValid x) : ValidLines 3 (preDocs l) := by
  intro c hc
  simp only [preDocs, List.mem_filterMap] at hc
  obtain ⟨x, hx, he⟩ := hc
  cases x <;> simp at he
  subst he
  exact h _ hx

theorem preAttrs_valid {l : List PreItem} (h : ∀ x ∈ l, PreItemValid x) : ∀ a ∈ preAttrs l, ValidAttr a := by
  intro c hc
  simp only [preAttrs, List.mem_filterMap] at hc
  obtain ⟨x, hx, he⟩ := hc
  cases x <;> simp at he
  subst he
  exact h _ hx

theorem preludeP_valid (c d a : Bool) (fuel : Nat) (cs : Str) : ∀ x ∈ (preludeP c d a fuel cs).1, PreItemValid x := by
  unfold preludeP
  exact many_forall _ PreItemValid (fun _ _ _ h => preItemP_valid h) _ _


/-! ### fields, variants, fallbacks, bodies -/

theorem nameIdP_valid {cs r name id : Str} (h : nameIdP cs = some ((name, id), r)) : ValidIdent name ∧ ValidInt id := by
  unfold nameIdP at h
  split at h
  · simp at h
  · rename_i n r1 hn
    split at h
    · simp at h
    · split at h
      · simp at h
      · rename_i i r3 hi
        simp only [Option.some.injEq, Prod.mk.injEq] at h
        obtain ⟨⟨rfl, rfl⟩, _⟩ := h
        exact ⟨identP_valid hn, litIntP_valid hi⟩

theorem eqTypeP_valid {fuel : Nat} {cs r : Str} {t : TypeName} (h : eqTypeP fuel cs = some (t, r)) : ValidType t := by
  unfold eqTypeP at h
  split at h
  · simp at h
  · exact typeNameP_valid _ _ _ _ h

theorem structFieldP_valid {fuel : Nat} {cs r : Str} {f : StructField} (h : structFieldP fuel cs = some (f, r)) : ValidField f := by
  unfold structFieldP at h
  simp only at h
  split at h
  · simp at h
  · rename_i name id r1 hni
    split at h
    · simp at h
    · rename_i ty r2 hty
      split at h
      · simp at h
      · simp only [Option.some.injEq, Prod.mk.injEq] at h
        obtain ⟨rfl, _⟩ := h
        have hp := preludeP_valid true true false fuel cs
        exact ⟨preComments_valid hp, preDocs_valid hp, (nameIdP_valid hni).1, (nameIdP_valid hni).2, eqTypeP_valid hty⟩

theorem fallbackTailP_valid {cs r name : Str} (h : fallbackTailP cs = some (name, r)) : ValidIdent name := by
  unfold fallbackTailP at h
  split at h
  · simp at h
  · rename_i n r1 hn
    repeat' split at h
    all_goals (try (simp at h; done))
    simp only [Option.some.injEq, Prod.mk.injEq] at h
    obtain ⟨rfl, _⟩ := h
    exact identP_valid hn

theorem fallbackP_valid {fuel : Nat} {cs r : Str} {f : Fallback} (h : fallbackP fuel cs = some (f, r)) : ValidFallback f := by
  unfold fallbackP at h
  simp only at h
  split at h
  · simp at h
  · rename_i name r1 hn
    simp only [Option.some.injEq, Prod.mk.injEq] at h
    obtain ⟨rfl, _⟩ := h
    have hp := preludeP_valid true true false fuel cs
    exact ⟨preComments_valid hp, preDocs_valid hp, fallbackTailP_valid hn⟩

theorem enumVariantP_valid {fuel : Nat} {cs r : Str} {v : EnumVariant} (h : enumVariantP fuel cs = some (v, r)) : ValidVariant v := by
  unfold enumVariantP at h
  simp only at h
  split at h
  · simp at h
  · rename_i name id r1 hni
    split at h
    · simp at h
    · simp only [Option.some.injEq, Prod.mk.injEq] at h
      obtain ⟨rfl, _⟩ := h
      have hp := preludeP_valid true true false fuel cs
      refine ⟨preComments_valid hp, preDocs_valid hp, (nameIdP_valid hni).1, (nameIdP_valid hni).2, ?_⟩
      intro t ht
      simp only at ht
      split at ht
      · rename_i t' r' hty
        simp only [Option.some.injEq] at ht
        subst ht
        exact eqTypeP_valid hty
      · simp at ht

theorem bodyP_valid {α : Type} {item : Nat → P α} {Q : α → Prop} (hitem : ∀ fuel cs a r, item fuel cs = some (a, r) → Q a)
    {fuel : Nat} {cs r : Str} {items : List α} {fb : Option Fallback} (h : bodyP item fuel cs = some ((items, fb), r)) :
    (∀ a ∈ items, Q a) ∧ (∀ f, fb = some f → ValidFallback f) := by
  unfold bodyP at h
  simp only at h
  split at h
  · simp at h
  · simp only [Option.some.injEq, Prod.mk.injEq] at h
    obtain ⟨⟨rfl, rfl⟩, _⟩ := h
    refine ⟨many_forall _ Q (fun _ _ _ hh => hitem _ _ _ _ hh) _ _, ?_⟩
    intro f hf
    split at hf
    · rename_i f' r' hfb
      simp only [Option.some.injEq] at hf
      subst hf
      exact fallbackP_valid hfb
    · simp at hf

theorem inlineOpenP_valid {k : Str} {fuel : Nat} {cs r : Str} {pre : List PreItem} (h : inlineOpenP k fuel cs = some (pre, r)) :
    ∀ x ∈ pre, PreItemValid x := by
  unfold inlineOpenP at h
  split at h
  · simp at h
  · split at h
    · simp at h
    · simp only [Option.some.injEq, Prod.mk.injEq] at h
      obtain ⟨rfl, _⟩ := h
      exact many_forall _ PreItemValid (fun _ _ _ hh => inlinePreItemP_valid hh) _ _

theorem inlineStructP_valid {fuel : Nat} {cs r : Str} {s : InlineStruct} (h : inlineStructP fuel cs = some (s, r)) :
    ValidInlineStruct s := by
  unfold inlineStructP at h
  split at h
  · simp at h
  · rename_i pre r1 hpre
    split at h
    · simp at h
    · rename_i fields fb r2 hb
      simp only [Option.some.injEq, Prod.mk.injEq] at h
      obtain ⟨rfl, _⟩ := h
      have hp := inlineOpenP_valid hpre
      obtain ⟨hf, hfb⟩ := bodyP_valid (Q := ValidField) (fun _ _ _ _ hh => structFieldP_valid hh) hb
      exact ⟨preDocs_valid hp, preAttrs_valid hp, hf, hfb⟩

theorem inlineEnumP_valid {fuel : Nat} {cs r : Str} {s : InlineEnum} (h : inlineEnumP fuel cs = some (s, r)) :
    ValidInlineEnum s := by
  unfold inlineEnumP at h
  split at h
  · simp at h
  · rename_i pre r1 hpre
    split at h
    · simp at h
    · rename_i vars fb r2 hb
      simp only [Option.some.injEq, Prod.mk.injEq] at h
      obtain ⟨rfl, _⟩ := h
      have hp := inlineOpenP_valid hpre
      obtain ⟨hf, hfb⟩ := bodyP_valid (Q := ValidVariant) (fun _ _ _ _ hh => enumVariantP_valid hh) hb
      exact ⟨preDocs_valid hp, preAttrs_valid hp, hf, hfb⟩

theorem typeTermP_valid {fuel : Nat} {cs r : Str} {t : TypeName} (h : typeTermP fuel cs = some (t, r)) : ValidType t := by
  unfold typeTermP at h
  split at h
  · simp at h
  · rename_i t' r1 ht
    split at h
    · simp at h
    · simp only [Option.some.injEq, Prod.mk.injEq] at h
      obtain ⟨rfl, _⟩ := h
      exact typeNameP_valid _ _ _ _ ht

theorem typeOrInlineP_valid {fuel : Nat} {cs r : Str} {t : TypeOrInline} (h : typeOrInlineP fuel cs = some (t, r)) : ValidInline t := by
  unfold typeOrInlineP at h
  split at h
  · rename_i t' r1 ht
    simp only [Option.some.injEq, Prod.mk.injEq] at h
    obtain ⟨rfl, _⟩ := h
    exact typeTermP_valid ht
  · split at h
    · rename_i s r1 hs
      simp only [Option.some.injEq, Prod.mk.injEq] at h
      obtain ⟨rfl, _⟩ := h
      exact inlineStructP_valid hs
    · simp only [Option.map_eq_some_iff] at h
      obtain ⟨⟨e, r'⟩, he, heq⟩ := h
      simp only [Prod.mk.injEq] at heq
      obtain ⟨rfl, _⟩ := heq
      exact inlineEnumP_valid he


/-! ### definitions -/

theorem headerP_valid {k : Str} {cs r name : Str} (h : headerP k cs = some (name, r)) : ValidIdent name := by
  unfold headerP at h
  split at h
  · simp at h
  · exact identP_valid h

theorem defOpenP_valid {k : Str} {cs r name : Str} (h : defOpenP k cs = some (name, r)) : ValidIdent name := by
  unfold defOpenP at h
  split at h
  · simp at h
  · rename_i n r1 hn
    split at h
    · simp at h
    · simp only [Option.some.injEq, Prod.mk.injEq] at h
      obtain ⟨rfl, _⟩ := h
      exact headerP_valid hn

theorem structDefP_valid {fuel : Nat} {cs r : Str} {d : StructDef} (h : structDefP fuel cs = some (d, r)) : ValidStruct d := by
  unfold structDefP at h
  simp only at h
  split at h
  · simp at h
  · rename_i name r1 hn
    split at h
    · simp at h
    · rename_i fields fb r2 hb
      simp only [Option.some.injEq, Prod.mk.injEq] at h
      obtain ⟨rfl, _⟩ := h
      have hp := preludeP_valid true true true fuel cs
      obtain ⟨hf, hfb⟩ := bodyP_valid (Q := ValidField) (fun _ _ _ _ hh => structFieldP_valid hh) hb
      exact ⟨preComments_valid hp, preDocs_valid hp, preAttrs_valid hp, defOpenP_valid hn, hf, hfb⟩

theorem enumDefP_valid {fuel : Nat} {cs r : Str} {d : EnumDef} (h : enumDefP fuel cs = some (d, r)) : ValidEnum d := by
  unfold enumDefP at h
  simp only at h
  split at h
  · simp at h
  · rename_i name r1 hn
    split at h
    · simp at h
    · rename_i vars fb r2 hb
      simp only [Option.some.injEq, Prod.mk.injEq] at h
      obtain ⟨rfl, _⟩ := h
      have hp := preludeP_valid true true true fuel cs
      obtain ⟨hf, hfb⟩ := bodyP_valid (Q := ValidVariant) (fun _ _ _ _ hh => enumVariantP_valid hh) hb
      exact ⟨preComments_valid hp, preDocs_valid hp, preAttrs_valid hp, defOpenP_valid hn, hf, hfb⟩

/-! ### services -/

theorem kwEqInlineP_valid {k : Str} {fuel : Nat} {cs r : Str} {t : TypeOrInline} (h : kwEqInlineP k fuel cs = some (t, r)) :
    ValidInline t := by
  unfold kwEqInlineP at h
  split at h
  · simp at h
  · split at h
    · simp at h
    · exact typeOrInlineP_valid h

theorem fnPartP_valid {k : Str} {fuel : Nat} {cs r : Str} {p : FnPart} (h : fnPartP k fuel cs = some (p, r)) : ValidPart p := by
  unfold fnPartP at h
  simp only at h
  split at h
  · simp at h
  · rename_i t r1 ht
    simp only [Option.some.injEq, Prod.mk.injEq] at h
    obtain ⟨rfl, _⟩ := h
    exact ⟨preComments_valid (preludeP_valid true false false fuel cs), kwEqInlineP_valid ht⟩

theorem optP_valid {α : Type} {p : P α} {Q : α → Prop} (hp : ∀ cs a r, p cs = some (a, r) → Q a) (cs : Str) :
    ∀ a, (optP p cs).1 = some a → Q a := by
  intro a ha
  unfold optP at ha
  split at ha
  · rename_i a' r' hpa
    simp only [Option.some.injEq] at ha
    subst ha
    exact hp _ _ _ hpa
  · simp at ha

theorem eqInlineP_valid {fuel : Nat} {cs r : Str} {t : TypeOrInline} (h : eqInlineP fuel cs = some (t, r)) : ValidInline t := by
  unfold eqInlineP at h
  split at h
  · simp at h
  · exact typeOrInlineP_valid h

theorem fnBodyP_valid {fuel : Nat} {cs r : Str} {a o e : Option FnPart} (h : fnBodyP fuel cs = some ((a, o, e), r)) :
    (∀ p, a = some p → ValidPart p) ∧ (∀ p, o = some p → ValidPart p) ∧ (∀ p, e = some p → ValidPart p) := by
  unfold fnBodyP at h
  split at h
  · rename_i x hx
    simp only [Option.some.injEq] at h
    subst h
    unfold fnBodyFullP at hx
    split at hx
    · simp at hx
    · simp only at hx
      split at hx
      · simp at hx
      · simp only [Option.some.injEq, Prod.mk.injEq] at hx
        obtain ⟨⟨rfl, rfl, rfl⟩, _⟩ := hx
        exact ⟨optP_valid (fun _ _ _ hh => fnPartP_valid hh) _, optP_valid (fun _ _ _ hh => fnPartP_valid hh) _,
          optP_valid (fun _ _ _ hh => fnPartP_valid hh) _⟩
  · split at h
    · rename_i t r1 ht
      simp only [Option.some.injEq, Prod.mk.injEq] at h
      obtain ⟨⟨rfl, rfl, rfl⟩, _⟩ := h
      refine ⟨by simp, ?_, by simp⟩
      intro p hp
      simp only [Option.some.injEq] at hp
      subst hp
      exact ⟨by intro l hl; simp at hl, eqInlineP_valid ht⟩
    · simp only [Option.map_eq_some_iff] at h
      obtain ⟨⟨u, r'⟩, _, heq⟩ := h
      simp only [Prod.mk.injEq] at heq
      obtain ⟨⟨rfl, rfl, rfl⟩, _⟩ := heq
      simp

theorem itemHeadP_valid {k : Str} {cs r name id : Str} (h : itemHeadP k cs = some ((name, id), r)) : ValidIdent name ∧ ValidInt id := by
  unfold itemHeadP at h
  split at h
  · simp at h
  · split at h
    · simp at h
    · rename_i x r1 hx
      simp only [Option.some.injEq, Prod.mk.injEq] at h
      obtain ⟨rfl, _⟩ := h
      exact nameIdP_valid hx

theorem fnDefP_valid {fuel : Nat} {cs r : Str} {f : FnDef} (h : fnDefP fuel cs = some (f, r)) : ValidFn f := by
  unfold fnDefP at h
  simp only at h
  split at h
  · simp at h
  · rename_i name id r1 hh
    split at h
    · simp at h
    · rename_i a o e r2 hb
      simp only [Option.some.injEq, Prod.mk.injEq] at h
      obtain ⟨rfl, _⟩ := h
      have hp := preludeP_valid true true false fuel cs
      obtain ⟨ha, ho, he⟩ := fnBodyP_valid hb
      exact ⟨preComments_valid hp, preDocs_valid hp, (itemHeadP_valid hh).1, (itemHeadP_valid hh).2, ha, ho, he⟩

theorem eventDefP_valid {fuel : Nat} {cs r : Str} {e : EventDef} (h : eventDefP fuel cs = some (e, r)) : ValidEvent e := by
  unfold eventDefP at h
  simp only at h
  split at h
  · simp at h
  · rename_i name id r1 hh
    split at h
    · simp at h
    · rename_i ty r2 hb
      simp only [Option.some.injEq, Prod.mk.injEq] at h
      obtain ⟨rfl, _⟩ := h
      have hp := preludeP_valid true true false fuel cs
      refine ⟨preComments_valid hp, preDocs_valid hp, (itemHeadP_valid hh).1, (itemHeadP_valid hh).2, ?_⟩
      intro t ht
      simp only at ht
      subst ht
      unfold eventBodyP at hb
      split at hb
      · rename_i t' r' ht'
        simp only [Option.some.injEq, Prod.mk.injEq] at hb
        obtain ⟨rfl, _⟩ := hb
        exact eqInlineP_valid ht'
      · simp only [Option.map_eq_some_iff] at hb
        obtain ⟨⟨u, r'⟩, _, heq⟩ := hb
        simp at heq

theorem serviceItemP_valid {fuel : Nat} {cs r : Str} {i : ServiceItem} (h : serviceItemP fuel cs = some (i, r)) : ValidItem i := by
  unfold serviceItemP at h
  split at h
  · rename_i f r1 hf
    simp only [Option.some.injEq, Prod.mk.injEq] at h
    obtain ⟨rfl, _⟩ := h
    exact fnDefP_valid hf
  · simp only [Option.map_eq_some_iff] at h
    obtain ⟨⟨e, r'⟩, he, heq⟩ := h
    simp only [Prod.mk.injEq] at heq
    obtain ⟨rfl, _⟩ := heq
    exact eventDefP_valid he

theorem itemFallbackP_valid {k : Str} {fuel : Nat} {cs r : Str} {f : Fallback} (h : itemFallbackP k fuel cs = some (f, r)) :
    ValidFallback f := by
  unfold itemFallbackP at h
  simp only at h
  split at h
  · simp at h
  · split at h
    · simp at h
    · rename_i name r2 hn
      simp only [Option.some.injEq, Prod.mk.injEq] at h
      obtain ⟨rfl, _⟩ := h
      have hp := preludeP_valid true true false fuel cs
      exact ⟨preComments_valid hp, preDocs_valid hp, fallbackTailP_valid hn⟩

theorem serviceFallbackOptP_valid (fuel : Nat) (cs : Str) :
    (∀ f, (serviceFallbackOptP fuel cs).1.1 = some f → ValidFallback f) ∧
    (∀ f, (serviceFallbackOptP fuel cs).1.2 = some f → ValidFallback f) := by
  unfold serviceFallbackOptP
  split
  · rename_i x r hx
    unfold serviceFallbackP at hx
    split at hx
    · rename_i f r1 hf
      simp only [Option.some.injEq, Prod.mk.injEq] at hx
      obtain ⟨rfl, _⟩ := hx
      refine ⟨?_, optP_valid (fun _ _ _ hh => itemFallbackP_valid hh) _⟩
      intro g hg
      simp only [Option.some.injEq] at hg
      subst hg
      exact itemFallbackP_valid hf
    · split at hx
      · rename_i e r1 he
        simp only [Option.some.injEq, Prod.mk.injEq] at hx
        obtain ⟨rfl, _⟩ := hx
        refine ⟨optP_valid (fun _ _ _ hh => itemFallbackP_valid hh) _, ?_⟩
        intro g hg
        simp only [Option.some.injEq] at hg
        subst hg
        exact itemFallbackP_valid he
      · simp at hx
  · simp

theorem kwEqLitP_valid {k : Str} {lit : P Str} {Q : Str → Prop} (hlit : ∀ cs v r, lit cs = some (v, r) → Q v)
    {fuel : Nat} {cs r : Str} {c : List Line} {v : Str} (h : kwEqLitP k lit fuel cs = some ((c, v), r)) :
    ValidLines 2 c ∧ Q v := by
  unfold kwEqLitP at h
  simp only at h
  repeat' split at h
  all_goals (try (simp at h; done))
  simp only [Option.some.injEq, Prod.mk.injEq] at h
  obtain ⟨⟨rfl, rfl⟩, _⟩ := h
  exact ⟨preComments_valid (preludeP_valid true false false fuel cs), hlit _ _ _ (by assumption)⟩

theorem serviceDefP_valid {fuel : Nat} {cs r : Str} {d : ServiceDef} (h : serviceDefP fuel cs = some (d, r)) : ValidService d := by
  unfold serviceDefP at h
  simp only at h
  split at h
  · simp at h
  · rename_i name r1 hn
    split at h
    · simp at h
    · rename_i uc uuid r2 hu
      split at h
      · simp at h
      · rename_i vc ver r3 hv
        split at h
        · simp at h
        · rename_i items ff ef r4 hb
          simp only [Option.some.injEq, Prod.mk.injEq] at h
          obtain ⟨rfl, _⟩ := h
          have hp := preludeP_valid true true false fuel cs
          obtain ⟨huc, huu⟩ := kwEqLitP_valid (Q := ValidUuid) (fun _ _ _ hh => litUuidP_valid hh) hu
          obtain ⟨hvc, hvv⟩ := kwEqLitP_valid (Q := ValidInt) (fun _ _ _ hh => litIntP_valid hh) hv
          unfold serviceBodyP at hb
          simp only at hb
          split at hb
          · simp at hb
          · simp only [Option.some.injEq, Prod.mk.injEq] at hb
            obtain ⟨⟨rfl, rfl, rfl⟩, _⟩ := hb
            obtain ⟨hff, hef⟩ := serviceFallbackOptP_valid fuel (skipWs (many (serviceItemP fuel) fuel r3).2)
            exact ⟨preComments_valid hp, preDocs_valid hp, defOpenP_valid hn, huc, huu, hvc, hvv,
              many_forall _ ValidItem (fun _ _ _ hh => serviceItemP_valid hh) _ _, hff, hef⟩


/-! ### consts, newtypes, imports, the file -/

theorem parenP_valid {lit : P Str} {Q : Str → Prop} (hlit : ∀ cs v r, lit cs = some (v, r) → Q v) {cs r v : Str}
    (h : parenP lit cs = some (v, r)) : Q v := by
  unfold parenP at h
  repeat' split at h
  all_goals (try (simp at h; done))
  simp only [Option.some.injEq, Prod.mk.injEq] at h
  obtain ⟨rfl, _⟩ := h
  exact hlit _ _ _ (by assumption)

theorem firstPrim_mem {ps : List Prim} {cs r : Str} {p : Prim} (h : firstPrim ps cs = some (p, r)) : p ∈ ps := by
  induction ps with
  | nil => simp [firstPrim] at h
  | cons q ps ih =>
    unfold firstPrim at h
    split at h
    · simp only [Option.some.injEq, Prod.mk.injEq] at h
      obtain ⟨rfl, _⟩ := h
      simp
    · exact List.mem_cons_of_mem _ (ih h)

theorem constValueP_valid {cs r v : Str} {k : Prim} (h : constValueP cs = some ((k, v), r)) :
    (k ∈ constKinds ∧ ValidInt v) ∨ (k = .string ∧ ValidLitString v) ∨ (k = .uuid ∧ ValidUuid v) := by
  unfold constValueP at h
  split at h
  · rename_i x hx
    simp only [Option.some.injEq] at h
    subst h
    unfold constIntP at hx
    split at hx
    · simp at hx
    · rename_i k' r1 hk
      split at hx
      · simp at hx
      · rename_i v' r2 hv
        simp only [Option.some.injEq, Prod.mk.injEq] at hx
        obtain ⟨⟨rfl, rfl⟩, _⟩ := hx
        exact Or.inl ⟨firstPrim_mem hk, parenP_valid (Q := ValidInt) (fun _ _ _ hh => litIntP_valid hh) hv⟩
  · split at h
    · rename_i x hx
      simp only [Option.some.injEq] at h
      subst h
      unfold constKwP at hx
      split at hx
      · simp at hx
      · split at hx
        · simp at hx
        · rename_i v' r2 hv
          simp only [Option.some.injEq, Prod.mk.injEq] at hx
          obtain ⟨⟨rfl, rfl⟩, _⟩ := hx
          exact Or.inr (Or.inl ⟨rfl, parenP_valid (Q := ValidLitString) (fun _ _ _ hh => litStringP_valid hh) hv⟩)
    · unfold constKwP at h
      split at h
      · simp at h
      · split at h
        · simp at h
        · rename_i v' r2 hv
          simp only [Option.some.injEq, Prod.mk.injEq] at h
          obtain ⟨⟨rfl, rfl⟩, _⟩ := h
          exact Or.inr (Or.inr ⟨rfl, parenP_valid (Q := ValidUuid) (fun _ _ _ hh => litUuidP_valid hh) hv⟩)

theorem nameEqP_valid {k : Str} {cs r name : Str} (h : nameEqP k cs = some (name, r)) : ValidIdent name := by
  unfold nameEqP at h
  split at h
  · simp at h
  · rename_i n r1 hn
    split at h
    · simp at h
    · simp only [Option.some.injEq, Prod.mk.injEq] at h
      obtain ⟨rfl, _⟩ := h
      exact headerP_valid hn

theorem constDefP_valid {fuel : Nat} {cs r : Str} {d : ConstDef} (h : constDefP fuel cs = some (d, r)) : ValidConst d := by
  unfold constDefP at h
  simp only at h
  split at h
  · simp at h
  · rename_i name r1 hn
    split at h
    · simp at h
    · rename_i k v r2 hv
      split at h
      · simp at h
      · simp only [Option.some.injEq, Prod.mk.injEq] at h
        obtain ⟨rfl, _⟩ := h
        have hp := preludeP_valid true true false fuel cs
        exact ⟨preComments_valid hp, preDocs_valid hp, nameEqP_valid hn, constValueP_valid hv⟩

theorem newtypeDefP_valid {fuel : Nat} {cs r : Str} {d : NewtypeDef} (h : newtypeDefP fuel cs = some (d, r)) : ValidNewtype d := by
  unfold newtypeDefP at h
  simp only at h
  split at h
  · simp at h
  · rename_i name r1 hn
    split at h
    · simp at h
    · rename_i t r2 ht
      simp only [Option.some.injEq, Prod.mk.injEq] at h
      obtain ⟨rfl, _⟩ := h
      have hp := preludeP_valid true true true fuel cs
      exact ⟨preComments_valid hp, preDocs_valid hp, preAttrs_valid hp, nameEqP_valid hn, typeTermP_valid ht⟩

theorem defP_valid {fuel : Nat} {cs r : Str} {d : Definition} (h : defP fuel cs = some (d, r)) : ValidDef d := by
  unfold defP at h
  split at h
  · rename_i x r1 hx
    simp only [Option.some.injEq, Prod.mk.injEq] at h
    obtain ⟨rfl, _⟩ := h
    exact structDefP_valid hx
  · split at h
    · rename_i x r1 hx
      simp only [Option.some.injEq, Prod.mk.injEq] at h
      obtain ⟨rfl, _⟩ := h
      exact enumDefP_valid hx
    · split at h
      · rename_i x r1 hx
        simp only [Option.some.injEq, Prod.mk.injEq] at h
        obtain ⟨rfl, _⟩ := h
        exact serviceDefP_valid hx
      · split at h
        · rename_i x r1 hx
          simp only [Option.some.injEq, Prod.mk.injEq] at h
          obtain ⟨rfl, _⟩ := h
          exact constDefP_valid hx
        · simp only [Option.map_eq_some_iff] at h
          obtain ⟨⟨x, r'⟩, hx, heq⟩ := h
          simp only [Prod.mk.injEq] at heq
          obtain ⟨rfl, _⟩ := heq
          exact newtypeDefP_valid hx

theorem importP_valid {fuel : Nat} {cs r : Str} {i : Import} (h : importP fuel cs = some (i, r)) : ValidImport i := by
  unfold importP at h
  simp only at h
  split at h
  · simp at h
  · rename_i name r1 hn
    split at h
    · simp at h
    · simp only [Option.some.injEq, Prod.mk.injEq] at h
      obtain ⟨rfl, _⟩ := h
      exact ⟨preComments_valid (preludeP_valid true false false fuel cs), headerP_valid hn⟩

theorem fileGroupP_valid {fuel : Nat} {cs r : Str} {g : List Line × Line} (h : fileGroupP fuel cs = some (g, r)) :
    ValidLines 2 g.1 ∧ '\n' ∉ inner 3 g.2 := by
  unfold fileGroupP at h
  split at h
  · simp at h
  · rename_i d r1 hd
    simp only [Option.some.injEq, Prod.mk.injEq] at h
    obtain ⟨rfl, _⟩ := h
    exact ⟨many_forall commentP (fun l => '\n' ∉ inner 2 l) (fun _ _ _ hh => commentP_valid hh) _ _, docInlineP_valid hd⟩

/-- Everything the grammar accepts is well formed in the sense of the round-trip theorem. -/
theorem fileP_valid {fuel : Nat} {cs : Str} {s : Schema} (h : fileP fuel cs = some s) : ValidSchema s := by
  unfold fileP at h
  simp only at h
  split at h
  · simp only [Option.some.injEq] at h
    subst h
    have hg := many_forall (fileGroupP fuel) (fun g => ValidLines 2 g.1 ∧ '\n' ∉ inner 3 g.2)
      (fun _ _ _ hh => fileGroupP_valid hh) fuel (skipWs cs)
    refine ⟨?_, ?_, ?_, ?_, ?_⟩
    · intro l hl
      simp only [List.mem_flatten, List.mem_map] at hl
      obtain ⟨ls, ⟨g, hgm, rfl⟩, hl⟩ := hl
      exact (hg g hgm).1 l hl
    · intro l hl
      simp only [List.mem_map] at hl
      obtain ⟨g, hgm, rfl⟩ := hl
      exact (hg g hgm).2
    · intro hd
      simp only [List.map_eq_nil_iff] at hd
      simp [hd]
    · exact many_forall _ ValidImport (fun _ _ _ hh => importP_valid hh) _ _
    · exact many_forall _ ValidDef (fun _ _ _ hh => defP_valid hh) _ _
  · simp at h

theorem parseSchema_valid {src : Str} {s : Schema} (h : parseSchema src = some s) : ValidSchema s := fileP_valid h

end Aldrin.Schema
