/-
The executable well-formedness check implies the propositional one used by the round-trip theorems.
-/
import Aldrin.Model.Schema.Valid
import Aldrin.Lemmas.Schema.Schema

namespace Aldrin.Schema

theorem validIdentB_sound {n : Str} (h : validIdentB n = true) : ValidIdent n := by
  cases n with
  | nil => simp [validIdentB] at h
  | cons c r =>
    simp only [validIdentB, Bool.and_eq_true, List.all_eq_true] at h
    exact ⟨c, r, rfl, h.1, h.2⟩

theorem digitsB_sound {ds : Str} (h : digitsB ds = true) : ds ≠ [] ∧ ∀ d ∈ ds, d.isDigit = true := by
  simp only [digitsB, Bool.and_eq_true, Bool.not_eq_true', List.isEmpty_eq_false_iff, List.all_eq_true] at h
  exact ⟨h.1, h.2⟩

theorem validIntB_sound {v : Str} (h : validIntB v = true) : ValidInt v := by
  unfold validIntB at h
  split at h
  · rename_i ds
    obtain ⟨h1, h2⟩ := digitsB_sound h
    exact ⟨ds, h1, h2, Or.inr rfl⟩
  · obtain ⟨h1, h2⟩ := digitsB_sound h
    exact ⟨v, h1, h2, Or.inl rfl⟩

theorem hexRunB_sound {n : Nat} {s : Str} (h : hexRunB n s = true) : s.length = n ∧ ∀ c ∈ s, isHex c = true := by
  simp only [hexRunB, Bool.and_eq_true, beq_iff_eq, List.all_eq_true] at h
  exact h

theorem validUuidB_sound {u : Str} (h : validUuidB u = true) : ValidUuid u := by
  unfold validUuidB at h
  simp only [Bool.and_eq_true] at h
  obtain ⟨ha, h⟩ := h
  split at h
  · rename_i r1 h1
    simp only [Bool.and_eq_true] at h
    obtain ⟨hb, h⟩ := h
    split at h
    · rename_i r2 h2
      simp only [Bool.and_eq_true] at h
      obtain ⟨hc, h⟩ := h
      split at h
      · rename_i r3 h3
        simp only [Bool.and_eq_true] at h
        obtain ⟨hd, h⟩ := h
        split at h
        · rename_i r4 h4
          obtain ⟨la, xa⟩ := hexRunB_sound ha
          obtain ⟨lb, xb⟩ := hexRunB_sound hb
          obtain ⟨lc, xc⟩ := hexRunB_sound hc
          obtain ⟨ld, xd⟩ := hexRunB_sound hd
          obtain ⟨le, xe⟩ := hexRunB_sound h
          refine ⟨u.take 8, r1.take 4, r2.take 4, r3.take 4, r4, ?_, la, lb, lc, ld, le, ?_⟩
          · have e0 := (List.take_append_drop 8 u).symm
            have e1 := (List.take_append_drop 4 r1).symm
            have e2 := (List.take_append_drop 4 r2).symm
            have e3 := (List.take_append_drop 4 r3).symm
            rw [h1] at e0; rw [h2] at e1; rw [h3] at e2; rw [h4] at e3
            conv => lhs; rw [e0, e1, e2, e3]
            simp
          · intro x hx
            simp only [List.mem_append] at hx
            rcases hx with (((hx | hx) | hx) | hx) | hx
            · exact xa x hx
            · exact xb x hx
            · exact xc x hx
            · exact xd x hx
            · exact xe x hx
        · simp at h
      · simp at h
    · simp at h
  · simp at h

theorem validLitStringB_sound {v : Str} (h : validLitStringB v = true) : ValidLitString v := by
  unfold validLitStringB at h
  split at h
  · rename_i body
    exact ⟨body, rfl, litStringTail_valid _ _ _ _ (by simpa using h)⟩
  · simp at h

theorem validLinesB_sound {k : Nat} {ls : List Line} (h : validLinesB k ls = true) : ValidLines k ls := by
  intro l hl
  simp only [validLinesB, List.all_eq_true, Bool.not_eq_true'] at h
  have := h l hl
  simpa using this

theorem notKwPrefixedB_sound {n : Str} (h : notKwPrefixedB n = true) : NotKwPrefixed n := by
  intro p hp
  simp only [notKwPrefixedB, List.all_eq_true, Bool.not_eq_true'] at h
  have := h p (by simpa [allPrimsB, allPrims] using hp)
  intro hpre
  rw [List.isPrefixOf_iff_prefix.2 hpre] at this
  cases this

theorem validRefB_sound {r : NamedRef} (h : validRefB r = true) : ValidRef r := by
  cases r with
  | intern n => exact validIdentB_sound h
  | extern s n =>
    simp only [validRefB, Bool.and_eq_true] at h
    exact ⟨validIdentB_sound h.1, validIdentB_sound h.2⟩

theorem validLenB_sound {l : ArrayLen} (h : validLenB l = true) : ValidLen l := by
  cases l with
  | lit v => exact validIntB_sound h
  | ref r => exact validRefB_sound h

theorem refHead_eq (r : NamedRef) : refHead r = r.head := by cases r <;> rfl

theorem validTypeB_sound : ∀ {t : TypeName}, validTypeB t = true → ValidType t
  | .prim _, _ => trivial
  | .option t, h => validTypeB_sound (t := t) h
  | .box t, h => validTypeB_sound (t := t) h
  | .vec t, h => validTypeB_sound (t := t) h
  | .set t, h => validTypeB_sound (t := t) h
  | .sender t, h => validTypeB_sound (t := t) h
  | .receiver t, h => validTypeB_sound (t := t) h
  | .map k v, h => by
    simp only [validTypeB, Bool.and_eq_true] at h
    exact ⟨validTypeB_sound h.1, validTypeB_sound h.2⟩
  | .result a b, h => by
    simp only [validTypeB, Bool.and_eq_true] at h
    exact ⟨validTypeB_sound h.1, validTypeB_sound h.2⟩
  | .array t l, h => by
    simp only [validTypeB, Bool.and_eq_true] at h
    exact ⟨validTypeB_sound h.1, validLenB_sound h.2⟩
  | .ref r, h => by
    simp only [validTypeB, Bool.and_eq_true] at h
    exact ⟨validRefB_sound h.1, by rw [← refHead_eq]; exact notKwPrefixedB_sound h.2⟩

theorem validAttrB_sound {a : Attribute} (h : validAttrB a = true) : ValidAttr a := by
  simp only [validAttrB, Bool.and_eq_true, List.all_eq_true] at h
  exact ⟨validIdentB_sound h.1, fun o ho => validIdentB_sound (h.2 o ho)⟩

theorem validFieldB_sound {f : StructField} (h : validFieldB f = true) : ValidField f := by
  simp only [validFieldB, Bool.and_eq_true] at h
  obtain ⟨⟨⟨⟨h1, h2⟩, h3⟩, h4⟩, h5⟩ := h
  exact ⟨validLinesB_sound h1, validLinesB_sound h2, validIdentB_sound h3, validIntB_sound h4, validTypeB_sound h5⟩

theorem validVariantB_sound {v : EnumVariant} (h : validVariantB v = true) : ValidVariant v := by
  simp only [validVariantB, Bool.and_eq_true] at h
  obtain ⟨⟨⟨⟨h1, h2⟩, h3⟩, h4⟩, h5⟩ := h
  refine ⟨validLinesB_sound h1, validLinesB_sound h2, validIdentB_sound h3, validIntB_sound h4, ?_⟩
  intro t ht
  rw [ht] at h5
  exact validTypeB_sound h5

theorem validFallbackB_sound {fb : Fallback} (h : validFallbackB fb = true) : ValidFallback fb := by
  simp only [validFallbackB, Bool.and_eq_true] at h
  exact ⟨validLinesB_sound h.1.1, validLinesB_sound h.1.2, validIdentB_sound h.2⟩

theorem validOptFallbackB_sound {o : Option Fallback} (h : validOptFallbackB o = true) : ∀ fb, o = some fb → ValidFallback fb := by
  intro fb hfb; subst hfb; exact validFallbackB_sound h

theorem validInlineB_sound {t : TypeOrInline} (h : validInlineB t = true) : ValidInline t := by
  cases t with
  | ty t => exact validTypeB_sound h
  | struct s =>
    simp only [validInlineB, Bool.and_eq_true, List.all_eq_true] at h
    obtain ⟨⟨⟨h1, h2⟩, h3⟩, h4⟩ := h
    exact ⟨validLinesB_sound h1, fun a ha => validAttrB_sound (h2 a ha), fun f hf => validFieldB_sound (h3 f hf),
      validOptFallbackB_sound h4⟩
  | enum e =>
    simp only [validInlineB, Bool.and_eq_true, List.all_eq_true] at h
    obtain ⟨⟨⟨h1, h2⟩, h3⟩, h4⟩ := h
    exact ⟨validLinesB_sound h1, fun a ha => validAttrB_sound (h2 a ha), fun f hf => validVariantB_sound (h3 f hf),
      validOptFallbackB_sound h4⟩

theorem validOptPartB_sound {o : Option FnPart} (h : validOptPartB o = true) : ∀ p, o = some p → ValidPart p := by
  intro p hp; subst hp
  simp only [validOptPartB, validPartB, Bool.and_eq_true] at h
  exact ⟨validLinesB_sound h.1, validInlineB_sound h.2⟩

theorem validItemB_sound {i : ServiceItem} (h : validItemB i = true) : ValidItem i := by
  cases i with
  | fn f =>
    simp only [validItemB, Bool.and_eq_true] at h
    obtain ⟨⟨⟨⟨⟨⟨h1, h2⟩, h3⟩, h4⟩, h5⟩, h6⟩, h7⟩ := h
    exact ⟨validLinesB_sound h1, validLinesB_sound h2, validIdentB_sound h3, validIntB_sound h4,
      validOptPartB_sound h5, validOptPartB_sound h6, validOptPartB_sound h7⟩
  | event e =>
    simp only [validItemB, Bool.and_eq_true] at h
    obtain ⟨⟨⟨⟨h1, h2⟩, h3⟩, h4⟩, h5⟩ := h
    refine ⟨validLinesB_sound h1, validLinesB_sound h2, validIdentB_sound h3, validIntB_sound h4, ?_⟩
    intro t ht; rw [ht] at h5; exact validInlineB_sound h5

theorem validDefB_sound {d : Definition} (h : validDefB d = true) : ValidDef d := by
  cases d with
  | struct d =>
    simp only [validDefB, Bool.and_eq_true, List.all_eq_true] at h
    obtain ⟨⟨⟨⟨⟨h1, h2⟩, h3⟩, h4⟩, h5⟩, h6⟩ := h
    exact ⟨validLinesB_sound h1, validLinesB_sound h2, fun a ha => validAttrB_sound (h3 a ha), validIdentB_sound h4,
      fun f hf => validFieldB_sound (h5 f hf), validOptFallbackB_sound h6⟩
  | enum d =>
    simp only [validDefB, Bool.and_eq_true, List.all_eq_true] at h
    obtain ⟨⟨⟨⟨⟨h1, h2⟩, h3⟩, h4⟩, h5⟩, h6⟩ := h
    exact ⟨validLinesB_sound h1, validLinesB_sound h2, fun a ha => validAttrB_sound (h3 a ha), validIdentB_sound h4,
      fun f hf => validVariantB_sound (h5 f hf), validOptFallbackB_sound h6⟩
  | service d =>
    simp only [validDefB, Bool.and_eq_true, List.all_eq_true] at h
    obtain ⟨⟨⟨⟨⟨⟨⟨⟨⟨h1, h2⟩, h3⟩, h4⟩, h5⟩, h6⟩, h7⟩, h8⟩, h9⟩, h10⟩ := h
    exact ⟨validLinesB_sound h1, validLinesB_sound h2, validIdentB_sound h3, validLinesB_sound h4, validUuidB_sound h5,
      validLinesB_sound h6, validIntB_sound h7, fun i hi => validItemB_sound (h8 i hi), validOptFallbackB_sound h9,
      validOptFallbackB_sound h10⟩
  | const d =>
    simp only [validDefB, Bool.and_eq_true, Bool.or_eq_true, beq_iff_eq] at h
    obtain ⟨⟨⟨h1, h2⟩, h3⟩, h4⟩ := h
    refine ⟨validLinesB_sound h1, validLinesB_sound h2, validIdentB_sound h3, ?_⟩
    rcases h4 with (⟨hk, hv⟩ | ⟨hk, hv⟩) | ⟨hk, hv⟩
    · exact Or.inl ⟨by simpa [constKindsB, constKinds] using hk, validIntB_sound hv⟩
    · exact Or.inr (Or.inl ⟨hk, validLitStringB_sound hv⟩)
    · exact Or.inr (Or.inr ⟨hk, validUuidB_sound hv⟩)
  | newtype d =>
    simp only [validDefB, Bool.and_eq_true, List.all_eq_true] at h
    obtain ⟨⟨⟨⟨h1, h2⟩, h3⟩, h4⟩, h5⟩ := h
    exact ⟨validLinesB_sound h1, validLinesB_sound h2, fun a ha => validAttrB_sound (h3 a ha), validIdentB_sound h4,
      validTypeB_sound h5⟩

/-- The executable check implies the well-formedness the round-trip theorem assumes. -/
theorem validSchemaB_sound {s : Schema} (h : validSchemaB s = true) : ValidSchema s := by
  simp only [validSchemaB, Bool.and_eq_true, Bool.or_eq_true, Bool.not_eq_true', List.isEmpty_eq_false_iff, List.isEmpty_iff,
    List.all_eq_true] at h
  obtain ⟨⟨⟨⟨h1, h2⟩, h3⟩, h4⟩, h5⟩ := h
  refine ⟨validLinesB_sound h1, validLinesB_sound h2, ?_, ?_, fun d hd => validDefB_sound (h5 d hd)⟩
  · intro hd; rcases h3 with h3 | h3
    · exact absurd hd h3
    · exact h3
  · intro i hi
    have := h4 i hi
    simp only [validImportB, Bool.and_eq_true] at this
    exact ⟨validLinesB_sound this.1, validIdentB_sound this.2⟩

end Aldrin.Schema
