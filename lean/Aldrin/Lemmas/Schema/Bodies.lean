/-
Bodies of structs and enums: items, an optional fallback entry, the closing brace.
-/
import Aldrin.Lemmas.Schema.Items2

namespace Aldrin.Schema

def fbPart (fb : Option Fallback) (wfb : Str) (ind : Nat) : Str :=
  match fb with
  | some f => wfb ++ (fallbackText f ind ++ ['\n'])
  | none => []

theorem fallbackP_close_none (fuel : Nat) (tail : Str) : fallbackP fuel ('}' :: tail) = none := by
  have hm : many (preItemP true true false fuel) fuel ('}' :: tail) = ([], '}' :: tail) :=
    many_none _ _ _ (by simp [preItemP, commentP, docP])
  simp [fallbackP, preludeP, hm, skipWs_cons_nws, isWhiteSpace, fallbackTailP, identP, isIdStart]

/-- Reading the body of a struct or enum back. `item` is the field / variant parser; it must fail on a fallback
entry and on the closing brace. -/
theorem bodyP_text {β γ : Type} (canon : β → γ) (T : β → Str → Prop) (item : Nat → P γ) (l : List β)
    (wts : List (Str × Str)) (fb : Option Fallback) (wfb wclose rest : Str) (ind fuel : Nat)
    (hrel : BlockRel T l wts)
    (hp : ∀ x ∈ l, ∀ w txt tail, Blank w → T x txt → item fuel (skipWs (w ++ (txt ++ tail))) = some (canon x, tail))
    (hfbnone : ∀ f w tail, fb = some f → Blank w → item fuel (skipWs (w ++ (fallbackText f ind ++ tail))) = none)
    (hclose : ∀ tail, item fuel ('}' :: tail) = none)
    (hvfb : ∀ f, fb = some f → ValidFallback f ∧ f.comment.length + f.doc.length < fuel)
    (hwfb : Blank wfb) (hwclose : Blank wclose) (hfuel : l.length < fuel) :
    bodyP item fuel (skipWs (joined (blockItems canon l wts) ++ (fbPart fb wfb ind ++ (wclose ++ '}' :: rest))))
      = some ((l.map canon, fb.map canonFallback), rest) := by
  have hbrace : ∀ tail, skipWs ('}' :: tail) = '}' :: tail := fun tail => skipWs_cons_nws (by decide) tail
  cases fb with
  | none =>
    simp only [fbPart, List.nil_append]
    have hend : item fuel (skipWs (wclose ++ '}' :: rest)) = none := by
      simp only [skipWs_blank hwclose, hbrace]; exact hclose rest
    obtain ⟨hm1, hm2⟩ := many_block canon T (item fuel) l wts _ fuel hrel hp hend hfuel
    simp only [skipWs_blank hwclose, hbrace] at hm2
    unfold bodyP
    simp only [hm1, hm2, fallbackP_close_none, tok, hbrace, Option.map_none]
    simp [kw, lit]
  | some f =>
    obtain ⟨hvf, hff⟩ := hvfb f rfl
    simp only [fbPart, List.append_assoc]
    have hend : item fuel (skipWs (wfb ++ (fallbackText f ind ++ (['\n'] ++ (wclose ++ '}' :: rest))))) = none :=
      hfbnone f wfb _ rfl hwfb
    obtain ⟨hm1, hm2⟩ := many_block canon T (item fuel) l wts _ fuel hrel hp hend hfuel
    have hfb := fallbackP_text f hvf ind fuel hff wfb (['\n'] ++ (wclose ++ '}' :: rest)) hwfb
    unfold bodyP
    simp only [hm1, hm2, hfb, tok, Option.map_some]
    have : skipWs (['\n'] ++ (wclose ++ '}' :: rest)) = '}' :: rest := by
      simp [skipWs_blank hwclose, hbrace]
    simp [this, skipWs_blank hwclose, hbrace, kw, lit]

/-! ### the item parsers fail where the block ends -/

theorem nameIdP_fallback_none {name : Str} (hn : ValidIdent name) (rest : Str) :
    nameIdP (name ++ (chars! " = fallback;" ++ rest)) = none := by
  have h1 := identP_append (rest := chars! " = fallback;" ++ rest) hn (noCont_cons _ (by decide))
  simp only [List.cons_append, List.nil_append] at h1
  simp [nameIdP, h1, tok, kw, lit, skipWs_cons_nws, isWhiteSpace]

theorem structFieldP_fallback_none (f : Fallback) (hv : ValidFallback f) (ind fuel : Nat)
    (hf : f.comment.length + f.doc.length < fuel) (w tail : Str) (hw : Blank w) :
    structFieldP fuel (skipWs (w ++ (fallbackText f ind ++ tail))) = none := by
  obtain ⟨hvc, hvd, hn⟩ := hv
  have hnp : NoPre true true false fuel (List.replicate ind ' ' ++ (f.name ++ (chars! " = fallback;" ++ tail))) :=
    noPre_ident hn true true false fuel _ _ (blank_replicate ind)
  have hpre := preludeP_text f.comment f.doc [] ind true true false fuel
    (List.replicate ind ' ' ++ (f.name ++ (chars! " = fallback;" ++ tail))) (fun _ => rfl) (fun _ => rfl)
    (fun h => absurd rfl h) hvc hvd (by simp) hnp (by simp; omega) w hw
  simp only [] at hpre
  obtain ⟨_, _, _, hp4⟩ := hpre
  rw [skipWs_indent, skipWs_ident hn] at hp4
  -- `required` is only taken as the keyword when an identifier follows; here `=` follows the name
  have hreq : requiredP (f.name ++ (chars! " = fallback;" ++ tail)) = (false, f.name ++ (chars! " = fallback;" ++ tail)) :=
    requiredP_not_keyword hn '=' _ (by decide) (by decide)
  unfold structFieldP fallbackText
  simp only [List.append_assoc, hp4, hreq, nameIdP_fallback_none hn tail]

theorem structFieldP_close_none (fuel : Nat) (tail : Str) : structFieldP fuel ('}' :: tail) = none := by
  have hm : many (preItemP true true false fuel) fuel ('}' :: tail) = ([], '}' :: tail) :=
    many_none _ _ _ (by simp [preItemP, commentP, docP])
  simp [structFieldP, preludeP, hm, skipWs_cons_nws, isWhiteSpace, requiredP, kwWs, kw, lit, nameIdP, identP, isIdStart]

theorem enumVariantP_fallback_none (f : Fallback) (hv : ValidFallback f) (ind fuel : Nat)
    (hf : f.comment.length + f.doc.length < fuel) (w tail : Str) (hw : Blank w) :
    enumVariantP fuel (skipWs (w ++ (fallbackText f ind ++ tail))) = none := by
  obtain ⟨hvc, hvd, hn⟩ := hv
  have hnp : NoPre true true false fuel (List.replicate ind ' ' ++ (f.name ++ (chars! " = fallback;" ++ tail))) :=
    noPre_ident hn true true false fuel _ _ (blank_replicate ind)
  have hpre := preludeP_text f.comment f.doc [] ind true true false fuel
    (List.replicate ind ' ' ++ (f.name ++ (chars! " = fallback;" ++ tail))) (fun _ => rfl) (fun _ => rfl)
    (fun h => absurd rfl h) hvc hvd (by simp) hnp (by simp; omega) w hw
  simp only [] at hpre
  obtain ⟨_, _, _, hp4⟩ := hpre
  rw [skipWs_indent, skipWs_ident hn] at hp4
  unfold enumVariantP fallbackText
  simp only [List.append_assoc, hp4, nameIdP_fallback_none hn tail]

theorem enumVariantP_close_none (fuel : Nat) (tail : Str) : enumVariantP fuel ('}' :: tail) = none := by
  have hm : many (preItemP true true false fuel) fuel ('}' :: tail) = ([], '}' :: tail) :=
    many_none _ _ _ (by simp [preItemP, commentP, docP])
  simp [enumVariantP, preludeP, hm, skipWs_cons_nws, isWhiteSpace, nameIdP, identP, isIdStart]

end Aldrin.Schema
