/-
Enum variants and fallback entries (the analogues of `Items.lean` for fields).
-/
import Aldrin.Lemmas.Schema.Blocks

namespace Aldrin.Schema

/-! ### enum variants -/

def ValidVariant (v : EnumVariant) : Prop :=
  ValidLines 2 v.comment ∧ ValidLines 3 v.doc ∧ ValidIdent v.name ∧ ValidInt v.id ∧ (∀ t, v.ty = some t → ValidType t)

def canonVariant (v : EnumVariant) : EnumVariant := { v with comment := v.comment.map canonC, doc := v.doc.map canonD }

def variantCore (v : EnumVariant) : Str :=
  v.name ++ (' ' :: '@' :: ' ' :: (v.id ++ ((match v.ty with | some t => ' ' :: '=' :: ' ' :: typeText t | none => []) ++ [';'])))

def variantText (v : EnumVariant) (ind : Nat) : Str :=
  joined (preItems v.comment v.doc [] ind) ++ (List.replicate ind ' ' ++ variantCore v)

def variantFuel (v : EnumVariant) : Nat :=
  v.comment.length + v.doc.length + (match v.ty with | some t => t.depth | none => 0) + 1

theorem enumVariantP_text (v : EnumVariant) (hv : ValidVariant v) (ind : Nat) (fuel : Nat) (hf : variantFuel v ≤ fuel)
    (w rest : Str) (hw : Blank w) :
    enumVariantP fuel (skipWs (w ++ (variantText v ind ++ rest))) = some (canonVariant v, rest) := by
  obtain ⟨hvc, hvd, hn, hi, ht⟩ := hv
  unfold variantFuel at hf
  have hnp : NoPre true true false fuel (List.replicate ind ' ' ++ (variantCore v ++ rest)) := by
    have := noPre_ident hn true true false fuel (List.replicate ind ' ')
      ((' ' :: '@' :: ' ' :: (v.id ++ ((match v.ty with | some t => ' ' :: '=' :: ' ' :: typeText t | none => []) ++ [';']))) ++ rest)
      (blank_replicate ind)
    simpa [variantCore, List.append_assoc] using this
  have hpre := preludeP_text v.comment v.doc [] ind true true false fuel
    (List.replicate ind ' ' ++ (variantCore v ++ rest)) (fun _ => rfl) (fun _ => rfl) (fun h => absurd rfl h) hvc hvd
    (by simp) hnp (by simp; omega) w hw
  simp only [] at hpre
  obtain ⟨hp1, hp2, _, hp4⟩ := hpre
  have hsk : skipWs (variantCore v ++ rest) = variantCore v ++ rest := by
    unfold variantCore; rw [List.append_assoc]; exact skipWs_ident hn _
  rw [skipWs_indent, hsk] at hp4
  unfold enumVariantP variantText
  simp only [List.append_assoc, hp4, hp1, hp2]
  cases hty : v.ty with
  | none =>
    have hni := nameIdP_text (rest := ';' :: rest) hn hi (fun c r h => by cases h; decide)
    simp only [variantCore, hty, List.nil_append, List.append_assoc, List.cons_append] at hni ⊢
    simp [hni, eqTypeP, tok, kw, lit, skipWs_cons_nws, isWhiteSpace, canonVariant, hty]
  | some t =>
    have hni := nameIdP_text (rest := ' ' :: '=' :: ' ' :: (typeText t ++ (';' :: rest))) hn hi
      (fun c r h => by cases h; decide)
    have het := eqTypeP_text (ht t hty) fuel (by simp [hty] at hf; omega) (typeFollow_semi rest)
    simp only [variantCore, hty, List.append_assoc, List.cons_append, List.nil_append] at hni ⊢
    simp [hni, het, tok, kw, lit, skipWs_cons_nws, isWhiteSpace, canonVariant, hty]

theorem variantF_eq (v : EnumVariant) (ind : Nat) :
    variantF v ind = itemF (!v.comment.isEmpty || !v.doc.isEmpty) (variantText v ind) := by
  funext st
  unfold variantF itemF variantText variantCore
  cases hty : v.ty with
  | none =>
    have hmid : Pure (seqF [prelude v.comment v.doc [] ind false, indent ind, w v.name, w (chars! " @ "), w v.id,
        id, w (chars! ";")])
        (joined (preItems v.comment v.doc [] ind) ++ (List.replicate ind ' ' ++ (v.name ++ (' ' :: '@' :: ' ' :: (v.id ++ ([] ++ [';'])))))) := by
      apply pure_congr
      · apply pure_seq_cons (pure_prelude _ _ _ _)
        pure_tac
      · simp
    simp only []
    rw [seqF_cons]
    have := seqF_append [prelude v.comment v.doc [] ind false, indent ind, w v.name, w (chars! " @ "), w v.id,
        id, w (chars! ";")] [nl, setNewline (!v.comment.isEmpty || !v.doc.isEmpty)]
    simp only [List.cons_append, List.nil_append] at this
    rw [this, hmid]
    rfl
  | some t =>
    have hmid : Pure (seqF [prelude v.comment v.doc [] ind false, indent ind, w v.name, w (chars! " @ "), w v.id,
        seqF [w (chars! " = "), w (typeText t)], w (chars! ";")])
        (joined (preItems v.comment v.doc [] ind) ++ (List.replicate ind ' ' ++ (v.name ++ (' ' :: '@' :: ' ' :: (v.id ++ ((' ' :: '=' :: ' ' :: typeText t) ++ [';'])))))) := by
      apply pure_congr
      · apply pure_seq_cons (pure_prelude _ _ _ _)
        pure_tac
      · simp
    simp only []
    rw [seqF_cons]
    have := seqF_append [prelude v.comment v.doc [] ind false, indent ind, w v.name, w (chars! " @ "), w v.id,
        seqF [w (chars! " = "), w (typeText t)], w (chars! ";")] [nl, setNewline (!v.comment.isEmpty || !v.doc.isEmpty)]
    simp only [List.cons_append, List.nil_append] at this
    rw [this, hmid]
    rfl

theorem emits_variantF (v : EnumVariant) (ind : Nat) : Emits (variantF v ind) (fun t => t = variantText v ind) := by
  rw [variantF_eq]; exact emits_itemF _ _

/-! ### fallback entries -/

def ValidFallback (fb : Fallback) : Prop := ValidLines 2 fb.comment ∧ ValidLines 3 fb.doc ∧ ValidIdent fb.name

def canonFallback (fb : Fallback) : Fallback := { fb with comment := fb.comment.map canonC, doc := fb.doc.map canonD }

def fallbackText (fb : Fallback) (ind : Nat) : Str :=
  joined (preItems fb.comment fb.doc [] ind) ++ (List.replicate ind ' ' ++ (fb.name ++ chars! " = fallback;"))

theorem fallbackTailP_text {name : Str} (hn : ValidIdent name) (rest : Str) :
    fallbackTailP (name ++ (chars! " = fallback;" ++ rest)) = some (name, rest) := by
  have h1 := identP_append (rest := chars! " = fallback;" ++ rest) hn (noCont_cons _ (by decide))
  simp only [List.cons_append, List.nil_append] at h1
  simp [fallbackTailP, h1, tok, kw, lit, skipWs_cons_nws, isWhiteSpace]

theorem fallbackP_text (fb : Fallback) (hv : ValidFallback fb) (ind : Nat) (fuel : Nat)
    (hf : fb.comment.length + fb.doc.length < fuel) (w rest : Str) (hw : Blank w) :
    fallbackP fuel (skipWs (w ++ (fallbackText fb ind ++ rest))) = some (canonFallback fb, rest) := by
  obtain ⟨hvc, hvd, hn⟩ := hv
  have hnp : NoPre true true false fuel (List.replicate ind ' ' ++ (fb.name ++ (chars! " = fallback;" ++ rest))) :=
    noPre_ident hn true true false fuel _ _ (blank_replicate ind)
  have hpre := preludeP_text fb.comment fb.doc [] ind true true false fuel
    (List.replicate ind ' ' ++ (fb.name ++ (chars! " = fallback;" ++ rest))) (fun _ => rfl) (fun _ => rfl)
    (fun h => absurd rfl h) hvc hvd (by simp) hnp (by simp; omega) w hw
  simp only [] at hpre
  obtain ⟨hp1, hp2, _, hp4⟩ := hpre
  rw [skipWs_indent, skipWs_ident hn] at hp4
  unfold fallbackP fallbackText
  simp only [List.append_assoc, hp4, hp1, hp2, fallbackTailP_text hn rest]
  rfl

/-- `fallback_field` / `fallback_variant`: like an item, but `newline` is not set afterwards. -/
theorem emits_fallbackEntryF (fb : Fallback) (ind : Nat) :
    Emits (fallbackEntryF fb ind) (fun t => t = fallbackText fb ind) := by
  intro st
  have hmid : Pure (seqF [prelude fb.comment fb.doc [] ind false, indent ind, w fb.name, w (chars! " = fallback;"), nl])
      (fallbackText fb ind ++ ['\n']) := by
    apply pure_congr
    · apply pure_seq_cons (pure_prelude _ _ _ _)
      pure_tac
    · simp [fallbackText]
  refine ⟨nlIf (st.newline || (!st.first && (!fb.comment.isEmpty || !fb.doc.isEmpty))), fallbackText fb ind,
    blank_nlIf _, rfl, ?_⟩
  unfold fallbackEntryF
  rw [seqF_cons, hmid]
  unfold newlineWithFirst newlineF nl w nlIf
  cases h : (st.newline || (!st.first && (!fb.comment.isEmpty || !fb.doc.isEmpty))) <;> simp [h]

end Aldrin.Schema
