/-
The item block of a service and the service definition.
-/
import Aldrin.Lemmas.Schema.Service

namespace Aldrin.Schema

def ValidItem : ServiceItem → Prop
  | .fn f => ValidFn f
  | .event e => ValidEvent e

def canonItem : ServiceItem → ServiceItem
  | .fn f => .fn (canonFn f)
  | .event e => .event (canonEvent e)

def ItemTexts (i : ServiceItem) (txt : Str) : Prop :=
  match i with
  | .fn f => FnTexts f txt
  | .event e => EventTexts e txt

def itemFuel : ServiceItem → Nat
  | .fn f => fnFuel f
  | .event e => eventFuel e

theorem eventText_head (e : EventDef) (txt : Str) (ht : EventTexts e txt) : ∃ X, txt = eventHead e ++ X := by
  unfold EventTexts at ht
  cases hty : e.ty with
  | none => simp only [hty] at ht; exact ⟨[';'], ht⟩
  | some t => simp only [hty] at ht; obtain ⟨itxt, _, rfl⟩ := ht; exact ⟨' ' :: '=' :: ' ' :: itxt, rfl⟩

/-- After a prelude at indent 4 the parser stands at the keyword. -/
theorem prelude4_to_keyword (cm dc : List Line) (hvc : ValidLines 2 cm) (hvd : ValidLines 3 dc) {k : Str} (hk : ValidIdent k)
    (more : Str) (fuel : Nat) (hf : cm.length + dc.length < fuel) (w : Str) (hw : Blank w) :
    (preludeP true true false fuel (skipWs (w ++ (joined (preItems cm dc [] 4) ++ (chars! "    " ++ (k ++ more)))))).2 = k ++ more := by
  have hpre := preludeP_text cm dc [] 4 true true false fuel (chars! "    " ++ (k ++ more))
    (fun _ => rfl) (fun _ => rfl) (fun h => absurd rfl h) hvc hvd (by simp)
    (noPre_ident hk true true false fuel (chars! "    ") _ (by intro c hc; simp at hc; exact Or.inl hc))
    (by simp; omega) w hw
  simp only [] at hpre
  rw [hpre.2.2.2]
  have := skipWs_ident hk more
  simpa using this

theorem vi_fn : ValidIdent (chars! "fn") := ⟨'f', chars! "n", rfl, by decide, by decide⟩
theorem vi_event : ValidIdent (chars! "event") := ⟨'e', chars! "vent", rfl, by decide, by decide⟩

theorem serviceItemP_text (i : ServiceItem) (hv : ValidItem i) (fuel : Nat) (hf : itemFuel i ≤ fuel) (txt : Str)
    (ht : ItemTexts i txt) (w rest : Str) (hw : Blank w) :
    serviceItemP fuel (skipWs (w ++ (txt ++ rest))) = some (canonItem i, rest) := by
  cases i with
  | fn f => simp [serviceItemP, fnDefP_text f hv fuel hf txt ht w rest hw, canonItem]
  | event e =>
    have hev := eventDefP_text e hv fuel hf txt ht w rest hw
    obtain ⟨X, rfl⟩ := eventText_head e txt ht
    have hfuel : e.comment.length + e.doc.length < fuel := by simp only [itemFuel, eventFuel] at hf; omega
    have hto := prelude4_to_keyword e.comment e.doc hv.1 hv.2.1 vi_event
      (' ' :: (e.name ++ (' ' :: '@' :: ' ' :: e.id)) ++ (X ++ rest)) fuel hfuel w hw
    have hfn : fnDefP fuel (skipWs (w ++ ((eventHead e ++ X) ++ rest))) = none := by
      unfold fnDefP eventHead
      simp only [List.append_assoc, List.cons_append, List.nil_append] at hto ⊢
      simp [hto, itemHeadP, kwWs, kw, lit]
    simp only [List.append_assoc] at hev hfn
    simp [serviceItemP, hfn, hev, canonItem]

/-! ### where the item block ends -/

theorem nameIdP_eq_none {name : Str} (hn : ValidIdent name) (more : Str) :
    nameIdP (name ++ (' ' :: '=' :: more)) = none := by
  have h1 := identP_append (rest := ' ' :: '=' :: more) hn (noCont_cons _ (by decide))
  simp [nameIdP, h1, tok, kw, lit, skipWs_cons_nws, isWhiteSpace]

theorem serviceItemP_fallback_none (fb : Fallback) (hv : ValidFallback fb) (k : Str) (hk : k = chars! "fn" ∨ k = chars! "event")
    (fuel : Nat) (hf : fb.comment.length + fb.doc.length < fuel) (w rest : Str) (hw : Blank w) :
    serviceItemP fuel (skipWs (w ++ (itemFallbackText fb k ++ rest))) = none := by
  obtain ⟨hvc, hvd, hn⟩ := hv
  have hnid := nameIdP_eq_none hn (chars! " fallback;" ++ rest)
  rcases hk with rfl | rfl
  · have hto := prelude4_to_keyword fb.comment fb.doc hvc hvd vi_fn (' ' :: (fb.name ++ (chars! " = fallback;" ++ rest))) fuel hf w hw
    unfold serviceItemP fnDefP eventDefP itemFallbackText
    simp only [List.append_assoc, List.cons_append, List.nil_append] at hto hnid ⊢
    simp [hto, itemHeadP, kwWs, kw, lit, atWs, isWhiteSpace, skipWs_ident hn, hnid]
  · have hto := prelude4_to_keyword fb.comment fb.doc hvc hvd vi_event (' ' :: (fb.name ++ (chars! " = fallback;" ++ rest))) fuel hf w hw
    unfold serviceItemP fnDefP eventDefP itemFallbackText
    simp only [List.append_assoc, List.cons_append, List.nil_append] at hto hnid ⊢
    simp [hto, itemHeadP, kwWs, kw, lit, atWs, isWhiteSpace, skipWs_ident hn, hnid]

theorem prelude_close (c d a : Bool) (fuel : Nat) (more : Str) :
    preludeP c d a fuel ('}' :: more) = ([], '}' :: more) := by
  have hm : many (preItemP c d a fuel) fuel ('}' :: more) = ([], '}' :: more) :=
    many_none _ _ _ (by cases c <;> cases d <;> cases a <;> simp [preItemP, commentP, docP, attributeP, kw, lit, Option.bind_eq_bind])
  simp [preludeP, hm, skipWs_cons_nws, isWhiteSpace]

theorem serviceItemP_close_none (fuel : Nat) (more : Str) : serviceItemP fuel ('}' :: more) = none := by
  simp [serviceItemP, fnDefP, eventDefP, prelude_close, itemHeadP, kwWs, kw, lit]

theorem itemFallbackP_close_none (k : Str) (hk : ∀ more, kw k ('}' :: more) = none) (fuel : Nat) (more : Str) :
    itemFallbackP k fuel ('}' :: more) = none := by
  simp [itemFallbackP, prelude_close, kwWs, hk]

theorem itemFallbackP_other_none (fb : Fallback) (hv : ValidFallback fb) (fuel : Nat)
    (hf : fb.comment.length + fb.doc.length < fuel) (w rest : Str) (hw : Blank w) :
    itemFallbackP (chars! "fn") fuel (skipWs (w ++ (itemFallbackText fb (chars! "event") ++ rest))) = none := by
  obtain ⟨hvc, hvd, hn⟩ := hv
  have hto := prelude4_to_keyword fb.comment fb.doc hvc hvd vi_event (' ' :: (fb.name ++ (chars! " = fallback;" ++ rest))) fuel hf w hw
  unfold itemFallbackP itemFallbackText
  simp only [List.append_assoc, List.cons_append, List.nil_append] at hto ⊢
  simp [hto, kwWs, kw, lit]

/-! ### the item block -/

def itemFbPart (fb : Option Fallback) (k w : Str) : Str :=
  match fb with
  | some f => w ++ (itemFallbackText f k ++ ['\n'])
  | none => []

theorem emits_serviceItemF (i : ServiceItem) : Emits (serviceItemF i) (ItemTexts i) := by
  cases i with
  | fn f => exact emits_fnDefF f
  | event e => exact emits_eventF e

theorem optFallbackF_out (fb : Option Fallback) (pre : F) (hpre : ∀ s, (pre s).out = s.out) (k : Str) (s : FSt) :
    ∃ w, Blank w ∧ (optFallbackF fb pre k s).out = s.out ++ itemFbPart fb k w := by
  cases fb with
  | none => exact ⟨[], blank_nil, by simp [itemFbPart, optFallbackF]⟩
  | some f =>
    obtain ⟨w, txt, hw, rfl, hout⟩ := emits_itemFallbackF f k (pre s)
    exact ⟨w, hw, by simp [optFallbackF, seqF, hout, hpre, itemFbPart]⟩

theorem itemsF_out (items : List ServiceItem) (fnFb evFb : Option Fallback) (st : FSt) :
    ∃ wts wf we, BlockRel ItemTexts items wts ∧ Blank wf ∧ Blank we ∧
      (itemsF items fnFb evFb st).out = st.out ++ (joined (blockItems canonItem items wts) ++
        (itemFbPart fnFb (chars! "fn") wf ++ itemFbPart evFb (chars! "event") we)) := by
  obtain ⟨wts, hrel, hout⟩ := forF_emits canonItem serviceItemF ItemTexts items (fun i _ => emits_serviceItemF i)
    ({ st with lastItem := none })
  obtain ⟨wf, hwf, houtf⟩ := optFallbackF_out fnFb (orNewline (evFb.isSome || items.any (fun i => !isFn i))) (fun _ => rfl)
    (chars! "fn") (forF items serviceItemF { st with lastItem := none })
  obtain ⟨we, hwe, houte⟩ := optFallbackF_out evFb (orNewline (fallbackMulti fnFb || (fnFb.isNone && items.any isFn))) (fun _ => rfl)
    (chars! "event") (optFallbackF fnFb (orNewline (evFb.isSome || items.any (fun i => !isFn i))) (chars! "fn")
      (forF items serviceItemF { st with lastItem := none }))
  refine ⟨wts, wf, we, hrel, hwf, hwe, ?_⟩
  show (optFallbackF evFb _ (chars! "event") (optFallbackF fnFb _ (chars! "fn") (forF items serviceItemF { st with lastItem := none }))).out = _
  rw [houte, houtf, hout]
  simp

theorem kw_fn_close (more : Str) : kw (chars! "fn") ('}' :: more) = none := by simp [kw, lit]
theorem kw_event_close (more : Str) : kw (chars! "event") ('}' :: more) = none := by simp [kw, lit]

theorem serviceFallbackP_text (fnFb evFb : Option Fallback) (wf we rest : Str) (fuel : Nat)
    (hvf : ∀ f, fnFb = some f → ValidFallback f ∧ f.comment.length + f.doc.length < fuel)
    (hve : ∀ f, evFb = some f → ValidFallback f ∧ f.comment.length + f.doc.length < fuel)
    (hwf : Blank wf) (hwe : Blank we) :
    ∃ r, serviceFallbackOptP fuel (skipWs (itemFbPart fnFb (chars! "fn") wf ++ (itemFbPart evFb (chars! "event") we ++ '}' :: rest)))
      = ((fnFb.map canonFallback, evFb.map canonFallback), r) ∧ skipWs r = '}' :: rest := by
  unfold serviceFallbackOptP
  have hbrace : skipWs ('}' :: rest) = '}' :: rest := skipWs_cons_nws (by decide) _
  cases fnFb with
  | none =>
    cases evFb with
    | none =>
      refine ⟨'}' :: rest, ?_, hbrace⟩
      simp [itemFbPart, hbrace, serviceFallbackP, itemFallbackP_close_none _ kw_fn_close, itemFallbackP_close_none _ kw_event_close]
    | some e =>
      obtain ⟨hv, hf⟩ := hve e rfl
      have h1 := itemFallbackP_other_none e hv fuel hf we (['\n'] ++ ('}' :: rest)) hwe
      have h2 := itemFallbackP_text e hv (chars! "event") vi_event fuel hf we (['\n'] ++ ('}' :: rest)) hwe
      refine ⟨'}' :: rest, ?_, hbrace⟩
      simp only [itemFbPart, List.nil_append, List.append_assoc, List.cons_append] at h1 h2 ⊢
      simp [serviceFallbackP, h1, h2, optP, hbrace, itemFallbackP_close_none _ kw_fn_close]
  | some f =>
    obtain ⟨hv, hf⟩ := hvf f rfl
    cases evFb with
    | none =>
      have h1 := itemFallbackP_text f hv (chars! "fn") vi_fn fuel hf wf (['\n'] ++ ('}' :: rest)) hwf
      refine ⟨'}' :: rest, ?_, hbrace⟩
      simp only [itemFbPart, List.nil_append, List.append_assoc, List.cons_append] at h1 ⊢
      simp [serviceFallbackP, h1, optP, hbrace, itemFallbackP_close_none _ kw_event_close]
    | some e =>
      obtain ⟨hve', hfe⟩ := hve e rfl
      have h1 := itemFallbackP_text f hv (chars! "fn") vi_fn fuel hf wf
        (['\n'] ++ (we ++ (itemFallbackText e (chars! "event") ++ (['\n'] ++ ('}' :: rest))))) hwf
      have h2 := itemFallbackP_text e hve' (chars! "event") vi_event fuel hfe (['\n'] ++ we) (['\n'] ++ ('}' :: rest))
        (blank_append blank_nl hwe)
      refine ⟨'\n' :: '}' :: rest, ?_, by simp [hbrace]⟩
      simp only [itemFbPart, List.append_assoc, List.cons_append, List.nil_append, skipWs_newline] at h1 h2 ⊢
      simp [serviceFallbackP, h1, h2, optP]

theorem serviceBodyP_text (items : List ServiceItem) (fnFb evFb : Option Fallback) (wts : List (Str × Str)) (wf we rest : Str)
    (fuel : Nat) (hrel : BlockRel ItemTexts items wts) (hvi : ∀ i ∈ items, ValidItem i ∧ itemFuel i ≤ fuel)
    (hvf : ∀ f, fnFb = some f → ValidFallback f ∧ f.comment.length + f.doc.length < fuel)
    (hve : ∀ f, evFb = some f → ValidFallback f ∧ f.comment.length + f.doc.length < fuel)
    (hwf : Blank wf) (hwe : Blank we) (hfuel : items.length < fuel) :
    serviceBodyP fuel (skipWs (joined (blockItems canonItem items wts) ++
        (itemFbPart fnFb (chars! "fn") wf ++ (itemFbPart evFb (chars! "event") we ++ '}' :: rest))))
      = some ((items.map canonItem, fnFb.map canonFallback, evFb.map canonFallback), rest) := by
  have hbrace : skipWs ('}' :: rest) = '}' :: rest := skipWs_cons_nws (by decide) _
  -- the item parser fails where the fallbacks or the closing brace start
  have hend : serviceItemP fuel (skipWs (itemFbPart fnFb (chars! "fn") wf ++ (itemFbPart evFb (chars! "event") we ++ '}' :: rest))) = none := by
    cases fnFb with
    | some f =>
      obtain ⟨hv, hf⟩ := hvf f rfl
      simp only [itemFbPart, List.append_assoc]
      exact serviceItemP_fallback_none f hv _ (Or.inl rfl) fuel hf wf _ hwf
    | none =>
      cases evFb with
      | some e =>
        obtain ⟨hv, hf⟩ := hve e rfl
        simp only [itemFbPart, List.nil_append, List.append_assoc]
        exact serviceItemP_fallback_none e hv _ (Or.inr rfl) fuel hf we _ hwe
      | none => simp [itemFbPart, hbrace, serviceItemP_close_none]
  obtain ⟨hm1, hm2⟩ := many_block canonItem ItemTexts (serviceItemP fuel) items wts _ fuel hrel
    (fun i hi w txt tail hw ht => serviceItemP_text i (hvi i hi).1 fuel (hvi i hi).2 txt ht w tail hw) hend hfuel
  obtain ⟨r, hfb, hr⟩ := serviceFallbackP_text fnFb evFb wf we rest fuel hvf hve hwf hwe
  unfold serviceBodyP
  simp only [hm1, hm2, hfb, tok, hr]
  simp [kw, lit]

/-! ### the service definition -/

def ValidService (d : ServiceDef) : Prop :=
  ValidLines 2 d.comment ∧ ValidLines 3 d.doc ∧ ValidIdent d.name ∧ ValidLines 2 d.uuidComment ∧ ValidUuid d.uuid ∧
  ValidLines 2 d.versionComment ∧ ValidInt d.version ∧ (∀ i ∈ d.items, ValidItem i) ∧
  (∀ f, d.fnFallback = some f → ValidFallback f) ∧ (∀ f, d.evFallback = some f → ValidFallback f)

def canonService (d : ServiceDef) : ServiceDef :=
  { d with comment := d.comment.map canonC, doc := d.doc.map canonD, uuidComment := d.uuidComment.map canonC,
           versionComment := d.versionComment.map canonC, items := d.items.map canonItem,
           fnFallback := d.fnFallback.map canonFallback, evFallback := d.evFallback.map canonFallback }

def serviceFuel (d : ServiceDef) : Nat :=
  d.comment.length + d.doc.length + d.uuidComment.length + d.versionComment.length + d.items.length +
  listMax (d.items.map itemFuel) + fallbackFuel d.fnFallback + fallbackFuel d.evFallback + 1

def serviceHeadText (d : ServiceDef) : Str :=
  joined (preItems d.comment d.doc [] 0) ++ (chars! "service " ++ (d.name ++ (chars! " {\n" ++
    (joined (preItems d.uuidComment [] [] 4) ++ (chars! "    uuid = " ++ (d.uuid ++ (chars! ";\n" ++
      (nlIf (!d.uuidComment.isEmpty || !d.versionComment.isEmpty) ++
        (joined (preItems d.versionComment [] [] 4) ++ (chars! "    version = " ++ (d.version ++ chars! ";\n")))))))))))

def ServiceTexts (d : ServiceDef) (txt : Str) : Prop :=
  ∃ wts wf we, BlockRel ItemTexts d.items wts ∧ Blank wf ∧ Blank we ∧
    txt = serviceHeadText d ++ (joined (blockItems canonItem d.items wts) ++
      (itemFbPart d.fnFallback (chars! "fn") wf ++ (itemFbPart d.evFallback (chars! "event") we ++ ['}'])))

theorem emits_serviceF (d : ServiceDef) : Emits (serviceF d) (ServiceTexts d) := by
  intro st
  obtain ⟨b, hb⟩ := newlineDef_out .service true st
  have hhead : Pure (seqF [prelude d.comment d.doc [] 0 false,
      w (chars! "service "), w d.name, w (chars! " {"), nl,
      prelude d.uuidComment [] [] 4 false, w (chars! "    uuid = "), w d.uuid, w (chars! ";"), nl,
      if !d.uuidComment.isEmpty || !d.versionComment.isEmpty then nl else id,
      prelude d.versionComment [] [] 4 false, w (chars! "    version = "), w d.version, w (chars! ";"), nl])
      (serviceHeadText d) := by
    apply pure_congr
    · apply pure_seq_cons (pure_prelude _ _ _ _)
      apply pure_seq_cons (pure_w _)
      apply pure_seq_cons (pure_w _)
      apply pure_seq_cons (pure_w _)
      apply pure_seq_cons pure_nl
      apply pure_seq_cons (pure_prelude _ _ _ _)
      apply pure_seq_cons (pure_w _)
      apply pure_seq_cons (pure_w _)
      apply pure_seq_cons (pure_w _)
      apply pure_seq_cons pure_nl
      apply pure_seq_cons (pure_ite pure_nl pure_id)
      apply pure_seq_cons (pure_prelude _ _ _ _)
      pure_tac
    · simp only [serviceHeadText, nlIf]
      cases (!d.uuidComment.isEmpty || !d.versionComment.isEmpty) <;> simp
  let st1 := seqF [prelude d.comment d.doc [] 0 false,
      w (chars! "service "), w d.name, w (chars! " {"), nl,
      prelude d.uuidComment [] [] 4 false, w (chars! "    uuid = "), w d.uuid, w (chars! ";"), nl,
      if !d.uuidComment.isEmpty || !d.versionComment.isEmpty then nl else id,
      prelude d.versionComment [] [] 4 false, w (chars! "    version = "), w d.version, w (chars! ";"), nl]
      (newlineDef .service true st)
  have hst1 : st1.out = st.out ++ (nlIf b ++ serviceHeadText d) := by
    show (seqF _ (newlineDef .service true st)).out = _
    rw [hhead]; simp [hb]
  obtain ⟨wts, wf, we, hrel, hwf, hwe, hitems⟩ := itemsF_out d.items d.fnFallback d.evFallback (setNewline true st1)
  refine ⟨nlIf b, serviceHeadText d ++ (joined (blockItems canonItem d.items wts) ++
      (itemFbPart d.fnFallback (chars! "fn") wf ++ (itemFbPart d.evFallback (chars! "event") we ++ ['}']))),
    blank_nlIf b, ⟨wts, wf, we, hrel, hwf, hwe, rfl⟩, ?_⟩
  have hall : serviceF d st = setNewline true (nl (w (chars! "}") (itemsF d.items d.fnFallback d.evFallback (setNewline true st1)))) := rfl
  rw [hall]
  simp only [setNewline_out, nl, w]
  rw [hitems]
  simp only [setNewline_out, hst1]
  simp

theorem kwEqLitP_text (k : Str) (hk : ValidIdent k) (p : P Str) (cm : List Line) (hvc : ValidLines 2 cm) (v : Str)
    (hsk : ∀ tail, skipWs (v ++ tail) = v ++ tail) (hp : ∀ tail, p (v ++ (';' :: tail)) = some (v, ';' :: tail))
    (fuel : Nat) (hf : cm.length < fuel) (w rest : Str) (hw : Blank w) :
    kwEqLitP k p fuel (skipWs (w ++ (joined (preItems cm [] [] 4) ++ (chars! "    " ++ (k ++ (chars! " = " ++ (v ++ (chars! ";\n" ++ rest))))))))
      = some ((cm.map canonC, v), skipWs rest) := by
  have hpre := preludeP_text cm [] [] 4 true false false fuel (chars! "    " ++ (k ++ (chars! " = " ++ (v ++ (chars! ";\n" ++ rest)))))
    (fun _ => rfl) (fun h => absurd rfl h) (fun h => absurd rfl h) hvc (by intro l hl; cases hl) (by simp)
    (noPre_ident hk true false false fuel (chars! "    ") _ (by intro c hc; simp at hc; exact Or.inl hc))
    (by simp; omega) w hw
  simp only [] at hpre
  obtain ⟨hp1, _, _, hp4⟩ := hpre
  have hsk2 : skipWs (chars! "    " ++ (k ++ (chars! " = " ++ (v ++ (chars! ";\n" ++ rest))))) = k ++ (chars! " = " ++ (v ++ (chars! ";\n" ++ rest))) := by
    have := skipWs_ident hk (chars! " = " ++ (v ++ (chars! ";\n" ++ rest)))
    simpa using this
  rw [hsk2] at hp4
  unfold kwEqLitP
  simp only [hp4, hp1, kw_append]
  have h1 := hsk (';' :: '\n' :: rest)
  have h2 := hp ('\n' :: rest)
  simp only [List.cons_append, List.nil_append] at h1 h2 ⊢
  simp [tok, kw, lit, skipWs_cons_nws, isWhiteSpace, h1, h2]

theorem serviceDefP_text (d : ServiceDef) (hv : ValidService d) (fuel : Nat) (hf : serviceFuel d ≤ fuel)
    (txt : Str) (ht : ServiceTexts d txt) (w rest : Str) (hw : Blank w) :
    serviceDefP fuel (skipWs (w ++ (txt ++ rest))) = some (canonService d, rest) := by
  obtain ⟨hvc, hvd, hn, hvuc, hvu, hvvc, hvv, hvi, hvff, hvef⟩ := hv
  obtain ⟨wts, wf, we, hrel, hwf, hwe, rfl⟩ := ht
  unfold serviceFuel at hf
  have hkw : ValidIdent (chars! "service") := ⟨'s', chars! "ervice", rfl, by decide, by decide⟩
  -- name the pieces after the opening brace
  let body := joined (blockItems canonItem d.items wts) ++
    (itemFbPart d.fnFallback (chars! "fn") wf ++ (itemFbPart d.evFallback (chars! "event") we ++ '}' :: rest))
  let verLine := joined (preItems d.versionComment [] [] 4) ++ (chars! "    " ++ (chars! "version" ++ (chars! " = " ++ (d.version ++ (chars! ";\n" ++ body)))))
  let uuidLine := joined (preItems d.uuidComment [] [] 4) ++ (chars! "    " ++ (chars! "uuid" ++ (chars! " = " ++ (d.uuid ++ (chars! ";\n" ++
    (nlIf (!d.uuidComment.isEmpty || !d.versionComment.isEmpty) ++ verLine))))))
  have htext : serviceHeadText d ++ (joined (blockItems canonItem d.items wts) ++
      (itemFbPart d.fnFallback (chars! "fn") wf ++ (itemFbPart d.evFallback (chars! "event") we ++ ['}']))) ++ rest
      = joined (preItems d.comment d.doc [] 0) ++ (chars! "service" ++ (' ' :: (d.name ++ (' ' :: '{' :: ('\n' :: uuidLine))))) := by
    simp [serviceHeadText, uuidLine, verLine, body]
  rw [htext]
  have hpre := preludeP_text d.comment d.doc [] 0 true true false fuel
    (chars! "service" ++ (' ' :: (d.name ++ (' ' :: '{' :: ('\n' :: uuidLine)))))
    (fun _ => rfl) (fun _ => rfl) (fun h => absurd rfl h) hvc hvd (by simp)
    (by
      have := noPre_ident hkw true true false fuel [] (' ' :: (d.name ++ (' ' :: '{' :: ('\n' :: uuidLine)))) blank_nil
      simpa using this)
    (by simp; omega) w hw
  simp only [] at hpre
  obtain ⟨hp1, hp2, _, hp4⟩ := hpre
  rw [show skipWs (chars! "service" ++ (' ' :: (d.name ++ (' ' :: '{' :: ('\n' :: uuidLine)))))
      = chars! "service" ++ (' ' :: (d.name ++ (' ' :: '{' :: ('\n' :: uuidLine)))) from skipWs_cons_nws (by decide) _] at hp4
  have hopen := defOpenP_text (chars! "service") (by decide) hn ('\n' :: uuidLine)
  -- the uuid line
  have huuid := kwEqLitP_text (chars! "uuid") ⟨'u', chars! "uid", rfl, by decide, by decide⟩ litUuidP d.uuidComment hvuc d.uuid
    (fun tail => skipWs_validUuid hvu tail) (fun tail => litUuidP_append hvu) fuel (by omega) ['\n']
    (nlIf (!d.uuidComment.isEmpty || !d.versionComment.isEmpty) ++ verLine) blank_nl
  have hver := kwEqLitP_text (chars! "version") ⟨'v', chars! "ersion", rfl, by decide, by decide⟩ litIntP d.versionComment hvvc d.version
    (fun tail => skipWs_validInt hvv tail) (fun tail => litIntP_append hvv (fun c r h => by cases h; decide)) fuel (by omega)
    (nlIf (!d.uuidComment.isEmpty || !d.versionComment.isEmpty)) body (blank_nlIf _)
  have hbody := serviceBodyP_text d.items d.fnFallback d.evFallback wts wf we rest fuel hrel
    (fun i hi => ⟨hvi i hi, by have := le_listMax (List.mem_map_of_mem (f := itemFuel) hi); omega⟩)
    (fun f hfb => ⟨hvff f hfb, by simp [fallbackFuel, hfb] at hf; omega⟩)
    (fun f hfb => ⟨hvef f hfb, by simp [fallbackFuel, hfb] at hf; omega⟩) hwf hwe (by omega)
  unfold serviceDefP
  simp only [hp4, hp1, hp2, hopen]
  have huuid' : kwEqLitP (chars! "uuid") litUuidP fuel (skipWs ('\n' :: uuidLine))
      = some ((d.uuidComment.map canonC, d.uuid), skipWs (nlIf (!d.uuidComment.isEmpty || !d.versionComment.isEmpty) ++ verLine)) := huuid
  have hver' : kwEqLitP (chars! "version") litIntP fuel (skipWs (nlIf (!d.uuidComment.isEmpty || !d.versionComment.isEmpty) ++ verLine))
      = some ((d.versionComment.map canonC, d.version), skipWs body) := hver
  have hbody' : serviceBodyP fuel (skipWs body)
      = some ((d.items.map canonItem, d.fnFallback.map canonFallback, d.evFallback.map canonFallback), rest) := hbody
  simp only [huuid', hver', hbody']
  rfl

end Aldrin.Schema
