/-
Round trip of the smallest pieces of the schema syntax: literals, identifiers, comment and doc lines, white
space. Every lemma has the form "the parser, started on the printed text followed by anything that cannot
extend the token, returns the token and leaves exactly that rest".
-/
import Aldrin.Model.Schema.Parse
import Aldrin.Model.Schema.Fmt

namespace Aldrin.Schema

/-! ### prefixes -/

theorem lit_append (s r : Str) : lit s (s ++ r) = some ((), r) := by
  simp [lit, List.prefix_append]

theorem kw_append (s : Str) (r : Str) : kw s (s ++ r) = some ((), r) := lit_append _ _

theorem lit_cons_ne {s : Str} {c d : Char} {r : Str} (h : c ≠ d) : lit (c :: s) (d :: r) = none := by
  simp [lit, h]

/-! ### white space -/

theorem skipWs_cons_ws {c : Char} (h : isWhiteSpace c = true) (r : Str) : skipWs (c :: r) = skipWs r := by
  simp [skipWs, List.dropWhile, h]

theorem skipWs_cons_nws {c : Char} (h : isWhiteSpace c = false) (r : Str) : skipWs (c :: r) = c :: r := by
  simp [skipWs, List.dropWhile, h]

@[simp] theorem skipWs_nil : skipWs [] = [] := rfl

@[simp] theorem skipWs_space (r : Str) : skipWs (' ' :: r) = skipWs r := skipWs_cons_ws (by decide) r
@[simp] theorem skipWs_newline (r : Str) : skipWs ('\n' :: r) = skipWs r := skipWs_cons_ws (by decide) r

theorem skipWs_idem (r : Str) : skipWs (skipWs r) = skipWs r := by
  induction r with
  | nil => rfl
  | cons c r ih =>
    by_cases h : isWhiteSpace c = true
    · rw [skipWs_cons_ws h, ih]
    · have h : isWhiteSpace c = false := by simpa using h
      rw [skipWs_cons_nws h, skipWs_cons_nws h]

/-- A run of blanks and newlines, which is all the white space the formatter writes. -/
def Blank (w : Str) : Prop := ∀ c ∈ w, c = ' ' ∨ c = '\n'

theorem skipWs_blank {w : Str} (hw : Blank w) (r : Str) : skipWs (w ++ r) = skipWs r := by
  induction w with
  | nil => rfl
  | cons c w ih =>
    have hc := hw c List.mem_cons_self
    have : isWhiteSpace c = true := by rcases hc with rfl | rfl <;> decide
    rw [List.cons_append, skipWs_cons_ws this]
    exact ih (fun d hd => hw d (List.mem_cons_of_mem _ hd))

theorem blank_replicate (n : Nat) : Blank (List.replicate n ' ') := by
  intro c hc; exact Or.inl (List.eq_of_mem_replicate hc)

theorem blank_append {a b : Str} (ha : Blank a) (hb : Blank b) : Blank (a ++ b) := by
  intro c hc; rcases List.mem_append.1 hc with h | h
  · exact ha c h
  · exact hb c h

theorem blank_nil : Blank [] := by intro c hc; cases hc
theorem blank_nl : Blank ['\n'] := by intro c hc; simp at hc; exact Or.inr hc

/-! ### character classes -/

theorem alpha_range {c : Char} (h : c.isAlpha = true) : 65 ≤ c.toNat ∧ c.toNat ≤ 122 := by
  simp only [Char.isAlpha, Char.isUpper, Char.isLower, Bool.or_eq_true, Bool.and_eq_true, decide_eq_true_eq] at h
  rcases h with ⟨h1, h2⟩ | ⟨h1, h2⟩
  · have a : 65 ≤ c.toNat := h1
    have b : c.toNat ≤ 90 := h2
    omega
  · have a : 97 ≤ c.toNat := h1
    have b : c.toNat ≤ 122 := h2
    omega

theorem digit_range {c : Char} (h : c.isDigit = true) : 48 ≤ c.toNat ∧ c.toNat ≤ 57 := by
  simp only [Char.isDigit, Bool.and_eq_true, decide_eq_true_eq] at h
  have a : 48 ≤ c.toNat := h.1
  have b : c.toNat ≤ 57 := h.2
  omega

theorem not_digit_of_range {c : Char} (h : c.toNat < 48 ∨ 57 < c.toNat) : c.isDigit = false := by
  cases hd : c.isDigit with
  | false => rfl
  | true => have := digit_range hd; omega

theorem not_ws_of_range {c : Char} (h1 : 33 ≤ c.toNat) (h2 : c.toNat ≤ 126) : isWhiteSpace c = false := by
  simp only [isWhiteSpace]
  simp
  omega

theorem idStart_range {c : Char} (h : isIdStart c = true) : 65 ≤ c.toNat ∧ c.toNat ≤ 122 := by
  simp only [isIdStart, Bool.or_eq_true, beq_iff_eq] at h
  rcases h with h | h
  · exact alpha_range h
  · subst h; decide

theorem idCont_range {c : Char} (h : isIdCont c = true) : 48 ≤ c.toNat ∧ c.toNat ≤ 122 := by
  simp only [isIdCont, Bool.or_eq_true, beq_iff_eq, Char.isAlphanum] at h
  rcases h with (h | h) | h
  · have := alpha_range h; omega
  · have := digit_range h; omega
  · subst h; decide

theorem idStart_not_digit {c : Char} (h : isIdStart c = true) : c.isDigit = false :=
  not_digit_of_range (by have := idStart_range h; omega)

theorem idStart_ne_dash {c : Char} (h : isIdStart c = true) : c ≠ '-' := by
  intro he; subst he; simp [isIdStart] at h

theorem idStart_not_ws' {c : Char} (h : isIdStart c = true) : isWhiteSpace c = false := by
  have := idStart_range h; exact not_ws_of_range (by omega) (by omega)

theorem idCont_not_ws {c : Char} (h : isIdCont c = true) : isWhiteSpace c = false := by
  have := idCont_range h; exact not_ws_of_range (by omega) (by omega)

theorem digit_not_ws {c : Char} (h : c.isDigit = true) : isWhiteSpace c = false := by
  have := digit_range h; exact not_ws_of_range (by omega) (by omega)

/-! ### identifiers -/

/-- What `ident` can match: a start character followed by continue characters. -/
def ValidIdent (n : Str) : Prop :=
  ∃ c r, n = c :: r ∧ isIdStart c = true ∧ ∀ d ∈ r, isIdCont d = true

/-- The next character cannot extend an identifier or number. -/
def NoCont (rest : Str) : Prop := ∀ c r, rest = c :: r → isIdCont c = false

theorem takeWhile_append_stop {p : Char → Bool} {a rest : Str} (ha : ∀ d ∈ a, p d = true)
    (hr : ∀ c r, rest = c :: r → p c = false) : (a ++ rest).takeWhile p = a ∧ (a ++ rest).dropWhile p = rest := by
  induction a with
  | nil =>
    cases rest with
    | nil => simp
    | cons c r => simp [List.takeWhile, List.dropWhile, hr c r rfl]
  | cons d a ih =>
    have hd := ha d List.mem_cons_self
    have := ih (fun e he => ha e (List.mem_cons_of_mem _ he))
    simp [List.takeWhile, List.dropWhile, hd, this.1, this.2]

theorem identP_append {n rest : Str} (hn : ValidIdent n) (hr : NoCont rest) :
    identP (n ++ rest) = some (n, rest) := by
  obtain ⟨c, r, rfl, hc, hcont⟩ := hn
  have := takeWhile_append_stop hcont hr
  simp [identP, hc, this.1, this.2]

/-! ### integer literals -/

def ValidInt (v : Str) : Prop :=
  ∃ ds : Str, ds ≠ [] ∧ (∀ d ∈ ds, d.isDigit = true) ∧ (v = ds ∨ v = '-' :: ds)

def NoDigit (rest : Str) : Prop := ∀ c r, rest = c :: r → c.isDigit = false

theorem noDigit_of_noCont {rest : Str} (h : NoCont rest) : NoDigit rest := by
  intro c r hcr
  have := h c r hcr
  simp only [isIdCont, Bool.or_eq_false_iff] at this
  have h1 := this.1
  simp only [Char.isAlphanum, Bool.or_eq_false_iff] at h1
  exact h1.2

theorem digitsP_append {ds rest : Str} (hne : ds ≠ []) (hd : ∀ d ∈ ds, d.isDigit = true) (hr : NoDigit rest) :
    digitsP (ds ++ rest) = some (ds, rest) := by
  have ht := takeWhile_append_stop hd hr
  have : ds.isEmpty = false := by cases ds <;> simp_all
  simp [digitsP, ht.1, ht.2, this]

theorem litIntP_append {v rest : Str} (hv : ValidInt v) (hr : NoDigit rest) :
    litIntP (v ++ rest) = some (v, rest) := by
  obtain ⟨ds, hne, hd, hv⟩ := hv
  have hdig := digitsP_append hne hd hr
  rcases hv with hv | hv
  · subst hv
    cases hds : v with
    | nil => exact absurd hds hne
    | cons d ds =>
      rw [hds] at hd hdig
      have hd0 : d ≠ '-' := by
        intro he; have := hd d List.mem_cons_self; rw [he] at this; simp at this
      simp only [List.cons_append] at hdig ⊢
      unfold litIntP
      split
      · rename_i r heq; simp at heq; exact absurd heq.1 hd0
      · exact hdig
  · subst hv
    simp [litIntP, hdig]

/-! ### uuid literals -/

theorem hexN_append : ∀ (n : Nat) (a rest : Str), a.length = n → (∀ c ∈ a, isHex c = true) →
    hexN n (a ++ rest) = some (a, rest)
  | 0, a, rest, hl, _ => by
    have : a = [] := List.eq_nil_of_length_eq_zero hl
    subst this; simp [hexN]
  | n + 1, [], rest, hl, _ => by simp at hl
  | n + 1, c :: a, rest, hl, hh => by
    have hc := hh c List.mem_cons_self
    have := hexN_append n a rest (by simpa using hl) (fun d hd => hh d (List.mem_cons_of_mem _ hd))
    simp [hexN, hc, this]

/-- The shape `lit_uuid` matches: 8-4-4-4-12 hex digits. -/
def ValidUuid (u : Str) : Prop :=
  ∃ a b c d e : Str, u = a ++ ['-'] ++ b ++ ['-'] ++ c ++ ['-'] ++ d ++ ['-'] ++ e ∧
    a.length = 8 ∧ b.length = 4 ∧ c.length = 4 ∧ d.length = 4 ∧ e.length = 12 ∧
    (∀ x ∈ a ++ b ++ c ++ d ++ e, isHex x = true)

theorem litUuidP_append {u rest : Str} (hu : ValidUuid u) : litUuidP (u ++ rest) = some (u, rest) := by
  obtain ⟨a, b, c, d, e, rfl, ha, hb, hc, hd, he, hx⟩ := hu
  have hxa : ∀ x ∈ a, isHex x = true := fun x h => hx x (by simp [h])
  have hxb : ∀ x ∈ b, isHex x = true := fun x h => hx x (by simp [h])
  have hxc : ∀ x ∈ c, isHex x = true := fun x h => hx x (by simp [h])
  have hxd : ∀ x ∈ d, isHex x = true := fun x h => hx x (by simp [h])
  have hxe : ∀ x ∈ e, isHex x = true := fun x h => hx x (by simp [h])
  have kd : ∀ r : Str, kw (chars! "-") ('-' :: r) = some ((), r) := fun r => kw_append (chars! "-") r
  simp only [List.append_assoc, List.cons_append, List.nil_append]
  simp [litUuidP, hexN_append 8 a _ ha hxa, hexN_append 4 b _ hb hxb, hexN_append 4 c _ hc hxc,
    hexN_append 4 d _ hd hxd, hexN_append 12 e _ he hxe, kd]

/-! ### string literals -/

/-- What `lit_string_char* ~ "\""` consumes: string characters, then the closing quote. -/
inductive StrBody : Str → Prop
  | close : StrBody ['"']
  | step (cs : Str) (n : Nat) : strCharLen cs = n + 1 → StrBody (cs.drop (n + 1)) → StrBody cs

theorem StrBody.ne_nil {cs : Str} (h : StrBody cs) : cs ≠ [] := by
  cases h with
  | close => simp
  | step cs n hn _ => intro he; subst he; simp [strCharLen] at hn

theorem strCharLen_le_two (cs : Str) : strCharLen cs ≤ 2 := by
  unfold strCharLen; split <;> omega

/-- `strCharLen` looks at two characters at most. -/
theorem strCharLen_append (a rest : Str) (h : 2 ≤ a.length) : strCharLen (a ++ rest) = strCharLen a := by
  match a, h with
  | c :: d :: t, _ => simp only [List.cons_append]; unfold strCharLen; split <;> split <;> grind

/-- A string literal as `lit_string` matches it. -/
def ValidLitString (v : Str) : Prop := ∃ body, v = '"' :: body ∧ StrBody body

theorem strBody_drop_length {cs : Str} {n : Nat} (hn : strCharLen cs = n + 1) (hb : StrBody (cs.drop (n + 1))) :
    n + 2 ≤ cs.length := by
  have := hb.ne_nil
  have hl : (cs.drop (n + 1)).length ≠ 0 := fun h => this (List.eq_nil_of_length_eq_zero h)
  simp at hl; omega

theorem litStringTail_append {body : Str} (hb : StrBody body) : ∀ (fuel : Nat) (rest : Str), body.length < fuel →
    litStringTail fuel (body ++ rest) = some (body, rest) := by
  induction hb with
  | close =>
    intro fuel rest hf
    cases fuel with
    | zero => simp at hf
    | succ f => simp [litStringTail, strCharLen]
  | step cs n hn hb ih =>
    intro fuel rest hf
    have hlen := strBody_drop_length hn hb
    cases fuel with
    | zero => simp at hf
    | succ f =>
      have h2 : strCharLen (cs ++ rest) = n + 1 := by rw [strCharLen_append cs rest (by omega), hn]
      have hd : (cs ++ rest).drop (n + 1) = cs.drop (n + 1) ++ rest := by
        rw [List.drop_append_of_le_length (by omega)]
      have ht : (cs ++ rest).take (n + 1) = cs.take (n + 1) := by
        rw [List.take_append_of_le_length (by omega)]
      unfold litStringTail
      simp only [h2, hd, ht]
      rw [ih f rest (by simp; omega)]
      simp [List.take_append_drop]

/-- What `litStringTail` returns splits its input. -/
theorem litStringTail_split : ∀ (fuel : Nat) (cs a b : Str), litStringTail fuel cs = some (a, b) → cs = a ++ b := by
  intro fuel
  induction fuel with
  | zero => intro cs a b h; simp [litStringTail] at h
  | succ f ih =>
    intro cs a b h
    unfold litStringTail at h
    split at h
    · split at h
      · simp at h; obtain ⟨rfl, rfl⟩ := h; rfl
      · simp at h
    · rename_i n hn
      simp only [Option.map_eq_some_iff] at h
      obtain ⟨⟨a', b'⟩, hr, he⟩ := h
      simp at he; obtain ⟨rfl, rfl⟩ := he
      have := ih _ _ _ hr
      rw [List.append_assoc, ← this, List.take_append_drop]

/-- What `litStringTail` consumes is a string body. -/
theorem litStringTail_valid : ∀ (fuel : Nat) (cs a b : Str), litStringTail fuel cs = some (a, b) → StrBody a := by
  intro fuel
  induction fuel with
  | zero => intro cs a b h; simp [litStringTail] at h
  | succ f ih =>
    intro cs a b h
    unfold litStringTail at h
    split at h
    · split at h
      · simp at h; obtain ⟨rfl, rfl⟩ := h; exact .close
      · simp at h
    · rename_i n hn
      simp only [Option.map_eq_some_iff] at h
      obtain ⟨⟨a', b'⟩, hr, he⟩ := h
      simp at he; obtain ⟨rfl, rfl⟩ := he
      have hb := ih _ _ _ hr
      have hsp := litStringTail_split _ _ _ _ hr
      have hne := hb.ne_nil
      have hle := strCharLen_le_two cs
      -- the take is full: the rest of the input is not empty
      have hlen : n + 1 < cs.length := by
        have : (cs.drop (n + 1)).length ≠ 0 := by
          rw [hsp]; intro h0; simp at h0; exact hne h0.1
        simp at this; omega
      have htl : (cs.take (n + 1)).length = n + 1 := by simp; omega
      have hcs : cs = cs.take (n + 1) ++ a' ++ b' := by
        rw [List.append_assoc, ← hsp, List.take_append_drop]
      have hwin : strCharLen (cs.take (n + 1) ++ a') = n + 1 := by
        have h2 : 2 ≤ (cs.take (n + 1) ++ a').length := by
          have : a'.length ≠ 0 := fun h0 => hne (List.eq_nil_of_length_eq_zero h0)
          simp only [List.length_append, htl]; omega
        have := strCharLen_append (cs.take (n + 1) ++ a') b' h2
        rw [← hcs, hn] at this; exact this.symm
      refine .step _ n hwin ?_
      rw [List.drop_append_of_le_length (by omega), List.drop_of_length_le (by omega)]
      simpa using hb

theorem litStringP_valid {cs a b : Str} (h : litStringP cs = some (a, b)) : ValidLitString a := by
  unfold litStringP at h
  split at h
  · simp only [Option.map_eq_some_iff] at h
    obtain ⟨⟨a', b'⟩, hr, he⟩ := h
    simp at he; obtain ⟨rfl, rfl⟩ := he
    exact ⟨a', rfl, litStringTail_valid _ _ _ _ hr⟩
  · simp at h

theorem litStringP_append {v rest : Str} (hv : ValidLitString v) : litStringP (v ++ rest) = some (v, rest) := by
  obtain ⟨body, rfl, hb⟩ := hv
  have hne := hb.ne_nil
  simp only [litStringP, List.cons_append]
  rw [litStringTail_append hb _ rest (by simp; omega)]
  rfl

end Aldrin.Schema
