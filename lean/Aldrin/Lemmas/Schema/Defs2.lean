/-
Newtype and const definitions, imports.
-/
import Aldrin.Lemmas.Schema.Defs

namespace Aldrin.Schema

/-- A definition-like line: blank run decided by `nl0`, a pure middle part, line end, `setNewline`. -/
theorem emits_line (nl0 : F) (hnl : ∀ st, ∃ b, (nl0 st).out = st.out ++ nlIf b) (mid : List F) (txt : Str)
    (hmid : Pure (seqF mid) txt) (m : Bool) :
    Emits (seqF (nl0 :: (mid ++ [nl, setNewline m]))) (fun t => t = txt) := by
  intro st
  obtain ⟨b, hb⟩ := hnl st
  refine ⟨nlIf b, txt, blank_nlIf b, rfl, ?_⟩
  rw [seqF_cons, seqF_append, hmid]
  simp [seqF, nl, w, hb]

/-! ### newtypes -/

def ValidNewtype (d : NewtypeDef) : Prop :=
  ValidLines 2 d.comment ∧ ValidLines 3 d.doc ∧ (∀ a ∈ d.attrs, ValidAttr a) ∧ ValidIdent d.name ∧ ValidType d.target

def canonNewtype (d : NewtypeDef) : NewtypeDef := { d with comment := d.comment.map canonC, doc := d.doc.map canonD }

def newtypeText (d : NewtypeDef) : Str :=
  joined (preItems d.comment d.doc d.attrs 0) ++ (chars! "newtype " ++ (d.name ++ (chars! " = " ++ (typeText d.target ++ [';']))))

def newtypeFuel (d : NewtypeDef) : Nat :=
  d.comment.length + d.doc.length + d.attrs.length + listMax (d.attrs.map (·.options.length)) + d.target.depth + 1

theorem emits_newtypeF (d : NewtypeDef) : Emits (newtypeF d) (fun t => t = newtypeText d) := by
  have := emits_line (newlineDef .newtype (!d.comment.isEmpty || !d.doc.isEmpty || !d.attrs.isEmpty))
    (newlineDef_out _ _)
    [prelude d.comment d.doc d.attrs 0 false, w (chars! "newtype "), w d.name, w (chars! " = "), w (typeText d.target), w (chars! ";")]
    (newtypeText d)
    (by apply pure_congr
        · apply pure_seq_cons (pure_prelude _ _ _ _); pure_tac
        · simp [newtypeText])
    (!d.comment.isEmpty || !d.doc.isEmpty || !d.attrs.isEmpty)
  simpa [newtypeF] using this

theorem nameEqP_text (k : Str) (hk : ∀ c ∈ k, isIdCont c = true) {name : Str} (hn : ValidIdent name) (rest : Str) :
    nameEqP k (k ++ (' ' :: (name ++ (' ' :: '=' :: rest)))) = some (name, skipWs rest) := by
  unfold nameEqP
  rw [headerP_text k hk hn _ (noCont_cons _ (by decide))]
  simp [tok, kw, lit, skipWs_cons_nws, isWhiteSpace]

theorem typeTermP_text {t : TypeName} (ht : ValidType t) (fuel : Nat) (hd : t.depth ≤ fuel) (rest : Str) :
    typeTermP fuel (typeText t ++ (';' :: rest)) = some (t, rest) := by
  unfold typeTermP
  rw [typeNameP_typeText t ht fuel _ hd (typeFollow_semi rest)]
  simp [tok, kw, lit, skipWs_cons_nws, isWhiteSpace]

theorem attrs_valid_fuel {ats : List Attribute} (hva : ∀ a ∈ ats, ValidAttr a) {fuel : Nat}
    (h : listMax (ats.map (·.options.length)) < fuel) : ∀ a ∈ ats, ValidAttr a ∧ a.options.length < fuel := by
  intro a ha
  refine ⟨hva a ha, ?_⟩
  have := le_listMax (List.mem_map_of_mem (f := fun (x : Attribute) => x.options.length) ha); omega

theorem newtypeDefP_text (d : NewtypeDef) (hv : ValidNewtype d) (fuel : Nat) (hf : newtypeFuel d ≤ fuel)
    (w rest : Str) (hw : Blank w) :
    newtypeDefP fuel (skipWs (w ++ (newtypeText d ++ rest))) = some (canonNewtype d, rest) := by
  obtain ⟨hvc, hvd, hva, hn, ht⟩ := hv
  unfold newtypeFuel at hf
  have hkw : ValidIdent (chars! "newtype") := ⟨'n', chars! "ewtype", rfl, by decide, by decide⟩
  have hpre := preludeP_text d.comment d.doc d.attrs 0 true true true fuel
    (chars! "newtype " ++ (d.name ++ (chars! " = " ++ (typeText d.target ++ (';' :: rest)))))
    (fun _ => rfl) (fun _ => rfl) (fun _ => rfl) hvc hvd (attrs_valid_fuel hva (by omega))
    (by
      have := noPre_ident hkw true true true fuel [] (' ' :: (d.name ++ (chars! " = " ++ (typeText d.target ++ (';' :: rest))))) blank_nil
      simpa using this)
    (by omega) w hw
  simp only [] at hpre
  obtain ⟨hp1, hp2, hp3, hp4⟩ := hpre
  rw [show skipWs (chars! "newtype " ++ (d.name ++ (chars! " = " ++ (typeText d.target ++ (';' :: rest)))))
      = chars! "newtype " ++ (d.name ++ (chars! " = " ++ (typeText d.target ++ (';' :: rest)))) from
    skipWs_cons_nws (by decide) _] at hp4
  have hopen := nameEqP_text (chars! "newtype") (by decide) hn (' ' :: (typeText d.target ++ (';' :: rest)))
  rw [skipWs_space, skipWs_typeText ht] at hopen
  unfold newtypeDefP newtypeText
  simp only [List.append_assoc, List.cons_append, List.nil_append] at hp1 hp2 hp3 hp4 hopen ⊢
  simp only [hp4, hp1, hp2, hp3, hopen, typeTermP_text ht fuel (by omega) rest]
  rfl

/-! ### consts -/

def ValidConst (d : ConstDef) : Prop :=
  ValidLines 2 d.comment ∧ ValidLines 3 d.doc ∧ ValidIdent d.name ∧
  ((d.kind ∈ constKinds ∧ ValidInt d.value) ∨ (d.kind = .string ∧ ValidLitString d.value) ∨ (d.kind = .uuid ∧ ValidUuid d.value))

def canonConst (d : ConstDef) : ConstDef := { d with comment := d.comment.map canonC, doc := d.doc.map canonD }

def constText (d : ConstDef) : Str :=
  joined (preItems d.comment d.doc [] 0) ++ (chars! "const " ++ (d.name ++ (chars! " = " ++ (d.kind.text ++ ('(' :: (d.value ++ chars! ");"))))))

theorem emits_constF (d : ConstDef) : Emits (constF d) (fun t => t = constText d) := by
  have := emits_line (newlineDef .const (!d.comment.isEmpty || !d.doc.isEmpty)) (newlineDef_out _ _)
    [prelude d.comment d.doc [] 0 false, w (chars! "const "), w d.name, w (chars! " = "), w d.kind.text, w (chars! "("),
      w d.value, w (chars! ");")]
    (constText d)
    (by apply pure_congr
        · apply pure_seq_cons (pure_prelude _ _ _ _); pure_tac
        · simp [constText])
    (!d.comment.isEmpty || !d.doc.isEmpty)
  simpa [constF] using this

theorem parenP_text (p : P Str) (v rest : Str) (hsk : skipWs (v ++ (')' :: rest)) = v ++ (')' :: rest))
    (hlit : p (v ++ (')' :: rest)) = some (v, ')' :: rest)) : parenP p ('(' :: (v ++ (')' :: rest))) = some (v, rest) := by
  simp [parenP, tok, kw, lit, skipWs_cons_nws, isWhiteSpace, hsk, hlit]

theorem skipWs_validInt {v : Str} (hv : ValidInt v) (rest : Str) : skipWs (v ++ rest) = v ++ rest := by
  obtain ⟨ds, hne, hd, hv⟩ := hv
  cases ds with
  | nil => exact absurd rfl hne
  | cons d ds =>
    rcases hv with rfl | rfl
    · exact skipWs_cons_nws (digit_not_ws (hd d List.mem_cons_self)) _
    · exact skipWs_cons_nws (by decide) _

theorem hex_not_ws {c : Char} (h : isHex c = true) : isWhiteSpace c = false := by
  simp only [isHex, Bool.or_eq_true, Bool.and_eq_true, decide_eq_true_eq] at h
  rcases h with (h | ⟨h1, h2⟩) | ⟨h1, h2⟩
  · exact digit_not_ws h
  · have a : 97 ≤ c.toNat := h1
    have b : c.toNat ≤ 102 := h2
    exact not_ws_of_range (by omega) (by omega)
  · have a : 65 ≤ c.toNat := h1
    have b : c.toNat ≤ 70 := h2
    exact not_ws_of_range (by omega) (by omega)

theorem skipWs_validUuid {u : Str} (hu : ValidUuid u) (rest : Str) : skipWs (u ++ rest) = u ++ rest := by
  obtain ⟨a, b, c, d, e, rfl, ha, _, _, _, _, hx⟩ := hu
  cases a with
  | nil => simp at ha
  | cons x a => exact skipWs_cons_nws (hex_not_ws (hx x (by simp))) _

theorem constValueP_text (d : ConstDef) (hv : ValidConst d) (rest : Str) :
    constValueP (d.kind.text ++ ('(' :: (d.value ++ (')' :: rest)))) = some ((d.kind, d.value), rest) := by
  obtain ⟨_, _, _, hk⟩ := hv
  rcases hk with ⟨hk, hi⟩ | ⟨hk, hs⟩ | ⟨hk, hu⟩
  · have hp := parenP_text litIntP d.value rest (skipWs_validInt hi _)
      (litIntP_append hi (fun c r h => by cases h; decide))
    simp only [constKinds, List.mem_cons, List.not_mem_nil, or_false] at hk
    rcases hk with h | h | h | h | h | h | h | h <;> rw [h] <;>
      simp [constValueP, constIntP, firstPrim, constKinds, Prim.kwText, Prim.text, kw, lit, hp]
  · have hs' := hs
    obtain ⟨body, hb, _⟩ := hs
    have hp := parenP_text litStringP d.value rest (by rw [hb]; exact skipWs_cons_nws (by decide) _)
      (litStringP_append hs')
    rw [hk]
    simp [constValueP, constIntP, constKwP, firstPrim, constKinds, Prim.kwText, Prim.text, kw, lit, hp]
  · have hp := parenP_text litUuidP d.value rest (skipWs_validUuid hu _) (litUuidP_append hu)
    rw [hk]
    simp [constValueP, constIntP, constKwP, firstPrim, constKinds, Prim.kwText, Prim.text, kw, lit, hp]

theorem constDefP_text (d : ConstDef) (hv : ValidConst d) (fuel : Nat) (hf : d.comment.length + d.doc.length < fuel)
    (w rest : Str) (hw : Blank w) :
    constDefP fuel (skipWs (w ++ (constText d ++ rest))) = some (canonConst d, rest) := by
  have hv' := hv
  obtain ⟨hvc, hvd, hn, hk⟩ := hv
  have hkw : ValidIdent (chars! "const") := ⟨'c', chars! "onst", rfl, by decide, by decide⟩
  have hpre := preludeP_text d.comment d.doc [] 0 true true false fuel
    (chars! "const " ++ (d.name ++ (chars! " = " ++ (d.kind.text ++ ('(' :: (d.value ++ (chars! ");" ++ rest)))))))
    (fun _ => rfl) (fun _ => rfl) (fun h => absurd rfl h) hvc hvd (by simp)
    (by
      have := noPre_ident hkw true true false fuel [] (' ' :: (d.name ++ (chars! " = " ++ (d.kind.text ++ ('(' :: (d.value ++ (chars! ");" ++ rest))))))) blank_nil
      simpa using this)
    (by simp; omega) w hw
  simp only [] at hpre
  obtain ⟨hp1, hp2, _, hp4⟩ := hpre
  rw [show skipWs (chars! "const " ++ (d.name ++ (chars! " = " ++ (d.kind.text ++ ('(' :: (d.value ++ (chars! ");" ++ rest)))))))
      = chars! "const " ++ (d.name ++ (chars! " = " ++ (d.kind.text ++ ('(' :: (d.value ++ (chars! ");" ++ rest)))))) from
    skipWs_cons_nws (by decide) _] at hp4
  have hopen := nameEqP_text (chars! "const") (by decide) hn (' ' :: (d.kind.text ++ ('(' :: (d.value ++ (chars! ");" ++ rest)))))
  have hksk : skipWs (d.kind.text ++ ('(' :: (d.value ++ (chars! ");" ++ rest)))) = d.kind.text ++ ('(' :: (d.value ++ (chars! ");" ++ rest))) := by
    cases d.kind <;> exact skipWs_cons_nws (by decide) _
  rw [skipWs_space, hksk] at hopen
  have hval := constValueP_text d hv' (';' :: rest)
  unfold constDefP constText
  simp only [List.append_assoc, List.cons_append, List.nil_append] at hp1 hp2 hp4 hopen hval ⊢
  simp only [hp4, hp1, hp2, hopen, hval, tok, skipWs_cons_nws (show isWhiteSpace ';' = false by decide)]
  simp [kw, lit, canonConst]

end Aldrin.Schema
