/-
The fuel the parser model needs for a schema (`schemaFuel`) is bounded by the length of its formatted text: every
unit of fuel stands for a comment line, a doc line, an attribute, an option, an item, a level of type nesting, …,
each of which the formatter writes at least one character for. Hence the fuel `parseSchema` takes (input length
+ 2) is enough for what the formatter wrote.
-/
import Aldrin.Lemmas.Schema.Schema

namespace Aldrin.Schema

/-! ### sums, maxima, joined texts -/

theorem listMax_le_sum_bound {α : Type} (g h : α → Nat) : ∀ (l : List α), (∀ x ∈ l, g x + 1 ≤ h x) →
    l.length + listMax (l.map g) ≤ (l.map h).sum
  | [], _ => by simp [listMax]
  | x :: l, hx => by
    have ih := listMax_le_sum_bound g h l (fun y hy => hx y (List.mem_cons_of_mem _ hy))
    have h0 := hx x List.mem_cons_self
    simp only [List.length_cons, List.map_cons, listMax, List.foldr_cons, List.sum_cons] at ih ⊢
    omega

theorem length_joined {α : Type} (l : List (α × Str × Str)) : (joined l).length = (l.map (fun x => x.2.1.length + x.2.2.length)).sum := by
  induction l with
  | nil => simp
  | cons x l ih =>
    obtain ⟨a, t, w⟩ := x
    simp [joined_cons, ih]
    omega

theorem canonLine_length_pos (pre i : Str) : 1 ≤ (canonLine pre i).length := by
  simp only [canonLine, List.length_append, List.length_cons, List.length_nil]
  omega

theorem intercalate_length (os : List Str) : 2 * (os.length - 1) ≤ (intercalate (chars! ", ") os).length := by
  induction os with
  | nil => simp [intercalate]
  | cons a r ih =>
    cases r with
    | nil => simp [intercalate]
    | cons b r =>
      simp only [intercalate, List.length_append, List.length_cons] at ih ⊢
      simp only [List.length_nil] at ih ⊢
      omega

theorem attrText_length (a : Attribute) (inline : Bool) : a.options.length + 1 ≤ (attrText a inline).length := by
  unfold attrText
  have := intercalate_length a.options
  cases h : a.options.isEmpty
  · have hne : a.options ≠ [] := by intro he; simp [he] at h
    have hpos : 1 ≤ a.options.length := List.length_pos_iff.mpr hne
    cases inline <;> simp [List.length_append] <;> omega
  · have : a.options = [] := by simpa using h
    cases inline <;> simp [this]

theorem preItems_length (cm dc : List Line) (ats : List Attribute) (ind : Nat) :
    cm.length + dc.length + ats.length + listMax (ats.map (·.options.length)) ≤ (joined (preItems cm dc ats ind)).length := by
  unfold preItems
  rw [joined_append, joined_append]
  simp only [List.length_append]
  have h1 : cm.length ≤ (joined (cm.map (fun c => (PreItem.comment (canonC c), List.replicate ind ' ' ++ canonC c, ([] : Str))))).length := by
    rw [length_joined]
    have := listMax_le_sum_bound (fun (_ : Line) => 0) (fun c => (List.replicate ind ' ' ++ canonC c).length + 0) cm
      (fun c _ => by have := canonLine_length_pos (chars! "//") (inner 2 c); simp [canonC] at this ⊢; omega)
    simp only [List.map_map, Function.comp_def] at this ⊢
    simp at this ⊢
    omega
  have h2 : dc.length ≤ (joined (dc.map (fun d => (PreItem.doc (canonD d), List.replicate ind ' ' ++ canonD d, ([] : Str))))).length := by
    rw [length_joined]
    have := listMax_le_sum_bound (fun (_ : Line) => 0) (fun c => (List.replicate ind ' ' ++ canonD c).length + 0) dc
      (fun c _ => by have := canonLine_length_pos (chars! "///") (inner 3 c); simp [canonD] at this ⊢; omega)
    simp only [List.map_map, Function.comp_def] at this ⊢
    simp at this ⊢
    omega
  have h3 : ats.length + listMax (ats.map (·.options.length)) ≤
      (joined (ats.map (fun a => (PreItem.attr a, List.replicate ind ' ' ++ attrText a false, ['\n'])))).length := by
    rw [length_joined]
    have := listMax_le_sum_bound (fun (a : Attribute) => a.options.length)
      (fun a => (List.replicate ind ' ' ++ attrText a false).length + 1) ats
      (fun a _ => by have := attrText_length a false; simp at this ⊢; omega)
    simp only [List.map_map, Function.comp_def] at this ⊢
    simpa using this
  omega

/-! ### types -/

theorem validIdent_length {n : Str} (h : ValidIdent n) : 1 ≤ n.length := by
  unfold ValidIdent at h
  obtain ⟨c, r, rfl, _⟩ := h
  simp

theorem namedRefText_length {r : NamedRef} (h : ValidRef r) : 1 ≤ (namedRefText r).length := by
  cases r with
  | intern n => exact validIdent_length h
  | extern s n => have := validIdent_length h.1; simp [namedRefText]; omega

theorem prim_text_length (p : Prim) : 1 ≤ p.text.length := by
  cases p <;> simp [Prim.text]

theorem typeText_depth : ∀ (t : TypeName), ValidType t → t.depth ≤ (typeText t).length
  | .prim p, _ => by simpa [TypeName.depth, typeText] using prim_text_length p
  | .ref r, h => by simpa [TypeName.depth, typeText] using namedRefText_length h.1
  | .option t, h => by have := typeText_depth t h; simp [TypeName.depth, typeText]; omega
  | .box t, h => by have := typeText_depth t h; simp [TypeName.depth, typeText]; omega
  | .vec t, h => by have := typeText_depth t h; simp [TypeName.depth, typeText]; omega
  | .set t, h => by have := typeText_depth t h; simp [TypeName.depth, typeText]; omega
  | .sender t, h => by have := typeText_depth t h; simp [TypeName.depth, typeText]; omega
  | .receiver t, h => by have := typeText_depth t h; simp [TypeName.depth, typeText]; omega
  | .map k v, h => by
    have h1 := typeText_depth k h.1
    have h2 := typeText_depth v h.2
    simp [TypeName.depth, typeText]; omega
  | .result a b, h => by
    have h1 := typeText_depth a h.1
    have h2 := typeText_depth b h.2
    simp [TypeName.depth, typeText]; omega
  | .array t l, h => by have := typeText_depth t h.1; simp [TypeName.depth, typeText]; omega

/-! ### fields, variants, fallbacks, blocks -/

theorem fieldText_fuel (f : StructField) (hv : ValidField f) (ind : Nat) : fieldFuel f ≤ (fieldText f ind).length := by
  have h1 := preItems_length f.comment f.doc [] ind
  have h2 := typeText_depth f.ty hv.2.2.2.2
  simp only [fieldText, fieldCore, fieldFuel, List.length_append, List.length_cons, List.length_nil, List.map_nil, listMax,
    List.foldr_nil] at h1 ⊢
  omega

theorem variantText_fuel (v : EnumVariant) (hv : ValidVariant v) (ind : Nat) : variantFuel v ≤ (variantText v ind).length := by
  have h1 := preItems_length v.comment v.doc [] ind
  simp only [variantText, variantCore, variantFuel, List.length_append, List.length_cons, List.length_nil, List.map_nil, listMax,
    List.foldr_nil] at h1 ⊢
  cases hty : v.ty with
  | none => simp; omega
  | some t =>
    have h2 := typeText_depth t (hv.2.2.2.2 t hty)
    simp; omega

theorem fbPart_fuel (fb : Option Fallback) (wfb : Str) (ind : Nat) : fallbackFuel fb ≤ (fbPart fb wfb ind).length := by
  cases fb with
  | none => simp [fallbackFuel, fbPart]
  | some f =>
    have h1 := preItems_length f.comment f.doc [] ind
    simp only [fallbackFuel, fbPart, fallbackText, List.length_append, List.length_cons, List.length_nil, List.map_nil, listMax,
      List.foldr_nil] at h1 ⊢
    omega

/-- A block of items: one unit of fuel per item plus the largest item fuel. -/
theorem blockItems_fuel {β γ : Type} (canon : β → γ) (T : β → Str → Prop) (fuel : β → Nat)
    (hT : ∀ x txt, T x txt → fuel x ≤ txt.length) : ∀ (l : List β) (wts : List (Str × Str)), BlockRel T l wts →
    l.length + listMax (l.map fuel) ≤ (joined (blockItems canon l wts)).length
  | [], [], _ => by simp [listMax, blockItems]
  | [], _ :: _, h => by simp [BlockRel] at h
  | _ :: _, [], h => by simp [BlockRel] at h
  | x :: l, (w, txt) :: wts, h => by
    have ih := blockItems_fuel canon T fuel hT l wts h.2.2
    have h0 := hT x txt h.2.1
    simp only [blockItems, joined_cons, List.length_append, List.length_cons, List.length_nil, List.map_cons, listMax,
      List.foldr_cons] at ih ⊢
    omega

/-! ### inline structs and enums, function parts -/

theorem inlinePreItems_length (dc : List Line) (ats : List Attribute) (ind : Nat) :
    dc.length + ats.length + listMax (ats.map (·.options.length)) ≤ (joined (inlinePreItems dc ats ind)).length := by
  unfold inlinePreItems
  rw [joined_append]
  simp only [List.length_append]
  have h2 : dc.length ≤ (joined (dc.map (fun d => (PreItem.doc (canonDI d), List.replicate ind ' ' ++ canonDI d, ([] : Str))))).length := by
    rw [length_joined]
    have := listMax_le_sum_bound (fun (_ : Line) => 0) (fun c => (List.replicate ind ' ' ++ canonDI c).length + 0) dc
      (fun c _ => by have := canonLine_length_pos (chars! "//!") (inner 3 c); simp [canonDI] at this ⊢; omega)
    simp only [List.map_map, Function.comp_def] at this ⊢
    simp at this ⊢
    omega
  have h3 : ats.length + listMax (ats.map (·.options.length)) ≤
      (joined (ats.map (fun a => (PreItem.attr a, List.replicate ind ' ' ++ attrText a true, ['\n'])))).length := by
    rw [length_joined]
    have := listMax_le_sum_bound (fun (a : Attribute) => a.options.length)
      (fun a => (List.replicate ind ' ' ++ attrText a true).length + 1) ats
      (fun a _ => by have := attrText_length a true; simp at this ⊢; omega)
    simp only [List.map_map, Function.comp_def] at this ⊢
    simpa using this
  omega

theorem inlineStructTexts_fuel (s : InlineStruct) (hv : ValidInlineStruct s) (ind : Nat) (t : Str) (ht : InlineStructTexts s ind t) :
    inlineStructFuel s ≤ t.length := by
  obtain ⟨wts, wfb, hrel, _, rfl⟩ := ht
  by_cases hm : isMultiStruct [] s.doc s.attrs s.fields s.fallback = true
  · simp only [hm, if_true]
    have h1 := inlinePreItems_length s.doc s.attrs (ind + 4)
    have h2 := blockItems_fuel canonField (fun (f : StructField) t => t = fieldText f (ind + 4) ∧ ValidField f) fieldFuel
      (fun f txt h => by rw [h.1]; exact fieldText_fuel f h.2 _) s.fields wts
      (blockRel_mem _ ValidField s.fields wts hv.2.2.1 hrel)
    have h3 := fbPart_fuel s.fallback wfb (ind + 4)
    simp only [inlineStructFuel, List.length_append, List.length_cons, List.length_nil] at h1 h2 h3 ⊢
    omega
  · have hm' : isMultiStruct [] s.doc s.attrs s.fields s.fallback = false := by simpa using hm
    simp only [hm', Bool.false_eq_true, if_false]
    simp only [isMultiStruct, List.isEmpty_nil, Bool.not_true, Bool.false_or, Bool.or_eq_false_iff, Bool.not_eq_false',
      List.isEmpty_iff] at hm'
    obtain ⟨⟨⟨hd, ha⟩, hf⟩, hfb⟩ := hm'
    have hfb' : s.fallback = none := by cases h : s.fallback <;> simp_all
    simp [inlineStructFuel, hd, ha, hf, hfb', listMax, fallbackFuel]

theorem inlineEnumTexts_fuel (s : InlineEnum) (hv : ValidInlineEnum s) (ind : Nat) (t : Str) (ht : InlineEnumTexts s ind t) :
    inlineEnumFuel s ≤ t.length := by
  obtain ⟨wts, wfb, hrel, _, rfl⟩ := ht
  by_cases hm : isMultiEnum [] s.doc s.attrs s.variants s.fallback = true
  · simp only [hm, if_true]
    have h1 := inlinePreItems_length s.doc s.attrs (ind + 4)
    have h2 := blockItems_fuel canonVariant (fun (f : EnumVariant) t => t = variantText f (ind + 4) ∧ ValidVariant f) variantFuel
      (fun f txt h => by rw [h.1]; exact variantText_fuel f h.2 _) s.variants wts
      (blockRel_mem _ ValidVariant s.variants wts hv.2.2.1 hrel)
    have h3 := fbPart_fuel s.fallback wfb (ind + 4)
    simp only [inlineEnumFuel, List.length_append, List.length_cons, List.length_nil] at h1 h2 h3 ⊢
    omega
  · have hm' : isMultiEnum [] s.doc s.attrs s.variants s.fallback = false := by simpa using hm
    simp only [hm', Bool.false_eq_true, if_false]
    simp only [isMultiEnum, List.isEmpty_nil, Bool.not_true, Bool.false_or, Bool.or_eq_false_iff, Bool.not_eq_false',
      List.isEmpty_iff] at hm'
    obtain ⟨⟨⟨hd, ha⟩, hf⟩, hfb⟩ := hm'
    have hfb' : s.fallback = none := by cases h : s.fallback <;> simp_all
    simp [inlineEnumFuel, hd, ha, hf, hfb', listMax, fallbackFuel]

theorem inlineTexts_fuel (t : TypeOrInline) (hv : ValidInline t) (ind : Nat) (txt : Str) (ht : InlineTexts t ind txt) :
    inlineFuel t ≤ txt.length := by
  cases t with
  | ty ty =>
    simp only [InlineTexts] at ht; subst ht
    have := typeText_depth ty hv
    simp [inlineFuel]; omega
  | struct s => exact inlineStructTexts_fuel s hv ind txt ht
  | enum e => exact inlineEnumTexts_fuel e hv ind txt ht

theorem fnPartTexts_fuel (p : FnPart) (hv : ValidPart p) (kind txt : Str) (ht : FnPartTexts p kind txt) : partFuel p ≤ txt.length := by
  obtain ⟨itxt, hi, rfl⟩ := ht
  have h1 := preItems_length p.comment [] [] 8
  have h2 := inlineTexts_fuel p.ty hv.2 8 itxt hi
  simp only [partFuel, List.length_append, List.length_cons, List.length_nil, List.map_nil, listMax, List.foldr_nil,
    List.length_replicate] at h1 ⊢
  omega

/-! ### functions, events, services -/

theorem partChunk_fuel (o : Option FnPart) (hv : ∀ p, o = some p → ValidPart p) (kind w t : Str)
    (ht : ∀ p, o = some p → Blank w ∧ FnPartTexts p kind t) : optPartFuel o ≤ (partChunk o w t).length := by
  cases o with
  | none => simp [optPartFuel, partChunk]
  | some p =>
    have := fnPartTexts_fuel p (hv p rfl) kind t (ht p rfl).2
    simp only [optPartFuel, partChunk, List.length_append, List.length_cons, List.length_nil]
    omega

theorem fnHead_length (f : FnDef) : f.comment.length + f.doc.length + 1 ≤ (fnHead f).length := by
  have h1 := preItems_length f.comment f.doc [] 4
  simp only [fnHead, List.length_append, List.length_cons, List.length_nil, List.map_nil, listMax, List.foldr_nil] at h1 ⊢
  omega

theorem fnTexts_fuel (f : FnDef) (hv : ValidFn f) (txt : Str) (ht : FnTexts f txt) : fnFuel f ≤ txt.length := by
  have hh := fnHead_length f
  obtain ⟨_, _, _, _, ha, ho, he⟩ := hv
  unfold FnTexts at ht
  split at ht
  · obtain ⟨wa, ta, wo, to, we, te, h1, h2, h3, rfl⟩ := ht
    have c1 := partChunk_fuel f.args ha (chars! "args") wa ta h1
    have c2 := partChunk_fuel f.ok ho (chars! "ok") wo to h2
    have c3 := partChunk_fuel f.err he (chars! "err") we te h3
    simp only [fnFuel, List.length_append, List.length_cons, List.length_nil] at c1 c2 c3 ⊢
    omega
  · rename_i hmulti
    simp only [Bool.or_eq_true, not_or, Bool.not_eq_true, Option.isSome_eq_false_iff, Option.isNone_iff_eq_none] at hmulti
    obtain ⟨⟨hargs, hokc⟩, herr⟩ := hmulti
    cases hok : f.ok with
    | none =>
      simp only [hok] at ht
      subst ht
      simp only [fnFuel, hargs, hok, herr, optPartFuel, List.length_append, List.length_cons, List.length_nil]
      omega
    | some ok =>
      simp only [hok] at ht
      obtain ⟨itxt, hi, rfl⟩ := ht
      have hc : ok.comment = [] := by
        simp only [okHasComment, hok, Bool.not_eq_false', List.isEmpty_iff] at hokc
        exact hokc
      have h2 := inlineTexts_fuel ok.ty (ho ok hok).2 4 itxt hi
      simp only [fnFuel, hargs, hok, herr, optPartFuel, partFuel, hc, List.length_nil, List.length_append, List.length_cons]
      omega

theorem eventHead_length (e : EventDef) : e.comment.length + e.doc.length + 1 ≤ (eventHead e).length := by
  have h1 := preItems_length e.comment e.doc [] 4
  simp only [eventHead, List.length_append, List.length_cons, List.length_nil, List.map_nil, listMax, List.foldr_nil] at h1 ⊢
  omega

theorem eventTexts_fuel (e : EventDef) (hv : ValidEvent e) (txt : Str) (ht : EventTexts e txt) : eventFuel e ≤ txt.length := by
  have hh := eventHead_length e
  unfold EventTexts at ht
  cases hty : e.ty with
  | none =>
    simp only [hty] at ht
    subst ht
    simp only [eventFuel, hty, List.length_append, List.length_cons, List.length_nil]
    omega
  | some t =>
    simp only [hty] at ht
    obtain ⟨itxt, hi, rfl⟩ := ht
    have h2 := inlineTexts_fuel t (hv.2.2.2.2 t hty) 4 itxt hi
    simp only [eventFuel, hty, List.length_append, List.length_cons]
    omega

theorem itemTexts_fuel (i : ServiceItem) (hv : ValidItem i) (txt : Str) (ht : ItemTexts i txt) : itemFuel i ≤ txt.length := by
  cases i with
  | fn f => exact fnTexts_fuel f hv txt ht
  | event e => exact eventTexts_fuel e hv txt ht

theorem itemFbPart_fuel (fb : Option Fallback) (k w : Str) : fallbackFuel fb ≤ (itemFbPart fb k w).length := by
  cases fb with
  | none => simp [fallbackFuel, itemFbPart]
  | some f =>
    have h1 := preItems_length f.comment f.doc [] 4
    simp only [fallbackFuel, itemFbPart, itemFallbackText, List.length_append, List.length_cons, List.length_nil, List.map_nil,
      listMax, List.foldr_nil] at h1 ⊢
    omega

theorem serviceTexts_fuel (d : ServiceDef) (hv : ValidService d) (txt : Str) (ht : ServiceTexts d txt) : serviceFuel d ≤ txt.length := by
  obtain ⟨wts, wf, we, hrel, _, _, rfl⟩ := ht
  have h1 := preItems_length d.comment d.doc [] 0
  have h2 := preItems_length d.uuidComment [] [] 4
  have h3 := preItems_length d.versionComment [] [] 4
  have h4 := blockItems_fuel canonItem (fun (i : ServiceItem) t => ItemTexts i t ∧ ValidItem i) itemFuel
    (fun i txt h => itemTexts_fuel i h.2 txt h.1) d.items wts (blockRel_mem _ ValidItem d.items wts hv.2.2.2.2.2.2.2.1 hrel)
  have h5 := itemFbPart_fuel d.fnFallback (chars! "fn") wf
  have h6 := itemFbPart_fuel d.evFallback (chars! "event") we
  simp only [serviceFuel, serviceHeadText, List.length_append, List.length_cons, List.length_nil, List.map_nil, listMax,
    List.foldr_nil] at h1 h2 h3 h4 h5 h6 ⊢
  omega

/-! ### structs, enums, newtypes, consts -/

theorem structTexts_fuel (d : StructDef) (hv : ValidStruct d) (txt : Str) (ht : StructTexts d txt) : structFuel d ≤ txt.length := by
  obtain ⟨wts, wfb, hrel, _, rfl⟩ := ht
  have h1 := preItems_length d.comment d.doc d.attrs 0
  by_cases hb : (!d.fields.isEmpty || d.fallback.isSome) = true
  · simp only [hb, if_true]
    have h2 := blockItems_fuel canonField (fun (f : StructField) t => t = fieldText f 4 ∧ ValidField f) fieldFuel
      (fun f txt h => by rw [h.1]; exact fieldText_fuel f h.2 _) d.fields wts
      (blockRel_mem _ ValidField d.fields wts hv.2.2.2.2.1 hrel)
    have h3 := fbPart_fuel d.fallback wfb 4
    simp only [structFuel, structBodyText, List.length_append, List.length_cons, List.length_nil] at h1 h2 h3 ⊢
    omega
  · have hb' : (!d.fields.isEmpty || d.fallback.isSome) = false := by simpa using hb
    simp only [hb', Bool.false_eq_true, if_false]
    simp only [Bool.or_eq_false_iff, Bool.not_eq_false', List.isEmpty_iff] at hb'
    have hfb' : d.fallback = none := by cases h : d.fallback <;> simp_all
    simp only [structFuel, hb'.1, hfb', fallbackFuel, List.length_nil, List.map_nil, listMax, List.foldr_nil, List.length_append,
      List.length_cons] at h1 ⊢
    omega

theorem enumTexts_fuel (d : EnumDef) (hv : ValidEnum d) (txt : Str) (ht : EnumTexts d txt) : enumFuel d ≤ txt.length := by
  obtain ⟨wts, wfb, hrel, _, rfl⟩ := ht
  have h1 := preItems_length d.comment d.doc d.attrs 0
  by_cases hb : (!d.variants.isEmpty || d.fallback.isSome) = true
  · simp only [hb, if_true]
    have h2 := blockItems_fuel canonVariant (fun (f : EnumVariant) t => t = variantText f 4 ∧ ValidVariant f) variantFuel
      (fun f txt h => by rw [h.1]; exact variantText_fuel f h.2 _) d.variants wts
      (blockRel_mem _ ValidVariant d.variants wts hv.2.2.2.2.1 hrel)
    have h3 := fbPart_fuel d.fallback wfb 4
    simp only [enumFuel, enumBodyText, List.length_append, List.length_cons, List.length_nil] at h1 h2 h3 ⊢
    omega
  · have hb' : (!d.variants.isEmpty || d.fallback.isSome) = false := by simpa using hb
    simp only [hb', Bool.false_eq_true, if_false]
    simp only [Bool.or_eq_false_iff, Bool.not_eq_false', List.isEmpty_iff] at hb'
    have hfb' : d.fallback = none := by cases h : d.fallback <;> simp_all
    simp only [enumFuel, hb'.1, hfb', fallbackFuel, List.length_nil, List.map_nil, listMax, List.foldr_nil, List.length_append,
      List.length_cons] at h1 ⊢
    omega

theorem defTexts_fuel (d : Definition) (hv : ValidDef d) (txt : Str) (ht : DefTexts d txt) : defFuel d ≤ txt.length := by
  cases d with
  | struct d => exact structTexts_fuel d hv txt ht
  | enum d => exact enumTexts_fuel d hv txt ht
  | service d => exact serviceTexts_fuel d hv txt ht
  | const d =>
    simp only [DefTexts] at ht; subst ht
    have h1 := preItems_length d.comment d.doc [] 0
    simp only [defFuel, constText, List.length_append, List.length_cons, List.length_nil, List.map_nil, listMax, List.foldr_nil] at h1 ⊢
    omega
  | newtype d =>
    simp only [DefTexts] at ht; subst ht
    have h1 := preItems_length d.comment d.doc d.attrs 0
    have h2 := typeText_depth d.target hv.2.2.2.2
    simp only [defFuel, newtypeFuel, newtypeText, List.length_append, List.length_cons, List.length_nil] at h1 ⊢
    omega

/-! ### the file -/

theorem mem_insertImport_self (i : Import) : ∀ (l : List Import), i ∈ insertImport i l
  | [] => by simp [insertImport]
  | j :: r => by
    unfold insertImport
    split
    · exact List.mem_cons_of_mem _ (mem_insertImport_self i r)
    · simp

theorem mem_insertImport_of_mem {i j : Import} : ∀ {l : List Import}, j ∈ l → j ∈ insertImport i l
  | [], h => by simp at h
  | x :: r, h => by
    unfold insertImport
    split
    · rcases List.mem_cons.1 h with rfl | h
      · simp
      · exact List.mem_cons_of_mem _ (mem_insertImport_of_mem h)
    · exact List.mem_cons_of_mem _ h

theorem mem_sortImports_of_mem {j : Import} : ∀ {l : List Import}, j ∈ l → j ∈ sortImports l
  | [], h => by simp at h
  | x :: l, h => by
    simp only [sortImports, List.foldr_cons]
    rcases List.mem_cons.1 h with rfl | h
    · exact mem_insertImport_self _ _
    · exact mem_insertImport_of_mem (mem_sortImports_of_mem (l := l) h)

theorem listMax_le_of_forall {l : List Nat} {m : Nat} (h : ∀ n ∈ l, n ≤ m) : listMax l ≤ m := by
  induction l with
  | nil => simp [listMax]
  | cons a l ih =>
    have h1 := h a List.mem_cons_self
    have h2 := ih (fun n hn => h n (List.mem_cons_of_mem _ hn))
    simp only [listMax, List.foldr_cons] at h2 ⊢
    omega

theorem docsText_length (dc : List Line) : dc.length ≤ (docsText dc).length := by
  induction dc with
  | nil => simp [docsText]
  | cons d ds ih =>
    have := canonLine_length_pos (chars! "//!") (inner 3 d)
    simp only [docsText, List.map_cons, List.flatten_cons, List.length_append, List.length_cons, canonDI] at ih this ⊢
    omega

theorem headerText_length (s : Schema) (b : Str) : s.comment.length + s.doc.length ≤ (headerText s b).length := by
  have h1 := preItems_length s.comment [] [] 0
  simp only [List.length_nil, List.map_nil, listMax, List.foldr_nil] at h1
  unfold headerText
  by_cases hd : s.doc = []
  · simp only [hd, if_true, List.length_nil]; omega
  · simp only [hd, if_false]
    rw [joined_headerGroups _ _ _ hd]
    have := docsText_length s.doc
    simp only [List.length_append]
    omega

/-- The fuel that `parseSchema` takes for the formatted text of a well-formed schema is enough for that schema. -/
theorem schemaFuel_le_format (s : Schema) (hv : ValidSchema s) : schemaFuel s ≤ (format s).length + 2 := by
  obtain ⟨b, wtsI, wtsD, _, hrelI, hrelD, hfmt⟩ := schemaF_out s
  obtain ⟨_, _, _, hvi, hvd⟩ := hv
  have h1 := headerText_length s b
  have h2 := blockItems_fuel canonImport (fun (i : Import) t => t = importText i) (fun i => i.comment.length)
    (fun i txt h => by
      rw [h]
      have := preItems_length i.comment [] [] 0
      simp only [importText, List.length_append, List.length_nil, List.map_nil, listMax, List.foldr_nil] at this ⊢
      omega) (sortImports s.imports) wtsI hrelI
  have h2' : listMax (s.imports.map (·.comment.length)) ≤ listMax ((sortImports s.imports).map (·.comment.length)) := by
    apply listMax_le_of_forall
    intro n hn
    simp only [List.mem_map] at hn
    obtain ⟨i, hi, rfl⟩ := hn
    exact le_listMax (List.mem_map.mpr ⟨i, mem_sortImports_of_mem hi, rfl⟩)
  have h3 := blockItems_fuel canonDef (fun (d : Definition) t => DefTexts d t ∧ ValidDef d) defFuel
    (fun d txt h => defTexts_fuel d h.2 txt h.1) s.defs wtsD (blockRel_mem _ ValidDef s.defs wtsD hvd hrelD)
  rw [hfmt]
  simp only [schemaFuel, List.length_append, length_sortImports] at h2 ⊢
  omega

end Aldrin.Schema
