/-
Struct fields, enum variants and fallback entries: the line the formatter writes for one of them is read back
as the same item with canonical comment and doc lines.
-/
import Aldrin.Lemmas.Schema.Prelude

namespace Aldrin.Schema

/-! ### preludes, parsed -/

theorem preComments_preItems (cm dc : List Line) (ats : List Attribute) (ind : Nat) :
    preComments ((preItems cm dc ats ind).map (·.1)) = cm.map canonC ∧
    preDocs ((preItems cm dc ats ind).map (·.1)) = dc.map canonD ∧
    preAttrs ((preItems cm dc ats ind).map (·.1)) = ats := by
  have hnone : ∀ {α β : Type} (l : List α), List.filterMap (fun _ => (none : Option β)) l = [] := by
    intro α β l; induction l <;> simp_all
  simp [preItems, preComments, preDocs, preAttrs, List.filterMap_append, List.filterMap_map, Function.comp_def, hnone]

theorem preludeP_text (cm dc : List Line) (ats : List Attribute) (ind : Nat) (c d a : Bool) (fuel : Nat) (rest : Str)
    (hc : cm ≠ [] → c = true) (hd : dc ≠ [] → d = true) (ha : ats ≠ [] → a = true)
    (hvc : ValidLines 2 cm) (hvd : ValidLines 3 dc) (hva : ∀ x ∈ ats, ValidAttr x ∧ x.options.length < fuel)
    (hend : NoPre c d a fuel rest) (hfuel : cm.length + dc.length + ats.length < fuel) (w : Str) (hw : Blank w) :
    let r := preludeP c d a fuel (skipWs (w ++ (joined (preItems cm dc ats ind) ++ rest)))
    preComments r.1 = cm.map canonC ∧ preDocs r.1 = dc.map canonD ∧ preAttrs r.1 = ats ∧ r.2 = skipWs rest := by
  have hseq := preItems_seqOk cm dc ats ind c d a fuel rest hc hd ha hvc hvd hva hend
  have hlen : (preItems cm dc ats ind).length < fuel := by simp [preItems]; omega
  have hm := many_seq _ _ rest fuel hseq hlen
  obtain ⟨h1, h2, h3⟩ := preComments_preItems cm dc ats ind
  simp only [preludeP, skipWs_blank hw, hm.1, hm.2, h1, h2, h3, and_self]

/-- An identifier start is not the start of a comment, doc string or attribute. -/
theorem preItemP_ident_none (c d a : Bool) (fuel : Nat) {ch : Char} (r : Str) (h : isIdStart ch = true) :
    preItemP c d a fuel (ch :: r) = none := by
  have h1 : ch ≠ '/' := by intro he; subst he; simp [isIdStart] at h
  have h2 : ch ≠ '#' := by intro he; subst he; simp [isIdStart] at h
  cases c <;> cases d <;> cases a <;>
    simp [preItemP, commentP, docP, attributeP, kw, lit, h1, h2, Ne.symm h1, Ne.symm h2, Option.bind_eq_bind]

theorem noPre_ident {n : Str} (hn : ValidIdent n) (c d a : Bool) (fuel : Nat) (w rest : Str) (hw : Blank w) :
    NoPre c d a fuel (w ++ (n ++ rest)) := by
  obtain ⟨ch, r, rfl, hch, _⟩ := hn
  unfold NoPre
  rw [skipWs_blank hw, List.cons_append, skipWs_cons_nws (idStart_not_ws' hch)]
  exact preItemP_ident_none c d a fuel _ hch

/-! ### `name @ id` and `= type` -/

theorem nameIdP_text {name id rest : Str} (hn : ValidIdent name) (hi : ValidInt id) (hr : NoDigit rest) :
    nameIdP (name ++ (' ' :: '@' :: ' ' :: (id ++ rest))) = some ((name, id), rest) := by
  have h1 := identP_append (rest := ' ' :: '@' :: ' ' :: (id ++ rest)) hn (noCont_cons _ (by decide))
  have h2 := litIntP_append hi hr
  have hsk : skipWs (id ++ rest) = id ++ rest := by
    obtain ⟨ds, hne, hd, hv⟩ := hi
    cases ds with
    | nil => exact absurd rfl hne
    | cons d ds =>
      rcases hv with rfl | rfl
      · exact skipWs_cons_nws (digit_not_ws (hd d List.mem_cons_self)) _
      · exact skipWs_cons_nws (by decide) _
  simp [nameIdP, h1, tok, kw, lit, skipWs_cons_nws, isWhiteSpace, hsk, h2]

theorem eqTypeP_text {t : TypeName} (ht : ValidType t) (fuel : Nat) (hd : t.depth ≤ fuel) {rest : Str}
    (hf : TypeFollow rest) : eqTypeP fuel (' ' :: '=' :: ' ' :: (typeText t ++ rest)) = some (t, rest) := by
  have := typeNameP_typeText t ht fuel rest hd hf
  simp [eqTypeP, tok, kw, lit, skipWs_cons_nws, isWhiteSpace, skipWs_typeText ht, this]

/-! ### struct fields -/

def ValidField (f : StructField) : Prop :=
  ValidLines 2 f.comment ∧ ValidLines 3 f.doc ∧ ValidIdent f.name ∧ ValidInt f.id ∧ ValidType f.ty

def canonField (f : StructField) : StructField := { f with comment := f.comment.map canonC, doc := f.doc.map canonD }

/-- The field without its prelude and line end. -/
def fieldCore (f : StructField) : Str :=
  (if f.required then chars! "required " else []) ++ (f.name ++ (' ' :: '@' :: ' ' :: (f.id ++ (' ' :: '=' :: ' ' :: (typeText f.ty ++ [';'])))))

/-- What `fieldF` appends after its optional blank line. -/
def fieldText (f : StructField) (ind : Nat) : Str :=
  joined (preItems f.comment f.doc [] ind) ++ (List.replicate ind ' ' ++ fieldCore f)

/-- `required` is only taken as the keyword when an identifier follows: a name followed by a blank and a
character that cannot start an identifier is left alone, even when the name is `required` itself. -/
theorem requiredP_not_keyword {name : Str} (hn : ValidIdent name) (c : Char) (rest : Str) (hc : isIdStart c = false)
    (hcw : isWhiteSpace c = false) : requiredP (name ++ (' ' :: c :: rest)) = (false, name ++ (' ' :: c :: rest)) := by
  unfold requiredP
  cases hk2 : kw (chars! "required") (name ++ (' ' :: c :: rest)) with
  | none => simp [kwWs, hk2]
  | some y =>
    obtain ⟨⟨⟩, r2⟩ := y
    obtain ⟨n', hsplit, hr2⟩ := kw_ident_split (k := chars! "required") (by decide)
      (show NoCont (' ' :: c :: rest) from noCont_cons _ (by decide)) hk2
    subst hr2
    cases n' with
    | nil =>
      -- the name is `required`: `&ws` holds, but no identifier follows
      simp [kwWs, hk2, atWs, isWhiteSpace, skipWs_cons_nws hcw, identP, hc]
    | cons d n'' =>
      -- the name only starts with `required`: `&ws` fails
      obtain ⟨c0, r0, hn0, _, hcont⟩ := hn
      have hd : isIdCont d = true := by
        apply hcont
        rw [hsplit] at hn0
        simp only [List.cons_append, List.cons.injEq] at hn0
        rw [← hn0.2]; simp
      have hdw := idCont_not_ws hd
      have hds : d ≠ '/' := by intro he; subst he; simp [isIdCont] at hd
      simp [kwWs, hk2, atWs, hdw, commentP, hds, Ne.symm hds]

theorem requiredP_text (f : StructField) (hv : ValidField f) (rest : Str) :
    requiredP (fieldCore f ++ rest) = (f.required, f.name ++ (' ' :: '@' :: ' ' :: (f.id ++ (' ' :: '=' :: ' ' :: (typeText f.ty ++ (';' :: rest)))))) := by
  obtain ⟨_, _, hn, _, _⟩ := hv
  unfold fieldCore requiredP
  cases hr : f.required
  · -- not required: either the keyword does not match, or no identifier follows it (the name is `required`)
    simp only [Bool.false_eq_true, ↓reduceIte, List.nil_append, List.append_assoc, List.cons_append]
    exact requiredP_not_keyword hn '@' _ (by decide) (by decide)
  · simp only [↓reduceIte, List.append_assoc, List.cons_append, List.nil_append]
    have hid := identP_append (rest := ' ' :: '@' :: ' ' :: (f.id ++ ' ' :: '=' :: ' ' :: (typeText f.ty ++ ';' :: rest))) hn (noCont_cons _ (by decide))
    simp [kwWs, kw, lit, atWs, isWhiteSpace, skipWs_cons_nws, skipWs_ident hn, hid]

theorem skipWs_fieldCore (f : StructField) (hv : ValidField f) (rest : Str) :
    skipWs (fieldCore f ++ rest) = fieldCore f ++ rest := by
  unfold fieldCore
  cases f.required
  · simp only [Bool.false_eq_true, ↓reduceIte, List.nil_append, List.append_assoc]
    exact skipWs_ident hv.2.2.1 _
  · simp [skipWs_cons_nws, isWhiteSpace]

theorem noPre_fieldCore (f : StructField) (hv : ValidField f) (c d : Bool) (fuel : Nat) (w rest : Str) (hw : Blank w) :
    NoPre c d false fuel (w ++ (fieldCore f ++ rest)) := by
  unfold fieldCore
  cases f.required
  · simp only [Bool.false_eq_true, ↓reduceIte, List.nil_append, List.append_assoc]
    exact noPre_ident hv.2.2.1 c d false fuel w _ hw
  · simp only [↓reduceIte, List.append_assoc]
    have : ValidIdent (chars! "required") := ⟨'r', chars! "equired", rfl, by decide, by decide⟩
    have := noPre_ident this c d false fuel w (' ' :: (f.name ++ (' ' :: '@' :: ' ' :: (f.id ++ (' ' :: '=' :: ' ' :: (typeText f.ty ++ [';'])))) ++ rest)) hw
    simpa using this

def fieldFuel (f : StructField) : Nat := f.comment.length + f.doc.length + f.ty.depth + 1

theorem structFieldP_text (f : StructField) (hv : ValidField f) (ind : Nat) (fuel : Nat) (hf : fieldFuel f ≤ fuel)
    (w rest : Str) (hw : Blank w) :
    structFieldP fuel (skipWs (w ++ (fieldText f ind ++ rest))) = some (canonField f, rest) := by
  obtain ⟨hvc, hvd, hn, hi, ht⟩ := hv
  have hv : ValidField f := ⟨hvc, hvd, hn, hi, ht⟩
  unfold fieldFuel at hf
  have hpre := preludeP_text f.comment f.doc [] ind true true false fuel
    (List.replicate ind ' ' ++ (fieldCore f ++ rest)) (fun _ => rfl) (fun _ => rfl) (fun h => absurd rfl h) hvc hvd
    (by simp) (noPre_fieldCore f hv true true fuel _ rest (blank_replicate ind)) (by simp; omega) w hw
  simp only [] at hpre
  obtain ⟨hp1, hp2, _, hp4⟩ := hpre
  rw [skipWs_indent, skipWs_fieldCore f hv] at hp4
  have hreq := requiredP_text f hv rest
  have hni := nameIdP_text (rest := ' ' :: '=' :: ' ' :: (typeText f.ty ++ (';' :: rest))) hn hi
    (fun c r h => by cases h; decide)
  have het := eqTypeP_text ht fuel (by omega) (typeFollow_semi rest)
  unfold structFieldP fieldText
  simp only [List.append_assoc]
  simp only [hp4, hp1, hp2, hreq, hni, het, tok, skipWs_cons_nws (show isWhiteSpace ';' = false by decide)]
  simp [kw, lit, canonField]

/-! ### the formatter on one item: optional blank line, text, line end -/

/-- Shape shared by fields, variants and fallback entries. -/
def itemF (multi : Bool) (txt : Str) : F := fun st => setNewline multi (nl (w txt (newlineWithFirst multi st)))

theorem seqF_cons (f : F) (fs : List F) (st : FSt) : seqF (f :: fs) st = seqF fs (f st) := rfl

theorem seqF_append (l1 l2 : List F) (st : FSt) : seqF (l1 ++ l2) st = seqF l2 (seqF l1 st) := by
  induction l1 generalizing st with
  | nil => rfl
  | cons f l1 ih => simp [seqF, ih]

def nlIf (b : Bool) : Str := if b then ['\n'] else []

theorem blank_nlIf (b : Bool) : Blank (nlIf b) := by
  cases b
  · exact blank_nil
  · exact blank_nl

theorem itemF_spec (multi : Bool) (txt : Str) (st : FSt) :
    itemF multi txt st =
      { newline := multi, first := false, lastDef := st.lastDef, lastItem := st.lastItem,
        out := st.out ++ (nlIf (st.newline || (!st.first && multi)) ++ (txt ++ ['\n'])) } := by
  unfold itemF newlineWithFirst newlineF setNewline nl w nlIf
  cases h : (st.newline || (!st.first && multi)) <;> simp [h]

theorem fieldF_eq (f : StructField) (ind : Nat) :
    fieldF f ind = itemF (!f.comment.isEmpty || !f.doc.isEmpty) (fieldText f ind) := by
  funext st
  unfold fieldF itemF
  have hmid : Pure (seqF [prelude f.comment f.doc [] ind false, indent ind,
      if f.required then w (chars! "required ") else id,
      w f.name, w (chars! " @ "), w f.id, w (chars! " = "), w (typeText f.ty), w (chars! ";")]) (fieldText f ind) := by
    apply pure_congr
    · apply pure_seq_cons (pure_prelude _ _ _ _)
      pure_tac
    · simp only [fieldText, fieldCore]
      cases f.required <;> simp
  rw [seqF_cons]
  have := seqF_append [prelude f.comment f.doc [] ind false, indent ind,
      if f.required then w (chars! "required ") else id,
      w f.name, w (chars! " @ "), w f.id, w (chars! " = "), w (typeText f.ty), w (chars! ";")]
      [nl, setNewline (!f.comment.isEmpty || !f.doc.isEmpty)]
  simp only [List.cons_append, List.nil_append] at this
  rw [this, hmid]
  rfl

end Aldrin.Schema
