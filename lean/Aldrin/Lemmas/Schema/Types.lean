/-
Round trip of type names: `typeNameP` on `typeText t` followed by anything that cannot continue a type returns
`t`. The side conditions (`ValidType`) say what the grammar can produce at all: identifiers of the right shape,
and no reference whose first identifier starts with one of the parameterless type keywords (the PEG commits to
the keyword there, e.g. `boolean` is read as `bool` followed by garbage).
-/
import Aldrin.Lemmas.Schema.Atoms

namespace Aldrin.Schema

def allPrims : List Prim := [.bool, .u8, .i8, .u16, .i16, .u32, .i32, .u64, .i64, .f32, .f64, .string, .uuid,
  .objectId, .serviceId, .value, .bytes, .lifetime, .unit]

/-- No parameterless type keyword is a prefix of `n`. -/
def NotKwPrefixed (n : Str) : Prop := ∀ p ∈ allPrims, ¬ (p.kwText <+: n)

def ValidRef : NamedRef → Prop
  | .intern n => ValidIdent n
  | .extern s n => ValidIdent s ∧ ValidIdent n

def NamedRef.head : NamedRef → Str
  | .intern n => n
  | .extern s _ => s

def ValidLen : ArrayLen → Prop
  | .lit v => ValidInt v
  | .ref r => ValidRef r

def ValidType : TypeName → Prop
  | .prim _ => True
  | .option t | .box t | .vec t | .set t | .sender t | .receiver t => ValidType t
  | .map k v => ValidType k ∧ ValidType v
  | .result a b => ValidType a ∧ ValidType b
  | .array t l => ValidType t ∧ ValidLen l
  | .ref r => ValidRef r ∧ NotKwPrefixed r.head

def TypeName.depth : TypeName → Nat
  | .prim _ | .ref _ => 1
  | .option t | .box t | .vec t | .set t | .sender t | .receiver t => t.depth + 1
  | .map k v => max k.depth v.depth + 1
  | .result a b => max a.depth b.depth + 1
  | .array t _ => t.depth + 1

/-- What may follow a type (or a reference) in the input: nothing that continues an identifier, and, after
optional white space, neither `<` nor `:`. -/
def TypeFollow (rest : Str) : Prop :=
  NoCont rest ∧ ∀ c r, skipWs rest = c :: r → c ≠ '<' ∧ c ≠ ':'

theorem typeFollow_cons {c : Char} (r : Str) (h1 : isIdCont c = false) (h2 : isWhiteSpace c = false)
    (h3 : c ≠ '<') (h4 : c ≠ ':') : TypeFollow (c :: r) := by
  refine ⟨fun d r' h => by cases h; exact h1, fun d r' h => ?_⟩
  rw [skipWs_cons_nws h2] at h
  cases h; exact ⟨h3, h4⟩

theorem typeFollow_space_arrow (r : Str) : TypeFollow (' ' :: '-' :: r) := by
  refine ⟨fun d r' h => by cases h; decide, fun d r' h => ?_⟩
  rw [skipWs_space, skipWs_cons_nws (by decide)] at h
  cases h; exact ⟨by decide, by decide⟩

/-! ### references -/

theorem validIdent_head {n : Str} (h : ValidIdent n) : ∃ c r, n = c :: r ∧ isIdStart c = true := by
  obtain ⟨c, r, rfl, hc, _⟩ := h; exact ⟨c, r, rfl, hc⟩

theorem idStart_not_ws {c : Char} (h : isIdStart c = true) : isWhiteSpace c = false := by
  simp only [isIdStart, Bool.or_eq_true, beq_iff_eq] at h
  rcases h with h | h
  · simp only [Char.isAlpha, Char.isUpper, Char.isLower, Bool.or_eq_true, Bool.and_eq_true, decide_eq_true_eq] at h
    simp only [isWhiteSpace]
    have : 65 ≤ c.toNat := by
      rcases h with ⟨h, _⟩ | ⟨h, _⟩
      · exact h
      · exact Nat.le_trans (by decide) h
    have h2 : c.toNat ≤ 122 := by
      rcases h with ⟨_, h⟩ | ⟨_, h⟩
      · exact Nat.le_trans h (by decide)
      · exact h
    simp
    omega
  · subst h; decide

theorem skipWs_ident {n : Str} (h : ValidIdent n) (rest : Str) : skipWs (n ++ rest) = n ++ rest := by
  obtain ⟨c, r, rfl, hc⟩ := validIdent_head h
  exact skipWs_cons_nws (idStart_not_ws hc) _

theorem tok_fail_of_follow {rest : Str} {s : Str} {c : Char} {t : Str} (hs : s = c :: t)
    (h : ∀ d r, skipWs rest = d :: r → d ≠ c) : tok s rest = none := by
  unfold tok kw lit
  rw [hs]
  cases hsk : skipWs rest with
  | nil => simp
  | cons d r => have := h d r hsk; simp [this, this.symm]

theorem namedRefP_text {r : NamedRef} (hr : ValidRef r) {rest : Str} (hf : TypeFollow rest) :
    namedRefP (namedRefText r ++ rest) = some (r, rest) := by
  cases r with
  | intern n =>
    simp only [ValidRef] at hr
    have h1 := identP_append hr hf.1
    have h2 : tok (chars! "::") rest = none := tok_fail_of_follow (c := ':') (t := [':']) rfl (fun d r h => (hf.2 d r h).2)
    simp [namedRefP, namedRefText, h1, h2]
  | extern s n =>
    simp only [ValidRef] at hr
    have hnc : NoCont ((chars! "::") ++ (n ++ rest)) := by intro c r h; cases h; decide
    have h1 := identP_append (rest := (chars! "::") ++ (n ++ rest)) hr.1 hnc
    have h2 : tok (chars! "::") ((chars! "::") ++ (n ++ rest)) = some ((), n ++ rest) := by
      simp [tok, skipWs_cons_nws, kw, lit, isWhiteSpace]
    have h3 := identP_append hr.2 hf.1
    have e : namedRefText (.extern s n) ++ rest = s ++ ((chars! "::") ++ (n ++ rest)) := by
      simp [namedRefText]
    rw [e]
    unfold namedRefP
    rw [h1]
    simp only []
    rw [h2]
    simp only [skipWs_ident hr.2 rest]
    rw [h3]

/-! ### keywords against identifiers -/

theorem Prim.text_eq_kwText (p : Prim) : p.text = p.kwText := by cases p <;> rfl

theorem isPrefixOf_append_split : ∀ (k n rest : Str), k <+: (n ++ rest) →
    (∃ n', n = k ++ n') ∨ (∃ k', k' ≠ [] ∧ k = n ++ k' ∧ k' <+: rest)
  | [], n, rest, _ => Or.inl ⟨n, rfl⟩
  | c :: k, [], rest, h => Or.inr ⟨c :: k, by simp, rfl, by simpa using h⟩
  | c :: k, d :: n, rest, h => by
    rw [List.cons_append, List.cons_prefix_cons] at h
    obtain ⟨rfl, h⟩ := h
    rcases isPrefixOf_append_split k n rest h with ⟨n', rfl⟩ | ⟨k', hne, rfl, hp⟩
    · exact Or.inl ⟨n', rfl⟩
    · exact Or.inr ⟨k', hne, rfl, hp⟩

/-- A keyword made of identifier characters that matches at an identifier followed by a non-identifier
character matches inside the identifier. -/
theorem kw_ident_split {k : Str} {n rest r : Str} (hk : ∀ c ∈ k, isIdCont c = true)
    (hr : NoCont rest) (h : kw k (n ++ rest) = some ((), r)) : ∃ n', n = k ++ n' ∧ r = n' ++ rest := by
  unfold kw lit at h
  split at h
  · rename_i hp
    simp only [Option.some.injEq, Prod.mk.injEq, true_and] at h
    have hp : k <+: (n ++ rest) := by simpa using hp
    rcases isPrefixOf_append_split _ _ _ hp with ⟨n', rfl⟩ | ⟨k', hne, hk', hpre⟩
    · refine ⟨n', rfl, ?_⟩
      rw [← h]; simp
    · exfalso
      cases k' with
      | nil => exact hne rfl
      | cons c k'' =>
        obtain ⟨t, ht⟩ := hpre
        have hc : isIdCont c = true := hk c (by rw [hk']; simp)
        have := hr c (k'' ++ t) (by rw [← ht]; simp)
        rw [hc] at this; cases this
  · simp at h

theorem kw_none_of_not_prefix {k : Str} {n rest : Str} (hk : ∀ c ∈ k, isIdCont c = true)
    (hr : NoCont rest) (hn : ¬ (k <+: n)) : kw k (n ++ rest) = none := by
  cases h : kw k (n ++ rest) with
  | none => rfl
  | some x =>
    obtain ⟨⟨⟩, r⟩ := x
    obtain ⟨n', rfl, _⟩ := kw_ident_split hk hr h
    exact absurd (List.prefix_append _ _) hn

theorem prim_kw_idCont (p : Prim) : ∀ c ∈ p.kwText, isIdCont c = true := by
  cases p <;> decide

theorem firstPrim_none {ps : List Prim} {n rest : Str} (hr : NoCont rest)
    (hn : ∀ p ∈ ps, ¬ (p.kwText <+: n)) : firstPrim ps (n ++ rest) = none := by
  induction ps with
  | nil => rfl
  | cons p ps ih =>
    have h1 := kw_none_of_not_prefix (prim_kw_idCont p) hr (hn p List.mem_cons_self)
    simp [firstPrim, h1, ih (fun q hq => hn q (List.mem_cons_of_mem _ hq))]

theorem tok_none_after_ident {n n' rest : Str} {k : Str} {s : Str} {c : Char} {t : Str}
    (hs : s = c :: t) (hc : isIdCont c = false)
    (hn : ValidIdent n) (hk : k ≠ []) (hsplit : n = k ++ n')
    (hf : ∀ d r, skipWs rest = d :: r → d ≠ c) : tok s (n' ++ rest) = none := by
  cases n' with
  | nil => simpa using tok_fail_of_follow hs hf
  | cons d n'' =>
    obtain ⟨c0, r0, hn0, _, hcont⟩ := hn
    have hd : isIdCont d = true := by
      apply hcont
      cases k with
      | nil => exact absurd rfl hk
      | cons k0 k' =>
        rw [hsplit] at hn0
        simp only [List.cons_append, List.cons.injEq] at hn0
        rw [← hn0.2]; simp
    have hdw : isWhiteSpace d = false := by
      simp only [isIdCont, Bool.or_eq_true, beq_iff_eq] at hd
      rcases hd with hd | hd
      · simp only [Char.isAlphanum, Char.isAlpha, Char.isUpper, Char.isLower, Char.isDigit, Bool.or_eq_true,
          Bool.and_eq_true, decide_eq_true_eq] at hd
        simp only [isWhiteSpace]
        have : 48 ≤ d.toNat ∧ d.toNat ≤ 122 := by
          rcases hd with (⟨h1, h2⟩ | ⟨h1, h2⟩) | ⟨h1, h2⟩
          · exact ⟨Nat.le_trans (by decide) h1, Nat.le_trans h2 (by decide)⟩
          · exact ⟨Nat.le_trans (by decide) h1, h2⟩
          · exact ⟨h1, Nat.le_trans h2 (by decide)⟩
        simp; omega
      · subst hd; decide
    have hne : d ≠ c := fun he => by rw [he] at hd; rw [hd] at hc; cases hc
    unfold tok kw lit
    rw [List.cons_append, skipWs_cons_nws hdw, hs]
    simp [hne, Ne.symm hne]

/-! ### the alternatives of `type_name` on a reference -/

theorem generic1P_ident_none (rec : P TypeName) (k : Str) (mk : TypeName → TypeName) {n rest : Str}
    (hk : ∀ c ∈ k, isIdCont c = true) (hk0 : k ≠ []) (hn : ValidIdent n) (hnc : NoCont rest)
    (hlt : ∀ d r, skipWs rest = d :: r → d ≠ '<') :
    generic1P rec k mk (n ++ rest) = none := by
  unfold generic1P
  cases h : kw k (n ++ rest) with
  | none => rfl
  | some x =>
    obtain ⟨⟨⟩, r⟩ := x
    obtain ⟨n', hsplit, rfl⟩ := kw_ident_split hk hnc h
    have := tok_none_after_ident (s := chars! "<") (c := '<') (t := []) rfl (by decide) hn hk0 hsplit hlt
    simp [this]

theorem generic2P_ident_none (rec : P TypeName) (k sep : Str) (mk : TypeName → TypeName → TypeName) {n rest : Str}
    (hk : ∀ c ∈ k, isIdCont c = true) (hk0 : k ≠ []) (hn : ValidIdent n) (hnc : NoCont rest)
    (hlt : ∀ d r, skipWs rest = d :: r → d ≠ '<') :
    generic2P rec k sep mk (n ++ rest) = none := by
  unfold generic2P
  cases h : kw k (n ++ rest) with
  | none => rfl
  | some x =>
    obtain ⟨⟨⟩, r⟩ := x
    obtain ⟨n', hsplit, rfl⟩ := kw_ident_split hk hnc h
    have := tok_none_after_ident (s := chars! "<") (c := '<') (t := []) rfl (by decide) hn hk0 hsplit hlt
    simp [this]

theorem arrayP_ident_none (rec : P TypeName) {n rest : Str} (hn : ValidIdent n) : arrayP rec (n ++ rest) = none := by
  obtain ⟨c, r, rfl, hc, _⟩ := hn
  have : c ≠ '[' := by intro he; subst he; simp [isIdStart] at hc
  simp [arrayP, kw, lit, this, Ne.symm this]

theorem primKwP_none {p : Prim} {n rest : Str} (hr : NoCont rest) (hn : ¬ (p.kwText <+: n)) :
    primKwP p (n ++ rest) = none := by
  simp [primKwP, kw_none_of_not_prefix (prim_kw_idCont p) hr hn]

theorem typeNameP_ref {r : NamedRef} (hr : ValidRef r) (hk : NotKwPrefixed r.head) {rest : Str} (hf : TypeFollow rest)
    (fuel : Nat) : typeNameP (fuel + 1) (namedRefText r ++ rest) = some (.ref r, rest) := by
  have hres := namedRefP_text hr hf
  -- view the text as `head identifier ++ rest'` with `rest'` still a type follow set
  obtain ⟨n, rest', htext, hn, hnc, hlt, hkn⟩ : ∃ n rest', namedRefText r ++ rest = n ++ rest' ∧ ValidIdent n ∧
      NoCont rest' ∧ (∀ d r, skipWs rest' = d :: r → d ≠ '<') ∧ NotKwPrefixed n := by
    cases r with
    | intern n => exact ⟨n, rest, rfl, hr, hf.1, fun d r h => (hf.2 d r h).1, hk⟩
    | extern s n =>
      refine ⟨s, (chars! "::") ++ (n ++ rest), by simp [namedRefText], hr.1, ?_, ?_, hk⟩
      · intro c r h; cases h; decide
      · intro c r h
        rw [show (chars! "::") ++ (n ++ rest) = ':' :: ':' :: (n ++ rest) from rfl, skipWs_cons_nws (by decide)] at h
        cases h; decide
  have idc : ∀ k : Str, (∀ c ∈ k, isIdCont c = true) → k ≠ [] →
      ∀ mk, generic1P (typeNameP fuel) k mk (n ++ rest') = none :=
    fun k h1 h2 mk => generic1P_ident_none _ k mk h1 h2 hn hnc hlt
  have idc2 : ∀ k sep : Str, (∀ c ∈ k, isIdCont c = true) → k ≠ [] →
      ∀ mk, generic2P (typeNameP fuel) k sep mk (n ++ rest') = none :=
    fun k sep h1 h2 mk => generic2P_ident_none _ k sep mk h1 h2 hn hnc hlt
  have hp : firstPrim primsA (n ++ rest') = none :=
    firstPrim_none hnc (fun p hp => hkn p (by
      simp only [primsA, List.mem_cons, List.not_mem_nil, or_false] at hp
      simp only [allPrims, List.mem_cons, List.not_mem_nil, or_false]
      rcases hp with h | h | h | h | h | h | h | h | h | h | h | h | h | h | h | h <;> simp [h]))
  have hb : primKwP .bytes (n ++ rest') = none := primKwP_none hnc (hkn .bytes (by simp [allPrims]))
  have hl : primKwP .lifetime (n ++ rest') = none := primKwP_none hnc (hkn .lifetime (by simp [allPrims]))
  have hu : primKwP .unit (n ++ rest') = none := primKwP_none hnc (hkn .unit (by simp [allPrims]))
  unfold typeNameP
  rw [htext, hp, idc (chars! "option") (by decide) (by decide), idc (chars! "box") (by decide) (by decide),
    idc (chars! "vec") (by decide) (by decide), hb, idc2 (chars! "map") (chars! "->") (by decide) (by decide), idc (chars! "set") (by decide) (by decide),
    idc (chars! "sender") (by decide) (by decide), idc (chars! "receiver") (by decide) (by decide), hl, hu,
    idc2 (chars! "result") (chars! ",") (by decide) (by decide), arrayP_ident_none _ hn, ← htext, hres]
  rfl

/-! ### all types -/

theorem typeText_head? {t : TypeName} (ht : ValidType t) : ((typeText t).head?.map isWhiteSpace) = some false := by
  cases t with
  | prim p => cases p <;> simp [typeText, Prim.text] <;> decide
  | ref r =>
    cases r with
    | intern n =>
      obtain ⟨c, r, rfl, hc⟩ := validIdent_head ht.1
      simp [typeText, namedRefText, idStart_not_ws hc]
    | extern s n =>
      obtain ⟨c, r, rfl, hc⟩ := validIdent_head ht.1.1
      simp [typeText, namedRefText, idStart_not_ws hc]
  | _ => simp [typeText] <;> decide

theorem typeText_head {t : TypeName} (ht : ValidType t) : ∃ c r, typeText t = c :: r ∧ isWhiteSpace c = false := by
  have := typeText_head? ht
  cases h : typeText t with
  | nil => simp [h] at this
  | cons c r => exact ⟨c, r, rfl, by simpa [h] using this⟩

theorem skipWs_typeText {t : TypeName} (ht : ValidType t) (rest : Str) :
    skipWs (typeText t ++ rest) = typeText t ++ rest := by
  obtain ⟨c, r, h, hc⟩ := typeText_head ht
  rw [h, List.cons_append, skipWs_cons_nws hc]

theorem typeFollow_gt (r : Str) : TypeFollow ('>' :: r) := typeFollow_cons r (by decide) (by decide) (by decide) (by decide)
theorem typeFollow_comma (r : Str) : TypeFollow (',' :: r) := typeFollow_cons r (by decide) (by decide) (by decide) (by decide)
theorem typeFollow_semi (r : Str) : TypeFollow (';' :: r) := typeFollow_cons r (by decide) (by decide) (by decide) (by decide)
theorem typeFollow_rbr (r : Str) : TypeFollow (']' :: r) := typeFollow_cons r (by decide) (by decide) (by decide) (by decide)

theorem generic1P_ok (rec : P TypeName) (k : Str) (mk : TypeName → TypeName) (t : TypeName) (ht : ValidType t)
    (rest : Str) (hrec : rec (typeText t ++ '>' :: rest) = some (t, '>' :: rest)) :
    generic1P rec k mk (k ++ '<' :: (typeText t ++ '>' :: rest)) = some (mk t, rest) := by
  unfold generic1P
  rw [kw_append]
  simp only [tok, skipWs_cons_nws (show isWhiteSpace '<' = false by decide),
    show ∀ r : Str, kw (chars! "<") ('<' :: r) = some ((), r) from fun r => kw_append (chars! "<") r,
    skipWs_typeText ht, hrec, skipWs_cons_nws (show isWhiteSpace '>' = false by decide),
    show ∀ r : Str, kw (chars! ">") ('>' :: r) = some ((), r) from fun r => kw_append (chars! ">") r]

theorem typeNameP_typeText : ∀ (t : TypeName), ValidType t → ∀ (fuel : Nat) (rest : Str), t.depth ≤ fuel →
    TypeFollow rest → typeNameP fuel (typeText t ++ rest) = some (t, rest)
  | t, ht, 0, rest, hd, hf => by cases t <;> simp [TypeName.depth] at hd
  | .ref r, ht, fuel + 1, rest, hd, hf => typeNameP_ref ht.1 ht.2 hf fuel
  | .prim p, ht, fuel + 1, rest, hd, hf => by
    unfold typeNameP
    cases p <;>
      simp [typeText, Prim.text, firstPrim, primsA, Prim.kwText, kw, lit, generic1P, generic2P, primKwP]
  | .option t, ht, fuel + 1, rest, hd, hf => by
    have ht' : ValidType t := ht
    have ih := typeNameP_typeText t ht' fuel ('>' :: rest) (by simp [TypeName.depth] at hd; omega) (typeFollow_gt rest)
    unfold typeNameP
    simp [typeText, firstPrim, primsA, Prim.kwText, kw, lit, generic1P, generic2P, primKwP, tok, skipWs_cons_nws,
      isWhiteSpace, skipWs_typeText ht', ih]
  | .box t, ht, fuel + 1, rest, hd, hf => by
    have ht' : ValidType t := ht
    have ih := typeNameP_typeText t ht' fuel ('>' :: rest) (by simp [TypeName.depth] at hd; omega) (typeFollow_gt rest)
    unfold typeNameP
    simp [typeText, firstPrim, primsA, Prim.kwText, kw, lit, generic1P, generic2P, primKwP, tok, skipWs_cons_nws,
      isWhiteSpace, skipWs_typeText ht', ih]
  | .vec t, ht, fuel + 1, rest, hd, hf => by
    have ht' : ValidType t := ht
    have ih := typeNameP_typeText t ht' fuel ('>' :: rest) (by simp [TypeName.depth] at hd; omega) (typeFollow_gt rest)
    unfold typeNameP
    simp [typeText, firstPrim, primsA, Prim.kwText, kw, lit, generic1P, generic2P, primKwP, tok, skipWs_cons_nws,
      isWhiteSpace, skipWs_typeText ht', ih]
  | .set t, ht, fuel + 1, rest, hd, hf => by
    have ht' : ValidType t := ht
    have ih := typeNameP_typeText t ht' fuel ('>' :: rest) (by simp [TypeName.depth] at hd; omega) (typeFollow_gt rest)
    unfold typeNameP
    simp [typeText, firstPrim, primsA, Prim.kwText, kw, lit, generic1P, generic2P, primKwP, tok, skipWs_cons_nws,
      isWhiteSpace, skipWs_typeText ht', ih]
  | .sender t, ht, fuel + 1, rest, hd, hf => by
    have ht' : ValidType t := ht
    have ih := typeNameP_typeText t ht' fuel ('>' :: rest) (by simp [TypeName.depth] at hd; omega) (typeFollow_gt rest)
    unfold typeNameP
    simp [typeText, firstPrim, primsA, Prim.kwText, kw, lit, generic1P, generic2P, primKwP, tok, skipWs_cons_nws,
      isWhiteSpace, skipWs_typeText ht', ih]
  | .receiver t, ht, fuel + 1, rest, hd, hf => by
    have ht' : ValidType t := ht
    have ih := typeNameP_typeText t ht' fuel ('>' :: rest) (by simp [TypeName.depth] at hd; omega) (typeFollow_gt rest)
    unfold typeNameP
    simp [typeText, firstPrim, primsA, Prim.kwText, kw, lit, generic1P, generic2P, primKwP, tok, skipWs_cons_nws,
      isWhiteSpace, skipWs_typeText ht', ih]
  | .map k v, ht, fuel + 1, rest, hd, hf => by
    have hk : ValidType k := ht.1
    have hv : ValidType v := ht.2
    have ihk := typeNameP_typeText k hk fuel (' ' :: '-' :: '>' :: ' ' :: (typeText v ++ '>' :: rest))
      (by simp [TypeName.depth] at hd; omega) (typeFollow_space_arrow _)
    have ihv := typeNameP_typeText v hv fuel ('>' :: rest) (by simp [TypeName.depth] at hd; omega) (typeFollow_gt rest)
    unfold typeNameP
    simp [typeText, firstPrim, primsA, Prim.kwText, kw, lit, generic1P, generic2P, primKwP, tok, skipWs_cons_nws,
      isWhiteSpace, skipWs_typeText hk, skipWs_typeText hv, ihk, ihv]
  | .result a b, ht, fuel + 1, rest, hd, hf => by
    have ha : ValidType a := ht.1
    have hb : ValidType b := ht.2
    have iha := typeNameP_typeText a ha fuel (',' :: ' ' :: (typeText b ++ '>' :: rest))
      (by simp [TypeName.depth] at hd; omega) (typeFollow_comma _)
    have ihb := typeNameP_typeText b hb fuel ('>' :: rest) (by simp [TypeName.depth] at hd; omega) (typeFollow_gt rest)
    unfold typeNameP
    simp [typeText, firstPrim, primsA, Prim.kwText, kw, lit, generic1P, generic2P, primKwP, tok, skipWs_cons_nws,
      isWhiteSpace, skipWs_typeText ha, skipWs_typeText hb, iha, ihb]
  | .array t l, ht, fuel + 1, rest, hd, hf => by
    have ht' : ValidType t := ht.1
    have ih := typeNameP_typeText t ht' fuel (';' :: ' ' :: (arrayLenText l ++ ']' :: rest))
      (by simp [TypeName.depth] at hd; omega) (typeFollow_semi _)
    have hl : arrayLenP (arrayLenText l ++ ']' :: rest) = some (l, ']' :: rest) := by
      cases l with
      | lit v =>
        have hv : ValidInt v := ht.2
        simp [arrayLenP, arrayLenText, litIntP_append hv (show NoDigit (']' :: rest) from fun c r h => by cases h; decide)]
      | ref r =>
        have hr : ValidRef r := ht.2
        have hnone : litIntP (namedRefText r ++ ']' :: rest) = none := by
          obtain ⟨c, r', htx, hc⟩ : ∃ c r', namedRefText r ++ ']' :: rest = c :: r' ∧ isIdStart c = true := by
            cases r with
            | intern n =>
              obtain ⟨c, r', rfl, hc, _⟩ := (show ValidIdent n from hr)
              exact ⟨c, _, rfl, hc⟩
            | extern s n =>
              obtain ⟨c, r', rfl, hc, _⟩ := (show ValidIdent s from hr.1)
              exact ⟨c, r' ++ ':' :: ':' :: (n ++ ']' :: rest), by simp [namedRefText], hc⟩
          rw [htx]
          unfold litIntP
          split
          · rename_i heq; simp at heq; exact absurd heq.1 (idStart_ne_dash hc)
          · simp [digitsP, List.takeWhile, idStart_not_digit hc]
        simp [arrayLenP, arrayLenText, hnone, namedRefP_text hr (typeFollow_rbr rest)]
    have hlw : skipWs (arrayLenText l ++ ']' :: rest) = arrayLenText l ++ ']' :: rest := by
      cases l with
      | lit v =>
        obtain ⟨ds, hne, hd', hv⟩ := (show ValidInt v from ht.2)
        cases ds with
        | nil => exact absurd rfl hne
        | cons d ds =>
          have hdw : isWhiteSpace d = false := digit_not_ws (hd' d List.mem_cons_self)
          rcases hv with rfl | rfl
          · exact skipWs_cons_nws hdw _
          · exact skipWs_cons_nws (by decide) _
      | ref r =>
        cases r with
        | intern n => exact skipWs_ident (show ValidIdent n from ht.2) _
        | extern s n =>
          have := skipWs_ident (show ValidIdent s from (show ValidRef (.extern s n) from ht.2).1) ((chars! "::") ++ n ++ ']' :: rest)
          simpa [arrayLenText, namedRefText] using this
    unfold typeNameP
    simp [typeText, firstPrim, primsA, Prim.kwText, kw, lit, generic1P, generic2P, primKwP, arrayP, tok, skipWs_cons_nws,
      isWhiteSpace, skipWs_typeText ht', ih, hl, hlw]

end Aldrin.Schema
