/-
Imports, the choice between definitions, and the whole file.
-/
import Aldrin.Lemmas.Schema.Service2

namespace Aldrin.Schema

/-! ### imports -/

def ValidImport (i : Import) : Prop := ValidLines 2 i.comment ∧ ValidIdent i.name

def canonImport (i : Import) : Import := { i with comment := i.comment.map canonC }

def importText (i : Import) : Str := joined (preItems i.comment [] [] 0) ++ (chars! "import " ++ (i.name ++ [';']))

theorem emits_importF (i : Import) : Emits (importF i) (fun t => t = importText i) := by
  have := emits_line (newlineWithFirst (!i.comment.isEmpty)) (newlineWithFirst_out _)
    [prelude i.comment [] [] 0 false, w (chars! "import "), w i.name, w (chars! ";")]
    (importText i)
    (by apply pure_congr
        · apply pure_seq_cons (pure_prelude _ _ _ _); pure_tac
        · simp [importText])
    (!i.comment.isEmpty)
  simpa [importF] using this

theorem vi_import : ValidIdent (chars! "import") := ⟨'i', chars! "mport", rfl, by decide, by decide⟩

theorem importP_text (i : Import) (hv : ValidImport i) (fuel : Nat) (hf : i.comment.length < fuel) (w rest : Str) (hw : Blank w) :
    importP fuel (skipWs (w ++ (importText i ++ rest))) = some (canonImport i, rest) := by
  obtain ⟨hvc, hn⟩ := hv
  have hpre := preludeP_text i.comment [] [] 0 true false false fuel (chars! "import " ++ (i.name ++ (';' :: rest)))
    (fun _ => rfl) (fun h => absurd rfl h) (fun h => absurd rfl h) hvc (by intro l hl; cases hl) (by simp)
    (by
      have := noPre_ident vi_import true false false fuel [] (' ' :: (i.name ++ (';' :: rest))) blank_nil
      simpa using this)
    (by simp; omega) w hw
  simp only [] at hpre
  obtain ⟨hp1, _, _, hp4⟩ := hpre
  rw [show skipWs (chars! "import " ++ (i.name ++ (';' :: rest))) = chars! "import " ++ (i.name ++ (';' :: rest)) from
    skipWs_cons_nws (by decide) _] at hp4
  have hh := headerP_text (chars! "import") (by decide) hn (';' :: rest) (noCont_cons _ (by decide))
  unfold importP importText
  simp only [List.append_assoc, List.cons_append, List.nil_append] at hp1 hp4 hh ⊢
  simp only [hp4, hp1, hh, tok, skipWs_cons_nws (show isWhiteSpace ';' = false by decide)]
  simp [kw, lit, canonImport]

/-! ### definitions -/

def ValidDef : Definition → Prop
  | .struct d => ValidStruct d
  | .enum d => ValidEnum d
  | .service d => ValidService d
  | .const d => ValidConst d
  | .newtype d => ValidNewtype d

def canonDef : Definition → Definition
  | .struct d => .struct (canonStruct d)
  | .enum d => .enum (canonEnum d)
  | .service d => .service (canonService d)
  | .const d => .const (canonConst d)
  | .newtype d => .newtype (canonNewtype d)

def DefTexts (d : Definition) (txt : Str) : Prop :=
  match d with
  | .struct d => StructTexts d txt
  | .enum d => EnumTexts d txt
  | .service d => ServiceTexts d txt
  | .const d => txt = constText d
  | .newtype d => txt = newtypeText d

def defFuel : Definition → Nat
  | .struct d => structFuel d
  | .enum d => enumFuel d
  | .service d => serviceFuel d
  | .const d => d.comment.length + d.doc.length + 1
  | .newtype d => newtypeFuel d

theorem emits_definitionF (d : Definition) : Emits (definitionF d) (DefTexts d) := by
  cases d with
  | struct d => exact emits_structDefF d
  | enum d => exact emits_enumDefF d
  | service d => exact emits_serviceF d
  | const d => exact emits_constF d
  | newtype d => exact emits_newtypeF d

/-- The shape every definition text has: a prelude at indent 0, the keyword, a blank. -/
def DefShape (cm dc : List Line) (ats : List Attribute) (k : Str) (txt : Str) : Prop :=
  ∃ more, txt = joined (preItems cm dc ats 0) ++ (k ++ (' ' :: more))

theorem structText_shape (d : StructDef) (txt : Str) (ht : StructTexts d txt) :
    DefShape d.comment d.doc d.attrs (chars! "struct") txt := by
  obtain ⟨wts, wfb, _, _, rfl⟩ := ht
  exact ⟨d.name ++ (if !d.fields.isEmpty || d.fallback.isSome then structBodyText d.fields d.fallback 4 wts wfb else chars! " {}"), by simp⟩

theorem enumText_shape (d : EnumDef) (txt : Str) (ht : EnumTexts d txt) :
    DefShape d.comment d.doc d.attrs (chars! "enum") txt := by
  obtain ⟨wts, wfb, _, _, rfl⟩ := ht
  exact ⟨d.name ++ (if !d.variants.isEmpty || d.fallback.isSome then enumBodyText d.variants d.fallback 4 wts wfb else chars! " {}"), by simp⟩

theorem serviceText_shape (d : ServiceDef) (txt : Str) (ht : ServiceTexts d txt) :
    ∃ more, txt = joined (preItems d.comment d.doc [] 0) ++ (chars! "service" ++ (' ' :: more)) := by
  obtain ⟨wts, wf, we, _, _, _, rfl⟩ := ht
  refine ⟨d.name ++ (chars! " {\n" ++
    (joined (preItems d.uuidComment [] [] 4) ++ (chars! "    uuid = " ++ (d.uuid ++ (chars! ";\n" ++
      (nlIf (!d.uuidComment.isEmpty || !d.versionComment.isEmpty) ++
        (joined (preItems d.versionComment [] [] 4) ++ (chars! "    version = " ++ (d.version ++ chars! ";\n")))))))) ++
    (joined (blockItems canonItem d.items wts) ++
      (itemFbPart d.fnFallback (chars! "fn") wf ++ (itemFbPart d.evFallback (chars! "event") we ++ ['}'])))), ?_⟩
  simp [serviceHeadText]

theorem constText_shape (d : ConstDef) :
    ∃ more, constText d = joined (preItems d.comment d.doc [] 0) ++ (chars! "const" ++ (' ' :: more)) :=
  ⟨d.name ++ (chars! " = " ++ (d.kind.text ++ ('(' :: (d.value ++ chars! ");")))), by simp [constText]⟩

theorem newtypeText_shape (d : NewtypeDef) :
    ∃ more, newtypeText d = joined (preItems d.comment d.doc d.attrs 0) ++ (chars! "newtype" ++ (' ' :: more)) :=
  ⟨d.name ++ (chars! " = " ++ (typeText d.target ++ [';'])), by simp [newtypeText]⟩

/-- The lines and attributes of a definition's prelude are well formed, and the fuel covers them. -/
def PreOK (cm dc : List Line) (ats : List Attribute) (fuel : Nat) : Prop :=
  ValidLines 2 cm ∧ ValidLines 3 dc ∧ (∀ a ∈ ats, ValidAttr a ∧ a.options.length < fuel) ∧ cm.length + dc.length + ats.length < fuel

theorem prelude_full (cm dc : List Line) (ats : List Attribute) (fuel : Nat) (hp : PreOK cm dc ats fuel) {k : Str}
    (hk : ValidIdent k) (more w : Str) (hw : Blank w) :
    (preludeP true true true fuel (skipWs (w ++ (joined (preItems cm dc ats 0) ++ (k ++ more))))).2 = k ++ more := by
  obtain ⟨hvc, hvd, hva, hf⟩ := hp
  have hpre := preludeP_text cm dc ats 0 true true true fuel (k ++ more)
    (fun _ => rfl) (fun _ => rfl) (fun _ => rfl) hvc hvd hva
    (by have := noPre_ident hk true true true fuel [] more blank_nil; simpa using this) hf w hw
  simp only [] at hpre
  rw [hpre.2.2.2]
  exact skipWs_ident hk more

theorem vi_struct : ValidIdent (chars! "struct") := ⟨'s', chars! "truct", rfl, by decide, by decide⟩
theorem vi_enum : ValidIdent (chars! "enum") := ⟨'e', chars! "num", rfl, by decide, by decide⟩
theorem vi_service : ValidIdent (chars! "service") := ⟨'s', chars! "ervice", rfl, by decide, by decide⟩
theorem vi_const : ValidIdent (chars! "const") := ⟨'c', chars! "onst", rfl, by decide, by decide⟩
theorem vi_newtype : ValidIdent (chars! "newtype") := ⟨'n', chars! "ewtype", rfl, by decide, by decide⟩

/-- A definition parser that accepts attributes fails on a definition with a different keyword. -/
theorem structDefP_mismatch (cm dc : List Line) (ats : List Attribute) (fuel : Nat) (hp : PreOK cm dc ats fuel) {k : Str}
    (hk : ValidIdent k) (hne : ∀ m, kw (chars! "struct") (k ++ m) = none) (more w rest : Str) (hw : Blank w) :
    structDefP fuel (skipWs (w ++ ((joined (preItems cm dc ats 0) ++ (k ++ (' ' :: more))) ++ rest))) = none := by
  have := prelude_full cm dc ats fuel hp hk (' ' :: more ++ rest) w hw
  unfold structDefP
  simp only [List.append_assoc, List.cons_append] at this ⊢
  simp [this, defOpenP, headerP, kwWs, hne]

theorem enumDefP_mismatch (cm dc : List Line) (ats : List Attribute) (fuel : Nat) (hp : PreOK cm dc ats fuel) {k : Str}
    (hk : ValidIdent k) (hne : ∀ m, kw (chars! "enum") (k ++ m) = none) (more w rest : Str) (hw : Blank w) :
    enumDefP fuel (skipWs (w ++ ((joined (preItems cm dc ats 0) ++ (k ++ (' ' :: more))) ++ rest))) = none := by
  have := prelude_full cm dc ats fuel hp hk (' ' :: more ++ rest) w hw
  unfold enumDefP
  simp only [List.append_assoc, List.cons_append] at this ⊢
  simp [this, defOpenP, headerP, kwWs, hne]

theorem serviceDefP_mismatch (cm dc : List Line) (ats : List Attribute) (fuel : Nat) (hp : PreOK cm dc ats fuel) {k : Str}
    (hk : ValidIdent k) (hne : ∀ m, kw (chars! "service") (k ++ m) = none) (more w rest : Str) (hw : Blank w) :
    serviceDefP fuel (skipWs (w ++ ((joined (preItems cm dc ats 0) ++ (k ++ (' ' :: more))) ++ rest))) = none := by
  obtain ⟨hvc, hvd, _, hf⟩ := hp
  have hs := preludeP_no_attrs cm dc ats fuel hk (' ' :: more ++ rest) hvc hvd (by omega) w hw
  have hnone := kwWs_stops_none (kx := chars! "service") hs (by intro t; simp [kw, lit]) (by intro t; simp [kw, lit]) (hne _)
  unfold serviceDefP
  simp only [List.append_assoc, List.cons_append] at hnone ⊢
  simp [defOpenP, headerP, hnone]

theorem constDefP_mismatch (cm dc : List Line) (ats : List Attribute) (fuel : Nat) (hp : PreOK cm dc ats fuel) {k : Str}
    (hk : ValidIdent k) (hne : ∀ m, kw (chars! "const") (k ++ m) = none) (more w rest : Str) (hw : Blank w) :
    constDefP fuel (skipWs (w ++ ((joined (preItems cm dc ats 0) ++ (k ++ (' ' :: more))) ++ rest))) = none := by
  obtain ⟨hvc, hvd, _, hf⟩ := hp
  have hs := preludeP_no_attrs cm dc ats fuel hk (' ' :: more ++ rest) hvc hvd (by omega) w hw
  have hnone := kwWs_stops_none (kx := chars! "const") hs (by intro t; simp [kw, lit]) (by intro t; simp [kw, lit]) (hne _)
  unfold constDefP
  simp only [List.append_assoc, List.cons_append] at hnone ⊢
  simp [nameEqP, headerP, hnone]

theorem defP_text (d : Definition) (hv : ValidDef d) (fuel : Nat) (hf : defFuel d ≤ fuel) (txt : Str) (ht : DefTexts d txt)
    (w rest : Str) (hw : Blank w) : defP fuel (skipWs (w ++ (txt ++ rest))) = some (canonDef d, rest) := by
  cases d with
  | struct d => simp [defP, structDefP_text d hv fuel hf txt ht w rest hw, canonDef]
  | enum d =>
    have hp := enumDefP_text d hv fuel hf txt ht w rest hw
    obtain ⟨more, rfl⟩ := enumText_shape d txt ht
    have hpre : PreOK d.comment d.doc d.attrs fuel := by
      obtain ⟨hvc, hvd, hva, _⟩ := hv
      simp only [defFuel, enumFuel] at hf
      exact ⟨hvc, hvd, attrs_valid_fuel hva (by omega), by omega⟩
    have h1 := structDefP_mismatch d.comment d.doc d.attrs fuel hpre vi_enum (by intro m; simp [kw, lit]) more w rest hw
    unfold defP
    simp only [h1, hp]
    rfl
  | service d =>
    have hp := serviceDefP_text d hv fuel hf txt ht w rest hw
    obtain ⟨more, rfl⟩ := serviceText_shape d txt ht
    have hpre : PreOK d.comment d.doc [] fuel := by
      obtain ⟨hvc, hvd, _⟩ := hv
      simp only [defFuel, serviceFuel] at hf
      exact ⟨hvc, hvd, by simp, by simp; omega⟩
    have h1 := structDefP_mismatch d.comment d.doc [] fuel hpre vi_service (by intro m; simp [kw, lit]) more w rest hw
    have h2 := enumDefP_mismatch d.comment d.doc [] fuel hpre vi_service (by intro m; simp [kw, lit]) more w rest hw
    unfold defP
    simp only [h1, h2, hp]
    rfl
  | const d =>
    simp only [DefTexts] at ht
    subst ht
    have hp := constDefP_text d hv fuel (by simp only [defFuel] at hf; omega) w rest hw
    obtain ⟨more, hshape⟩ := constText_shape d
    rw [hshape] at hp ⊢
    have hpre : PreOK d.comment d.doc [] fuel := by
      obtain ⟨hvc, hvd, _⟩ := hv
      simp only [defFuel] at hf
      exact ⟨hvc, hvd, by simp, by simp; omega⟩
    have h1 := structDefP_mismatch d.comment d.doc [] fuel hpre vi_const (by intro m; simp [kw, lit]) more w rest hw
    have h2 := enumDefP_mismatch d.comment d.doc [] fuel hpre vi_const (by intro m; simp [kw, lit]) more w rest hw
    have h3 := serviceDefP_mismatch d.comment d.doc [] fuel hpre vi_const (by intro m; simp [kw, lit]) more w rest hw
    unfold defP
    simp only [h1, h2, h3, hp]
    rfl
  | newtype d =>
    simp only [DefTexts] at ht
    subst ht
    have hp := newtypeDefP_text d hv fuel hf w rest hw
    obtain ⟨more, hshape⟩ := newtypeText_shape d
    rw [hshape] at hp ⊢
    have hpre : PreOK d.comment d.doc d.attrs fuel := by
      obtain ⟨hvc, hvd, hva, _⟩ := hv
      simp only [defFuel, newtypeFuel] at hf
      exact ⟨hvc, hvd, attrs_valid_fuel hva (by omega), by omega⟩
    have h1 := structDefP_mismatch d.comment d.doc d.attrs fuel hpre vi_newtype (by intro m; simp [kw, lit]) more w rest hw
    have h2 := enumDefP_mismatch d.comment d.doc d.attrs fuel hpre vi_newtype (by intro m; simp [kw, lit]) more w rest hw
    have h3 := serviceDefP_mismatch d.comment d.doc d.attrs fuel hpre vi_newtype (by intro m; simp [kw, lit]) more w rest hw
    have h4 := constDefP_mismatch d.comment d.doc d.attrs fuel hpre vi_newtype (by intro m; simp [kw, lit]) more w rest hw
    unfold defP
    simp only [h1, h2, h3, h4, hp]
    rfl

end Aldrin.Schema
