/-
Inline structs and enums (in function parts and events) and `type_name_or_inline`.
-/
import Aldrin.Lemmas.Schema.Dispatch

namespace Aldrin.Schema

/-! ### inline preludes: `//!` lines and `#![…]` attributes -/

def inlinePreItems (dc : List Line) (ats : List Attribute) (ind : Nat) : List (PreItem × Str × Str) :=
  dc.map (fun d => (PreItem.doc (canonDI d), List.replicate ind ' ' ++ canonDI d, ([] : Str))) ++
  ats.map (fun a => (PreItem.attr a, List.replicate ind ' ' ++ attrText a true, ['\n']))

theorem pure_prelude_inline (dc : List Line) (ats : List Attribute) (ind : Nat) :
    Pure (prelude [] dc ats ind true) (joined (inlinePreItems dc ats ind)) := by
  unfold prelude
  apply pure_congr
  · apply pure_seq_cons (pure_commentLines [] ind)
    apply pure_seq_cons (pure_docLines dc ind _)
    apply pure_seq_cons
    · exact pure_forF ats _ _ (fun a _ => pure_attributeF a ind true)
    · exact pure_seq_nil
  · simp [inlinePreItems, joined, canonDI, List.map_append, List.flatten_append, Function.comp_def]

theorem inlinePreItems_seqOk (dc : List Line) (ats : List Attribute) (ind fuel : Nat) (rest : Str)
    (hvd : ValidLines 3 dc) (hva : ∀ x ∈ ats, ValidAttr x ∧ x.options.length < fuel)
    (hend : inlinePreItemP fuel (skipWs rest) = none) : SeqOk (inlinePreItemP fuel) (inlinePreItems dc ats ind) rest := by
  unfold inlinePreItems
  apply seqOk_append
  · apply seqItems_map
    intro x hx tail
    refine ⟨blank_nil, ?_⟩
    simp only [canonDI]
    have : skipWs (List.replicate ind ' ' ++ canonLine (chars! "//!") (inner 3 x) ++ ([] ++ tail))
        = canonLine (chars! "//!") (inner 3 x) ++ tail := by
      rw [List.append_assoc, skipWs_indent, List.nil_append]
      simp only [canonLine, List.cons_append]
      exact skipWs_cons_nws (by decide) _
    rw [this]
    simp [inlinePreItemP, docInlineP_canon _ tail (hvd x hx)]
  · have : SeqItems (inlinePreItemP fuel)
        (ats.map (fun a => (PreItem.attr a, List.replicate ind ' ' ++ attrText a true, ['\n']))) rest := by
      apply seqItems_map
      intro x hx tail
      refine ⟨blank_nl, ?_⟩
      simp only []
      rw [List.append_assoc, skipWs_indent]
      have hhead : attrText x true ++ ('\n' :: tail) = '#' :: ('!' :: '[' :: (x.name ++ ((if x.options.isEmpty then [] else chars! "(" ++ intercalate (chars! ", ") x.options ++ chars! ")") ++ chars! "]" ++ '\n' :: tail))) := by
        simp [attrText]
      have hp := attributeP_text x (hva x hx).1 true ('\n' :: tail) fuel (hva x hx).2
      rw [show ['\n'] ++ tail = '\n' :: tail from rfl, hhead, skipWs_cons_nws (by decide)]
      rw [hhead] at hp
      simp only [List.cons_append, List.nil_append, List.append_assoc, List.isEmpty_iff] at hp
      simp [inlinePreItemP, docInlineP, hp]
    have hlast : SeqOk (inlinePreItemP fuel) [] rest := hend
    have := seqOk_append _ _ [] rest (by simpa using this) hlast
    simpa using this

theorem inlinePre_map (dc : List Line) (ats : List Attribute) (ind : Nat) :
    preDocs ((inlinePreItems dc ats ind).map (·.1)) = dc.map canonDI ∧
    preAttrs ((inlinePreItems dc ats ind).map (·.1)) = ats := by
  have hnone : ∀ {α β : Type} (l : List α), List.filterMap (fun _ => (none : Option β)) l = [] := by
    intro α β l; induction l <;> simp_all
  simp [inlinePreItems, preDocs, preAttrs, List.filterMap_append, List.filterMap_map, Function.comp_def, hnone]

/-- `kw ~ "{" ~ (doc_string_inline | attribute_inline)*` on what the formatter writes. -/
theorem inlineOpenP_text (k : Str) (dc : List Line) (ats : List Attribute) (ind fuel : Nat) (rest : Str)
    (hvd : ValidLines 3 dc) (hva : ∀ x ∈ ats, ValidAttr x ∧ x.options.length < fuel)
    (hend : inlinePreItemP fuel (skipWs rest) = none) (hfuel : dc.length + ats.length < fuel) :
    ∃ items, inlineOpenP k fuel (k ++ (' ' :: '{' :: '\n' :: (joined (inlinePreItems dc ats ind) ++ rest)))
      = some (items, skipWs rest) ∧ preDocs items = dc.map canonDI ∧ preAttrs items = ats := by
  have hseq := inlinePreItems_seqOk dc ats ind fuel rest hvd hva hend
  have hm := many_seq _ _ rest fuel hseq (by simp [inlinePreItems]; omega)
  obtain ⟨h1, h2⟩ := inlinePre_map dc ats ind
  refine ⟨(many (inlinePreItemP fuel) fuel (skipWs (joined (inlinePreItems dc ats ind) ++ rest))).1, ?_, ?_, ?_⟩
  · unfold inlineOpenP kwWs
    rw [kw_append]
    have hb : skipWs ('{' :: '\n' :: (joined (inlinePreItems dc ats ind) ++ rest)) = '{' :: '\n' :: (joined (inlinePreItems dc ats ind) ++ rest) :=
      skipWs_cons_nws (by decide) _
    simp [atWs, isWhiteSpace, tok, hb, kw, lit, hm.2]
  · rw [hm.1]; exact h1
  · rw [hm.1]; exact h2

/-- No inline prelude item starts where a field, a variant, a fallback entry or the closing brace starts. -/
theorem inlinePreItemP_none_of_head {c : Char} (r : Str) (fuel : Nat) (h1 : c ≠ '#')
    (h2 : ∀ t, c :: r ≠ '/' :: '/' :: '!' :: t) : inlinePreItemP fuel (c :: r) = none := by
  have hd : docInlineP (c :: r) = none := by
    unfold docInlineP
    split
    · rename_i hp
      exfalso
      have hp : (chars! "//!") <+: (c :: r) := by simpa using hp
      obtain ⟨t, ht⟩ := hp
      exact h2 t (by simpa using ht.symm)
    · rfl
  simp [inlinePreItemP, hd, attributeP, kw, lit, h1, Ne.symm h1, Option.bind_eq_bind]

/-! ### inline structs -/

def ValidInlineStruct (s : InlineStruct) : Prop :=
  ValidLines 3 s.doc ∧ (∀ a ∈ s.attrs, ValidAttr a) ∧ (∀ f ∈ s.fields, ValidField f) ∧
  (∀ fb, s.fallback = some fb → ValidFallback fb)

def canonInlineStruct (s : InlineStruct) : InlineStruct :=
  { doc := s.doc.map canonDI, attrs := s.attrs, fields := s.fields.map canonField, fallback := s.fallback.map canonFallback }

def inlineStructFuel (s : InlineStruct) : Nat :=
  s.doc.length + s.attrs.length + listMax (s.attrs.map (·.options.length)) +
  s.fields.length + listMax (s.fields.map fieldFuel) + fallbackFuel s.fallback + 1

/-- Text of an inline struct without the final line end. -/
def InlineStructTexts (s : InlineStruct) (ind : Nat) (t : Str) : Prop :=
  ∃ wts wfb, BlockRel (fun (f : StructField) t => t = fieldText f (ind + 4)) s.fields wts ∧ Blank wfb ∧
    t = chars! "struct" ++ (if isMultiStruct [] s.doc s.attrs s.fields s.fallback then
      ' ' :: '{' :: '\n' :: (joined (inlinePreItems s.doc s.attrs (ind + 4)) ++ (joined (blockItems canonField s.fields wts) ++
        (fbPart s.fallback wfb (ind + 4) ++ (List.replicate ind ' ' ++ ['}']))))
      else chars! " {}")

theorem inlineStructF_out (s : InlineStruct) (ind : Nat) (st : FSt) :
    ∃ t, InlineStructTexts s ind t ∧ (inlineStructF s ind st).out = st.out ++ (t ++ ['\n']) := by
  unfold inlineStructF
  by_cases hm : isMultiStruct [] s.doc s.attrs s.fields s.fallback = true
  · simp only [hm, ↓reduceIte]
    -- the prelude part is written with or without `prelude`, the text is the same
    have hpre : ∀ st', ((if (!s.doc.isEmpty || !s.attrs.isEmpty) = true then prelude [] s.doc s.attrs (ind + 4) true else id) st').out
        = st'.out ++ joined (inlinePreItems s.doc s.attrs (ind + 4)) := by
      intro st'
      by_cases hp : (!s.doc.isEmpty || !s.attrs.isEmpty) = true
      · simp only [hp, ↓reduceIte]; exact pure_out (pure_prelude_inline _ _ _) st'
      · have hd : s.doc = [] := by cases h : s.doc <;> simp_all
        have ha : s.attrs = [] := by cases h : s.attrs <;> simp_all
        simp [hp, hd, ha, inlinePreItems]
    let st1 := nl (w (chars! "struct {") st)
    let st2 := setNewline (!s.doc.isEmpty || !s.attrs.isEmpty)
      ((if (!s.doc.isEmpty || !s.attrs.isEmpty) = true then prelude [] s.doc s.attrs (ind + 4) true else id) st1)
    obtain ⟨wts, wfb, hrel, hwfb, hfo⟩ := fieldsF_out s.fields s.fallback (ind + 4) st2
    refine ⟨_, ⟨wts, wfb, hrel, hwfb, rfl⟩, ?_⟩
    simp only [seqF, id, hm, ↓reduceIte]
    have : (nl (w (chars! "}") (indent ind (fieldsF s.fields s.fallback (ind + 4) st2)))).out
        = (fieldsF s.fields s.fallback (ind + 4) st2).out ++ (List.replicate ind ' ' ++ chars! "}\n") := by
      simp [nl, w, indent]
    show (nl (w (chars! "}") (indent ind (fieldsF s.fields s.fallback (ind + 4) st2)))).out = _
    rw [this, hfo]
    simp only [st2, st1, setNewline_out, hpre, nl, w]
    simp
  · have hm' : isMultiStruct [] s.doc s.attrs s.fields s.fallback = false := by simpa using hm
    simp only [hm', Bool.false_eq_true, ↓reduceIte]
    refine ⟨_, ⟨[], [], ?_, blank_nil, rfl⟩, ?_⟩
    · have : s.fields = [] := by
        cases hfs : s.fields with
        | nil => rfl
        | cons x l => simp [isMultiStruct, hfs] at hm'
      rw [this]; trivial
    · simp [seqF, nl, w, hm']

/-- Where an item with a regular prelude starts, no inline prelude item starts. -/
theorem inlinePre_none_at_item (cm dc : List Line) (ind fuel : Nat) {c : Char} (core : Str) (hc : isIdStart c = true)
    (w : Str) (hw : Blank w) :
    inlinePreItemP fuel (skipWs (w ++ (joined (preItems cm dc [] ind) ++ (List.replicate ind ' ' ++ (c :: core))))) = none := by
  rw [skipWs_blank hw]
  cases cm with
  | cons x cm =>
    simp only [preItems, List.map_cons, List.cons_append, joined_cons, List.append_assoc]
    rw [skipWs_indent]
    simp only [canonC, canonLine, List.cons_append]
    rw [skipWs_cons_nws (by decide)]
    apply inlinePreItemP_none_of_head _ _ (by decide)
    intro t ht
    cases hi : (inner 2 x).isEmpty <;> simp [hi] at ht
  | nil =>
    cases dc with
    | cons x dc =>
      simp only [preItems, List.map_nil, List.nil_append, List.map_cons, List.cons_append, joined_cons, List.append_assoc]
      rw [skipWs_indent]
      simp only [canonD, canonLine, List.cons_append]
      rw [skipWs_cons_nws (by decide)]
      apply inlinePreItemP_none_of_head _ _ (by decide)
      intro t ht
      simp at ht
    | nil =>
      simp only [preItems, List.map_nil, List.nil_append, joined_nil]
      rw [skipWs_indent, skipWs_cons_nws (idStart_not_ws' hc)]
      apply inlinePreItemP_none_of_head _ _ (by intro he; subst he; simp [isIdStart] at hc)
      intro t ht
      have : c = '/' := by simpa using congrArg List.head? ht
      subst this; simp [isIdStart] at hc

theorem fieldCore_head (f : StructField) (hv : ValidField f) : ∃ c core, fieldCore f = c :: core ∧ isIdStart c = true := by
  unfold fieldCore
  cases f.required
  · obtain ⟨c, r, hn, hc, _⟩ := hv.2.2.1
    refine ⟨c, r ++ (' ' :: '@' :: ' ' :: (f.id ++ (' ' :: '=' :: ' ' :: (typeText f.ty ++ [';'])))), by simp [hn], hc⟩
  · refine ⟨'r', chars! "equired " ++ (f.name ++ (' ' :: '@' :: ' ' :: (f.id ++ (' ' :: '=' :: ' ' :: (typeText f.ty ++ [';']))))), by simp, by decide⟩

theorem inlinePre_none_at_struct_body (s : InlineStruct) (hv : ValidInlineStruct s) (ind fuel : Nat) (wts : List (Str × Str))
    (wfb rest : Str) (hrel : BlockRel (fun (f : StructField) t => t = fieldText f (ind + 4)) s.fields wts) (hwfb : Blank wfb) :
    inlinePreItemP fuel (skipWs (joined (blockItems canonField s.fields wts) ++
      (fbPart s.fallback wfb (ind + 4) ++ (List.replicate ind ' ' ++ '}' :: rest)))) = none := by
  obtain ⟨_, _, hvf, hvfb⟩ := hv
  cases hfs : s.fields with
  | cons f fs =>
    rw [hfs] at hrel
    cases wts with
    | nil => simp [BlockRel] at hrel
    | cons x wts =>
      obtain ⟨w, txt⟩ := x
      obtain ⟨hw, rfl, _⟩ := hrel
      obtain ⟨c, core, hcore, hc⟩ := fieldCore_head f (hvf f (by rw [hfs]; exact List.mem_cons_self))
      simp only [blockItems, joined_cons, fieldText, List.append_assoc, hcore, List.cons_append]
      exact inlinePre_none_at_item f.comment f.doc (ind + 4) fuel _ hc w hw
  | nil =>
    rw [hfs] at hrel
    have : wts = [] := by cases wts <;> simp_all [BlockRel]
    subst this
    simp only [blockItems, joined_nil, List.nil_append]
    cases hfb : s.fallback with
    | some fb =>
      obtain ⟨c, r, hn, hc, _⟩ := (hvfb fb hfb).2.2
      simp only [fbPart, fallbackText, List.append_assoc, hn, List.cons_append]
      exact inlinePre_none_at_item fb.comment fb.doc (ind + 4) fuel _ hc wfb hwfb
    | none =>
      simp only [fbPart, List.nil_append]
      rw [skipWs_indent, skipWs_cons_nws (by decide)]
      exact inlinePreItemP_none_of_head _ _ (by decide) (by intro t ht; simp at ht)

theorem inlineStructP_text (s : InlineStruct) (hv : ValidInlineStruct s) (ind fuel : Nat) (hf : inlineStructFuel s ≤ fuel)
    (t : Str) (ht : InlineStructTexts s ind t) (rest : Str) :
    inlineStructP fuel (t ++ rest) = some (canonInlineStruct s, rest) := by
  have hv' := hv
  obtain ⟨hvd, hva, hvf, hvfb⟩ := hv
  obtain ⟨wts, wfb, hrel, hwfb, rfl⟩ := ht
  unfold inlineStructFuel at hf
  have hfuelF : ∀ f ∈ s.fields, fieldFuel f ≤ fuel := fun f hf' => by
    have := le_listMax (List.mem_map_of_mem (f := fieldFuel) hf'); omega
  have hb := bodyP_text canonField (fun (f : StructField) t => t = fieldText f (ind + 4)) structFieldP s.fields wts s.fallback wfb
    (List.replicate ind ' ') rest (ind + 4) fuel hrel
    (fun f hf' w txt tail' hw' htxt => by subst htxt; exact structFieldP_text f (hvf f hf') (ind + 4) fuel (hfuelF f hf') w tail' hw')
    (fun f w tail' hfb hw' => structFieldP_fallback_none f (hvfb f hfb) (ind + 4) fuel (by simp [fallbackFuel, hfb] at hf; omega) w tail' hw')
    (structFieldP_close_none fuel)
    (fun f hfb => ⟨hvfb f hfb, by simp [fallbackFuel, hfb] at hf; omega⟩)
    hwfb (blank_replicate _) (by omega)
  by_cases hm : isMultiStruct [] s.doc s.attrs s.fields s.fallback = true
  · simp only [hm, ↓reduceIte, List.append_assoc, List.cons_append]
    obtain ⟨items, hopen, hd, ha⟩ := inlineOpenP_text (chars! "struct") s.doc s.attrs (ind + 4) fuel
      (joined (blockItems canonField s.fields wts) ++ (fbPart s.fallback wfb (ind + 4) ++ (List.replicate ind ' ' ++ '}' :: rest)))
      hvd (attrs_valid_fuel hva (by omega))
      (inlinePre_none_at_struct_body s hv' ind fuel wts wfb rest hrel hwfb) (by omega)
    unfold inlineStructP
    simp only [List.append_assoc, List.cons_append, List.nil_append] at hopen ⊢
    rw [hopen]
    simp only [hb, hd, ha]
    rfl
  · have hm' : isMultiStruct [] s.doc s.attrs s.fields s.fallback = false := by simpa using hm
    simp only [isMultiStruct, List.isEmpty_nil, Bool.not_true, Bool.false_or, Bool.or_eq_false_iff, Bool.not_eq_false',
      List.isEmpty_iff, Option.isSome_eq_false_iff, Option.isNone_iff_eq_none] at hm'
    obtain ⟨⟨⟨hd0, ha0⟩, hf0⟩, hfb0⟩ := hm'
    have hw0 : wts = [] := by rw [hf0] at hrel; cases wts <;> simp_all [BlockRel]
    subst hw0
    have hmany : many (inlinePreItemP fuel) fuel ('}' :: rest) = ([], '}' :: rest) :=
      many_none _ _ _ (inlinePreItemP_none_of_head _ _ (by decide) (by intro t ht; simp at ht))
    have hb' : bodyP structFieldP fuel ('}' :: rest) = some (([], none), rest) := by
      simpa [hf0, hfb0, blockItems, fbPart, skipWs_indent, skipWs_cons_nws, isWhiteSpace] using hb
    simp only [isMultiStruct, hd0, ha0, hf0, hfb0]
    simp [inlineStructP, inlineOpenP, kwWs, kw, lit, atWs, isWhiteSpace, tok, skipWs_cons_nws, hmany, hb',
      canonInlineStruct, hd0, ha0, hf0, hfb0, preDocs, preAttrs]

/-! ### inline enums -/

def ValidInlineEnum (s : InlineEnum) : Prop :=
  ValidLines 3 s.doc ∧ (∀ a ∈ s.attrs, ValidAttr a) ∧ (∀ f ∈ s.variants, ValidVariant f) ∧
  (∀ fb, s.fallback = some fb → ValidFallback fb)

def canonInlineEnum (s : InlineEnum) : InlineEnum :=
  { doc := s.doc.map canonDI, attrs := s.attrs, variants := s.variants.map canonVariant, fallback := s.fallback.map canonFallback }

def inlineEnumFuel (s : InlineEnum) : Nat :=
  s.doc.length + s.attrs.length + listMax (s.attrs.map (·.options.length)) +
  s.variants.length + listMax (s.variants.map variantFuel) + fallbackFuel s.fallback + 1

/-- Text of an inline struct without the final line end. -/
def InlineEnumTexts (s : InlineEnum) (ind : Nat) (t : Str) : Prop :=
  ∃ wts wfb, BlockRel (fun (f : EnumVariant) t => t = variantText f (ind + 4)) s.variants wts ∧ Blank wfb ∧
    t = chars! "enum" ++ (if isMultiEnum [] s.doc s.attrs s.variants s.fallback then
      ' ' :: '{' :: '\n' :: (joined (inlinePreItems s.doc s.attrs (ind + 4)) ++ (joined (blockItems canonVariant s.variants wts) ++
        (fbPart s.fallback wfb (ind + 4) ++ (List.replicate ind ' ' ++ ['}']))))
      else chars! " {}")

theorem inlineEnumF_out (s : InlineEnum) (ind : Nat) (st : FSt) :
    ∃ t, InlineEnumTexts s ind t ∧ (inlineEnumF s ind st).out = st.out ++ (t ++ ['\n']) := by
  unfold inlineEnumF
  by_cases hm : isMultiEnum [] s.doc s.attrs s.variants s.fallback = true
  · simp only [hm, ↓reduceIte]
    -- the prelude part is written with or without `prelude`, the text is the same
    have hpre : ∀ st', ((if (!s.doc.isEmpty || !s.attrs.isEmpty) = true then prelude [] s.doc s.attrs (ind + 4) true else id) st').out
        = st'.out ++ joined (inlinePreItems s.doc s.attrs (ind + 4)) := by
      intro st'
      by_cases hp : (!s.doc.isEmpty || !s.attrs.isEmpty) = true
      · simp only [hp, ↓reduceIte]; exact pure_out (pure_prelude_inline _ _ _) st'
      · have hd : s.doc = [] := by cases h : s.doc <;> simp_all
        have ha : s.attrs = [] := by cases h : s.attrs <;> simp_all
        simp [hp, hd, ha, inlinePreItems]
    let st1 := nl (w (chars! "enum {") st)
    let st2 := setNewline (!s.doc.isEmpty || !s.attrs.isEmpty)
      ((if (!s.doc.isEmpty || !s.attrs.isEmpty) = true then prelude [] s.doc s.attrs (ind + 4) true else id) st1)
    obtain ⟨wts, wfb, hrel, hwfb, hfo⟩ := variantsF_out s.variants s.fallback (ind + 4) st2
    refine ⟨_, ⟨wts, wfb, hrel, hwfb, rfl⟩, ?_⟩
    simp only [seqF, id, hm, ↓reduceIte]
    have : (nl (w (chars! "}") (indent ind (variantsF s.variants s.fallback (ind + 4) st2)))).out
        = (variantsF s.variants s.fallback (ind + 4) st2).out ++ (List.replicate ind ' ' ++ chars! "}\n") := by
      simp [nl, w, indent]
    show (nl (w (chars! "}") (indent ind (variantsF s.variants s.fallback (ind + 4) st2)))).out = _
    rw [this, hfo]
    simp only [st2, st1, setNewline_out, hpre, nl, w]
    simp
  · have hm' : isMultiEnum [] s.doc s.attrs s.variants s.fallback = false := by simpa using hm
    simp only [hm', Bool.false_eq_true, ↓reduceIte]
    refine ⟨_, ⟨[], [], ?_, blank_nil, rfl⟩, ?_⟩
    · have : s.variants = [] := by
        cases hfs : s.variants with
        | nil => rfl
        | cons x l => simp [isMultiEnum, hfs] at hm'
      rw [this]; trivial
    · simp [seqF, nl, w, hm']

theorem variantCore_head (v : EnumVariant) (hv : ValidVariant v) : ∃ c core, variantCore v = c :: core ∧ isIdStart c = true := by
  unfold variantCore
  obtain ⟨c, r, hn, hc, _⟩ := hv.2.2.1
  cases v.ty with
  | none => exact ⟨c, r ++ (' ' :: '@' :: ' ' :: (v.id ++ [';'])), by simp [hn], hc⟩
  | some t => exact ⟨c, r ++ (' ' :: '@' :: ' ' :: (v.id ++ (' ' :: '=' :: ' ' :: typeText t ++ [';']))), by simp [hn], hc⟩

theorem inlinePre_none_at_enum_body (s : InlineEnum) (hv : ValidInlineEnum s) (ind fuel : Nat) (wts : List (Str × Str))
    (wfb rest : Str) (hrel : BlockRel (fun (f : EnumVariant) t => t = variantText f (ind + 4)) s.variants wts) (hwfb : Blank wfb) :
    inlinePreItemP fuel (skipWs (joined (blockItems canonVariant s.variants wts) ++
      (fbPart s.fallback wfb (ind + 4) ++ (List.replicate ind ' ' ++ '}' :: rest)))) = none := by
  obtain ⟨_, _, hvf, hvfb⟩ := hv
  cases hfs : s.variants with
  | cons f fs =>
    rw [hfs] at hrel
    cases wts with
    | nil => simp [BlockRel] at hrel
    | cons x wts =>
      obtain ⟨w, txt⟩ := x
      obtain ⟨hw, rfl, _⟩ := hrel
      obtain ⟨c, core, hcore, hc⟩ := variantCore_head f (hvf f (by rw [hfs]; exact List.mem_cons_self))
      simp only [blockItems, joined_cons, variantText, List.append_assoc, hcore, List.cons_append]
      exact inlinePre_none_at_item f.comment f.doc (ind + 4) fuel _ hc w hw
  | nil =>
    rw [hfs] at hrel
    have : wts = [] := by cases wts <;> simp_all [BlockRel]
    subst this
    simp only [blockItems, joined_nil, List.nil_append]
    cases hfb : s.fallback with
    | some fb =>
      obtain ⟨c, r, hn, hc, _⟩ := (hvfb fb hfb).2.2
      simp only [fbPart, fallbackText, List.append_assoc, hn, List.cons_append]
      exact inlinePre_none_at_item fb.comment fb.doc (ind + 4) fuel _ hc wfb hwfb
    | none =>
      simp only [fbPart, List.nil_append]
      rw [skipWs_indent, skipWs_cons_nws (by decide)]
      exact inlinePreItemP_none_of_head _ _ (by decide) (by intro t ht; simp at ht)

theorem inlineEnumP_text (s : InlineEnum) (hv : ValidInlineEnum s) (ind fuel : Nat) (hf : inlineEnumFuel s ≤ fuel)
    (t : Str) (ht : InlineEnumTexts s ind t) (rest : Str) :
    inlineEnumP fuel (t ++ rest) = some (canonInlineEnum s, rest) := by
  have hv' := hv
  obtain ⟨hvd, hva, hvf, hvfb⟩ := hv
  obtain ⟨wts, wfb, hrel, hwfb, rfl⟩ := ht
  unfold inlineEnumFuel at hf
  have hfuelF : ∀ f ∈ s.variants, variantFuel f ≤ fuel := fun f hf' => by
    have := le_listMax (List.mem_map_of_mem (f := variantFuel) hf'); omega
  have hb := bodyP_text canonVariant (fun (f : EnumVariant) t => t = variantText f (ind + 4)) enumVariantP s.variants wts s.fallback wfb
    (List.replicate ind ' ') rest (ind + 4) fuel hrel
    (fun f hf' w txt tail' hw' htxt => by subst htxt; exact enumVariantP_text f (hvf f hf') (ind + 4) fuel (hfuelF f hf') w tail' hw')
    (fun f w tail' hfb hw' => enumVariantP_fallback_none f (hvfb f hfb) (ind + 4) fuel (by simp [fallbackFuel, hfb] at hf; omega) w tail' hw')
    (enumVariantP_close_none fuel)
    (fun f hfb => ⟨hvfb f hfb, by simp [fallbackFuel, hfb] at hf; omega⟩)
    hwfb (blank_replicate _) (by omega)
  by_cases hm : isMultiEnum [] s.doc s.attrs s.variants s.fallback = true
  · simp only [hm, ↓reduceIte, List.append_assoc, List.cons_append]
    obtain ⟨items, hopen, hd, ha⟩ := inlineOpenP_text (chars! "enum") s.doc s.attrs (ind + 4) fuel
      (joined (blockItems canonVariant s.variants wts) ++ (fbPart s.fallback wfb (ind + 4) ++ (List.replicate ind ' ' ++ '}' :: rest)))
      hvd (attrs_valid_fuel hva (by omega))
      (inlinePre_none_at_enum_body s hv' ind fuel wts wfb rest hrel hwfb) (by omega)
    unfold inlineEnumP
    simp only [List.append_assoc, List.cons_append, List.nil_append] at hopen ⊢
    rw [hopen]
    simp only [hb, hd, ha]
    rfl
  · have hm' : isMultiEnum [] s.doc s.attrs s.variants s.fallback = false := by simpa using hm
    simp only [isMultiEnum, List.isEmpty_nil, Bool.not_true, Bool.false_or, Bool.or_eq_false_iff, Bool.not_eq_false',
      List.isEmpty_iff, Option.isSome_eq_false_iff, Option.isNone_iff_eq_none] at hm'
    obtain ⟨⟨⟨hd0, ha0⟩, hf0⟩, hfb0⟩ := hm'
    have hw0 : wts = [] := by rw [hf0] at hrel; cases wts <;> simp_all [BlockRel]
    subst hw0
    have hmany : many (inlinePreItemP fuel) fuel ('}' :: rest) = ([], '}' :: rest) :=
      many_none _ _ _ (inlinePreItemP_none_of_head _ _ (by decide) (by intro t ht; simp at ht))
    have hb' : bodyP enumVariantP fuel ('}' :: rest) = some (([], none), rest) := by
      simpa [hf0, hfb0, blockItems, fbPart, skipWs_indent, skipWs_cons_nws, isWhiteSpace] using hb
    simp only [isMultiEnum, hd0, ha0, hf0, hfb0]
    simp [inlineEnumP, inlineOpenP, kwWs, kw, lit, atWs, isWhiteSpace, tok, skipWs_cons_nws, hmany, hb',
      canonInlineEnum, hd0, ha0, hf0, hfb0, preDocs, preAttrs]


end Aldrin.Schema
