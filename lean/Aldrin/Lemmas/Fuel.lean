import Aldrin.Lemmas.Scalars
namespace Aldrin
open Generated

/-! Every successful read consumes input (`*_shrink`), and `2 * length + 2` units of fuel are
enough for every walker (`*_total`): the recursion budget of the model is never the reason for a
result, i.e. the walkers terminate on every input. -/

theorem takeN_ok {k : Nat} {bs s r : Bytes} (h : takeN k bs = .ok (s, r)) :
    r.length + k = bs.length ∧ s.length = k ∧ bs = s ++ r := by
  unfold takeN at h
  split at h
  · simp at h
  · rename_i hs
    simp at h hs
    obtain ⟨rfl, rfl⟩ := h
    simp; omega

theorem getVarint_shrink {N : Nat} {bs r : Bytes} {n : Nat} (h : getVarint N bs = .ok (n, r)) :
    r.length < bs.length := by
  cases bs with
  | nil => simp [getVarint] at h
  | cons first t =>
    simp only [getVarint] at h
    split at h
    · split at h
      · simp at h
      · simp at h; obtain ⟨_, rfl⟩ := h; simp; omega
    · simp at h; obtain ⟨_, rfl⟩ := h; simp

theorem decInt_shrink {t : IntTy} {bs r : Bytes} {i : Int} (h : decInt t bs = .ok (i, r)) :
    r.length < bs.length := by
  cases t <;> simp only [decInt] at h
  all_goals (first
    | (cases bs with
       | nil => simp at h
       | cons b t => simp at h; obtain ⟨_, rfl⟩ := h; simp)
    | (split at h
       · simp at h
       · rename_i n r' hg
         simp at h; obtain ⟨_, rfl⟩ := h
         exact getVarint_shrink hg))

theorem decKey_shrink {utf8 : Bool} {kt : KeyTy} {bs r : Bytes} {k : Key} (h : decKey utf8 kt bs = .ok (k, r)) :
    r.length < bs.length := by
  cases kt with
  | int t =>
    simp only [decKey] at h
    split at h
    · simp at h
    · rename_i i r' hg
      simp at h; obtain ⟨_, rfl⟩ := h
      exact decInt_shrink hg
  | string =>
    simp only [decKey] at h
    split at h
    · simp at h
    · rename_i n r1 hg
      split at h
      · simp at h
      · rename_i s r2 ht
        split at h
        · simp at h
        · simp at h; obtain ⟨_, rfl⟩ := h
          have := getVarint_shrink hg
          have := takeN_ok ht
          omega
  | uuid =>
    simp only [decKey] at h
    split at h
    · simp at h
    · rename_i s r2 ht
      simp at h; obtain ⟨_, rfl⟩ := h
      have := takeN_ok ht
      omega
  | field =>
    simp only [decKey] at h
    split at h
    · simp at h
    · rename_i n r1 hg
      simp at h; obtain ⟨_, rfl⟩ := h
      exact getVarint_shrink hg


theorem decKeys1_shrink (utf8 : Bool) (kt : KeyTy) : ∀ (f n : Nat) (bs : Bytes) ks r,
    decKeys1 utf8 kt f n bs = .ok (ks, r) → r.length ≤ bs.length := by
  intro f
  induction f with
  | zero => intro n bs ks r h; simp [decKeys1] at h
  | succ f ih =>
    intro n bs ks r h
    simp only [decKeys1] at h
    split at h
    · simp at h; obtain ⟨_, rfl⟩ := h; omega
    · split at h
      · simp at h
      · rename_i k r1 hk
        split at h
        · simp at h
        · rename_i ks' r2 hr
          simp at h; obtain ⟨_, rfl⟩ := h
          have := decKey_shrink hk
          have := ih _ _ _ _ hr
          omega

theorem decKeys2_shrink (utf8 : Bool) (kt : KeyTy) : ∀ (f : Nat) (bs : Bytes) ks r,
    decKeys2 utf8 kt f bs = .ok (ks, r) → r.length < bs.length := by
  intro f
  induction f with
  | zero => intro bs ks r h; simp [decKeys2] at h
  | succ f ih =>
    intro bs ks r h
    cases bs with
    | nil => simp [decKeys2] at h
    | cons m t =>
      simp only [decKeys2] at h
      split at h
      · simp at h; obtain ⟨_, rfl⟩ := h; simp
      · split at h
        · split at h
          · simp at h
          · rename_i k r1 hk
            split at h
            · simp at h
            · rename_i ks' r2 hr
              simp at h; obtain ⟨_, rfl⟩ := h
              have := decKey_shrink hk
              have := ih _ _ _ hr
              simp; omega
        · simp at h

theorem decChunks_shrink : ∀ (f : Nat) (bs : Bytes) s r,
    decChunks f bs = .ok (s, r) → r.length < bs.length := by
  intro f
  induction f with
  | zero => intro bs s r h; simp [decChunks] at h
  | succ f ih =>
    intro bs s r h
    simp only [decChunks] at h
    split at h
    · simp at h
    · rename_i n r1 hg
      have := getVarint_shrink hg
      split at h
      · simp at h; obtain ⟨_, rfl⟩ := h; omega
      · split at h
        · simp at h
        · split at h
          · simp at h
          · rename_i more r2 hr
            simp at h; obtain ⟨_, rfl⟩ := h
            have := ih _ _ _ hr
            simp at this; omega

theorem if_lt_of_le {a b : Nat} (h : a ≤ b) {α : Type} (x y : α) : (if b < a then x else y) = y := by
  rw [if_neg (by omega)]

set_option maxHeartbeats 4000000 in
theorem dec_shrink_all (cfg : DecCfg) :
    (∀ (f : Nat) (bs : Bytes) (d : Nat), ∀ v r, dec cfg f bs d = .ok (v, r) → r.length < bs.length) ∧
    (∀ kt (f : Nat) (bs : Bytes) (d : Nat), ∀ v r, decEntries2 cfg kt f bs d = .ok (v, r) → r.length < bs.length) ∧
    (∀ (f : Nat) (bs : Bytes) (d : Nat), ∀ v r, decElems2 cfg f bs d = .ok (v, r) → r.length < bs.length) ∧
    (∀ kt (f n : Nat) (bs : Bytes) (d : Nat), ∀ v r, decEntries1 cfg kt f n bs d = .ok (v, r) → r.length ≤ bs.length) ∧
    (∀ (f n : Nat) (bs : Bytes) (d : Nat), ∀ v r, decElems1 cfg f n bs d = .ok (v, r) → r.length ≤ bs.length) := by
  apply dec.mutual_induct cfg
    (motive_1 := fun f bs d => ∀ v r, dec cfg f bs d = .ok (v, r) → r.length < bs.length)
    (motive_2 := fun kt f bs d => ∀ v r, decEntries2 cfg kt f bs d = .ok (v, r) → r.length < bs.length)
    (motive_3 := fun f bs d => ∀ v r, decElems2 cfg f bs d = .ok (v, r) → r.length < bs.length)
    (motive_4 := fun kt f n bs d => ∀ v r, decEntries1 cfg kt f n bs d = .ok (v, r) → r.length ≤ bs.length)
    (motive_5 := fun f n bs d => ∀ v r, decElems1 cfg f n bs d = .ok (v, r) → r.length ≤ bs.length)
  all_goals (intros; simp_all [dec, decElems1, decElems2, decEntries1, decEntries2, if_lt_of_le])
  all_goals (try (subst_vars; simp))
  all_goals (first | omega | grind [→ getVarint_shrink, → takeN_ok, → decInt_shrink, → decKey_shrink, → decKeys1_shrink, → decKeys2_shrink, → decChunks_shrink] | skip)

theorem dec_shrink {cfg : DecCfg} {f : Nat} {bs : Bytes} {d : Nat} {v : Value} {r : Bytes}
    (h : dec cfg f bs d = .ok (v, r)) : r.length < bs.length := (dec_shrink_all cfg).1 f bs d v r h
theorem decEntries2_shrink {cfg : DecCfg} {kt : KeyTy} {f : Nat} {bs : Bytes} {d : Nat} {v : List (Key × Value)} {r : Bytes}
    (h : decEntries2 cfg kt f bs d = .ok (v, r)) : r.length < bs.length := (dec_shrink_all cfg).2.1 kt f bs d v r h
theorem decElems2_shrink {cfg : DecCfg} {f : Nat} {bs : Bytes} {d : Nat} {v : List Value} {r : Bytes}
    (h : decElems2 cfg f bs d = .ok (v, r)) : r.length < bs.length := (dec_shrink_all cfg).2.2.1 f bs d v r h
theorem decEntries1_shrink {cfg : DecCfg} {kt : KeyTy} {f n : Nat} {bs : Bytes} {d : Nat} {v : List (Key × Value)} {r : Bytes}
    (h : decEntries1 cfg kt f n bs d = .ok (v, r)) : r.length ≤ bs.length := (dec_shrink_all cfg).2.2.2.1 kt f n bs d v r h
theorem decElems1_shrink {cfg : DecCfg} {f n : Nat} {bs : Bytes} {d : Nat} {v : List Value} {r : Bytes}
    (h : decElems1 cfg f n bs d = .ok (v, r)) : r.length ≤ bs.length := (dec_shrink_all cfg).2.2.2.2 f n bs d v r h

theorem getVarint_err {N : Nat} {bs : Bytes} {e : DeErr} (h : getVarint N bs = .error e) : e = .eoi := by
  cases bs with
  | nil => simp [getVarint] at h; exact h.symm
  | cons b t =>
    simp only [getVarint] at h
    split at h
    · split at h
      · simp at h; exact h.symm
      · simp at h
    · simp at h

theorem takeN_err {k : Nat} {bs : Bytes} {e : DeErr} (h : takeN k bs = .error e) : e = .eoi := by
  unfold takeN at h
  split at h
  · simp at h; exact h.symm
  · simp at h

theorem decInt_err {t : IntTy} {bs : Bytes} {e : DeErr} (h : decInt t bs = .error e) : e = .eoi := by
  cases t <;> simp only [decInt] at h
  all_goals (first
    | (cases bs with
       | nil => simp at h; exact h.symm
       | cons b t => simp at h)
    | (split at h
       · rename_i e' hg
         simp at h; subst h
         exact getVarint_err hg
       · simp at h))

theorem decKey_err {utf8 : Bool} {kt : KeyTy} {bs : Bytes} {e : DeErr} (h : decKey utf8 kt bs = .error e) :
    e = .eoi ∨ e = .invalid := by
  cases kt <;> simp only [decKey] at h <;> grind [→ decInt_err, → getVarint_err, → takeN_err]

theorem decKeys1_total (utf8 : Bool) (kt : KeyTy) (f n : Nat) (bs : Bytes) :
    2 * bs.length + 2 ≤ f → decKeys1 utf8 kt f n bs ≠ .error .fuel := by
  fun_induction decKeys1 utf8 kt f n bs <;> simp_all <;>
    grind [→ decKey_err, → decKey_shrink]

theorem decKeys2_total (utf8 : Bool) (kt : KeyTy) (f : Nat) (bs : Bytes) :
    2 * bs.length + 2 ≤ f → decKeys2 utf8 kt f bs ≠ .error .fuel := by
  fun_induction decKeys2 utf8 kt f bs <;> simp_all <;>
    grind [→ decKey_err, → decKey_shrink]

theorem decChunks_total (f : Nat) (bs : Bytes) :
    2 * bs.length + 2 ≤ f → decChunks f bs ≠ .error .fuel := by
  fun_induction decChunks f bs <;> simp_all <;>
    grind [→ getVarint_err, → getVarint_shrink]


set_option maxHeartbeats 4000000 in
theorem dec_total_all (cfg : DecCfg) :
    (∀ (f : Nat) (bs : Bytes) (d : Nat), 2 * bs.length + 1 ≤ f → dec cfg f bs d ≠ .error .fuel) ∧
    (∀ kt (f : Nat) (bs : Bytes) (d : Nat), 2 * bs.length + 2 ≤ f → decEntries2 cfg kt f bs d ≠ .error .fuel) ∧
    (∀ (f : Nat) (bs : Bytes) (d : Nat), 2 * bs.length + 2 ≤ f → decElems2 cfg f bs d ≠ .error .fuel) ∧
    (∀ kt (f n : Nat) (bs : Bytes) (d : Nat), 2 * bs.length + 2 ≤ f → decEntries1 cfg kt f n bs d ≠ .error .fuel) ∧
    (∀ (f n : Nat) (bs : Bytes) (d : Nat), 2 * bs.length + 2 ≤ f → decElems1 cfg f n bs d ≠ .error .fuel) := by
  apply dec.mutual_induct cfg
    (motive_1 := fun f bs d => 2 * bs.length + 1 ≤ f → dec cfg f bs d ≠ .error .fuel)
    (motive_2 := fun kt f bs d => 2 * bs.length + 2 ≤ f → decEntries2 cfg kt f bs d ≠ .error .fuel)
    (motive_3 := fun f bs d => 2 * bs.length + 2 ≤ f → decElems2 cfg f bs d ≠ .error .fuel)
    (motive_4 := fun kt f n bs d => 2 * bs.length + 2 ≤ f → decEntries1 cfg kt f n bs d ≠ .error .fuel)
    (motive_5 := fun f n bs d => 2 * bs.length + 2 ≤ f → decElems1 cfg f n bs d ≠ .error .fuel)
  all_goals (intros; simp_all [dec, decElems1, decElems2, decEntries1, decEntries2, if_lt_of_le])
  all_goals (first | omega | grind [→ getVarint_shrink, → takeN_ok, → decInt_shrink, → decKey_shrink,
    → dec_shrink, → decElems1_shrink, → decElems2_shrink, → decEntries1_shrink, → decEntries2_shrink,
    → getVarint_err, → takeN_err, → decInt_err, → decKey_err,
    decKeys1_total, decKeys2_total, decChunks_total] | skip)

end Aldrin

namespace Aldrin

/-- `fuelFor bs` is enough: decoding never runs out of recursion budget. -/
theorem dec_total (cfg : DecCfg) (bs : Bytes) (d : Nat) : dec cfg (fuelFor bs) bs d ≠ .error .fuel :=
  (dec_total_all cfg).1 _ bs d (by unfold fuelFor; omega)

end Aldrin
