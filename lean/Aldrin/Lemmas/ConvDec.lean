import Aldrin.Lemmas.SkipDec
import Aldrin.Lemmas.Size
namespace Aldrin
open Generated

/-! Conversion to the legacy epoch = decode (without UTF-8 validation), then write the value in the
legacy encoding. -/

/-! ### counts -/

theorem decKeys1_length (utf8 : Bool) (kt : KeyTy) (f n : Nat) (bs : Bytes) : ∀ ks r,
    decKeys1 utf8 kt f n bs = .ok (ks, r) → ks.length = n := by
  fun_induction decKeys1 utf8 kt f n bs <;> simp_all [decKeys1] <;> grind

theorem decKeys2_count (utf8 : Bool) (kt : KeyTy) (f : Nat) (bs : Bytes) : ∀ ks r,
    decKeys2 utf8 kt f bs = .ok (ks, r) → ks.length + r.length < bs.length := by
  fun_induction decKeys2 utf8 kt f bs <;> simp_all [decKeys2] <;> grind [→ decKey_shrink]

theorem size_pos (v : Value) : 1 ≤ v.size := by
  cases v <;> simp [Value.size] <;> omega

theorem sizeList_ge : ∀ (vs : List Value), vs.length ≤ sizeList vs
  | [] => by simp [sizeList]
  | v :: vs => by have := size_pos v; have := sizeList_ge vs; simp [sizeList]; omega

theorem sizeEntries_ge : ∀ (es : List (Key × Value)), es.length ≤ sizeEntries es
  | [] => by simp [sizeEntries]
  | (k, v) :: es => by have := size_pos v; have := sizeEntries_ge es; simp [sizeEntries]; omega

set_option maxHeartbeats 4000000 in
theorem dec_length_all (cfg : DecCfg) :
    (∀ (f : Nat) (bs : Bytes) (d : Nat), True) ∧
    (∀ (kt : KeyTy) (f : Nat) (bs : Bytes) (d : Nat), True) ∧
    (∀ (f : Nat) (bs : Bytes) (d : Nat), True) ∧
    (∀ kt (f n : Nat) (bs : Bytes) (d : Nat), ∀ v r, decEntries1 cfg kt f n bs d = .ok (v, r) → v.length = n) ∧
    (∀ (f n : Nat) (bs : Bytes) (d : Nat), ∀ v r, decElems1 cfg f n bs d = .ok (v, r) → v.length = n) := by
  apply dec.mutual_induct cfg
    (motive_1 := fun f bs d => True)
    (motive_2 := fun kt f bs d => True)
    (motive_3 := fun f bs d => True)
    (motive_4 := fun kt f n bs d => ∀ v r, decEntries1 cfg kt f n bs d = .ok (v, r) → v.length = n)
    (motive_5 := fun f n bs d => ∀ v r, decElems1 cfg f n bs d = .ok (v, r) → v.length = n)
  all_goals (intros; simp_all [decElems1, decEntries1])
  all_goals (first | omega | grind | skip)

theorem decElems1_length {cfg : DecCfg} {f n : Nat} {bs : Bytes} {d : Nat} {vs : List Value} {r : Bytes}
    (h : decElems1 cfg f n bs d = .ok (vs, r)) : vs.length = n := (dec_length_all cfg).2.2.2.2 f n bs d vs r h
theorem decEntries1_length {cfg : DecCfg} {kt : KeyTy} {f n : Nat} {bs : Bytes} {d : Nat} {es : List (Key × Value)} {r : Bytes}
    (h : decEntries1 cfg kt f n bs d = .ok (es, r)) : es.length = n := (dec_length_all cfg).2.2.2.1 kt f n bs d es r h

theorem decElems2_count {cfg : DecCfg} {f : Nat} {bs : Bytes} {d : Nat} {vs : List Value} {r : Bytes}
    (h : decElems2 cfg f bs d = .ok (vs, r)) : vs.length + r.length < bs.length := by
  have := (dec_size_all cfg).2.2.1 f bs d vs r h
  have := sizeList_ge vs
  omega
theorem decEntries2_count {cfg : DecCfg} {kt : KeyTy} {f : Nat} {bs : Bytes} {d : Nat} {es : List (Key × Value)} {r : Bytes}
    (h : decEntries2 cfg kt f bs d = .ok (es, r)) : es.length + r.length < bs.length := by
  have := (dec_size_all cfg).2.1 kt f bs d es r h
  have := sizeEntries_ge es
  omega

/-! ### views -/

def view1 : Except DeErr (Value × Bytes) → Except DeErr (Bytes × Bytes)
  | .ok (v, r) => .ok (encRaw .v1 v, r)
  | .error e => .error e
def viewL1 : Except DeErr (List Value × Bytes) → Except DeErr (Bytes × Bytes)
  | .ok (vs, r) => .ok (encElemsRaw .v1 vs, r)
  | .error e => .error e
def viewL2 : Except DeErr (List Value × Bytes) → Except DeErr (Nat × Bytes × Bytes)
  | .ok (vs, r) => .ok (vs.length, encElemsRaw .v1 vs, r)
  | .error e => .error e
def viewE1 (kt : KeyTy) : Except DeErr (List (Key × Value) × Bytes) → Except DeErr (Bytes × Bytes)
  | .ok (es, r) => .ok (encEntriesRaw .v1 kt es, r)
  | .error e => .error e
def viewE2 (kt : KeyTy) : Except DeErr (List (Key × Value) × Bytes) → Except DeErr (Nat × Bytes × Bytes)
  | .ok (es, r) => .ok (es.length, encEntriesRaw .v1 kt es, r)
  | .error e => .error e
def viewK1 (kt : KeyTy) : Except DeErr (List Key × Bytes) → Except DeErr (Bytes × Bytes)
  | .ok (ks, r) => .ok (encKeys .v1 kt ks, r)
  | .error e => .error e
def viewK2 (kt : KeyTy) : Except DeErr (List Key × Bytes) → Except DeErr (Nat × Bytes × Bytes)
  | .ok (ks, r) => .ok (ks.length, encKeys .v1 kt ks, r)
  | .error e => .error e

@[simp] theorem view1_ok (v r) : view1 (.ok (v, r)) = .ok (encRaw .v1 v, r) := rfl
@[simp] theorem view1_err (e) : view1 (.error e) = .error e := rfl
@[simp] theorem viewL1_ok (v r) : viewL1 (.ok (v, r)) = .ok (encElemsRaw .v1 v, r) := rfl
@[simp] theorem viewL1_err (e) : viewL1 (.error e) = .error e := rfl
@[simp] theorem viewL2_ok (v r) : viewL2 (.ok (v, r)) = .ok (v.length, encElemsRaw .v1 v, r) := rfl
@[simp] theorem viewL2_err (e) : viewL2 (.error e) = .error e := rfl
@[simp] theorem viewE1_ok (kt v r) : viewE1 kt (.ok (v, r)) = .ok (encEntriesRaw .v1 kt v, r) := rfl
@[simp] theorem viewE1_err (kt e) : viewE1 kt (.error e) = .error e := rfl
@[simp] theorem viewE2_ok (kt v r) : viewE2 kt (.ok (v, r)) = .ok (v.length, encEntriesRaw .v1 kt v, r) := rfl
@[simp] theorem viewE2_err (kt e) : viewE2 kt (.error e) = .error e := rfl
@[simp] theorem viewK1_ok (kt v r) : viewK1 kt (.ok (v, r)) = .ok (encKeys .v1 kt v, r) := rfl
@[simp] theorem viewK1_err (kt e) : viewK1 kt (.error e) = .error e := rfl
@[simp] theorem viewK2_ok (kt v r) : viewK2 kt (.ok (v, r)) = .ok (v.length, encKeys .v1 kt v, r) := rfl
@[simp] theorem viewK2_err (kt e) : viewK2 kt (.error e) = .error e := rfl

/-! ### loops over keys and chunks -/

theorem convKeys1_eq (kt : KeyTy) (f n : Nat) (bs : Bytes) :
    convKeys1 kt f n bs = viewK1 kt (decKeys1 false kt f n bs) := by
  fun_induction decKeys1 false kt f n bs <;> simp_all [convKeys1, convKey, encKeys]

theorem convKeys2_eq (kt : KeyTy) (f : Nat) (bs : Bytes) :
    convKeys2 kt f bs = viewK2 kt (decKeys2 false kt f bs) := by
  fun_induction decKeys2 false kt f bs <;> simp_all [convKeys2, convKey, encKeys]

theorem convChunks_eq (f : Nat) (bs : Bytes) : convChunks f bs = decChunks f bs := by
  fun_induction decChunks f bs <;> simp_all [convChunks] <;> omega

end Aldrin

namespace Aldrin
open Generated

theorem le_u32_not_gt {n : Nat} (h : n ≤ u32Max) {α : Type} (x y : α) : (if n > u32Max then x else y) = y := by
  rw [if_neg (by omega)]

set_option maxHeartbeats 8000000 in
/-- `conv` = decode without UTF-8 validation, then write the legacy encoding — for inputs shorter
than 4 GiB (beyond that, `convert` may report `Overflow` for an element count ≥ 2³²). -/
theorem conv_dec_all :
    (∀ (f : Nat) (bs : Bytes) (d : Nat), bs.length ≤ u32Max → norm (conv f bs d) = norm (view1 (dec .lax f bs d))) ∧
    (∀ kt (f : Nat) (bs : Bytes) (d : Nat), bs.length ≤ u32Max → norm (convEntries2 kt f bs d) = norm (viewE2 kt (decEntries2 .lax kt f bs d))) ∧
    (∀ (f : Nat) (bs : Bytes) (d : Nat), bs.length ≤ u32Max → norm (convElems2 f bs d) = norm (viewL2 (decElems2 .lax f bs d))) ∧
    (∀ kt (f n : Nat) (bs : Bytes) (d : Nat), bs.length ≤ u32Max → norm (convEntries1 kt f n bs d) = norm (viewE1 kt (decEntries1 .lax kt f n bs d))) ∧
    (∀ (f n : Nat) (bs : Bytes) (d : Nat), bs.length ≤ u32Max → norm (convElems1 f n bs d) = norm (viewL1 (decElems1 .lax f n bs d))) := by
  apply dec.mutual_induct .lax
    (motive_1 := fun f bs d => bs.length ≤ u32Max → norm (conv f bs d) = norm (view1 (dec .lax f bs d)))
    (motive_2 := fun kt f bs d => bs.length ≤ u32Max → norm (convEntries2 kt f bs d) = norm (viewE2 kt (decEntries2 .lax kt f bs d)))
    (motive_3 := fun f bs d => bs.length ≤ u32Max → norm (convElems2 f bs d) = norm (viewL2 (decElems2 .lax f bs d)))
    (motive_4 := fun kt f n bs d => bs.length ≤ u32Max → norm (convEntries1 kt f n bs d) = norm (viewE1 kt (decEntries1 .lax kt f n bs d)))
    (motive_5 := fun f n bs d => bs.length ≤ u32Max → norm (convElems1 f n bs d) = norm (viewL1 (decElems1 .lax f n bs d)))
  all_goals (intros; simp_all [dec, decElems1, decElems2, decEntries1, decEntries2, conv, convElems1,
    convElems2, convEntries1, convEntries2, convKey, if_lt_of_le, convKeys1_eq, convKeys2_eq, convChunks_eq,
    norm_eq_ok, norm_eq_err, encRaw, encElemsRaw, encEntriesRaw])
  all_goals (first | omega | grind [→ getVarint_shrink, → takeN_ok, → decInt_shrink, → decKey_shrink,
    → dec_shrink, → decElems1_shrink, → decElems2_shrink, → decEntries1_shrink, → decEntries2_shrink,
    → decElems1_length, → decEntries1_length, → decKeys1_length, → decElems2_count, → decEntries2_count,
    → decKeys2_count, → decChunks_size, → decKeys1_shrink, → decKeys2_shrink] | skip)
  done

end Aldrin
