/-
The ordered set of serialized layouts (`BTreeSet<SerializedValue>`): insertion into a strictly sorted
list; the result depends only on which byte strings were inserted, not on order or multiplicity.
-/
import Aldrin.Model.TypeId

namespace Aldrin.TypeIdM

theorem u8_lt_iff (a b : UInt8) : a < b ↔ a.toNat < b.toNat := UInt8.lt_iff_toNat_lt
theorem u8_eq_iff (a b : UInt8) : a = b ↔ a.toNat = b.toNat := ⟨fun h => h ▸ rfl, UInt8.toNat_inj.mp⟩

theorem bytesLt_irrefl : ∀ a : Bytes, bytesLt a a = false
  | [] => rfl
  | x :: r => by
    simp only [bytesLt, Bool.or_eq_false_iff, decide_eq_false_iff_not, beq_self_eq_true, Bool.true_and]
    exact ⟨by rw [u8_lt_iff]; omega, bytesLt_irrefl r⟩

theorem bytesLt_trans : ∀ a b c : Bytes, bytesLt a b = true → bytesLt b c = true → bytesLt a c = true
  | [], [], _, h, _ => by simp [bytesLt] at h
  | [], _ :: _, [], _, h => by simp [bytesLt] at h
  | [], _ :: _, _ :: _, _, _ => by simp [bytesLt]
  | _ :: _, [], _, h, _ => by simp [bytesLt] at h
  | _ :: _, _ :: _, [], _, h => by simp [bytesLt] at h
  | x :: r, y :: s, z :: t, h1, h2 => by
    simp only [bytesLt, Bool.or_eq_true, decide_eq_true_eq, Bool.and_eq_true, beq_iff_eq] at *
    rcases h1 with h1 | ⟨e1, h1⟩ <;> rcases h2 with h2 | ⟨e2, h2⟩
    · left; rw [u8_lt_iff] at *; omega
    · left; subst e2; exact h1
    · left; subst e1; exact h2
    · right; exact ⟨e1.trans e2, bytesLt_trans r s t h1 h2⟩

theorem bytesLt_total : ∀ a b : Bytes, bytesLt a b = true ∨ a = b ∨ bytesLt b a = true
  | [], [] => Or.inr (Or.inl rfl)
  | [], _ :: _ => Or.inl rfl
  | _ :: _, [] => Or.inr (Or.inr rfl)
  | x :: r, y :: s => by
    simp only [bytesLt, Bool.or_eq_true, decide_eq_true_eq, Bool.and_eq_true, beq_iff_eq, List.cons.injEq]
    by_cases hxy : x = y
    · subst hxy
      rcases bytesLt_total r s with h | h | h
      · exact Or.inl (Or.inr ⟨rfl, h⟩)
      · exact Or.inr (Or.inl ⟨rfl, h⟩)
      · exact Or.inr (Or.inr (Or.inr ⟨rfl, h⟩))
    · have : x.toNat ≠ y.toNat := fun h => hxy ((u8_eq_iff x y).mpr h)
      by_cases hlt : x.toNat < y.toNat
      · exact Or.inl (Or.inl ((u8_lt_iff x y).mpr hlt))
      · exact Or.inr (Or.inr (Or.inl ((u8_lt_iff y x).mpr (by omega))))

theorem bytesLt_asymm (a b : Bytes) (h : bytesLt a b = true) : bytesLt b a = false := by
  cases hba : bytesLt b a with
  | false => rfl
  | true => have := bytesLt_trans a b a h hba; rw [bytesLt_irrefl] at this; exact absurd this (by simp)

/-- strictly increasing -/
def Sorted : List Bytes → Prop
  | [] => True
  | [_] => True
  | a :: b :: r => bytesLt a b = true ∧ Sorted (b :: r)

theorem Sorted.tail {a : Bytes} {l : List Bytes} (h : Sorted (a :: l)) : Sorted l := by
  cases l with
  | nil => trivial
  | cons b r => exact h.2

theorem Sorted.head_lt {a : Bytes} : ∀ {l : List Bytes}, Sorted (a :: l) → ∀ x ∈ l, bytesLt a x = true
  | [], _, x, hx => by simp at hx
  | b :: r, h, x, hx => by
    simp only [List.mem_cons] at hx
    rcases hx with rfl | hx
    · exact h.1
    · exact bytesLt_trans a b x h.1 (Sorted.head_lt h.2 x hx)

theorem mem_setInsert (x y : Bytes) : ∀ l : List Bytes, y ∈ setInsert x l ↔ y = x ∨ y ∈ l
  | [] => by simp [setInsert]
  | z :: r => by
    simp only [setInsert]
    split
    · simp
    · split
      · rename_i h; have := beq_iff_eq.mp h; subst this; simp
      · simp only [List.mem_cons, mem_setInsert x y r]
        constructor
        · rintro (h | h | h)
          · exact Or.inr (Or.inl h)
          · exact Or.inl h
          · exact Or.inr (Or.inr h)
        · rintro (h | h | h)
          · exact Or.inr (Or.inl h)
          · exact Or.inl h
          · exact Or.inr (Or.inr h)

theorem sorted_setInsert (x : Bytes) : ∀ l : List Bytes, Sorted l → Sorted (setInsert x l)
  | [], _ => by simp [setInsert, Sorted]
  | z :: r, h => by
    simp only [setInsert]
    split
    · exact ⟨‹_›, h⟩
    · split
      · exact h
      · rename_i hlt hne
        -- z < x
        have hzx : bytesLt z x = true := by
          rcases bytesLt_total x z with h1 | h1 | h1
          · exact absurd h1 hlt
          · subst h1; simp at hne
          · exact h1
        have ih := sorted_setInsert x r h.tail
        cases r with
        | nil => simp only [setInsert]; exact ⟨hzx, trivial⟩
        | cons w t =>
          simp only [setInsert] at ih ⊢
          split
          · exact ⟨hzx, ‹_›, h.2⟩
          · split
            · exact h
            · rename_i h1 h2
              simp only [h1, h2, Bool.false_eq_true, ↓reduceIte] at ih
              exact ⟨h.1, ih⟩

/-- strictly sorted lists with the same elements are equal -/
theorem sorted_ext : ∀ (a b : List Bytes), Sorted a → Sorted b → (∀ x, x ∈ a ↔ x ∈ b) → a = b
  | [], [], _, _, _ => rfl
  | [], y :: _, _, _, h => by have := (h y).mpr (List.mem_cons_self); simp at this
  | x :: _, [], _, _, h => by have := (h x).mp (List.mem_cons_self); simp at this
  | x :: r, y :: s, ha, hb, h => by
    have hxy : x = y := by
      have hx := (h x).mp (List.mem_cons_self)
      have hy := (h y).mpr (List.mem_cons_self)
      simp only [List.mem_cons] at hx hy
      rcases hx with hx | hx
      · exact hx
      · rcases hy with hy | hy
        · exact hy.symm
        · have h1 := Sorted.head_lt hb x hx
          have h2 := Sorted.head_lt ha y hy
          have := bytesLt_asymm y x h1
          rw [h2] at this; exact absurd this (by simp)
    subst hxy
    congr 1
    apply sorted_ext r s ha.tail hb.tail
    intro z
    constructor
    · intro hz
      have := (h z).mp (List.mem_cons_of_mem _ hz)
      simp only [List.mem_cons] at this
      rcases this with rfl | this
      · have := Sorted.head_lt ha z hz; rw [bytesLt_irrefl] at this; exact absurd this (by simp)
      · exact this
    · intro hz
      have := (h z).mpr (List.mem_cons_of_mem _ hz)
      simp only [List.mem_cons] at this
      rcases this with rfl | this
      · have := Sorted.head_lt hb z hz; rw [bytesLt_irrefl] at this; exact absurd this (by simp)
      · exact this

theorem foldl_setInsert_spec : ∀ (xs : List Bytes) (acc : List Bytes), Sorted acc →
    Sorted (xs.foldl (fun acc x => setInsert x acc) acc) ∧
    ∀ y, y ∈ xs.foldl (fun acc x => setInsert x acc) acc ↔ y ∈ acc ∨ y ∈ xs
  | [], acc, h => ⟨h, by simp⟩
  | x :: xs, acc, h => by
    simp only [List.foldl_cons]
    obtain ⟨h1, h2⟩ := foldl_setInsert_spec xs (setInsert x acc) (sorted_setInsert x acc h)
    refine ⟨h1, ?_⟩
    intro y
    rw [h2, mem_setInsert]
    simp only [List.mem_cons]
    constructor
    · rintro ((h | h) | h)
      · exact Or.inr (Or.inl h)
      · exact Or.inl h
      · exact Or.inr (Or.inr h)
    · rintro (h | h | h)
      · exact Or.inl (Or.inr h)
      · exact Or.inl (Or.inl h)
      · exact Or.inr h

theorem toSet_sorted (xs : List Bytes) : Sorted (toSet xs) := (foldl_setInsert_spec xs [] trivial).1
theorem mem_toSet (xs : List Bytes) (y : Bytes) : y ∈ toSet xs ↔ y ∈ xs := by
  have := (foldl_setInsert_spec xs [] trivial).2 y; unfold toSet; simpa using this

/-- the set depends only on which byte strings were inserted: not on the order, not on how often -/
theorem toSet_ext (xs ys : List Bytes) (h : ∀ y, y ∈ xs ↔ y ∈ ys) : toSet xs = toSet ys :=
  sorted_ext _ _ (toSet_sorted xs) (toSet_sorted ys) (fun y => by rw [mem_toSet, mem_toSet, h])

end Aldrin.TypeIdM
