import Aldrin.Model.WF
import Aldrin.Lemmas.Varint
namespace Aldrin
open Generated

/-! Kind table: obligations on the generated constants. -/

/-- Every kind that has a byte is the one `classify` returns for that byte: the generated kind
table is injective on the kinds the model uses. -/
theorem classify_all : ∀ k ∈ allKinds, ∀ b, k.byte = some b → classify b = some k := by decide

theorem mem_allKinds (k : Kind) : k ∈ allKinds := by
  cases k with
  | int t => cases t <;> decide
  | fixed f => cases f <;> decide
  | map1 kt => cases kt with
    | int t => cases t <;> decide
    | _ => decide
  | set1 kt => cases kt with
    | int t => cases t <;> decide
    | _ => decide
  | map2 kt => cases kt with
    | int t => cases t <;> decide
    | _ => decide
  | set2 kt => cases kt with
    | int t => cases t <;> decide
    | _ => decide
  | _ => decide

theorem classify_b (k : Kind) (h : k.byte ≠ none) : classify k.b = some k := by
  cases hb : k.byte with
  | none => exact absurd hb h
  | some b =>
    have : k.b = b := by simp [Kind.b, hb]
    rw [this]
    exact classify_all k (mem_allKinds k) b hb

/-- Conversely, `classify` only returns a kind for its own byte. -/
theorem classify_sound {b : UInt8} {k : Kind} (h : classify b = some k) : k.byte = some b := by
  unfold classify at h
  have := List.find?_some h
  simpa using this

theorem classify_b_of {b : UInt8} {k : Kind} (h : classify b = some k) : k.b = b := by
  simp [Kind.b, classify_sound h]

theorem classifyC_b (cfg : DecCfg) (k : Kind) (h : k.byte ≠ none) (hv : k.isV2 = true → cfg.v2 = true) :
    classifyC cfg k.b = some k := by
  unfold classifyC
  rw [classify_b k h]
  cases hk : k.isV2
  · simp [hk]
  · simp [hk, hv hk]

@[simp] theorem std_utf8 : DecCfg.std.utf8 = true := rfl
@[simp] theorem lax_utf8 : DecCfg.lax.utf8 = false := rfl
@[simp] theorem legacy_utf8 : DecCfg.legacy.utf8 = true := rfl
@[simp] theorem std_v2 : DecCfg.std.v2 = true := rfl
@[simp] theorem lax_v2 : DecCfg.lax.v2 = true := rfl
@[simp] theorem legacy_v2 : DecCfg.legacy.v2 = false := rfl

theorem classifyC_of_v2 (cfg : DecCfg) (h : cfg.v2 = true) (b : UInt8) : classifyC cfg b = classify b := by
  unfold classifyC
  cases classify b <;> simp [h]

@[simp] theorem classifyC_lax (b : UInt8) : classifyC .lax b = classify b := classifyC_of_v2 _ rfl b
@[simp] theorem classifyC_std (b : UInt8) : classifyC .std b = classify b := classifyC_of_v2 _ rfl b

theorem classifyC_some {cfg : DecCfg} {b : UInt8} {k : Kind} (h : classifyC cfg b = some k) :
    classify b = some k ∧ (k.isV2 = true → cfg.v2 = true) := by
  unfold classifyC at h
  cases hc : classify b with
  | none => simp [hc] at h
  | some k' =>
    simp only [hc] at h
    split at h
    · simp at h
    · rename_i hn
      simp at h; subst h
      refine ⟨rfl, ?_⟩
      intro hk; simp [hk] at hn; exact hn

theorem none_ne_some_b : Kind.none.b ≠ Kind.some.b := by decide

theorem maxDepth_eq : maxValueDepth = 32 := by decide

/-! Integers -/

theorem pow_bytes (t : IntTy) : (2 : Int) ^ (8 * t.bytes) = ((256 ^ t.bytes : Nat) : Int) := by
  cases t <;> decide

theorem decInt_encInt (t : IntTy) (i : Int) (h : t.inRange i) (rest : Bytes) :
    decInt t (encInt t i ++ rest) = .ok (i, rest) := by
  cases t with
  | u8 =>
    simp [IntTy.inRange, IntTy.signed, IntTy.bytes] at h
    simp only [encInt, decInt, List.cons_append, List.nil_append]
    have : (UInt8.ofNat (i % 256).toNat).toNat = i.toNat := by
      simp [UInt8.toNat_ofNat']; omega
    simp only [this]
    congr 2; omega
  | i8 =>
    simp [IntTy.inRange, IntTy.signed, IntTy.bytes] at h
    simp only [encInt, decInt, List.cons_append, List.nil_append]
    have e : (UInt8.ofNat (i % 256).toNat).toNat = (i % 256).toNat := by
      simp [UInt8.toNat_ofNat']; omega
    simp only [e]
    congr 2
    split <;> omega
  | u16 | u32 | u64 =>
    simp [IntTy.inRange, IntTy.signed, IntTy.bytes] at h
    simp only [encInt, decInt, IntTy.signed, IntTy.bytes, Bool.false_eq_true, ↓reduceIte]
    rw [getVarint_putVarint _ _ (by omega) (by omega) (by omega)]
    simp [Int.toNat_of_nonneg h.1]
  | i16 | i32 | i64 =>
    simp [IntTy.inRange, IntTy.signed, IntTy.bytes] at h
    simp only [encInt, decInt, IntTy.signed, IntTy.bytes, ↓reduceIte]
    rw [getVarint_putVarint _ _ (by omega) (by omega) (by unfold zzEnc; split <;> omega)]
    simp [zzDec_zzEnc]

theorem take_append_len {α} (a b : List α) : (a ++ b).take a.length = a := by simp
theorem drop_append_len {α} (a b : List α) : (a ++ b).drop a.length = b := by simp

theorem takeN_append (a rest : Bytes) : takeN a.length (a ++ rest) = .ok (a, rest) := by
  simp [takeN]

theorem takeN_append' (a rest : Bytes) (n : Nat) (h : a.length = n) :
    takeN n (a ++ rest) = .ok (a, rest) := by
  subst h; exact takeN_append a rest

theorem u32_lt (n : Nat) (h : n ≤ u32Max) : n < 256 ^ 4 := by
  unfold u32Max at h; omega

theorem decKey_encKey (utf8 : Bool) (kt : KeyTy) (k : Key) (h : KeyWF kt k) (rest : Bytes) :
    decKey utf8 kt (encKey kt k ++ rest) = .ok (k, rest) := by
  cases kt with
  | int t =>
    cases k with
    | int i => simp only [KeyWF] at h; simp [encKey, decKey, decInt_encInt t i h]
    | blob bs => simp [KeyWF] at h
  | string =>
    cases k with
    | int i => simp [KeyWF] at h
    | blob bs =>
      simp only [KeyWF] at h
      simp only [encKey, decKey, List.append_assoc]
      rw [getVarint_putVarint 4 _ (by omega) (by omega) (u32_lt _ h.1)]
      simp [takeN_append, h.2]
  | uuid =>
    cases k with
    | int i => simp [KeyWF] at h
    | blob bs =>
      simp only [KeyWF] at h
      simp [encKey, decKey, takeN_append' bs rest 16 h]
  | field =>
    cases k with
    | int i =>
      simp only [KeyWF, u32Max] at h
      simp only [encKey, decKey]
      rw [getVarint_putVarint 4 _ (by omega) (by omega) (by omega)]
      simp [Int.toNat_of_nonneg h.1]
    | blob bs => simp [KeyWF] at h

theorem encInt_length_pos (t : IntTy) (i : Int) : 0 < (encInt t i).length := by
  cases t <;> simp [encInt, putVarint_length_pos]

end Aldrin
