import Aldrin.Lemmas.Scalars
namespace Aldrin
open Generated

theorem encKeys_v1_dec (utf8 : Bool) (kt : KeyTy) : ∀ (ks : List Key) (rest : Bytes) (fuel : Nat),
    (∀ k ∈ ks, KeyWF kt k) → ks.length + 1 ≤ fuel →
    decKeys1 utf8 kt fuel ks.length (encKeys .v1 kt ks ++ rest) = .ok (ks, rest)
  | [], rest, fuel, _, hf => by
    cases fuel with
    | zero => omega
    | succ f => simp [decKeys1, encKeys]
  | k :: ks, rest, fuel, h, hf => by
    cases fuel with
    | zero => omega
    | succ f =>
      have hk := h k (by simp)
      have ih := encKeys_v1_dec utf8 kt ks rest f (fun k' hk' => h k' (by simp [hk'])) (by simp at hf; omega)
      simp only [decKeys1, encKeys, List.length_cons, List.append_assoc]
      rw [decKey_encKey utf8 kt k hk]
      simp [ih]

theorem encKeys_v2_dec (utf8 : Bool) (kt : KeyTy) : ∀ (ks : List Key) (rest : Bytes) (fuel : Nat),
    (∀ k ∈ ks, KeyWF kt k) → ks.length + 1 ≤ fuel →
    decKeys2 utf8 kt fuel (encKeys .v2 kt ks ++ rest) = .ok (ks, rest)
  | [], rest, fuel, _, hf => by
    cases fuel with
    | zero => omega
    | succ f => simp [decKeys2, encKeys]
  | k :: ks, rest, fuel, h, hf => by
    cases fuel with
    | zero => omega
    | succ f =>
      have hk := h k (by simp)
      have ih := encKeys_v2_dec utf8 kt ks rest f (fun k' hk' => h k' (by simp [hk'])) (by simp at hf; omega)
      simp only [decKeys2, encKeys, List.cons_append, List.append_assoc]
      have hne : Kind.some.b ≠ Kind.none.b := fun h => none_ne_some_b h.symm
      simp only [hne, ↓reduceIte]
      rw [decKey_encKey utf8 kt k hk]
      simp [ih]

end Aldrin

namespace Aldrin
open Generated

theorem encKey_length_pos {kt : KeyTy} {k : Key} (h : KeyWF kt k) : 0 < (encKey kt k).length := by
  cases kt <;> cases k <;> simp [KeyWF] at h <;>
    simp [encKey, encInt_length_pos, putVarint_length_pos]
  · have := putVarint_length_pos 4 (List.length ‹Bytes›); omega
  · omega

theorem encKeys_length (ep : Epoch) (kt : KeyTy) : ∀ (ks : List Key), (∀ k ∈ ks, KeyWF kt k) →
    ks.length ≤ (encKeys ep kt ks).length
  | [], _ => by simp
  | k :: ks, h => by
    have := encKey_length_pos (h k (by simp))
    have ih := encKeys_length ep kt ks (fun k' hk' => h k' (by simp [hk']))
    cases ep <;> simp [encKeys] <;> omega

theorem encRaw_length_pos (ep : Epoch) (v : Value) : 0 < (encRaw ep v).length := by
  cases v <;> cases ep <;> simp [encRaw]
  split <;> simp

end Aldrin

namespace Aldrin
open Generated

theorem some_ne_none_b : Kind.some.b ≠ Kind.none.b := fun h => none_ne_some_b h.symm

set_option maxHeartbeats 400000 in
mutual
theorem dec_encRaw (cfg : DecCfg) (ep : Epoch) (hv2 : ep = .v2 → cfg.v2 = true) : ∀ (v : Value) (d : Nat) (rest : Bytes) (fuel : Nat),
    v.WF → d + v.depth ≤ maxValueDepth → 2 * (encRaw ep v).length + 1 ≤ fuel →
    dec cfg fuel (encRaw ep v ++ rest) d = .ok (v, rest)
  | v, d, rest, 0, _, _, hf => by omega
  | .none, d, rest, f + 1, hw, hd, hf => by
    simp only [Value.depth] at hd
    have hd' : ¬ d + 1 > maxValueDepth := by omega
    simp [encRaw, dec, hd', classifyC_b cfg Kind.none (by decide) (by intro h; simp [Kind.isV2] at h)]
  | .some v, d, rest, f + 1, hw, hd, hf => by
    simp only [Value.depth] at hd
    simp only [Value.WF] at hw
    have hd' : ¬ d + 1 > maxValueDepth := by omega
    have ih := dec_encRaw cfg ep hv2 v (d + 1) rest f hw (by omega) (by simp [encRaw] at hf; omega)
    simp [encRaw, dec, hd', classifyC_b cfg Kind.some (by decide) (by intro h; simp [Kind.isV2] at h), ih]
  | .bool b, d, rest, f + 1, hw, hd, hf => by
    simp only [Value.depth] at hd
    have hd' : ¬ d + 1 > maxValueDepth := by omega
    cases b <;> simp [encRaw, dec, hd', classifyC_b cfg Kind.bool (by decide) (by intro h; simp [Kind.isV2] at h)]
  | .int t i, d, rest, f + 1, hw, hd, hf => by
    simp only [Value.depth] at hd
    simp only [Value.WF] at hw
    have hd' : ¬ d + 1 > maxValueDepth := by omega
    simp [encRaw, dec, hd', classifyC_b cfg (Kind.int t) (by cases t <;> decide) (by intro h; simp [Kind.isV2] at h), decInt_encInt t i hw]
  | .fixed k s, d, rest, f + 1, hw, hd, hf => by
    simp only [Value.depth] at hd
    simp only [Value.WF] at hw
    have hd' : ¬ d + 1 > maxValueDepth := by omega
    simp [encRaw, dec, hd', classifyC_b cfg (Kind.fixed k) (by cases k <;> decide) (by intro h; simp [Kind.isV2] at h), takeN_append' s rest _ hw]
  | .string s, d, rest, f + 1, hw, hd, hf => by
    simp only [Value.depth] at hd
    simp only [Value.WF] at hw
    have hd' : ¬ d + 1 > maxValueDepth := by omega
    simp only [encRaw, List.cons_append, List.append_assoc, dec, hd', ↓reduceIte,
      classifyC_b cfg Kind.string (by decide) (by intro h; simp [Kind.isV2] at h)]
    rw [getVarint_putVarint 4 _ (by omega) (by omega) (u32_lt _ hw.1)]
    simp [takeN_append, hw.2]
  | .bytes s, d, rest, f + 1, hw, hd, hf => by
    simp only [Value.depth] at hd
    simp only [Value.WF] at hw
    have hd' : ¬ d + 1 > maxValueDepth := by omega
    cases ep with
    | v1 =>
      simp only [encRaw, List.cons_append, List.append_assoc, dec, hd', ↓reduceIte,
        classifyC_b cfg Kind.bytes1 (by decide) (by intro h; simp [Kind.isV2] at h)]
      rw [getVarint_putVarint 4 _ (by omega) (by omega) (u32_lt _ hw)]
      simp
    | v2 =>
      simp only [encRaw]
      split
      · rename_i he
        simp only [List.isEmpty_iff] at he
        subst he
        simp only [List.cons_append, dec, hd', ↓reduceIte, classifyC_b cfg Kind.bytes2 (by decide) (fun _ => hv2 rfl)]
        cases f with
        | zero => simp [encRaw] at hf
        | succ f =>
          simp only [decChunks]
          rw [getVarint_putVarint 4 _ (by omega) (by omega) (by omega)]
          simp
      · rename_i he
        have hne : s ≠ [] := by simpa using he
        have hpos : 0 < s.length := List.length_pos_iff.mpr hne
        simp only [List.cons_append, List.append_assoc, dec, hd', ↓reduceIte,
          classifyC_b cfg Kind.bytes2 (by decide) (fun _ => hv2 rfl)]
        have hvl := putVarint_length_pos 4 s.length
        simp only [encRaw, he, Bool.false_eq_true, ↓reduceIte, List.length_cons, List.length_append] at hf
        cases f with
        | zero => omega
        | succ f =>
          cases f with
          | zero => omega
          | succ f =>
            simp only [decChunks]
            rw [getVarint_putVarint 4 _ (by omega) (by omega) (u32_lt _ hw)]
            have h0 : ¬ s.length = 0 := by omega
            simp only [h0, ↓reduceIte, short_eq, List.length_append]
            have h1 : ¬ (s.length + ((putVarint 4 0).length + rest.length) < s.length) := by omega
            simp only [h1, decide_false, Bool.false_eq_true, ↓reduceIte, List.drop_left',
              List.take_left']
            rw [getVarint_putVarint 4 _ (by omega) (by omega) (by omega)]
            simp
  | .vec vs, d, rest, f + 1, hw, hd, hf => by
    simp only [Value.depth] at hd
    simp only [Value.WF] at hw
    have hd' : ¬ d + 1 > maxValueDepth := by omega
    cases ep with
    | v1 =>
      simp only [encRaw, List.cons_append, List.append_assoc, dec, hd', ↓reduceIte,
        classifyC_b cfg Kind.vec1 (by decide) (by intro h; simp [Kind.isV2] at h)]
      rw [getVarint_putVarint 4 _ (by omega) (by omega) (u32_lt _ hw.1)]
      have ih := decElems1_encRaw cfg vs (d + 1) rest f hw.2 (by omega)
        (by simp [encRaw] at hf; omega)
      simp [ih]
    | v2 =>
      simp only [encRaw, List.cons_append, dec, hd', ↓reduceIte, classifyC_b cfg Kind.vec2 (by decide) (fun _ => hv2 rfl)]
      have ih := decElems2_encRaw cfg (hv2 rfl) vs (d + 1) rest f hw.2 (by omega)
        (by simp [encRaw] at hf; omega)
      simp [ih]
  | .map kt es, d, rest, f + 1, hw, hd, hf => by
    simp only [Value.depth] at hd
    simp only [Value.WF] at hw
    have hd' : ¬ d + 1 > maxValueDepth := by omega
    cases ep with
    | v1 =>
      simp only [encRaw, List.cons_append, List.append_assoc, dec, hd', ↓reduceIte,
        classifyC_b cfg (Kind.map1 kt) (by cases kt with | int t => cases t <;> decide | _ => decide) (by intro h; simp [Kind.isV2] at h)]
      rw [getVarint_putVarint 4 _ (by omega) (by omega) (u32_lt _ hw.1)]
      have ih := decEntries1_encRaw cfg kt es (d + 1) rest f hw.2 (by omega)
        (by simp [encRaw] at hf; omega)
      simp [ih]
    | v2 =>
      simp only [encRaw, List.cons_append, dec, hd', ↓reduceIte,
        classifyC_b cfg (Kind.map2 kt) (by cases kt with | int t => cases t <;> decide | _ => decide) (fun _ => hv2 rfl)]
      have ih := decEntries2_encRaw cfg (hv2 rfl) kt es (d + 1) rest f hw.2 (by omega)
        (by simp [encRaw] at hf; omega)
      simp [ih]
  | .set kt ks, d, rest, f + 1, hw, hd, hf => by
    simp only [Value.depth] at hd
    simp only [Value.WF] at hw
    have hd' : ¬ d + 1 > maxValueDepth := by omega
    have hkt : kt ≠ .field := hw.1
    have hl := encKeys_length ep kt ks hw.2.2
    cases ep with
    | v1 =>
      simp only [encRaw, List.cons_append, List.append_assoc, dec, hd', ↓reduceIte,
        classifyC_b cfg (Kind.set1 kt) (by cases kt with | int t => cases t <;> decide | field => exact absurd rfl hkt | _ => decide) (by intro h; simp [Kind.isV2] at h)]
      rw [getVarint_putVarint 4 _ (by omega) (by omega) (u32_lt _ hw.2.1)]
      have ih := encKeys_v1_dec cfg.utf8 kt ks rest f hw.2.2 (by simp [encRaw] at hf; omega)
      simp [ih]
    | v2 =>
      simp only [encRaw, List.cons_append, dec, hd', ↓reduceIte,
        classifyC_b cfg (Kind.set2 kt) (by cases kt with | int t => cases t <;> decide | field => exact absurd rfl hkt | _ => decide) (fun _ => hv2 rfl)]
      have ih := encKeys_v2_dec cfg.utf8 kt ks rest f hw.2.2 (by simp [encRaw] at hf; omega)
      simp [ih]
  | .enum id v, d, rest, f + 1, hw, hd, hf => by
    simp only [Value.depth] at hd
    simp only [Value.WF] at hw
    have hd' : ¬ d + 1 > maxValueDepth := by omega
    have ih := dec_encRaw cfg ep hv2 v (d + 1) rest f hw.2 (by omega) (by simp [encRaw] at hf; omega)
    simp only [encRaw, List.cons_append, List.append_assoc, dec, hd', ↓reduceIte,
      classifyC_b cfg Kind.enum (by decide) (by intro h; simp [Kind.isV2] at h)]
    rw [getVarint_putVarint 4 _ (by omega) (by omega) (u32_lt _ hw.1)]
    simp [ih]

theorem decElems1_encRaw (cfg : DecCfg) : ∀ (vs : List Value) (d : Nat) (rest : Bytes) (fuel : Nat),
    WFList vs → d + depthList vs ≤ maxValueDepth + 1 - 1 → 2 * (encElemsRaw .v1 vs).length + 2 ≤ fuel →
    decElems1 cfg fuel vs.length (encElemsRaw .v1 vs ++ rest) d = .ok (vs, rest)
  | vs, d, rest, 0, _, _, hf => by omega
  | [], d, rest, f + 1, _, _, _ => by simp [decElems1, encElemsRaw]
  | v :: vs, d, rest, f + 1, hw, hd, hf => by
    simp only [WFList] at hw
    simp only [depthList] at hd
    have hp := encRaw_length_pos .v1 v
    simp only [encElemsRaw, List.length_append] at hf
    have ih1 := dec_encRaw cfg .v1 (by intro h; cases h) v d (encElemsRaw .v1 vs ++ rest) f hw.1 (by omega) (by omega)
    have ih2 := decElems1_encRaw cfg vs d rest f hw.2 (by omega) (by omega)
    simp [decElems1, encElemsRaw, ih1, ih2]

theorem decElems2_encRaw (cfg : DecCfg) (hc : cfg.v2 = true) : ∀ (vs : List Value) (d : Nat) (rest : Bytes) (fuel : Nat),
    WFList vs → d + depthList vs ≤ maxValueDepth + 1 - 1 → 2 * (encElemsRaw .v2 vs).length + 2 ≤ fuel →
    decElems2 cfg fuel (encElemsRaw .v2 vs ++ rest) d = .ok (vs, rest)
  | vs, d, rest, 0, _, _, hf => by omega
  | [], d, rest, f + 1, _, _, _ => by simp [decElems2, encElemsRaw]
  | v :: vs, d, rest, f + 1, hw, hd, hf => by
    simp only [WFList] at hw
    simp only [depthList] at hd
    simp only [encElemsRaw, List.length_cons, List.length_append] at hf
    have ih1 := dec_encRaw cfg .v2 (fun _ => hc) v d (encElemsRaw .v2 vs ++ rest) f hw.1 (by omega) (by omega)
    have ih2 := decElems2_encRaw cfg hc vs d rest f hw.2 (by omega) (by omega)
    simp [decElems2, encElemsRaw, some_ne_none_b, ih1, ih2]

theorem decEntries1_encRaw (cfg : DecCfg) (kt : KeyTy) : ∀ (es : List (Key × Value)) (d : Nat) (rest : Bytes) (fuel : Nat),
    WFEntries kt es → d + depthEntries es ≤ maxValueDepth + 1 - 1 → 2 * (encEntriesRaw .v1 kt es).length + 2 ≤ fuel →
    decEntries1 cfg kt fuel es.length (encEntriesRaw .v1 kt es ++ rest) d = .ok (es, rest)
  | es, d, rest, 0, _, _, hf => by omega
  | [], d, rest, f + 1, _, _, _ => by simp [decEntries1, encEntriesRaw]
  | (k, v) :: es, d, rest, f + 1, hw, hd, hf => by
    simp only [WFEntries] at hw
    simp only [depthEntries] at hd
    have hp := encRaw_length_pos .v1 v
    simp only [encEntriesRaw, List.length_append] at hf
    have ih1 := dec_encRaw cfg .v1 (by intro h; cases h) v d (encEntriesRaw .v1 kt es ++ rest) f hw.2.1 (by omega) (by omega)
    have ih2 := decEntries1_encRaw cfg kt es d rest f hw.2.2 (by omega) (by omega)
    simp [decEntries1, encEntriesRaw, decKey_encKey cfg.utf8 kt k hw.1, ih1, ih2]

theorem decEntries2_encRaw (cfg : DecCfg) (hc : cfg.v2 = true) (kt : KeyTy) : ∀ (es : List (Key × Value)) (d : Nat) (rest : Bytes) (fuel : Nat),
    WFEntries kt es → d + depthEntries es ≤ maxValueDepth + 1 - 1 → 2 * (encEntriesRaw .v2 kt es).length + 2 ≤ fuel →
    decEntries2 cfg kt fuel (encEntriesRaw .v2 kt es ++ rest) d = .ok (es, rest)
  | es, d, rest, 0, _, _, hf => by omega
  | [], d, rest, f + 1, _, _, _ => by simp [decEntries2, encEntriesRaw]
  | (k, v) :: es, d, rest, f + 1, hw, hd, hf => by
    simp only [WFEntries] at hw
    simp only [depthEntries] at hd
    simp only [encEntriesRaw, List.length_cons, List.length_append] at hf
    have ih1 := dec_encRaw cfg .v2 (fun _ => hc) v d (encEntriesRaw .v2 kt es ++ rest) f hw.2.1 (by omega) (by omega)
    have ih2 := decEntries2_encRaw cfg hc kt es d rest f hw.2.2 (by omega) (by omega)
    simp [decEntries2, encEntriesRaw, some_ne_none_b, decKey_encKey cfg.utf8 kt k hw.1, ih1, ih2]
end

end Aldrin
