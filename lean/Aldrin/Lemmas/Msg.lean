import Aldrin.Model.Msg
import Aldrin.Lemmas.Fuel
namespace Aldrin
open Generated

/-! Generic layout interpreter: fields written along a path of a tree are read back by the tree. -/

theorem encFld_disc_lt {n : Nat} (h : n < 256) : (UInt8.ofNat n).toNat = n := by
  simp [UInt8.toNat_ofNat']; omega

mutual
theorem decTree_encFlds : ∀ (t : L) (fs : List Fld) (m : VMode) (rest : Bytes),
    modeOf t fs = some m → decTree t (encFlds fs ++ rest) = .ok (fs, m, rest)
  | .u32 k, fs, m, rest, h => by
    cases fs with
    | nil => simp [modeOf] at h
    | cons f fs =>
      cases f <;> simp only [modeOf] at h <;> try (simp at h)
      rename_i n
      obtain ⟨hn, h⟩ := h
      have ih := decTree_encFlds k fs m rest h
      simp only [encFlds, encFld, List.append_assoc, decTree]
      rw [getVarint_putVarint 4 n (by omega) (by omega) hn]
      simp [ih]
  | .uuid k, fs, m, rest, h => by
    cases fs with
    | nil => simp [modeOf] at h
    | cons f fs =>
      cases f <;> simp only [modeOf] at h <;> try (simp at h)
      rename_i u
      obtain ⟨hu, h⟩ := h
      have ih := decTree_encFlds k fs m rest h
      simp only [encFlds, encFld, List.append_assoc, decTree]
      rw [takeN_append' u _ 16 hu]
      simp [ih]
  | .enumv vals k, fs, m, rest, h => by
    cases fs with
    | nil => simp [modeOf] at h
    | cons f fs =>
      cases f <;> simp only [modeOf] at h <;> try (simp at h)
      rename_i n
      obtain ⟨⟨hv, hn⟩, h⟩ := h
      have ih := decTree_encFlds k fs m rest h
      simp only [encFlds, encFld, List.cons_append, List.nil_append, decTree, encFld_disc_lt hn]
      simp [hv, ih]
  | .tag alts, fs, m, rest, h => by
    cases fs with
    | nil => simp [modeOf] at h
    | cons f fs =>
      cases f <;> simp only [modeOf] at h <;> try (simp at h)
      rename_i n
      obtain ⟨hn, h⟩ := h
      have ih := decAlts_encFlds alts n fs m rest h
      simp only [encFlds, encFld, List.cons_append, List.nil_append, decTree, encFld_disc_lt hn]
      simp [ih]
  | .fin m', fs, m, rest, h => by
    cases fs with
    | nil => simp [modeOf] at h; subst h; simp [encFlds, decTree]
    | cons f fs => simp [modeOf] at h

theorem decAlts_encFlds : ∀ (alts : List (Nat × L)) (n : Nat) (fs : List Fld) (m : VMode) (rest : Bytes),
    modeOfAlts alts n fs = some m → decAlts alts n (encFlds fs ++ rest) = .ok (fs, m, rest)
  | [], n, fs, m, rest, h => by simp [modeOfAlts] at h
  | (a, k) :: alts, n, fs, m, rest, h => by
    simp only [modeOfAlts] at h
    simp only [decAlts]
    split
    · rename_i he
      simp [he] at h
      exact decTree_encFlds k fs m rest h
    · rename_i he
      simp [he] at h
      exact decAlts_encFlds alts n fs m rest h
end

mutual
/-- Whatever the tree reads conforms to the tree (so it can be written again), and the bytes it
did not read are a suffix of the input. -/
theorem decTree_sound : ∀ (t : L) (bs : Bytes) (fs : List Fld) (m : VMode) (rest : Bytes),
    decTree t bs = .ok (fs, m, rest) → modeOf t fs = some m ∧ rest.length ≤ bs.length
  | .u32 k, bs, fs, m, rest, h => by
    simp only [decTree] at h
    split at h
    · simp at h
    · rename_i n r hg
      split at h
      · simp at h
      · rename_i fs' m' r' hd
        simp at h; obtain ⟨rfl, rfl, rfl⟩ := h
        have ih := decTree_sound k r fs' m' r' hd
        have hb := getVarint_ok (by decide) (by decide) hg
        simp only [modeOf]
        exact ⟨by simp [hb.2.2.1, ih.1], by omega⟩
  | .uuid k, bs, fs, m, rest, h => by
    simp only [decTree] at h
    split at h
    · simp at h
    · rename_i u r hg
      split at h
      · simp at h
      · rename_i fs' m' r' hd
        simp at h; obtain ⟨rfl, rfl, rfl⟩ := h
        have ih := decTree_sound k r fs' m' r' hd
        have hb := takeN_ok hg
        simp only [modeOf]
        exact ⟨by simp [hb.2.1, ih.1], by omega⟩
  | .enumv vals k, bs, fs, m, rest, h => by
    cases bs with
    | nil => simp [decTree] at h
    | cons b r =>
      simp only [decTree] at h
      split at h
      · rename_i hv
        split at h
        · simp at h
        · rename_i fs' m' r' hd
          simp at h; obtain ⟨rfl, rfl, rfl⟩ := h
          have ih := decTree_sound k r fs' m' r' hd
          have := b.toNat_lt
          simp only [modeOf]
          have hv' : b.toNat ∈ vals := by simpa using hv
          exact ⟨by simp [hv', this, ih.1], by simp; omega⟩
      · simp at h
  | .tag alts, bs, fs, m, rest, h => by
    cases bs with
    | nil => simp [decTree] at h
    | cons b r =>
      simp only [decTree] at h
      split at h
      · simp at h
      · rename_i fs' m' r' hd
        simp at h; obtain ⟨rfl, rfl, rfl⟩ := h
        have ih := decAlts_sound alts b.toNat r fs' m' r' hd
        have := b.toNat_lt
        simp only [modeOf]
        exact ⟨by simp [this, ih.1], by simp; omega⟩
  | .fin m', bs, fs, m, rest, h => by
    simp [decTree] at h; obtain ⟨rfl, rfl, rfl⟩ := h; simp [modeOf]

theorem decAlts_sound : ∀ (alts : List (Nat × L)) (n : Nat) (bs : Bytes) (fs : List Fld) (m : VMode) (rest : Bytes),
    decAlts alts n bs = .ok (fs, m, rest) → modeOfAlts alts n fs = some m ∧ rest.length ≤ bs.length
  | [], n, bs, fs, m, rest, h => by simp [decAlts] at h
  | (a, k) :: alts, n, bs, fs, m, rest, h => by
    simp only [decAlts] at h
    simp only [modeOfAlts]
    split at h
    · rename_i he; simp [he]; exact decTree_sound k bs fs m rest h
    · rename_i he; simp [he]; exact decAlts_sound alts n bs fs m rest h
end

end Aldrin

namespace Aldrin
open Generated

/-! Frame header -/

theorem u32le_length (n : Nat) : (u32le n).length = 4 := by simp [u32le]

theorem ofLeBytes_u32le {n : Nat} (h : n ≤ 4294967295) : ofLeBytes (u32le n) = n := by
  unfold u32le
  rw [ofLeBytes_leBytes]
  exact Nat.mod_eq_of_lt (by omega)

theorem hdr_getD (a : Bytes) (kb : UInt8) (body : Bytes) (h : a.length = 4) :
    (a ++ kb :: body).getD 4 0 = kb := by
  match a, h with
  | [a0, a1, a2, a3], _ => rfl

theorem hdr_take (a : Bytes) (x : Bytes) (h : a.length = 4) : (a ++ x).take 4 = a := by
  rw [← h]; simp

theorem hdr_drop5 (a : Bytes) (kb : UInt8) (body : Bytes) (h : a.length = 4) :
    (a ++ kb :: body).drop 5 = body := by
  match a, h with
  | [a0, a1, a2, a3], _ => rfl

theorem hdr_drop5_take4 (a : Bytes) (kb : UInt8) (b : Bytes) (rest : Bytes) (h : a.length = 4) (hb : b.length = 4) :
    ((a ++ kb :: (b ++ rest)).drop 5).take 4 = b := by
  rw [hdr_drop5 a kb _ h, hdr_take b rest hb]

theorem hdr_drop9 (a : Bytes) (kb : UInt8) (b : Bytes) (rest : Bytes) (h : a.length = 4) (hb : b.length = 4) :
    (a ++ kb :: (b ++ rest)).drop 9 = rest := by
  match a, h, b, hb with
  | [a0, a1, a2, a3], _, [b0, b1, b2, b3], _ => rfl

theorem hdr_drop9n (a : Bytes) (kb : UInt8) (b : Bytes) (v rest : Bytes) (h : a.length = 4) (hb : b.length = 4) :
    (a ++ kb :: (b ++ (v ++ rest))).drop (9 + v.length) = rest := by
  rw [← List.drop_drop, hdr_drop9 a kb b _ h hb]
  simp

/-! Obligations on the generated tables -/

theorem lookupKind_mem {α : Type} {k : Nat} {a : α} : ∀ {l : List (Nat × α)}, lookupKind k l = some a → (k, a) ∈ l
  | [], h => by simp [lookupKind] at h
  | (m, b) :: r, h => by
    simp only [lookupKind] at h
    split at h
    · rename_i he; simp at h; subst h; subst he; simp
    · exact List.mem_cons_of_mem _ (lookupKind_mem h)

/-- All fins of a tree treat the value slot the way the constructor promises. -/
def treeModesOk (hv : Bool) : L → Bool
  | .u32 k => treeModesOk hv k
  | .uuid k => treeModesOk hv k
  | .enumv _ k => treeModesOk hv k
  | .tag alts => altsModesOk hv alts
  | .fin m => if hv then m != .none else m == .none
where altsModesOk (hv : Bool) : List (Nat × L) → Bool
  | [] => true
  | (_, k) :: r => treeModesOk hv k && altsModesOk hv r

/-- Kind bytes fit a byte; the constructor table has the same kinds as the tree table; in frames
without value no path keeps or discards a value and vice versa. -/
theorem tables_ok :
    (deTrees.map (·.1)) = (deCtorHasValue.map (·.1)) ∧ (deTrees.map (·.1)) = (hasValueTable.map (·.1)) ∧
    deCtorHasValue = hasValueTable ∧
    (deTrees.map (·.1)).all (· < 256) = true ∧
    (deTrees.all (fun p => treeModesOk ((lookupKind p.1 deCtorHasValue).getD false) p.2)) = true := by
  refine ⟨by decide, by decide, by decide, by decide, by decide⟩

end Aldrin

namespace Aldrin
open Generated

mutual
theorem modeOf_modesOk (hv : Bool) : ∀ (t : L) (fs : List Fld) (m : VMode),
    modeOf t fs = some m → treeModesOk hv t = true → (if hv then m ≠ .none else m = .none)
  | .u32 k, fs, m, h, ho => by
    cases fs with
    | nil => simp [modeOf] at h
    | cons f fs =>
      cases f <;> simp only [modeOf] at h <;> try (simp at h)
      exact modeOf_modesOk hv k fs m h.2 (by simpa [treeModesOk] using ho)
  | .uuid k, fs, m, h, ho => by
    cases fs with
    | nil => simp [modeOf] at h
    | cons f fs =>
      cases f <;> simp only [modeOf] at h <;> try (simp at h)
      exact modeOf_modesOk hv k fs m h.2 (by simpa [treeModesOk] using ho)
  | .enumv vals k, fs, m, h, ho => by
    cases fs with
    | nil => simp [modeOf] at h
    | cons f fs =>
      cases f <;> simp only [modeOf] at h <;> try (simp at h)
      exact modeOf_modesOk hv k fs m h.2 (by simpa [treeModesOk] using ho)
  | .tag alts, fs, m, h, ho => by
    cases fs with
    | nil => simp [modeOf] at h
    | cons f fs =>
      cases f <;> simp only [modeOf] at h <;> try (simp at h)
      exact modeOfAlts_modesOk hv alts _ fs m h.2 (by simpa [treeModesOk] using ho)
  | .fin m', fs, m, h, ho => by
    cases fs with
    | nil =>
      simp [modeOf] at h; subst h
      simp only [treeModesOk] at ho
      cases hv <;> simp_all
    | cons f fs => simp [modeOf] at h

theorem modeOfAlts_modesOk (hv : Bool) : ∀ (alts : List (Nat × L)) (n : Nat) (fs : List Fld) (m : VMode),
    modeOfAlts alts n fs = some m → treeModesOk.altsModesOk hv alts = true → (if hv then m ≠ .none else m = .none)
  | [], n, fs, m, h, _ => by simp [modeOfAlts] at h
  | (a, k) :: alts, n, fs, m, h, ho => by
    simp only [modeOfAlts] at h
    simp only [treeModesOk.altsModesOk, Bool.and_eq_true] at ho
    split at h
    · exact modeOf_modesOk hv k fs m h ho.1
    · exact modeOfAlts_modesOk hv alts n fs m h ho.2
end

/-- A generic message as the Rust types allow it: its fields follow a path of its kind's layout,
it carries a non-empty value exactly where the path keeps one, and it fits a `u32` length. -/
def Rec.WF (r : Rec) : Prop :=
  ∃ t m, lookupKind r.kind deTrees = some t ∧ modeOf t r.flds = some m ∧
    (match m with
     | .keep => ∃ v, r.value = some v ∧ 1 ≤ v.length
     | _ => r.value = none) ∧
    (match m with
     | .none => 5 + (encFlds r.flds).length
     | .keep => 9 + (r.value.getD []).length + (encFlds r.flds).length
     | .discard => 10 + (encFlds r.flds).length) ≤ 4294967295

theorem kind_facts {k : Nat} {t : L} (h : lookupKind k deTrees = some t) :
    k < 256 ∧ ∃ hv, lookupKind k deCtorHasValue = some hv ∧ treeModesOk hv t = true := by
  have hm := lookupKind_mem h
  have h4 := tables_ok.2.2.2.1
  have h5 := tables_ok.2.2.2.2
  rw [List.all_eq_true] at h4 h5
  have hk : k < 256 := by
    have := h4 k (List.mem_map.mpr ⟨(k, t), hm, rfl⟩)
    simpa using this
  have h5' := h5 (k, t) hm
  simp only at h5'
  -- the constructor table has an entry for every kind of the tree table
  have hkeys := tables_ok.1
  have hin : k ∈ deCtorHasValue.map (·.1) := by
    rw [← hkeys]; exact List.mem_map.mpr ⟨(k, t), hm, rfl⟩
  have : ∃ hv, lookupKind k deCtorHasValue = some hv := by
    clear h5' h5 h4 hkeys
    generalize deCtorHasValue = l at hin
    induction l with
    | nil => simp at hin
    | cons p l ih =>
      obtain ⟨a, b⟩ := p
      simp only [lookupKind]
      by_cases he : a = k
      · exact ⟨b, by simp [he]⟩
      · simp only [List.map_cons, List.mem_cons] at hin
        rcases hin with hin | hin
        · exact absurd hin.symm he
        · obtain ⟨hv, hh⟩ := ih hin
          exact ⟨hv, by simp [he, hh]⟩
  obtain ⟨hv, hh⟩ := this
  refine ⟨hk, hv, hh, ?_⟩
  simpa [hh] using h5'

end Aldrin

namespace Aldrin
open Generated

theorem sigBytesAux_le_of_lt : ∀ (f n k : Nat), n < 256 ^ k → sigBytesAux f n ≤ k := sigBytesAux_le

/-- The canonical encoding of a varint is never longer than any accepted encoding of it. -/
theorem putVarint_le_read {bs r : Bytes} {n : Nat} (h : getVarint 4 bs = .ok (n, r)) :
    (putVarint 4 n).length + r.length ≤ bs.length := by
  cases bs with
  | nil => simp [getVarint] at h
  | cons first t =>
    simp only [getVarint] at h
    split at h
    · rename_i hf
      generalize hkdef : first.toNat + 4 - 255 = k at h
      have hk1 : 1 ≤ k := by omega
      split at h
      · simp at h
      · rename_i hs
        simp only [short_eq, decide_eq_true_eq, Nat.not_lt] at hs
        simp only [Except.ok.injEq, Prod.mk.injEq] at h
        obtain ⟨rfl, rfl⟩ := h
        have hlt := ofLeBytes_lt (t.take k)
        have hkl : (t.take k).length = k := by simp; omega
        rw [hkl] at hlt
        have hsb := sigBytes_le hlt
        have hdl : (t.drop k).length = t.length - k := by simp
        unfold putVarint
        simp only
        split
        · simp only [List.length_cons, leBytes_length]; omega
        · split
          · simp only [List.length_cons, List.length_nil]; omega
          · simp only [List.length_cons, List.length_nil]; omega
    · rename_i hf
      simp only [Except.ok.injEq, Prod.mk.injEq] at h
      obtain ⟨rfl, rfl⟩ := h
      have := first.toNat_lt
      have hs : sigBytes first.toNat ≤ 1 := sigBytes_le (by simpa using this)
      unfold putVarint
      simp only
      split
      · omega
      · simp only [List.length_cons, List.length_nil]; omega

mutual
theorem decTree_size : ∀ (t : L) (bs : Bytes) (fs : List Fld) (m : VMode) (rest : Bytes),
    decTree t bs = .ok (fs, m, rest) → (encFlds fs).length + rest.length ≤ bs.length
  | .u32 k, bs, fs, m, rest, h => by
    simp only [decTree] at h
    split at h
    · simp at h
    · rename_i n r hg
      split at h
      · simp at h
      · rename_i fs' m' r' hd
        simp at h; obtain ⟨rfl, rfl, rfl⟩ := h
        have ih := decTree_size k r fs' m' r' hd
        have := putVarint_le_read hg
        simp [encFlds, encFld]; omega
  | .uuid k, bs, fs, m, rest, h => by
    simp only [decTree] at h
    split at h
    · simp at h
    · rename_i u r hg
      split at h
      · simp at h
      · rename_i fs' m' r' hd
        simp at h; obtain ⟨rfl, rfl, rfl⟩ := h
        have ih := decTree_size k r fs' m' r' hd
        have := takeN_ok hg
        simp [encFlds, encFld]; omega
  | .enumv vals k, bs, fs, m, rest, h => by
    cases bs with
    | nil => simp [decTree] at h
    | cons b r =>
      simp only [decTree] at h
      split at h
      · split at h
        · simp at h
        · rename_i fs' m' r' hd
          simp at h; obtain ⟨rfl, rfl, rfl⟩ := h
          have ih := decTree_size k r fs' m' r' hd
          simp [encFlds, encFld]; omega
      · simp at h
  | .tag alts, bs, fs, m, rest, h => by
    cases bs with
    | nil => simp [decTree] at h
    | cons b r =>
      simp only [decTree] at h
      split at h
      · simp at h
      · rename_i fs' m' r' hd
        simp at h; obtain ⟨rfl, rfl, rfl⟩ := h
        have ih := decAlts_size alts b.toNat r fs' m' r' hd
        simp [encFlds, encFld]; omega
  | .fin m', bs, fs, m, rest, h => by
    simp [decTree] at h; obtain ⟨rfl, rfl, rfl⟩ := h; simp [encFlds]

theorem decAlts_size : ∀ (alts : List (Nat × L)) (n : Nat) (bs : Bytes) (fs : List Fld) (m : VMode) (rest : Bytes),
    decAlts alts n bs = .ok (fs, m, rest) → (encFlds fs).length + rest.length ≤ bs.length
  | [], n, bs, fs, m, rest, h => by simp [decAlts] at h
  | (a, k) :: alts, n, bs, fs, m, rest, h => by
    simp only [decAlts] at h
    split at h
    · exact decTree_size k bs fs m rest h
    · exact decAlts_size alts n bs fs m rest h
end

end Aldrin
