/-
Lemmas about the generated-types model (`Model/Typed.lean`): the field loop and `finish_with` of a derived
struct, and the facts about `accept` that the C16 theorems are built from.
-/
import Aldrin.Model.Typed

namespace Aldrin.Typed
open Aldrin

/-! ### `lastOf`, `dedupLast` -/

theorem lastOf_append (id : Nat) (a b : List (Nat × Value)) :
    lastOf id (a ++ b) = match lastOf id b with | some w => some w | none => lastOf id a := by
  induction a with
  | nil => simp [lastOf]; split <;> simp_all
  | cons p a ih =>
    obtain ⟨i, v⟩ := p
    simp only [List.cons_append, lastOf, ih]
    cases lastOf id b <;> simp

theorem lastOf_none_iff (id : Nat) (l : List (Nat × Value)) :
    lastOf id l = none ↔ ∀ p ∈ l, p.1 ≠ id := by
  induction l with
  | nil => simp [lastOf]
  | cons p l ih =>
    obtain ⟨i, v⟩ := p
    simp only [lastOf]
    cases h : lastOf id l with
    | some w =>
      simp only [reduceCtorEq, false_iff]
      intro hall
      have : lastOf id l = none := ih.2 (fun p hp => hall p (List.mem_cons_of_mem _ hp))
      simp [this] at h
    | none =>
      have := ih.1 h
      by_cases hi : i = id
      · simp [hi]
      · simp only [beq_iff_eq, hi, ↓reduceIte, true_iff]
        intro p hp
        rcases List.mem_cons.1 hp with rfl | hp
        · exact hi
        · exact this p hp

theorem lastOf_mem {id : Nat} {l : List (Nat × Value)} {v : Value} (h : lastOf id l = some v) :
    (id, v) ∈ l := by
  induction l with
  | nil => simp [lastOf] at h
  | cons p l ih =>
    obtain ⟨i, x⟩ := p
    simp only [lastOf] at h
    cases h' : lastOf id l with
    | some w => simp [h'] at h; subst h; exact List.mem_cons_of_mem _ (ih h')
    | none =>
      simp only [h'] at h
      split at h
      · simp_all
      · simp at h

/-- With pairwise distinct ids the last value is the only one. -/
theorem lastOf_of_mem_nodup {id : Nat} {l : List (Nat × Value)} {v : Value}
    (hn : (l.map (·.1)).Nodup) (h : (id, v) ∈ l) : lastOf id l = some v := by
  induction l with
  | nil => simp at h
  | cons p l ih =>
    obtain ⟨i, x⟩ := p
    simp only [List.map_cons, List.nodup_cons, List.mem_map, not_exists, not_and] at hn
    simp only [List.mem_cons, Prod.mk.injEq] at h
    simp only [lastOf]
    rcases h with ⟨rfl, rfl⟩ | h
    · have : lastOf id l = none := (lastOf_none_iff _ _).2 (fun p hp he => hn.1 p hp he)
      simp [this]
    · simp [ih hn.2 h]

theorem dedupLast_nodup (l : List (Nat × Value)) (hn : (l.map (·.1)).Nodup) :
    dedupLast l = l.map (fun p => (Key.int p.1, p.2)) := by
  induction l with
  | nil => rfl
  | cons p l ih =>
    obtain ⟨i, x⟩ := p
    simp only [List.map_cons, List.nodup_cons, List.mem_map, not_exists, not_and] at hn
    have : lastOf i l = none := (lastOf_none_iff _ _).2 (fun p hp he => hn.1 p hp he)
    simp [dedupLast, this, ih hn.2]

theorem mem_dedupLast {id : Nat} {v : Value} {l : List (Nat × Value)} (h : lastOf id l = some v) :
    (Key.int id, v) ∈ dedupLast l := by
  induction l with
  | nil => simp [lastOf] at h
  | cons p l ih =>
    obtain ⟨i, x⟩ := p
    simp only [lastOf] at h
    simp only [dedupLast]
    cases h' : lastOf id l with
    | some w =>
      simp only [h'] at h; cases h
      split
      · exact ih h'
      · exact List.mem_cons_of_mem _ (ih h')
    | none =>
      simp only [h'] at h
      split at h
      · rename_i hi
        have hi : i = id := by simpa using hi
        subst hi
        cases h
        simp [h']
      · simp at h

/-- `dedupLast` on `(id, value)` pairs. -/
def dedupLastN : List (Nat × Value) → List (Nat × Value)
  | [] => []
  | (i, v) :: r => if (lastOf i r).isSome then dedupLastN r else (i, v) :: dedupLastN r

theorem dedupLast_eq (l : List (Nat × Value)) :
    dedupLast l = (dedupLastN l).map (fun p => (Key.int p.1, p.2)) := by
  induction l with
  | nil => rfl
  | cons p l ih =>
    obtain ⟨i, x⟩ := p
    simp only [dedupLast, dedupLastN]
    split <;> simp [ih]

theorem dedupLastN_sub (l : List (Nat × Value)) : ∀ p ∈ dedupLastN l, p ∈ l := by
  induction l with
  | nil => simp [dedupLastN]
  | cons p l ih =>
    obtain ⟨i, x⟩ := p
    simp only [dedupLastN]
    split
    · exact fun p hp => List.mem_cons_of_mem _ (ih p hp)
    · intro p hp
      rcases List.mem_cons.1 hp with rfl | hp
      · exact List.mem_cons_self
      · exact List.mem_cons_of_mem _ (ih p hp)

theorem dedupLastN_nodup (l : List (Nat × Value)) : ((dedupLastN l).map (·.1)).Nodup := by
  induction l with
  | nil => simp [dedupLastN]
  | cons p l ih =>
    obtain ⟨i, x⟩ := p
    simp only [dedupLastN]
    split
    · exact ih
    · rename_i hnone
      have hnone : lastOf i l = none := by simpa using hnone
      simp only [List.map_cons, List.nodup_cons, ih, and_true, List.mem_map, not_exists, not_and]
      intro q hq he
      exact (lastOf_none_iff _ _).1 hnone q (dedupLastN_sub l q hq) he

theorem filterMap_congr' {α β : Type} {f g : α → Option β} : ∀ {l : List α}, (∀ x ∈ l, f x = g x) →
    l.filterMap f = l.filterMap g
  | [], _ => rfl
  | a :: l, h => by
    simp only [List.filterMap_cons, h a List.mem_cons_self,
      filterMap_congr' (l := l) (fun x hx => h x (List.mem_cons_of_mem _ hx))]

@[simp] theorem keyId_int (i : Nat) : keyId (.int (i : Int)) = some i := by
  simp [keyId]

/-! ### `finish_with` -/

/-- What `finish_with` writes for one declared field. -/
def emit (acc : List (Nat × Value)) (f : Field) : Option (Key × Value) :=
  match lastOf f.id acc with
  | none => none
  | some v =>
    if f.required then some (.int f.id, v)
    else match v with
      | .none => none
      | w => some (.int f.id, w)

theorem finishFields_eq (fs : List Field) (acc : List (Nat × Value)) :
    finishFields fs acc =
      if ∀ f ∈ fs, f.required = true → (lastOf f.id acc).isSome then some (fs.filterMap (emit acc)) else none := by
  induction fs with
  | nil => simp [finishFields]
  | cons f fs ih =>
    rw [finishFields, ih]
    by_cases hall : ∀ f ∈ fs, f.required = true → (lastOf f.id acc).isSome
    · rw [if_pos hall]
      simp only [List.filterMap_cons, emit]
      cases hl : lastOf f.id acc with
      | none =>
        cases hr : f.required
        · have : ∀ g ∈ f :: fs, g.required = true → (lastOf g.id acc).isSome := by
            intro g hg; rcases List.mem_cons.1 hg with rfl | hg
            · simp [hr]
            · exact hall g hg
          rw [if_pos this]; simp
        · have : ¬ ∀ g ∈ f :: fs, g.required = true → (lastOf g.id acc).isSome := by
            intro hh; have := hh f List.mem_cons_self hr; simp [hl] at this
          rw [if_neg this]; simp
      | some v =>
        have : ∀ g ∈ f :: fs, g.required = true → (lastOf g.id acc).isSome := by
          intro g hg; rcases List.mem_cons.1 hg with rfl | hg
          · simp [hl]
          · exact hall g hg
        rw [if_pos this]
        cases hr : f.required
        · cases v <;> simp
        · simp
    · rw [if_neg hall]
      have : ¬ ∀ g ∈ f :: fs, g.required = true → (lastOf g.id acc).isSome :=
        fun hh => hall (fun g hg => hh g (List.mem_cons_of_mem _ hg))
      rw [if_neg this]

theorem finishFields_some {fs : List Field} {acc : List (Nat × Value)} {out : List (Key × Value)}
    (h : finishFields fs acc = some out) :
    (∀ f ∈ fs, f.required = true → (lastOf f.id acc).isSome) ∧ out = fs.filterMap (emit acc) := by
  rw [finishFields_eq] at h
  split at h
  · exact ⟨‹_›, by simpa using h.symm⟩
  · simp at h

theorem emit_id {acc : List (Nat × Value)} {f : Field} {p : Key × Value} (h : emit acc f = some p) :
    p.1 = .int f.id ∧ lastOf f.id acc = some p.2 ∧ (f.required = false → p.2 ≠ .none) := by
  unfold emit at h
  split at h
  · simp at h
  · rename_i v hv
    split at h
    · cases h; simp_all
    · split at h
      · simp at h
      · rename_i hne
        cases h
        refine ⟨rfl, hv, fun _ he => ?_⟩
        simp only at he
        subst he
        exact hne rfl

/-- The written fields as `(id, value)` pairs. -/
def emitted (fs : List Field) (acc : List (Nat × Value)) : List (Nat × Value) :=
  fs.filterMap (fun f => (emit acc f).map (fun p => (f.id, p.2)))

theorem emitted_mem {fs : List Field} {acc : List (Nat × Value)} {q : Nat × Value} (h : q ∈ emitted fs acc) :
    ∃ f ∈ fs, f.id = q.1 ∧ ∃ p, emit acc f = some p ∧ p.2 = q.2 := by
  simp only [emitted, List.mem_filterMap, Option.map_eq_some_iff] at h
  obtain ⟨f, hf, p, hp, rfl⟩ := h
  exact ⟨f, hf, rfl, p, hp, rfl⟩

/-- With pairwise distinct field ids, looking a field up among the written fields gives what was written. -/
theorem lastOf_emitted {fs : List Field} (acc : List (Nat × Value)) (hn : (fs.map (·.id)).Nodup) :
    ∀ f ∈ fs, lastOf f.id (emitted fs acc) = (emit acc f).map (·.2) := by
  induction fs with
  | nil => simp
  | cons g fs ih =>
    simp only [List.map_cons, List.nodup_cons, List.mem_map, not_exists, not_and] at hn
    intro f hf
    have hrest : ∀ f ∈ fs, lastOf g.id (emitted fs acc) = none ∧ True := fun _ _ =>
      ⟨(lastOf_none_iff _ _).2 (fun q hq he => by
        obtain ⟨f', hf', hid, _⟩ := emitted_mem hq
        exact hn.1 f' hf' (hid.trans he)), trivial⟩
    have hgnone : lastOf g.id (emitted fs acc) = none :=
      (lastOf_none_iff _ _).2 (fun q hq he => by
        obtain ⟨f', hf', hid, _⟩ := emitted_mem hq
        exact hn.1 f' hf' (hid.trans he))
    rcases List.mem_cons.1 hf with rfl | hf
    · simp only [emitted, List.filterMap_cons]
      cases he : emit acc f with
      | none => simpa [emitted] using hgnone
      | some p =>
        simp only [Option.map_some, lastOf]
        have : lastOf f.id (List.filterMap (fun f => Option.map (fun p => (f.id, p.2)) (emit acc f)) fs) = none := hgnone
        simp [this]
    · have hne : g.id ≠ f.id := fun he => hn.1 f hf he.symm
      simp only [emitted, List.filterMap_cons]
      cases he : emit acc g with
      | none => exact ih hn.2 f hf
      | some p =>
        simp only [Option.map_some, lastOf]
        have := ih hn.2 f hf
        simp only [emitted] at this
        rw [this]
        cases emit acc f <;> simp [hne]

/-- Finishing what was finished changes nothing. -/
theorem emit_emitted {fs : List Field} (acc : List (Nat × Value)) (hn : (fs.map (·.id)).Nodup) :
    ∀ f ∈ fs, emit (emitted fs acc) f = emit acc f := by
  intro f hf
  have h := lastOf_emitted acc hn f hf
  cases he : emit acc f with
  | none =>
    rw [he] at h
    simp only [Option.map_none] at h
    unfold emit
    rw [h]
  | some p =>
    obtain ⟨h1, h2, h3⟩ := emit_id he
    simp only [he, Option.map_some] at h
    unfold emit
    simp only [h]
    cases hr : f.required
    · have := h3 hr
      simp only [Bool.false_eq_true, ↓reduceIte]
      cases hp : p.2 <;> simp_all <;> exact Prod.ext h1.symm (by simp [hp])
    · simp only [↓reduceIte, Option.some.injEq]
      exact Prod.ext h1.symm rfl

/-! ### the field loop -/

/-- Field ids of every struct of the environment are pairwise distinct (schema validation rejects the rest). -/
def Env.WF (env : Env) : Prop :=
  ∀ name fs fb, env.get? name = some (.struct fs fb) → (fs.map (·.id)).Nodup

/-- Executable form of `Env.WF`. -/
def Env.check (env : Env) : Bool :=
  env.all (fun p => match p.2 with
    | .struct fs _ => decide ((fs.map (·.id)).Nodup)
    | _ => true)

theorem Env.WF_of_check {env : Env} (h : env.check = true) : env.WF := by
  intro name fs fb hg
  simp only [Env.get?, Option.map_eq_some_iff] at hg
  obtain ⟨p, hp, hd⟩ := hg
  have hm := List.mem_of_find?_eq_some hp
  simp only [Env.check, List.all_eq_true] at h
  have := h p hm
  rw [hd] at this
  simpa using this

theorem shape_struct_nodup {env : Env} (hwf : env.WF) : ∀ (n : Nat) (ty : Ty) {fs : List Field} {fb : Bool},
    shape env n ty = .struct fs fb → (fs.map (·.id)).Nodup
  | 0, _, _, _, h => by simp [shape] at h
  | n + 1, ty, fs, fb, h => by
    unfold shape at h
    split at h <;> try (simp at h; done)
    · exact shape_struct_nodup hwf n _ h
    · split at h <;> simp at h
    · split at h
      · simp only [Shape.struct.injEq] at h
        obtain ⟨rfl, rfl⟩ := h
        exact hwf _ _ _ ‹_›
      · simp at h
      · exact shape_struct_nodup hwf n _ h
      · simp at h

theorem findField_some {fs : List Field} {id : Nat} {f : Field} (h : findField fs id = some f) :
    f ∈ fs ∧ f.id = id := by
  unfold findField at h
  exact ⟨List.mem_of_find?_eq_some h, by simpa using List.find?_some h⟩

theorem findField_of_mem {fs : List Field} (hn : (fs.map (·.id)).Nodup) {f : Field} (hf : f ∈ fs) :
    findField fs f.id = some f := by
  induction fs with
  | nil => simp at hf
  | cons g fs ih =>
    simp only [List.map_cons, List.nodup_cons, List.mem_map, not_exists, not_and] at hn
    rcases List.mem_cons.1 hf with rfl | hf
    · simp [findField]
    · have : g.id ≠ f.id := fun he => hn.1 f hf he.symm
      have hb : (g.id == f.id) = false := by simpa using this
      have := ih hn.2 hf
      simp only [findField] at this
      simp only [findField, List.find?_cons, hb, this]

theorem acceptFields_known (env : Env) (n : Nat) (fs : List Field) :
    ∀ (l : List (Nat × Value)) (t : List (Key × Value)) (kn un : List (Nat × Value)),
      (∀ p ∈ l, ∃ f, findField fs p.1 = some f ∧ accept env n f.wireTy p.2 = .ok p.2) →
      acceptFields env n fs t = .ok (kn, un) →
      acceptFields env n fs (l.map (fun p => (Key.int p.1, p.2)) ++ t) = .ok (l ++ kn, un)
  | [], t, kn, un, _, ht => by simpa using ht
  | (i, v) :: l, t, kn, un, hl, ht => by
    obtain ⟨f, hf, ha⟩ := hl (i, v) List.mem_cons_self
    have ih := acceptFields_known env n fs l t kn un (fun p hp => hl p (List.mem_cons_of_mem _ hp)) ht
    simp only [List.map_cons, List.cons_append, acceptFields, keyId_int, hf, ha, ih]

theorem acceptFields_unknown (env : Env) (n : Nat) (fs : List Field) :
    ∀ (l : List (Nat × Value)), (∀ p ∈ l, findField fs p.1 = none) →
      acceptFields env n fs (l.map (fun p => (Key.int p.1, p.2))) = .ok ([], l)
  | [], _ => by simp [acceptFields]
  | (i, v) :: l, hl => by
    have ih := acceptFields_unknown env n fs l (fun p hp => hl p (List.mem_cons_of_mem _ hp))
    have := hl (i, v) List.mem_cons_self
    simp only at this
    simp only [List.map_cons, acceptFields, keyId_int, this, ih]

/-! ### what comes out of `accept` goes through `accept` unchanged -/

theorem acceptFields_split (env : Env) (n : Nat) (fs : List Field) (hn : (fs.map (·.id)).Nodup)
    (kn un : List (Nat × Value)) (fb : Bool)
    (hk : ∀ p ∈ kn, ∃ f, findField fs p.1 = some f ∧ accept env n f.wireTy p.2 = .ok p.2)
    (hu : ∀ p ∈ un, findField fs p.1 = none) (out : List (Key × Value))
    (hfin : finishFields fs kn = some out) :
    ∃ kn' un', acceptFields env n fs (out ++ (if fb then dedupLast un else [])) = .ok (kn', un') ∧
      finishFields fs kn' = some out ∧ (if fb then dedupLast un' else []) = (if fb then dedupLast un else []) := by
  obtain ⟨hreq, rfl⟩ := finishFields_some hfin
  -- the written known fields, as (id, value) pairs
  have hout : fs.filterMap (emit kn) = (emitted fs kn).map (fun p => (Key.int p.1, p.2)) := by
    simp only [emitted, List.map_filterMap]
    apply filterMap_congr'
    intro f _
    cases he : emit kn f with
    | none => rfl
    | some p => simp only [Option.map_some, Option.some.injEq]; exact Prod.ext (emit_id he).1 rfl
  have hkn' : ∀ p ∈ emitted fs kn, ∃ f, findField fs p.1 = some f ∧ accept env n f.wireTy p.2 = .ok p.2 := by
    intro q hq
    obtain ⟨f, hf, hid, p, hp, hpq⟩ := emitted_mem hq
    obtain ⟨_, hlast, _⟩ := emit_id hp
    obtain ⟨f', hf', ha⟩ := hk _ (lastOf_mem hlast)
    rw [← hid, ← hpq]
    exact ⟨f', hf', ha⟩
  have hfinish : finishFields fs (emitted fs kn) = some (fs.filterMap (emit kn)) := by
    rw [finishFields_eq, if_pos]
    · congr 1
      apply filterMap_congr'
      intro f hf
      exact emit_emitted kn hn f hf
    · intro f hf hr
      rw [lastOf_emitted kn hn f hf]
      have := hreq f hf hr
      cases hl : lastOf f.id kn with
      | none => simp [hl] at this
      | some v => simp [emit, hl, hr]
  cases fb with
  | false =>
    refine ⟨emitted fs kn, [], ?_, hfinish, rfl⟩
    have := acceptFields_known env n fs (emitted fs kn) [] [] [] hkn' (by simp [acceptFields])
    simpa [hout] using this
  | true =>
    let U := dedupLastN un
    have hU : dedupLast un = U.map (fun p => (Key.int p.1, p.2)) := dedupLast_eq un
    have hUm : ∀ q ∈ U, q ∈ un := dedupLastN_sub un
    have hUn : (U.map (·.1)).Nodup := dedupLastN_nodup un
    refine ⟨emitted fs kn, U, ?_, hfinish, ?_⟩
    · have h1 := acceptFields_unknown env n fs U (fun q hq => hu _ (hUm q hq))
      have := acceptFields_known env n fs (emitted fs kn) _ [] U hkn' h1
      simpa [hout, hU] using this
    · simp only [↓reduceIte]
      rw [dedupLast_nodup U hUn, hU]

theorem acceptElems_length (env : Env) (n : Nat) (ty : Ty) :
    ∀ (vs ws : List Value), acceptElems env n ty vs = .ok ws → vs.length = ws.length
  | [], ws, h => by simp [acceptElems] at h; subst h; rfl
  | v :: vs, ws, h => by
    unfold acceptElems at h
    split at h
    · simp at h
    · split at h
      · simp at h
      · rename_i ws' hws'
        cases h
        simp [acceptElems_length env n ty vs ws' hws']

macro "leaf_idem" h:ident : tactic =>
  `(tactic| (unfold accept at $h:ident; split at $h:ident <;> (try (split at $h:ident)) <;>
      first | (cases $h:ident; simp_all [accept]; done) | (simp at $h:ident; done)))

mutual
theorem accept_idem (env : Env) (hwf : env.WF) (n : Nat) :
    ∀ (v : Value) (ty : Ty) (w : Value), accept env n ty v = .ok w → accept env n ty w = .ok w
  | .none, ty, w, h => by leaf_idem h
  | .bool b, ty, w, h => by leaf_idem h
  | .int t i, ty, w, h => by leaf_idem h
  | .fixed k bs, ty, w, h => by leaf_idem h
  | .string bs, ty, w, h => by leaf_idem h
  | .bytes bs, ty, w, h => by leaf_idem h
  | .set kt ks, ty, w, h => by leaf_idem h
  | .some x, ty, w, h => by
    unfold accept at h
    split at h
    · rename_i t hs
      split at h
      · rename_i w' hw'
        cases h
        have := accept_idem env hwf n x t w' hw'
        simp [accept, hs, this]
      · simp at h
    · cases h; simp_all [accept]
    · simp at h
  | .vec vs, ty, w, h => by
    unfold accept at h
    split at h
    · rename_i t hs
      split at h
      · rename_i ws hws
        cases h
        have := acceptElems_idem env hwf n vs t ws hws
        simp [accept, hs, this]
      · simp at h
    · rename_i t k hs
      split at h
      · split at h
        · rename_i hl _ ws hws
          cases h
          have := acceptElems_idem env hwf n vs t ws hws
          have hlen : ws.length = k := by rw [← hl]; exact (acceptElems_length env n t vs ws hws).symm
          simp [accept, hs, this, hlen]
        · simp at h
      · simp at h
    · cases h; simp_all [accept]
    · simp at h
  | .map kt es, ty, w, h => by
    unfold accept at h
    split at h
    · rename_i k t hs
      split at h
      · split at h
        · rename_i hk _ ws hws
          cases h
          have := acceptEntries_idem env hwf n es t ws hws
          simp [accept, hs, this, hk]
        · simp at h
      · simp at h
    · rename_i fs fb hs
      split at h
      · rename_i hkt
        subst hkt
        split at h
        · simp at h
        · rename_i kn un hacc
          split at h
          · simp at h
          · rename_i out hfin
            cases h
            obtain ⟨hk, hu⟩ := acceptFields_spec env hwf n es fs kn un hacc
            obtain ⟨kn', un', h1, h2, h3⟩ :=
              acceptFields_split env n fs (shape_struct_nodup hwf n ty hs) kn un fb hk hu out hfin
            simp [accept, hs, h1, h2, h3]
      · simp at h
    · cases h; simp_all [accept]
    · simp at h
  | .enum id x, ty, w, h => by
    unfold accept at h
    split at h
    · rename_i a b hs
      split at h
      · rename_i hid
        subst hid
        split at h
        · rename_i w' hw'
          cases h
          have := accept_idem env hwf n x a w' hw'
          simp [accept, hs, this]
        · simp at h
      · split at h
        · rename_i hid0 hid
          subst hid
          split at h
          · rename_i w' hw'
            cases h
            have := accept_idem env hwf n x b w' hw'
            simp [accept, hs, this]
          · simp at h
        · simp at h
    · rename_i vs fb hs
      split at h
      · rename_i t hv
        split at h
        · rename_i w' hw'
          cases h
          have := accept_idem env hwf n x t w' hw'
          simp [accept, hs, hv, this]
        · simp at h
      · rename_i hv
        split at h
        · cases h; simp [accept, hs, hv]
        · simp at h
      · rename_i hv
        split at h
        · cases h; simp_all [accept]
        · simp at h
    · cases h; simp_all [accept]
    · simp at h

theorem acceptElems_idem (env : Env) (hwf : env.WF) (n : Nat) :
    ∀ (vs : List Value) (ty : Ty) (ws : List Value), acceptElems env n ty vs = .ok ws → acceptElems env n ty ws = .ok ws
  | [], ty, ws, h => by simp [acceptElems] at h; subst h; simp [acceptElems]
  | v :: vs, ty, ws, h => by
    unfold acceptElems at h
    split at h
    · simp at h
    · rename_i w hw
      split at h
      · simp at h
      · rename_i ws' hws'
        cases h
        have h1 := accept_idem env hwf n v ty w hw
        have h2 := acceptElems_idem env hwf n vs ty ws' hws'
        simp [acceptElems, h1, h2]

theorem acceptEntries_idem (env : Env) (hwf : env.WF) (n : Nat) :
    ∀ (es : List (Key × Value)) (ty : Ty) (ws : List (Key × Value)),
      acceptEntries env n ty es = .ok ws → acceptEntries env n ty ws = .ok ws
  | [], ty, ws, h => by simp [acceptEntries] at h; subst h; simp [acceptEntries]
  | (k, v) :: es, ty, ws, h => by
    unfold acceptEntries at h
    split at h
    · simp at h
    · rename_i w hw
      split at h
      · simp at h
      · rename_i ws' hws'
        cases h
        have h1 := accept_idem env hwf n v ty w hw
        have h2 := acceptEntries_idem env hwf n es ty ws' hws'
        simp [acceptEntries, h1, h2]

/-- The field loop: every known entry was taken by the declared field's type (and what was taken is a fixed
point of that type), every other entry has an undeclared id. -/
theorem acceptFields_spec (env : Env) (hwf : env.WF) (n : Nat) :
    ∀ (es : List (Key × Value)) (fs : List Field) (kn un : List (Nat × Value)),
      acceptFields env n fs es = .ok (kn, un) →
      (∀ p ∈ kn, ∃ f, findField fs p.1 = some f ∧ accept env n f.wireTy p.2 = .ok p.2) ∧
      (∀ p ∈ un, findField fs p.1 = none)
  | [], fs, kn, un, h => by
    simp only [acceptFields, Except.ok.injEq, Prod.mk.injEq] at h
    obtain ⟨rfl, rfl⟩ := h
    simp
  | (k, v) :: es, fs, kn, un, h => by
    unfold acceptFields at h
    split at h
    · simp at h
    · rename_i id hid
      split at h
      · rename_i f hf
        split at h
        · simp at h
        · rename_i w hw
          split at h
          · simp at h
          · rename_i kn' un' hrest
            simp only [Except.ok.injEq, Prod.mk.injEq] at h
            obtain ⟨rfl, rfl⟩ := h
            obtain ⟨ih1, ih2⟩ := acceptFields_spec env hwf n es fs kn' un' hrest
            have h1 := accept_idem env hwf n v f.wireTy w hw
            refine ⟨fun p hp => ?_, ih2⟩
            rcases List.mem_cons.1 hp with rfl | hp
            · exact ⟨f, hf, h1⟩
            · exact ih1 p hp
      · rename_i hf
        split at h
        · simp at h
        · rename_i kn' un' hrest
          simp only [Except.ok.injEq, Prod.mk.injEq] at h
          obtain ⟨rfl, rfl⟩ := h
          obtain ⟨ih1, ih2⟩ := acceptFields_spec env hwf n es fs kn' un' hrest
          refine ⟨ih1, fun p hp => ?_⟩
          rcases List.mem_cons.1 hp with rfl | hp
          · exact hf
          · exact ih2 p hp
end

end Aldrin.Typed
