/-
The system at rest (`Sys`, `step`) is the system with messages in flight (`ASys`, `astep`) under the schedule that
delivers everything after each operation (`expand`): same observation, same resulting state, nothing left in flight.
The correspondence runs tie `step` to the real clients; by this theorem they tie `astep` under those schedules as well.
-/
import Aldrin.Lemmas.ClientChanAsync

namespace Aldrin.ClientChan
open Aldrin.Broker Generated

theorem step_refines {s : Sys} (h : Inv s) (op : Op) :
    ∃ s' o os, step s op = .ok (s', o) ∧ arun (ASys.ofSys s) (expand op) = .ok (ASys.ofSys s', .app o :: os) ∧
      ∀ x, x ∈ os → x = .moved ∨ x = .idle := by
  obtain ⟨⟨sc, rc, hc, hs, hr, hle, hlow⟩, hpos, hcur, hmax⟩ := h
  cases op with
  | ready =>
    exact ⟨_, _, [], rfl, by simp [expand, arun, astep, ASys.ofSys], by simp⟩
  | pollClosed =>
    exact ⟨_, _, [], rfl, by simp [expand, arun, astep, ASys.ofSys], by simp⟩
  | send =>
    by_cases h0 : sc = 0
    · refine ⟨{ s with snd := s.snd.drain }, .blocked, [.idle, .idle, .idle], ?_, ?_, by simp⟩
      · simp only [step, drain_capacity, hs, h0, ↓reduceIte]
      · simp [expand, arun, astep, ASys.ofSys, hs, h0]
    · have hrc : rc ≠ 0 := by omega
      by_cases hann : sc - 1 ≤ lowCapacity ∧ rc - 1 > sc - 1
      · refine ⟨{ snd := { capacity := s.snd.drain.capacity - 1, queue := s.snd.drain.queue ++ [rc - 1 - (sc - 1)] },
                  chan := ⟨.claimed sid (rc - 1), .claimed rid (rc - 1)⟩,
                  rcv := { s.rcv with items := s.rcv.items + 1 } }, .sent, [.moved, .moved, .moved], ?_, ?_, by simp⟩
        · simp only [step, drain_capacity, hs, h0, ↓reduceIte, hc, Chan.sendItem, ne_eq, not_true_eq_false, hrc, hann, and_self,
            Option.toList_some]
        · simp [expand, arun, astep, ASys.ofSys, hs, h0, hc, Chan.sendItem, hrc, hann]
      · refine ⟨{ snd := { capacity := s.snd.drain.capacity - 1, queue := s.snd.drain.queue ++ [] },
                  chan := ⟨.claimed sid (sc - 1), .claimed rid (rc - 1)⟩,
                  rcv := { s.rcv with items := s.rcv.items + 1 } }, .sent, [.moved, .moved, .idle], ?_, ?_, by simp⟩
        · simp only [step, drain_capacity, hs, h0, ↓reduceIte, hc, Chan.sendItem, ne_eq, not_true_eq_false, hrc, hann,
            Option.toList_none]
        · simp only [expand, arun, astep, ASys.ofSys, drain_capacity, hs, h0, ↓reduceIte, hc, Chan.sendItem, ne_eq, not_true_eq_false,
            hrc, hann, Nat.zero_add, Nat.add_one_ne_zero, Nat.succ_ne_zero]
          simp
  | take =>
    have hcur0 : s.rcv.cur ≠ 0 := by omega
    have hngt : ¬ s.rcv.cur > s.rcv.max := by omega
    by_cases hit : s.rcv.items = 0
    · refine ⟨s, .empty, [.idle, .idle], ?_, ?_, by simp⟩
      · simp only [step, hcur0, hngt, hit, ↓reduceIte]
      · simp [expand, arun, astep, ASys.ofSys, hcur0, hngt, hit]
    · by_cases hl : s.rcv.cur - 1 ≤ clientLowCapacity
      · have hdiff : ¬ (s.rcv.max - (s.rcv.cur - 1) < 1) := by omega
        have hd0 : s.rcv.max - (s.rcv.cur - 1) ≠ 0 := by omega
        have hov : ¬ (rc + (s.rcv.max - (s.rcv.cur - 1)) > u32Max) := by omega
        have hafter : ¬ (s.rcv.cur - 1 + (s.rcv.max - (s.rcv.cur - 1)) = 0 ∨ s.rcv.cur - 1 + (s.rcv.max - (s.rcv.cur - 1)) > s.rcv.max) := by omega
        by_cases hsl : sc ≤ lowCapacity
        · have hsr : sc = rc := hlow hsl
          have hgt : rc + (s.rcv.max - (s.rcv.cur - 1)) > sc := by omega
          refine ⟨{ snd := { s.snd with queue := s.snd.queue ++ [rc + (s.rcv.max - (s.rcv.cur - 1)) - sc] },
                    chan := ⟨.claimed sid (rc + (s.rcv.max - (s.rcv.cur - 1))), .claimed rid (rc + (s.rcv.max - (s.rcv.cur - 1)))⟩,
                    rcv := { s.rcv with cur := s.rcv.cur - 1 + (s.rcv.max - (s.rcv.cur - 1)), items := s.rcv.items - 1 } }, .item,
                  [.moved, .moved], ?_, ?_, by simp⟩
          · simp only [step, hcur0, hngt, hit, ↓reduceIte, hl, hdiff, hc, Chan.addCapacity, hd0, ne_eq, not_true_eq_false, hov, hsl,
              hgt, hafter, Option.map_some, Option.toList_some]
          · simp only [expand, arun, astep, ASys.ofSys, hcur0, hngt, hit, ↓reduceIte, hl, hdiff, hafter, List.nil_append, hc,
              Chan.addCapacity, hd0, ne_eq, not_true_eq_false, hov, hsl, hgt, Option.map_some, Option.toList_some]
        · refine ⟨{ snd := { s.snd with queue := s.snd.queue ++ [] },
                    chan := ⟨.claimed sid sc, .claimed rid (rc + (s.rcv.max - (s.rcv.cur - 1)))⟩,
                    rcv := { s.rcv with cur := s.rcv.cur - 1 + (s.rcv.max - (s.rcv.cur - 1)), items := s.rcv.items - 1 } }, .item,
                  [.moved, .idle], ?_, ?_, by simp⟩
          · simp only [step, hcur0, hngt, hit, ↓reduceIte, hl, hdiff, hc, Chan.addCapacity, hd0, ne_eq, not_true_eq_false, hov, hsl,
              hafter, Option.map_none, Option.toList_none]
          · simp only [expand, arun, astep, ASys.ofSys, hcur0, hngt, hit, ↓reduceIte, hl, hdiff, hafter, List.nil_append, hc,
              Chan.addCapacity, hd0, ne_eq, not_true_eq_false, hov, hsl, Option.map_none, Option.toList_none]
            simp
      · have hafter : ¬ (s.rcv.cur - 1 = 0 ∨ s.rcv.cur - 1 > s.rcv.max) := by omega
        refine ⟨{ s with rcv := { s.rcv with cur := s.rcv.cur - 1, items := s.rcv.items - 1 } }, .item, [.idle, .idle], ?_, ?_, by simp⟩
        · simp only [step, hcur0, hngt, hit, ↓reduceIte, hl, hafter]
        · simp [expand, arun, astep, ASys.ofSys, hcur0, hngt, hit, hl, hafter]

/-- whole runs: a run of the system at rest is a run of the system with messages in flight under the expanded schedule -/
theorem run_refines : ∀ (ops : List Op) (s : Sys), Inv s →
    ∃ s' os aos, run s ops = .ok (s', os) ∧ arun (ASys.ofSys s) (ops.flatMap expand) = .ok (ASys.ofSys s', aos) ∧
      AObs.cutOff ∉ aos ∧ aos.filterMap (fun o => match o with | .app x => some x | _ => none) = os := by
  intro ops
  induction ops with
  | nil => intro s _; exact ⟨s, [], [], rfl, rfl, by simp, rfl⟩
  | cons op ops ih =>
    intro s h
    obtain ⟨s1, o, os1, h1, h2, h3⟩ := step_refines h op
    obtain ⟨s1', o', e1, i1, _⟩ := step_inv h op
    rw [h1] at e1
    simp only [Except.ok.injEq, Prod.mk.injEq] at e1
    obtain ⟨rfl, rfl⟩ := e1
    obtain ⟨s2, os2, aos2, g1, g2, g3, g4⟩ := ih s1 i1
    have happ : ∀ (l1 l2 : List AOp) (a b c : ASys) (x y : List AObs), arun a l1 = .ok (b, x) → arun b l2 = .ok (c, y) →
        arun a (l1 ++ l2) = .ok (c, x ++ y) := by
      intro l1
      induction l1 with
      | nil => intro l2 a b c x y e1 e2; simp only [arun, Except.ok.injEq, Prod.mk.injEq] at e1; obtain ⟨rfl, rfl⟩ := e1; simpa using e2
      | cons q l1 ih1 =>
        intro l2 a b c x y e1 e2
        simp only [arun] at e1
        split at e1
        · simp at e1
        · rename_i a1 o1 ha1
          split at e1
          · simp at e1
          · rename_i b1 x1 hb1
            simp only [Except.ok.injEq, Prod.mk.injEq] at e1
            obtain ⟨rfl, rfl⟩ := e1
            have := ih1 l2 a1 b1 c x1 y hb1 e2
            simp [arun, ha1, this]
    refine ⟨s2, o :: os2, (.app o :: os1) ++ aos2, by simp [run, h1, g1], ?_, ?_, ?_⟩
    · simp only [List.flatMap_cons]
      exact happ _ _ _ _ _ _ _ h2 g2
    · simp only [List.mem_append, List.mem_cons, reduceCtorEq, false_or, not_or]
      refine ⟨fun hm => ?_, g3⟩
      rcases h3 _ hm with e | e <;> cases e
    · simp only [List.cons_append, List.filterMap_cons, List.filterMap_append, g4]
      congr 1
      have : ∀ l : List AObs, (∀ x, x ∈ l → x = .moved ∨ x = .idle) → l.filterMap (fun o => match o with | .app x => some x | _ => none) = [] := by
        intro l hl
        induction l with
        | nil => rfl
        | cons a l ihl =>
          rcases hl a List.mem_cons_self with rfl | rfl <;>
            simpa [List.filterMap_cons] using ihl (fun x hx => hl x (List.mem_cons_of_mem _ hx))
      rw [this os1 h3]
      rfl

end Aldrin.ClientChan
