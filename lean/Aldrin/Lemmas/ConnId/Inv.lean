/-
The allocator of connection ids never hands out an id that is in use, for every history of acquiring and
releasing ids, and neither `debug_assert!` of `Inner::release` can fail.
-/
import Aldrin.Model.ConnId

namespace Aldrin.ConnId

/-- the ids below `next` are exactly those in use and those on the free list, and no id is both or listed twice -/
structure Inv (s : Sys) : Prop where
  heldNd : s.held.Nodup
  freeNd : s.ids.free.Nodup
  disj : ∀ i, i ∈ s.held → i ∉ s.ids.free
  cover : ∀ i, i < s.ids.next ↔ (i ∈ s.held ∨ i ∈ s.ids.free)

theorem Inv.init : Inv {} := by
  constructor <;> simp

theorem acquire_fresh {s : Sys} (h : Inv s) : s.ids.acquire.1 ∉ s.held := by
  unfold Ids.acquire
  split
  · rename_i id r hf
    intro hm
    exact h.disj id hm (by simp [hf])
  · rename_i hf
    intro hm
    have := (h.cover s.ids.next).2 (Or.inl hm)
    omega

theorem acquire_inv {s : Sys} (h : Inv s) :
    Inv { ids := s.ids.acquire.2, held := s.ids.acquire.1 :: s.held } := by
  have hfresh := acquire_fresh h
  obtain ⟨h1, h2, h3, h4⟩ := h
  unfold Ids.acquire at *
  split
  · rename_i id r hf
    simp only [hf] at *
    have hn := List.nodup_cons.1 h2
    constructor
    · exact List.nodup_cons.2 ⟨hfresh, h1⟩
    · exact hn.2
    · intro i hi hr
      rcases List.mem_cons.1 hi with rfl | hi
      · exact hn.1 hr
      · exact h3 i hi (List.mem_cons_of_mem _ hr)
    · intro i
      rw [h4 i]
      simp only [List.mem_cons]
      constructor
      · rintro (hh | rfl | hr)
        · exact Or.inl (Or.inr hh)
        · exact Or.inl (Or.inl rfl)
        · exact Or.inr hr
      · rintro ((rfl | hh) | hr)
        · exact Or.inr (Or.inl rfl)
        · exact Or.inl hh
        · exact Or.inr (Or.inr hr)
  · rename_i hf
    simp only [hf] at *
    constructor
    · exact List.nodup_cons.2 ⟨hfresh, h1⟩
    · exact List.nodup_nil
    · intro i _ hr
      cases hr
    · intro i
      have := h4 i
      simp only [List.not_mem_nil, or_false, List.mem_cons] at *
      constructor
      · intro hi
        by_cases he : i = s.ids.next
        · exact Or.inl he
        · exact Or.inr (this.1 (by omega))
      · rintro (rfl | hh)
        · omega
        · have := this.2 hh
          omega

theorem release_ok {s : Sys} (h : Inv s) {id : Nat} (hm : id ∈ s.held) :
    ∃ ids, s.ids.release id = .ok ids := by
  have hlt : id < s.ids.next := (h.cover id).2 (Or.inl hm)
  have hnf : s.ids.free.contains id = false := by
    simpa using h.disj id hm
  unfold Ids.release
  simp only [hlt, not_true_eq_false, ↓reduceIte, hnf, Bool.false_eq_true]
  split <;> exact ⟨_, rfl⟩

theorem release_inv {s : Sys} (h : Inv s) {id : Nat} (hm : id ∈ s.held) {ids : Ids}
    (hr : s.ids.release id = .ok ids) : Inv { ids := ids, held := s.held.erase id } := by
  have hlt : id < s.ids.next := (h.cover id).2 (Or.inl hm)
  have hnf : s.ids.free.contains id = false := by
    simpa using h.disj id hm
  obtain ⟨h1, h2, h3, h4⟩ := h
  have hmem : ∀ i, i ∈ s.held.erase id ↔ (i ≠ id ∧ i ∈ s.held) := fun i => h1.mem_erase_iff
  unfold Ids.release at hr
  simp only [hlt, not_true_eq_false, ↓reduceIte, hnf, Bool.false_eq_true] at hr
  split at hr
  · rename_i htop
    cases hr
    constructor
    · exact h1.erase _
    · exact h2
    · intro i hi
      exact h3 i ((hmem i).1 hi).2
    · intro i
      simp only [hmem]
      have := h4 i
      constructor
      · intro hi
        have hi' : i < s.ids.next := by omega
        rcases this.1 hi' with hh | hf
        · exact Or.inl ⟨by omega, hh⟩
        · exact Or.inr hf
      · rintro (⟨hne, hh⟩ | hf)
        · have := this.2 (Or.inl hh)
          omega
        · have := this.2 (Or.inr hf)
          have hne : i ≠ id := by
            rintro rfl
            simp [hf] at hnf
          omega
  · rename_i htop
    cases hr
    constructor
    · exact h1.erase _
    · refine List.nodup_cons.2 ⟨?_, h2⟩
      simpa using hnf
    · intro i hi hf
      have ⟨hne, hh⟩ := (hmem i).1 hi
      rcases List.mem_cons.1 hf with rfl | hf
      · exact hne rfl
      · exact h3 i hh hf
    · intro i
      simp only [hmem, List.mem_cons]
      rw [h4 i]
      constructor
      · rintro (hh | hf)
        · by_cases he : i = id
          · exact Or.inr (Or.inl he)
          · exact Or.inl ⟨he, hh⟩
        · exact Or.inr (Or.inr hf)
      · rintro (⟨_, hh⟩ | rfl | hf)
        · exact Or.inl hh
        · exact Or.inl hm
        · exact Or.inr hf

theorem step_ok {s : Sys} (h : Inv s) (op : Op) : ∃ s', s.step op = .ok s' ∧ Inv s' := by
  cases op with
  | acquire => exact ⟨_, rfl, acquire_inv h⟩
  | release id =>
    by_cases hm : id ∈ s.held
    · obtain ⟨ids, hr⟩ := release_ok h hm
      refine ⟨_, ?_, release_inv h hm hr⟩
      simp only [Sys.step, hm, ↓reduceIte, hr]
    · refine ⟨s, ?_, h⟩
      simp only [Sys.step, hm, ↓reduceIte]

theorem run_ok {s : Sys} (h : Inv s) (ops : List Op) : ∃ s', s.run ops = .ok s' ∧ Inv s' := by
  induction ops generalizing s with
  | nil => exact ⟨s, rfl, h⟩
  | cons op ops ih =>
    obtain ⟨s1, h1, hi1⟩ := step_ok h op
    obtain ⟨s2, h2, hi2⟩ := ih hi1
    exact ⟨s2, by simp [Sys.run, h1, h2], hi2⟩

end Aldrin.ConnId
