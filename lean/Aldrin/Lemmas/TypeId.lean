/-
Type ids (C20): what the pre-image depends on.
-/
import Aldrin.Model.TypeId
import Aldrin.Props.C01

namespace Aldrin.TypeIdM
open Generated

/-! ### facts about the translated tables (checked by evaluation) -/

/-- no record puts its `doc` field on the wire -/
theorem doc_not_serialized : ∀ r ∈ irRecs, ∀ f ∈ r.2, f.2.1 ≠ "doc" := by decide

/-- `doc` is the only declared field that is not serialized, for every record -/
theorem only_doc_dropped : ∀ d ∈ irDeclared, ∀ n ∈ d.2,
    n = "doc" ∨ ∃ r ∈ irRecs, r.1 = d.1 ∧ ∃ f ∈ r.2, f.2.1 = n := by decide

/-- field ids are unique within every record (so a field's value can be read back from the struct) -/
theorem field_ids_unique : ∀ r ∈ irRecs, (r.2.map (·.1)).Nodup := by decide

theorem schemaOf_no_doc (ty : String) : ∀ f ∈ schemaOf ty, f.2.1 ≠ "doc" := by
  unfold schemaOf
  split
  · rename_i r fs hfind
    intro f hf
    simp only [List.mem_map] at hf
    obtain ⟨f', hf', rfl⟩ := hf
    have hmem := List.mem_of_find?_eq_some hfind
    exact doc_not_serialized _ hmem f' hf'
  · intro f hf; simp at hf

/-! ### documentation does not reach the wire -/

mutual
  /-- replace the value of every record field called `doc`, at every depth, by anything -/
  def Ir.mapDocs (f : Ir → Ir) : Ir → Ir
    | .some x => .some (x.mapDocs f)
    | .map m => .map (mapDocsEntries f m)
    | .record ty fs => .record ty (mapDocsFields f fs)
    | .enumv v p => .enumv v (p.mapDocs f)
    | x => x
  def mapDocsFields (f : Ir → Ir) : List (String × Ir) → List (String × Ir)
    | [] => []
    | (n, x) :: r => (n, if n == "doc" then f x else x.mapDocs f) :: mapDocsFields f r
  def mapDocsEntries (f : Ir → Ir) : List (Nat × Ir) → List (Nat × Ir)
    | [] => []
    | (k, x) :: r => (k, x.mapDocs f) :: mapDocsEntries f r
end

theorem filterMap_congr' {α β : Type} (f g : α → Option β) : ∀ (l : List α), (∀ a ∈ l, f a = g a) → l.filterMap f = l.filterMap g
  | [], _ => rfl
  | a :: l, h => by
    simp only [List.filterMap_cons, h a (List.mem_cons_self)]
    rw [filterMap_congr' f g l (fun b hb => h b (List.mem_cons_of_mem _ hb))]

theorem selectFields_congr (schema : List (Nat × String × Bool)) (a b : List (String × Value))
    (h : ∀ f ∈ schema, lookupV f.2.1 a = lookupV f.2.1 b) : selectFields schema a = selectFields schema b := by
  unfold selectFields
  apply filterMap_congr'
  intro f hf
  unfold fieldEntry
  rw [h f hf]

mutual
  theorem toValue_mapDocs (f : Ir → Ir) : ∀ x : Ir, (x.mapDocs f).toValue = x.toValue
    | .u32 _ | .bool _ | .str _ | .uuid _ | .none => by simp [Ir.mapDocs]
    | .some x => by simp [Ir.mapDocs, Ir.toValue, toValue_mapDocs f x]
    | .map m => by simp [Ir.mapDocs, Ir.toValue, entries_mapDocs f m]
    | .enumv v p => by simp [Ir.mapDocs, Ir.toValue, toValue_mapDocs f p]
    | .record ty fs => by
      simp only [Ir.mapDocs, Ir.toValue]
      congr 1
      apply selectFields_congr
      intro sf hsf
      exact fields_mapDocs f fs sf.2.1 (schemaOf_no_doc ty sf hsf)
  theorem fields_mapDocs (f : Ir → Ir) : ∀ (fs : List (String × Ir)) (n : String), n ≠ "doc" →
      lookupV n (fieldsToValue (mapDocsFields f fs)) = lookupV n (fieldsToValue fs)
    | [], _, _ => by simp [mapDocsFields, fieldsToValue]
    | (k, x) :: r, n, hn => by
      simp only [mapDocsFields, fieldsToValue, lookupV]
      by_cases hk : (k == n) = true
      · have : k ≠ "doc" := by intro h; apply hn; rw [← h]; exact (beq_iff_eq.mp hk).symm
        have hk' : (k == "doc") = false := by simpa using this
        simp [hk, hk', toValue_mapDocs f x]
      · simp only [hk, Bool.false_eq_true, ↓reduceIte]
        exact fields_mapDocs f r n hn
  theorem entries_mapDocs (f : Ir → Ir) : ∀ (m : List (Nat × Ir)), entriesToValue (mapDocsEntries f m) = entriesToValue m
    | [] => by simp [mapDocsEntries, entriesToValue]
    | (k, x) :: r => by simp [mapDocsEntries, entriesToValue, toValue_mapDocs f x, entries_mapDocs f r]
end

/-! ### the order in which a record's fields are listed does not matter -/

theorem lookupV_perm {n : String} : ∀ {a b : List (String × Value)}, a.Perm b → (a.map (·.1)).Nodup →
    lookupV n a = lookupV n b := by
  intro a b hp
  induction hp with
  | nil => intro _; rfl
  | cons x hp ih =>
    intro hn
    obtain ⟨k, v⟩ := x
    simp only [List.map_cons, List.nodup_cons] at hn
    simp only [lookupV]
    split
    · rfl
    · exact ih hn.2
  | swap x y l =>
    intro hn
    obtain ⟨k1, v1⟩ := x
    obtain ⟨k2, v2⟩ := y
    simp only [List.map_cons, List.nodup_cons, List.mem_cons, not_or] at hn
    simp only [lookupV]
    by_cases h1 : (k1 == n) = true <;> by_cases h2 : (k2 == n) = true <;> simp [h1, h2]
    exfalso
    have e1 := beq_iff_eq.mp h1
    have e2 := beq_iff_eq.mp h2
    exact hn.1.1 (e2.trans e1.symm)
  | trans _ _ ih1 ih2 =>
    intro hn
    rename_i l1 l2 l3 p1 p2
    rw [ih1 hn]
    apply ih2
    exact (List.Perm.map _ p1).nodup_iff.mp hn

theorem fieldsToValue_names : ∀ fs : List (String × Ir), (fieldsToValue fs).map (·.1) = fs.map (·.1)
  | [] => by simp [fieldsToValue]
  | (n, x) :: r => by simp [fieldsToValue, fieldsToValue_names r]

theorem fieldsToValue_perm : ∀ {a b : List (String × Ir)}, a.Perm b → (fieldsToValue a).Perm (fieldsToValue b) := by
  intro a b hp
  induction hp with
  | nil => exact List.Perm.refl _
  | cons x _ ih => obtain ⟨n, v⟩ := x; simp only [fieldsToValue]; exact List.Perm.cons _ ih
  | swap x y l => obtain ⟨n, v⟩ := x; obtain ⟨m, w⟩ := y; simp only [fieldsToValue]; exact List.Perm.swap _ _ _
  | trans _ _ ih1 ih2 => exact List.Perm.trans ih1 ih2

/-- listing the fields of a record in another order gives the same bytes -/
theorem record_field_order (ty : String) (fs fs' : List (String × Ir)) (hp : fs.Perm fs')
    (hn : (fs.map (·.1)).Nodup) : (Ir.record ty fs).toValue = (Ir.record ty fs').toValue := by
  simp only [Ir.toValue]
  congr 1
  apply selectFields_congr
  intro f _
  apply lookupV_perm (fieldsToValue_perm hp)
  rw [fieldsToValue_names]; exact hn

/-! ### what is on the wire determines the value: injectivity of the encoding -/

/-- two well-formed values with the same 1.20 encoding are equal (from the C01 round trip) -/
theorem encRaw_injective (v w : Value) (hv : v.WF) (hw : w.WF) (dv : v.depth ≤ maxValueDepth) (dw : w.depth ≤ maxValueDepth)
    (h : encRaw .v2 v = encRaw .v2 w) : v = w := by
  have h1 := roundtrip_prefix .v2 v hv dv []
  have h2 := roundtrip_prefix .v2 w hw dw []
  rw [h] at h1
  rw [h1] at h2
  simp only [Except.ok.injEq, Prod.mk.injEq, and_true] at h2
  exact h2

theorem fieldEntry_some {fsV : List (String × Value)} {f : Nat × String × Bool} {k : Key} {y : Value}
    (h : fieldEntry fsV f = some (k, y)) : k = Key.int f.1 ∧ lookupV f.2.1 fsV = some y := by
  unfold fieldEntry at h
  split at h
  · split at h
    · simp at h
    · simp only [Option.some.injEq, Prod.mk.injEq] at h
      obtain ⟨rfl, rfl⟩ := h
      exact ⟨rfl, ‹_›⟩
  · simp only [Option.some.injEq, Prod.mk.injEq] at h
    obtain ⟨rfl, rfl⟩ := h
    exact ⟨rfl, ‹_›⟩
  · simp at h

theorem fieldEntry_of_lookup {fsV : List (String × Value)} {f : Nat × String × Bool} {x : Value}
    (hl : lookupV f.2.1 fsV = some x) (hc : x ≠ Value.none ∨ f.2.2 = false) :
    fieldEntry fsV f = some (Key.int f.1, x) := by
  unfold fieldEntry
  rw [hl]
  split
  · rename_i hxn
    simp only [Option.some.injEq] at hxn
    rcases hc with hc | hc
    · exact absurd hxn hc
    · simp [hc, hxn]
  · rename_i hh; simp only [Option.some.injEq] at hh; subst hh; rfl
  · rename_i hh; simp at hh

theorem unique_by_fst {α : Type} : ∀ (l : List (Nat × α)), (l.map (·.1)).Nodup → ∀ a ∈ l, ∀ b ∈ l, a.1 = b.1 → a = b
  | [], _, a, ha, _, _, _ => by simp at ha
  | x :: l, hn, a, ha, b, hb, hab => by
    simp only [List.map_cons, List.nodup_cons, List.mem_map, not_exists, not_and] at hn
    simp only [List.mem_cons] at ha hb
    rcases ha with rfl | ha <;> rcases hb with rfl | hb
    · rfl
    · exact absurd hab.symm (hn.1 b hb)
    · exact absurd hab (hn.1 a ha)
    · exact unique_by_fst l hn.2 a ha b hb hab

/-- a serialized field of a record can be read back from the record's value: changing what a serialized
field contributes changes the record's value -/
theorem record_field_sensitive (ty : String) (fs fs' : List (String × Ir)) (id : Nat) (n : String) (ifSome : Bool)
    (hs : (id, n, ifSome) ∈ schemaOf ty) (hu : ((schemaOf ty).map (·.1)).Nodup)
    (v v' : Value) (hl : lookupV n (fieldsToValue fs) = some v) (hl' : lookupV n (fieldsToValue fs') = some v')
    (hne : v ≠ v') : (Ir.record ty fs).toValue ≠ (Ir.record ty fs').toValue := by
  simp only [Ir.toValue, ne_eq, Value.map.injEq, true_and]
  intro heq
  -- whatever is stored under key `id` is what the field `n` contributes
  have key : ∀ (fsV : List (String × Value)) (y : Value),
      (Key.int (id : Int), y) ∈ selectFields (schemaOf ty) fsV → lookupV n fsV = some y := by
    intro fsV y hy
    simp only [selectFields, List.mem_filterMap] at hy
    obtain ⟨f, hf, hfy⟩ := hy
    obtain ⟨hk, hlk⟩ := fieldEntry_some hfy
    have hid : f.1 = id := by
      simp only [Key.int.injEq] at hk
      exact_mod_cast hk.symm
    have hfe : f = (id, n, ifSome) := unique_by_fst _ hu f hf _ hs (by simpa using hid)
    subst hfe
    exact hlk
  have mem : ∀ (fsV : List (String × Value)) (x : Value), lookupV n fsV = some x → (x ≠ Value.none ∨ ifSome = false) →
      (Key.int (id : Int), x) ∈ selectFields (schemaOf ty) fsV := by
    intro fsV x hx hc
    simp only [selectFields, List.mem_filterMap]
    exact ⟨(id, n, ifSome), hs, fieldEntry_of_lookup (f := (id, n, ifSome)) hx hc⟩
  have cases_v : ∀ x : Value, (x = Value.none ∧ ifSome = true) ∨ (x ≠ Value.none ∨ ifSome = false) := by
    intro x
    by_cases h1 : x = Value.none
    · cases ifSome
      · exact Or.inr (Or.inr rfl)
      · exact Or.inl ⟨h1, rfl⟩
    · exact Or.inr (Or.inl h1)
  rcases cases_v v with hv | hv
  · rcases cases_v v' with hv' | hv'
    · exact hne (hv.1.trans hv'.1.symm)
    · have m' := mem _ v' hl' hv'
      rw [← heq] at m'
      have := key _ v' m'
      rw [hl] at this
      exact hne (Option.some.inj this)
  · have m := mem _ v hl hv
    rw [heq] at m
    have := key _ v m
    rw [hl'] at this
    exact hne (Option.some.inj this).symm

/-! ### the pre-image determines the root layout and the set -/

/-- a byte string that is the encoding of a well-formed value within the depth limit -/
def IsEnc (bs : Bytes) : Prop := ∃ v : Value, v.WF ∧ v.depth ≤ maxValueDepth ∧ bs = encRaw .v2 v

theorem enc_prefix_unique {a b ra rb : Bytes} (ha : IsEnc a) (hb : IsEnc b) (h : a ++ ra = b ++ rb) : a = b ∧ ra = rb := by
  obtain ⟨v, hv, dv, rfl⟩ := ha
  obtain ⟨w, hw, dw, rfl⟩ := hb
  have h1 := roundtrip_prefix .v2 v hv dv ra
  have h2 := roundtrip_prefix .v2 w hw dw rb
  rw [h] at h1
  rw [h1] at h2
  simp only [Except.ok.injEq, Prod.mk.injEq] at h2
  exact ⟨by rw [h2.1], h2.2⟩

theorem flatten_refs_injective : ∀ (xs ys : List Bytes) (ta tb : Bytes), (∀ x ∈ xs, IsEnc x) → (∀ y ∈ ys, IsEnc y) →
    (xs.map (fun r => (1 : UInt8) :: r)).flatten ++ (0 : UInt8) :: ta = (ys.map (fun r => (1 : UInt8) :: r)).flatten ++ (0 : UInt8) :: tb →
    xs = ys ∧ ta = tb
  | [], [], ta, tb, _, _, h => by simpa using h
  | [], y :: ys, _, _, _, _, h => by simp at h
  | x :: xs, [], _, _, _, _, h => by simp at h
  | x :: xs, y :: ys, ta, tb, hx, hy, h => by
    simp only [List.map_cons, List.flatten_cons, List.cons_append, List.append_assoc, List.cons.injEq, true_and] at h
    have := enc_prefix_unique (hx x (List.mem_cons_self)) (hy y (List.mem_cons_self)) h
    obtain ⟨rfl, hrest⟩ := this
    have ih := flatten_refs_injective xs ys ta tb (fun z hz => hx z (List.mem_cons_of_mem _ hz))
      (fun z hz => hy z (List.mem_cons_of_mem _ hz)) hrest
    exact ⟨by rw [ih.1], ih.2⟩

theorem kind_some_none_bytes : Kind.some.b = 1 ∧ Kind.none.b = 0 := by decide

/-- equal pre-images come from equal root layouts and equal sets of referenced layouts -/
theorem computeBytesOfSet_injective (r r' : Ir) (xs ys : List Bytes)
    (hr : IsEnc (layoutBytes r)) (hr' : IsEnc (layoutBytes r')) (hx : ∀ x ∈ xs, IsEnc x) (hy : ∀ y ∈ ys, IsEnc y)
    (h : computeBytesOfSet r xs = computeBytesOfSet r' ys) : layoutBytes r = layoutBytes r' ∧ xs = ys := by
  unfold computeBytesOfSet at h
  simp only [List.append_assoc, List.cons_append, List.nil_append, List.cons.injEq, true_and, List.append_cancel_left_eq] at h
  have h1 := enc_prefix_unique hr hr' h
  obtain ⟨hl, hrest⟩ := h1
  refine ⟨hl, ?_⟩
  simp only [List.append_cancel_left_eq, List.cons.injEq, true_and] at hrest
  rw [kind_some_none_bytes.1, kind_some_none_bytes.2] at hrest
  have := flatten_refs_injective xs ys [] [] hx hy (by simpa using hrest)
  exact this.1

end Aldrin.TypeIdM
