import Aldrin.Lemmas.Fuel
namespace Aldrin
open Generated

/-! No amplification: the decoded structure is never larger than the input it was read from.
`size` counts every node once plus every payload byte, which bounds what has to be allocated. -/

def Key.size : Key → Nat
  | .int _ => 1
  | .blob bs => bs.length

def keysSize : List Key → Nat
  | [] => 0
  | k :: ks => k.size + keysSize ks

mutual
def Value.size : Value → Nat
  | .some v => 1 + v.size
  | .fixed _ bs => 1 + bs.length
  | .string bs => 1 + bs.length
  | .bytes bs => 1 + bs.length
  | .vec vs => 1 + sizeList vs
  | .map _ es => 1 + sizeEntries es
  | .set _ ks => 1 + keysSize ks
  | .enum _ v => 1 + v.size
  | _ => 1
def sizeList : List Value → Nat
  | [] => 0
  | v :: vs => v.size + sizeList vs
def sizeEntries : List (Key × Value) → Nat
  | [] => 0
  | (k, v) :: es => k.size + v.size + sizeEntries es
end

theorem decKey_size {utf8 : Bool} {kt : KeyTy} {bs r : Bytes} {k : Key} (h : decKey utf8 kt bs = .ok (k, r)) :
    k.size + r.length ≤ bs.length := by
  cases kt <;> simp only [decKey] at h <;>
    grind [Key.size, → decInt_shrink, → getVarint_shrink, → takeN_ok]

theorem decKeys1_size (utf8 : Bool) (kt : KeyTy) (f n : Nat) (bs : Bytes) : ∀ ks r,
    decKeys1 utf8 kt f n bs = .ok (ks, r) → keysSize ks + r.length ≤ bs.length := by
  fun_induction decKeys1 utf8 kt f n bs <;> simp_all [decKeys1] <;> grind [keysSize, → decKey_size]

theorem decKeys2_size (utf8 : Bool) (kt : KeyTy) (f : Nat) (bs : Bytes) : ∀ ks r,
    decKeys2 utf8 kt f bs = .ok (ks, r) → keysSize ks + r.length < bs.length := by
  fun_induction decKeys2 utf8 kt f bs <;> simp_all [decKeys2] <;> grind [keysSize, → decKey_size]

theorem decChunks_size (f : Nat) (bs : Bytes) : ∀ s r,
    decChunks f bs = .ok (s, r) → s.length + r.length < bs.length := by
  fun_induction decChunks f bs <;> simp_all [decChunks] <;> grind [→ getVarint_shrink]

set_option maxHeartbeats 4000000 in
theorem dec_size_all (cfg : DecCfg) :
    (∀ (f : Nat) (bs : Bytes) (d : Nat), ∀ v r, dec cfg f bs d = .ok (v, r) → v.size + r.length ≤ bs.length) ∧
    (∀ kt (f : Nat) (bs : Bytes) (d : Nat), ∀ v r, decEntries2 cfg kt f bs d = .ok (v, r) → sizeEntries v + r.length < bs.length) ∧
    (∀ (f : Nat) (bs : Bytes) (d : Nat), ∀ v r, decElems2 cfg f bs d = .ok (v, r) → sizeList v + r.length < bs.length) ∧
    (∀ kt (f n : Nat) (bs : Bytes) (d : Nat), ∀ v r, decEntries1 cfg kt f n bs d = .ok (v, r) → sizeEntries v + r.length ≤ bs.length) ∧
    (∀ (f n : Nat) (bs : Bytes) (d : Nat), ∀ v r, decElems1 cfg f n bs d = .ok (v, r) → sizeList v + r.length ≤ bs.length) := by
  apply dec.mutual_induct cfg
    (motive_1 := fun f bs d => ∀ v r, dec cfg f bs d = .ok (v, r) → v.size + r.length ≤ bs.length)
    (motive_2 := fun kt f bs d => ∀ v r, decEntries2 cfg kt f bs d = .ok (v, r) → sizeEntries v + r.length < bs.length)
    (motive_3 := fun f bs d => ∀ v r, decElems2 cfg f bs d = .ok (v, r) → sizeList v + r.length < bs.length)
    (motive_4 := fun kt f n bs d => ∀ v r, decEntries1 cfg kt f n bs d = .ok (v, r) → sizeEntries v + r.length ≤ bs.length)
    (motive_5 := fun f n bs d => ∀ v r, decElems1 cfg f n bs d = .ok (v, r) → sizeList v + r.length ≤ bs.length)
  all_goals (intros; simp_all [dec, decElems1, decElems2, decEntries1, decEntries2, if_lt_of_le])
  all_goals (try (subst_vars; simp [Value.size, sizeList, sizeEntries]))
  all_goals (first | omega | grind [Value.size, sizeList, sizeEntries, → getVarint_shrink, → takeN_ok, → decInt_shrink,
    → decKey_size, → decKeys1_size, → decKeys2_size, → decChunks_size] | skip)

/-- Decoding never produces more than it read. -/
theorem dec_size {cfg : DecCfg} {f : Nat} {bs : Bytes} {d : Nat} {v : Value} {r : Bytes}
    (h : dec cfg f bs d = .ok (v, r)) : v.size + r.length ≤ bs.length :=
  (dec_size_all cfg).1 f bs d v r h

end Aldrin
