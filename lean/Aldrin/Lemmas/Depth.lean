import Aldrin.Lemmas.RoundTrip
namespace Aldrin
open Generated

theorem guardDepth_eq (d : Nat) (k : Option SerErr) :
    guardDepth d k = if d + 1 > maxValueDepth then some .tooDeep else k := rfl

theorem depth_pos (v : Value) : 1 ≤ v.depth := by
  cases v <;> simp [Value.depth] <;> omega

mutual
/-- Under well-formedness the only check that can fail is the depth limit, and it fails exactly
when the value does not fit below the limit. -/
theorem encCheck_wf (ep : Epoch) : ∀ (v : Value) (d : Nat), v.WF →
    encCheck ep v d = if d + v.depth ≤ maxValueDepth then none else some .tooDeep
  | .none, d, _ => by simp only [encCheck, guardDepth_eq, Value.depth]; grind
  | .bool _, d, _ => by simp only [encCheck, guardDepth_eq, Value.depth]; grind
  | .int _ _, d, _ => by simp only [encCheck, guardDepth_eq, Value.depth]; grind
  | .fixed _ _, d, _ => by simp only [encCheck, guardDepth_eq, Value.depth]; grind
  | .string s, d, hw => by
    simp only [Value.WF] at hw
    have : ¬ s.length > u32Max := by omega
    simp only [encCheck, guardDepth_eq, Value.depth, this, ↓reduceIte]; grind
  | .bytes s, d, hw => by
    simp only [Value.WF] at hw
    have : ¬ s.length > u32Max := by omega
    simp only [encCheck, guardDepth_eq, Value.depth, this, ↓reduceIte]; grind
  | .set kt ks, d, hw => by
    simp only [Value.WF] at hw
    have : ¬ ks.length > u32Max := by omega
    cases ep <;> simp only [encCheck, guardDepth_eq, Value.depth, this, ↓reduceIte] <;> grind
  | .some v, d, hw => by
    simp only [Value.WF] at hw
    have ih := encCheck_wf ep v (d + 1) hw
    simp only [encCheck, guardDepth_eq, Value.depth, ih]; grind
  | .enum id v, d, hw => by
    simp only [Value.WF] at hw
    have ih := encCheck_wf ep v (d + 1) hw.2
    simp only [encCheck, guardDepth_eq, Value.depth, ih]; grind
  | .vec vs, d, hw => by
    simp only [Value.WF] at hw
    have : ¬ vs.length > u32Max := by omega
    have ih := encCheckElems_wf ep vs (d + 1) hw.2
    cases vs with
    | nil => cases ep <;> simp [encCheck, guardDepth_eq, Value.depth, depthList, encCheckElems] <;> grind
    | cons w ws =>
      simp only [reduceCtorEq, false_or] at ih
      cases ep <;> simp only [encCheck, guardDepth_eq, Value.depth, this, ↓reduceIte, ih] <;> grind
  | .map kt es, d, hw => by
    simp only [Value.WF] at hw
    have : ¬ es.length > u32Max := by omega
    have ih := encCheckEntries_wf ep kt es (d + 1) hw.2
    cases es with
    | nil => cases ep <;> simp [encCheck, guardDepth_eq, Value.depth, depthEntries, encCheckEntries] <;> grind
    | cons w ws =>
      simp only [reduceCtorEq, false_or] at ih
      cases ep <;> simp only [encCheck, guardDepth_eq, Value.depth, this, ↓reduceIte, ih] <;> grind

theorem encCheckElems_wf (ep : Epoch) : ∀ (vs : List Value) (d : Nat), WFList vs →
    encCheckElems ep vs d = if vs = [] ∨ d + depthList vs ≤ maxValueDepth then none else some .tooDeep
  | [], d, _ => by simp [encCheckElems]
  | v :: vs, d, hw => by
    simp only [WFList] at hw
    have ih1 := encCheck_wf ep v d hw.1
    have ih2 := encCheckElems_wf ep vs d hw.2
    have hp := depth_pos v
    simp only [encCheckElems, ih1, ih2, depthList, firstErr]
    cases vs with
    | nil => simp [depthList]; grind
    | cons w ws => simp only [reduceCtorEq, false_or]; grind

theorem encCheckEntries_wf (ep : Epoch) (kt : KeyTy) : ∀ (es : List (Key × Value)) (d : Nat), WFEntries kt es →
    encCheckEntries ep kt es d = if es = [] ∨ d + depthEntries es ≤ maxValueDepth then none else some .tooDeep
  | [], d, _ => by simp [encCheckEntries]
  | (k, v) :: es, d, hw => by
    simp only [WFEntries] at hw
    have ih1 := encCheck_wf ep v d hw.2.1
    have ih2 := encCheckEntries_wf ep kt es d hw.2.2
    have hp := depth_pos v
    simp only [encCheckEntries, ih1, ih2, depthEntries, firstErr]
    cases es with
    | nil => simp [depthEntries]; grind
    | cons w ws => simp only [reduceCtorEq, false_or]; grind
end

end Aldrin

namespace Aldrin
open Generated

set_option maxHeartbeats 400000 in
mutual
/-- Decoding the (unchecked) encoding of a value that does not fit below the limit fails with the
nesting error — after having decoded every earlier sibling successfully. -/
theorem dec_tooDeep (cfg : DecCfg) (ep : Epoch) (hv2 : ep = .v2 → cfg.v2 = true) : ∀ (v : Value) (d : Nat) (rest : Bytes) (fuel : Nat),
    v.WF → d + v.depth > maxValueDepth → 2 * (encRaw ep v).length + 1 ≤ fuel →
    dec cfg fuel (encRaw ep v ++ rest) d = .error .tooDeep
  | v, d, rest, 0, _, _, hf => by omega
  | .none, d, rest, f + 1, hw, hd, hf => by
    simp only [Value.depth] at hd; simp [dec, hd]
  | .bool b, d, rest, f + 1, hw, hd, hf => by
    simp only [Value.depth] at hd; simp [dec, hd]
  | .int t i, d, rest, f + 1, hw, hd, hf => by
    simp only [Value.depth] at hd; simp [dec, hd]
  | .fixed k s, d, rest, f + 1, hw, hd, hf => by
    simp only [Value.depth] at hd; simp [dec, hd]
  | .string s, d, rest, f + 1, hw, hd, hf => by
    simp only [Value.depth] at hd; simp [dec, hd]
  | .bytes s, d, rest, f + 1, hw, hd, hf => by
    simp only [Value.depth] at hd
    cases ep <;> simp only [encRaw] <;> (try split) <;> simp [dec, hd]
  | .set kt ks, d, rest, f + 1, hw, hd, hf => by
    simp only [Value.depth] at hd
    cases ep <;> simp [dec, hd]
  | .some v, d, rest, f + 1, hw, hd, hf => by
    simp only [Value.depth] at hd
    simp only [Value.WF] at hw
    by_cases hd' : d + 1 > maxValueDepth
    · simp [dec, hd']
    · have ih := dec_tooDeep cfg ep hv2 v (d + 1) rest f hw (by omega) (by simp [encRaw] at hf; omega)
      simp [encRaw, dec, hd', classifyC_b cfg Kind.some (by decide) (by intro h; simp [Kind.isV2] at h), ih]
  | .enum id v, d, rest, f + 1, hw, hd, hf => by
    simp only [Value.depth] at hd
    simp only [Value.WF] at hw
    by_cases hd' : d + 1 > maxValueDepth
    · simp [dec, hd']
    · have ih := dec_tooDeep cfg ep hv2 v (d + 1) rest f hw.2 (by omega) (by simp [encRaw] at hf; omega)
      simp only [encRaw, List.cons_append, List.append_assoc, dec, hd', ↓reduceIte,
        classifyC_b cfg Kind.enum (by decide) (by intro h; simp [Kind.isV2] at h)]
      rw [getVarint_putVarint 4 _ (by omega) (by omega) (u32_lt _ hw.1)]
      simp [ih]
  | .vec vs, d, rest, f + 1, hw, hd, hf => by
    simp only [Value.depth] at hd
    simp only [Value.WF] at hw
    by_cases hd' : d + 1 > maxValueDepth
    · cases ep <;> simp [dec, hd']
    · cases ep with
      | v1 =>
        simp only [encRaw, List.cons_append, List.append_assoc, dec, hd', ↓reduceIte,
          classifyC_b cfg Kind.vec1 (by decide) (by intro h; simp [Kind.isV2] at h)]
        rw [getVarint_putVarint 4 _ (by omega) (by omega) (u32_lt _ hw.1)]
        have ih := decElems1_tooDeep cfg vs (d + 1) rest f hw.2 (by omega) (by omega)
          (by simp [encRaw] at hf; omega)
        simp [ih]
      | v2 =>
        simp only [encRaw, List.cons_append, dec, hd', ↓reduceIte, classifyC_b cfg Kind.vec2 (by decide) (fun _ => hv2 rfl)]
        have ih := decElems2_tooDeep cfg (hv2 rfl) vs (d + 1) rest f hw.2 (by omega) (by omega)
          (by simp [encRaw] at hf; omega)
        simp [ih]
  | .map kt es, d, rest, f + 1, hw, hd, hf => by
    simp only [Value.depth] at hd
    simp only [Value.WF] at hw
    by_cases hd' : d + 1 > maxValueDepth
    · cases ep <;> simp [dec, hd']
    · cases ep with
      | v1 =>
        simp only [encRaw, List.cons_append, List.append_assoc, dec, hd', ↓reduceIte,
          classifyC_b cfg (Kind.map1 kt) (by cases kt with | int t => cases t <;> decide | _ => decide) (by intro h; simp [Kind.isV2] at h)]
        rw [getVarint_putVarint 4 _ (by omega) (by omega) (u32_lt _ hw.1)]
        have ih := decEntries1_tooDeep cfg kt es (d + 1) rest f hw.2 (by omega) (by omega)
          (by simp [encRaw] at hf; omega)
        simp [ih]
      | v2 =>
        simp only [encRaw, List.cons_append, dec, hd', ↓reduceIte,
          classifyC_b cfg (Kind.map2 kt) (by cases kt with | int t => cases t <;> decide | _ => decide) (fun _ => hv2 rfl)]
        have ih := decEntries2_tooDeep cfg (hv2 rfl) kt es (d + 1) rest f hw.2 (by omega) (by omega)
          (by simp [encRaw] at hf; omega)
        simp [ih]

theorem decElems1_tooDeep (cfg : DecCfg) : ∀ (vs : List Value) (d : Nat) (rest : Bytes) (fuel : Nat),
    WFList vs → d ≤ maxValueDepth → d + depthList vs > maxValueDepth → 2 * (encElemsRaw .v1 vs).length + 2 ≤ fuel →
    decElems1 cfg fuel vs.length (encElemsRaw .v1 vs ++ rest) d = .error .tooDeep
  | vs, d, rest, 0, _, _, _, hf => by omega
  | [], d, rest, f + 1, _, hle, hd, _ => by
    simp only [depthList] at hd; omega
  | v :: vs, d, rest, f + 1, hw, hle, hd, hf => by
    simp only [WFList] at hw
    simp only [depthList] at hd
    have hp := encRaw_length_pos .v1 v
    simp only [encElemsRaw, List.length_append] at hf
    by_cases hv : d + v.depth > maxValueDepth
    · have ih1 := dec_tooDeep cfg .v1 (by intro h; cases h) v d (encElemsRaw .v1 vs ++ rest) f hw.1 hv (by omega)
      simp [decElems1, encElemsRaw, ih1]
    · have ih1 := dec_encRaw cfg .v1 (by intro h; cases h) v d (encElemsRaw .v1 vs ++ rest) f hw.1 (by omega) (by omega)
      have ih2 := decElems1_tooDeep cfg vs d rest f hw.2 hle (by omega) (by omega)
      simp [decElems1, encElemsRaw, ih1, ih2]

theorem decElems2_tooDeep (cfg : DecCfg) (hc : cfg.v2 = true) : ∀ (vs : List Value) (d : Nat) (rest : Bytes) (fuel : Nat),
    WFList vs → d ≤ maxValueDepth → d + depthList vs > maxValueDepth → 2 * (encElemsRaw .v2 vs).length + 2 ≤ fuel →
    decElems2 cfg fuel (encElemsRaw .v2 vs ++ rest) d = .error .tooDeep
  | vs, d, rest, 0, _, _, _, hf => by omega
  | [], d, rest, f + 1, _, hle, hd, _ => by
    simp only [depthList] at hd; omega
  | v :: vs, d, rest, f + 1, hw, hle, hd, hf => by
    simp only [WFList] at hw
    simp only [depthList] at hd
    simp only [encElemsRaw, List.length_cons, List.length_append] at hf
    by_cases hv : d + v.depth > maxValueDepth
    · have ih1 := dec_tooDeep cfg .v2 (fun _ => hc) v d (encElemsRaw .v2 vs ++ rest) f hw.1 hv (by omega)
      simp [decElems2, encElemsRaw, some_ne_none_b, ih1]
    · have ih1 := dec_encRaw cfg .v2 (fun _ => hc) v d (encElemsRaw .v2 vs ++ rest) f hw.1 (by omega) (by omega)
      have ih2 := decElems2_tooDeep cfg hc vs d rest f hw.2 hle (by omega) (by omega)
      simp [decElems2, encElemsRaw, some_ne_none_b, ih1, ih2]

theorem decEntries1_tooDeep (cfg : DecCfg) (kt : KeyTy) : ∀ (es : List (Key × Value)) (d : Nat) (rest : Bytes) (fuel : Nat),
    WFEntries kt es → d ≤ maxValueDepth → d + depthEntries es > maxValueDepth → 2 * (encEntriesRaw .v1 kt es).length + 2 ≤ fuel →
    decEntries1 cfg kt fuel es.length (encEntriesRaw .v1 kt es ++ rest) d = .error .tooDeep
  | es, d, rest, 0, _, _, _, hf => by omega
  | [], d, rest, f + 1, _, hle, hd, _ => by
    simp only [depthEntries] at hd; omega
  | (k, v) :: es, d, rest, f + 1, hw, hle, hd, hf => by
    simp only [WFEntries] at hw
    simp only [depthEntries] at hd
    have hp := encRaw_length_pos .v1 v
    simp only [encEntriesRaw, List.length_append] at hf
    by_cases hv : d + v.depth > maxValueDepth
    · have ih1 := dec_tooDeep cfg .v1 (by intro h; cases h) v d (encEntriesRaw .v1 kt es ++ rest) f hw.2.1 hv (by omega)
      simp [decEntries1, encEntriesRaw, decKey_encKey cfg.utf8 kt k hw.1, ih1]
    · have ih1 := dec_encRaw cfg .v1 (by intro h; cases h) v d (encEntriesRaw .v1 kt es ++ rest) f hw.2.1 (by omega) (by omega)
      have ih2 := decEntries1_tooDeep cfg kt es d rest f hw.2.2 hle (by omega) (by omega)
      simp [decEntries1, encEntriesRaw, decKey_encKey cfg.utf8 kt k hw.1, ih1, ih2]

theorem decEntries2_tooDeep (cfg : DecCfg) (hc : cfg.v2 = true) (kt : KeyTy) : ∀ (es : List (Key × Value)) (d : Nat) (rest : Bytes) (fuel : Nat),
    WFEntries kt es → d ≤ maxValueDepth → d + depthEntries es > maxValueDepth → 2 * (encEntriesRaw .v2 kt es).length + 2 ≤ fuel →
    decEntries2 cfg kt fuel (encEntriesRaw .v2 kt es ++ rest) d = .error .tooDeep
  | es, d, rest, 0, _, _, _, hf => by omega
  | [], d, rest, f + 1, _, hle, hd, _ => by
    simp only [depthEntries] at hd; omega
  | (k, v) :: es, d, rest, f + 1, hw, hle, hd, hf => by
    simp only [WFEntries] at hw
    simp only [depthEntries] at hd
    simp only [encEntriesRaw, List.length_cons, List.length_append] at hf
    by_cases hv : d + v.depth > maxValueDepth
    · have ih1 := dec_tooDeep cfg .v2 (fun _ => hc) v d (encEntriesRaw .v2 kt es ++ rest) f hw.2.1 hv (by omega)
      simp [decEntries2, encEntriesRaw, some_ne_none_b, decKey_encKey cfg.utf8 kt k hw.1, ih1]
    · have ih1 := dec_encRaw cfg .v2 (fun _ => hc) v d (encEntriesRaw .v2 kt es ++ rest) f hw.2.1 (by omega) (by omega)
      have ih2 := decEntries2_tooDeep cfg hc kt es d rest f hw.2.2 hle (by omega) (by omega)
      simp [decEntries2, encEntriesRaw, some_ne_none_b, decKey_encKey cfg.utf8 kt k hw.1, ih1, ih2]
end

end Aldrin
