/-
Schema evolution: data written for a newer environment survives a pass through the types of an older one.

`Ext envO envN` says that every definition of the old environment reappears in the new one with the same
name, that structs and enums of the old one have a fallback, and that the new version of a struct / enum
still has every field / variant the old one declares (it may add more; new definitions may be added).
`newer_data_survives` is then: whatever the old types write back for a value is read by the new types as
exactly what they read in the original value.
-/
import Aldrin.Lemmas.TypedFields

namespace Aldrin.Typed
open Aldrin

/-- The new version of a definition relative to the old one. -/
def DefExt : Option Def → Option Def → Prop
  | some (.struct fsO fbO), some (.struct fsN _) =>
      fbO = true ∧ (fsO.map (·.id)).Nodup ∧ (fsN.map (·.id)).Nodup ∧
        ∀ id f, findField fsO id = some f → findField fsN id = some f
  | some (.enum vsO fbO), some (.enum vsN _) =>
      fbO = true ∧ ∀ id v, findVariant vsO id = some v → findVariant vsN id = some v
  | some (.newtype tO), some (.newtype tN) => tO = tN
  | none, _ => True
  | _, _ => False

def Ext (envO envN : Env) : Prop := ∀ name, DefExt (envO.get? name) (envN.get? name)

/-- Shapes of one type in the two environments. -/
def ShapeExt : Shape → Shape → Prop
  | .struct fsO fbO, .struct fsN _ =>
      fbO = true ∧ (fsO.map (·.id)).Nodup ∧ (fsN.map (·.id)).Nodup ∧
        ∀ id f, findField fsO id = some f → findField fsN id = some f
  | .enum vsO fbO, .enum vsN _ =>
      fbO = true ∧ ∀ id v, findVariant vsO id = some v → findVariant vsN id = some v
  | .bad, _ => True
  | .struct .., _ => False
  | .enum .., _ => False
  | a, b => a = b

theorem shapeExt_refl_of_simple {a : Shape} (h1 : ∀ fs fb, a ≠ .struct fs fb) (h2 : ∀ vs fb, a ≠ .enum vs fb) :
    ShapeExt a a := by
  cases a <;> simp_all [ShapeExt]

theorem shape_ext {envO envN : Env} (hx : Ext envO envN) : ∀ (n : Nat) (ty : Ty),
    ShapeExt (shape envO n ty) (shape envN n ty)
  | 0, ty => by simp [shape, ShapeExt]
  | n + 1, ty => by
    cases ty with
    | box t => simpa [shape] using shape_ext hx n t
    | ref name =>
      have h := hx name
      simp only [shape]
      cases hO : envO.get? name with
      | none => simp [ShapeExt]
      | some dO =>
        cases hN : envN.get? name with
        | none => rw [hO, hN] at h; cases dO <;> simp [DefExt] at h
        | some dN =>
          rw [hO, hN] at h
          cases dO <;> cases dN <;> simp only [DefExt] at h <;> try exact h.elim
          · simpa [ShapeExt] using h
          · simpa [ShapeExt] using h
          · subst h; exact shape_ext hx n _
    | vec t =>
      simp only [shape]
      split <;> simp [ShapeExt]
    | _ => simp [shape, ShapeExt]

theorem keyTy_ext {envO envN : Env} (hx : Ext envO envN) (n : Nat) (k : Ty) {kt : KeyTy}
    (h : keyTy envO n k = some kt) : keyTy envN n k = some kt := by
  have hs := shape_ext hx n k
  unfold keyTy at h ⊢
  split at h
  · rename_i t hO
    rw [hO] at hs
    cases hN : shape envN n k <;> rw [hN] at hs <;> simp_all [ShapeExt]
  · rename_i hO
    rw [hO] at hs
    cases hN : shape envN n k <;> rw [hN] at hs <;> simp_all [ShapeExt]
  · rename_i hO
    rw [hO] at hs
    cases hN : shape envN n k <;> rw [hN] at hs <;> simp_all [ShapeExt]
    subst hs; simp
  · simp at h

/-! ### structure of the field loop's results -/

theorem entries_cons_int (i : Nat) (v : Value) (es : List (Key × Value)) :
    entries ((Key.int i, v) :: es) = (i, v) :: entries es := by
  simp [entries]

theorem entries_map_int (l : List (Nat × Value)) : entries (l.map (fun p => (Key.int p.1, p.2))) = l := by
  induction l with
  | nil => rfl
  | cons p l ih => obtain ⟨i, v⟩ := p; simp only [List.map_cons, entries_cons_int, ih]

theorem acceptFields_un_eq (env : Env) (n : Nat) (fs : List Field) :
    ∀ (es : List (Key × Value)) (kn un : List (Nat × Value)), acceptFields env n fs es = .ok (kn, un) →
      un = (entries es).filter (fun p => (findField fs p.1).isNone)
  | [], kn, un, h => by
    simp only [acceptFields, Except.ok.injEq, Prod.mk.injEq] at h
    simp [← h.2, entries]
  | (k, v) :: es, kn, un, h => by
    unfold acceptFields at h
    split at h
    · simp at h
    · rename_i i hi
      have hent : entries ((k, v) :: es) = (i, v) :: entries es := by simp [entries, hi]
      split at h
      · rename_i g hg
        split at h
        · simp at h
        · split at h
          · simp at h
          · rename_i kn' un' hrest
            simp only [Except.ok.injEq, Prod.mk.injEq] at h
            obtain ⟨_, rfl⟩ := h
            rw [hent, List.filter_cons]
            simp [hg, acceptFields_un_eq env n fs es kn' un' hrest]
      · rename_i hg
        split at h
        · simp at h
        · rename_i kn' un' hrest
          simp only [Except.ok.injEq, Prod.mk.injEq] at h
          obtain ⟨_, rfl⟩ := h
          rw [hent, List.filter_cons]
          simp [hg, acceptFields_un_eq env n fs es kn' un' hrest]

/-- A list of `(id, value)` pairs goes through the field loop when every declared id carries an acceptable
value. -/
theorem acceptFields_map_ok (env : Env) (n : Nat) (fs : List Field) :
    ∀ (l : List (Nat × Value)),
      (∀ q ∈ l, ∀ g, findField fs q.1 = some g → ∃ z, accept env n g.wireTy q.2 = .ok z) →
      ∃ kn un, acceptFields env n fs (l.map (fun p => (Key.int p.1, p.2))) = .ok (kn, un)
  | [], _ => ⟨[], [], by simp [acceptFields]⟩
  | (i, v) :: l, h => by
    obtain ⟨kn, un, hr⟩ := acceptFields_map_ok env n fs l (fun q hq => h q (List.mem_cons_of_mem _ hq))
    cases hf : findField fs i with
    | none => exact ⟨kn, (i, v) :: un, by simp [acceptFields, hf, hr]⟩
    | some g =>
      obtain ⟨z, hz⟩ := h (i, v) List.mem_cons_self g hf
      exact ⟨(i, z) :: kn, un, by simp [acceptFields, hf, hz, hr]⟩

/-! ### `dedupLastN` and filters by id -/

theorem lastOf_filter (p : Nat → Bool) (id : Nat) (l : List (Nat × Value)) :
    lastOf id (l.filter (fun q => p q.1)) = if p id then lastOf id l else none := by
  induction l with
  | nil => simp [lastOf]
  | cons q l ih =>
    obtain ⟨i, v⟩ := q
    simp only [List.filter_cons]
    by_cases hp : p i = true
    · simp only [hp, ↓reduceIte, lastOf, ih]
      by_cases hid : p id = true
      · simp [hid]
      · have : i ≠ id := fun he => hid (he ▸ hp)
        simp [hid, this]
    · simp only [hp, Bool.false_eq_true, ↓reduceIte, ih, lastOf]
      by_cases hid : p id = true
      · have : i ≠ id := fun he => hp (he ▸ hid)
        simp only [hid, ↓reduceIte]
        cases lastOf id l <;> simp [this]
      · simp [hid]

theorem dedupLastN_filter (p : Nat → Bool) (l : List (Nat × Value)) :
    dedupLastN (l.filter (fun q => p q.1)) = (dedupLastN l).filter (fun q => p q.1) := by
  induction l with
  | nil => rfl
  | cons q l ih =>
    obtain ⟨i, v⟩ := q
    simp only [List.filter_cons]
    by_cases hp : p i = true
    · simp only [hp, ↓reduceIte, dedupLastN, lastOf_filter, ih]
      split
      · rfl
      · simp [List.filter_cons, hp]
    · simp only [hp, Bool.false_eq_true, ↓reduceIte, dedupLastN, ih]
      split
      · rfl
      · simp [List.filter_cons, hp]

theorem dedupLastN_of_nodup (l : List (Nat × Value)) (hn : (l.map (·.1)).Nodup) : dedupLastN l = l := by
  induction l with
  | nil => rfl
  | cons q l ih =>
    obtain ⟨i, v⟩ := q
    simp only [List.map_cons, List.nodup_cons, List.mem_map, not_exists, not_and] at hn
    have : lastOf i l = none := (lastOf_none_iff _ _).2 (fun p hp he => hn.1 p hp he)
    simp [dedupLastN, this, ih hn.2]

theorem dedupLastN_idem (l : List (Nat × Value)) : dedupLastN (dedupLastN l) = dedupLastN l :=
  dedupLastN_of_nodup _ (dedupLastN_nodup l)

theorem lastOf_dedupLastN (id : Nat) (l : List (Nat × Value)) : lastOf id (dedupLastN l) = lastOf id l := by
  induction l with
  | nil => rfl
  | cons q l ih =>
    obtain ⟨i, v⟩ := q
    simp only [dedupLastN]
    split
    · rename_i hs
      simp only [lastOf, ih]
      cases hl : lastOf id l with
      | some w => rfl
      | none =>
        have : i ≠ id := fun he => by subst he; simp [hl] at hs
        simp [this]
    · simp only [lastOf, ih]

/-! ### one struct level -/

/-- `Surv x`: what the old types make of `x` is read by the new types like `x` itself. -/
def Surv (envO envN : Env) (n : Nat) (x : Value) : Prop :=
  ∀ ty wo wn, accept envO n ty x = .ok wo → accept envN n ty x = .ok wn → accept envN n ty wo = .ok wn

theorem mem_entries {es : List (Key × Value)} {q : Nat × Value} (h : q ∈ entries es) :
    ∃ p ∈ es, p.2 = q.2 := by
  simp only [entries, List.mem_filterMap, Option.map_eq_some_iff] at h
  obtain ⟨p, hp, i, _, rfl⟩ := h
  exact ⟨p, hp, rfl⟩

theorem emit_congr {kn kn' : List (Nat × Value)} {g : Field} (h : lastOf g.id kn' = lastOf g.id kn) :
    emit kn' g = emit kn g := by
  simp [emit, h]

theorem struct_survives {envO envN : Env} {n : Nat} {fsO fsN : List Field}
    (hnO : (fsO.map (·.id)).Nodup) (hnN : (fsN.map (·.id)).Nodup)
    (hrel : ∀ id f, findField fsO id = some f → findField fsN id = some f)
    {es : List (Key × Value)} (hIH : ∀ p ∈ es, Surv envO envN n p.2)
    {knO unO knN unN : List (Nat × Value)} {outO outN : List (Key × Value)}
    (hO : acceptFields envO n fsO es = .ok (knO, unO)) (hfO : finishFields fsO knO = some outO)
    (hN : acceptFields envN n fsN es = .ok (knN, unN)) (hfN : finishFields fsN knN = some outN) :
    ∃ kn' un', acceptFields envN n fsN (outO ++ dedupLast unO) = .ok (kn', un') ∧
      finishFields fsN kn' = some outN ∧ dedupLast un' = dedupLast unN := by
  obtain ⟨hreqO, rfl⟩ := finishFields_some hfO
  obtain ⟨hreqN, rfl⟩ := finishFields_some hfN
  -- the old output as (id, value) pairs
  have houtO : fsO.filterMap (emit knO) = (emitted fsO knO).map (fun p => (Key.int p.1, p.2)) := by
    simp only [emitted, List.map_filterMap]
    apply filterMap_congr'
    intro f _
    cases he : emit knO f with
    | none => rfl
    | some p => simp only [Option.map_some, Option.some.injEq]; exact Prod.ext (emit_id he).1 rfl
  have hlist : fsO.filterMap (emit knO) ++ dedupLast unO =
      (emitted fsO knO ++ dedupLastN unO).map (fun p => (Key.int p.1, p.2)) := by
    rw [houtO, dedupLast_eq, List.map_append]
  -- facts about the two runs on the original entries
  have lastO := acceptFields_lastOf envO n fsO es knO unO hO
  have lastN := acceptFields_lastOf envN n fsN es knN unN hN
  have laterO := acceptFields_lastOf.acceptFields_later_ok envO n fsO es knO unO hO
  have laterN := acceptFields_lastOf.acceptFields_later_ok envN n fsN es knN unN hN
  have hunO := acceptFields_un_eq envO n fsO es knO unO hO
  have hunN := acceptFields_un_eq envN n fsN es knN unN hN
  -- ids of the two halves of the old output
  have hemit_known : ∀ q ∈ emitted fsO knO, ∃ f, findField fsO q.1 = some f ∧ f.id = q.1 ∧
      ∃ p, emit knO f = some p ∧ p.2 = q.2 := by
    intro q hq
    obtain ⟨f, hf, hid, p, hp, hpq⟩ := emitted_mem hq
    exact ⟨f, hid ▸ findField_of_mem hnO hf, hid, p, hp, hpq⟩
  have hded_unknown : ∀ q ∈ dedupLastN unO, findField fsO q.1 = none ∧ lastOf q.1 (entries es) = some q.2 := by
    intro q hq
    have hqu := dedupLastN_sub unO q hq
    rw [hunO] at hqu
    have hnone : findField fsO q.1 = none := by simpa using (List.mem_filter.1 hqu).2
    refine ⟨hnone, ?_⟩
    have h1 : lastOf q.1 (dedupLastN unO) = some q.2 :=
      lastOf_of_mem_nodup (dedupLastN_nodup unO) (by simpa using hq)
    rw [lastOf_dedupLastN] at h1
    rw [← ((lastO q.1).2 hnone).1]; exact h1
  -- every entry of the old output with an id the new struct declares is acceptable to the new field type
  have hacc : ∀ q ∈ emitted fsO knO ++ dedupLastN unO, ∀ g, findField fsN q.1 = some g →
      ∃ z, accept envN n g.wireTy q.2 = .ok z := by
    intro q hq g hg
    rcases List.mem_append.1 hq with hq | hq
    · obtain ⟨f, hf, hid, p, hp, hpq⟩ := hemit_known q hq
      have hfg : f = g := by have := hrel _ _ hf; rw [hg] at this; exact (Option.some.inj this).symm
      subst hfg
      obtain ⟨_, hlast, _⟩ := emit_id hp
      have h1 := ((lastO f.id).1 f (hid ▸ hf)).1
      rw [hlast] at h1
      cases hx : lastOf f.id (entries es) with
      | none => simp [hx] at h1
      | some x =>
        simp only [hx, Option.bind_some] at h1
        obtain ⟨y, hy⟩ := laterO f.id f (hid ▸ hf) x hx
        obtain ⟨z, hz⟩ := laterN f.id f (hid ▸ hg) x hx
        rw [hy] at h1
        simp only [okVal, Option.some.injEq] at h1
        obtain ⟨p0, hp0, hp0v⟩ := mem_entries (lastOf_mem hx)
        have := hIH p0 hp0 f.wireTy y z (hp0v ▸ hy) (hp0v ▸ hz)
        exact ⟨z, by rw [← hpq, h1]; exact this⟩
    · obtain ⟨hnone, hlast⟩ := hded_unknown q hq
      exact laterN q.1 g hg q.2 hlast
  obtain ⟨kn', un', hrun⟩ := acceptFields_map_ok envN n fsN _ hacc
  have last' := acceptFields_lastOf envN n fsN _ kn' un' hrun
  have hun' := acceptFields_un_eq envN n fsN _ kn' un' hrun
  rw [entries_map_int] at last' hun'
  refine ⟨kn', un', by rw [hlist]; exact hrun, ?_, ?_⟩
  · -- the declared fields
    have hemit : ∀ g ∈ fsN, emit kn' g = emit knN g := by
      intro g hg
      have hgN := findField_of_mem hnN hg
      have h' := ((last' g.id).1 g hgN).1
      have hNn := ((lastN g.id).1 g hgN).1
      rw [lastOf_append] at h'
      cases hfO : findField fsO g.id with
      | none =>
        -- unknown to the old struct: the raw value was kept
        have hem : lastOf g.id (emitted fsO knO) = none := (lastOf_none_iff _ _).2 (fun q hq he => by
          obtain ⟨f, hf, hid, _⟩ := hemit_known q hq
          rw [he] at hf; rw [hfO] at hf; cases hf)
        have hdd : lastOf g.id (dedupLastN unO) = lastOf g.id (entries es) := by
          rw [lastOf_dedupLastN]; exact ((lastO g.id).2 hfO).1
        apply emit_congr
        rw [h', hNn, hdd, hem]
        cases lastOf g.id (entries es) <;> rfl
      | some f =>
        have hfg : f = g := by have := hrel _ _ hfO; rw [hgN] at this; exact (Option.some.inj this).symm
        subst hfg
        have hdd : lastOf f.id (dedupLastN unO) = none := (lastOf_none_iff _ _).2 (fun q hq he => by
          have := (hded_unknown q hq).1
          rw [he, hfO] at this; cases this)
        have hfmem : f ∈ fsO := (findField_some hfO).1
        have hem : lastOf f.id (emitted fsO knO) = (emit knO f).map (·.2) := lastOf_emitted knO hnO f hfmem
        rw [hdd, hem] at h'
        have hOo := ((lastO f.id).1 f hfO).1
        cases hx : lastOf f.id (entries es) with
        | none =>
          have e1 : emit knO f = none := by simp [emit, hOo, hx]
          apply emit_congr
          rw [h', hNn, e1, hx]; rfl
        | some x =>
          obtain ⟨y, hy⟩ := laterO f.id f hfO x hx
          obtain ⟨z, hz⟩ := laterN f.id f hgN x hx
          obtain ⟨p0, hp0, hp0v⟩ := mem_entries (lastOf_mem hx)
          have hs := hIH p0 hp0 f.wireTy y z (hp0v ▸ hy) (hp0v ▸ hz)
          have hkO : lastOf f.id knO = some y := by rw [hOo, hx]; simp [hy, okVal]
          have hkN : lastOf f.id knN = some z := by rw [hNn, hx]; simp [hz, okVal]
          cases hr : f.required with
          | true =>
            have e1 : emit knO f = some (.int f.id, y) := by simp [emit, hkO, hr]
            have hk' : lastOf f.id kn' = some z := by rw [h', e1]; simp [hs, okVal]
            apply emit_congr; rw [hk', hkN]
          | false =>
            -- optional: `None` is not written, and is read back as absent
            simp only [Field.wireTy, hr, Bool.false_eq_true, ↓reduceIte] at hy hz hs
            cases n with
            | zero => exfalso; cases x <;> simp [accept, shape] at hz
            | succ n =>
              have hso : shape envO (n + 1) (.opt f.ty) = .opt f.ty := by simp [shape]
              have hsn : shape envN (n + 1) (.opt f.ty) = .opt f.ty := by simp [shape]
              cases y with
              | none =>
                have hz0 : z = .none := by
                  have : accept envN (n + 1) (.opt f.ty) .none = .ok .none := by simp [accept, hsn]
                  rw [this] at hs; exact (Except.ok.inj hs).symm
                have e1 : emit knO f = none := by simp [emit, hkO, hr]
                have hk' : lastOf f.id kn' = none := by rw [h', e1]; rfl
                simp [emit, hk', hkN, hr, hz0]
              | some y' =>
                have e1 : emit knO f = some (.int f.id, .some y') := by simp [emit, hkO, hr]
                have hk' : lastOf f.id kn' = some z := by
                  rw [h', e1]; simp [Field.wireTy, hr, hs, okVal]
                apply emit_congr; rw [hk', hkN]
              | _ =>
                exfalso
                cases x <;> simp [accept, hso] at hy <;> (try split at hy) <;> simp_all
    rw [finishFields_eq, if_pos]
    · congr 1; exact filterMap_congr' hemit
    · intro g hg hr
      have := hreqN g hg hr
      have he := hemit g hg
      cases hl : lastOf g.id knN with
      | none => simp [hl] at this
      | some z =>
        cases hl' : lastOf g.id kn' with
        | some _ => rfl
        | none => simp [emit, hl, hl', hr] at he
  · -- the kept unknown fields
    rw [dedupLast_eq, dedupLast_eq, hun', hunN]
    congr 1
    let pN : Nat → Bool := fun i => (findField fsN i).isNone
    have hfe : (emitted fsO knO).filter (fun q => pN q.1) = [] := by
      rw [List.filter_eq_nil_iff]
      intro q hq
      obtain ⟨f, hf, _, _⟩ := hemit_known q hq
      simp [pN, hrel _ _ hf]
    have hsub : (entries es).filter (fun q => pN q.1) =
        ((entries es).filter (fun p => (findField fsO p.1).isNone)).filter (fun q => pN q.1) := by
      rw [List.filter_filter]
      apply List.filter_congr
      intro q _
      cases hf : findField fsO q.1 with
      | none => simp
      | some f => simp [pN, hrel _ _ hf]
    show dedupLastN ((emitted fsO knO ++ dedupLastN unO).filter (fun q => pN q.1)) =
      dedupLastN ((entries es).filter (fun q => pN q.1))
    rw [List.filter_append, hfe, List.nil_append, dedupLastN_filter, dedupLastN_idem, hsub, ← hunO,
      dedupLastN_filter]

/-! ### all levels -/

theorem shapeExt_simple {a b : Shape} (h : ShapeExt a b) (h1 : ∀ fs fb, a ≠ .struct fs fb)
    (h2 : ∀ vs fb, a ≠ .enum vs fb) (h3 : a ≠ .bad) : b = a := by
  cases a <;> simp_all [ShapeExt]

theorem elems_survive {envO envN : Env} {n : Nat} {t : Ty} :
    ∀ {vs wos wns : List Value}, (∀ x ∈ vs, Surv envO envN n x) →
      acceptElems envO n t vs = .ok wos → acceptElems envN n t vs = .ok wns → acceptElems envN n t wos = .ok wns
  | [], wos, wns, _, hO, hN => by
    simp only [acceptElems, Except.ok.injEq] at hO hN
    subst hO hN; simp [acceptElems]
  | v :: vs, wos, wns, hIH, hO, hN => by
    unfold acceptElems at hO hN
    split at hO
    · simp at hO
    · rename_i wo hwo
      split at hO
      · simp at hO
      · rename_i wos' hwos'
        split at hN
        · simp at hN
        · rename_i wn hwn
          split at hN
          · simp at hN
          · rename_i wns' hwns'
            cases hO; cases hN
            have h1 := hIH v List.mem_cons_self t wo wn hwo hwn
            have h2 := elems_survive (fun x hx => hIH x (List.mem_cons_of_mem _ hx)) hwos' hwns'
            simp [acceptElems, h1, h2]

theorem entries_survive {envO envN : Env} {n : Nat} {t : Ty} :
    ∀ {es wos wns : List (Key × Value)}, (∀ p ∈ es, Surv envO envN n p.2) →
      acceptEntries envO n t es = .ok wos → acceptEntries envN n t es = .ok wns →
      acceptEntries envN n t wos = .ok wns
  | [], wos, wns, _, hO, hN => by
    simp only [acceptEntries, Except.ok.injEq] at hO hN
    subst hO hN; simp [acceptEntries]
  | (k, v) :: es, wos, wns, hIH, hO, hN => by
    unfold acceptEntries at hO hN
    split at hO
    · simp at hO
    · rename_i wo hwo
      split at hO
      · simp at hO
      · rename_i wos' hwos'
        split at hN
        · simp at hN
        · rename_i wn hwn
          split at hN
          · simp at hN
          · rename_i wns' hwns'
            cases hO; cases hN
            have h1 := hIH (k, v) List.mem_cons_self t wo wn hwo hwn
            have h2 := entries_survive (fun x hx => hIH x (List.mem_cons_of_mem _ hx)) hwos' hwns'
            simp [acceptEntries, h1, h2]

macro "leaf_surv" hx:ident n:ident : tactic =>
  `(tactic| (intro ty wo wn hO hN
             have hs := shape_ext $hx $n ty
             unfold accept at hO
             split at hO <;> (try (split at hO)) <;>
               first | (cases hO; exact hN) | (simp at hO; done)))

mutual
theorem survives {envO envN : Env} (hx : Ext envO envN) (n : Nat) : ∀ (v : Value), Surv envO envN n v
  | .none => by leaf_surv hx n
  | .bool b => by leaf_surv hx n
  | .int t i => by leaf_surv hx n
  | .fixed k bs => by leaf_surv hx n
  | .string bs => by leaf_surv hx n
  | .bytes bs => by leaf_surv hx n
  | .set kt ks => by leaf_surv hx n
  | .some x => by
    intro ty wo wn hO hN
    have hs := shape_ext hx n ty
    unfold accept at hO
    split at hO
    · rename_i t hsO
      rw [hsO] at hs
      have hsN := shapeExt_simple hs (by simp) (by simp) (by simp)
      split at hO
      · rename_i wo' hwo'
        cases hO
        unfold accept at hN
        simp only [hsN] at hN
        split at hN
        · rename_i wn' hwn'
          cases hN
          have := survives hx n x t wo' wn' hwo' hwn'
          simp [accept, hsN, this]
        · simp at hN
      · simp at hO
    · cases hO; exact hN
    · simp at hO
  | .vec vs => by
    intro ty wo wn hO hN
    have hs := shape_ext hx n ty
    have hIH := survivesElems hx n vs
    unfold accept at hO
    split at hO
    · rename_i t hsO
      rw [hsO] at hs
      have hsN := shapeExt_simple hs (by simp) (by simp) (by simp)
      split at hO
      · rename_i wos hwos
        cases hO
        unfold accept at hN
        simp only [hsN] at hN
        split at hN
        · rename_i wns hwns
          cases hN
          simp [accept, hsN, elems_survive hIH hwos hwns]
        · simp at hN
      · simp at hO
    · rename_i t k hsO
      rw [hsO] at hs
      have hsN := shapeExt_simple hs (by simp) (by simp) (by simp)
      split at hO
      · rename_i hl
        split at hO
        · rename_i wos hwos
          cases hO
          unfold accept at hN
          simp only [hsN, hl, ↓reduceIte] at hN
          split at hN
          · rename_i wns hwns
            cases hN
            have hlen : wos.length = k := by rw [← hl]; exact (acceptElems_length envO n t vs wos hwos).symm
            simp [accept, hsN, hlen, elems_survive hIH hwos hwns]
          · simp at hN
        · simp at hO
      · simp at hO
    · cases hO; exact hN
    · simp at hO
  | .map kt es => by
    intro ty wo wn hO hN
    have hs := shape_ext hx n ty
    have hIH := survivesEntries hx n es
    unfold accept at hO
    split at hO
    · rename_i k t hsO
      rw [hsO] at hs
      have hsN := shapeExt_simple hs (by simp) (by simp) (by simp)
      split at hO
      · rename_i hk
        have hkN := keyTy_ext hx n k hk
        split at hO
        · rename_i wos hwos
          cases hO
          unfold accept at hN
          simp only [hsN, hkN, ↓reduceIte] at hN
          split at hN
          · rename_i wns hwns
            cases hN
            simp [accept, hsN, hkN, entries_survive hIH hwos hwns]
          · simp at hN
        · simp at hO
      · simp at hO
    · rename_i fsO fbO hsO
      rw [hsO] at hs
      cases hsN : shape envN n ty <;> rw [hsN] at hs <;> simp only [ShapeExt] at hs <;> try exact hs.elim
      rename_i fsN fbN
      obtain ⟨hfb, hnO, hnN, hrel⟩ := hs
      subst hfb
      split at hO
      · rename_i hkt
        subst hkt
        split at hO
        · simp at hO
        · rename_i knO unO haccO
          split at hO
          · simp at hO
          · rename_i outO hfinO
            cases hO
            unfold accept at hN
            simp only [hsN, ↓reduceIte] at hN
            split at hN
            · simp at hN
            · rename_i knN unN haccN
              split at hN
              · simp at hN
              · rename_i outN hfinN
                cases hN
                obtain ⟨kn', un', h1, h2, h3⟩ :=
                  struct_survives hnO hnN hrel hIH haccO hfinO haccN hfinN
                simp only [↓reduceIte]
                unfold accept
                simp [hsN, h1, h2, h3]
      · simp at hO
    · cases hO; exact hN
    · simp at hO
  | .enum id x => by
    intro ty wo wn hO hN
    have hs := shape_ext hx n ty
    unfold accept at hO
    split at hO
    · rename_i a b hsO
      rw [hsO] at hs
      have hsN := shapeExt_simple hs (by simp) (by simp) (by simp)
      unfold accept at hN
      simp only [hsN] at hN
      split at hO
      · rename_i hid
        subst hid
        simp only [↓reduceIte] at hN
        split at hO
        · rename_i wo' hwo'
          cases hO
          split at hN
          · rename_i wn' hwn'
            cases hN
            have := survives hx n x a wo' wn' hwo' hwn'
            simp [accept, hsN, this]
          · simp at hN
        · simp at hO
      · rename_i hid0
        split at hO
        · rename_i hid
          subst hid
          simp only [Nat.succ_ne_zero, ↓reduceIte] at hN
          split at hO
          · rename_i wo' hwo'
            cases hO
            split at hN
            · rename_i wn' hwn'
              cases hN
              have := survives hx n x b wo' wn' hwo' hwn'
              simp [accept, hsN, this]
            · simp at hN
          · simp at hO
        · simp at hO
    · rename_i vsO fbO hsO
      rw [hsO] at hs
      cases hsN : shape envN n ty <;> rw [hsN] at hs <;> simp only [ShapeExt] at hs <;> try exact hs.elim
      rename_i vsN fbN
      obtain ⟨hfb, hrel⟩ := hs
      subst hfb
      split at hO
      · rename_i id' t hvO
        have hvN := hrel _ _ hvO
        split at hO
        · rename_i wo' hwo'
          cases hO
          unfold accept at hN
          simp only [hsN, hvN] at hN
          split at hN
          · rename_i wn' hwn'
            cases hN
            have := survives hx n x t wo' wn' hwo' hwn'
            simp [accept, hsN, hvN, this]
          · simp at hN
        · simp at hO
      · split at hO
        · cases hO; exact hN
        · simp at hO
      · simp only [↓reduceIte] at hO
        cases hO; exact hN
    · cases hO; exact hN
    · simp at hO

theorem survivesElems {envO envN : Env} (hx : Ext envO envN) (n : Nat) :
    ∀ (vs : List Value), ∀ x ∈ vs, Surv envO envN n x
  | [] => by simp
  | v :: vs => by
    intro x hxm
    rcases List.mem_cons.1 hxm with he | hm
    · exact he ▸ survives hx n v
    · exact survivesElems hx n vs x hm

theorem survivesEntries {envO envN : Env} (hx : Ext envO envN) (n : Nat) :
    ∀ (es : List (Key × Value)), ∀ p ∈ es, Surv envO envN n p.2
  | [] => by simp
  | (k, v) :: es => by
    intro p hpm
    rcases List.mem_cons.1 hpm with he | hm
    · subst he; exact survives hx n v
    · exact survivesEntries hx n es p hm
end

/-! ### a checkable sufficient condition for `Ext` -/

theorem findField_rel_of_subset {fsO fsN : List Field} (hnN : (fsN.map (·.id)).Nodup)
    (hsub : ∀ f ∈ fsO, f ∈ fsN) : ∀ id f, findField fsO id = some f → findField fsN id = some f := by
  intro id f h
  obtain ⟨hm, hid⟩ := findField_some h
  exact hid ▸ findField_of_mem hnN (hsub f hm)

theorem findVariant_some {vs : List Variant} {id : Nat} {v : Variant} (h : findVariant vs id = some v) :
    v ∈ vs ∧ v.id = id := by
  unfold findVariant at h
  exact ⟨List.mem_of_find?_eq_some h, by simpa using List.find?_some h⟩

theorem findVariant_of_mem {vs : List Variant} (hn : (vs.map (·.id)).Nodup) {v : Variant} (hv : v ∈ vs) :
    findVariant vs v.id = some v := by
  induction vs with
  | nil => simp at hv
  | cons g vs ih =>
    simp only [List.map_cons, List.nodup_cons, List.mem_map, not_exists, not_and] at hn
    rcases List.mem_cons.1 hv with rfl | hv
    · simp [findVariant]
    · have : g.id ≠ v.id := fun he => hn.1 v hv he.symm
      have hb : (g.id == v.id) = false := by simpa using this
      have := ih hn.2 hv
      simp only [findVariant] at this
      simp only [findVariant, List.find?_cons, hb, this]

/-- Executable sufficient condition: same names; old structs / enums have a fallback; ids are distinct; every
old field / variant is literally a field / variant of the new version; newtypes are unchanged. -/
def defExtCheck : Def → Option Def → Bool
  | .struct fsO fbO, some (.struct fsN _) =>
      fbO && decide ((fsO.map (·.id)).Nodup) && decide ((fsN.map (·.id)).Nodup) && fsO.all (fun f => fsN.contains f)
  | .enum vsO fbO, some (.enum vsN _) =>
      fbO && decide ((vsN.map (·.id)).Nodup) && vsO.all (fun v => vsN.contains v)
  | .newtype tO, some (.newtype tN) => tO == tN
  | _, _ => false

def extCheck (envO envN : Env) : Bool := envO.all (fun p => defExtCheck p.2 (envN.get? p.1))

theorem Ext_of_check {envO envN : Env} (h : extCheck envO envN = true) : Ext envO envN := by
  intro name
  cases hO : envO.get? name with
  | none => simp [DefExt]
  | some dO =>
    simp only [Env.get?, Option.map_eq_some_iff] at hO
    obtain ⟨p, hp, rfl⟩ := hO
    have hm := List.mem_of_find?_eq_some hp
    have hname : p.1 = name := by simpa using List.find?_some hp
    simp only [extCheck, List.all_eq_true] at h
    have hc := h p hm
    rw [hname] at hc
    cases hN : envN.get? name with
    | none => rw [hN] at hc; cases hd : p.2 <;> rw [hd] at hc <;> simp [defExtCheck] at hc
    | some dN =>
      rw [hN] at hc
      cases hd : p.2 with
      | struct fsO fbO =>
        rw [hd] at hc
        cases dN <;> simp only [defExtCheck, Bool.and_eq_true, decide_eq_true_eq, List.all_eq_true,
          List.contains_iff_mem, Bool.false_eq_true] at hc
        rename_i fsN fbN
        obtain ⟨⟨⟨hfb, hnO⟩, hnN⟩, hsub⟩ := hc
        exact ⟨hfb, hnO, hnN, findField_rel_of_subset hnN hsub⟩
      | enum vsO fbO =>
        rw [hd] at hc
        cases dN <;> simp only [defExtCheck, Bool.and_eq_true, decide_eq_true_eq, List.all_eq_true,
          List.contains_iff_mem, Bool.false_eq_true] at hc
        rename_i vsN fbN
        obtain ⟨⟨hfb, hnN⟩, hsub⟩ := hc
        refine ⟨hfb, fun id v hv => ?_⟩
        obtain ⟨hm, hid⟩ := findVariant_some hv
        exact hid ▸ findVariant_of_mem hnN (hsub v hm)
      | newtype tO =>
        rw [hd] at hc
        cases dN <;> simp only [defExtCheck, beq_iff_eq, Bool.false_eq_true] at hc
        exact hc

end Aldrin.Typed
