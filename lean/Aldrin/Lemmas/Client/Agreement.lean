/-
The invariant of the composed system that makes serial replies agree: for every connection, the requests that
are on their way to the broker and the replies that are on their way to the client name, together, each
(kind, serial) at most once, and only ones the client has in its map.
-/
import Aldrin.Model.System
import Aldrin.Lemmas.Broker.Replies
import Aldrin.Lemmas.Client.Serial

namespace Aldrin.System
open Aldrin.Broker Aldrin.Client

abbrev Key := SKind × Nat

def keysUp (l : Link) : List Key := l.up.filterMap reqKeyS
def keysDown (l : Link) : List Key := l.down.filterMap strictKey

/-- how often a (kind, serial) is on its way, in either direction -/
def cnt (l : Link) (key : Key) : Nat := (keysUp l).count key + (keysDown l).count key

def LinkInv (l : Link) : Prop := ∀ key : Key, cnt l key ≤ 1 ∧ (0 < cnt l key → key.2 ∈ pendingOf l.mon key.1)

def SysInv (s : Sys) : Prop := ∀ c l, s.links c = some l → LinkInv l

/-! ### keys -/

theorem strictKey_kind {m : Rsp} {k : SKind} {n : Nat} (h : strictKey m = some (k, n)) :
    k ≠ .queryIntrospection ∧ rspKey m = some (k, n) := by
  unfold strictKey at h
  split at h
  · simp at h
  · rename_i hne
    constructor
    · rintro rfl; exact hne _ h
    · exact h

theorem strictKey_of_rspKey {m : Rsp} {k : SKind} {n : Nat} (h : rspKey m = some (k, n)) (hk : k ≠ .queryIntrospection) :
    strictKey m = some (k, n) := by
  unfold strictKey
  split
  · rename_i heq; rw [h] at heq; simp at heq; exact absurd heq.1 hk
  · exact h

theorem reqKeyS_kind {r : Req} {k : SKind} {n : Nat} (h : reqKeyS r = some (k, n)) :
    k ≠ .queryIntrospection ∧ reqKey r = some (k, n) := by
  unfold reqKeyS at h
  split at h
  · simp at h
  · rename_i hne
    constructor
    · rintro rfl; exact hne _ h
    · exact h

theorem cnt_queryIntrospection (l : Link) (n : Nat) : cnt l (.queryIntrospection, n) = 0 := by
  have h1 : (keysUp l).count (SKind.queryIntrospection, n) = 0 := by
    rw [List.count_eq_zero]
    intro hm
    simp only [keysUp, List.mem_filterMap] at hm
    obtain ⟨r, _, hr⟩ := hm
    exact (reqKeyS_kind hr).1 rfl
  have h2 : (keysDown l).count (SKind.queryIntrospection, n) = 0 := by
    rw [List.count_eq_zero]
    intro hm
    simp only [keysDown, List.mem_filterMap] at hm
    obtain ⟨r, _, hr⟩ := hm
    exact (strictKey_kind hr).1 rfl
  simp [cnt, h1, h2]

/-! ### what is delivered to one connection -/

theorem delivered_keys (out : List Out) (c : ConnId) :
    (delivered out c).filterMap strictKey = (delivered (sf out) c).filterMap strictKey := by
  induction out with
  | nil => rfl
  | cons o out ih =>
    have e1 : delivered (o :: out) c = (if o.to = c then [o.msg] else []) ++ delivered out c := by
      by_cases hc : o.to = c <;> simp [delivered, List.filter_cons, hc]
    have e2 : delivered (sf (o :: out)) c = (if o.strict = true ∧ o.to = c then [o.msg] else []) ++ delivered (sf out) c := by
      by_cases hs : o.strict = true <;> by_cases hc : o.to = c <;> simp [delivered, sf, List.filter_cons, hc, hs]
    rw [e1, e2, List.filterMap_append, List.filterMap_append, ih]
    congr 1
    by_cases hs : o.strict = true <;> by_cases hc : o.to = c <;> simp [hs, hc]
    have := (by simpa [Out.strict] using hs : strictKey o.msg = none ∧ tagOf o.msg = none); exact this.1

theorem delivered_keys_nil {out : List Out} (h : sf out = []) (c : ConnId) : (delivered out c).filterMap strictKey = [] := by
  rw [delivered_keys, h]; rfl

theorem delivered_nonstrict (t : List Out) (c : ConnId) (h : ∀ x ∈ t, strictKey x.msg = none) :
    (delivered t c).filterMap strictKey = [] := by
  induction t with
  | nil => rfl
  | cons x t ih =>
    have hx := h x (by simp)
    have := ih (fun y hy => h y (by simp [hy]))
    by_cases hc : x.to = c <;> simp_all [delivered, List.filter_cons]

theorem delivered_keys_one {out : List Out} {o : Out} {t : List Out} {key : Key} (h : sf out = o :: t) (hk : strictKey o.msg = some key)
    (ht : ∀ x ∈ t, strictKey x.msg = none) (c : ConnId) :
    (delivered out c).filterMap strictKey = if o.to = c then [key] else [] := by
  rw [delivered_keys, h]
  have e : delivered (o :: t) c = (if o.to = c then [o.msg] else []) ++ delivered t c := by
    by_cases hc : o.to = c <;> simp [delivered, List.filter_cons, hc]
  rw [e, List.filterMap_append, delivered_nonstrict t c ht]
  by_cases hc : o.to = c <;> simp [hc, hk]

/-! ### each event keeps the invariant -/

theorem LinkInv_init (v : Nat) : LinkInv { mon := { version := v } } := by
  intro key
  simp [cnt, keysUp, keysDown]

theorem LinkInv_of_le {l l' : Link} (hm : l'.mon = l.mon) (hc : ∀ key, cnt l' key ≤ cnt l key) (h : LinkInv l) : LinkInv l' := by
  intro key
  have := h key
  have := hc key
  rw [hm]
  constructor
  · omega
  · intro hp; apply (h key).2; omega

theorem LinkInv_send {l : Link} {r : Req} (hf : freshSerial l.mon r = true) (h : LinkInv l) :
    LinkInv { l with mon := onSend l.mon r, up := l.up ++ [r] } := by
  intro key
  obtain ⟨k, n⟩ := key
  have hk := h (k, n)
  simp only [cnt, keysUp, keysDown, List.filterMap_append, List.count_append] at hk ⊢
  simp only [mem_pendingOf_onSend]
  cases hr : reqKeyS r with
  | none =>
    simp only [List.filterMap_cons, hr, List.filterMap_nil, List.count_nil, Nat.add_zero]
    exact ⟨hk.1, fun hp => Or.inl (hk.2 hp)⟩
  | some key' =>
    obtain ⟨k', n'⟩ := key'
    have hr' := (reqKeyS_kind hr).2
    simp only [List.filterMap_cons, hr, List.filterMap_nil, List.count_cons, List.count_nil, Nat.zero_add]
    by_cases he : (k', n') = (k, n)
    · obtain ⟨rfl, rfl⟩ := Prod.mk.inj he
      have hnot : n' ∉ pendingOf l.mon k' := by simpa [freshSerial, hr'] using hf
      have hz : ¬ 0 < List.count (k', n') (List.filterMap reqKeyS l.up) + List.count (k', n') (List.filterMap strictKey l.down) :=
        fun hp => hnot (hk.2 hp)
      simp only [beq_self_eq_true, ↓reduceIte]
      exact ⟨by omega, fun _ => Or.inr hr'⟩
    · have : ((k', n') == (k, n)) = false := by simpa using he
      simp only [this, Bool.false_eq_true, ↓reduceIte, Nat.add_zero]
      exact ⟨hk.1, fun hp => Or.inl (hk.2 hp)⟩

theorem LinkInv_recv {l : Link} {m : Rsp} {rest : List Rsp} {mon : CSt} (hd : l.down = m :: rest)
    (ho : onRecv l.mon m = .ok mon) (h : LinkInv l) : LinkInv { l with mon := mon, down := rest } := by
  intro key
  obtain ⟨k, n⟩ := key
  have hk := h (k, n)
  simp only [cnt, keysUp, keysDown, hd] at hk ⊢
  rw [mem_pendingOf_onRecv _ _ _ _ _ ho]
  cases hm : strictKey m with
  | none =>
    simp only [List.filterMap_cons, hm] at hk
    refine ⟨hk.1, fun hp => ⟨hk.2 hp, ?_⟩⟩
    intro hr
    by_cases hq : k = .queryIntrospection
    · subst hq
      have := cnt_queryIntrospection { l with down := rest } n
      simp only [cnt, keysUp, keysDown] at this
      omega
    · rw [strictKey_of_rspKey hr hq] at hm; simp at hm
  | some key' =>
    simp only [List.filterMap_cons, hm, List.count_cons] at hk
    by_cases he : key' = (k, n)
    · subst he
      simp only [beq_self_eq_true, ↓reduceIte] at hk
      refine ⟨by omega, fun hp => ?_⟩
      omega
    · have hb : (key' == (k, n)) = false := by simpa using he
      simp only [hb, Bool.false_eq_true, ↓reduceIte, Nat.add_zero] at hk
      refine ⟨hk.1, fun hp => ⟨hk.2 hp, ?_⟩⟩
      intro hr
      by_cases hq : k = .queryIntrospection
      · subst hq
        have := cnt_queryIntrospection { l with down := rest } n
        simp only [cnt, keysUp, keysDown] at this
        omega
      · rw [strictKey_of_rspKey hr hq] at hm; simp at hm; exact he hm.symm

theorem LinkInv_deliver_nil {l : Link} {out : List Out} (c : ConnId) (hs : sf out = []) (h : LinkInv l) :
    LinkInv { l with down := l.down ++ delivered out c } := by
  refine LinkInv_of_le (l := l) rfl ?_ h
  intro key
  simp [cnt, keysUp, keysDown, List.filterMap_append, delivered_keys_nil hs]

theorem LinkInv_deliver_other {l : Link} {out : List Out} {c x : ConnId} {key : Option Key} (ho : OneReply c key out)
    (hx : x ≠ c) (h : LinkInv l) : LinkInv { l with down := l.down ++ delivered out x } := by
  rcases ho with hs | ⟨o, t, hs, hto, hk, hsome, ht⟩
  · exact LinkInv_deliver_nil x hs h
  · refine LinkInv_of_le (l := l) rfl ?_ h
    intro key'
    obtain ⟨kk, hkk⟩ := Option.isSome_iff_exists.mp hsome
    have hne : ¬ o.to = x := by rw [hto]; exact fun e => hx e.symm
    simp [cnt, keysUp, keysDown, List.filterMap_append, delivered_keys_one hs (hkk ▸ hk) (fun y hy => (ht y hy).2), hne]

theorem LinkInv_handle {l : Link} {out : List Out} {c : ConnId} {r : Req} {rest : List Req} (hu : l.up = r :: rest)
    (ho : OneReply c (reqKeyS r) out) (h : LinkInv l) :
    LinkInv { l with up := rest, down := l.down ++ delivered out c } := by
  refine LinkInv_of_le (l := l) rfl ?_ h
  intro key
  rcases ho with hs | ⟨o, t, hs, hto, hk, hsome, ht⟩
  · simp only [cnt, keysUp, keysDown, List.filterMap_append, delivered_keys_nil hs, hu, List.filterMap_cons]
    cases reqKeyS r <;> simp [List.count_cons] <;> omega
  · obtain ⟨kk, hkk⟩ := Option.isSome_iff_exists.mp hsome
    simp only [cnt, keysUp, keysDown, List.filterMap_append, delivered_keys_one hs (hkk ▸ hk) (fun y hy => (ht y hy).2), hto, hu,
      List.filterMap_cons, hkk, ↓reduceIte, List.count_append, List.count_cons, List.count_nil]
    omega

theorem sysStep_inv {s s' : Sys} {e : SysEv} (hs : sysStep s e = some s') (h : SysInv s) : SysInv s' := by
  cases e with
  | attach c v =>
    simp only [sysStep] at hs
    split at hs
    · simp at hs
    · split at hs
      · simp at hs
      · rename_i b w out hst
        simp only [Option.some.injEq] at hs; subst hs
        have ho := step_other_no_reply (by intro id m he; simp at he) hst
        intro x l hl
        simp only [setLink] at hl
        split at hl
        · simp only [Option.some.injEq] at hl; subst hl; exact LinkInv_init v
        · simp only [deliver, Option.map_eq_some_iff] at hl
          obtain ⟨lx, hlx, rfl⟩ := hl
          exact LinkInv_deliver_nil x ho (h x lx hlx)
  | clientSends c r =>
    simp only [sysStep] at hs
    split at hs
    · simp at hs
    · rename_i l0 hl0
      split at hs
      · rename_i hf
        simp only [Option.some.injEq] at hs; subst hs
        intro x l hl
        simp only [setLink] at hl
        split at hl
        · simp only [Option.some.injEq] at hl; subst hl; exact LinkInv_send hf (h c l0 hl0)
        · exact h x l hl
      · simp at hs
  | brokerHandles c =>
    simp only [sysStep] at hs
    split at hs
    · simp at hs
    · rename_i l0 hl0
      split at hs
      · simp at hs
      · rename_i r rest hu
        split at hs
        · simp at hs
        · rename_i b w out hst
          simp only [Option.some.injEq] at hs; subst hs
          have ho := step_msg_reply hst
          intro x l hl
          simp only [deliver, setLink] at hl
          by_cases hx : x = c
          · subst hx
            simp only [↓reduceIte, Option.map_some, Option.some.injEq] at hl; subst hl
            exact LinkInv_handle hu ho (h x l0 hl0)
          · simp only [hx, ↓reduceIte, Option.map_eq_some_iff] at hl
            obtain ⟨lx, hlx, rfl⟩ := hl
            exact LinkInv_deliver_other ho hx (h x lx hlx)
  | brokerEvent e =>
    simp only [sysStep] at hs
    split at hs
    · simp at hs
    · rename_i hnm
      split at hs
      · simp at hs
      · rename_i b w out hst
        simp only [Option.some.injEq] at hs; subst hs
        have ho := step_other_no_reply (by intro id m he; subst he; simp [Event.isMsg] at hnm) hst
        intro x l hl
        simp only [deliver, Option.map_eq_some_iff] at hl
        obtain ⟨lx, hlx, rfl⟩ := hl
        exact LinkInv_deliver_nil x ho (h x lx hlx)
  | clientHandles c =>
    simp only [sysStep] at hs
    split at hs
    · simp at hs
    · rename_i l0 hl0
      split at hs
      · simp at hs
      · rename_i m rest hd
        split at hs
        · rename_i mon hon
          simp only [Option.some.injEq] at hs; subst hs
          intro x l hl
          simp only [setLink] at hl
          split at hl
          · simp only [Option.some.injEq] at hl; subst hl; exact LinkInv_recv hd hon (h c l0 hl0)
          · exact h x l hl
        · simp at hs
  | detach c =>
    simp only [sysStep, Option.some.injEq] at hs; subst hs
    intro x l hl
    simp only [setLink] at hl
    split at hl
    · simp at hl
    · exact h x l hl

theorem sysRun_inv : ∀ (es : List SysEv) (s s' : Sys), sysRun s es = some s' → SysInv s → SysInv s' := by
  intro es
  induction es with
  | nil => intro s s' hr h; simp [sysRun] at hr; exact hr ▸ h
  | cons e es ih =>
    intro s s' hr h
    simp only [sysRun] at hr
    split at hr
    · exact ih _ _ hr (sysStep_inv ‹_› h)
    · simp at hr

theorem SysInv_init : SysInv {} := by
  intro c l hl; simp at hl

/-- a reply at the head of a client's queue names a serial the client has in the map of that kind -/
theorem head_is_pending {s : Sys} (h : SysInv s) {c : ConnId} {l : Link} (hl : s.links c = some l)
    {m : Rsp} (hm : m ∈ l.down) {k : SKind} {n : Nat} (hk : strictKey m = some (k, n)) : n ∈ pendingOf l.mon k := by
  apply ((h c l hl) (k, n)).2
  have : (k, n) ∈ keysDown l := by
    simp only [keysDown, List.mem_filterMap]
    exact ⟨m, hm, hk⟩
  have := List.count_pos_iff.mpr this
  simp only [cnt]
  omega

end Aldrin.System
