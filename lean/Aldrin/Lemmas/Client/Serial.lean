/-
Step lemmas of the client model's serial maps, and their lift to histories.
-/
import Aldrin.Lemmas.Client.Pending

namespace Aldrin.Client
open Aldrin.Broker

theorem mem_pendingOf_onSend (s : CSt) (r : Req) (k : SKind) (x : Nat) :
    x ∈ pendingOf (onSend s r) k ↔ x ∈ pendingOf s k ∨ reqKey r = some (k, x) := by
  cases r <;> (try (rename_i o _ _; cases o)) <;> (try (rename_i o _; cases o)) <;> cases k <;>
    simp [onSend, reqKey, pendingOf, mem_sinsert, mem_keys_insert, eq_comm]
theorem take_eq_some_iff {n : Nat} {m m' : List Nat} : take n m = some m' ↔ n ∈ m ∧ m' = sremove n m := by
  constructor
  · exact take_some
  · rintro ⟨h, rfl⟩; simp [take, h]

theorem take_eq_none_iff {n : Nat} {m : List Nat} : take n m = none ↔ n ∉ m := by
  constructor
  · exact take_none
  · intro h; simp [take, h]

theorem takeAL_eq_some_iff {V : Type} {n : Nat} {m m' : List (Nat × V)} {v : V} :
    takeAL n m = some (v, m') ↔ AL.find? n m = some v ∧ m' = AL.erase n m := by
  unfold takeAL
  cases hf : AL.find? n m <;> simp [eq_comm]

theorem takeAL_eq_none_iff {V : Type} {n : Nat} {m : List (Nat × V)} : takeAL n m = none ↔ AL.find? n m = none := by
  unfold takeAL
  cases hf : AL.find? n m <;> simp

@[simp] theorem pendingOf_setEnds (s : CSt) (e : ChanEnd) (m) (k : SKind) : pendingOf (setEnds s e m) k = pendingOf s k := by
  cases e <;> cases k <;> rfl

theorem mem_pendingOf_onRecv (s s' : CSt) (m : Rsp) (k : SKind) (x : Nat) (h : onRecv s m = .ok s') :
    x ∈ pendingOf s' k ↔ x ∈ pendingOf s k ∧ rspKey m ≠ some (k, x) := by
  cases m <;> simp only [onRecv, channelEndClosed, channelEndClaimed] at h <;> (repeat' (split at h)) <;>
    (try (simp only [reduceCtorEq, Verdict.ok.injEq] at h)) <;> (try subst h) <;>
    (try simp only [take_eq_some_iff, takeAL_eq_some_iff] at *) <;>
    (try simp only [pendingOf_setEnds]) <;> cases k <;> (try simp_all [pendingOf, rspKey, mem_sremove, mem_keys_erase]) <;> (try grind)

theorem take_none_of_not_mem {n : Nat} {m : List Nat} (h : n ∉ m) : take n m = none := take_eq_none_iff.mpr h

theorem takeAL_none_of_not_mem_keys {V : Type} {n : Nat} {m : List (Nat × V)} (h : n ∉ AL.keys m) : takeAL n m = none := by
  rw [takeAL_eq_none_iff]
  cases hf : AL.find? n m with
  | none => rfl
  | some v => exact absurd (find_some_mem_keys hf) h

/-- a reply whose serial is not in the map of its kind is refused -/
theorem onRecv_unknown_serial (s : CSt) (m : Rsp) (k : SKind) (x : Nat) (hk : rspKey m = some (k, x))
    (hx : x ∉ pendingOf s k) : onRecv s m = .unexpected := by
  cases m <;> simp only [rspKey, Option.some.injEq, Prod.mk.injEq, reduceCtorEq] at hk <;> obtain ⟨rfl, rfl⟩ := hk <;>
    simp only [pendingOf] at hx <;> simp only [onRecv] <;>
    first
      | (simp [take_none_of_not_mem hx]; done)
      | (simp [takeAL_none_of_not_mem_keys hx]; done)
      | (split <;> simp [take_none_of_not_mem hx])

/-! ### histories -/

/-- what the client does at its transport -/
inductive Ev where
  | sent (r : Req)
  | got (m : Rsp)
  deriving Repr

/-- the state after a history, if the client accepted every message in it -/
def replay : CSt → List Ev → Option CSt
  | s, [] => some s
  | s, .sent r :: h => replay (onSend s r) h
  | s, .got m :: h =>
    match onRecv s m with
    | .ok s' => replay s' h
    | _ => none

/-- Is a request of kind `k` with serial `x` on its way after the history (given whether one was before)? -/
def openFrom (b : Bool) (k : SKind) (x : Nat) : List Ev → Bool
  | [] => b
  | .sent r :: h => openFrom (b || decide (reqKey r = some (k, x))) k x h
  | .got m :: h => openFrom (b && !decide (rspKey m = some (k, x))) k x h

theorem replay_pending : ∀ (h : List Ev) (s s' : CSt) (k : SKind) (x : Nat), replay s h = some s' →
    (x ∈ pendingOf s' k ↔ openFrom (decide (x ∈ pendingOf s k)) k x h = true) := by
  intro h
  induction h with
  | nil => intro s s' k x hr; simp [replay] at hr; subst hr; simp [openFrom]
  | cons e h ih =>
    intro s s' k x hr
    cases e with
    | sent r =>
      simp only [replay] at hr
      rw [ih _ _ k x hr]
      simp only [openFrom]
      congr 2
      have := mem_pendingOf_onSend s r k x
      by_cases h1 : x ∈ pendingOf s k <;> by_cases h2 : reqKey r = some (k, x) <;> simp_all
    | got m =>
      simp only [replay] at hr
      split at hr
      · rename_i s1 hs1
        rw [ih _ _ k x hr]
        simp only [openFrom]
        congr 2
        have := mem_pendingOf_onRecv s s1 m k x hs1
        by_cases h1 : x ∈ pendingOf s k <;> by_cases h2 : rspKey m = some (k, x) <;> simp_all
      · simp at hr

end Aldrin.Client
