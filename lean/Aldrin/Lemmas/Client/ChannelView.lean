/-
The channel part of the client's book-keeping as a machine of its own: the two maps of channel ends, the three
channel requests that are on their way, which channel messages of the broker are accepted, and that this is all that
decides their acceptance.
-/
import Aldrin.Lemmas.Client.ListenerView

namespace Aldrin.Client
open Aldrin.Broker

structure CV where
  senders : List (Cookie × EndSt) := []
  receivers : List (Cookie × EndSt) := []
  create : List (Nat × ChanEnd) := []
  close : List (Nat × CloseReq) := []
  claim : List (Nat × (ChanEnd × Cookie)) := []
  deriving DecidableEq, Repr

def cview (s : CSt) : CV := ⟨s.senders, s.receivers, s.createChannel, s.closeChannelEnd, s.claimChannelEnd⟩

def CV.ends (v : CV) : ChanEnd → List (Cookie × EndSt)
  | .sender => v.senders
  | .receiver => v.receivers

def CV.setEnds (v : CV) (e : ChanEnd) (m : List (Cookie × EndSt)) : CV :=
  match e with
  | .sender => { v with senders := m }
  | .receiver => { v with receivers := m }

/-- the `claimed` flag of a close request, fixed when the request is made -/
def closeFlag (s : CSt) (ck : Cookie) (e : ChanEnd) : Bool :=
  AL.contains ck (ends s e) || s.claimChannelEnd.any (fun p => p.2 = (e, ck))

/-- a request is sent; `fl` is the `claimed` flag a close request is given -/
def cSend (v : CV) (fl : Bool) : Req → CV
  | .createChannel n e _ => { v with create := AL.insert n e v.create }
  | .closeChannelEnd n ck e => { v with close := AL.insert n ⟨ck, e, fl⟩ v.close }
  | .claimChannelEnd n ck e _ => { v with claim := AL.insert n (e, ck) v.claim }
  | _ => v

/-- the flag the client computes for the request (irrelevant for all but close requests) -/
def flagOf (s : CSt) : Req → Bool
  | .closeChannelEnd _ ck e => closeFlag s ck e
  | _ => false

/-- the messages whose acceptance depends on the channel book-keeping -/
def isC : Rsp → Bool
  | .createChannelReply .. | .closeChannelEndReply .. | .claimChannelEndReply .. | .channelEndClosed .. | .channelEndClaimed ..
  | .itemReceived .. | .addChannelCapacity .. => true
  | _ => false

/-- `none`: refused (`UnexpectedMessageReceived`). The consistency `assert!`s (a new cookie is not yet in the map, a closed
one is) are not refusals and are not looked at here. -/
def cRecv (v : CV) : Rsp → Option CV
  | .createChannelReply n ck =>
    match takeAL n v.create with
    | none => none
    | some (e, m) => some (({ v with create := m }).setEnds e (AL.insert ck .pending (v.ends e)))
  | .closeChannelEndReply n _ =>
    match takeAL n v.close with
    | none => none
    | some (req, m) =>
      if req.claimed then some (({ v with close := m }).setEnds req.e (AL.erase req.cookie (v.ends req.e)))
      else some { v with close := m }
  | .claimChannelEndReply n r =>
    match takeAL n v.claim with
    | none => none
    | some ((e, ck), m) =>
      match e, r with
      | .sender, .senderClaimed _ | .receiver, .receiverClaimed =>
        some (({ v with claim := m }).setEnds e (AL.insert ck .established (v.ends e)))
      | .sender, .receiverClaimed | .receiver, .senderClaimed _ => none
      | _, .invalidChannel | _, .alreadyClaimed => some { v with claim := m }
  | .channelEndClosed ck e =>
    match AL.find? ck (v.ends (peerEnd e)) with
    | some .pending | some .established => some (v.setEnds (peerEnd e) (AL.insert ck .peerClosed (v.ends (peerEnd e))))
    | _ => none
  | .channelEndClaimed ck e _ =>
    match AL.find? ck (v.ends (peerEnd e)) with
    | some .pending => some (v.setEnds (peerEnd e) (AL.insert ck .established (v.ends (peerEnd e))))
    | _ => none
  | .itemReceived ck _ => if AL.find? ck v.receivers = some .established then some v else none
  | .addChannelCapacity ck _ => if AL.find? ck v.senders = some .established then some v else none
  | _ => some v

def cDrain : CV → List Rsp → Option CV
  | v, [] => some v
  | v, m :: ms => match cRecv v m with
    | some v' => cDrain v' ms
    | none => none

theorem cDrain_append (v : CV) (a b : List Rsp) : cDrain v (a ++ b) = (cDrain v a).bind (fun v' => cDrain v' b) := by
  induction a generalizing v with
  | nil => rfl
  | cons m a ih =>
    simp only [List.cons_append, cDrain]
    cases cRecv v m with
    | none => rfl
    | some v' => exact ih v'

theorem cRecv_not_isC {v : CV} {m : Rsp} (h : isC m = false) : cRecv v m = some v := by
  cases m <;> simp only [isC, reduceCtorEq] at h <;> rfl

/-! ### the view commutes with the client -/

theorem cview_ends (s : CSt) (e : ChanEnd) : (cview s).ends e = ends s e := by cases e <;> rfl

theorem cview_setEnds (s : CSt) (e : ChanEnd) (m) : cview (setEnds s e m) = (cview s).setEnds e m := by
  cases e <;> rfl

theorem cview_onSend (s : CSt) (r : Req) : cview (onSend s r) = cSend (cview s) (flagOf s r) r := by
  cases r with
  | subscribeEvent o _ _ => cases o <;> rfl
  | subscribeAllEvents o _ => cases o <;> rfl
  | unsubscribeAllEvents o _ => cases o <;> rfl
  | _ => rfl

theorem cview_onRecv {s s' : CSt} {m : Rsp} (h : onRecv s m = .ok s') : cRecv (cview s) m = some (cview s') := by
  cases m
  case createChannelReply n ck =>
    simp only [onRecv] at h
    split at h
    · simp at h
    · rename_i e m' ht
      split at h
      · simp at h
      · simp only [Verdict.ok.injEq] at h; subst h
        have ht' : takeAL n (cview s).create = some (e, m') := ht
        simp only [cRecv, ht']
        cases e <;> rfl
  case closeChannelEndReply n r =>
    simp only [onRecv] at h
    split at h
    · simp at h
    · rename_i req m' ht
      have ht' : takeAL n (cview s).close = some (req, m') := ht
      simp only [cRecv, ht']
      split at h
      · rename_i hcl
        split at h
        · simp at h
        · simp only [Verdict.ok.injEq] at h; subst h
          simp only [hcl, ↓reduceIte]
          cases he : req.e <;> simp [CV.setEnds, CV.ends, cview, setEnds, ends, he]
      · rename_i hcl
        simp only [Verdict.ok.injEq] at h; subst h
        simp only [hcl, Bool.false_eq_true, ↓reduceIte]
        rfl
  case claimChannelEndReply n r =>
    simp only [onRecv] at h
    split at h
    · simp at h
    · rename_i e ck m' ht
      have ht' : takeAL n (cview s).claim = some ((e, ck), m') := ht
      simp only [cRecv, ht']
      cases e <;> cases r <;> simp only [] at h ⊢ <;> (try (split at h)) <;>
        (try (simp only [reduceCtorEq, Verdict.ok.injEq] at h)) <;> (try subst h) <;> (try rfl) <;> (try (exact h.elim))
  case channelEndClosed ck e =>
    simp only [onRecv, channelEndClosed] at h
    have he : (cview s).ends (peerEnd e) = ends s (peerEnd e) := cview_ends s _
    simp only [cRecv, he]
    split at h <;> (try (simp only [reduceCtorEq, Verdict.ok.injEq] at h)) <;> (try subst h) <;> (try (exact h.elim)) <;>
      simp_all [cview_setEnds]
  case channelEndClaimed ck e cap =>
    simp only [onRecv, channelEndClaimed] at h
    have he : (cview s).ends (peerEnd e) = ends s (peerEnd e) := cview_ends s _
    simp only [cRecv, he]
    split at h <;> (try (simp only [reduceCtorEq, Verdict.ok.injEq] at h)) <;> (try subst h) <;> (try (exact h.elim)) <;>
      simp_all [cview_setEnds]
  all_goals
    simp only [onRecv] at h
    (repeat' (split at h)) <;> (try (simp only [reduceCtorEq, Verdict.ok.injEq] at h)) <;> (try subst h) <;> (try rfl) <;>
      (try (exact h.elim)) <;> (try (simp_all [cRecv, cview]; done))

/-- whether a channel message is refused is decided by the view -/
theorem cRecv_accepts {s : CSt} {m : Rsp} {t : CV} (hc : isC m = true) (h : cRecv (cview s) m = some t) :
    onRecv s m ≠ .unexpected := by
  cases m <;> simp only [isC, Bool.false_eq_true] at hc
  case createChannelReply n ck =>
    simp only [cRecv] at h
    have e : (cview s).create = s.createChannel := rfl
    rw [e] at h
    simp only [onRecv]
    split at h
    · simp at h
    · rename_i ht; simp only [ht]; split <;> simp
  case closeChannelEndReply n r =>
    simp only [cRecv] at h
    have e : (cview s).close = s.closeChannelEnd := rfl
    rw [e] at h
    simp only [onRecv]
    split at h
    · simp at h
    · rename_i ht; simp only [ht]; repeat' split
      all_goals simp
  case claimChannelEndReply n r =>
    simp only [cRecv] at h
    have e : (cview s).claim = s.claimChannelEnd := rfl
    rw [e] at h
    simp only [onRecv]
    split at h
    · simp at h
    · rename_i ee ck m' ht
      simp only [ht]
      cases ee <;> cases r <;> simp only [] at h ⊢ <;> (try (split <;> simp)) <;> (try simp) <;> (try (simp at h))
  case channelEndClosed ck e =>
    have he : (cview s).ends (peerEnd e) = ends s (peerEnd e) := cview_ends s _
    simp only [cRecv, he] at h
    simp only [onRecv, channelEndClosed]
    split at h <;> simp_all
  case channelEndClaimed ck e cap =>
    have he : (cview s).ends (peerEnd e) = ends s (peerEnd e) := cview_ends s _
    simp only [cRecv, he] at h
    simp only [onRecv, channelEndClaimed]
    split at h <;> simp_all
  case itemReceived ck p =>
    simp only [cRecv] at h
    have e : (cview s).receivers = s.receivers := rfl
    rw [e] at h
    simp only [onRecv]
    split at h <;> simp_all
  case addChannelCapacity ck n =>
    simp only [cRecv] at h
    have e : (cview s).senders = s.senders := rfl
    rw [e] at h
    simp only [onRecv]
    split at h <;> simp_all

/-! ### sending a request and receiving an unrelated message commute -/

theorem CV.setEnds_create (v : CV) (e : ChanEnd) (m) : (v.setEnds e m).create = v.create := by cases e <;> rfl
theorem CV.setEnds_close (v : CV) (e : ChanEnd) (m) : (v.setEnds e m).close = v.close := by cases e <;> rfl
theorem CV.setEnds_claim (v : CV) (e : ChanEnd) (m) : (v.setEnds e m).claim = v.claim := by cases e <;> rfl

theorem cSend_ends (v : CV) (fl : Bool) (r : Req) (e : ChanEnd) : (cSend v fl r).ends e = v.ends e := by
  cases r <;> cases e <;> rfl

theorem cSend_setEnds (v : CV) (fl : Bool) (r : Req) (e : ChanEnd) (m) : cSend (v.setEnds e m) fl r = (cSend v fl r).setEnds e m := by
  cases r <;> cases e <;> rfl

theorem cRecv_cSend_comm (v : CV) (fl : Bool) (r : Req) (m : Rsp) (h : ∀ k n, reqKeyS r = some (k, n) → strictKey m ≠ some (k, n)) :
    cRecv (cSend v fl r) m = (cRecv v m).map (cSend · fl r) := by
  cases m
  case createChannelReply n' ck =>
    cases r <;> (try (simp only [cSend]; cases cRecv v (.createChannelReply n' ck) <;> rfl))
    case createChannel n e cap =>
      have hne : n ≠ n' := by intro e'; subst e'; exact h _ _ rfl rfl
      simp only [cRecv, cSend, takeAL_insert_ne _ _ hne]
      cases takeAL n' v.create with
      | none => rfl
      | some p => obtain ⟨e', m'⟩ := p; cases e' <;> rfl
    case closeChannelEnd n ck' e =>
      simp only [cRecv, cSend]
      cases takeAL n' v.create with
      | none => rfl
      | some p => obtain ⟨e', m'⟩ := p; cases e' <;> rfl
    case claimChannelEnd n ck' e cap =>
      simp only [cRecv, cSend]
      cases takeAL n' v.create with
      | none => rfl
      | some p => obtain ⟨e', m'⟩ := p; cases e' <;> rfl
  case closeChannelEndReply n' rr =>
    cases r <;> (try (simp only [cSend]; cases cRecv v (.closeChannelEndReply n' rr) <;> rfl))
    case closeChannelEnd n ck' e =>
      have hne : n ≠ n' := by intro e'; subst e'; exact h _ _ rfl rfl
      simp only [cRecv, cSend, takeAL_insert_ne _ _ hne]
      cases takeAL n' v.close with
      | none => rfl
      | some p =>
        obtain ⟨req, m'⟩ := p
        simp only [Option.map_some]
        cases hcl : req.claimed <;> simp only [hcl, Bool.false_eq_true, ↓reduceIte, Option.map_some] <;> (try rfl)
        cases he : req.e <;> rfl
    case createChannel n e cap =>
      simp only [cRecv, cSend]
      cases takeAL n' v.close with
      | none => rfl
      | some p =>
        obtain ⟨req, m'⟩ := p
        cases hcl : req.claimed <;> simp only [hcl, Bool.false_eq_true, ↓reduceIte, Option.map_some] <;> (try rfl)
        cases he : req.e <;> rfl
    case claimChannelEnd n ck' e cap =>
      simp only [cRecv, cSend]
      cases takeAL n' v.close with
      | none => rfl
      | some p =>
        obtain ⟨req, m'⟩ := p
        cases hcl : req.claimed <;> simp only [hcl, Bool.false_eq_true, ↓reduceIte, Option.map_some] <;> (try rfl)
        cases he : req.e <;> rfl
  case claimChannelEndReply n' rr =>
    cases r <;> (try (simp only [cSend]; cases cRecv v (.claimChannelEndReply n' rr) <;> rfl))
    case claimChannelEnd n ck' e cap =>
      have hne : n ≠ n' := by intro e'; subst e'; exact h _ _ rfl rfl
      simp only [cRecv, cSend, takeAL_insert_ne _ _ hne]
      cases takeAL n' v.claim with
      | none => rfl
      | some p =>
        obtain ⟨⟨e', ck''⟩, m'⟩ := p
        cases e' <;> cases rr <;> rfl
    case createChannel n e cap =>
      simp only [cRecv, cSend]
      cases takeAL n' v.claim with
      | none => rfl
      | some p =>
        obtain ⟨⟨e', ck''⟩, m'⟩ := p
        cases e' <;> cases rr <;> rfl
    case closeChannelEnd n ck' e =>
      simp only [cRecv, cSend]
      cases takeAL n' v.claim with
      | none => rfl
      | some p =>
        obtain ⟨⟨e', ck''⟩, m'⟩ := p
        cases e' <;> cases rr <;> rfl
  case channelEndClosed ck e =>
    simp only [cRecv, cSend_ends]
    split <;> simp [cSend_setEnds]
  case channelEndClaimed ck e cap =>
    simp only [cRecv, cSend_ends]
    split <;> simp [cSend_setEnds]
  case itemReceived ck p =>
    have : (cSend v fl r).receivers = v.receivers := by cases r <;> rfl
    simp only [cRecv, this]; split <;> rfl
  case addChannelCapacity ck n =>
    have : (cSend v fl r).senders = v.senders := by cases r <;> rfl
    simp only [cRecv, this]; split <;> rfl
  all_goals rfl

theorem cDrain_cSend_comm (fl : Bool) (r : Req) : ∀ (ms : List Rsp) (v : CV),
    (∀ m ∈ ms, ∀ k n, reqKeyS r = some (k, n) → strictKey m ≠ some (k, n)) →
    cDrain (cSend v fl r) ms = (cDrain v ms).map (cSend · fl r) := by
  intro ms
  induction ms with
  | nil => intro v _; rfl
  | cons m ms ih =>
    intro v h
    simp only [cDrain]
    rw [cRecv_cSend_comm v fl r m (h m (by simp))]
    cases cRecv v m with
    | none => rfl
    | some v' => exact ih v' (fun m' hm' => h m' (by simp [hm']))

end Aldrin.Client
