/-
The serial maps of the client model hold exactly the requests that are on their way: a serial is in the map of
its kind from the moment the request is sent until the reply has been handled.
-/
import Aldrin.Model.Client

namespace Aldrin.Client
open Aldrin.Broker

/-- The request kinds whose reply the client refuses when it does not know the serial. -/
inductive SKind where
  | createObject | createService | createChannel | closeChannelEnd | claimChannelEnd | sync
  | createBusListener | destroyBusListener | startBusListener | stopBusListener
  | queryServiceInfo | queryServiceVersion | subscribeEvent | subscribeService
  | subscribeAllEvents | unsubscribeAllEvents | queryIntrospection
  deriving DecidableEq, Repr

def pendingOf (s : CSt) : SKind → List Nat
  | .createObject => s.createObject
  | .createService => s.createService
  | .createChannel => AL.keys s.createChannel
  | .closeChannelEnd => AL.keys s.closeChannelEnd
  | .claimChannelEnd => AL.keys s.claimChannelEnd
  | .sync => s.sync
  | .createBusListener => s.createBusListener
  | .destroyBusListener => AL.keys s.destroyBusListener
  | .startBusListener => AL.keys s.startBusListener
  | .stopBusListener => AL.keys s.stopBusListener
  | .queryServiceInfo => s.queryServiceInfo
  | .queryServiceVersion => s.queryServiceVersion
  | .subscribeEvent => s.subscribeEvent
  | .subscribeService => s.subscribeService
  | .subscribeAllEvents => s.subscribeAllEvents
  | .unsubscribeAllEvents => s.unsubscribeAllEvents
  | .queryIntrospection => s.queryIntrospection

/-- kind and serial of a request that will be answered under its serial -/
def reqKey : Req → Option (SKind × Nat)
  | .createObject n _ => some (.createObject, n)
  | .createService n _ _ _ => some (.createService, n)
  | .createService2 n _ _ _ => some (.createService, n)
  | .subscribeEvent (some n) _ _ => some (.subscribeEvent, n)
  | .queryServiceVersion n _ => some (.queryServiceVersion, n)
  | .queryServiceInfo n _ => some (.queryServiceInfo, n)
  | .subscribeService n _ => some (.subscribeService, n)
  | .subscribeAllEvents (some n) _ => some (.subscribeAllEvents, n)
  | .unsubscribeAllEvents (some n) _ => some (.unsubscribeAllEvents, n)
  | .createChannel n _ _ => some (.createChannel, n)
  | .closeChannelEnd n _ _ => some (.closeChannelEnd, n)
  | .claimChannelEnd n _ _ _ => some (.claimChannelEnd, n)
  | .sync n => some (.sync, n)
  | .createBusListener n => some (.createBusListener, n)
  | .destroyBusListener n _ => some (.destroyBusListener, n)
  | .startBusListener n _ _ => some (.startBusListener, n)
  | .stopBusListener n _ => some (.stopBusListener, n)
  | .queryIntrospection n _ => some (.queryIntrospection, n)
  | _ => none

/-- kind and serial of a reply -/
def rspKey : Rsp → Option (SKind × Nat)
  | .createObjectReply n _ => some (.createObject, n)
  | .createServiceReply n _ => some (.createService, n)
  | .subscribeEventReply n _ => some (.subscribeEvent, n)
  | .queryServiceVersionReply n _ => some (.queryServiceVersion, n)
  | .queryServiceInfoReply n _ => some (.queryServiceInfo, n)
  | .subscribeServiceReply n _ => some (.subscribeService, n)
  | .subscribeAllEventsReply n _ => some (.subscribeAllEvents, n)
  | .unsubscribeAllEventsReply n _ => some (.unsubscribeAllEvents, n)
  | .createChannelReply n _ => some (.createChannel, n)
  | .closeChannelEndReply n _ => some (.closeChannelEnd, n)
  | .claimChannelEndReply n _ => some (.claimChannelEnd, n)
  | .syncReply n => some (.sync, n)
  | .createBusListenerReply n _ => some (.createBusListener, n)
  | .destroyBusListenerReply n _ => some (.destroyBusListener, n)
  | .startBusListenerReply n _ => some (.startBusListener, n)
  | .stopBusListenerReply n _ => some (.stopBusListener, n)
  | .queryIntrospectionReply n _ => some (.queryIntrospection, n)
  | _ => none

/-! ### list facts -/

theorem mem_sinsert {a x : Nat} {l : List Nat} : x ∈ sinsert a l ↔ x ∈ l ∨ x = a := by
  unfold sinsert
  split
  · rename_i h
    simp only [List.contains_iff_mem] at h
    constructor
    · exact Or.inl
    · rintro (h' | rfl) <;> assumption
  · simp

theorem mem_sremove {a x : Nat} {l : List Nat} : x ∈ sremove a l ↔ x ∈ l ∧ x ≠ a := by
  simp [sremove]

theorem mem_keys_insert {V : Type} {k x : Nat} {v : V} {m : List (Nat × V)} :
    x ∈ AL.keys (AL.insert k v m) ↔ x ∈ AL.keys m ∨ x = k := by
  induction m with
  | nil => simp [AL.insert, AL.keys]
  | cons p m ih =>
    obtain ⟨k', v'⟩ := p
    unfold AL.insert
    split
    · rename_i h; subst h
      simp only [AL.keys, List.map_cons, List.mem_cons]
      constructor
      · rintro (h | h)
        · exact Or.inr h
        · exact Or.inl (Or.inr h)
      · rintro ((h | h) | h)
        · exact Or.inl h
        · exact Or.inr h
        · exact Or.inl h
    · simp only [AL.keys, List.map_cons, List.mem_cons] at ih ⊢
      rw [ih]
      constructor
      · rintro (h | h | h)
        · exact Or.inl (Or.inl h)
        · exact Or.inl (Or.inr h)
        · exact Or.inr h
      · rintro ((h | h) | h)
        · exact Or.inl h
        · exact Or.inr (Or.inl h)
        · exact Or.inr (Or.inr h)

theorem mem_keys_erase {V : Type} {k x : Nat} {m : List (Nat × V)} :
    x ∈ AL.keys (AL.erase k m) ↔ x ∈ AL.keys m ∧ x ≠ k := by
  simp only [AL.keys, AL.erase, List.mem_map, List.mem_filter, Prod.exists, exists_and_right, exists_eq_right]
  constructor
  · rintro ⟨v, hv, hne⟩
    exact ⟨⟨v, hv⟩, by simpa using hne⟩
  · rintro ⟨⟨v, hv⟩, hne⟩
    exact ⟨v, hv, by simpa using hne⟩

theorem find_some_mem_keys {V : Type} {k : Nat} {v : V} {m : List (Nat × V)} (h : AL.find? k m = some v) : k ∈ AL.keys m := by
  induction m with
  | nil => simp [AL.find?] at h
  | cons p m ih =>
    obtain ⟨k', v'⟩ := p
    unfold AL.find? at h
    split at h
    · rename_i hk; subst hk; simp [AL.keys]
    · simp only [AL.keys, List.map_cons, List.mem_cons]; exact Or.inr (ih h)

theorem find_none_not_mem_keys {V : Type} {k : Nat} {m : List (Nat × V)} (h : AL.find? k m = none) : k ∉ AL.keys m := by
  induction m with
  | nil => simp [AL.keys]
  | cons p m ih =>
    obtain ⟨k', v'⟩ := p
    unfold AL.find? at h
    split at h
    · simp at h
    · rename_i hk
      simp only [AL.keys, List.map_cons, List.mem_cons, not_or]
      exact ⟨fun e => hk e.symm, ih h⟩

theorem take_some {n : Nat} {m m' : List Nat} (h : take n m = some m') : n ∈ m ∧ m' = sremove n m := by
  unfold take at h
  split at h
  · rename_i hc; simp at h; exact ⟨by simpa using hc, h.symm⟩
  · simp at h

theorem take_none {n : Nat} {m : List Nat} (h : take n m = none) : n ∉ m := by
  unfold take at h
  split at h
  · simp at h
  · rename_i hc; simpa using hc

theorem takeAL_some {V : Type} {n : Nat} {m m' : List (Nat × V)} {v : V} (h : takeAL n m = some (v, m')) :
    n ∈ AL.keys m ∧ m' = AL.erase n m := by
  unfold takeAL at h
  cases hf : AL.find? n m with
  | none => simp [hf] at h
  | some w =>
    simp [hf] at h
    exact ⟨find_some_mem_keys hf, h.2.symm⟩

theorem takeAL_none {V : Type} {n : Nat} {m : List (Nat × V)} (h : takeAL n m = none) : n ∉ AL.keys m := by
  unfold takeAL at h
  cases hf : AL.find? n m with
  | none => exact find_none_not_mem_keys hf
  | some w => simp [hf] at h

end Aldrin.Client
