/-
Bus-listener agreement in the composed system: what the broker puts into a client's queue about its listeners
(replies to the four listener requests, tagged created-events, the end-of-current marker) is accepted by the
client when it gets there, in every interleaving.
-/
import Aldrin.Lemmas.Client.Agreement
import Aldrin.Lemmas.Client.ListenerView
import Aldrin.Lemmas.Broker.StepParts

namespace Aldrin.System
open Aldrin.Broker Aldrin.Client

def stOf (s : Sys) : St := ⟨s.b, s.w, []⟩

/-- the client's listener book-keeping once it has handled everything that is on its way to it, against the
broker's listener table, and against the listener requests that are on their way to the broker -/
structure LRel (b : St) (c : ConnId) (F : LSt) (up : List Req) : Prop where
  tbl : ∀ ck l, AL.find? ck b.b.listeners = some l → l.conn = c →
    ∃ fl, AL.find? ck F.listeners = some fl ∧ fl.scope.isSome = l.scope.isSome
  create : ∀ n, Req.createBusListener n ∈ up → n ∈ F.create
  destroy : ∀ n ck, Req.destroyBusListener n ck ∈ up → AL.find? n F.destroy = some ck
  start : ∀ n ck sc, Req.startBusListener n ck sc ∈ up → AL.find? n F.start = some (ck, sc)
  stop : ∀ n ck, Req.stopBusListener n ck ∈ up → AL.find? n F.stop = some ck

def LLinkInv (b : St) (c : ConnId) (l : Link) : Prop :=
  ∃ F, lDrain (lview l.mon) l.down = some F ∧ (aliveB b c = true → LRel b c F l.up)

structure LSysInv (s : Sys) : Prop where
  links : ∀ c l, s.links c = some l → LLinkInv (stOf s) c l ∧ c ∈ s.used
  owners : ∀ ck l, AL.find? ck s.b.listeners = some l → l.conn ∈ s.used

/-! ### what reaches one connection -/

theorem isL_strict {m : Rsp} (h : isL m = true) : ((strictKey m).isSome || (tagOf m).isSome) = true := by
  cases m <;> simp only [isL, Bool.false_eq_true] at h <;> (try rfl)
  case emitBusEvent o _ => cases o <;> simp_all [isL]

theorem lDrain_delivered_sf (F : LSt) (out : List Out) (c : ConnId) :
    lDrain F (delivered out c) = lDrain F (delivered (sf out) c) := by
  induction out generalizing F with
  | nil => rfl
  | cons o out ih =>
    have e1 : delivered (o :: out) c = (if o.to = c then [o.msg] else []) ++ delivered out c := by
      by_cases hc : o.to = c <;> simp [delivered, List.filter_cons, hc]
    have e2 : delivered (sf (o :: out)) c = (if o.strict = true ∧ o.to = c then [o.msg] else []) ++ delivered (sf out) c := by
      by_cases hs : o.strict = true <;> by_cases hc : o.to = c <;> simp [delivered, sf, List.filter_cons, hc, hs]
    rw [e1, e2, lDrain_append, lDrain_append]
    by_cases hs : o.strict = true <;> by_cases hc : o.to = c <;> simp only [hs, hc, ↓reduceIte, and_self, and_false, false_and, and_true]
    · simp only [lDrain]
      cases lRecv F o.msg with
      | none => rfl
      | some F' => simp only [Option.bind_some]; exact ih F'
    · simp only [lDrain, Option.bind_some]; exact ih F
    · have hnl : isL o.msg = false := by
        cases hl : isL o.msg with
        | false => rfl
        | true => have := isL_strict hl; simp [Out.strict] at hs; simp [hs] at this
      simp only [lDrain, lRecv_not_isL hnl, Option.bind_some]; exact ih F
    · simp only [lDrain, Option.bind_some]; exact ih F

theorem delivered_other {t : List Out} {c x : ConnId} (h : ∀ o ∈ t, o.to = c) (hx : x ≠ c) : delivered t x = [] := by
  induction t with
  | nil => rfl
  | cons o t ih =>
    have ho := h o (by simp)
    have := ih (fun y hy => h y (by simp [hy]))
    have hne : ¬ o.to = x := by rw [ho]; exact fun e => hx e.symm
    simp only [delivered, List.filter_cons, hne, decide_false, Bool.false_eq_true, ↓reduceIte] at this ⊢
    exact this

theorem delivered_all {t : List Out} {c : ConnId} (h : ∀ o ∈ t, o.to = c) : delivered t c = t.map (·.msg) := by
  induction t with
  | nil => rfl
  | cons o t ih =>
    have ho := h o (by simp)
    have := ih (fun y hy => h y (by simp [hy]))
    simp only [delivered, List.filter_cons, ho, decide_true, ↓reduceIte, List.map_cons] at this ⊢
    rw [this]

/-! ### framing -/

theorem LLinkInv_frame {b b' : St} {x : ConnId} {l : Link} {extra : List Rsp} (h : LLinkInv b x l)
    (ha : aliveB b' x = true → aliveB b x = true)
    (ht : ∀ ck li, AL.find? ck b'.b.listeners = some li → li.conn = x → AL.find? ck b.b.listeners = some li)
    (he : ∀ F, lDrain F extra = some F) : LLinkInv b' x { l with down := l.down ++ extra } := by
  obtain ⟨F, hF, hr⟩ := h
  refine ⟨F, ?_, ?_⟩
  · simp only [lDrain_append, hF, Option.bind_some, he]
  · intro hal
    have r := hr (ha hal)
    exact ⟨fun ck li hl hc => r.tbl ck li (ht ck li hl hc) hc, r.create, r.destroy, r.start, r.stop⟩

theorem lDrain_nil_of_sf {out : List Out} {x : ConnId} (h : delivered (sf out) x = []) (F : LSt) :
    lDrain F (delivered out x) = some F := by
  rw [lDrain_delivered_sf, h]; rfl

/-- two requests on their way from one client do not share kind and serial -/
theorem up_serial_unique {l : Link} {r : Req} {rest : List Req} (hu : l.up = r :: rest) (h : LinkInv l)
    {key : Key} (hk : reqKeyS r = some key) : ∀ r' ∈ rest, reqKeyS r' ≠ some key := by
  intro r' hr' hk'
  have h1 := (h key).1
  have hm : key ∈ rest.filterMap reqKeyS := List.mem_filterMap.mpr ⟨r', hr', hk'⟩
  have hc := List.count_pos_iff.mpr hm
  simp only [cnt, keysUp, hu, List.filterMap_cons, hk, List.count_cons, beq_self_eq_true, ↓reduceIte] at h1
  omega

/-! ### the requester's link -/

def isListenerKind : SKind → Bool
  | .createBusListener | .destroyBusListener | .startBusListener | .stopBusListener => true
  | _ => false

theorem isL_kind {m : Rsp} {k : SKind} {n : Nat} (h : isL m = true) (hk : strictKey m = some (k, n)) : isListenerKind k = true := by
  cases m <;> simp only [isL, Bool.false_eq_true] at h <;> simp [strictKey, rspKey] at hk <;>
    (try (obtain ⟨rfl, _⟩ := hk; rfl))

theorem listenerReq_of_kind {r : Req} {k : SKind} {n : Nat} (hk : reqKeyS r = some (k, n)) (h : isListenerKind k = true) :
    r.isListenerReq = true := by
  cases r <;> (try rfl) <;> (try (rename_i o _ _; cases o)) <;> (try (rename_i o _; cases o)) <;>
    simp [reqKeyS, reqKey] at hk <;> (obtain ⟨rfl, _⟩ := hk) <;> simp [isListenerKind] at h

theorem LRel.sub {b : St} {c : ConnId} {F : LSt} {up up' : List Req} (h : LRel b c F up) (hs : ∀ r ∈ up', r ∈ up) : LRel b c F up' :=
  ⟨h.tbl, fun n hn => h.create n (hs _ hn), fun n ck hn => h.destroy n ck (hs _ hn), fun n ck sc hn => h.start n ck sc (hs _ hn),
    fun n ck hn => h.stop n ck (hs _ hn)⟩

theorem LRel.tbl_sub {b b' : St} {c : ConnId} {F : LSt} {up : List Req} (h : LRel b c F up)
    (ht : ∀ ck li, AL.find? ck b'.b.listeners = some li → li.conn = c → AL.find? ck b.b.listeners = some li) : LRel b' c F up :=
  ⟨fun ck li hl hc => h.tbl ck li (ht ck li hl hc) hc, h.create, h.destroy, h.start, h.stop⟩

theorem LLinkInv_handle_plain {b s1 b' : St} {ok : Bool} {c : ConnId} {l : Link} {r : Req} {rest : List Req} {out : List Out}
    (hu : l.up = r :: rest) (hnl : r.isListenerReq = false)
    (hm : handleMessage b c r = .ok (s1, ok)) (hb0 : b.out = [])
    (hsh : LShrink s1 b') (hal : AliveLe s1 b') (hout : sf out = sf s1.out)
    (h : LLinkInv b c l) : LLinkInv b' c { l with up := rest, down := l.down ++ delivered out c } := by
  obtain ⟨F, hF, hr⟩ := h
  have hone := handleMessage_rep_one (by intro n ck sc e; subst e; simp [Req.isListenerReq] at hnl) hm
  have heq := handleMessage_listeners_eq hnl hm
  have hdr : lDrain F (delivered out c) = some F := by
    rw [lDrain_delivered_sf, hout]
    rcases hone with h0 | ⟨o, h1, hto, hk, hsome⟩
    · rw [h0, hb0]; rfl
    · rw [h1, hb0]
      simp only [sf_nil, List.nil_append, delivered, List.filter_cons, hto, decide_true, ↓reduceIte, List.filter_nil,
        List.map_cons, List.map_nil, lDrain]
      have : isL o.msg = false := by
        cases hl : isL o.msg with
        | false => rfl
        | true =>
          obtain ⟨⟨k, n⟩, hkk⟩ := Option.isSome_iff_exists.mp hsome
          have := listenerReq_of_kind hkk (isL_kind hl (hkk ▸ hk))
          rw [hnl] at this; simp at this
      rw [lRecv_not_isL this]
  refine ⟨F, by simp only [lDrain_append, hF, Option.bind_some, hdr], ?_⟩
  intro ha
  have ha0 : aliveB b c = true := handleMessage_alive hm c (hal c ha)
  refine ((hr ha0).sub (by intro r' hr'; rw [hu]; simp [hr'])).tbl_sub ?_
  intro ck li hl _
  rw [← heq]; exact hsh ck li hl

theorem LLinkInv_handle_upd {b s1 b' : St} {ok : Bool} {c : ConnId} {l : Link} {r : Req} {rest : List Req} {out : List Out}
    {ck : Cookie} {f : Listener → Listener} (hu : l.up = r :: rest)
    (hm : updListener b c ck f = .ok (s1, ok)) (hf : ∀ x, (f x).scope = x.scope) (hb0 : b.out = [])
    (hsh : LShrink s1 b') (hal0 : aliveB b' c = true → aliveB b c = true) (hout : sf out = sf s1.out)
    (h : LLinkInv b c l) : LLinkInv b' c { l with up := rest, down := l.down ++ delivered out c } := by
  obtain ⟨F, hF, hr⟩ := h
  obtain ⟨ho, hl⟩ := updListener_spec hm
  have hdr : lDrain F (delivered out c) = some F := by
    rw [lDrain_delivered_sf, hout, ho, hb0]; rfl
  refine ⟨F, by simp only [lDrain_append, hF, Option.bind_some, hdr], ?_⟩
  intro ha
  have r0 := (hr (hal0 ha)).sub (up' := rest) (by intro r' hr'; rw [hu]; simp [hr'])
  refine ⟨?_, r0.create, r0.destroy, r0.start, r0.stop⟩
  intro ck' li hli hc
  have h1 := hsh ck' li hli
  rcases hl with hl | ⟨l0, hl0, hc0, hl⟩
  · rw [hl] at h1; exact r0.tbl ck' li h1 hc
  · rw [hl, AL.find?_insert] at h1
    split at h1
    · rename_i he; subst he
      simp only [Option.some.injEq] at h1; subst h1
      obtain ⟨fl, hfl, hs⟩ := r0.tbl ck l0 hl0 hc0
      exact ⟨fl, hfl, by rw [hs, hf]⟩
    · exact r0.tbl ck' li h1 hc

theorem mem_sremove_ne {n n' : Nat} {m : List Nat} (h : n' ∈ m) (hne : n' ≠ n) : n' ∈ sremove n m := by
  simp only [sremove, List.mem_filter]; exact ⟨h, by simpa using hne⟩

theorem LLinkInv_handle_create {b s1 b' : St} {ok : Bool} {c : ConnId} {l : Link} {rest : List Req} {out : List Out} {n : Nat}
    (hu : l.up = .createBusListener n :: rest) (hser : LinkInv l)
    (hm : createBusListener b c n = .ok (s1, ok)) (hb0 : b.out = [])
    (hsh : LShrink s1 b') (hal0 : aliveB b' c = true → aliveB b c = true) (hout : sf out = sf s1.out)
    (h : LLinkInv b c l) : LLinkInv b' c { l with up := rest, down := l.down ++ delivered out c } := by
  obtain ⟨F, hF, hr⟩ := h
  have huniq := up_serial_unique hu hser (key := (.createBusListener, n)) rfl
  rcases createBusListener_spec hm with ⟨ho, hl⟩ | ⟨ho, hl, hlive⟩
  · have hdr : lDrain F (delivered out c) = some F := by
      rw [lDrain_delivered_sf, hout, ho, hb0]; rfl
    refine ⟨F, by simp only [lDrain_append, hF, Option.bind_some, hdr], ?_⟩
    intro ha
    refine ((hr (hal0 ha)).sub (by intro r' hr'; rw [hu]; simp [hr'])).tbl_sub ?_
    intro ck li hli _
    rw [← hl]; exact hsh ck li hli
  · have r0 := hr hlive
    have hn : n ∈ F.create := r0.create n (by rw [hu]; simp)
    have hdr : lDrain F (delivered out c) =
        some { F with create := sremove n F.create, listeners := AL.insert b.b.nextCookie {} F.listeners } := by
      rw [lDrain_delivered_sf, hout, ho, hb0]
      simp [delivered, lDrain, lRecv, take, hn]
    refine ⟨{ F with create := sremove n F.create, listeners := AL.insert b.b.nextCookie {} F.listeners },
      by simp only [lDrain_append, hF, Option.bind_some, hdr], ?_⟩
    intro _
    refine ⟨?_, ?_, ?_, ?_, ?_⟩
    · intro ck li hli hc
      have h1 := hsh ck li hli
      rw [hl, AL.find?_insert] at h1
      simp only [AL.find?_insert]
      split at h1
      · rename_i he; subst he
        simp only [Option.some.injEq] at h1; subst h1
        exact ⟨{}, by simp, rfl⟩
      · rename_i he
        simp only [he, ↓reduceIte]
        exact r0.tbl ck li h1 hc
    · intro n' hn'
      have hne : n' ≠ n := by
        intro e; subst e
        exact huniq _ hn' rfl
      exact mem_sremove_ne (r0.create n' (by rw [hu]; simp [hn'])) hne
    · intro n' ck hn'; exact r0.destroy n' ck (by rw [hu]; simp [hn'])
    · intro n' ck sc hn'; exact r0.start n' ck sc (by rw [hu]; simp [hn'])
    · intro n' ck hn'; exact r0.stop n' ck (by rw [hu]; simp [hn'])

theorem LLinkInv_handle_destroy {b s1 b' : St} {ok : Bool} {c : ConnId} {l : Link} {rest : List Req} {out : List Out} {n : Nat} {ck : Cookie}
    (hu : l.up = .destroyBusListener n ck :: rest) (hser : LinkInv l)
    (hm : destroyBusListener b c n ck = .ok (s1, ok)) (hb0 : b.out = [])
    (hsh : LShrink s1 b') (hal0 : aliveB b' c = true → aliveB b c = true) (hout : sf out = sf s1.out)
    (h : LLinkInv b c l) : LLinkInv b' c { l with up := rest, down := l.down ++ delivered out c } := by
  obtain ⟨F, hF, hr⟩ := h
  have huniq := up_serial_unique hu hser (key := (.destroyBusListener, n)) rfl
  have hpend : ∀ (r0 : LRel b c F l.up) (F' : LSt), F'.create = F.create → F'.start = F.start → F'.stop = F.stop →
      F'.destroy = AL.erase n F.destroy →
      (∀ ck' li, AL.find? ck' b'.b.listeners = some li → li.conn = c →
        ∃ fl, AL.find? ck' F'.listeners = some fl ∧ fl.scope.isSome = li.scope.isSome) → LRel b' c F' rest := by
    intro r0 F' e1 e2 e3 e4 ht
    refine ⟨ht, ?_, ?_, ?_, ?_⟩
    · intro n' hn'; rw [e1]; exact r0.create n' (by rw [hu]; simp [hn'])
    · intro n' ck' hn'
      have hne : n ≠ n' := by
        intro e; subst e
        exact huniq _ hn' rfl
      rw [e4, AL.find?_erase_ne _ hne]
      exact r0.destroy n' ck' (by rw [hu]; simp [hn'])
    · intro n' ck' sc hn'; rw [e2]; exact r0.start n' ck' sc (by rw [hu]; simp [hn'])
    · intro n' ck' hn'; rw [e3]; exact r0.stop n' ck' (by rw [hu]; simp [hn'])
  rcases destroyBusListener_spec hm with ⟨ho, hl⟩ | ⟨ho, hl, hlive⟩ | ⟨ho, ⟨l0, hl0, hc0⟩, hshr, hgone, hlive⟩
  · have hdr : lDrain F (delivered out c) = some F := by
      rw [lDrain_delivered_sf, hout, ho, hb0]; rfl
    refine ⟨F, by simp only [lDrain_append, hF, Option.bind_some, hdr], ?_⟩
    intro ha
    refine ((hr (hal0 ha)).sub (by intro r' hr'; rw [hu]; simp [hr'])).tbl_sub ?_
    intro ck' li hli _
    rw [← hl]; exact hsh ck' li hli
  · have r0 := hr hlive
    have hn : AL.find? n F.destroy = some ck := r0.destroy n ck (by rw [hu]; simp)
    have hdr : lDrain F (delivered out c) = some { F with destroy := AL.erase n F.destroy } := by
      rw [lDrain_delivered_sf, hout, ho, hb0]
      simp [delivered, lDrain, lRecv, takeAL, hn]
    refine ⟨{ F with destroy := AL.erase n F.destroy }, by simp only [lDrain_append, hF, Option.bind_some, hdr], ?_⟩
    intro _
    refine hpend r0 _ rfl rfl rfl rfl ?_
    intro ck' li hli hc
    have h1 := hsh ck' li hli
    rw [hl] at h1
    exact r0.tbl ck' li h1 hc
  · have r0 := hr hlive
    have hn : AL.find? n F.destroy = some ck := r0.destroy n ck (by rw [hu]; simp)
    have hdr : lDrain F (delivered out c) =
        some { F with destroy := AL.erase n F.destroy, listeners := AL.erase ck F.listeners } := by
      rw [lDrain_delivered_sf, hout, ho, hb0]
      simp [delivered, lDrain, lRecv, takeAL, hn]
    refine ⟨{ F with destroy := AL.erase n F.destroy, listeners := AL.erase ck F.listeners },
      by simp only [lDrain_append, hF, Option.bind_some, hdr], ?_⟩
    intro _
    refine hpend r0 _ rfl rfl rfl rfl ?_
    intro ck' li hli hc
    have h1 := hsh ck' li hli
    have hne : ck ≠ ck' := by
      intro e; subst e; rw [hgone] at h1; simp at h1
    simp only [AL.find?_erase_ne _ hne]
    exact r0.tbl ck' li (hshr ck' li h1) hc

theorem LLinkInv_handle_stop {b s1 b' : St} {ok : Bool} {c : ConnId} {l : Link} {rest : List Req} {out : List Out} {n : Nat} {ck : Cookie}
    (hu : l.up = .stopBusListener n ck :: rest) (hser : LinkInv l)
    (hm : stopBusListener b c n ck = .ok (s1, ok)) (hb0 : b.out = [])
    (hsh : LShrink s1 b') (hal0 : aliveB b' c = true → aliveB b c = true) (hout : sf out = sf s1.out)
    (h : LLinkInv b c l) : LLinkInv b' c { l with up := rest, down := l.down ++ delivered out c } := by
  obtain ⟨F, hF, hr⟩ := h
  have huniq := up_serial_unique hu hser (key := (.stopBusListener, n)) rfl
  have hpend : ∀ (r0 : LRel b c F l.up) (F' : LSt), F'.create = F.create → F'.start = F.start → F'.destroy = F.destroy →
      F'.stop = AL.erase n F.stop →
      (∀ ck' li, AL.find? ck' b'.b.listeners = some li → li.conn = c →
        ∃ fl, AL.find? ck' F'.listeners = some fl ∧ fl.scope.isSome = li.scope.isSome) → LRel b' c F' rest := by
    intro r0 F' e1 e2 e3 e4 ht
    refine ⟨ht, ?_, ?_, ?_, ?_⟩
    · intro n' hn'; rw [e1]; exact r0.create n' (by rw [hu]; simp [hn'])
    · intro n' ck' hn'; rw [e3]; exact r0.destroy n' ck' (by rw [hu]; simp [hn'])
    · intro n' ck' sc hn'; rw [e2]; exact r0.start n' ck' sc (by rw [hu]; simp [hn'])
    · intro n' ck' hn'
      have hne : n ≠ n' := by
        intro e; subst e
        exact huniq _ hn' rfl
      rw [e4, AL.find?_erase_ne _ hne]
      exact r0.stop n' ck' (by rw [hu]; simp [hn'])
  rcases stopBusListener_spec hm with ⟨ho, hl⟩ | ⟨rr, hrr, ho, hl, hlive⟩ | ⟨l0, hl0, hc0, hs0, hl, ho, hlive⟩
  · have hdr : lDrain F (delivered out c) = some F := by
      rw [lDrain_delivered_sf, hout, ho, hb0]; rfl
    refine ⟨F, by simp only [lDrain_append, hF, Option.bind_some, hdr], ?_⟩
    intro ha
    rcases hl with hl | hdead
    · refine ((hr (hal0 ha)).sub (by intro r' hr'; rw [hu]; simp [hr'])).tbl_sub ?_
      intro ck' li hli _
      rw [← hl]; exact hsh ck' li hli
    · rw [hal0 ha] at hdead; simp at hdead
  · have r0 := hr hlive
    have hn : AL.find? n F.stop = some ck := r0.stop n ck (by rw [hu]; simp)
    have hdr : lDrain F (delivered out c) = some { F with stop := AL.erase n F.stop } := by
      rw [lDrain_delivered_sf, hout, ho, hb0]
      simp [delivered, lDrain, lRecv, takeAL, hn, hrr]
    refine ⟨{ F with stop := AL.erase n F.stop }, by simp only [lDrain_append, hF, Option.bind_some, hdr], ?_⟩
    intro _
    refine hpend r0 _ rfl rfl rfl rfl ?_
    intro ck' li hli hc
    have h1 := hsh ck' li hli
    rw [hl] at h1
    exact r0.tbl ck' li h1 hc
  · have r0 := hr hlive
    have hn : AL.find? n F.stop = some ck := r0.stop n ck (by rw [hu]; simp)
    obtain ⟨fl, hfl, hfs⟩ := r0.tbl ck l0 hl0 hc0
    have hfs' : fl.scope.isSome = true := by rw [hfs]; exact hs0
    have hdr : lDrain F (delivered out c) =
        some { F with stop := AL.erase n F.stop, listeners := AL.insert ck { fl with scope := none } F.listeners } := by
      rw [lDrain_delivered_sf, hout, ho, hb0]
      simp [delivered, lDrain, lRecv, takeAL, hn, hfl, hfs']
    refine ⟨{ F with stop := AL.erase n F.stop, listeners := AL.insert ck { fl with scope := none } F.listeners },
      by simp only [lDrain_append, hF, Option.bind_some, hdr], ?_⟩
    intro _
    refine hpend r0 _ rfl rfl rfl rfl ?_
    intro ck' li hli hc
    have h1 := hsh ck' li hli
    rw [hl, AL.find?_insert] at h1
    simp only [AL.find?_insert]
    split at h1
    · rename_i he; subst he
      simp only [Option.some.injEq] at h1; subst h1
      exact ⟨{ fl with scope := none }, by simp, rfl⟩
    · rename_i he
      simp only [he, ↓reduceIte]
      exact r0.tbl ck' li h1 hc

theorem lDrain_current {F : LSt} {ck : Cookie} {x : Lsn} {cur : List Rsp} (hx : AL.find? ck F.listeners = some x)
    (ha : ((x.scope.map Scope.includesCurrent).getD false && !x.currentFinished) = true)
    (hc : ∀ m ∈ cur, ∃ e, m = Rsp.emitBusEvent (some ck) e) : lDrain F cur = some F := by
  induction cur with
  | nil => rfl
  | cons m cur ih =>
    obtain ⟨e, rfl⟩ := hc m (by simp)
    simp only [lDrain, lRecv, hx, ha, ↓reduceIte]
    exact ih (fun m' hm' => hc m' (by simp [hm']))

theorem includesCurrent_of_ne_new {sc : Scope} (h : sc ≠ .new) : sc.includesCurrent = true := by
  cases sc <;> simp_all [Scope.includesCurrent]

theorem LLinkInv_handle_start {b s1 b' : St} {ok : Bool} {c : ConnId} {l : Link} {rest : List Req} {out : List Out} {n : Nat} {ck : Cookie} {sc : Scope}
    (hu : l.up = .startBusListener n ck sc :: rest) (hser : LinkInv l)
    (hm : startBusListener b c n ck sc = .ok (s1, ok)) (hb0 : b.out = [])
    (hsh : LShrink s1 b') (hal0 : aliveB b' c = true → aliveB b c = true) (hout : sf out = sf s1.out)
    (h : LLinkInv b c l) : LLinkInv b' c { l with up := rest, down := l.down ++ delivered out c } := by
  obtain ⟨F, hF, hr⟩ := h
  have huniq := up_serial_unique hu hser (key := (.startBusListener, n)) rfl
  have hpend : ∀ (r0 : LRel b c F l.up) (F' : LSt), F'.create = F.create → F'.stop = F.stop → F'.destroy = F.destroy →
      F'.start = AL.erase n F.start →
      (∀ ck' li, AL.find? ck' b'.b.listeners = some li → li.conn = c →
        ∃ fl, AL.find? ck' F'.listeners = some fl ∧ fl.scope.isSome = li.scope.isSome) → LRel b' c F' rest := by
    intro r0 F' e1 e2 e3 e4 ht
    refine ⟨ht, ?_, ?_, ?_, ?_⟩
    · intro n' hn'; rw [e1]; exact r0.create n' (by rw [hu]; simp [hn'])
    · intro n' ck' hn'; rw [e3]; exact r0.destroy n' ck' (by rw [hu]; simp [hn'])
    · intro n' ck' sc' hn'
      have hne : n ≠ n' := by
        intro e; subst e
        exact huniq _ hn' rfl
      rw [e4, AL.find?_erase_ne _ hne]
      exact r0.start n' ck' sc' (by rw [hu]; simp [hn'])
    · intro n' ck' hn'; rw [e2]; exact r0.stop n' ck' (by rw [hu]; simp [hn'])
  rcases startBusListener_spec hm with ⟨ho, hl⟩ | ⟨rr, hrr, ho, hl, hlive⟩ | ⟨l0, hl0, hc0, hs0, hlive, hl, cur, hcur, ho⟩
  · have hdr : lDrain F (delivered out c) = some F := by
      rw [lDrain_delivered_sf, hout, ho, hb0]; rfl
    refine ⟨F, by simp only [lDrain_append, hF, Option.bind_some, hdr], ?_⟩
    intro ha
    rcases hl with hl | hdead
    · refine ((hr (hal0 ha)).sub (by intro r' hr'; rw [hu]; simp [hr'])).tbl_sub ?_
      intro ck' li hli _
      rw [← hl]; exact hsh ck' li hli
    · rw [hal0 ha] at hdead; simp at hdead
  · have r0 := hr hlive
    have hn : AL.find? n F.start = some (ck, sc) := r0.start n ck sc (by rw [hu]; simp)
    have hdr : lDrain F (delivered out c) = some { F with start := AL.erase n F.start } := by
      rw [lDrain_delivered_sf, hout, ho, hb0]
      simp [delivered, lDrain, lRecv, takeAL, hn, hrr]
    refine ⟨{ F with start := AL.erase n F.start }, by simp only [lDrain_append, hF, Option.bind_some, hdr], ?_⟩
    intro _
    refine hpend r0 _ rfl rfl rfl rfl ?_
    intro ck' li hli hc
    have h1 := hsh ck' li hli
    rw [hl] at h1
    exact r0.tbl ck' li h1 hc
  · have r0 := hr hlive
    have hn : AL.find? n F.start = some (ck, sc) := r0.start n ck sc (by rw [hu]; simp)
    obtain ⟨fl, hfl, hfs⟩ := r0.tbl ck l0 hl0 hc0
    have hfs' : fl.scope.isNone = true := by
      have : fl.scope.isSome = false := by rw [hfs, hs0]; rfl
      cases hsc : fl.scope <;> simp_all
    -- the state after the reply
    let F1 : LSt := { F with start := AL.erase n F.start,
                             listeners := AL.insert ck { scope := some sc, currentFinished := !sc.includesCurrent } F.listeners }
    have h1 : lRecv F (.startBusListenerReply n .ok) = some F1 := by
      simp [lRecv, takeAL, hn, hfl, hfs', F1]
    have htbl : ∀ (F' : LSt) (x : Lsn), (∀ k, AL.find? k F'.listeners = if ck = k then some x else AL.find? k F.listeners) → x.scope = some sc →
        ∀ ck' li, AL.find? ck' b'.b.listeners = some li → li.conn = c →
          ∃ fl, AL.find? ck' F'.listeners = some fl ∧ fl.scope.isSome = li.scope.isSome := by
      intro F' x hF' hx ck' li hli hc
      have h2 := hsh ck' li hli
      rw [hl, AL.find?_insert] at h2
      rw [hF']
      split at h2
      · rename_i he; subst he
        simp only [Option.some.injEq] at h2; subst h2
        exact ⟨x, by simp, by simp [hx]⟩
      · rename_i he
        simp only [he, ↓reduceIte]
        exact r0.tbl ck' li h2 hc
    by_cases hnew : sc = .new
    · have hdr : lDrain F (delivered out c) = some F1 := by
        rw [lDrain_delivered_sf, hout, ho, hb0]
        simp only [sf_nil, List.nil_append, hnew, ↓reduceIte]
        rw [delivered_all (by intro o ho'; simp only [List.mem_singleton] at ho'; subst ho'; rfl)]
        simp only [List.map_cons, List.map_nil, lDrain, h1]
      refine ⟨F1, by simp only [lDrain_append, hF, Option.bind_some, hdr], ?_⟩
      intro _
      exact hpend r0 F1 rfl rfl rfl rfl (htbl F1 { scope := some sc, currentFinished := !sc.includesCurrent } (fun k => by simp [F1, AL.find?_insert]) rfl)
    · have hinc := includesCurrent_of_ne_new hnew
      let F2 : LSt := { F1 with listeners := AL.insert ck { scope := some sc, currentFinished := true } F1.listeners }
      have hall : ∀ o ∈ (⟨c, .startBusListenerReply n .ok, none⟩ : Out) :: (cur ++ [Rsp.busListenerCurrentFinished ck]).map (fun m => (⟨c, m, none⟩ : Out)), o.to = c := by
        intro o ho'
        simp only [List.mem_cons, List.mem_map] at ho'
        rcases ho' with rfl | ⟨m, _, rfl⟩ <;> rfl
      have hdr : lDrain F (delivered out c) = some F2 := by
        rw [lDrain_delivered_sf, hout, ho, hb0]
        simp only [sf_nil, List.nil_append, hnew, ↓reduceIte]
        rw [delivered_all hall]
        simp only [List.map_cons, List.map_map, lDrain, h1]
        have hid : ((fun x : Out => x.msg) ∘ fun m => (⟨c, m, none⟩ : Out)) = id := rfl
        rw [hid, List.map_id, lDrain_append]
        have hx1 : AL.find? ck F1.listeners = some { scope := some sc, currentFinished := !sc.includesCurrent } := by simp [F1]
        rw [lDrain_current hx1 (by simp [hinc]) hcur]
        simp [lDrain, lRecv, hx1, hinc, F2]
      refine ⟨F2, by simp only [lDrain_append, hF, Option.bind_some, hdr], ?_⟩
      intro _
      refine hpend r0 F2 rfl rfl rfl rfl (htbl F2 { scope := some sc, currentFinished := true } ?_ rfl)
      intro k
      simp only [F2, F1, AL.find?_insert]
      split <;> rfl

/-- the link of the connection whose request the broker has just handled -/
theorem LLinkInv_handle {b s1 b' : St} {ok : Bool} {c : ConnId} {l : Link} {r : Req} {rest : List Req} {out : List Out}
    (hu : l.up = r :: rest) (hser : LinkInv l)
    (hm : handleMessage b c r = .ok (s1, ok)) (hb0 : b.out = [])
    (hsh : LShrink s1 b') (hal : AliveLe s1 b') (hout : sf out = sf s1.out)
    (h : LLinkInv b c l) : LLinkInv b' c { l with up := rest, down := l.down ++ delivered out c } := by
  have hal0 : aliveB b' c = true → aliveB b c = true := fun ha => handleMessage_alive hm c (hal c ha)
  by_cases hnl : r.isListenerReq = false
  · exact LLinkInv_handle_plain hu hnl hm hb0 hsh hal hout h
  · cases r <;> simp only [Req.isListenerReq, not_true_eq_false, not_false_eq_true] at hnl <;> simp only [handleMessage] at hm
    case createBusListener n => exact LLinkInv_handle_create hu hser hm hb0 hsh hal0 hout h
    case destroyBusListener n ck => exact LLinkInv_handle_destroy hu hser hm hb0 hsh hal0 hout h
    case startBusListener n ck sc => exact LLinkInv_handle_start hu hser hm hb0 hsh hal0 hout h
    case stopBusListener n ck => exact LLinkInv_handle_stop hu hser hm hb0 hsh hal0 hout h
    case addFilter ck f => exact LLinkInv_handle_upd hu hm (by simp) hb0 hsh hal0 hout h
    case removeFilter ck f => exact LLinkInv_handle_upd hu hm (by simp) hb0 hsh hal0 hout h
    case clearFilters ck => exact LLinkInv_handle_upd hu hm (by simp) hb0 hsh hal0 hout h

/-- every other link during that turn: nothing about listeners reaches it, and its listeners are left alone -/
theorem LLinkInv_bystander {b s1 b' : St} {ok : Bool} {c x : ConnId} {l : Link} {r : Req} {out : List Out} (hx : x ≠ c)
    (hm : handleMessage b c r = .ok (s1, ok)) (hb0 : b.out = [])
    (hsh : LShrink s1 b') (hal : AliveLe s1 b') (hout : sf out = sf s1.out)
    (h : LLinkInv b x l) : LLinkInv b' x { l with down := l.down ++ delivered out x } := by
  refine LLinkInv_frame h (fun ha => handleMessage_alive hm x (hal x ha)) ?_ ?_
  · intro ck li hli hc
    rcases handleMessage_lsub hm ck li (hsh ck li hli) with h1 | h1
    · exact absurd (hc ▸ h1) hx
    · exact h1
  · intro F
    apply lDrain_nil_of_sf
    rw [hout]
    rcases handleMessage_rep hm with h0 | ⟨o, t, h1, hto, _, _, ht⟩
    · rw [h0, hb0]; rfl
    · rw [h1, hb0]
      exact delivered_other (c := c) (by
        intro o' ho'
        simp only [sf_nil, List.nil_append, List.mem_cons] at ho'
        rcases ho' with rfl | ho'
        · exact hto
        · exact (ht o' ho').1) hx

/-! ### the client's own steps -/

theorem lSend_listeners (F : LSt) (r : Req) : (lSend F r).listeners = F.listeners := by
  cases r <;> rfl

theorem up_keys_pending {l : Link} (h : LinkInv l) {r : Req} (hr : r ∈ l.up) {k : SKind} {n : Nat} (hk : reqKeyS r = some (k, n)) :
    n ∈ pendingOf l.mon k := by
  apply (h (k, n)).2
  have : (k, n) ∈ keysUp l := List.mem_filterMap.mpr ⟨r, hr, hk⟩
  have := List.count_pos_iff.mpr this
  simp only [cnt]; omega

theorem fresh_not_pending {mon : CSt} {r : Req} (hf : freshSerial mon r = true) {k : SKind} {n : Nat} (hk : reqKeyS r = some (k, n)) :
    n ∉ pendingOf mon k := by
  have := (reqKeyS_kind hk).2
  simpa [freshSerial, this] using hf

theorem LLinkInv_send {b : St} {c : ConnId} {l : Link} {r : Req} (hser : LinkInv l) (hf : freshSerial l.mon r = true)
    (hdown : ∀ m ∈ l.down, ∀ k n, strictKey m = some (k, n) → n ∈ pendingOf l.mon k)
    (h : LLinkInv b c l) : LLinkInv b c { l with mon := onSend l.mon r, up := l.up ++ [r] } := by
  obtain ⟨F, hF, hr⟩ := h
  refine ⟨lSend F r, ?_, ?_⟩
  · show lDrain (lview (onSend l.mon r)) l.down = some (lSend F r)
    rw [lview_onSend, lDrain_lSend_comm r l.down (lview l.mon) ?_, hF]; rfl
    intro m hm k n hk he
    exact fresh_not_pending hf hk (hdown m hm k n he)
  · intro ha
    have r0 := hr ha
    -- a request that is already on its way keeps its entry: its serial differs from the new one
    have hne : ∀ r' ∈ l.up, ∀ k n n', reqKeyS r' = some (k, n') → reqKeyS r = some (k, n) → n ≠ n' := by
      intro r' hr' k n n' hk' hk e
      subst e
      exact fresh_not_pending hf hk (up_keys_pending hser hr' hk')
    refine ⟨?_, ?_, ?_, ?_, ?_⟩
    · intro ck li hli hc; rw [lSend_listeners]; exact r0.tbl ck li hli hc
    · intro n' hn'
      simp only [List.mem_append, List.mem_singleton] at hn'
      rcases hn' with hn' | hn'
      · have := r0.create n' hn'
        cases r <;> simp only [lSend] <;> (try exact this)
        simp only [mem_sinsert]; exact Or.inl this
      · subst hn'; simp [lSend, mem_sinsert]
    · intro n' ck' hn'
      simp only [List.mem_append, List.mem_singleton] at hn'
      rcases hn' with hn' | hn'
      · have := r0.destroy n' ck' hn'
        cases r <;> simp only [lSend] <;> (try exact this)
        rename_i n ck
        rw [AL.find?_insert_ne _ _ (hne _ hn' .destroyBusListener n n' rfl rfl)]; exact this
      · subst hn'; simp [lSend]
    · intro n' ck' sc' hn'
      simp only [List.mem_append, List.mem_singleton] at hn'
      rcases hn' with hn' | hn'
      · have := r0.start n' ck' sc' hn'
        cases r <;> simp only [lSend] <;> (try exact this)
        rename_i n ck sc
        rw [AL.find?_insert_ne _ _ (hne _ hn' .startBusListener n n' rfl rfl)]; exact this
      · subst hn'; simp [lSend]
    · intro n' ck' hn'
      simp only [List.mem_append, List.mem_singleton] at hn'
      rcases hn' with hn' | hn'
      · have := r0.stop n' ck' hn'
        cases r <;> simp only [lSend] <;> (try exact this)
        rename_i n ck
        rw [AL.find?_insert_ne _ _ (hne _ hn' .stopBusListener n n' rfl rfl)]; exact this
      · subst hn'; simp [lSend]

theorem LLinkInv_recv {b : St} {c : ConnId} {l : Link} {m : Rsp} {rest : List Rsp} {mon : CSt} (hd : l.down = m :: rest)
    (ho : onRecv l.mon m = .ok mon) (h : LLinkInv b c l) : LLinkInv b c { l with mon := mon, down := rest } := by
  obtain ⟨F, hF, hr⟩ := h
  refine ⟨F, ?_, hr⟩
  rw [hd] at hF
  simp only [lDrain, lview_onRecv ho] at hF
  exact hF

/-! ### every event keeps the invariant -/

theorem lview_init (v : Nat) : lview { version := v } = {} := rfl

theorem sysStep_linv {s s' : Sys} {e : SysEv} (hs : sysStep s e = some s') (hser : SysInv s) (h : LSysInv s) : LSysInv s' := by
  cases e with
  | attach c v =>
    simp only [sysStep] at hs
    split at hs
    · simp at hs
    · rename_i hfree
      split at hs
      · simp at hs
      · rename_i b w out hst
        simp only [Option.some.injEq] at hs; subst hs
        obtain ⟨hsh, hal, hout⟩ := step_newConn_parts hst
        have hcu : c ∉ s.used := by
          intro hc; simp [hc] at hfree
        refine ⟨?_, ?_⟩
        · intro x l hl
          simp only [setLink] at hl
          split at hl
          · rename_i hx; subst hx
            simp only [Option.some.injEq] at hl; subst hl
            refine ⟨⟨{}, rfl, fun _ => ⟨?_, ?_, ?_, ?_, ?_⟩⟩, by simp⟩
            · intro ck li hli hc
              have := h.owners ck li (hsh ck li hli)
              rw [hc] at this; exact absurd this hcu
            all_goals (intros; simp_all)
          · rename_i hx
            simp only [deliver, Option.map_eq_some_iff] at hl
            obtain ⟨lx, hlx, rfl⟩ := hl
            obtain ⟨hli, hu⟩ := h.links x lx hlx
            refine ⟨LLinkInv_frame hli (hal x hx) (fun ck li hl' _ => hsh ck li hl') ?_, by simp [hu]⟩
            intro F; apply lDrain_nil_of_sf; rw [hout]; rfl
        · intro ck li hli
          have := h.owners ck li (hsh ck li hli)
          simp [this]
  | clientSends c r =>
    simp only [sysStep] at hs
    split at hs
    · simp at hs
    · rename_i l0 hl0
      split at hs
      · rename_i hf
        simp only [Option.some.injEq] at hs; subst hs
        refine ⟨?_, h.owners⟩
        intro x l hl
        simp only [setLink] at hl
        split at hl
        · rename_i hx; subst hx
          simp only [Option.some.injEq] at hl; subst hl
          obtain ⟨hli, hu⟩ := h.links x l0 hl0
          exact ⟨LLinkInv_send (hser x l0 hl0) hf (fun m hm k n hk => head_is_pending hser hl0 hm hk) hli, hu⟩
        · exact h.links x l hl
      · simp at hs
  | brokerHandles c =>
    simp only [sysStep] at hs
    split at hs
    · simp at hs
    · rename_i l0 hl0
      split at hs
      · simp at hs
      · rename_i r rest hu
        split at hs
        · simp at hs
        · rename_i b w out hst
          simp only [Option.some.injEq] at hs; subst hs
          obtain ⟨s1, ok, hm, hsh, hal, hout⟩ := step_msg_parts hst
          obtain ⟨hl0i, hcu⟩ := h.links c l0 hl0
          refine ⟨?_, ?_⟩
          · intro x l hl
            simp only [deliver, setLink] at hl
            by_cases hx : x = c
            · subst hx
              simp only [↓reduceIte, Option.map_some, Option.some.injEq] at hl; subst hl
              exact ⟨LLinkInv_handle hu (hser x l0 hl0) hm rfl hsh hal hout hl0i, hcu⟩
            · simp only [hx, ↓reduceIte, Option.map_eq_some_iff] at hl
              obtain ⟨lx, hlx, rfl⟩ := hl
              obtain ⟨hli, hux⟩ := h.links x lx hlx
              exact ⟨LLinkInv_bystander hx hm rfl hsh hal hout hli, hux⟩
          · intro ck li hli
            rcases handleMessage_lsub hm ck li (hsh ck li hli) with h1 | h1
            · rw [h1]; exact hcu
            · exact h.owners ck li h1
  | brokerEvent e =>
    simp only [sysStep] at hs
    split at hs
    · simp at hs
    · rename_i hnm
      split at hs
      · simp at hs
      · rename_i b w out hst
        simp only [Option.some.injEq] at hs; subst hs
        obtain ⟨hsh, hal, hout⟩ := step_other_parts (by intro id m he; subst he; simp [Event.isMsg] at hnm)
          (by intro id v he; subst he; simp [Event.isMsg] at hnm) hst
        refine ⟨?_, fun ck li hli => h.owners ck li (hsh ck li hli)⟩
        intro x l hl
        simp only [deliver, Option.map_eq_some_iff] at hl
        obtain ⟨lx, hlx, rfl⟩ := hl
        obtain ⟨hli, hux⟩ := h.links x lx hlx
        refine ⟨LLinkInv_frame hli (hal x) (fun ck li hl' _ => hsh ck li hl') ?_, hux⟩
        intro F; apply lDrain_nil_of_sf; rw [hout]; rfl
  | clientHandles c =>
    simp only [sysStep] at hs
    split at hs
    · simp at hs
    · rename_i l0 hl0
      split at hs
      · simp at hs
      · rename_i m rest hd
        split at hs
        · rename_i mon hon
          simp only [Option.some.injEq] at hs; subst hs
          refine ⟨?_, h.owners⟩
          intro x l hl
          simp only [setLink] at hl
          split at hl
          · rename_i hx; subst hx
            simp only [Option.some.injEq] at hl; subst hl
            obtain ⟨hli, hu⟩ := h.links x l0 hl0
            exact ⟨LLinkInv_recv hd hon hli, hu⟩
          · exact h.links x l hl
        · simp at hs
  | detach c =>
    simp only [sysStep, Option.some.injEq] at hs; subst hs
    refine ⟨?_, h.owners⟩
    intro x l hl
    simp only [setLink] at hl
    split at hl
    · simp at hl
    · exact h.links x l hl

theorem LSysInv_init : LSysInv {} := ⟨by intro c l hl; simp at hl, by intro ck l hl; simp [AL.find?] at hl⟩

theorem sysRun_linv : ∀ (es : List SysEv) (s s' : Sys), sysRun s es = some s' → SysInv s → LSysInv s → SysInv s' ∧ LSysInv s' := by
  intro es
  induction es with
  | nil => intro s s' hr h1 h2; simp [sysRun] at hr; exact hr ▸ ⟨h1, h2⟩
  | cons e es ih =>
    intro s s' hr h1 h2
    simp only [sysRun] at hr
    split at hr
    · rename_i s1 hs1
      exact ih _ _ hr (sysStep_inv hs1 h1) (sysStep_linv hs1 h1 h2)
    · simp at hr

/-- what is about listeners and on its way to a client will be accepted when it gets there -/
theorem listener_head_accepted {s : Sys} (h : LSysInv s) {c : ConnId} {l : Link} (hl : s.links c = some l)
    {m : Rsp} {rest : List Rsp} (hd : l.down = m :: rest) (hL : isL m = true) : onRecv l.mon m ≠ .unexpected := by
  obtain ⟨⟨F, hF, _⟩, _⟩ := h.links c l hl
  rw [hd] at hF
  simp only [lDrain] at hF
  split at hF
  · rename_i t ht; exact lRecv_accepts hL ht
  · simp at hF

end Aldrin.System
