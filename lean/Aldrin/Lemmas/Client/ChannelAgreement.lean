/-
Channel agreement in the composed system: what the broker puts into the clients' queues about channels — replies to
create / close / claim, notifications that the other end was claimed or closed, items, capacity — is accepted by the
client it is for when it gets there, in every interleaving.
-/
import Aldrin.Lemmas.Broker.ChanOut
import Aldrin.Lemmas.Client.ListenerAgreement

namespace Aldrin.System
open Aldrin.Broker Aldrin.Client

/-- per connection: the client's channel book-keeping once it has handled what is on its way to it -/
abbrev Views := ConnId → Option CV

def Views.set (vs : Views) (x : ConnId) (v : CV) : Views := fun y => if y = x then some v else vs y

/-- the outputs of the broker, oldest first, as seen by those views; `none`: one of them is refused -/
def applyOuts : Views → List Out → Option Views
  | vs, [] => some vs
  | vs, o :: os => match vs o.to with
    | none => applyOuts vs os
    | some v => match cRecv v o.msg with
      | none => none
      | some v' => applyOuts (vs.set o.to v') os

theorem applyOuts_append (vs : Views) (a b : List Out) : applyOuts vs (a ++ b) = (applyOuts vs a).bind (fun vs' => applyOuts vs' b) := by
  induction a generalizing vs with
  | nil => rfl
  | cons o a ih =>
    simp only [List.cons_append, applyOuts]
    cases hv : vs o.to with
    | none => simp only []; exact ih vs
    | some v =>
      simp only []
      cases hr : cRecv v o.msg with
      | none => rfl
      | some v' => simp only []; exact ih _

theorem Views.set_self (vs : Views) (x : ConnId) (v : CV) (h : vs x = some v) : vs.set x v = vs := by
  funext y; simp only [Views.set]; split
  · rename_i e; subst e; exact h.symm
  · rfl

theorem applyOuts_cf (vs : Views) (out : List Out) : applyOuts vs out = applyOuts vs (cf out) := by
  induction out generalizing vs with
  | nil => rfl
  | cons o out ih =>
    rw [cf_cons, cf_single]
    cases hc : isC o.msg
    · simp only [Bool.false_eq_true, ↓reduceIte, List.nil_append, applyOuts]
      cases hv : vs o.to with
      | none => exact ih vs
      | some v => simp only [cRecv_not_isC hc, Views.set_self vs _ _ hv]; exact ih vs
    · simp only [↓reduceIte, List.singleton_append, applyOuts]
      cases hv : vs o.to with
      | none => simp only []; exact ih vs
      | some v =>
        simp only []
        cases hr : cRecv v o.msg with
        | none => rfl
        | some v' => simp only []; exact ih _

/-- what the result means for one connection: its view has handled exactly what was delivered to it -/
theorem applyOuts_link : ∀ (out : List Out) (vs vs' : Views), applyOuts vs out = some vs' → ∀ x,
    (vs x = none → vs' x = none) ∧ (∀ v, vs x = some v → ∃ v', vs' x = some v' ∧ cDrain v (delivered out x) = some v') := by
  intro out
  induction out with
  | nil => intro vs vs' h x; simp only [applyOuts, Option.some.injEq] at h; subst h; exact ⟨id, fun v hv => ⟨v, hv, rfl⟩⟩
  | cons o out ih =>
    intro vs vs' h x
    have e1 : delivered (o :: out) x = (if o.to = x then [o.msg] else []) ++ delivered out x := by
      by_cases hc : o.to = x <;> simp [delivered, List.filter_cons, hc]
    simp only [applyOuts] at h
    cases hv : vs o.to with
    | none =>
      simp only [hv] at h
      have := ih vs vs' h x
      refine ⟨this.1, fun v hvx => ?_⟩
      have hne : ¬ o.to = x := by intro e; rw [e] at hv; rw [hv] at hvx; simp at hvx
      rw [e1]; simp only [hne, ↓reduceIte, List.nil_append]; exact this.2 v hvx
    | some v0 =>
      simp only [hv] at h
      cases hr : cRecv v0 o.msg with
      | none => simp [hr] at h
      | some v1 =>
        simp only [hr] at h
        have := ih _ vs' h x
        by_cases hx : o.to = x
        · subst hx
          refine ⟨fun hn => by rw [hv] at hn; simp at hn, fun v hvx => ?_⟩
          rw [hv] at hvx; simp only [Option.some.injEq] at hvx; subst hvx
          obtain ⟨v', h1, h2⟩ := this.2 v1 (by simp [Views.set])
          refine ⟨v', h1, ?_⟩
          rw [e1]; simp only [↓reduceIte, List.singleton_append, cDrain, hr]; exact h2
        · have hset : (vs.set o.to v1) x = vs x := by
            simp only [Views.set]; rw [if_neg (fun e : x = o.to => hx e.symm)]
          rw [hset] at this
          refine ⟨this.1, fun v hvx => ?_⟩
          rw [e1]; simp only [hx, ↓reduceIte, List.nil_append]; exact this.2 v hvx

/-! ### the relation -/

/-- what the owner of an end has to remember about it, by the state of the other end -/
def wantOf : EndState → Option EndSt
  | .unclaimed => some .pending
  | .claimed _ _ => some .established
  | .closed => none

/-- the broker's channel table against one client's view (after what is on its way to it), except for the ends in `ex` -/
def ChanRelEx (ex : Cookie → ChanEnd → Prop) (b : St) (x : ConnId) (v : CV) : Prop :=
  ∀ ck ch e cap w, AL.find? ck b.b.channels = some ch → ch.endState e = .claimed x cap → ¬ ex ck e →
    wantOf (ch.endState (peerEnd e)) = some w → AL.find? ck (v.ends e) = some w

def GoodEx (ex : Cookie → ChanEnd → Prop) (b : St) (vs : Views) : Prop :=
  ∀ x v, vs x = some v → aliveB b x = true → ChanRelEx ex b x v

def noEx : Cookie → ChanEnd → Prop := fun _ _ => False
def exOne (ck0 : Cookie) (e0 : ChanEnd) : Cookie → ChanEnd → Prop := fun ck e => ck = ck0 ∧ e = e0

abbrev Good := GoodEx noEx

theorem GoodEx.weaken {ex : Cookie → ChanEnd → Prop} {b : St} {vs : Views} (h : Good b vs) : GoodEx ex b vs :=
  fun x v hv ha ck ch e cap w h1 h2 _ h4 => h x v hv ha ck ch e cap w h1 h2 (fun f => f) h4

theorem peerEnd_ne (e : ChanEnd) : peerEnd e ≠ e := by cases e <;> simp [peerEnd]
theorem peerEnd_peerEnd (e : ChanEnd) : peerEnd (peerEnd e) = e := by cases e <;> rfl
theorem eq_or_peer (e e2 : ChanEnd) : e2 = e ∨ e2 = peerEnd e := by cases e <;> cases e2 <;> simp [peerEnd]

@[simp] theorem CV.ends_setEnds_self (v : CV) (e : ChanEnd) (m) : (v.setEnds e m).ends e = m := by cases e <;> rfl
theorem CV.ends_setEnds_ne (v : CV) {e e2 : ChanEnd} (m) (h : e2 ≠ e) : (v.setEnds e m).ends e2 = v.ends e2 := by
  cases e <;> cases e2 <;> simp_all [CV.setEnds, CV.ends]

/-- `Channel::close` on an end: the end is closed, the other end stays as it is, and its owner (if any) is to be told -/
theorem close_spec {ch ch' : Chan} {e : ChanEnd} {other : Option ConnId} (h : ch.close e = .ok (ch', other)) :
    ch'.endState e = .closed ∧ ch'.endState (peerEnd e) = ch.endState (peerEnd e) ∧
    (ch.endState e ≠ .closed) ∧
    (∀ o, other = some o ↔ ∃ cap, ch.endState (peerEnd e) = .claimed o cap) := by
  cases e <;> simp only [Chan.close] at h <;> (repeat' (split at h)) <;>
    simp only [Except.ok.injEq, Prod.mk.injEq, reduceCtorEq] at h <;> (try (exact h.elim)) <;>
    (obtain ⟨rfl, rfl⟩ := h) <;> simp_all [Chan.endState, peerEnd]

/-- one function of the broker: what it adds to the queues about channels is accepted, and the relation holds again -/
def Pres (ex : Cookie → ChanEnd → Prop) (s s' : St) : Prop :=
  ∃ l, cf s'.out = cf s.out ++ l ∧ ∀ vs, GoodEx ex s vs → ∃ vs', applyOuts vs l = some vs' ∧ Good s' vs'

theorem Pres.trans {ex : Cookie → ChanEnd → Prop} {a b c : St} (h1 : Pres ex a b) (h2 : Pres noEx b c) : Pres ex a c := by
  obtain ⟨l1, e1, p1⟩ := h1
  obtain ⟨l2, e2, p2⟩ := h2
  refine ⟨l1 ++ l2, by rw [e2, e1, List.append_assoc], ?_⟩
  intro vs hg
  obtain ⟨vs1, a1, g1⟩ := p1 vs hg
  obtain ⟨vs2, a2, g2⟩ := p2 vs1 g1
  exact ⟨vs2, by rw [applyOuts_append, a1]; exact a2, g2⟩

theorem Pres.weaken {ex : Cookie → ChanEnd → Prop} {a b : St} (h : Pres ex a b) : Pres noEx a b := by
  obtain ⟨l, e, p⟩ := h
  exact ⟨l, e, fun vs hg => p vs (GoodEx.weaken hg)⟩

/-- a function that leaves the channel table alone, revives nobody and says nothing about channels -/
theorem Pres.frame {s s' : St} (hc : s'.b.channels = s.b.channels) (ha : AliveLe s s') (ho : SameC s s') : Pres noEx s s' := by
  refine ⟨[], by rw [ho]; simp, ?_⟩
  intro vs hg
  refine ⟨vs, rfl, ?_⟩
  intro x v hv hal ck ch e cap w h1 h2 h3 h4
  rw [hc] at h1
  exact hg x v hv (ha x hal) ck ch e cap w h1 h2 h3 h4

theorem Pres.refl (s : St) : Pres noEx s s := Pres.frame rfl (AliveLe.refl s) (SameC.refl s)

theorem find?_insert_peerClosed {ck ck2 : Cookie} {m : List (Cookie × EndSt)} {w : EndSt} (hne : ck2 ≠ ck)
    (h : AL.find? ck2 m = some w) (st : EndSt) : AL.find? ck2 (AL.insert ck st m) = some w := by
  rw [AL.find?_insert_ne _ _ (fun e => hne e.symm)]; exact h

/-- what `remove_channel_end` does to the channel table and the queues -/
theorem removeChannelEnd_result {s s' : St} {ck : Cookie} {e : ChanEnd} {owner : Option ConnId}
    (h : removeChannelEnd s ck e owner = .ok s') :
    (AL.find? ck s.b.channels = none ∧ s' = s) ∨
    ∃ ch ch' other, AL.find? ck s.b.channels = some ch ∧ ch.close e = .ok (ch', other) ∧
      ((s'.out = s.out ∧ ∀ ck2, AL.find? ck2 s'.b.channels = if ck = ck2 then none else AL.find? ck2 s.b.channels) ∨
       (∃ o, other = some o ∧ (∀ ck2, AL.find? ck2 s'.b.channels = if ck = ck2 then some ch' else AL.find? ck2 s.b.channels) ∧
          ((s'.out = s.out ++ [⟨o, .channelEndClosed ck e, none⟩] ∧ aliveB s o = true) ∨ s'.out = s.out))) := by
  unfold removeChannelEnd at h
  split at h
  · rename_i hnone
    simp only [Except.ok.injEq] at h; exact Or.inl ⟨hnone, h.symm⟩
  · rename_i ch hch
    right
    simp only [] at h
    split at h
    · simp at h
    · rename_i ch' other hcl
      refine ⟨ch, ch', other, hch, hcl, ?_⟩
      -- the state in which the end's owner has forgotten the cookie
      obtain ⟨s1, hc1, ho1, ha1, h⟩ : ∃ s1 : St, s1.b.channels = s.b.channels ∧ s1.out = s.out ∧ (∀ x, aliveB s1 x = aliveB s x) ∧
          (let s := s1.setChannels (AL.insert ck ch' s1.b.channels)
           let (s, remove) := match other with
             | some oid =>
               if (s.conn? oid).isSome then (s.sendOrRemove oid (.channelEndClosed ck e), false) else (s, true)
             | none => (s, true)
           if remove then
             (Except.ok ((s.setChannels (AL.erase ck s.b.channels)).stat
               (fun st => { st with numChannels := st.numChannels - 1 })) : Except Panic St)
           else .ok s) = .ok s' := by
        cases owner with
        | none => exact ⟨s, rfl, rfl, fun _ => rfl, h⟩
        | some o =>
          refine ⟨_, ?_, ?_, ?_, h⟩
          · simp
          · simp
          · intro x
            rw [aliveB_updConn']
            cases e <;> simp
      simp only [] at h
      cases other with
      | none =>
        simp only [Bool.true_eq_false, ↓reduceIte, Except.ok.injEq] at h
        subst h
        left
        refine ⟨by simp [ho1], fun ck2 => ?_⟩
        simp only [St.stat_b_channels, St.setChannels_b_channels, AL.find?_erase, AL.find?_insert, hc1]
        split <;> rfl
      | some o =>
        simp only [] at h
        split at h
        · rename_i hex
          simp only [Bool.false_eq_true, ↓reduceIte, Except.ok.injEq] at h
          subst h
          right
          refine ⟨o, rfl, fun ck2 => ?_, ?_⟩
          · simp only [St.sendOrRemove_b_channels, St.setChannels_b_channels, AL.find?_insert, hc1]
          · rcases send_cases (s1.setChannels (AL.insert ck ch' s1.b.channels)) o (.channelEndClosed ck e) none with ⟨h1, h2⟩ | ⟨h1, h2⟩
            · left
              refine ⟨by simp [h1, ho1], ?_⟩
              have := send_ok_alive h1
              rw [aliveB_setChannels, ha1] at this; exact this
            · right; simp [h1, ho1]
        · simp only [↓reduceIte, Except.ok.injEq] at h
          subst h
          left
          refine ⟨by simp [ho1], fun ck2 => ?_⟩
          simp only [St.stat_b_channels, St.setChannels_b_channels, AL.find?_erase, AL.find?_insert, hc1]
          split <;> rfl

/-- after end `e` of channel `ck` has been closed (the table now holds `ch'` for it, or nothing): views that have only
changed at (`ck`, the other end) are good again -/
theorem good_after_close {s s' : St} {ck : Cookie} {e : ChanEnd} {ch' : Chan} {vs vs' : Views}
    (hal : AliveLe s s') (hg : GoodEx (exOne ck e) s vs) (c1 : ch'.endState e = .closed)
    (htbl : ∀ ck2 ch2, AL.find? ck2 s'.b.channels = some ch2 → (ck2 ≠ ck ∧ AL.find? ck2 s.b.channels = some ch2) ∨ (ck2 = ck ∧ ch2 = ch'))
    (hvs : ∀ x v', vs' x = some v' → ∃ v, vs x = some v ∧
      ∀ ck2 e2, (ck2 ≠ ck ∨ e2 = e) → AL.find? ck2 (v'.ends e2) = AL.find? ck2 (v.ends e2)) : Good s' vs' := by
  intro x v' hv' ha ck2 ch2 e2 cap w h1 h2 _ h4
  obtain ⟨v, hv, hsame⟩ := hvs x v' hv'
  rcases htbl ck2 ch2 h1 with ⟨hne, hold⟩ | ⟨heq, hch2⟩
  · rw [hsame ck2 e2 (Or.inl hne)]
    exact hg x v hv (hal x ha) ck2 ch2 e2 cap w hold h2 (fun f => hne f.1) h4
  · subst heq; subst hch2
    rcases eq_or_peer e e2 with he | he
    · subst he; rw [c1] at h2; simp at h2
    · subst he; rw [peerEnd_peerEnd, c1] at h4; simp [wantOf] at h4

/-- `remove_channel_end`: the end is closed whoever owns it; the owner of the other end is told, and is in a state to be told -/
theorem removeChannelEnd_pres {s s' : St} {ck : Cookie} {e : ChanEnd} {owner : Option ConnId}
    (h : removeChannelEnd s ck e owner = .ok s') : Pres (exOne ck e) s s' := by
  have hal := removeChannelEnd_alive h
  rcases removeChannelEnd_result h with ⟨hnone, rfl⟩ | ⟨ch, ch', other, hch, hcl, hres⟩
  · refine ⟨[], by simp, fun vs hg => ⟨vs, rfl, ?_⟩⟩
    intro x v hv ha ck' ch e' cap w h1 h2 _ h4
    by_cases hk : ck' = ck
    · subst hk; rw [hnone] at h1; simp at h1
    · exact hg x v hv ha ck' ch e' cap w h1 h2 (fun f => hk f.1) h4
  · obtain ⟨c1, c2, c3, c4⟩ := close_spec hcl
    have hself : ∀ (vs : Views) x v', vs x = some v' → ∃ v, vs x = some v ∧
        ∀ ck2 e2, (ck2 ≠ ck ∨ e2 = e) → AL.find? ck2 (v'.ends e2) = AL.find? ck2 (v.ends e2) :=
      fun vs x v' hv => ⟨v', hv, fun _ _ _ => rfl⟩
    rcases hres with ⟨hout, htbl⟩ | ⟨o, rfl, htbl, hout⟩
    · refine ⟨[], by rw [hout]; simp, fun vs hg => ⟨vs, rfl, ?_⟩⟩
      refine good_after_close (ch' := ch') hal hg c1 ?_ (hself vs)
      intro ck2 ch2 h1
      rw [htbl] at h1
      split at h1
      · simp at h1
      · rename_i hne; exact Or.inl ⟨fun f => hne f.symm, h1⟩
    · obtain ⟨capo, hpo⟩ := (c4 o).mp rfl
      have htbl' : ∀ ck2 ch2, AL.find? ck2 s'.b.channels = some ch2 →
          (ck2 ≠ ck ∧ AL.find? ck2 s.b.channels = some ch2) ∨ (ck2 = ck ∧ ch2 = ch') := by
        intro ck2 ch2 h1
        rw [htbl] at h1
        split at h1
        · rename_i he; simp only [Option.some.injEq] at h1; exact Or.inr ⟨he.symm, h1.symm⟩
        · rename_i hne; exact Or.inl ⟨fun f => hne f.symm, h1⟩
      rcases hout with ⟨hout, hao⟩ | hout
      · refine ⟨[⟨o, .channelEndClosed ck e, none⟩], by rw [hout]; simp, fun vs hg => ?_⟩
        cases hvo : vs o with
        | none => exact ⟨vs, by simp [applyOuts, hvo], good_after_close hal hg c1 htbl' (hself vs)⟩
        | some v =>
          obtain ⟨w, hw⟩ : ∃ w, wantOf (ch.endState e) = some w := by
            cases hce : ch.endState e <;> simp_all [wantOf]
          have hf := hg o v hvo hao ck ch (peerEnd e) capo w hch hpo (fun f => peerEnd_ne e f.2) (by rw [peerEnd_peerEnd]; exact hw)
          have hwne : w = .pending ∨ w = .established := by
            cases hce : ch.endState e <;> simp_all [wantOf]
          have hrecv : cRecv v (.channelEndClosed ck e) =
              some (v.setEnds (peerEnd e) (AL.insert ck .peerClosed (v.ends (peerEnd e)))) := by
            simp only [cRecv, hf]
            rcases hwne with rfl | rfl <;> rfl
          refine ⟨vs.set o (v.setEnds (peerEnd e) (AL.insert ck .peerClosed (v.ends (peerEnd e)))), by simp [applyOuts, hvo, hrecv], ?_⟩
          refine good_after_close hal hg c1 htbl' ?_
          intro x v' hv'
          simp only [Views.set] at hv'
          split at hv'
          · rename_i hx; subst hx
            simp only [Option.some.injEq] at hv'; subst hv'
            refine ⟨v, hvo, fun ck2 e2 hor => ?_⟩
            rcases eq_or_peer e e2 with he | he
            · subst he; rw [CV.ends_setEnds_ne _ _ (fun f => peerEnd_ne e2 f.symm)]
            · subst he
              rcases hor with hne | hee
              · rw [CV.ends_setEnds_self, AL.find?_insert_ne _ _ (fun f => hne f.symm)]
              · exact absurd hee (peerEnd_ne e)
          · exact hself vs x v' hv'
      · exact ⟨[], by rw [hout]; simp, fun vs hg => ⟨vs, rfl, good_after_close hal hg c1 htbl' (hself vs)⟩⟩

/-- all a handler touches is one cookie: the relation has to be re-established for that cookie only -/
theorem good_one_cookie {s s' : St} {vs vs' : Views} (ck : Cookie) (hal : AliveLe s s') (hg : Good s vs)
    (htbl : ∀ ck2, ck2 ≠ ck → AL.find? ck2 s'.b.channels = AL.find? ck2 s.b.channels)
    (hvs : ∀ x v', vs' x = some v' → ∃ v, vs x = some v ∧ ∀ ck2 e2, ck2 ≠ ck → AL.find? ck2 (v'.ends e2) = AL.find? ck2 (v.ends e2))
    (hck : ∀ x v', vs' x = some v' → aliveB s' x = true → ∀ ch e cap w, AL.find? ck s'.b.channels = some ch →
      ch.endState e = .claimed x cap → wantOf (ch.endState (peerEnd e)) = some w → AL.find? ck (v'.ends e) = some w) : Good s' vs' := by
  intro x v' hv' ha ck2 ch2 e2 cap w h1 h2 _ h4
  by_cases hk : ck2 = ck
  · subst hk; exact hck x v' hv' ha ch2 e2 cap w h1 h2 h4
  · obtain ⟨v, hv, hsame⟩ := hvs x v' hv'
    rw [hsame ck2 e2 hk]
    rw [htbl ck2 hk] at h1
    exact hg x v hv (hal x ha) ck2 ch2 e2 cap w h1 h2 (fun f => f) h4

/-- the entry the client has for a channel request that is on its way -/
def Pend (v : CV) : Req → Prop
  | .createChannel n e _ => AL.find? n v.create = some e
  | .closeChannelEnd n ck e => ∃ fl, AL.find? n v.close = some ⟨ck, e, fl⟩
  | .claimChannelEnd n ck e _ => AL.find? n v.claim = some (e, ck)
  | _ => True

/-- a handler for request `r` of connection `id` -/
def PresR (s s' : St) (id : ConnId) (r : Req) : Prop :=
  ∃ l, cf s'.out = cf s.out ++ l ∧ ∀ vs, Good s vs → (∀ v, vs id = some v → Pend v r) → ∃ vs', applyOuts vs l = some vs' ∧ Good s' vs'

theorem PresR.of_pres {s s' : St} {id : ConnId} {r : Req} (h : Pres noEx s s') : PresR s s' id r := by
  obtain ⟨l, e, p⟩ := h
  exact ⟨l, e, fun vs hg _ => p vs hg⟩

theorem send_out_alive (X s : St) (id : ConnId) (m : Rsp) (v : Option Nat) (hx : X.out = s.out) (ha : ∀ c, aliveB X c = aliveB s c) :
    ((X.send id m v).1.out = s.out ++ [⟨id, m, v⟩] ∧ aliveB s id = true) ∨ ((X.send id m v).1.out = s.out ∧ aliveB s id = false) := by
  rcases send_cases X id m v with ⟨h1, h2⟩ | ⟨h1, h2⟩
  · left; rw [h2, hx]; exact ⟨rfl, by rw [← ha]; exact send_ok_alive h1⟩
  · right; rw [h2, hx]; exact ⟨rfl, by rw [← ha]; exact send_fail_dead h1⟩

theorem createChannel_result {s s' : St} {id n e cap} {ok : Bool} (h : createChannel s id n e cap = .ok (s', ok)) :
    s' = s ∨ ∃ ch cap', ch.endState e = .claimed id cap' ∧ ch.endState (peerEnd e) = .unclaimed ∧
      (∀ ck2, AL.find? ck2 s'.b.channels = if s.b.nextCookie = ck2 then some ch else AL.find? ck2 s.b.channels) ∧
      ((s'.out = s.out ++ [⟨id, .createChannelReply n s.b.nextCookie, none⟩] ∧ aliveB s id = true) ∨
       (s'.out = s.out ∧ aliveB s id = false)) := by
  unfold createChannel at h
  repeat' ((try simp only [] at h); split at h)
  all_goals (simp only [okH, errH, Except.ok.injEq, Prod.mk.injEq] at h; obtain ⟨h1, _⟩ := h; subst h1)
  · exact Or.inl rfl
  all_goals
    right
    simp only [St.freshCookie]
  all_goals first
    | (refine ⟨Chan.withClaimedSender id, 0, rfl, rfl, ?_, ?_⟩)
    | (refine ⟨Chan.withClaimedReceiver id cap, cap, rfl, rfl, ?_, ?_⟩)
  all_goals (try (intro ck2; simp [AL.find?_insert]; done))
  all_goals
    (try simp only [St.stat_out])
    exact send_out_alive _ s id _ _ (by simp) (by intro c; simp [aliveB_updConn'])

theorem takeAL_of_find {V : Type} {n : Nat} {m : List (Nat × V)} {x : V} (h : AL.find? n m = some x) :
    takeAL n m = some (x, AL.erase n m) := by simp [takeAL, h]

theorem CV.ends_with_create (v : CV) (m) (e : ChanEnd) : ({ v with create := m } : CV).ends e = v.ends e := by cases e <;> rfl
theorem CV.ends_with_close (v : CV) (m) (e : ChanEnd) : ({ v with close := m } : CV).ends e = v.ends e := by cases e <;> rfl
theorem CV.ends_with_claim (v : CV) (m) (e : ChanEnd) : ({ v with claim := m } : CV).ends e = v.ends e := by cases e <;> rfl

/-- a view in which one entry of the ends map `e` has been set: other cookies and the other map are as before -/
theorem ends_after_set (v v0 : CV) (e : ChanEnd) (ck : Cookie) (st : EndSt) (h0 : ∀ e2, v0.ends e2 = v.ends e2)
    (ck2 : Cookie) (e2 : ChanEnd) (hne : ck2 ≠ ck) :
    AL.find? ck2 ((v0.setEnds e (AL.insert ck st (v.ends e))).ends e2) = AL.find? ck2 (v.ends e2) := by
  rcases eq_or_peer e e2 with he | he
  · subst he; rw [CV.ends_setEnds_self, AL.find?_insert_ne _ _ (fun f => hne f.symm)]
  · subst he; rw [CV.ends_setEnds_ne _ _ (peerEnd_ne e), h0]

theorem createChannel_presR {s s' : St} {id n e cap} {ok : Bool} (h : createChannel s id n e cap = .ok (s', ok)) :
    PresR s s' id (.createChannel n e cap) := by
  have hal := createChannel_alive h
  rcases createChannel_result h with rfl | ⟨ch, cap', he, hp, htbl, hout⟩
  · exact PresR.of_pres (Pres.refl _)
  · have honly : ∀ e2 x c2, ch.endState e2 = .claimed x c2 → e2 = e ∧ x = id := by
      intro e2 x c2 h2
      rcases eq_or_peer e e2 with he2 | he2
      · subst he2; rw [he] at h2; simp only [EndState.claimed.injEq] at h2; exact ⟨rfl, h2.1.symm⟩
      · subst he2; rw [hp] at h2; simp at h2
    have htbl2 : ∀ ck2, ck2 ≠ s.b.nextCookie → AL.find? ck2 s'.b.channels = AL.find? ck2 s.b.channels := by
      intro ck2 hne; rw [htbl, if_neg (fun f => hne f.symm)]
    have hnew : AL.find? s.b.nextCookie s'.b.channels = some ch := by rw [htbl]; simp
    rcases hout with ⟨hout, hlive⟩ | ⟨hout, hdead⟩
    · refine ⟨[⟨id, .createChannelReply n s.b.nextCookie, none⟩], by rw [hout]; simp, fun vs hg hpend => ?_⟩
      cases hv : vs id with
      | none =>
        refine ⟨vs, by simp [applyOuts, hv], good_one_cookie s.b.nextCookie hal hg htbl2 (fun x v' hx => ⟨v', hx, fun _ _ _ => rfl⟩) ?_⟩
        intro x v' hx _ ch2 e2 c2 w h1 h2 _
        rw [hnew] at h1; simp only [Option.some.injEq] at h1; subst h1
        obtain ⟨_, rfl⟩ := honly e2 x c2 h2
        rw [hv] at hx; simp at hx
      | some v =>
        have hp' : AL.find? n v.create = some e := hpend v hv
        have hrecv : cRecv v (.createChannelReply n s.b.nextCookie) =
            some (({ v with create := AL.erase n v.create } : CV).setEnds e (AL.insert s.b.nextCookie .pending (v.ends e))) := by
          simp only [cRecv, takeAL_of_find hp']
        refine ⟨vs.set id (({ v with create := AL.erase n v.create } : CV).setEnds e (AL.insert s.b.nextCookie .pending (v.ends e))),
          by simp [applyOuts, hv, hrecv], good_one_cookie s.b.nextCookie hal hg htbl2 ?_ ?_⟩
        · intro x v' hx
          simp only [Views.set] at hx
          split at hx
          · rename_i hxi; subst hxi
            simp only [Option.some.injEq] at hx; subst hx
            exact ⟨v, hv, fun ck2 e2 hne => ends_after_set v _ e _ _ (CV.ends_with_create v _) ck2 e2 hne⟩
          · exact ⟨v', hx, fun _ _ _ => rfl⟩
        · intro x v' hx _ ch2 e2 c2 w h1 h2 h4
          rw [hnew] at h1; simp only [Option.some.injEq] at h1; subst h1
          obtain ⟨rfl, rfl⟩ := honly e2 x c2 h2
          rw [hp] at h4; simp only [wantOf, Option.some.injEq] at h4; subst h4
          simp only [Views.set, ↓reduceIte, Option.some.injEq] at hx; subst hx
          simp
    · refine ⟨[], by rw [hout]; simp, fun vs hg _ => ⟨vs, rfl, good_one_cookie s.b.nextCookie hal hg htbl2 (fun x v' hx => ⟨v', hx, fun _ _ _ => rfl⟩) ?_⟩⟩
      intro x v' hx ha ch2 e2 c2 w h1 h2 _
      rw [hnew] at h1; simp only [Option.some.injEq] at h1; subst h1
      obtain ⟨_, rfl⟩ := honly e2 x c2 h2
      have := hal x ha
      rw [hdead] at this; simp at this

theorem checkClose_not_ok {ch : Chan} {id : ConnId} {e : ChanEnd} {r : CloseRes} {cl : Bool} (h : ch.checkClose id e = (r, cl))
    (hr : r ≠ .ok) : ∀ cap, ch.endState e ≠ .claimed id cap := by
  intro cap hc
  simp only [Chan.checkClose, hc, ↓reduceIte, Prod.mk.injEq] at h
  exact hr h.1.symm

theorem closeChannelEnd_result {s s' : St} {id n ck e} {ok : Bool} (h : closeChannelEnd s id n ck e = .ok (s', ok)) :
    (s'.b.channels = s.b.channels ∧ s'.out = s.out ∧ ∀ c, aliveB s' c = aliveB s c) ∨
    ∃ r s1, s1.b.channels = s.b.channels ∧ s1.out = s.out ++ [⟨id, .closeChannelEndReply n r, none⟩] ∧
      (∀ c, aliveB s1 c = aliveB s c) ∧ aliveB s id = true ∧
      ((∃ owner, removeChannelEnd s1 ck e owner = .ok s') ∨
       (s' = s1 ∧ ∀ ch cap, AL.find? ck s.b.channels = some ch → ch.endState e ≠ .claimed id cap)) := by
  unfold closeChannelEnd at h
  split at h
  · simp only [okH, Except.ok.injEq, Prod.mk.injEq] at h
    obtain ⟨rfl, _⟩ := h; exact Or.inl ⟨rfl, rfl, fun _ => rfl⟩
  · split at h
    · rename_i hnone
      simp only [Except.ok.injEq] at h
      have h1 := congrArg Prod.fst h
      simp only at h1
      subst h1
      rcases send_cases s id (.closeChannelEndReply n .invalidChannel) none with ⟨h1, h2⟩ | ⟨h1, h2⟩
      · right
        refine ⟨.invalidChannel, _, by simp, h2, fun c => by simp, send_ok_alive h1, Or.inr ⟨rfl, ?_⟩⟩
        intro ch cap hch; rw [hnone] at hch; simp at hch
      · left; exact ⟨by simp, h2, fun c => by simp⟩
    · rename_i ch hch
      simp only [] at h
      rcases hcc : ch.checkClose id e with ⟨r, cl⟩
      simp only [hcc] at h
      rcases send_cases s id (.closeChannelEndReply n r) none with ⟨h1, h2⟩ | ⟨h1, h2⟩
      · simp only [h1, Bool.not_true, Bool.false_eq_true, ↓reduceIte] at h
        right
        refine ⟨r, (s.send id (.closeChannelEndReply n r)).1, by simp, h2, fun c => by simp, send_ok_alive h1, ?_⟩
        split at h
        · split at h
          · simp at h
          · rename_i s2 hrm
            simp only [okH, Except.ok.injEq, Prod.mk.injEq] at h
            obtain ⟨rfl, _⟩ := h
            exact Or.inl ⟨_, hrm⟩
        · rename_i hne
          simp only [okH, Except.ok.injEq, Prod.mk.injEq] at h
          obtain ⟨rfl, _⟩ := h
          refine Or.inr ⟨rfl, ?_⟩
          intro ch2 cap hch2
          rw [hch] at hch2; simp only [Option.some.injEq] at hch2; subst hch2
          exact checkClose_not_ok hcc hne cap
      · simp only [h1, Bool.not_false, ↓reduceIte, errH, Except.ok.injEq, Prod.mk.injEq] at h
        obtain ⟨rfl, _⟩ := h
        left; exact ⟨by simp, h2, fun c => by simp⟩

theorem closeChannelEnd_presR {s s' : St} {id n ck e} {ok : Bool} (h : closeChannelEnd s id n ck e = .ok (s', ok)) :
    PresR s s' id (.closeChannelEnd n ck e) := by
  rcases closeChannelEnd_result h with ⟨hc, ho, ha⟩ | ⟨r, s1, hc1, ho1, ha1, hlive, hrest⟩
  · exact PresR.of_pres (Pres.frame hc (fun c hc' => by rw [← ha c]; exact hc') (by simp [SameC, ho]))
  · -- the reply
    have step1 : ∀ vs, Good s vs → (∀ v, vs id = some v → Pend v (.closeChannelEnd n ck e)) →
        ∃ vs1, applyOuts vs [⟨id, .closeChannelEndReply n r, none⟩] = some vs1 ∧
          ∀ x v1, vs1 x = some v1 → ∃ v, vs x = some v ∧ (x ≠ id → v1 = v) ∧
            ∀ ck2 e2, ¬ (ck2 = ck ∧ e2 = e) → AL.find? ck2 (v1.ends e2) = AL.find? ck2 (v.ends e2) := by
      intro vs _ hpend
      cases hv : vs id with
      | none => exact ⟨vs, by simp [applyOuts, hv], fun x v1 hx => ⟨v1, hx, fun _ => rfl, fun _ _ _ => rfl⟩⟩
      | some v =>
        obtain ⟨fl, hp⟩ := hpend v hv
        cases fl with
        | false =>
          refine ⟨vs.set id { v with close := AL.erase n v.close }, by simp [applyOuts, hv, cRecv, takeAL_of_find hp], ?_⟩
          intro x v1 hx
          simp only [Views.set] at hx
          split at hx
          · rename_i hxi; subst hxi
            simp only [Option.some.injEq] at hx; subst hx
            exact ⟨v, hv, fun f => absurd rfl f, fun ck2 e2 _ => by rw [CV.ends_with_close]⟩
          · exact ⟨v1, hx, fun _ => rfl, fun _ _ _ => rfl⟩
        | true =>
          refine ⟨vs.set id (({ v with close := AL.erase n v.close } : CV).setEnds e (AL.erase ck (v.ends e))),
            by simp [applyOuts, hv, cRecv, takeAL_of_find hp], ?_⟩
          intro x v1 hx
          simp only [Views.set] at hx
          split at hx
          · rename_i hxi; subst hxi
            simp only [Option.some.injEq] at hx; subst hx
            refine ⟨v, hv, fun f => absurd rfl f, fun ck2 e2 hne => ?_⟩
            rcases eq_or_peer e e2 with he | he
            · subst he
              have : ck2 ≠ ck := fun f => hne ⟨f, rfl⟩
              rw [CV.ends_setEnds_self, AL.find?_erase_ne _ (fun f => this f.symm)]
            · subst he; rw [CV.ends_setEnds_ne _ _ (peerEnd_ne e), CV.ends_with_close]
          · exact ⟨v1, hx, fun _ => rfl, fun _ _ _ => rfl⟩
    have hcf : cf s1.out = cf s.out ++ [⟨id, .closeChannelEndReply n r, none⟩] := by rw [ho1]; simp
    rcases hrest with ⟨owner, hrm⟩ | ⟨rfl, hnot⟩
    · obtain ⟨l2, e2, p2⟩ := removeChannelEnd_pres hrm
      refine ⟨[⟨id, .closeChannelEndReply n r, none⟩] ++ l2, by rw [e2, hcf, List.append_assoc], fun vs hg hpend => ?_⟩
      obtain ⟨vs1, a1, q1⟩ := step1 vs hg hpend
      have g1 : GoodEx (exOne ck e) s1 vs1 := by
        intro x v1 hx hal1 ck2 ch2 e2' cap w h1 h2 h3 h4
        obtain ⟨v, hvx, _, hsame⟩ := q1 x v1 hx
        rw [hsame ck2 e2' h3]
        rw [hc1] at h1
        exact hg x v hvx (by rw [← ha1]; exact hal1) ck2 ch2 e2' cap w h1 h2 (fun f => f) h4
      obtain ⟨vs2, a2, g2⟩ := p2 vs1 g1
      exact ⟨vs2, by rw [applyOuts_append, a1]; exact a2, g2⟩
    · refine ⟨[⟨id, .closeChannelEndReply n r, none⟩], hcf, fun vs hg hpend => ?_⟩
      obtain ⟨vs1, a1, q1⟩ := step1 vs hg hpend
      refine ⟨vs1, a1, ?_⟩
      intro x v1 hx hal1 ck2 ch2 e2' cap w h1 h2 _ h4
      obtain ⟨v, hvx, hid, hsame⟩ := q1 x v1 hx
      rw [hc1] at h1
      by_cases hex : ck2 = ck ∧ e2' = e
      · obtain ⟨rfl, rfl⟩ := hex
        by_cases hxi : x = id
        · subst hxi; exact absurd h2 (hnot ch2 cap h1)
        · rw [hid hxi]
          exact hg x v hvx (by rw [← ha1]; exact hal1) ck2 ch2 e2' cap w h1 h2 (fun f => f) h4
      · rw [hsame ck2 e2' hex]
        exact hg x v hvx (by rw [← ha1]; exact hal1) ck2 ch2 e2' cap w h1 h2 (fun f => f) h4

/-- a successful claim: the end was unclaimed, the other end is claimed by `other`; afterwards both are claimed -/
theorem claimSender_spec {ch ch' : Chan} {id other : ConnId} {c : Nat} (h : ch.claimSender id = .ok (.ok (ch', other, c))) :
    ch.endState .sender = .unclaimed ∧ (∃ co, ch.endState .receiver = .claimed other co) ∧
    (∃ ci, ch'.endState .sender = .claimed id ci) ∧ (∃ co, ch'.endState .receiver = .claimed other co) := by
  simp only [Chan.claimSender] at h
  repeat' (split at h)
  all_goals (simp only [Except.ok.injEq, Prod.mk.injEq, reduceCtorEq] at h)
  obtain ⟨rfl, rfl, rfl⟩ := h
  simp_all [Chan.endState]

theorem claimReceiver_spec {ch ch' : Chan} {id other : ConnId} {cap : Nat} (h : ch.claimReceiver id cap = .ok (.ok (ch', other))) :
    ch.endState .receiver = .unclaimed ∧ (∃ co, ch.endState .sender = .claimed other co) ∧
    (∃ ci, ch'.endState .receiver = .claimed id ci) ∧ (∃ co, ch'.endState .sender = .claimed other co) := by
  simp only [Chan.claimReceiver] at h
  repeat' (split at h)
  all_goals (simp only [Except.ok.injEq, Prod.mk.injEq, reduceCtorEq] at h)
  obtain ⟨rfl, rfl⟩ := h
  simp_all [Chan.endState]

theorem claim_fail_res_sender {ch : Chan} {id : ConnId} {r : ClaimRes} (h : ch.claimSender id = .ok (.error r)) :
    r = .alreadyClaimed ∨ r = .invalidChannel := by
  simp only [Chan.claimSender] at h
  repeat' (split at h)
  all_goals (simp only [Except.ok.injEq, Except.error.injEq, reduceCtorEq] at h)
  all_goals (subst h; simp)

theorem claim_fail_res_receiver {ch : Chan} {id : ConnId} {cap : Nat} {r : ClaimRes} (h : ch.claimReceiver id cap = .ok (.error r)) :
    r = .alreadyClaimed ∨ r = .invalidChannel := by
  simp only [Chan.claimReceiver] at h
  repeat' (split at h)
  all_goals (simp only [Except.ok.injEq, Except.error.injEq, reduceCtorEq] at h)
  all_goals (subst h; simp)

theorem sendOrRemove_out_alive (X : St) (base : List Out) (alv : ConnId → Bool) (to : ConnId) (m : Rsp) (v : Option Nat)
    (hx : X.out = base) (ha : ∀ c, aliveB X c = alv c) :
    ∃ B, (X.sendOrRemove to m v).out = base ++ B ∧ ((B = [⟨to, m, v⟩] ∧ alv to = true) ∨ (B = [] ∧ alv to = false)) := by
  rw [sendOrRemove_out_eq]
  rcases send_cases X to m v with ⟨h1, _⟩ | ⟨h1, _⟩
  · exact ⟨[⟨to, m, v⟩], by simp [h1, hx], Or.inl ⟨rfl, by rw [← ha]; exact send_ok_alive h1⟩⟩
  · exact ⟨[], by simp [h1, hx], Or.inr ⟨rfl, by rw [← ha]; exact send_fail_dead h1⟩⟩

theorem claimChannelEnd_result {s s' : St} {id n ck e cap} {ok : Bool} (h : claimChannelEnd s id n ck e cap = .ok (s', ok)) :
    (s'.b.channels = s.b.channels ∧ (∀ c, aliveB s' c = aliveB s c) ∧
      (s'.out = s.out ∨ ∃ r, (r = .alreadyClaimed ∨ r = .invalidChannel) ∧ s'.out = s.out ++ [⟨id, .claimChannelEndReply n r, none⟩])) ∨
    ∃ ch ch' other r ncap, AL.find? ck s.b.channels = some ch ∧ ch.endState e = .unclaimed ∧
      (∃ co, ch.endState (peerEnd e) = .claimed other co) ∧
      (∃ ci, ch'.endState e = .claimed id ci) ∧ (∃ co, ch'.endState (peerEnd e) = .claimed other co) ∧
      (∀ ck2, AL.find? ck2 s'.b.channels = if ck = ck2 then some ch' else AL.find? ck2 s.b.channels) ∧
      (∀ c, aliveB s' c = aliveB s c) ∧
      ((e = .sender ∧ ∃ c, r = .senderClaimed c) ∨ (e = .receiver ∧ r = .receiverClaimed)) ∧
      ∃ A B, s'.out = s.out ++ A ++ B ∧
        ((A = [⟨id, .claimChannelEndReply n r, none⟩] ∧ aliveB s id = true) ∨ (A = [] ∧ aliveB s id = false)) ∧
        ((B = [⟨other, .channelEndClaimed ck e ncap, none⟩] ∧ aliveB s other = true) ∨ (B = [] ∧ aliveB s other = false)) := by
  have hfail : ∀ (r : ClaimRes), (r = .alreadyClaimed ∨ r = .invalidChannel) → Except.ok (s.send id (.claimChannelEndReply n r)) = (Except.ok (s', ok) : H) →
      (s'.b.channels = s.b.channels ∧ (∀ c, aliveB s' c = aliveB s c) ∧
        (s'.out = s.out ∨ ∃ r, (r = .alreadyClaimed ∨ r = .invalidChannel) ∧ s'.out = s.out ++ [⟨id, .claimChannelEndReply n r, none⟩])) := by
    intro r hr h
    simp only [Except.ok.injEq] at h
    have h1 := congrArg Prod.fst h
    simp only at h1
    subst h1
    refine ⟨by simp, fun c => by simp, ?_⟩
    rcases send_cases s id (.claimChannelEndReply n r) none with ⟨_, h2⟩ | ⟨_, h2⟩
    · exact Or.inr ⟨r, hr, h2⟩
    · exact Or.inl h2
  -- the successful case, once the claim is known
  have hok : ∀ (ch ch' : Chan) (other : ConnId) (r : ClaimRes) (ncap : Nat), AL.find? ck s.b.channels = some ch →
      (let s1 := (s.setChannels (AL.insert ck ch' s.b.channels))
       let s2 := s1.updConn id (fun c => match e with
          | .sender => { c with senders := sinsert ck c.senders }
          | .receiver => { c with receivers := sinsert ck c.receivers })
       let (s3, ok) := s2.send id (.claimChannelEndReply n r)
       if (s3.conn? other).isNone then (.error (.inconsistent "claim_channel_end: other conn") : H) else
       let s4 := s3.sendOrRemove other (.channelEndClaimed ck e ncap)
       .ok (s4, ok)) = .ok (s', ok) →
      (∀ ck2, AL.find? ck2 s'.b.channels = if ck = ck2 then some ch' else AL.find? ck2 s.b.channels) ∧
      (∀ c, aliveB s' c = aliveB s c) ∧
      ∃ A B, s'.out = s.out ++ A ++ B ∧
        ((A = [⟨id, .claimChannelEndReply n r, none⟩] ∧ aliveB s id = true) ∨ (A = [] ∧ aliveB s id = false)) ∧
        ((B = [⟨other, .channelEndClaimed ck e ncap, none⟩] ∧ aliveB s other = true) ∨ (B = [] ∧ aliveB s other = false)) := by
    intro ch ch' other r ncap hch h
    cases e
    all_goals
      simp only [] at h
      split at h
      · simp at h
      · simp only [Except.ok.injEq, Prod.mk.injEq] at h
        obtain ⟨rfl, _⟩ := h
        refine ⟨fun ck2 => by simp [AL.find?_insert], fun c => by simp [aliveB_updConn'], ?_⟩
        generalize hS2 : (s.setChannels (AL.insert ck ch' s.b.channels)).updConn id _ = S2
        have hS2o : S2.out = s.out := by subst hS2; simp
        have hS2a : ∀ c, aliveB S2 c = aliveB s c := by intro c; subst hS2; simp [aliveB_updConn']
        rcases send_cases S2 id (.claimChannelEndReply n r) none with ⟨h1, h2⟩ | ⟨h1, h2⟩
        · obtain ⟨B, hB, hB2⟩ := sendOrRemove_out_alive (S2.send id (.claimChannelEndReply n r)).1 (s.out ++ [⟨id, .claimChannelEndReply n r, none⟩])
            (aliveB s) other (.channelEndClaimed ck _ ncap) none (by rw [h2, hS2o]) (fun c => by rw [aliveB_send, hS2a])
          exact ⟨_, B, hB, Or.inl ⟨rfl, by rw [← hS2a]; exact send_ok_alive h1⟩, hB2⟩
        · obtain ⟨B, hB, hB2⟩ := sendOrRemove_out_alive (S2.send id (.claimChannelEndReply n r)).1 s.out
            (aliveB s) other (.channelEndClaimed ck _ ncap) none (by rw [h2, hS2o]) (fun c => by rw [aliveB_send, hS2a])
          exact ⟨[], B, by simpa using hB, Or.inr ⟨rfl, by rw [← hS2a]; exact send_fail_dead h1⟩, hB2⟩
  unfold claimChannelEnd at h
  split at h
  · simp only [okH, Except.ok.injEq, Prod.mk.injEq] at h
    obtain ⟨rfl, _⟩ := h; exact Or.inl ⟨rfl, fun _ => rfl, Or.inl rfl⟩
  · split at h
    · exact Or.inl (hfail _ (Or.inr rfl) h)
    · rename_i ch hch
      cases e with
      | sender =>
        simp only [] at h
        rcases hcs : ch.claimSender id with p | (r | ⟨ch', other, c⟩)
        · simp [hcs] at h
        · simp only [hcs] at h
          exact Or.inl (hfail r (claim_fail_res_sender hcs) h)
        · simp only [hcs] at h
          obtain ⟨a1, a2, a3, a4⟩ := claimSender_spec hcs
          obtain ⟨b1, b2, b3⟩ := hok ch ch' other (.senderClaimed c) 0 hch h
          exact Or.inr ⟨ch, ch', other, .senderClaimed c, 0, hch, a1, a2, a3, a4, b1, b2, Or.inl ⟨rfl, c, rfl⟩, b3⟩
      | receiver =>
        simp only [] at h
        rcases hcs : ch.claimReceiver id cap with p | (r | ⟨ch', other⟩)
        · simp [hcs] at h
        · simp only [hcs] at h
          exact Or.inl (hfail r (claim_fail_res_receiver hcs) h)
        · simp only [hcs] at h
          obtain ⟨a1, a2, a3, a4⟩ := claimReceiver_spec hcs
          obtain ⟨b1, b2, b3⟩ := hok ch ch' other .receiverClaimed cap hch h
          exact Or.inr ⟨ch, ch', other, .receiverClaimed, cap, hch, a1, a2, a3, a4, b1, b2, Or.inr ⟨rfl, rfl⟩, b3⟩

theorem applyOuts_one_none {vs : Views} {o : Out} (h : vs o.to = none) : applyOuts vs [o] = some vs := by
  simp [applyOuts, h]

theorem applyOuts_one_some {vs : Views} {o : Out} {v v' : CV} (h : vs o.to = some v) (hr : cRecv v o.msg = some v') :
    applyOuts vs [o] = some (vs.set o.to v') := by
  simp [applyOuts, h, hr]

theorem claimChannelEnd_presR {s s' : St} {id n ck e cap} {ok : Bool} (h : claimChannelEnd s id n ck e cap = .ok (s', ok)) :
    PresR s s' id (.claimChannelEnd n ck e cap) := by
  rcases claimChannelEnd_result h with ⟨hc, ha, hout⟩ | ⟨ch, ch', other, r, ncap, hch, hun, ⟨co, hpo⟩, ⟨ci, hci⟩, ⟨co', hco'⟩, htbl, ha, hkind, A, B, hout, hA, hB⟩
  · -- nothing claimed
    have hframe : ∀ (vs vs' : Views), Good s vs →
        (∀ x v', vs' x = some v' → ∃ v, vs x = some v ∧ ∀ e2, v'.ends e2 = v.ends e2) → Good s' vs' := by
      intro vs vs' hg hv x v' hx hal ck2 ch2 e2 c2 w h1 h2 _ h4
      obtain ⟨v, hvx, hsame⟩ := hv x v' hx
      rw [hsame]; rw [hc] at h1
      exact hg x v hvx (by rw [← ha]; exact hal) ck2 ch2 e2 c2 w h1 h2 (fun f => f) h4
    rcases hout with hout | ⟨r, hr, hout⟩
    · exact ⟨[], by rw [hout]; simp, fun vs hg _ => ⟨vs, rfl, hframe vs vs hg (fun x v' hx => ⟨v', hx, fun _ => rfl⟩)⟩⟩
    · refine ⟨[⟨id, .claimChannelEndReply n r, none⟩], by rw [hout]; simp, fun vs hg hpend => ?_⟩
      cases hv : vs id with
      | none => exact ⟨vs, applyOuts_one_none hv, hframe vs vs hg (fun x v' hx => ⟨v', hx, fun _ => rfl⟩)⟩
      | some v =>
        have hp : AL.find? n v.claim = some (e, ck) := hpend v hv
        have hrecv : cRecv v (.claimChannelEndReply n r) = some { v with claim := AL.erase n v.claim } := by
          simp only [cRecv, takeAL_of_find hp]
          rcases hr with rfl | rfl <;> cases e <;> rfl
        refine ⟨vs.set id { v with claim := AL.erase n v.claim }, applyOuts_one_some hv hrecv, hframe vs _ hg ?_⟩
        intro x v' hx
        simp only [Views.set] at hx
        split at hx
        · rename_i hxi; subst hxi
          simp only [Option.some.injEq] at hx; subst hx
          exact ⟨v, hv, fun e2 => CV.ends_with_claim v _ e2⟩
        · exact ⟨v', hx, fun _ => rfl⟩
  · -- claimed
    have hal : AliveLe s s' := fun c hc => by rw [← ha c]; exact hc
    have htbl2 : ∀ ck2, ck2 ≠ ck → AL.find? ck2 s'.b.channels = AL.find? ck2 s.b.channels := by
      intro ck2 hne; rw [htbl, if_neg (fun f => hne f.symm)]
    have hnew : AL.find? ck s'.b.channels = some ch' := by rw [htbl]; simp
    have hcfA : cf A = A := by rcases hA with ⟨rfl, _⟩ | ⟨rfl, _⟩ <;> simp
    have hcfB : cf B = B := by rcases hB with ⟨rfl, _⟩ | ⟨rfl, _⟩ <;> simp
    refine ⟨A ++ B, by rw [hout]; simp [List.append_assoc, hcfA, hcfB], fun vs hg hpend => ?_⟩
    -- the reply
    obtain ⟨vsA, hA1, hA2, hA3⟩ : ∃ vsA, applyOuts vs A = some vsA ∧
        (∀ x vA, vsA x = some vA → ∃ v, vs x = some v ∧ (x ≠ id → vA = v) ∧ vA.ends (peerEnd e) = v.ends (peerEnd e) ∧
          ∀ ck2, ck2 ≠ ck → AL.find? ck2 (vA.ends e) = AL.find? ck2 (v.ends e)) ∧
        (aliveB s id = true → ∀ vA, vsA id = some vA → AL.find? ck (vA.ends e) = some .established) := by
      rcases hA with ⟨rfl, hai⟩ | ⟨rfl, hai⟩
      · cases hv : vs id with
        | none =>
          refine ⟨vs, applyOuts_one_none hv, fun x vA hx => ⟨vA, hx, fun _ => rfl, rfl, fun _ _ => rfl⟩, fun _ vA hx => ?_⟩
          rw [hv] at hx; simp at hx
        | some v =>
          have hp : AL.find? n v.claim = some (e, ck) := hpend v hv
          have hrecv : cRecv v (.claimChannelEndReply n r) =
              some (({ v with claim := AL.erase n v.claim } : CV).setEnds e (AL.insert ck .established (v.ends e))) := by
            simp only [cRecv, takeAL_of_find hp]
            rcases hkind with ⟨rfl, c, rfl⟩ | ⟨rfl, rfl⟩ <;> rfl
          refine ⟨vs.set id _, applyOuts_one_some hv hrecv, ?_, ?_⟩
          · intro x vA hx
            simp only [Views.set] at hx
            split at hx
            · rename_i hxi; subst hxi
              simp only [Option.some.injEq] at hx; subst hx
              refine ⟨v, hv, fun f => absurd rfl f, ?_, fun ck2 hne => ?_⟩
              · rw [CV.ends_setEnds_ne _ _ (peerEnd_ne e), CV.ends_with_claim]
              · rw [CV.ends_setEnds_self, AL.find?_insert_ne _ _ (fun f => hne f.symm)]
            · exact ⟨vA, hx, fun _ => rfl, rfl, fun _ _ => rfl⟩
          · intro _ vA hx
            simp only [Views.set, ↓reduceIte, Option.some.injEq] at hx; subst hx
            simp
      · refine ⟨vs, rfl, fun x vA hx => ⟨vA, hx, fun _ => rfl, rfl, fun _ _ => rfl⟩, fun hl => ?_⟩
        rw [hai] at hl; simp at hl
    -- the notification
    obtain ⟨vsB, hB1, hB2, hB3⟩ : ∃ vsB, applyOuts vsA B = some vsB ∧
        (∀ x vB, vsB x = some vB → ∃ vA, vsA x = some vA ∧ (x ≠ other → vB = vA) ∧ vB.ends e = vA.ends e ∧
          ∀ ck2, ck2 ≠ ck → AL.find? ck2 (vB.ends (peerEnd e)) = AL.find? ck2 (vA.ends (peerEnd e))) ∧
        (aliveB s other = true → ∀ vB, vsB other = some vB → AL.find? ck (vB.ends (peerEnd e)) = some .established) := by
      rcases hB with ⟨rfl, hao⟩ | ⟨rfl, hao⟩
      · cases hv : vsA other with
        | none =>
          refine ⟨vsA, applyOuts_one_none hv, fun x vB hx => ⟨vB, hx, fun _ => rfl, rfl, fun _ _ => rfl⟩, fun _ vB hx => ?_⟩
          rw [hv] at hx; simp at hx
        | some vo =>
          obtain ⟨v0, hv0, _, hsame, _⟩ := hA2 other vo hv
          have hpend0 : AL.find? ck (v0.ends (peerEnd e)) = some .pending :=
            hg other v0 hv0 hao ck ch (peerEnd e) co .pending hch hpo (fun f => f) (by rw [peerEnd_peerEnd, hun]; rfl)
          have hrecv : cRecv vo (.channelEndClaimed ck e ncap) =
              some (vo.setEnds (peerEnd e) (AL.insert ck .established (vo.ends (peerEnd e)))) := by
            simp only [cRecv, hsame, hpend0]
          refine ⟨vsA.set other _, applyOuts_one_some hv hrecv, ?_, ?_⟩
          · intro x vB hx
            simp only [Views.set] at hx
            split at hx
            · rename_i hxi; subst hxi
              simp only [Option.some.injEq] at hx; subst hx
              refine ⟨vo, hv, fun f => absurd rfl f, ?_, fun ck2 hne => ?_⟩
              · rw [CV.ends_setEnds_ne _ _ (fun f => peerEnd_ne e f.symm)]
              · rw [CV.ends_setEnds_self, AL.find?_insert_ne _ _ (fun f => hne f.symm)]
            · exact ⟨vB, hx, fun _ => rfl, rfl, fun _ _ => rfl⟩
          · intro _ vB hx
            simp only [Views.set, ↓reduceIte, Option.some.injEq] at hx; subst hx
            simp
      · refine ⟨vsA, rfl, fun x vB hx => ⟨vB, hx, fun _ => rfl, rfl, fun _ _ => rfl⟩, fun hl => ?_⟩
        rw [hao] at hl; simp at hl
    refine ⟨vsB, by rw [applyOuts_append, hA1]; exact hB1, good_one_cookie ck hal hg htbl2 ?_ ?_⟩
    · intro x vB hx
      obtain ⟨vA, hxa, _, he1, he2⟩ := hB2 x vB hx
      obtain ⟨v, hxv, _, hp1, hp2⟩ := hA2 x vA hxa
      refine ⟨v, hxv, fun ck2 e2 hne => ?_⟩
      rcases eq_or_peer e e2 with he | he
      · subst he; rw [he1, hp2 ck2 hne]
      · subst he; rw [he2 ck2 hne, hp1]
    · intro x vB hx halx ch2 e2 c2 w h1 h2 h4
      rw [hnew] at h1; simp only [Option.some.injEq] at h1; subst h1
      have halx' : aliveB s x = true := hal x halx
      obtain ⟨vA, hxa, hne1, he1, _⟩ := hB2 x vB hx
      rcases eq_or_peer e e2 with he | he
      · subst he
        rw [hci] at h2; simp only [EndState.claimed.injEq] at h2
        obtain ⟨rfl, _⟩ := h2
        rw [hco'] at h4; simp only [wantOf, Option.some.injEq] at h4; subst h4
        rw [he1]; exact hA3 halx' vA hxa
      · subst he
        rw [hco'] at h2; simp only [EndState.claimed.injEq] at h2
        obtain ⟨rfl, _⟩ := h2
        rw [peerEnd_peerEnd, hci] at h4; simp only [wantOf, Option.some.injEq] at h4; subst h4
        exact hB3 halx' vB hx

/-! ### items and capacity: the table changes in numbers only -/

/-- `ch'` is `ch` up to capacities -/
def SameKinds (ch ch' : Chan) : Prop :=
  (∀ e x c, ch'.endState e = .claimed x c → ∃ c0, ch.endState e = .claimed x c0) ∧ (∀ e, wantOf (ch'.endState e) = wantOf (ch.endState e))

theorem addCapacity_spec {ch ch' : Chan} {id : ConnId} {cap : Nat} {fwd : Option (ConnId × Nat)}
    (h : ch.addCapacity id cap = .ok (some (ch', fwd))) :
    SameKinds ch ch' ∧ ∀ sid diff, fwd = some (sid, diff) →
      (∃ c1, ch.endState .sender = .claimed sid c1) ∧ (∃ r c2, ch.endState .receiver = .claimed r c2) := by
  simp only [Chan.addCapacity] at h
  repeat' (split at h)
  all_goals (simp only [Except.ok.injEq, Option.some.injEq, Prod.mk.injEq, reduceCtorEq] at h)
  all_goals (try (exact h.elim))
  all_goals (obtain ⟨rfl, rfl⟩ := h)
  all_goals
    refine ⟨⟨?_, ?_⟩, ?_⟩
    · intro e x c hc; cases e <;> simp_all [Chan.endState]
    · intro e; cases e <;> simp_all [Chan.endState, wantOf]
    · intro sid diff hf; simp_all [Chan.endState]

theorem sendItem_spec {ch ch' : Chan} {id rid : ConnId} {add : Option Nat} (h : ch.sendItem id = .ok (.ok (ch', rid, add))) :
    SameKinds ch ch' ∧ (∃ c1, ch.endState .sender = .claimed id c1) ∧ (∃ c2, ch.endState .receiver = .claimed rid c2) := by
  simp only [Chan.sendItem] at h
  repeat' (split at h)
  all_goals (simp only [Except.ok.injEq, Prod.mk.injEq, reduceCtorEq] at h)
  all_goals (try (exact h.elim))
  all_goals (obtain ⟨rfl, rfl, rfl⟩ := h)
  all_goals
    refine ⟨⟨?_, ?_⟩, ?_, ?_⟩
    · intro e x c hc; cases e <;> simp_all [Chan.endState]
    · intro e; cases e <;> simp_all [Chan.endState, wantOf]
    · simp_all [Chan.endState]
    · simp_all [Chan.endState]

/-- a message that only an established end accepts, sent to the owner of such an end -/
def CapMsg (s : St) (ch : Chan) (ck : Cookie) (o : Out) : Prop :=
  aliveB s o.to = true ∧
  ((∃ p, o.msg = .itemReceived ck p) ∧ (∃ c, ch.endState .receiver = .claimed o.to c) ∧ (∃ x c, ch.endState .sender = .claimed x c) ∨
   (∃ n, o.msg = .addChannelCapacity ck n) ∧ (∃ c, ch.endState .sender = .claimed o.to c) ∧ (∃ x c, ch.endState .receiver = .claimed x c))

theorem pres_caps {s s' : St} {ck : Cookie} {ch ch' : Chan} {l : List Out} (hch : AL.find? ck s.b.channels = some ch)
    (htbl : ∀ ck2, AL.find? ck2 s'.b.channels = if ck = ck2 then some ch' else AL.find? ck2 s.b.channels)
    (hk : SameKinds ch ch') (hal : AliveLe s s') (hout : cf s'.out = cf s.out ++ l) (hl : ∀ o ∈ l, CapMsg s ch ck o) : Pres noEx s s' := by
  refine ⟨l, hout, fun vs hg => ⟨vs, ?_, ?_⟩⟩
  · clear hout
    induction l with
    | nil => rfl
    | cons o l ih =>
      simp only [applyOuts]
      obtain ⟨hao, hm⟩ := hl o (by simp)
      cases hv : vs o.to with
      | none => exact ih (fun o' ho' => hl o' (by simp [ho']))
      | some v =>
        have hacc : cRecv v o.msg = some v := by
          rcases hm with ⟨⟨p, hp⟩, ⟨c, hr⟩, ⟨x, c', hs⟩⟩ | ⟨⟨n, hp⟩, ⟨c, hs⟩, ⟨x, c', hr⟩⟩
          · have := hg o.to v hv hao ck ch .receiver c .established hch hr (fun f => f) (by simp [peerEnd, hs, wantOf])
            rw [hp]; simp only [cRecv]; exact if_pos this
          · have := hg o.to v hv hao ck ch .sender c .established hch hs (fun f => f) (by simp [peerEnd, hr, wantOf])
            rw [hp]; simp only [cRecv]; exact if_pos this
        simp only [hacc, Views.set_self vs _ _ hv]
        exact ih (fun o' ho' => hl o' (by simp [ho']))
  · intro x v hv hax ck2 ch2 e2 c2 w h1 h2 _ h4
    rw [htbl] at h1
    split at h1
    · rename_i hck; subst hck
      simp only [Option.some.injEq] at h1; subst h1
      obtain ⟨c0, hc0⟩ := hk.1 e2 x c2 h2
      rw [hk.2] at h4
      exact hg x v hv (hal x hax) ck ch e2 c0 w hch hc0 (fun f => f) h4
    · exact hg x v hv (hal x hax) ck2 ch2 e2 c2 w h1 h2 (fun f => f) h4

theorem addChannelCapacity_pres {s s' : St} {id ck cap} {ok : Bool} (h : addChannelCapacity s id ck cap = .ok (s', ok)) : Pres noEx s s' := by
  have hal := addChannelCapacity_alive h
  unfold addChannelCapacity at h
  split at h
  · simp only [okH, Except.ok.injEq, Prod.mk.injEq] at h; obtain ⟨rfl, _⟩ := h; exact Pres.refl _
  · rename_i ch hch
    split at h
    · simp at h
    · split at h
      · simp at h
      · rename_i s2 hrm
        simp only [okH, Except.ok.injEq, Prod.mk.injEq] at h; obtain ⟨rfl, _⟩ := h
        exact (removeChannelEnd_pres hrm).weaken
    · rename_i ch' fwd hac
      obtain ⟨hk, hf⟩ := addCapacity_spec hac
      simp only [] at h
      split at h
      · simp only [okH, Except.ok.injEq, Prod.mk.injEq] at h; obtain ⟨rfl, _⟩ := h
        exact pres_caps (l := []) hch (fun ck2 => by simp [AL.find?_insert]) hk hal (by simp) (by simp)
      · rename_i sid diff
        obtain ⟨⟨c1, hs1⟩, ⟨r, c2, hr2⟩⟩ := hf sid diff rfl
        split at h
        · simp only [okH, Except.ok.injEq, Prod.mk.injEq] at h; obtain ⟨rfl, _⟩ := h
          exact pres_caps (l := []) hch (fun ck2 => by simp [AL.find?_insert]) hk hal (by simp) (by simp)
        · simp only [okH, Except.ok.injEq, Prod.mk.injEq] at h; obtain ⟨rfl, _⟩ := h
          obtain ⟨B, hB, hB2⟩ := sendOrRemove_out_alive (s.setChannels (AL.insert ck ch' s.b.channels)) s.out (aliveB s) sid
            (.addChannelCapacity ck diff) none (by simp) (fun c => by simp)
          refine pres_caps (l := B) hch (fun ck2 => by simp [AL.find?_insert]) hk hal (by rw [hB]; rcases hB2 with ⟨rfl, _⟩ | ⟨rfl, _⟩ <;> simp) ?_
          intro o ho
          rcases hB2 with ⟨rfl, hao⟩ | ⟨rfl, _⟩
          · simp only [List.mem_singleton] at ho; subst ho
            exact ⟨hao, Or.inr ⟨⟨diff, rfl⟩, ⟨c1, hs1⟩, ⟨r, c2, hr2⟩⟩⟩
          · simp at ho

theorem sendItem_pres {s s' : St} {id ck p} {ok : Bool} (h : sendItem s id ck p = .ok (s', ok)) : Pres noEx s s' := by
  have hal := sendItem_alive h
  unfold sendItem at h
  split at h
  · simp only [okH, Except.ok.injEq, Prod.mk.injEq] at h; obtain ⟨rfl, _⟩ := h; exact Pres.refl _
  · rename_i sender hsender
    split at h
    · simp only [okH, Except.ok.injEq, Prod.mk.injEq] at h; obtain ⟨rfl, _⟩ := h; exact Pres.refl _
    · rename_i ch hch
      split at h
      · simp at h
      · -- the receiver has not been claimed: both ends go
        split at h
        · simp at h
        · rename_i s1 h1
          split at h
          · simp at h
          · rename_i s2 h2
            simp only [okH, Except.ok.injEq, Prod.mk.injEq] at h; obtain ⟨rfl, _⟩ := h
            exact Pres.trans (removeChannelEnd_pres h1).weaken (removeChannelEnd_pres h2).weaken
      · split at h
        · simp at h
        · rename_i s1 h1
          simp only [okH, Except.ok.injEq, Prod.mk.injEq] at h; obtain ⟨rfl, _⟩ := h
          exact (removeChannelEnd_pres h1).weaken
      · simp only [okH, Except.ok.injEq, Prod.mk.injEq] at h; obtain ⟨rfl, _⟩ := h; exact Pres.refl _
      · rename_i ch' rid add hsi
        obtain ⟨hk, ⟨c1, hs1⟩, ⟨c2, hr2⟩⟩ := sendItem_spec hsi
        simp only [] at h
        split at h
        · simp only [okH, Except.ok.injEq, Prod.mk.injEq] at h; obtain ⟨rfl, _⟩ := h
          exact pres_caps (l := []) hch (fun ck2 => by simp [AL.find?_insert]) hk hal (by simp) (by simp)
        · obtain ⟨B, hB, hB2⟩ := sendOrRemove_out_alive (s.setChannels (AL.insert ck ch' s.b.channels)) s.out (aliveB s) rid
            (.itemReceived ck p) (some sender.version) (by simp) (fun c => by simp)
          have hBm : ∀ o ∈ B, CapMsg s ch ck o := by
            intro o ho
            rcases hB2 with ⟨rfl, hao⟩ | ⟨rfl, _⟩
            · simp only [List.mem_singleton] at ho; subst ho
              exact ⟨hao, Or.inl ⟨⟨p, rfl⟩, ⟨c2, hr2⟩, ⟨id, c1, hs1⟩⟩⟩
            · simp at ho
          have hBc : cf B = B := by rcases hB2 with ⟨rfl, _⟩ | ⟨rfl, _⟩ <;> simp
          split at h
          · rename_i nadd
            simp only [Except.ok.injEq] at h
            have h1 := congrArg Prod.fst h
            simp only at h1
            subst h1
            rcases send_out_alive ((s.setChannels (AL.insert ck ch' s.b.channels)).sendOrRemove rid (.itemReceived ck p) (some sender.version))
              (St.mk s.b s.w (s.out ++ B)) id (.addChannelCapacity ck nadd) none hB (fun c => by simp; rfl) with ⟨h2, h3⟩ | ⟨h2, h3⟩
            · refine pres_caps (l := B ++ [⟨id, .addChannelCapacity ck nadd, none⟩]) hch (fun ck2 => by simp [AL.find?_insert]) hk hal
                (by rw [h2]; simp [hBc]) ?_
              intro o ho
              simp only [List.mem_append, List.mem_singleton] at ho
              rcases ho with ho | rfl
              · exact hBm o ho
              · exact ⟨h3, Or.inr ⟨⟨nadd, rfl⟩, ⟨c1, hs1⟩, ⟨rid, c2, hr2⟩⟩⟩
            · exact pres_caps (l := B) hch (fun ck2 => by simp [AL.find?_insert]) hk hal (by rw [h2]; simp [hBc]) hBm
          · simp only [okH, Except.ok.injEq, Prod.mk.injEq] at h; obtain ⟨rfl, _⟩ := h
            exact pres_caps (l := B) hch (fun ck2 => by simp [AL.find?_insert]) hk hal (by rw [hB]; simp [hBc]) hBm

/-! ### dispatch, connection teardown, the work loop -/

theorem handleMessage_presR {s s' : St} {id : ConnId} {m : Req} {ok : Bool} (hr : handleMessage s id m = .ok (s', ok)) :
    PresR s s' id m := by
  have hal := handleMessage_alive hr
  cases m <;> simp only [handleMessage] at hr
  case createObject => exact .of_pres (.frame (createObject_cl hr).1 hal (createObject_c hr))
  case destroyObject => exact .of_pres (.frame (destroyObject_cl hr).1 hal (destroyObject_c hr))
  case createService => exact .of_pres (.frame (createService_cl hr).1 hal (createService_c hr))
  case createService2 => exact .of_pres (.frame (createService2_cl hr).1 hal (createService2_c hr))
  case destroyService => exact .of_pres (.frame (destroyService_cl hr).1 hal (destroyService_c hr))
  case callFunction => exact .of_pres (.frame (callFunctionImpl_cl hr).1 hal (callFunctionImpl_c hr))
  case callFunction2 => exact .of_pres (.frame (callFunction2_cl hr).1 hal (callFunction2_c hr))
  case callFunctionReply => exact .of_pres (.frame (callFunctionReply_cl hr).1 hal (callFunctionReply_c hr))
  case abortFunctionCall => exact .of_pres (.frame (abortFunctionCall_cl hr).1 hal (abortFunctionCall_c hr))
  case subscribeEvent => exact .of_pres (.frame (subscribeEvent_cl hr).1 hal (subscribeEvent_c hr))
  case unsubscribeEvent => exact .of_pres (.frame (unsubscribeEvent_cl hr).1 hal (unsubscribeEvent_c hr))
  case emitEvent => exact .of_pres (.frame (emitEvent_cl hr).1 hal (emitEvent_c hr))
  case queryServiceVersion => exact .of_pres (.frame (queryServiceVersion_cl hr).1 hal (queryServiceVersion_c hr))
  case queryServiceInfo => exact .of_pres (.frame (queryServiceInfo_cl hr).1 hal (queryServiceInfo_c hr))
  case subscribeService => exact .of_pres (.frame (subscribeService_cl hr).1 hal (subscribeService_c hr))
  case unsubscribeService => exact .of_pres (.frame (unsubscribeService_cl hr).1 hal (unsubscribeService_c hr))
  case subscribeAllEvents => exact .of_pres (.frame (subscribeAllEvents_cl hr).1 hal (subscribeAllEvents_c hr))
  case unsubscribeAllEvents => exact .of_pres (.frame (unsubscribeAllEvents_cl hr).1 hal (unsubscribeAllEvents_c hr))
  case createChannel => exact createChannel_presR hr
  case closeChannelEnd => exact closeChannelEnd_presR hr
  case claimChannelEnd => exact claimChannelEnd_presR hr
  case sendItem => exact .of_pres (sendItem_pres hr)
  case addChannelCapacity => exact .of_pres (addChannelCapacity_pres hr)
  case sync => exact .of_pres (.frame (sync_cl hr).1 hal (sync_c hr))
  case createBusListener => exact .of_pres (.frame (createBusListener_channels hr) hal (createBusListener_c hr))
  case destroyBusListener => exact .of_pres (.frame (destroyBusListener_channels hr) hal (destroyBusListener_c hr))
  case addFilter f => exact .of_pres (.frame (updListener_channels hr) hal (updListener_c hr))
  case removeFilter f => exact .of_pres (.frame (updListener_channels hr) hal (updListener_c hr))
  case clearFilters => exact .of_pres (.frame (updListener_channels hr) hal (updListener_c hr))
  case startBusListener => exact .of_pres (.frame (startBusListener_channels hr) hal (startBusListener_c hr))
  case stopBusListener => exact .of_pres (.frame (stopBusListener_channels hr) hal (stopBusListener_c hr))
  case registerIntrospection => exact .of_pres (.frame (registerIntrospection_cl hr).1 hal (registerIntrospection_c hr))
  case queryIntrospection => exact .of_pres (.frame (queryIntrospection_cl hr).1 hal (queryIntrospection_c hr))
  case queryIntrospectionReply => exact .of_pres (.frame (queryIntrospectionReply_cl hr).1 hal (queryIntrospectionReply_c hr))
  case other => simp [errH] at hr; exact .of_pres (hr.1 ▸ Pres.refl _)

theorem shutdownConnection_pres {s s' : St} {id b} (hr : shutdownConnection s id b = .ok s') : Pres noEx s s' := by
  unfold shutdownConnection at hr
  split at hr
  · simp at hr; exact hr ▸ Pres.refl _
  · rename_i conn hconn
    simp only [] at hr
    repeat' (split at hr)
    all_goals (try (simp at hr; done))
    rename_i s1 h1 _ s2 h2 _ s3 h3 _ s4 h4 _ s5 h5 _ s6 h6
    have i1 : Pres noEx s s1 := by
      refine foldE_inv (Pres noEx s) _ (fun s a s' hp hr => Pres.trans hp (.frame (removeObject_cl hr).1 (removeObject_alive hr) (removeObject_c hr))) _ _ _ ?_ h1
      apply foldl_inv (Pres noEx s) _ (fun s a hp => Pres.trans hp (.frame (by simp) (fun c hc => by simpa using hc) (by simp [SameC])))
      refine Pres.frame (by split <;> (try split) <;> simp) ?_ ?_
      · apply AliveLe.erase; split <;> (try split) <;> simp
      · split <;> (try split) <;> simp [SameC]
    have i2 := foldE_inv (Pres noEx s) _ (fun s a s' hp hr => Pres.trans hp (.frame (removeEventSubscription_cl hr).1 (removeEventSubscription_alive hr) (removeEventSubscription_c hr))) _ _ _ i1 h2
    have i3 := foldE_inv (Pres noEx s) _ (fun s a s' hp hr => Pres.trans hp (.frame (removeAllEventsSubscription_cl hr).1 (removeAllEventsSubscription_alive hr) (removeAllEventsSubscription_c hr))) _ _ _ i2 h3
    have i4 := foldE_inv (Pres noEx s) _ (fun s a s' hp hr => Pres.trans hp (.frame (removeSubscription_cl hr).1 (removeSubscription_alive hr) (removeSubscription_c hr))) _ _ _ i3 h4
    have i5 := foldE_inv (Pres noEx s) _ (fun s a s' hp hr => Pres.trans hp (removeChannelEnd_pres hr).weaken) _ _ _ i4 h5
    have i6 := foldE_inv (Pres noEx s) _ (fun s a s' hp hr => Pres.trans hp (removeChannelEnd_pres hr).weaken) _ _ _ i5 h6
    refine Pres.trans ?_ (.frame (removeIntrospectionConn_cl hr).1 (removeIntrospectionConn_alive hr) (removeIntrospectionConn_c hr))
    refine Pres.trans (b := List.foldl (fun s (p : Nat × (Nat × ConnId)) => (s.setWAbortCalls ((p.2.1, p.2.2) :: s.w.abortCalls))) s6 conn.calls) ?_
      (.frame (by simp) (AliveLe.of_conns (by simp)) (by simp [SameC]))
    apply foldl_inv (Pres noEx s) _ ?_ _ _ i6
    intro s a hp
    exact Pres.trans hp (.frame rfl (AliveLe.refl _) (SameC.refl _))

theorem processOne_pres {s s' : St} (hr : processOne s = some (.ok s')) : Pres noEx s s' := by
  unfold processOne at hr
  repeat' (split at hr)
  all_goals (try (simp only [Option.some.injEq, reduceCtorEq] at hr))
  all_goals first
    | (refine Pres.trans (b := s.setWRemoveConns _) ?_ (shutdownConnection_pres hr); exact .frame rfl (AliveLe.refl _) (SameC.refl _))
    | (refine Pres.trans (b := s.setWAbortCalls _) ?_ (.frame (abortCall_cl hr).1 (abortCall_alive hr) (abortCall_c hr)); exact .frame rfl (AliveLe.refl _) (SameC.refl _))
    | (simp only [Except.ok.injEq] at hr; subst hr; refine Pres.frame ?_ ?_ ?_ <;> first | (simp; done) | (exact AliveLe.of_conns (by simp)) | (simp [SameC]; done))
    | (simp only [Except.ok.injEq] at hr; subst hr
       refine Pres.frame ?_ ?_ ?_
       · split <;> simp
       · split <;> exact AliveLe.of_conns (by simp)
       · split <;> simp [SameC])
    | (simp only [Except.ok.injEq] at hr; subst hr
       refine Pres.frame (by simp) (AliveLe.trans (AliveLe.of_conns (by simp)) (emitBusEvent_alive _ _)) (SameC.trans (by simp [SameC]) (emitBusEvent_c _ _)))
    | (split at hr <;> (try split at hr) <;> (try simp only [Except.ok.injEq, reduceCtorEq] at hr) <;>
        first
          | (exact hr.elim)
          | (subst hr
             refine Pres.frame ?_ ?_ ?_
             · simp
             · first
                 | (refine AliveLe.of_conns ?_; simp; done)
                 | (intro c hc; simp only [aliveB_sendOrRemove] at hc
                    rw [aliveB_setConn] at hc
                    exact AliveLe.conn_some ‹_› c (by simpa using hc))
             · simp [SameC]))

theorem processLoop_pres : ∀ (fuel : Nat) (s s' : St), processLoop fuel s = .ok s' → Pres noEx s s' := by
  intro fuel
  induction fuel with
  | zero => intro s s' hr; simp [processLoop] at hr
  | succ n ih =>
    intro s s' hr
    simp only [processLoop] at hr
    split at hr
    · simp at hr; exact hr ▸ Pres.refl _
    · simp at hr
    · exact Pres.trans (processOne_pres ‹_›) (ih _ _ hr)

/-! ### who owns channel ends -/

/-- every claimed end of the table after is claimed by the same connection before, or by `new` -/
def OwnSub (new : Option ConnId) (s s' : St) : Prop :=
  ∀ ck ch' e x c, AL.find? ck s'.b.channels = some ch' → ch'.endState e = .claimed x c →
    some x = new ∨ ∃ ch c0, AL.find? ck s.b.channels = some ch ∧ ch.endState e = .claimed x c0

theorem OwnSub.of_eq {new : Option ConnId} {s s' : St} (h : s'.b.channels = s.b.channels) : OwnSub new s s' := by
  intro ck ch' e x c h1 h2; rw [h] at h1; exact Or.inr ⟨ch', c, h1, h2⟩

theorem OwnSub.refl (new : Option ConnId) (s : St) : OwnSub new s s := OwnSub.of_eq rfl

theorem OwnSub.trans {new : Option ConnId} {a b c : St} (h1 : OwnSub new a b) (h2 : OwnSub new b c) : OwnSub new a c := by
  intro ck ch' e x cc hf he
  rcases h2 ck ch' e x cc hf he with h | ⟨ch, c0, hf', he'⟩
  · exact Or.inl h
  · exact h1 ck ch e x c0 hf' he'

theorem OwnSub.mono {new : Option ConnId} {s s' : St} (h : OwnSub none s s') : OwnSub new s s' := by
  intro ck ch' e x c hf he
  rcases h ck ch' e x c hf he with h | h
  · simp at h
  · exact Or.inr h

theorem removeChannelEnd_own {s s' : St} {ck : Cookie} {e : ChanEnd} {owner : Option ConnId}
    (h : removeChannelEnd s ck e owner = .ok s') : OwnSub none s s' := by
  rcases removeChannelEnd_result h with ⟨_, rfl⟩ | ⟨ch, ch', other, hch, hcl, hres⟩
  · exact OwnSub.refl _ _
  · obtain ⟨c1, c2, _, _⟩ := close_spec hcl
    intro ck2 ch2 e2 x c hf he
    right
    rcases hres with ⟨_, htbl⟩ | ⟨o, _, htbl, _⟩
    · rw [htbl] at hf; split at hf
      · simp at hf
      · exact ⟨ch2, c, hf, he⟩
    · rw [htbl] at hf; split at hf
      · rename_i hk; subst hk
        simp only [Option.some.injEq] at hf; subst hf
        rcases eq_or_peer e e2 with h2 | h2
        · subst h2; rw [c1] at he; simp at he
        · subst h2; rw [c2] at he; exact ⟨ch, c, hch, he⟩
      · exact ⟨ch2, c, hf, he⟩

theorem sameKinds_own {new : Option ConnId} {s s' : St} {ck : Cookie} {ch ch' : Chan} (hch : AL.find? ck s.b.channels = some ch)
    (htbl : ∀ ck2, AL.find? ck2 s'.b.channels = if ck = ck2 then some ch' else AL.find? ck2 s.b.channels) (hk : SameKinds ch ch') :
    OwnSub new s s' := by
  intro ck2 ch2 e2 x c hf he
  right
  rw [htbl] at hf; split at hf
  · rename_i h; subst h
    simp only [Option.some.injEq] at hf; subst hf
    obtain ⟨c0, hc0⟩ := hk.1 e2 x c he
    exact ⟨ch, c0, hch, hc0⟩
  · exact ⟨ch2, c, hf, he⟩

theorem handleMessage_own {s s' : St} {id : ConnId} {m : Req} {ok : Bool} (hr : handleMessage s id m = .ok (s', ok)) :
    OwnSub (some id) s s' := by
  cases m <;> simp only [handleMessage] at hr
  case createObject => exact .of_eq (createObject_cl hr).1
  case destroyObject => exact .of_eq (destroyObject_cl hr).1
  case createService => exact .of_eq (createService_cl hr).1
  case createService2 => exact .of_eq (createService2_cl hr).1
  case destroyService => exact .of_eq (destroyService_cl hr).1
  case callFunction => exact .of_eq (callFunctionImpl_cl hr).1
  case callFunction2 => exact .of_eq (callFunction2_cl hr).1
  case callFunctionReply => exact .of_eq (callFunctionReply_cl hr).1
  case abortFunctionCall => exact .of_eq (abortFunctionCall_cl hr).1
  case subscribeEvent => exact .of_eq (subscribeEvent_cl hr).1
  case unsubscribeEvent => exact .of_eq (unsubscribeEvent_cl hr).1
  case emitEvent => exact .of_eq (emitEvent_cl hr).1
  case queryServiceVersion => exact .of_eq (queryServiceVersion_cl hr).1
  case queryServiceInfo => exact .of_eq (queryServiceInfo_cl hr).1
  case subscribeService => exact .of_eq (subscribeService_cl hr).1
  case unsubscribeService => exact .of_eq (unsubscribeService_cl hr).1
  case subscribeAllEvents => exact .of_eq (subscribeAllEvents_cl hr).1
  case unsubscribeAllEvents => exact .of_eq (unsubscribeAllEvents_cl hr).1
  case createChannel n e cap =>
    rcases createChannel_result hr with rfl | ⟨ch, cap', he, hp, htbl, _⟩
    · exact OwnSub.refl _ _
    · intro ck2 ch2 e2 x c hf he2
      rw [htbl] at hf; split at hf
      · simp only [Option.some.injEq] at hf; subst hf
        rcases eq_or_peer e e2 with h2 | h2
        · subst h2; rw [he] at he2; simp only [EndState.claimed.injEq] at he2; exact Or.inl (by rw [he2.1])
        · subst h2; rw [hp] at he2; simp at he2
      · exact Or.inr ⟨ch2, c, hf, he2⟩
  case closeChannelEnd n ck e =>
    rcases closeChannelEnd_result hr with ⟨hc, _, _⟩ | ⟨r, s1, hc1, _, _, _, hrest⟩
    · exact .of_eq hc
    · rcases hrest with ⟨owner, hrm⟩ | ⟨rfl, _⟩
      · exact OwnSub.trans (.of_eq hc1) (removeChannelEnd_own hrm).mono
      · exact .of_eq hc1
  case claimChannelEnd n ck e cap =>
    rcases claimChannelEnd_result hr with ⟨hc, _, _⟩ | ⟨ch, ch', other, r, ncap, hch, hun, ⟨co, hpo⟩, ⟨ci, hci⟩, ⟨co', hco'⟩, htbl, _⟩
    · exact .of_eq hc
    · intro ck2 ch2 e2 x c hf he2
      rw [htbl] at hf; split at hf
      · rename_i hk; subst hk
        simp only [Option.some.injEq] at hf; subst hf
        rcases eq_or_peer e e2 with h2 | h2
        · subst h2; rw [hci] at he2; simp only [EndState.claimed.injEq] at he2; exact Or.inl (by rw [he2.1])
        · subst h2; rw [hco'] at he2; simp only [EndState.claimed.injEq] at he2
          exact Or.inr ⟨ch, co, hch, by rw [← he2.1]; exact hpo⟩
      · exact Or.inr ⟨ch2, c, hf, he2⟩
  case sendItem ck p =>
    unfold sendItem at hr
    split at hr
    · simp only [okH, Except.ok.injEq, Prod.mk.injEq] at hr; obtain ⟨rfl, _⟩ := hr; exact OwnSub.refl _ _
    · split at hr
      · simp only [okH, Except.ok.injEq, Prod.mk.injEq] at hr; obtain ⟨rfl, _⟩ := hr; exact OwnSub.refl _ _
      · rename_i ch hch
        split at hr
        · simp at hr
        · split at hr
          · simp at hr
          · rename_i s1 h1
            split at hr
            · simp at hr
            · rename_i s2 h2
              simp only [okH, Except.ok.injEq, Prod.mk.injEq] at hr; obtain ⟨rfl, _⟩ := hr
              exact (OwnSub.trans (removeChannelEnd_own h1) (removeChannelEnd_own h2)).mono
        · split at hr
          · simp at hr
          · rename_i s1 h1
            simp only [okH, Except.ok.injEq, Prod.mk.injEq] at hr; obtain ⟨rfl, _⟩ := hr
            exact (removeChannelEnd_own h1).mono
        · simp only [okH, Except.ok.injEq, Prod.mk.injEq] at hr; obtain ⟨rfl, _⟩ := hr; exact OwnSub.refl _ _
        · rename_i ch' rid add hsi
          obtain ⟨hk, _, _⟩ := sendItem_spec hsi
          simp only [] at hr
          refine sameKinds_own hch ?_ hk
          repeat' (split at hr)
          all_goals (try (simp only [okH, Except.ok.injEq, Prod.mk.injEq] at hr))
          all_goals (try (obtain ⟨rfl, _⟩ := hr))
          all_goals (try (have h1 := congrArg Prod.fst hr; simp only at h1; subst h1))
          all_goals (intro ck2; simp [AL.find?_insert])
  case addChannelCapacity ck cap =>
    unfold addChannelCapacity at hr
    split at hr
    · simp only [okH, Except.ok.injEq, Prod.mk.injEq] at hr; obtain ⟨rfl, _⟩ := hr; exact OwnSub.refl _ _
    · rename_i ch hch
      split at hr
      · simp at hr
      · split at hr
        · simp at hr
        · rename_i s2 hrm
          simp only [okH, Except.ok.injEq, Prod.mk.injEq] at hr; obtain ⟨rfl, _⟩ := hr
          exact (removeChannelEnd_own hrm).mono
      · rename_i ch' fwd hac
        obtain ⟨hk, _⟩ := addCapacity_spec hac
        simp only [] at hr
        refine sameKinds_own hch ?_ hk
        repeat' (split at hr)
        all_goals (simp only [okH, Except.ok.injEq, Prod.mk.injEq] at hr; obtain ⟨rfl, _⟩ := hr)
        all_goals (intro ck2; simp [AL.find?_insert])
  case sync => exact .of_eq (sync_cl hr).1
  case createBusListener => exact .of_eq (createBusListener_channels hr)
  case destroyBusListener => exact .of_eq (destroyBusListener_channels hr)
  case addFilter f => exact .of_eq (updListener_channels hr)
  case removeFilter f => exact .of_eq (updListener_channels hr)
  case clearFilters => exact .of_eq (updListener_channels hr)
  case startBusListener => exact .of_eq (startBusListener_channels hr)
  case stopBusListener => exact .of_eq (stopBusListener_channels hr)
  case registerIntrospection => exact .of_eq (registerIntrospection_cl hr).1
  case queryIntrospection => exact .of_eq (queryIntrospection_cl hr).1
  case queryIntrospectionReply => exact .of_eq (queryIntrospectionReply_cl hr).1
  case other => simp [errH] at hr; exact hr.1 ▸ OwnSub.refl _ _

theorem shutdownConnection_own {s s' : St} {id b} (hr : shutdownConnection s id b = .ok s') : OwnSub none s s' := by
  unfold shutdownConnection at hr
  split at hr
  · simp at hr; exact hr ▸ OwnSub.refl _ _
  · rename_i conn hconn
    simp only [] at hr
    repeat' (split at hr)
    all_goals (try (simp at hr; done))
    rename_i s1 h1 _ s2 h2 _ s3 h3 _ s4 h4 _ s5 h5 _ s6 h6
    have i1 : OwnSub none s s1 := by
      refine foldE_inv (OwnSub none s) _ (fun s a s' hp hr => OwnSub.trans hp (.of_eq (removeObject_cl hr).1)) _ _ _ ?_ h1
      apply foldl_inv (OwnSub none s) _ (fun s a hp => OwnSub.trans hp (.of_eq (by simp)))
      exact .of_eq (by split <;> (try split) <;> simp)
    have i2 := foldE_inv (OwnSub none s) _ (fun s a s' hp hr => OwnSub.trans hp (.of_eq (removeEventSubscription_cl hr).1)) _ _ _ i1 h2
    have i3 := foldE_inv (OwnSub none s) _ (fun s a s' hp hr => OwnSub.trans hp (.of_eq (removeAllEventsSubscription_cl hr).1)) _ _ _ i2 h3
    have i4 := foldE_inv (OwnSub none s) _ (fun s a s' hp hr => OwnSub.trans hp (.of_eq (removeSubscription_cl hr).1)) _ _ _ i3 h4
    have i5 := foldE_inv (OwnSub none s) _ (fun s a s' hp hr => OwnSub.trans hp (removeChannelEnd_own hr)) _ _ _ i4 h5
    have i6 := foldE_inv (OwnSub none s) _ (fun s a s' hp hr => OwnSub.trans hp (removeChannelEnd_own hr)) _ _ _ i5 h6
    refine OwnSub.trans ?_ (.of_eq (removeIntrospectionConn_cl hr).1)
    refine OwnSub.trans (b := List.foldl (fun s (p : Nat × (Nat × ConnId)) => (s.setWAbortCalls ((p.2.1, p.2.2) :: s.w.abortCalls))) s6 conn.calls) ?_ (.of_eq (by simp))
    apply foldl_inv (OwnSub none s) _ ?_ _ _ i6
    intro s a hp
    exact OwnSub.trans hp (.of_eq rfl)

theorem processOne_own {s s' : St} (hr : processOne s = some (.ok s')) : OwnSub none s s' := by
  unfold processOne at hr
  repeat' (split at hr)
  all_goals (try (simp only [Option.some.injEq, reduceCtorEq] at hr))
  all_goals first
    | (refine OwnSub.trans (b := s.setWRemoveConns _) ?_ (shutdownConnection_own hr); exact .of_eq rfl)
    | (refine OwnSub.trans (b := s.setWAbortCalls _) ?_ (.of_eq (abortCall_cl hr).1); exact .of_eq rfl)
    | (simp only [Except.ok.injEq] at hr; subst hr; refine OwnSub.of_eq ?_; simp; done)
    | (simp only [Except.ok.injEq] at hr; subst hr; refine OwnSub.of_eq ?_; split <;> simp; done)
    | (split at hr <;> (try split at hr) <;> (try simp only [Except.ok.injEq, reduceCtorEq] at hr) <;>
        first | (exact hr.elim) | (subst hr; refine OwnSub.of_eq ?_; simp; done))

theorem processLoop_own : ∀ (fuel : Nat) (s s' : St), processLoop fuel s = .ok s' → OwnSub none s s' := by
  intro fuel
  induction fuel with
  | zero => intro s s' hr; simp [processLoop] at hr
  | succ n ih =>
    intro s s' hr
    simp only [processLoop] at hr
    split at hr
    · simp at hr; exact hr ▸ OwnSub.refl _ _
    · simp at hr
    · exact OwnSub.trans (processOne_own ‹_›) (ih _ _ hr)

/-! ### one turn of the broker -/

/-- a turn for a request: what it puts into the queues about channels is accepted by the views, the relation holds
again, and new owners of channel ends are the requester -/
theorem step_msg_chan {b b' : Broker} {w w' : Work} {id : ConnId} {m : Req} {out : List Out}
    (hr : step b w (.msg id m) = .ok (b', w', out)) :
    (∀ vs, Good ⟨b, w, []⟩ vs → (∀ v, vs id = some v → Pend v m) → ∃ vs', applyOuts vs out = some vs' ∧ Good ⟨b', w', []⟩ vs') ∧
    OwnSub (some id) ⟨b, w, []⟩ ⟨b', w', []⟩ := by
  unfold step at hr
  split at hr
  · simp at hr
  · rename_i s0 h0
    split at hr
    · simp at hr
    · rename_i s2 h2
      simp only [Except.ok.injEq, Prod.mk.injEq] at hr
      obtain ⟨rfl, rfl, rfl⟩ := hr
      simp only [handleEvent] at h0
      split at h0
      · simp at h0
      · rename_i s1 ok hm
        simp only [Except.ok.injEq] at h0
        subst h0
        have hmid : Pres noEx s1 ((if ok then s1 else s1.pushRemoveConn id false).stat
            (fun st => { st with messagesReceived := st.messagesReceived + 1 })) :=
          Pres.frame (by split <;> simp) (AliveLe.of_conns (by split <;> simp)) (by split <;> simp [SameC])
        have hloop := Pres.trans hmid (processLoop_pres _ _ _ h2)
        obtain ⟨l1, e1, p1⟩ := handleMessage_presR hm
        obtain ⟨l2, e2, p2⟩ := hloop
        constructor
        · intro vs hg hpend
          obtain ⟨vs1, a1, g1⟩ := p1 vs hg hpend
          obtain ⟨vs2, a2, g2⟩ := p2 vs1 g1
          refine ⟨vs2, ?_, g2⟩
          rw [applyOuts_cf, e2, e1]
          simp only [cf_nil, List.nil_append, applyOuts_append, a1, Option.bind_some]
          exact a2
        · have o1 := handleMessage_own hm
          have o2 : OwnSub (some id) s1 s2 := by
            refine OwnSub.trans (.of_eq ?_) (processLoop_own _ _ _ h2).mono
            split <;> simp
          exact OwnSub.trans o1 o2

/-- any other turn -/
theorem step_other_chan {b b' : Broker} {w w' : Work} {e : Event} {out : List Out}
    (he : ∀ id m, e ≠ .msg id m) (hn : ∀ id v, e ≠ .newConn id v) (hr : step b w e = .ok (b', w', out)) :
    (∀ vs, Good ⟨b, w, []⟩ vs → ∃ vs', applyOuts vs out = some vs' ∧ Good ⟨b', w', []⟩ vs') ∧ OwnSub none ⟨b, w, []⟩ ⟨b', w', []⟩ := by
  unfold step at hr
  split at hr
  · simp at hr
  · rename_i s0 h0
    split at hr
    · simp at hr
    · rename_i s2 h2
      simp only [Except.ok.injEq, Prod.mk.injEq] at hr
      obtain ⟨rfl, rfl, rfl⟩ := hr
      have hev : s0.b.channels = b.channels ∧ AliveLe ⟨b, w, []⟩ s0 ∧ SameC ⟨b, w, []⟩ s0 := by
        refine ⟨?_, handleEvent_alive hn h0, ?_⟩
        · cases e <;> simp only [handleEvent] at h0
          case msg id m => exact absurd rfl (he id m)
          case newConn id v => exact absurd rfl (hn id v)
          all_goals (simp only [Except.ok.injEq] at h0; subst h0; simp)
        · cases e <;> simp only [handleEvent] at h0
          case msg id m => exact absurd rfl (he id m)
          case newConn id v => exact absurd rfl (hn id v)
          all_goals (simp only [Except.ok.injEq] at h0; subst h0; simp [SameC])
      obtain ⟨l, e1, p⟩ := Pres.trans (Pres.frame hev.1 hev.2.1 hev.2.2) (processLoop_pres _ _ _ h2)
      constructor
      · intro vs hg
        obtain ⟨vs', a, g⟩ := p vs hg
        exact ⟨vs', by rw [applyOuts_cf, e1]; simpa using a, g⟩
      · have : OwnSub none ⟨b, w, []⟩ s2 := OwnSub.trans (.of_eq hev.1) (processLoop_own _ _ _ h2)
        exact this

/-- a new connection `c`: nothing about channels is sent; the relation holds again for everybody else -/
theorem step_newConn_chan {b b' : Broker} {w w' : Work} {c : ConnId} {v : Nat} {out : List Out}
    (hr : step b w (.newConn c v) = .ok (b', w', out)) :
    (∀ vs, vs c = none → Good ⟨b, w, []⟩ vs → ∃ vs', applyOuts vs out = some vs' ∧ Good ⟨b', w', []⟩ vs') ∧
    OwnSub none ⟨b, w, []⟩ ⟨b', w', []⟩ := by
  unfold step at hr
  split at hr
  · simp at hr
  · rename_i s0 h0
    split at hr
    · simp at hr
    · rename_i s2 h2
      simp only [Except.ok.injEq, Prod.mk.injEq] at hr
      obtain ⟨rfl, rfl, rfl⟩ := hr
      simp only [handleEvent] at h0
      split at h0
      · simp at h0
      · simp only [Except.ok.injEq] at h0
        subst h0
        obtain ⟨l, e1, p⟩ := processLoop_pres _ _ _ h2
        constructor
        · intro vs hvc hg
          have hg0 : Good ((St.setConn ⟨b, w, []⟩ c { version := v }).stat
              (fun st => { st with numConnections := st.numConnections + 1 })) vs := by
            intro x vx hx hax ck ch e cap wv h1 h2 h3 h4
            have hxc : x ≠ c := by intro e'; subst e'; rw [hvc] at hx; simp at hx
            have hax' : aliveB ⟨b, w, []⟩ x = true := by
              simp only [aliveB_stat, aliveB_setConn] at hax
              rw [if_neg (fun e' => hxc e'.symm)] at hax; exact hax
            exact hg x vx hx hax' ck ch e cap wv (by simpa using h1) h2 h3 h4
          obtain ⟨vs', a, g⟩ := p vs hg0
          exact ⟨vs', by rw [applyOuts_cf, e1]; simpa using a, g⟩
        · have : OwnSub none ⟨b, w, []⟩ s2 := OwnSub.trans (.of_eq (by simp)) (processLoop_own _ _ _ h2)
          exact this

/-! ### the composed system -/

/-- the channel views of all attached clients, each after what is on its way to it -/
def vsOf (s : Sys) : Views := fun x => match s.links x with
  | some l => cDrain (cview l.mon) l.down
  | none => none

structure CSysInv (s : Sys) : Prop where
  links : ∀ x l, s.links x = some l → ∃ v, cDrain (cview l.mon) l.down = some v ∧ (∀ r ∈ l.up, Pend v r) ∧ x ∈ s.used
  good : Good (stOf s) (vsOf s)
  owned : ∀ ck ch e x c, AL.find? ck s.b.channels = some ch → ch.endState e = .claimed x c → x ∈ s.used

theorem CV.setEnds_create' (v : CV) (e : ChanEnd) (m) : (v.setEnds e m).create = v.create := by cases e <;> rfl
theorem CV.setEnds_close' (v : CV) (e : ChanEnd) (m) : (v.setEnds e m).close = v.close := by cases e <;> rfl
theorem CV.setEnds_claim' (v : CV) (e : ChanEnd) (m) : (v.setEnds e m).claim = v.claim := by cases e <;> rfl

/-- handling a message keeps the entries of all requests it does not answer -/
theorem cRecv_keeps_pend {v v' : CV} {m : Rsp} {r : Req} (h : cRecv v m = some v') (hp : Pend v r)
    (hk : ∀ k n, reqKeyS r = some (k, n) → strictKey m ≠ some (k, n)) : Pend v' r := by
  have hmaps : (∀ n' x, AL.find? n' v.create = some x → strictKey m ≠ some (.createChannel, n') → AL.find? n' v'.create = some x) ∧
      (∀ n' x, AL.find? n' v.close = some x → strictKey m ≠ some (.closeChannelEnd, n') → AL.find? n' v'.close = some x) ∧
      (∀ n' x, AL.find? n' v.claim = some x → strictKey m ≠ some (.claimChannelEnd, n') → AL.find? n' v'.claim = some x) := by
    cases m <;> simp only [cRecv] at h
    case createChannelReply n ck =>
      split at h
      · simp at h
      · rename_i e0 m0 ht
        simp only [Option.some.injEq] at h; subst h
        have hm0 : m0 = AL.erase n v.create := by
          simp only [takeAL] at ht
          cases hf : AL.find? n v.create <;> simp_all
        refine ⟨fun n' x hx hne => ?_, fun n' x hx _ => by rw [CV.setEnds_close']; exact hx, fun n' x hx _ => by rw [CV.setEnds_claim']; exact hx⟩
        have : n ≠ n' := by intro e'; subst e'; exact hne rfl
        rw [CV.setEnds_create']; simp only [hm0, AL.find?_erase_ne _ this]; exact hx
    case closeChannelEndReply n rr =>
      split at h
      · simp at h
      · rename_i req m0 ht
        have hm0 : m0 = AL.erase n v.close := by
          simp only [takeAL] at ht
          cases hf : AL.find? n v.close <;> simp_all
        have key : ∀ n' x, AL.find? n' v.close = some x → strictKey (Rsp.closeChannelEndReply n rr) ≠ some (.closeChannelEnd, n') →
            AL.find? n' (AL.erase n v.close) = some x := by
          intro n' x hx hne
          have : n ≠ n' := by intro e'; subst e'; exact hne rfl
          rw [AL.find?_erase_ne _ this]; exact hx
        split at h <;> (simp only [Option.some.injEq] at h; subst h)
        · exact ⟨fun n' x hx _ => by rw [CV.setEnds_create']; exact hx, fun n' x hx hne => by rw [CV.setEnds_close']; simp only [hm0]; exact key n' x hx hne,
            fun n' x hx _ => by rw [CV.setEnds_claim']; exact hx⟩
        · exact ⟨fun n' x hx _ => hx, fun n' x hx hne => by simp only [hm0]; exact key n' x hx hne, fun n' x hx _ => hx⟩
    case claimChannelEndReply n rr =>
      split at h
      · simp at h
      · rename_i e0 ck0 m0 ht
        have hm0 : m0 = AL.erase n v.claim := by
          simp only [takeAL] at ht
          cases hf : AL.find? n v.claim <;> simp_all
        have key : ∀ n' x, AL.find? n' v.claim = some x → strictKey (Rsp.claimChannelEndReply n rr) ≠ some (.claimChannelEnd, n') →
            AL.find? n' (AL.erase n v.claim) = some x := by
          intro n' x hx hne
          have : n ≠ n' := by intro e'; subst e'; exact hne rfl
          rw [AL.find?_erase_ne _ this]; exact hx
        split at h <;> (try (simp at h; done)) <;> (simp only [Option.some.injEq] at h; subst h)
        all_goals first
          | exact ⟨fun n' x hx _ => by rw [CV.setEnds_create']; exact hx, fun n' x hx _ => by rw [CV.setEnds_close']; exact hx,
              fun n' x hx hne => by rw [CV.setEnds_claim']; simp only [hm0]; exact key n' x hx hne⟩
          | exact ⟨fun n' x hx _ => hx, fun n' x hx _ => hx, fun n' x hx hne => by simp only [hm0]; exact key n' x hx hne⟩
    case channelEndClosed ck e =>
      split at h <;> (try (simp at h; done)) <;> (simp only [Option.some.injEq] at h; subst h)
      all_goals exact ⟨fun n' x hx _ => by rw [CV.setEnds_create']; exact hx, fun n' x hx _ => by rw [CV.setEnds_close']; exact hx,
        fun n' x hx _ => by rw [CV.setEnds_claim']; exact hx⟩
    case channelEndClaimed ck e cap =>
      split at h <;> (try (simp at h; done)) <;> (simp only [Option.some.injEq] at h; subst h)
      all_goals exact ⟨fun n' x hx _ => by rw [CV.setEnds_create']; exact hx, fun n' x hx _ => by rw [CV.setEnds_close']; exact hx,
        fun n' x hx _ => by rw [CV.setEnds_claim']; exact hx⟩
    case itemReceived ck p => split at h <;> simp_all
    case addChannelCapacity ck n => split at h <;> simp_all
    all_goals (simp only [Option.some.injEq] at h; subst h; exact ⟨fun _ _ hx _ => hx, fun _ _ hx _ => hx, fun _ _ hx _ => hx⟩)
  cases r <;> simp only [Pend] at hp ⊢
  case createChannel n e cap => exact hmaps.1 n e hp (hk _ _ rfl)
  case closeChannelEnd n ck e =>
    obtain ⟨fl, hfl⟩ := hp
    exact ⟨fl, hmaps.2.1 n _ hfl (hk _ _ rfl)⟩
  case claimChannelEnd n ck e cap => exact hmaps.2.2 n _ hp (hk _ _ rfl)

theorem cDrain_keeps_pend {r : Req} : ∀ (ms : List Rsp) (v v' : CV), cDrain v ms = some v' → Pend v r →
    (∀ m ∈ ms, ∀ k n, reqKeyS r = some (k, n) → strictKey m ≠ some (k, n)) → Pend v' r := by
  intro ms
  induction ms with
  | nil => intro v v' h hp _; simp only [cDrain, Option.some.injEq] at h; exact h ▸ hp
  | cons m ms ih =>
    intro v v' h hp hk
    simp only [cDrain] at h
    split at h
    · rename_i v1 h1
      exact ih v1 v' h (cRecv_keeps_pend h1 hp (hk m (by simp))) (fun m' hm' => hk m' (by simp [hm']))
    · simp at h

theorem strict_outputs {id : ConnId} {key : Option Key} {out : List Out} (h : OneReply id key out) :
    ∀ o ∈ out, ∀ k, strictKey o.msg = some k → o.to = id ∧ key = some k := by
  intro o ho k hk
  have hmem : o ∈ sf out := by
    simp only [sf, List.mem_filter, Out.strict, hk, Option.isSome_some, Bool.true_or, and_true]; exact ho
  rcases h with h0 | ⟨o0, t, h1, hto, hk0, _, ht⟩
  · rw [h0] at hmem; simp at hmem
  · rw [h1] at hmem
    simp only [List.mem_cons] at hmem
    rcases hmem with rfl | hm
    · exact ⟨hto, by rw [← hk0, hk]⟩
    · have := (ht o hm).2; rw [hk] at this; simp at this

theorem mem_delivered {out : List Out} {x : ConnId} {m : Rsp} (h : m ∈ delivered out x) : ∃ o ∈ out, o.to = x ∧ o.msg = m := by
  simp only [delivered, List.mem_map, List.mem_filter, decide_eq_true_eq] at h
  obtain ⟨o, ⟨ho, hx⟩, rfl⟩ := h
  exact ⟨o, ho, hx, rfl⟩

theorem vsOf_eq {s : Sys} {x : ConnId} {l : Link} (h : s.links x = some l) : vsOf s x = cDrain (cview l.mon) l.down := by
  simp [vsOf, h]

theorem vsOf_none {s : Sys} {x : ConnId} (h : s.links x = none) : vsOf s x = none := by
  simp [vsOf, h]

theorem cSend_pend_self (v : CV) (fl : Bool) (r : Req) : Pend (cSend v fl r) r := by
  cases r <;> simp [Pend, cSend]

theorem cSend_pend_other {v : CV} {fl : Bool} {r r' : Req} (hp : Pend v r')
    (hne : ∀ k n n', reqKeyS r' = some (k, n') → reqKeyS r = some (k, n) → n ≠ n') : Pend (cSend v fl r) r' := by
  cases r' <;> simp only [Pend] at hp ⊢
  case createChannel n' e' cap' =>
    cases r <;> simp only [cSend] <;> (try exact hp)
    rename_i n e cap
    rw [AL.find?_insert_ne _ _ (hne .createChannel n n' rfl rfl)]; exact hp
  case closeChannelEnd n' ck' e' =>
    cases r <;> simp only [cSend] <;> (try exact hp)
    rename_i n ck e
    obtain ⟨fl', hfl⟩ := hp
    exact ⟨fl', by rw [AL.find?_insert_ne _ _ (hne .closeChannelEnd n n' rfl rfl)]; exact hfl⟩
  case claimChannelEnd n' ck' e' cap' =>
    cases r <;> simp only [cSend] <;> (try exact hp)
    rename_i n ck e cap
    rw [AL.find?_insert_ne _ _ (hne .claimChannelEnd n n' rfl rfl)]; exact hp

theorem Good_congr {b : St} {vs vs' : Views} (hg : Good b vs)
    (h : ∀ x v', vs' x = some v' → ∃ v, vs x = some v ∧ ∀ e, v'.ends e = v.ends e) : Good b vs' := by
  intro x v' hx ha ck ch e cap w h1 h2 h3 h4
  obtain ⟨v, hv, hsame⟩ := h x v' hx
  rw [hsame]; exact hg x v hv ha ck ch e cap w h1 h2 h3 h4

/-- after a turn of the broker whose outputs `out` are accepted by the views: the links with the outputs delivered -/
theorem links_after_deliver {links : ConnId → Option Link} {out : List Out} {vs vs' : Views}
    (hvs : ∀ x, vs x = match links x with | some l => cDrain (cview l.mon) l.down | none => none)
    (ha : applyOuts vs out = some vs') (x : ConnId) :
    (match deliver out links x with | some l => cDrain (cview l.mon) l.down | none => none) = vs' x := by
  obtain ⟨h1, h2⟩ := applyOuts_link out vs vs' ha x
  simp only [deliver]
  cases hl : links x with
  | none =>
    have : vs x = none := by rw [hvs, hl]
    simp [h1 this]
  | some l =>
    simp only [Option.map_some, cDrain_append]
    have hv := hvs x
    simp only [hl] at hv
    cases hd : cDrain (cview l.mon) l.down with
    | none =>
      rw [hd] at hv
      simp [h1 hv]
    | some v =>
      rw [hd] at hv
      obtain ⟨v', hv', hdr⟩ := h2 v hv
      simp [hdr, hv']

theorem sysStep_cinv {s s' : Sys} {e : SysEv} (hs : sysStep s e = some s') (hser : SysInv s) (h : CSysInv s) : CSysInv s' := by
  cases e with
  | attach c v =>
    simp only [sysStep] at hs
    split at hs
    · simp at hs
    · rename_i hfree
      split at hs
      · simp at hs
      · rename_i b w out hst
        simp only [Option.some.injEq] at hs; subst hs
        have hcu : c ∉ s.used := by intro hc; simp [hc] at hfree
        have hcl : s.links c = none := by
          cases hl : s.links c with
          | none => rfl
          | some l => simp [hl] at hfree
        obtain ⟨hp, hown⟩ := step_newConn_chan hst
        obtain ⟨vs', ha, hg'⟩ := hp (vsOf s) (vsOf_none hcl) h.good
        have hvs' := links_after_deliver (links := s.links) (fun x => rfl) ha
        have howned : ∀ ck ch e x cc, AL.find? ck b.channels = some ch → ch.endState e = .claimed x cc → x ∈ s.used := by
          intro ck ch e x cc h1 h2
          rcases hown ck ch e x cc h1 h2 with h3 | ⟨ch0, c0, h3, h4⟩
          · simp at h3
          · exact h.owned ck ch0 e x c0 h3 h4
        refine ⟨?_, ?_, ?_⟩
        · intro x l hl
          simp only [setLink] at hl
          split at hl
          · rename_i hx; subst hx
            simp only [Option.some.injEq] at hl; subst hl
            exact ⟨{}, rfl, by simp, by simp⟩
          · simp only [deliver, Option.map_eq_some_iff] at hl
            obtain ⟨lx, hlx, rfl⟩ := hl
            obtain ⟨v0, hv0, hp0, hu0⟩ := h.links x lx hlx
            obtain ⟨_, h2⟩ := applyOuts_link out _ _ ha x
            obtain ⟨v', hv', hdr⟩ := h2 v0 (by rw [vsOf_eq hlx]; exact hv0)
            refine ⟨v', by simp only [cDrain_append, hv0, Option.bind_some, hdr], ?_, by simp [hu0]⟩
            intro r hr
            refine cDrain_keeps_pend _ _ _ hdr (hp0 r hr) ?_
            intro m hm k n _ hk
            obtain ⟨o, ho, _, rfl⟩ := mem_delivered hm
            have hsf := step_other_no_reply (by intro id m he; simp at he) hst
            have : o ∈ sf out := by simp only [sf, List.mem_filter, Out.strict, hk, Option.isSome_some, Bool.true_or, and_true]; exact ho
            rw [hsf] at this; simp at this
        · intro x vx hx hax ck ch e cap wv h1 h2 h3 h4
          simp only [vsOf, setLink] at hx
          split at hx
          · rename_i l hl
            split at hl
            · rename_i hxc; subst hxc
              exact absurd (howned ck ch e x cap h1 h2) hcu
            · have := hvs' x
              rw [hl] at this
              exact hg' x vx (by rw [← this]; exact hx) hax ck ch e cap wv h1 h2 h3 h4
          · simp at hx
        · intro ck ch e x cc h1 h2
          simp [howned ck ch e x cc h1 h2]
  | clientSends c r =>
    simp only [sysStep] at hs
    split at hs
    · simp at hs
    · rename_i l0 hl0
      split at hs
      · rename_i hf
        simp only [Option.some.injEq] at hs; subst hs
        obtain ⟨v0, hv0, hp0, hu0⟩ := h.links c l0 hl0
        have hdr : cDrain (cview (onSend l0.mon r)) l0.down = some (cSend v0 (flagOf l0.mon r) r) := by
          rw [cview_onSend, cDrain_cSend_comm _ r l0.down (cview l0.mon) ?_, hv0]; rfl
          intro m hm k n hk he
          exact fresh_not_pending hf hk (head_is_pending hser hl0 hm he)
        refine ⟨?_, ?_, h.owned⟩
        · intro x l hl
          simp only [setLink] at hl
          split at hl
          · rename_i hx; subst hx
            simp only [Option.some.injEq] at hl; subst hl
            refine ⟨_, hdr, ?_, hu0⟩
            intro r' hr'
            simp only [List.mem_append, List.mem_singleton] at hr'
            rcases hr' with hr' | rfl
            · refine cSend_pend_other (hp0 r' hr') ?_
              intro k n n' hk' hk e'
              subst e'
              exact fresh_not_pending hf hk (up_keys_pending (hser x l0 hl0) hr' hk')
            · exact cSend_pend_self _ _ _
          · exact h.links x l hl
        · refine Good_congr h.good ?_
          intro x v' hx
          simp only [vsOf, setLink] at hx
          by_cases hxc : x = c
          · subst hxc
            simp only [↓reduceIte] at hx
            rw [hdr] at hx; simp only [Option.some.injEq] at hx; subst hx
            exact ⟨v0, by rw [vsOf_eq hl0]; exact hv0, fun e => cSend_ends v0 _ r e⟩
          · simp only [hxc, ↓reduceIte] at hx
            exact ⟨v', hx, fun _ => rfl⟩
      · simp at hs
  | brokerHandles c =>
    simp only [sysStep] at hs
    split at hs
    · simp at hs
    · rename_i l0 hl0
      split at hs
      · simp at hs
      · rename_i r rest hu
        split at hs
        · simp at hs
        · rename_i b w out hst
          simp only [Option.some.injEq] at hs; subst hs
          obtain ⟨v0, hv0, hp0, hu0⟩ := h.links c l0 hl0
          obtain ⟨hp, hown⟩ := step_msg_chan hst
          obtain ⟨vs', ha, hg'⟩ := hp (vsOf s) h.good (by
            intro v hv
            rw [vsOf_eq hl0, hv0] at hv; simp only [Option.some.injEq] at hv; subst hv
            exact hp0 r (by rw [hu]; simp))
          have hstrict := strict_outputs (step_msg_reply hst)
          -- the links before delivery: `c` has given up its oldest request
          have hvs0 : ∀ x, vsOf s x = match setLink s.links c (some { l0 with up := rest }) x with
              | some l => cDrain (cview l.mon) l.down | none => none := by
            intro x
            simp only [setLink]
            by_cases hx : x = c
            · subst hx; simp [vsOf_eq hl0]
            · simp [hx, vsOf]
          have hvs' := links_after_deliver hvs0 ha
          refine ⟨?_, ?_, ?_⟩
          · intro x l hl
            simp only [deliver, Option.map_eq_some_iff] at hl
            obtain ⟨lx, hlx, rfl⟩ := hl
            obtain ⟨_, h2⟩ := applyOuts_link out _ _ ha x
            simp only [setLink] at hlx
            by_cases hx : x = c
            · subst hx
              simp only [↓reduceIte, Option.some.injEq] at hlx; subst hlx
              obtain ⟨v', hv', hdr⟩ := h2 v0 (by rw [vsOf_eq hl0]; exact hv0)
              refine ⟨v', by simp only [cDrain_append, hv0, Option.bind_some, hdr], ?_, hu0⟩
              intro r' hr'
              refine cDrain_keeps_pend _ _ _ hdr (hp0 r' (by rw [hu]; simp [hr'])) ?_
              intro m hm k n hk' hk
              obtain ⟨o, ho, _, rfl⟩ := mem_delivered hm
              obtain ⟨_, hkey⟩ := hstrict o ho (k, n) hk
              exact up_serial_unique hu (hser x l0 hl0) hkey r' hr' hk'
            · simp only [hx, ↓reduceIte] at hlx
              obtain ⟨vx, hvx, hpx, hux⟩ := h.links x lx hlx
              obtain ⟨v', hv', hdr⟩ := h2 vx (by rw [vsOf_eq hlx]; exact hvx)
              refine ⟨v', by simp only [cDrain_append, hvx, Option.bind_some, hdr], ?_, hux⟩
              intro r' hr'
              refine cDrain_keeps_pend _ _ _ hdr (hpx r' hr') ?_
              intro m hm k n _ hk
              obtain ⟨o, ho, hto, rfl⟩ := mem_delivered hm
              exact absurd (hto ▸ (hstrict o ho (k, n) hk).1) hx
          · intro x vx hx hax ck ch e cap wv h1 h2 h3 h4
            have := hvs' x
            simp only [vsOf] at hx
            exact hg' x vx (by rw [← this]; exact hx) hax ck ch e cap wv h1 h2 h3 h4
          · intro ck ch e x cc h1 h2
            rcases hown ck ch e x cc h1 h2 with h3 | ⟨ch0, c0, h3, h4⟩
            · simp only [Option.some.injEq] at h3; rw [h3]; exact hu0
            · exact h.owned ck ch0 e x c0 h3 h4
  | brokerEvent e =>
    simp only [sysStep] at hs
    split at hs
    · simp at hs
    · rename_i hnm
      split at hs
      · simp at hs
      · rename_i b w out hst
        simp only [Option.some.injEq] at hs; subst hs
        have he1 : ∀ id m, e ≠ .msg id m := by intro id m he; subst he; simp [Event.isMsg] at hnm
        have he2 : ∀ id v, e ≠ .newConn id v := by intro id v he; subst he; simp [Event.isMsg] at hnm
        obtain ⟨hp, hown⟩ := step_other_chan he1 he2 hst
        obtain ⟨vs', ha, hg'⟩ := hp (vsOf s) h.good
        have hvs' := links_after_deliver (links := s.links) (fun x => rfl) ha
        have hsf := step_other_no_reply he1 hst
        refine ⟨?_, ?_, ?_⟩
        · intro x l hl
          simp only [deliver, Option.map_eq_some_iff] at hl
          obtain ⟨lx, hlx, rfl⟩ := hl
          obtain ⟨vx, hvx, hpx, hux⟩ := h.links x lx hlx
          obtain ⟨_, h2⟩ := applyOuts_link out _ _ ha x
          obtain ⟨v', hv', hdr⟩ := h2 vx (by rw [vsOf_eq hlx]; exact hvx)
          refine ⟨v', by simp only [cDrain_append, hvx, Option.bind_some, hdr], ?_, hux⟩
          intro r' hr'
          refine cDrain_keeps_pend _ _ _ hdr (hpx r' hr') ?_
          intro m hm k n _ hk
          obtain ⟨o, ho, _, rfl⟩ := mem_delivered hm
          have : o ∈ sf out := by simp only [sf, List.mem_filter, Out.strict, hk, Option.isSome_some, Bool.true_or, and_true]; exact ho
          rw [hsf] at this; simp at this
        · intro x vx hx hax ck ch e' cap wv h1 h2 h3 h4
          have := hvs' x
          simp only [vsOf] at hx
          exact hg' x vx (by rw [← this]; exact hx) hax ck ch e' cap wv h1 h2 h3 h4
        · intro ck ch e' x cc h1 h2
          rcases hown ck ch e' x cc h1 h2 with h3 | ⟨ch0, c0, h3, h4⟩
          · simp at h3
          · exact h.owned ck ch0 e' x c0 h3 h4
  | clientHandles c =>
    simp only [sysStep] at hs
    split at hs
    · simp at hs
    · rename_i l0 hl0
      split at hs
      · simp at hs
      · rename_i m rest hd
        split at hs
        · rename_i mon hon
          simp only [Option.some.injEq] at hs; subst hs
          obtain ⟨v0, hv0, hp0, hu0⟩ := h.links c l0 hl0
          have hdr : cDrain (cview mon) rest = some v0 := by
            rw [hd] at hv0
            simp only [cDrain, cview_onRecv hon] at hv0
            exact hv0
          refine ⟨?_, ?_, h.owned⟩
          · intro x l hl
            simp only [setLink] at hl
            split at hl
            · rename_i hx; subst hx
              simp only [Option.some.injEq] at hl; subst hl
              exact ⟨v0, hdr, hp0, hu0⟩
            · exact h.links x l hl
          · refine Good_congr h.good ?_
            intro x v' hx
            simp only [vsOf, setLink] at hx
            by_cases hxc : x = c
            · subst hxc
              simp only [↓reduceIte] at hx
              rw [hdr] at hx; simp only [Option.some.injEq] at hx; subst hx
              exact ⟨v0, by rw [vsOf_eq hl0]; exact hv0, fun _ => rfl⟩
            · simp only [hxc, ↓reduceIte] at hx
              exact ⟨v', hx, fun _ => rfl⟩
        · simp at hs
  | detach c =>
    simp only [sysStep, Option.some.injEq] at hs; subst hs
    refine ⟨?_, ?_, h.owned⟩
    · intro x l hl
      simp only [setLink] at hl
      split at hl
      · simp at hl
      · exact h.links x l hl
    · refine Good_congr h.good ?_
      intro x v' hx
      simp only [vsOf, setLink] at hx
      by_cases hxc : x = c
      · simp [hxc] at hx
      · simp only [hxc, ↓reduceIte] at hx
        exact ⟨v', hx, fun _ => rfl⟩

theorem CSysInv_init : CSysInv {} :=
  ⟨by intro c l hl; simp at hl, by intro x v hx; simp [vsOf] at hx, by intro ck ch e x c h1; simp [AL.find?] at h1⟩

theorem sysRun_cinv : ∀ (es : List SysEv) (s s' : Sys), sysRun s es = some s' → SysInv s → CSysInv s → SysInv s' ∧ CSysInv s' := by
  intro es
  induction es with
  | nil => intro s s' hr h1 h2; simp [sysRun] at hr; exact hr ▸ ⟨h1, h2⟩
  | cons e es ih =>
    intro s s' hr h1 h2
    simp only [sysRun] at hr
    split at hr
    · rename_i s1 hs1
      exact ih _ _ hr (sysStep_inv hs1 h1) (sysStep_cinv hs1 h1 h2)
    · simp at hr

/-- what is about channels and on its way to a client will be accepted when it gets there -/
theorem channel_head_accepted {s : Sys} (h : CSysInv s) {c : ConnId} {l : Link} (hl : s.links c = some l)
    {m : Rsp} {rest : List Rsp} (hd : l.down = m :: rest) (hC : isC m = true) : onRecv l.mon m ≠ .unexpected := by
  obtain ⟨v, hv, _, _⟩ := h.links c l hl
  rw [hd] at hv
  simp only [cDrain] at hv
  split at hv
  · rename_i t ht; exact cRecv_accepts hC ht
  · simp at hv

end Aldrin.System
