/-
The bus-listener part of the client's book-keeping as a machine of its own: what the client remembers about its
listeners and the four listener requests, which of the broker's listener messages it accepts, and that this is
all that decides their acceptance (`lview` commutes with `onSend` / `onRecv`).
-/
import Aldrin.Lemmas.Client.Serial
import Aldrin.Lemmas.Broker.AL
import Aldrin.Lemmas.Broker.Replies

namespace Aldrin.Client
open Aldrin.Broker

structure LSt where
  listeners : List (Cookie × Lsn) := []
  create : List Nat := []
  destroy : List (Nat × Cookie) := []
  start : List (Nat × (Cookie × Scope)) := []
  stop : List (Nat × Cookie) := []
  deriving DecidableEq, Repr

def lview (s : CSt) : LSt :=
  ⟨s.listeners, s.createBusListener, s.destroyBusListener, s.startBusListener, s.stopBusListener⟩

def lSend (l : LSt) : Req → LSt
  | .createBusListener n => { l with create := sinsert n l.create }
  | .destroyBusListener n ck => { l with destroy := AL.insert n ck l.destroy }
  | .startBusListener n ck sc => { l with start := AL.insert n (ck, sc) l.start }
  | .stopBusListener n ck => { l with stop := AL.insert n ck l.stop }
  | _ => l

/-- the messages whose acceptance depends on the listener book-keeping -/
def isL : Rsp → Bool
  | .createBusListenerReply .. | .destroyBusListenerReply .. | .startBusListenerReply .. | .stopBusListenerReply ..
  | .emitBusEvent (some _) _ | .busListenerCurrentFinished _ => true
  | _ => false

/-- `none`: refused (`UnexpectedMessageReceived`). The two consistency `assert!`s of the real code (a new cookie is
not yet in the map, a destroyed one is) are not refusals and are not looked at here. -/
def lRecv (l : LSt) : Rsp → Option LSt
  | .createBusListenerReply n ck =>
    match take n l.create with
    | none => none
    | some m => some { l with create := m, listeners := AL.insert ck {} l.listeners }
  | .destroyBusListenerReply n r =>
    match takeAL n l.destroy with
    | none => none
    | some (ck, m) =>
      if r = .ok then some { l with destroy := m, listeners := AL.erase ck l.listeners } else some { l with destroy := m }
  | .startBusListenerReply n r =>
    match takeAL n l.start with
    | none => none
    | some ((ck, sc), m) =>
      if r = .ok then
        match AL.find? ck l.listeners with
        | none => none
        | some x =>
          if x.scope.isNone then
            some { l with start := m, listeners := AL.insert ck { scope := some sc, currentFinished := !sc.includesCurrent } l.listeners }
          else none
      else some { l with start := m }
  | .stopBusListenerReply n r =>
    match takeAL n l.stop with
    | none => none
    | some (ck, m) =>
      if r = .ok then
        match AL.find? ck l.listeners with
        | none => none
        | some x =>
          if x.scope.isSome then some { l with stop := m, listeners := AL.insert ck { x with scope := none } l.listeners }
          else none
      else some { l with stop := m }
  | .emitBusEvent (some ck) _ =>
    match AL.find? ck l.listeners with
    | none => none
    | some x => if (x.scope.map Scope.includesCurrent).getD false && !x.currentFinished then some l else none
  | .busListenerCurrentFinished ck =>
    match AL.find? ck l.listeners with
    | none => none
    | some x =>
      if !x.currentFinished then some { l with listeners := AL.insert ck { x with currentFinished := true } l.listeners }
      else none
  | _ => some l

/-- all messages of a queue, oldest first -/
def lDrain : LSt → List Rsp → Option LSt
  | l, [] => some l
  | l, m :: ms => match lRecv l m with
    | some l' => lDrain l' ms
    | none => none

theorem lDrain_append (l : LSt) (a b : List Rsp) : lDrain l (a ++ b) = (lDrain l a).bind (fun l' => lDrain l' b) := by
  induction a generalizing l with
  | nil => rfl
  | cons m a ih =>
    simp only [List.cons_append, lDrain]
    cases lRecv l m with
    | none => rfl
    | some l' => exact ih l'

theorem lRecv_not_isL {l : LSt} {m : Rsp} (h : isL m = false) : lRecv l m = some l := by
  cases m <;> simp only [isL, reduceCtorEq] at h <;> (try rfl)
  case emitBusEvent o _ => cases o <;> simp_all [isL, lRecv]

/-! ### the view commutes with the client -/

theorem lview_onSend (s : CSt) (r : Req) : lview (onSend s r) = lSend (lview s) r := by
  cases r with
  | subscribeEvent o _ _ => cases o <;> rfl
  | subscribeAllEvents o _ => cases o <;> rfl
  | unsubscribeAllEvents o _ => cases o <;> rfl
  | _ => rfl

theorem lview_setEnds (s : CSt) (e : ChanEnd) (m) : lview (setEnds s e m) = lview s := by
  cases e <;> rfl

theorem lview_onRecv {s s' : CSt} {m : Rsp} (h : onRecv s m = .ok s') : lRecv (lview s) m = some (lview s') := by
  cases m <;> simp only [onRecv, channelEndClosed, channelEndClaimed] at h <;> (repeat' (split at h)) <;>
    (try (simp only [reduceCtorEq, Verdict.ok.injEq] at h)) <;> (try subst h) <;>
    (try (simp only [lview_setEnds])) <;> (try rfl) <;>
    (try (simp_all [lRecv, lview]; done))

/-- whether a listener message is refused is decided by the view -/
theorem lRecv_accepts {s : CSt} {m : Rsp} {t : LSt} (hl : isL m = true) (h : lRecv (lview s) m = some t) :
    onRecv s m ≠ .unexpected := by
  cases m <;> simp only [isL, Bool.false_eq_true] at hl <;> simp only [lRecv, lview] at h <;> simp only [onRecv] <;>
    (repeat' (split at h)) <;> (try (simp at h; done)) <;> (repeat' split) <;> simp_all

/-! ### sending a request and receiving an unrelated message commute -/

theorem AL_insert_erase_comm {V : Type} {n n' : Nat} (v : V) (m : List (Nat × V)) (h : n ≠ n') :
    AL.insert n v (AL.erase n' m) = AL.erase n' (AL.insert n v m) := by
  induction m with
  | nil => simp [AL.insert, AL.erase, h]
  | cons p m ih =>
    obtain ⟨k, x⟩ := p
    by_cases hk : k = n'
    · subst hk
      have hkn : ¬ k = n := fun e => h e.symm
      simp only [AL.erase, AL.insert, hkn, ↓reduceIte, List.filter_cons, ne_eq, not_true_eq_false, decide_false,
        Bool.false_eq_true] at ih ⊢
      exact ih
    · by_cases hkn : k = n
      · subst hkn
        simp [AL.erase, AL.insert, List.filter_cons, hk]
      · simp only [AL.erase, AL.insert, hkn, ↓reduceIte, List.filter_cons, ne_eq, hk, not_false_eq_true, decide_true] at ih ⊢
        rw [ih]

theorem takeAL_insert_ne {V : Type} {n n' : Nat} (v : V) (m : List (Nat × V)) (h : n ≠ n') :
    takeAL n' (AL.insert n v m) = (takeAL n' m).map (fun p => (p.1, AL.insert n v p.2)) := by
  unfold takeAL
  rw [AL.find?_insert_ne v m h]
  cases AL.find? n' m <;> simp [AL_insert_erase_comm v m h]

theorem take_sinsert_ne {n n' : Nat} (m : List Nat) (h : n ≠ n') :
    take n' (sinsert n m) = (take n' m).map (sinsert n) := by
  unfold take sinsert sremove
  have hn : ¬ n' = n := fun e => h e.symm
  by_cases hc : m.contains n <;> by_cases hc' : m.contains n'
  all_goals simp_all [List.filter_append, List.filter_cons]

theorem lRecv_lSend_comm (l : LSt) (r : Req) (m : Rsp) (h : ∀ k n, reqKeyS r = some (k, n) → strictKey m ≠ some (k, n)) :
    lRecv (lSend l r) m = (lRecv l m).map (lSend · r) := by
  cases r
  case createBusListener n =>
    cases m <;> (try (simp only [lRecv, lSend, Option.map_some]; done)) <;> (try ((simp only [lRecv, lSend]; (repeat' split)) <;> simp_all <;> done))
    case createBusListenerReply n' ck =>
      have hne : n ≠ n' := by
        intro e; subst e; exact h _ _ rfl rfl
      simp only [lRecv, lSend, take_sinsert_ne _ hne]
      cases take n' l.create <;> simp
  case destroyBusListener n ck0 =>
    cases m <;> (try (simp only [lRecv, lSend, Option.map_some]; done)) <;> (try ((simp only [lRecv, lSend]; (repeat' split)) <;> simp_all <;> done))
    case destroyBusListenerReply n' rr =>
      have hne : n ≠ n' := by
        intro e; subst e; exact h _ _ rfl rfl
      simp only [lRecv, lSend, takeAL_insert_ne _ _ hne]
      cases takeAL n' l.destroy <;> simp
      split <;> simp
  case startBusListener n ck0 sc0 =>
    cases m <;> (try (simp only [lRecv, lSend, Option.map_some]; done)) <;> (try ((simp only [lRecv, lSend]; (repeat' split)) <;> simp_all <;> done))
    case startBusListenerReply n' rr =>
      have hne : n ≠ n' := by
        intro e; subst e; exact h _ _ rfl rfl
      simp only [lRecv, lSend, takeAL_insert_ne _ _ hne]
      cases takeAL n' l.start <;> simp
      repeat' split <;> simp_all
  case stopBusListener n ck0 =>
    cases m <;> (try (simp only [lRecv, lSend, Option.map_some]; done)) <;> (try ((simp only [lRecv, lSend]; (repeat' split)) <;> simp_all <;> done))
    case stopBusListenerReply n' rr =>
      have hne : n ≠ n' := by
        intro e; subst e; exact h _ _ rfl rfl
      simp only [lRecv, lSend, takeAL_insert_ne _ _ hne]
      cases takeAL n' l.stop <;> simp
      repeat' split <;> simp_all
  all_goals
    simp only [lSend]
    cases lRecv l m <;> rfl

theorem lDrain_lSend_comm (r : Req) : ∀ (ms : List Rsp) (l : LSt),
    (∀ m ∈ ms, ∀ k n, reqKeyS r = some (k, n) → strictKey m ≠ some (k, n)) →
    lDrain (lSend l r) ms = (lDrain l ms).map (lSend · r) := by
  intro ms
  induction ms with
  | nil => intro l _; rfl
  | cons m ms ih =>
    intro l h
    simp only [lDrain]
    rw [lRecv_lSend_comm l r m (h m (by simp))]
    cases lRecv l m with
    | none => rfl
    | some l' => exact ih l' (fun m' hm' => h m' (by simp [hm']))

end Aldrin.Client
