/-
No request is left waiting: in the composed system, for a connection that the broker still serves, every serial the
client has in one of its maps belongs to a request that is on its way to the broker or to a reply that is on its way
to the client. When both queues are empty the maps are empty.
-/
import Aldrin.Lemmas.Broker.Answers
import Aldrin.Lemmas.Client.ListenerAgreement

namespace Aldrin.System
open Aldrin.Broker Aldrin.Client

def AnsInv (s : Sys) : Prop :=
  ∀ c l, s.links c = some l → aliveB (stOf s) c = true → ∀ k n, k ≠ SKind.queryIntrospection → n ∈ pendingOf l.mon k → 0 < cnt l (k, n)

theorem cnt_deliver_le (l : Link) (extra : List Rsp) (key : Key) : cnt l key ≤ cnt { l with down := l.down ++ extra } key := by
  simp only [cnt, keysUp, keysDown, List.filterMap_append, List.count_append]; omega

theorem pendingOf_init (v : Nat) (k : SKind) : pendingOf { version := v } k = [] := by
  cases k <;> rfl

theorem sysStep_ans {s s' : Sys} {e : SysEv} (hs : sysStep s e = some s') (h : AnsInv s) : AnsInv s' := by
  cases e with
  | attach c v =>
    simp only [sysStep] at hs
    split at hs
    · simp at hs
    · split at hs
      · simp at hs
      · rename_i b w out hst
        simp only [Option.some.injEq] at hs; subst hs
        obtain ⟨_, hal, _⟩ := step_newConn_parts hst
        intro x l hl ha k n hk hn
        simp only [setLink] at hl
        split at hl
        · simp only [Option.some.injEq] at hl; subst hl
          rw [pendingOf_init] at hn; simp at hn
        · rename_i hx
          simp only [deliver, Option.map_eq_some_iff] at hl
          obtain ⟨lx, hlx, rfl⟩ := hl
          exact Nat.lt_of_lt_of_le (h x lx hlx (hal x hx ha) k n hk hn) (cnt_deliver_le lx _ _)
  | clientSends c r =>
    simp only [sysStep] at hs
    split at hs
    · simp at hs
    · rename_i l0 hl0
      split at hs
      · simp only [Option.some.injEq] at hs; subst hs
        intro x l hl ha k n hk hn
        simp only [setLink] at hl
        split at hl
        · rename_i hx; subst hx
          simp only [Option.some.injEq] at hl; subst hl
          rw [mem_pendingOf_onSend] at hn
          simp only [cnt, keysUp, keysDown, List.filterMap_append, List.count_append]
          rcases hn with hn | hn
          · have := h x l0 hl0 ha k n hk hn
            simp only [cnt, keysUp, keysDown] at this
            omega
          · have hs : reqKeyS r = some (k, n) := by
              unfold reqKeyS; rw [hn]; cases k <;> simp_all
            simp [hs]; omega
        · exact h x l hl ha k n hk hn
      · simp at hs
  | brokerHandles c =>
    simp only [sysStep] at hs
    split at hs
    · simp at hs
    · rename_i l0 hl0
      split at hs
      · simp at hs
      · rename_i r rest hu
        split at hs
        · simp at hs
        · rename_i b w out hst
          simp only [Option.some.injEq] at hs; subst hs
          have hone := step_msg_reply hst
          intro x l hl ha k n hk hn
          have ha0 : aliveB (stOf s) x = true := step_alive (by intro id v he; simp at he) hst x ha
          simp only [deliver, setLink] at hl
          by_cases hx : x = c
          · subst hx
            simp only [↓reduceIte, Option.map_some, Option.some.injEq] at hl; subst hl
            have h0 := h x l0 hl0 ha0 k n hk hn
            simp only [cnt, keysUp, keysDown, hu, List.filterMap_cons, List.filterMap_append, List.count_append] at h0 ⊢
            by_cases hkey : reqKeyS r = some (k, n)
            · -- the request that has just been handled: its reply is on its way now
              have hne := step_msg_answers hst ha0 ha (by rw [hkey]; rfl)
              rcases hone with h1 | ⟨o, t, h1, hto, hko, _, ht⟩
              · exact absurd h1 hne
              · have := delivered_keys_one (c := x) h1 (hkey ▸ hko) (fun y hy => (ht y hy).2)
                rw [this, hto]; simp; omega
            · cases hr : reqKeyS r with
              | none => simp only [hr] at h0; omega
              | some key' =>
                have : key' ≠ (k, n) := by intro e; rw [hr, e] at hkey; exact hkey rfl
                simp only [hr, List.count_cons, beq_iff_eq, this, ↓reduceIte] at h0
                omega
          · simp only [hx, ↓reduceIte, Option.map_eq_some_iff] at hl
            obtain ⟨lx, hlx, rfl⟩ := hl
            exact Nat.lt_of_lt_of_le (h x lx hlx ha0 k n hk hn) (cnt_deliver_le lx _ _)
  | brokerEvent e =>
    simp only [sysStep] at hs
    split at hs
    · simp at hs
    · rename_i hnm
      split at hs
      · simp at hs
      · rename_i b w out hst
        simp only [Option.some.injEq] at hs; subst hs
        intro x l hl ha k n hk hn
        have ha0 : aliveB (stOf s) x = true := step_alive (by intro id v he; subst he; simp [Event.isMsg] at hnm) hst x ha
        simp only [deliver, Option.map_eq_some_iff] at hl
        obtain ⟨lx, hlx, rfl⟩ := hl
        exact Nat.lt_of_lt_of_le (h x lx hlx ha0 k n hk hn) (cnt_deliver_le lx _ _)
  | clientHandles c =>
    simp only [sysStep] at hs
    split at hs
    · simp at hs
    · rename_i l0 hl0
      split at hs
      · simp at hs
      · rename_i m rest hd
        split at hs
        · rename_i mon hon
          simp only [Option.some.injEq] at hs; subst hs
          intro x l hl ha k n hk hn
          simp only [setLink] at hl
          split at hl
          · rename_i hx; subst hx
            simp only [Option.some.injEq] at hl; subst hl
            rw [mem_pendingOf_onRecv _ _ _ _ _ hon] at hn
            have h0 := h x l0 hl0 ha k n hk hn.1
            simp only [cnt, keysUp, keysDown, hd, List.filterMap_cons] at h0 ⊢
            cases hm : strictKey m with
            | none => simp only [hm] at h0; exact h0
            | some key' =>
              have : key' ≠ (k, n) := by
                intro e; subst e
                exact hn.2 (strictKey_kind hm).2
              simp only [hm, List.count_cons, beq_iff_eq, this, ↓reduceIte] at h0
              omega
          · exact h x l hl ha k n hk hn
        · simp at hs
  | detach c =>
    simp only [sysStep, Option.some.injEq] at hs; subst hs
    intro x l hl ha k n hk hn
    simp only [setLink] at hl
    split at hl
    · simp at hl
    · exact h x l hl ha k n hk hn

theorem AnsInv_init : AnsInv {} := by intro c l hl; simp at hl

theorem sysRun_ans : ∀ (es : List SysEv) (s s' : Sys), sysRun s es = some s' → AnsInv s → AnsInv s' := by
  intro es
  induction es with
  | nil => intro s s' hr h; simp [sysRun] at hr; exact hr ▸ h
  | cons e es ih =>
    intro s s' hr h
    simp only [sysRun] at hr
    split at hr
    · exact ih _ _ hr (sysStep_ans ‹_› h)
    · simp at hr

end Aldrin.System
