import Aldrin.Lemmas.Fuel
namespace Aldrin
open Generated

/-! The decoder with the UTF-8 check accepts a subset of what the decoder without it accepts, with
the same result. -/

theorem decKey_true_false {kt : KeyTy} {bs : Bytes} {k : Key} {r : Bytes}
    (h : decKey true kt bs = .ok (k, r)) : decKey false kt bs = .ok (k, r) := by
  cases kt <;> simp only [decKey] at h ⊢ <;> grind

theorem decKeys1_true_false (kt : KeyTy) (f n : Nat) (bs : Bytes) : ∀ ks r,
    decKeys1 true kt f n bs = .ok (ks, r) → decKeys1 false kt f n bs = .ok (ks, r) := by
  fun_induction decKeys1 true kt f n bs <;> simp_all [decKeys1] <;> grind [→ decKey_true_false]

theorem decKeys2_true_false (kt : KeyTy) (f : Nat) (bs : Bytes) : ∀ ks r,
    decKeys2 true kt f bs = .ok (ks, r) → decKeys2 false kt f bs = .ok (ks, r) := by
  fun_induction decKeys2 true kt f bs <;> simp_all [decKeys2] <;> grind [→ decKey_true_false]

set_option maxHeartbeats 4000000 in
theorem dec_true_false_all :
    (∀ (f : Nat) (bs : Bytes) (d : Nat), ∀ v r, dec .std f bs d = .ok (v, r) → dec .lax f bs d = .ok (v, r)) ∧
    (∀ kt (f : Nat) (bs : Bytes) (d : Nat), ∀ v r, decEntries2 .std kt f bs d = .ok (v, r) → decEntries2 .lax kt f bs d = .ok (v, r)) ∧
    (∀ (f : Nat) (bs : Bytes) (d : Nat), ∀ v r, decElems2 .std f bs d = .ok (v, r) → decElems2 .lax f bs d = .ok (v, r)) ∧
    (∀ kt (f n : Nat) (bs : Bytes) (d : Nat), ∀ v r, decEntries1 .std kt f n bs d = .ok (v, r) → decEntries1 .lax kt f n bs d = .ok (v, r)) ∧
    (∀ (f n : Nat) (bs : Bytes) (d : Nat), ∀ v r, decElems1 .std f n bs d = .ok (v, r) → decElems1 .lax f n bs d = .ok (v, r)) := by
  apply dec.mutual_induct .std
    (motive_1 := fun f bs d => ∀ v r, dec .std f bs d = .ok (v, r) → dec .lax f bs d = .ok (v, r))
    (motive_2 := fun kt f bs d => ∀ v r, decEntries2 .std kt f bs d = .ok (v, r) → decEntries2 .lax kt f bs d = .ok (v, r))
    (motive_3 := fun f bs d => ∀ v r, decElems2 .std f bs d = .ok (v, r) → decElems2 .lax f bs d = .ok (v, r))
    (motive_4 := fun kt f n bs d => ∀ v r, decEntries1 .std kt f n bs d = .ok (v, r) → decEntries1 .lax kt f n bs d = .ok (v, r))
    (motive_5 := fun f n bs d => ∀ v r, decElems1 .std f n bs d = .ok (v, r) → decElems1 .lax f n bs d = .ok (v, r))
  all_goals (intros; first
    | (have hk := decKey_true_false ‹decKey DecCfg.std.utf8 _ _ = Except.ok _›
       simp_all [dec, decElems1, decElems2, decEntries1, decEntries2, if_lt_of_le])
    | (have hk := decKeys1_true_false _ _ _ _ _ _ ‹decKeys1 DecCfg.std.utf8 _ _ _ _ = Except.ok _›
       simp_all [dec, decElems1, decElems2, decEntries1, decEntries2, if_lt_of_le])
    | (have hk := decKeys2_true_false _ _ _ _ _ ‹decKeys2 DecCfg.std.utf8 _ _ _ = Except.ok _›
       simp_all [dec, decElems1, decElems2, decEntries1, decEntries2, if_lt_of_le])
    | simp_all [dec, decElems1, decElems2, decEntries1, decEntries2, if_lt_of_le])
  all_goals (try grind [→ decKey_true_false, → decKeys1_true_false, → decKeys2_true_false])

theorem dec_true_false {f : Nat} {bs : Bytes} {d : Nat} {v : Value} {r : Bytes}
    (h : dec .std f bs d = .ok (v, r)) : dec .lax f bs d = .ok (v, r) :=
  dec_true_false_all.1 f bs d v r h

end Aldrin
