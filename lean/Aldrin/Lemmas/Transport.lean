import Aldrin.Lemmas.Packetizer
namespace Aldrin

/-! ### `spare_capacity_mut` -/

/-- The slice handed out is never empty — whatever was done to the packetizer before.
(Holds for the repaired code; `Generated.spareSecondCheckIsElse` is read from the source.) -/
theorem spare_nonempty (p : Pk) (hc : p.buf.length ≤ p.cap) : 0 < p.spareLen := by
  unfold Pk.spareLen Pk.spare Pk.reserve
  have hmin : 0 < minReserve := by decide
  have hgen : Generated.spareSecondCheckIsElse = false := by decide
  simp only [hgen, Bool.false_and, Bool.false_eq_true, ↓reduceIte]
  cases hp : p.len with
  | none => simp only; split <;> simp <;> omega
  | some l =>
    simp only
    have hcl : 0 < clamp (l - p.buf.length) minReserve maxReserve := by
      unfold clamp
      have : 0 < maxReserve := by decide
      split
      · omega
      · split <;> omega
    split <;> split <;> simp <;> omega

/-- In the situation the transport is in (it has just drained: no complete frame is buffered), the
slice is non-empty for the original shape of the code as well. -/
theorem spare_nonempty_after_drain (p : Pk) (hc : p.buf.length ≤ p.cap)
    (hd : ∀ l, p.len = some l → p.buf.length < l) : 0 < p.spareLen := by
  unfold Pk.spareLen Pk.spare Pk.reserve
  have hmin : 0 < minReserve := by decide
  cases hp : p.len with
  | none => simp only [Option.isSome_none, Bool.and_false, Bool.false_eq_true, ↓reduceIte]; split <;> simp <;> omega
  | some l =>
    have := hd l hp
    have hcl : 0 < clamp (l - p.buf.length) minReserve maxReserve := by
      unfold clamp
      have : 0 < maxReserve := by decide
      split
      · omega
      · split <;> omega
    simp only [Option.isSome_some, Bool.and_true]
    split <;> split <;> (try split) <;> simp <;> omega

theorem spare_cap (p : Pk) (hc : p.buf.length ≤ p.cap) : p.spare.buf.length ≤ p.spare.cap := by
  unfold Pk.spare Pk.reserve
  cases hp : p.len <;> simp only <;> (repeat' split) <;> (try simp) <;> omega

/-! ### sending -/

/-- `send_poll_flush` never loses, duplicates or reorders bytes: what the I/O object has accepted
followed by what is still buffered is unchanged; and it reports success only with an empty buffer. -/
theorem flush_conserves (t : Tp) (script : List IoStep) :
    (t.flush script).1.written ++ (t.flush script).1.wbuf = t.written ++ t.wbuf ∧
    (t.flush script).1.pk = t.pk ∧ (t.flush script).1.inp = t.inp ∧
    (∀ u, (t.flush script).2.1 = .ready u → (t.flush script).1.wbuf = []) := by
  fun_induction Tp.flush t script <;> simp_all [List.isEmpty_iff]
  all_goals (first
    | (rename_i ih; obtain ⟨h1, h2, h3, h4⟩ := ih; exact ⟨by rw [h1]; simp [List.append_assoc], h2, h3, h4⟩)
    | skip)

/-- A zero-length write while bytes are pending is an error, not progress. -/
theorem flush_write_zero (t : Tp) (s : List IoStep) (h : t.wbuf ≠ []) :
    (t.flush (.ok 0 :: s)).2.1 = .err .writeZero := by
  simp [Tp.flush, List.isEmpty_iff, h]

theorem pollReady_conserves (t : Tp) (script : List IoStep) :
    (t.pollReady script).1.written ++ (t.pollReady script).1.wbuf = t.written ++ t.wbuf := by
  unfold Tp.pollReady
  split
  · exact (flush_conserves t script).1
  · rfl

end Aldrin

namespace Aldrin

/-! ### receiving: `receive_poll` is a run of the packetizer over the pending input -/

theorem take_min_length {α : Type} (l : List α) (a : Nat) : l.take (min a l.length) = l.take a := by
  rcases Nat.le_total a l.length with h | h
  · rw [Nat.min_eq_left h]
  · rw [Nat.min_eq_right h, List.take_of_length_le h, List.take_of_length_le (Nat.le_refl _)]

theorem drop_min_length {α : Type} (l : List α) (a : Nat) : l.drop (min a l.length) = l.drop a := by
  rcases Nat.le_total a l.length with h | h
  · rw [Nat.min_eq_left h]
  · rw [Nat.min_eq_right h, List.drop_of_length_le h, List.drop_of_length_le (Nat.le_refl _)]

theorem run_append (r : PkRun) (a b : List PkOp) : r.run (a ++ b) = (r.run a).run b := by
  simp [PkRun.run, List.foldl_append]

def resOut (out : List Bytes) : Poll Bytes → List Bytes
  | .ready f => out ++ [f]
  | _ => out

/-- Every `receive_poll` is some sequence of `next_message` / fill operations of the packetizer on
the pending input; the frame it returns (if any) is the one that sequence emitted. -/
theorem receive_is_run (t : Tp) (script : List IoStep) (out : List Bytes) (e : Bool) :
    ∃ ops, ((PkRun.mk t.pk t.inp out e).run ops).pk = (t.receive script).1.pk ∧
      ((PkRun.mk t.pk t.inp out e).run ops).unfed = (t.receive script).1.inp ∧
      ((PkRun.mk t.pk t.inp out e).run ops).out = resOut out (t.receive script).2.1 ∧
      (t.receive script).1.wbuf = t.wbuf ∧ (t.receive script).1.written = t.written := by
  fun_induction Tp.receive t script generalizing out e
  case case5 t0 s pk hn n hk ih =>
    obtain ⟨ops, h1, h2, h3, h4, h5⟩ := ih out (e || pk.spareLen == 0)
    refine ⟨[.drain, .fill (min n t0.inp.length)] ++ ops, ?_⟩
    rw [run_append]
    have hstep : (PkRun.mk t0.pk t0.inp out e).run [.drain, .fill (min n t0.inp.length)]
        = PkRun.mk (pk.written (t0.inp.take (min n t0.inp.length)))
            (t0.inp.drop (min n t0.inp.length)) out (e || pk.spareLen == 0) := by
      simp only [PkRun.run, List.foldl_cons, List.foldl_nil, PkRun.step, hn]
    rw [hstep]
    exact ⟨h1, h2, h3, h4, h5⟩
  all_goals exact ⟨[.drain], by simp_all [PkRun.run, PkRun.step, resOut]⟩

end Aldrin
