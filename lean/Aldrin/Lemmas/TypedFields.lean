/-
What a derived struct writes back, field by field: `acceptFields_lastOf` relates the two result lists of the
field loop to the entries of the input, `struct_out` puts the pieces together.
-/
import Aldrin.Lemmas.Typed

namespace Aldrin.Typed
open Aldrin

/-- The entries of a struct value as `(id, value)` pairs. -/
def entries (es : List (Key × Value)) : List (Nat × Value) :=
  es.filterMap (fun p => (keyId p.1).map (fun i => (i, p.2)))

def okVal : Except Unit Value → Option Value
  | .ok w => some w
  | .error _ => none

theorem acceptFields_lastOf (env : Env) (n : Nat) (fs : List Field) :
    ∀ (es : List (Key × Value)) (kn un : List (Nat × Value)), acceptFields env n fs es = .ok (kn, un) →
      ∀ id, (∀ f, findField fs id = some f →
              lastOf id kn = (lastOf id (entries es)).bind (fun x => okVal (accept env n f.wireTy x)) ∧
              lastOf id un = none) ∧
            (findField fs id = none → lastOf id un = lastOf id (entries es) ∧ lastOf id kn = none)
  | [], kn, un, h, id => by
    simp only [acceptFields, Except.ok.injEq, Prod.mk.injEq] at h
    obtain ⟨rfl, rfl⟩ := h
    simp [entries, lastOf]
  | (k, v) :: es, kn, un, h, id => by
    unfold acceptFields at h
    split at h
    · simp at h
    · rename_i i hi
      have hent : entries ((k, v) :: es) = (i, v) :: entries es := by simp [entries, hi]
      split at h
      · rename_i g hg
        split at h
        · simp at h
        · rename_i w hw
          split at h
          · simp at h
          · rename_i kn' un' hrest
            simp only [Except.ok.injEq, Prod.mk.injEq] at h
            obtain ⟨rfl, rfl⟩ := h
            have ih := acceptFields_lastOf env n fs es kn' un' hrest id
            refine ⟨fun f hf => ?_, fun hf => ?_⟩
            · obtain ⟨ih1, ih2⟩ := ih.1 f hf
              refine ⟨?_, ih2⟩
              rw [hent]
              simp only [lastOf, ih1]
              cases hl : lastOf id (entries es) with
              | some x =>
                simp only [Option.bind_some]
                cases ha : okVal (accept env n f.wireTy x) with
                | some y => simp
                | none =>
                  -- the later entry was accepted, since the loop succeeded
                  exfalso
                  have := acceptFields_later_ok env n fs es kn' un' hrest id f hf x hl
                  rw [this.choose_spec] at ha
                  simp [okVal] at ha
              | none =>
                simp only [Option.bind_none]
                by_cases he : i = id
                · subst he
                  rw [hg] at hf; cases hf
                  simp [hw, okVal]
                · simp [he]
            · obtain ⟨ih1, ih2⟩ := ih.2 hf
              rw [hent]
              simp only [lastOf, ih1, ih2]
              have hne : i ≠ id := fun he => by subst he; rw [hg] at hf; cases hf
              refine ⟨?_, by simp [hne]⟩
              cases lastOf id (entries es) <;> simp [hne]
      · rename_i hg
        split at h
        · simp at h
        · rename_i kn' un' hrest
          simp only [Except.ok.injEq, Prod.mk.injEq] at h
          obtain ⟨rfl, rfl⟩ := h
          have ih := acceptFields_lastOf env n fs es kn' un' hrest id
          refine ⟨fun f hf => ?_, fun hf => ?_⟩
          · obtain ⟨ih1, ih2⟩ := ih.1 f hf
            have hne : i ≠ id := fun he => by subst he; rw [hg] at hf; cases hf
            rw [hent]
            simp only [lastOf, ih1, ih2]
            refine ⟨?_, by simp [hne]⟩
            cases lastOf id (entries es) <;> simp [hne]
          · obtain ⟨ih1, ih2⟩ := ih.2 hf
            rw [hent]
            simp only [lastOf, ih1, ih2]
            simp
where
  acceptFields_later_ok (env : Env) (n : Nat) (fs : List Field) :
      ∀ (es : List (Key × Value)) (kn un : List (Nat × Value)), acceptFields env n fs es = .ok (kn, un) →
        ∀ id f, findField fs id = some f → ∀ x, lastOf id (entries es) = some x →
          ∃ w, accept env n f.wireTy x = .ok w
    | [], kn, un, h, id, f, hf, x, hl => by simp [entries, lastOf] at hl
    | (k, v) :: es, kn, un, h, id, f, hf, x, hl => by
      unfold acceptFields at h
      split at h
      · simp at h
      · rename_i i hi
        have hent : entries ((k, v) :: es) = (i, v) :: entries es := by simp [entries, hi]
        rw [hent] at hl
        simp only [lastOf] at hl
        split at h
        · rename_i g hg
          split at h
          · simp at h
          · rename_i w hw
            split at h
            · simp at h
            · rename_i kn' un' hrest
              cases hl' : lastOf id (entries es) with
              | some y =>
                simp only [hl'] at hl; cases hl
                exact acceptFields_later_ok env n fs es kn' un' hrest id f hf x hl'
              | none =>
                simp only [hl'] at hl
                split at hl
                · rename_i he
                  have : i = id := by simpa using he
                  subst this
                  cases hl
                  rw [hg] at hf; cases hf
                  exact ⟨w, hw⟩
                · simp at hl
        · rename_i hg
          split at h
          · simp at h
          · rename_i kn' un' hrest
            cases hl' : lastOf id (entries es) with
            | some y =>
              simp only [hl'] at hl; cases hl
              exact acceptFields_later_ok env n fs es kn' un' hrest id f hf x hl'
            | none =>
              simp only [hl'] at hl
              split at hl
              · rename_i he
                have : i = id := by simpa using he
                subst this
                rw [hg] at hf; cases hf
              · simp at hl

end Aldrin.Typed

namespace Aldrin.Typed
open Aldrin

/-- Everything a derived struct writes back, in terms of the input's entries. -/
theorem struct_out {env : Env} {n : Nat} {ty : Ty} {fs : List Field} {fb : Bool} {es : List (Key × Value)} {w : Value}
    (hs : shape env n ty = .struct fs fb) (h : accept env n ty (.map .field es) = .ok w) :
    ∃ kn un, acceptFields env n fs es = .ok (kn, un) ∧
      (∀ f ∈ fs, f.required = true → (lastOf f.id kn).isSome) ∧
      w = .map .field (fs.filterMap (emit kn) ++ (if fb then dedupLast un else [])) := by
  unfold accept at h
  simp only [hs, ↓reduceIte] at h
  split at h
  · simp at h
  · rename_i kn un hacc
    split at h
    · simp at h
    · rename_i out hfin
      obtain ⟨hreq, rfl⟩ := finishFields_some hfin
      cases h
      exact ⟨kn, un, hacc, hreq, rfl⟩

theorem emit_key_ne {kn : List (Nat × Value)} {fs : List Field} {id : Nat} (hnot : ∀ f ∈ fs, f.id ≠ id) :
    ∀ p ∈ fs.filterMap (emit kn), p.1 ≠ Key.int id := by
  intro p hp he
  simp only [List.mem_filterMap] at hp
  obtain ⟨f, hf, hef⟩ := hp
  have := (emit_id hef).1
  rw [he] at this
  simp only [Key.int.injEq, Int.natCast_inj] at this
  exact hnot f hf this.symm

end Aldrin.Typed
