/-
The three parties of a channel with messages in flight (`ASys`): for every schedule — every interleaving of what the two
applications do with the four message queues moving — the counts agree once what is in flight is added in, nothing
panics and the broker refuses nothing.
-/
import Aldrin.Lemmas.ClientChan

namespace Aldrin.ClientChan
open Aldrin.Broker Generated

structure AInv (s : ASys) : Prop where
  ex : ∃ sc rc, s.chan = ⟨.claimed sid sc, .claimed rid rc⟩ ∧
    sc = s.snd.capacity + s.snd.queue.sum + s.bs.sum + s.sb ∧
    s.rcv.cur = rc + s.rb.sum + s.rcv.items + s.br ∧
    sc ≤ rc ∧ (sc ≤ lowCapacity → sc = rc)
  curPos : 0 < s.rcv.cur
  curLe : s.rcv.cur ≤ s.rcv.max
  maxLe : s.rcv.max ≤ u32Max

theorem AInv.ofSys {s : Sys} (h : Inv s) : AInv (ASys.ofSys s) := by
  obtain ⟨⟨sc, rc, hc, hs, hr, hle, hlow⟩, hpos, hcur, hmax⟩ := h
  exact ⟨⟨sc, rc, hc, by simp [ASys.ofSys]; omega, by simp [ASys.ofSys]; omega, hle, hlow⟩, hpos, hcur, hmax⟩

theorem astep_inv {s : ASys} (h : AInv s) (op : AOp) : ∃ s' o, astep s op = .ok (s', o) ∧ AInv s' ∧ o ≠ .cutOff := by
  obtain ⟨⟨sc, rc, hc, hs, hr, hle, hlow⟩, hpos, hcur, hmax⟩ := h
  cases op with
  | app op =>
    cases op with
    | ready =>
      refine ⟨_, _, rfl, ⟨⟨sc, rc, hc, by simp; omega, hr, hle, hlow⟩, hpos, hcur, hmax⟩, by simp⟩
    | pollClosed =>
      exact ⟨_, _, rfl, ⟨⟨sc, rc, hc, by simp; omega, hr, hle, hlow⟩, hpos, hcur, hmax⟩, by simp⟩
    | send =>
      by_cases h0 : s.snd.capacity + s.snd.queue.sum = 0
      · refine ⟨{ s with snd := s.snd.drain }, .app .blocked, ?_, ⟨⟨sc, rc, hc, by simp; omega, hr, hle, hlow⟩, hpos, hcur, hmax⟩, by simp⟩
        simp only [astep, drain_capacity, h0, ↓reduceIte]
      · refine ⟨{ s with snd := { s.snd.drain with capacity := s.snd.drain.capacity - 1 }, sb := s.sb + 1 }, .app .sent, ?_,
          ⟨⟨sc, rc, hc, by simp; omega, hr, hle, hlow⟩, hpos, hcur, hmax⟩, by simp⟩
        simp only [astep, drain_capacity, h0, ↓reduceIte]
    | take =>
      have hcur0 : s.rcv.cur ≠ 0 := by omega
      have hngt : ¬ s.rcv.cur > s.rcv.max := by omega
      by_cases hit : s.rcv.items = 0
      · refine ⟨s, .app .empty, ?_, ⟨⟨sc, rc, hc, hs, hr, hle, hlow⟩, hpos, hcur, hmax⟩, by simp⟩
        simp only [astep, hcur0, hngt, hit, ↓reduceIte]
      · by_cases hl : s.rcv.cur - 1 ≤ clientLowCapacity
        · have hdiff : ¬ (s.rcv.max - (s.rcv.cur - 1) < 1) := by omega
          have hafter : ¬ (s.rcv.cur - 1 + (s.rcv.max - (s.rcv.cur - 1)) = 0 ∨ s.rcv.cur - 1 + (s.rcv.max - (s.rcv.cur - 1)) > s.rcv.max) := by omega
          refine ⟨{ s with rcv := { s.rcv with cur := s.rcv.cur - 1 + (s.rcv.max - (s.rcv.cur - 1)), items := s.rcv.items - 1 },
                           rb := s.rb ++ [s.rcv.max - (s.rcv.cur - 1)] }, .app .item, ?_,
                  ⟨⟨sc, rc, hc, hs, ?_, hle, hlow⟩, ?_, ?_, hmax⟩, by simp⟩
          · simp only [astep, hcur0, hngt, hit, ↓reduceIte, hl, hdiff, hafter]
          · simp; omega
          · simp; omega
          · simp; omega
        · have hafter : ¬ (s.rcv.cur - 1 = 0 ∨ s.rcv.cur - 1 > s.rcv.max) := by omega
          refine ⟨{ s with rcv := { s.rcv with cur := s.rcv.cur - 1, items := s.rcv.items - 1 } }, .app .item, ?_,
                  ⟨⟨sc, rc, hc, hs, ?_, hle, hlow⟩, ?_, ?_, hmax⟩, by simp⟩
          · simp only [astep, hcur0, hngt, hit, ↓reduceIte, hl, hafter]
          · simp; omega
          · simp; omega
          · simp; omega
  | brokerItem =>
    by_cases hsb : s.sb = 0
    · refine ⟨s, .idle, ?_, ⟨⟨sc, rc, hc, hs, hr, hle, hlow⟩, hpos, hcur, hmax⟩, by simp⟩
      simp only [astep, hsb, ↓reduceIte]
    · have h0 : sc ≠ 0 := by omega
      have hrc : rc ≠ 0 := by omega
      by_cases hann : sc - 1 ≤ lowCapacity ∧ rc - 1 > sc - 1
      · refine ⟨{ s with chan := ⟨.claimed sid (rc - 1), .claimed rid (rc - 1)⟩, sb := s.sb - 1, br := s.br + 1,
                         bs := s.bs ++ [rc - 1 - (sc - 1)] }, .moved, ?_,
                ⟨⟨rc - 1, rc - 1, rfl, ?_, ?_, Nat.le_refl _, fun _ => rfl⟩, hpos, hcur, hmax⟩, by simp⟩
        · simp only [astep, hsb, ↓reduceIte, hc, Chan.sendItem, ne_eq, not_true_eq_false, h0, hrc, hann, and_self, Option.toList_some]
        · simp; omega
        · simp; omega
      · refine ⟨{ s with chan := ⟨.claimed sid (sc - 1), .claimed rid (rc - 1)⟩, sb := s.sb - 1, br := s.br + 1, bs := s.bs ++ [] }, .moved, ?_,
                ⟨⟨sc - 1, rc - 1, rfl, ?_, ?_, by omega, ?_⟩, hpos, hcur, hmax⟩, by simp⟩
        · simp only [astep, hsb, ↓reduceIte, hc, Chan.sendItem, ne_eq, not_true_eq_false, h0, hrc, hann, Option.toList_none]
        · simp; omega
        · simp; omega
        · intro hl
          have : ¬ (rc - 1 > sc - 1) := fun hgt => hann ⟨hl, hgt⟩
          omega
  | brokerGrant =>
    cases hrb : s.rb with
    | nil =>
      refine ⟨s, .idle, ?_, ⟨⟨sc, rc, hc, hs, hr, hle, hlow⟩, hpos, hcur, hmax⟩, by simp⟩
      simp only [astep, hrb]
    | cons g rest =>
      have hsum : s.rb.sum = g + rest.sum := by rw [hrb]; simp
      by_cases hg : g = 0
      · refine ⟨{ s with rb := rest, bs := s.bs ++ [] }, .moved, ?_, ⟨⟨sc, rc, hc, by simp; omega, by simp; omega, hle, hlow⟩, hpos, hcur, hmax⟩, by simp⟩
        simp only [astep, hrb, hc, Chan.addCapacity, hg, ↓reduceIte, Option.map_none, Option.toList_none]
      · have hov : ¬ (rc + g > u32Max) := by omega
        by_cases hsl : sc ≤ lowCapacity
        · have hsr : sc = rc := hlow hsl
          have hgt : rc + g > sc := by omega
          refine ⟨{ s with chan := ⟨.claimed sid (rc + g), .claimed rid (rc + g)⟩, rb := rest, bs := s.bs ++ [rc + g - sc] }, .moved, ?_,
                  ⟨⟨rc + g, rc + g, rfl, ?_, ?_, Nat.le_refl _, fun _ => rfl⟩, hpos, hcur, hmax⟩, by simp⟩
          · simp only [astep, hrb, hc, Chan.addCapacity, hg, ↓reduceIte, ne_eq, not_true_eq_false, hov, hsl, hgt,
              Option.map_some, Option.toList_some]
          · simp; omega
          · simp; omega
        · refine ⟨{ s with chan := ⟨.claimed sid sc, .claimed rid (rc + g)⟩, rb := rest, bs := s.bs ++ [] }, .moved, ?_,
                  ⟨⟨sc, rc + g, rfl, ?_, ?_, by omega, fun h => absurd h hsl⟩, hpos, hcur, hmax⟩, by simp⟩
          · simp only [astep, hrb, hc, Chan.addCapacity, hg, ↓reduceIte, ne_eq, not_true_eq_false, hov, hsl,
              Option.map_none, Option.toList_none]
          · simp; omega
          · simp; omega
  | deliverItem =>
    by_cases hbr : s.br = 0
    · refine ⟨s, .idle, ?_, ⟨⟨sc, rc, hc, hs, hr, hle, hlow⟩, hpos, hcur, hmax⟩, by simp⟩
      simp only [astep, hbr, ↓reduceIte]
    · refine ⟨{ s with br := s.br - 1, rcv := { s.rcv with items := s.rcv.items + 1 } }, .moved, ?_,
              ⟨⟨sc, rc, hc, hs, by simp; omega, hle, hlow⟩, hpos, hcur, hmax⟩, by simp⟩
      simp only [astep, hbr, ↓reduceIte]
  | deliverAnn =>
    cases hbs : s.bs with
    | nil =>
      refine ⟨s, .idle, ?_, ⟨⟨sc, rc, hc, hs, hr, hle, hlow⟩, hpos, hcur, hmax⟩, by simp⟩
      simp only [astep, hbs]
    | cons a rest =>
      have hsum : s.bs.sum = a + rest.sum := by rw [hbs]; simp
      refine ⟨{ s with bs := rest, snd := { s.snd with queue := s.snd.queue ++ [a] } }, .moved, ?_,
              ⟨⟨sc, rc, hc, by simp; omega, hr, hle, hlow⟩, hpos, hcur, hmax⟩, by simp⟩
      simp only [astep, hbs]

theorem arun_inv {s : ASys} (h : AInv s) (ops : List AOp) : ∃ s' os, arun s ops = .ok (s', os) ∧ AInv s' ∧ .cutOff ∉ os := by
  induction ops generalizing s with
  | nil => exact ⟨s, [], rfl, h, by simp⟩
  | cons op ops ih =>
    obtain ⟨s1, o, h1, hi1, ho⟩ := astep_inv h op
    obtain ⟨s2, os, h2, hi2, hos⟩ := ih hi1
    refine ⟨s2, o :: os, by simp [arun, h1, h2], hi2, ?_⟩
    simp only [List.mem_cons, not_or]
    exact ⟨fun e => ho e.symm, hos⟩

/-- what has been forwarded and not taken never exceeds what the receiver has granted and not used -/
theorem AInv.outstanding_le {s : ASys} (h : AInv s) : s.rcv.items + s.br ≤ s.rcv.max := by
  obtain ⟨⟨sc, rc, hc, hs, hr, hle, hlow⟩, hpos, hcur, hmax⟩ := h
  omega

/-- nothing in flight and nothing waiting: the sender may send -/
theorem AInv.ready_at_rest {s : ASys} (h : AInv s) (h1 : s.sb = 0) (h2 : s.br = 0) (h3 : s.rb = []) (h4 : s.bs = [])
    (hi : s.rcv.items = 0) : 0 < s.snd.drain.capacity := by
  obtain ⟨⟨sc, rc, hc, hs, hr, hle, hlow⟩, hpos, hcur, hmax⟩ := h
  simp only [drain_capacity]
  simp only [h1, h2, h3, h4, hi, List.sum_nil] at hs hr
  have : lowCapacity = 4 := rfl
  by_cases hl : sc ≤ lowCapacity
  · have := hlow hl; omega
  · omega

end Aldrin.ClientChan
