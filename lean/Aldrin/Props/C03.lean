/-
C03 — Object/service registry: uniqueness, ownership, cascading destruction.

Statement (properties.jsonl): at any time at most one live object exists per object UUID and at most one
live service per (object, service UUID); creation is answered ok with a cookie never used before, or
duplicate/invalid-object/foreign-object exactly when the bus state says so. Only the owning connection
can add services to or destroy an object or service; destroying an object destroys all its services,
and a disconnect destroys everything the connection owned. Queries about a service succeed exactly
while it is live.

What is proved here (model M4): `registry_unique_and_fresh_all_histories` — an inductive invariant over all
event histories (unique keys in all four registry maps, equal sizes of the cookie and uuid views, the next
cookie unused anywhere). The registry maps are keyed by uuid resp. (object uuid, service uuid),
so "at most one live entity per key" holds by construction in model and code alike; the content is in
the handlers' decisions, proved for every broker state:
* `create_object`: duplicate iff the uuid is live, else registered for the sender under a cookie taken
  from a counter that is advanced (`create_object_*`);
* `destroy_object`, `create_service`: invalid / foreign / duplicate / ok exactly by registry state and
  ownership (`destroy_object_*`, `create_service_*`);
* version queries succeed exactly while the cookie is live (`query_version_live`), calls to a dead
  cookie are answered `InvalidService` (C02 `no_service`).
For ALL histories the registry cross-reference invariant holds between two events
(`registry_cross_references_all_histories`, from `Lemmas/Broker/{XReg,RegView,RegFrame,Reg}.lean`: the cookie map
and the uuid map of objects name each other, the owner of every object is a connection that is still there and
lists it, what a connection lists is an object it owns, the cookie map and the uuid map of services name each
other, every service hangs off a live object that lists it, what an object lists is one of its services). Its
consequences, each for every history: `owner_is_connected_and_lists_object`, `service_hangs_off_live_object`,
`listed_service_is_registered`, `connection_lists_only_own_objects`; cascading destruction:
`services_of_a_dead_object_are_dead` (whenever an object cookie is not registered, no registered service refers to
it), `destroy_object_unregisters` / `destroy_service_unregisters` (after an accepted destroy request the cookie is
not registered, and the invariant holds again, so all services of the object are gone with it);
`objects_of_a_gone_connection_are_gone` (no object is owned by a connection that is not there — whatever way it
went: shutdown message, transport error, forced by the handle, broker shutdown).
Still tied by the correspondence runs only: the *messages* the cascade sends (`ServiceDestroyed`, bus events).
-/
import Aldrin.Lemmas.Broker.Events
import Aldrin.Lemmas.Broker.Gauge5
import Aldrin.Lemmas.Broker.Reg
import Aldrin.Lemmas.Broker.SvcBus

namespace Aldrin.Broker

/-- for ALL histories: at most one live object per uuid and at most one live service per (object uuid,
service uuid), cookies index them uniquely, the two views of each registry have the same size, and the
cookie the next creation will hand out is not in use in any cookie-indexed map -/
theorem registry_unique_and_fresh_all_histories (es : List Event) (b : Broker) (w : Work) (outs : List (List Out))
    (h : run {} {} es = .ok (b, w, outs)) :
    AL.NodupKeys b.objs ∧ AL.NodupKeys b.objUuids ∧ AL.NodupKeys b.svcs ∧ AL.NodupKeys b.svcUuids ∧
    b.objUuids.length = b.objs.length ∧ b.svcUuids.length = b.svcs.length ∧
    AL.find? b.nextCookie b.objUuids = none ∧ AL.find? b.nextCookie b.svcUuids = none ∧
    AL.find? b.nextCookie b.channels = none ∧ AL.find? b.nextCookie b.listeners = none := by
  obtain ⟨_, g2, g3, g4, g5⟩ := run_G5 es _ _ _ _ _ G5_init h
  obtain ⟨c1, c2⟩ := run_G2 es _ _ _ _ _ G2_init h
  refine ⟨g3.nodup, g2.nodup, g5.nodup, g4.nodup, ?_, ?_, KeysBelow_fresh g2.below, KeysBelow_fresh g4.below,
    KeysBelow_fresh c1.below, KeysBelow_fresh c2.below⟩
  · have a := g2.size; have b' := g3.size; simp at a b'; omega
  · have a := g4.size; have b' := g5.size; simp at a b'; omega

theorem create_object_duplicate {s : St} {id serial uuid} {c : Conn} {o : Obj}
    (hc : AL.find? id s.b.conns = some c) (ho : AL.find? uuid s.b.objs = some o) :
    ∃ s' ok, createObject s id serial uuid = .ok (s', ok) ∧ s'.b.objs = s.b.objs ∧ s'.b.objUuids = s.b.objUuids ∧
      s'.b.nextCookie = s.b.nextCookie ∧
      (c.alive = true → s'.out = s.out ++ [⟨id, .createObjectReply serial .duplicate, none⟩]) :=
  createObject_duplicate hc ho

theorem create_object_ok {s : St} {id serial uuid} {c : Conn}
    (hc : AL.find? id s.b.conns = some c) (ha : c.alive = true) (ho : AL.find? uuid s.b.objs = none) :
    ∃ s', createObject s id serial uuid = .ok (s', true) ∧
      AL.find? uuid s'.b.objs = some ⟨id, s.b.nextCookie, []⟩ ∧
      AL.find? s.b.nextCookie s'.b.objUuids = some uuid ∧
      s'.b.nextCookie = s.b.nextCookie + 1 ∧
      s'.out = s.out ++ [⟨id, .createObjectReply serial (.ok s.b.nextCookie), none⟩] ∧
      s'.w.createObject = ⟨uuid, s.b.nextCookie⟩ :: s.w.createObject := createObject_fresh hc ha ho

theorem destroy_object_invalid {s : St} {id serial cookie} {c : Conn}
    (hc : AL.find? id s.b.conns = some c) (ho : AL.find? cookie s.b.objUuids = none) :
    destroyObject s id serial cookie = .ok (s.send id (.destroyObjectReply serial .invalidObject)) :=
  destroyObject_invalid hc ho

theorem destroy_object_foreign {s : St} {id serial cookie uuid} {c : Conn} {o : Obj}
    (hc : AL.find? id s.b.conns = some c) (hu : AL.find? cookie s.b.objUuids = some uuid)
    (ho : AL.find? uuid s.b.objs = some o) (hne : o.conn ≠ id) :
    destroyObject s id serial cookie = .ok (s.send id (.destroyObjectReply serial .foreignObject)) :=
  destroyObject_foreign hc hu ho hne

theorem create_service_invalid_object {s : St} {id serial oc uuid v} {c : Conn}
    (hc : AL.find? id s.b.conns = some c) (ho : AL.find? oc s.b.objUuids = none) :
    createService s id serial oc uuid v = .ok (s.send id (.createServiceReply serial .invalidObject)) :=
  createService_invalidObject hc ho

theorem create_service_duplicate {s : St} {id serial oc uuid v ou} {c : Conn} {sv : Svc}
    (hc : AL.find? id s.b.conns = some c) (ho : AL.find? oc s.b.objUuids = some ou)
    (hs : AL.find? (ou, uuid) s.b.svcs = some sv) :
    createService s id serial oc uuid v = .ok (s.send id (.createServiceReply serial .duplicate)) :=
  createService_duplicate hc ho hs

theorem create_service_foreign {s : St} {id serial oc uuid v ou} {c : Conn} {o : Obj}
    (hc : AL.find? id s.b.conns = some c) (ho : AL.find? oc s.b.objUuids = some ou)
    (hs : AL.find? (ou, uuid) s.b.svcs = none) (hobj : AL.find? ou s.b.objs = some o) (hne : o.conn ≠ id) :
    createService s id serial oc uuid v = .ok (s.send id (.createServiceReply serial .foreignObject)) :=
  createService_foreign hc ho hs hobj hne

theorem create_service_ok {s : St} {id serial oc uuid v ou} {c : Conn} {o : Obj}
    (hc : AL.find? id s.b.conns = some c) (ha : c.alive = true) (ho : AL.find? oc s.b.objUuids = some ou)
    (hs : AL.find? (ou, uuid) s.b.svcs = none) (hobj : AL.find? ou s.b.objs = some o) (hown : o.conn = id) :
    ∃ s', createService s id serial oc uuid v = .ok (s', true) ∧
      AL.find? s.b.nextCookie s'.b.svcUuids = some (⟨ou, oc⟩, uuid, { version := v }) ∧
      AL.find? (ou, uuid) s'.b.svcs = some { cookie := s.b.nextCookie, objCookie := oc } ∧
      s'.b.nextCookie = s.b.nextCookie + 1 ∧
      s'.out = s.out ++ [⟨id, .createServiceReply serial (.ok s.b.nextCookie), none⟩] :=
  createService_fresh hc ha ho hs hobj hown

theorem query_version_live {s : St} {id serial svc} {c : Conn} (hc : AL.find? id s.b.conns = some c) :
    queryServiceVersion s id serial svc =
      .ok (s.send id (.queryServiceVersionReply serial ((AL.find? svc s.b.svcUuids).map (·.2.2.version)))) :=
  queryServiceVersion_spec hc

/-! ### the cross-reference invariant of the registry, for every history -/

/-- for ALL histories: between two events the registry's maps, the per-object service sets and the per-connection
object sets agree with each other -/
theorem registry_cross_references_all_histories (es : List Event) (b : Broker) (w : Work) (outs : List (List Out))
    (h : run {} {} es = .ok (b, w, outs)) : RegistryConsistent b :=
  RegistryConsistent.of_reg (run_reg es _ _ _ _ _ G5_init Reg.init h)

/-- the owner of every object is connected and lists the object -/
theorem owner_is_connected_and_lists_object (es : List Event) (b : Broker) (w : Work) (outs : List (List Out))
    (h : run {} {} es = .ok (b, w, outs)) {u : Uuid} {o : Obj} (ho : AL.find? u b.objs = some o) :
    ∃ conn, AL.find? o.conn b.conns = some conn ∧ o.cookie ∈ conn.objects :=
  (registry_cross_references_all_histories es b w outs h).owner_lists_object u o ho

/-- a connection lists only objects it owns: what a disconnect destroys is the connection's own -/
theorem connection_lists_only_own_objects (es : List Event) (b : Broker) (w : Work) (outs : List (List Out))
    (h : run {} {} es = .ok (b, w, outs)) {id : ConnId} {conn : Conn} {c : Cookie} (hc : AL.find? id b.conns = some conn)
    (hm : c ∈ conn.objects) : ∃ u o, AL.find? c b.objUuids = some u ∧ AL.find? u b.objs = some o ∧ o.conn = id :=
  (registry_cross_references_all_histories es b w outs h).listed_object_is_owned id conn c hc hm

/-- every registered service hangs off a live object which lists it -/
theorem service_hangs_off_live_object (es : List Event) (b : Broker) (w : Work) (outs : List (List Out))
    (h : run {} {} es = .ok (b, w, outs)) {sc : Cookie} {oid : ObjId} {svu : Uuid} {info : SvcInfo}
    (hs : AL.find? sc b.svcUuids = some (oid, svu, info)) :
    AL.find? oid.cookie b.objUuids = some oid.uuid ∧ ∃ o, AL.find? oid.uuid b.objs = some o ∧ sc ∈ o.svcs :=
  (registry_cross_references_all_histories es b w outs h).service_has_live_object sc oid svu info hs

theorem listed_service_is_registered (es : List Event) (b : Broker) (w : Work) (outs : List (List Out))
    (h : run {} {} es = .ok (b, w, outs)) {u : Uuid} {o : Obj} {sc : Cookie} (ho : AL.find? u b.objs = some o) (hm : sc ∈ o.svcs) :
    ∃ svu info, AL.find? sc b.svcUuids = some (⟨u, o.cookie⟩, svu, info) :=
  (registry_cross_references_all_histories es b w outs h).listed_service_is_of_object u o sc ho hm

/-- cascading destruction: whenever an object cookie is not (or no longer) registered, no registered service refers
to it -/
theorem services_of_a_dead_object_are_dead (es : List Event) (b : Broker) (w : Work) (outs : List (List Out))
    (h : run {} {} es = .ok (b, w, outs)) {c : Cookie} (hc : AL.find? c b.objUuids = none)
    {sc : Cookie} {oid : ObjId} {svu : Uuid} {info : SvcInfo} (hs : AL.find? sc b.svcUuids = some (oid, svu, info)) :
    oid.cookie ≠ c := by
  intro he
  have := (service_hangs_off_live_object es b w outs h hs).1
  rw [he, hc] at this; simp at this

/-- a disconnect destroys everything the connection owned: no object is owned by a connection that is not there -/
theorem objects_of_a_gone_connection_are_gone (es : List Event) (b : Broker) (w : Work) (outs : List (List Out))
    (h : run {} {} es = .ok (b, w, outs)) {id : ConnId} (hgone : AL.find? id b.conns = none) {u : Uuid} {o : Obj}
    (ho : AL.find? u b.objs = some o) : o.conn ≠ id := by
  intro he
  obtain ⟨conn, hc, _⟩ := owner_is_connected_and_lists_object es b w outs h ho
  rw [he, hgone] at hc; simp at hc

/-- an accepted `DestroyObject` (owner, reply delivered) unregisters the object's cookie and leaves the registry
consistent — so, by `services_of_a_dead_object_are_dead`, without any service of that object -/
theorem destroy_object_unregisters {s s' : St} {id serial c u} {conn : Conn} {o : Obj} (h : Reg none none s)
    (hc : AL.find? id s.b.conns = some conn) (ha : conn.alive = true) (hu : AL.find? c s.b.objUuids = some u)
    (ho : AL.find? u s.b.objs = some o) (hown : o.conn = id) (hr : destroyObject s id serial c = .ok (s', true)) :
    AL.find? c s'.b.objUuids = none ∧ Reg none none s' ∧
      ∀ sc oid svu info, AL.find? sc s'.b.svcUuids = some (oid, svu, info) → oid.cookie ≠ c := by
  have hreg := destroyObject_reg h hr
  have hnone : AL.find? c s'.b.objUuids = none := by
    unfold destroyObject at hr
    simp only [St.conn?, hc, hu, ho, hown] at hr
    simp only [ne_eq, not_true_eq_false, ↓reduceIte] at hr
    have hs : (s.send id (Rsp.destroyObjectReply serial DestroyObjRes.ok)).2 = true := by simp [St.send, St.conn?, hc, ha]
    simp only [hs, Bool.not_true, Bool.false_eq_true, ↓reduceIte] at hr
    split at hr
    · simp at hr
    · rename_i s1 h1
      simp only [okH, Except.ok.injEq, Prod.mk.injEq, and_true] at hr
      subst hr
      exact (removeObject_reg (pc := none) (Reg.of_same h (by reg_eq)) h1).2
  refine ⟨hnone, hreg, ?_⟩
  intro sc oid svu info hs he
  rcases hreg.i7 sc oid svu info hs with ⟨ha', _⟩ | ⟨l, hl, _⟩
  · simp only [ouv] at ha'; rw [he, hnone] at ha'; simp at ha'
  · simp at hl

/-- an accepted `DestroyService` unregisters the service's cookie and leaves the registry consistent -/
theorem destroy_service_unregisters {s s' : St} {id serial c} {conn : Conn} {oid : ObjId} {svu : Uuid} {info : SvcInfo} {o : Obj}
    (h : Reg none none s) (hc : AL.find? id s.b.conns = some conn) (ha : conn.alive = true)
    (hu : AL.find? c s.b.svcUuids = some (oid, svu, info)) (ho : AL.find? oid.uuid s.b.objs = some o) (hown : o.conn = id)
    (hr : destroyService s id serial c = .ok (s', true)) :
    AL.find? c s'.b.svcUuids = none ∧ Reg none none s' := by
  refine ⟨?_, destroyService_reg h hr⟩
  unfold destroyService at hr
  simp only [St.conn?, hc, hu, ho, hown] at hr
  simp only [ne_eq, not_true_eq_false, ↓reduceIte] at hr
  have hs : (s.send id (Rsp.destroyServiceReply serial DestroySvcRes.ok)).2 = true := by simp [St.send, St.conn?, hc, ha]
  simp only [hs, Bool.not_true, Bool.false_eq_true, ↓reduceIte] at hr
  split at hr
  · simp at hr
  · rename_i s1 h1
    simp only [okH, Except.ok.injEq, Prod.mk.injEq, and_true] at hr
    subst hr
    exact (removeService_reg (pc := none) (ps := none) (Reg.of_same h (by reg_eq)) h1).2.1

/-! ### the bus events of the cascade -/

/-- **`remove_service` announces the service.** From any state in which it succeeds: if the cookie is registered, one
`ServiceDestroyed` with the service's full id is deferred for the bus listeners and exactly that cookie is unregistered;
if it is not, nothing changes. No `ObjectDestroyed` is deferred. -/
theorem destroyed_service_is_announced {s s' : St} {c : Cookie} (hr : removeService s c = .ok s') :
    (∀ c', AL.find? c' s'.b.svcUuids = if c = c' then none else AL.find? c' s.b.svcUuids) ∧
    s'.w.destroyService = (svcItem s.b.svcUuids c).toList ++ s.w.destroyService ∧
    s'.w.destroyObject = s.w.destroyObject :=
  removeService_bus hr

/-- **`remove_object` announces the object and every service it lists** (the object's list names no service twice): one
`ObjectDestroyed` with the object's id, one `ServiceDestroyed` per listed service that is registered, in the order of the
list, and all of these cookies are unregistered. -/
theorem destroyed_object_cascade_is_announced {s s' : St} {c : Cookie} {objUuid : Uuid} {obj : Obj}
    (hu : AL.find? c s.b.objUuids = some objUuid) (ho : AL.find? objUuid s.b.objs = some obj) (hnd : obj.svcs.Nodup)
    (hr : removeObject s c = .ok s') :
    (∀ c', AL.find? c' s'.b.svcUuids = if c' ∈ obj.svcs then none else AL.find? c' s.b.svcUuids) ∧
    s'.w.destroyService = (obj.svcs.filterMap (svcItem s.b.svcUuids)).reverse ++ s.w.destroyService ∧
    s'.w.destroyObject = ⟨objUuid, c⟩ :: s.w.destroyObject :=
  removeObject_bus hu ho hnd hr

/-- in a consistent registry every service an object lists is registered under that object: none of the listed services
is skipped by the cascade -/
theorem listed_services_are_announced {b : Broker} (hrc : RegistryConsistent b) {u : Uuid} {o : Obj} (ho : AL.find? u b.objs = some o)
    {sc : Cookie} (hm : sc ∈ o.svcs) : ∃ sid, svcItem b.svcUuids sc = some sid ∧ sid.cookie = sc := by
  obtain ⟨svu, info, hs⟩ := hrc.listed_service_is_of_object u o sc ho hm
  exact ⟨_, by simp only [svcItem, hs]; rfl, rfl⟩

/-- the work loop turns the deferred items into bus events, services before objects: with nothing of higher priority
deferred, the first `destroy_service` item is emitted as `ServiceDestroyed`; with no such item left, the first
`destroy_object` item as `ObjectDestroyed` -/
theorem deferred_destructions_are_emitted {s : St} (h0 : s.w.removeConns = []) (h1 : s.w.unsubscribeEvent = []) (h2 : s.w.unsubscribeAll = [])
    (h3 : s.w.servicesDestroyed = []) (h4 : s.w.removeCalls = []) (h5 : s.w.createObject = []) (h6 : s.w.createService = []) :
    (∀ sv rest, s.w.destroyService = sv :: rest →
      processOne s = some (.ok (emitBusEvent (s.setWDestroyService rest) (.svcDestroyed sv)))) ∧
    (∀ o rest, s.w.destroyService = [] → s.w.destroyObject = o :: rest →
      processOne s = some (.ok (emitBusEvent (s.setWDestroyObject rest) (.objDestroyed o)))) := by
  constructor
  · intro sv rest hq
    unfold processOne
    simp only [h0, h1, h2, h3, h4, h5, h6, hq]
  · intro o rest hq1 hq
    unfold processOne
    simp only [h0, h1, h2, h3, h4, h5, h6, hq1, hq]

/-! non-vacuity of the invariant's clauses: a state with two connections, an object with a service, and a second object -/
example : (match run {} {} [.newConn 0 20, .newConn 1 20, .msg 0 (.createObject 1 5), .msg 0 (.createService 2 0 6 3),
      .msg 1 (.createObject 3 7)] with
    | .ok (b, _, _) => (b.objUuids, b.objs.map (fun p => (p.1, p.2.conn, p.2.cookie, p.2.svcs)))
    | .error _ => ([], [])) = ([(0, 5), (2, 7)], [(5, 0, 0, [1]), (7, 1, 2, [])]) := by decide
example : (match run {} {} [.newConn 0 20, .newConn 1 20, .msg 0 (.createObject 1 5), .msg 0 (.createService 2 0 6 3),
      .msg 1 (.createObject 3 7)] with
    | .ok (b, _, _) => (b.svcUuids.map (fun p => (p.1, p.2.1.uuid, p.2.1.cookie, p.2.2.1)), b.conns.map (fun p => (p.1, p.2.objects)))
    | .error _ => ([], [])) = ([(1, 5, 0, 6)], [(0, [0]), (1, [2])]) := by decide

/-! non-vacuity: re-creation after destruction gives a new cookie; a foreign destroy is refused; destroying
the object destroys its service (the later query says so) -/
example : (match run {} {} [.newConn 0 20, .newConn 1 20, .msg 0 (.createObject 1 5), .msg 0 (.createService 2 0 6 3),
      .msg 1 (.destroyObject 3 0), .msg 0 (.destroyObject 4 0), .msg 1 (.queryServiceVersion 5 1),
      .msg 1 (.createObject 6 5)] with
    | .ok (_, _, outs) => outs.drop 4 | .error _ => []) =
    [[⟨1, .destroyObjectReply 3 .foreignObject, none⟩], [⟨0, .destroyObjectReply 4 .ok, none⟩],
     [⟨1, .queryServiceVersionReply 5 none, none⟩], [⟨1, .createObjectReply 6 (.ok 2), none⟩]] := by decide

end Aldrin.Broker
