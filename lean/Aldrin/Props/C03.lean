/-
C03 — Object/service registry: uniqueness, ownership, cascading destruction.

Statement (properties.jsonl): at any time at most one live object exists per object UUID and at most one
live service per (object, service UUID); creation is answered ok with a cookie never used before, or
duplicate/invalid-object/foreign-object exactly when the bus state says so. Only the owning connection
can add services to or destroy an object or service; destroying an object destroys all its services,
and a disconnect destroys everything the connection owned. Queries about a service succeed exactly
while it is live.

What is proved here (model M4): `registry_unique_and_fresh_all_histories` — an inductive invariant over all
event histories (unique keys in all four registry maps, equal sizes of the cookie and uuid views, the next
cookie unused anywhere). The registry maps are keyed by uuid resp. (object uuid, service uuid),
so "at most one live entity per key" holds by construction in model and code alike; the content is in
the handlers' decisions, proved for every broker state:
* `create_object`: duplicate iff the uuid is live, else registered for the sender under a cookie taken
  from a counter that is advanced (`create_object_*`);
* `destroy_object`, `create_service`: invalid / foreign / duplicate / ok exactly by registry state and
  ownership (`destroy_object_*`, `create_service_*`);
* version queries succeed exactly while the cookie is live (`query_version_live`), calls to a dead
  cookie are answered `InvalidService` (C02 `no_service`).
Partial: cascading destruction and "everything owned is destroyed on disconnect" over histories need the
registry cross-reference invariant (cookie map ↔ uuid map ↔ per-object / per-connection sets); tied by
the correspondence runs over a pool of 4 uuids (collisions, re-creation, foreign access, disconnects).
-/
import Aldrin.Lemmas.Broker.Events
import Aldrin.Lemmas.Broker.Gauge5

namespace Aldrin.Broker

/-- for ALL histories: at most one live object per uuid and at most one live service per (object uuid,
service uuid), cookies index them uniquely, the two views of each registry have the same size, and the
cookie the next creation will hand out is not in use in any cookie-indexed map -/
theorem registry_unique_and_fresh_all_histories (es : List Event) (b : Broker) (w : Work) (outs : List (List Out))
    (h : run {} {} es = .ok (b, w, outs)) :
    AL.NodupKeys b.objs ∧ AL.NodupKeys b.objUuids ∧ AL.NodupKeys b.svcs ∧ AL.NodupKeys b.svcUuids ∧
    b.objUuids.length = b.objs.length ∧ b.svcUuids.length = b.svcs.length ∧
    AL.find? b.nextCookie b.objUuids = none ∧ AL.find? b.nextCookie b.svcUuids = none ∧
    AL.find? b.nextCookie b.channels = none ∧ AL.find? b.nextCookie b.listeners = none := by
  obtain ⟨_, g2, g3, g4, g5⟩ := run_G5 es _ _ _ _ _ G5_init h
  obtain ⟨c1, c2⟩ := run_G2 es _ _ _ _ _ G2_init h
  refine ⟨g3.nodup, g2.nodup, g5.nodup, g4.nodup, ?_, ?_, KeysBelow_fresh g2.below, KeysBelow_fresh g4.below,
    KeysBelow_fresh c1.below, KeysBelow_fresh c2.below⟩
  · have a := g2.size; have b' := g3.size; simp at a b'; omega
  · have a := g4.size; have b' := g5.size; simp at a b'; omega

theorem create_object_duplicate {s : St} {id serial uuid} {c : Conn} {o : Obj}
    (hc : AL.find? id s.b.conns = some c) (ho : AL.find? uuid s.b.objs = some o) :
    ∃ s' ok, createObject s id serial uuid = .ok (s', ok) ∧ s'.b.objs = s.b.objs ∧ s'.b.objUuids = s.b.objUuids ∧
      s'.b.nextCookie = s.b.nextCookie ∧
      (c.alive = true → s'.out = s.out ++ [⟨id, .createObjectReply serial .duplicate, none⟩]) :=
  createObject_duplicate hc ho

theorem create_object_ok {s : St} {id serial uuid} {c : Conn}
    (hc : AL.find? id s.b.conns = some c) (ha : c.alive = true) (ho : AL.find? uuid s.b.objs = none) :
    ∃ s', createObject s id serial uuid = .ok (s', true) ∧
      AL.find? uuid s'.b.objs = some ⟨id, s.b.nextCookie, []⟩ ∧
      AL.find? s.b.nextCookie s'.b.objUuids = some uuid ∧
      s'.b.nextCookie = s.b.nextCookie + 1 ∧
      s'.out = s.out ++ [⟨id, .createObjectReply serial (.ok s.b.nextCookie), none⟩] ∧
      s'.w.createObject = ⟨uuid, s.b.nextCookie⟩ :: s.w.createObject := createObject_fresh hc ha ho

theorem destroy_object_invalid {s : St} {id serial cookie} {c : Conn}
    (hc : AL.find? id s.b.conns = some c) (ho : AL.find? cookie s.b.objUuids = none) :
    destroyObject s id serial cookie = .ok (s.send id (.destroyObjectReply serial .invalidObject)) :=
  destroyObject_invalid hc ho

theorem destroy_object_foreign {s : St} {id serial cookie uuid} {c : Conn} {o : Obj}
    (hc : AL.find? id s.b.conns = some c) (hu : AL.find? cookie s.b.objUuids = some uuid)
    (ho : AL.find? uuid s.b.objs = some o) (hne : o.conn ≠ id) :
    destroyObject s id serial cookie = .ok (s.send id (.destroyObjectReply serial .foreignObject)) :=
  destroyObject_foreign hc hu ho hne

theorem create_service_invalid_object {s : St} {id serial oc uuid v} {c : Conn}
    (hc : AL.find? id s.b.conns = some c) (ho : AL.find? oc s.b.objUuids = none) :
    createService s id serial oc uuid v = .ok (s.send id (.createServiceReply serial .invalidObject)) :=
  createService_invalidObject hc ho

theorem create_service_duplicate {s : St} {id serial oc uuid v ou} {c : Conn} {sv : Svc}
    (hc : AL.find? id s.b.conns = some c) (ho : AL.find? oc s.b.objUuids = some ou)
    (hs : AL.find? (ou, uuid) s.b.svcs = some sv) :
    createService s id serial oc uuid v = .ok (s.send id (.createServiceReply serial .duplicate)) :=
  createService_duplicate hc ho hs

theorem create_service_foreign {s : St} {id serial oc uuid v ou} {c : Conn} {o : Obj}
    (hc : AL.find? id s.b.conns = some c) (ho : AL.find? oc s.b.objUuids = some ou)
    (hs : AL.find? (ou, uuid) s.b.svcs = none) (hobj : AL.find? ou s.b.objs = some o) (hne : o.conn ≠ id) :
    createService s id serial oc uuid v = .ok (s.send id (.createServiceReply serial .foreignObject)) :=
  createService_foreign hc ho hs hobj hne

theorem create_service_ok {s : St} {id serial oc uuid v ou} {c : Conn} {o : Obj}
    (hc : AL.find? id s.b.conns = some c) (ha : c.alive = true) (ho : AL.find? oc s.b.objUuids = some ou)
    (hs : AL.find? (ou, uuid) s.b.svcs = none) (hobj : AL.find? ou s.b.objs = some o) (hown : o.conn = id) :
    ∃ s', createService s id serial oc uuid v = .ok (s', true) ∧
      AL.find? s.b.nextCookie s'.b.svcUuids = some (⟨ou, oc⟩, uuid, { version := v }) ∧
      AL.find? (ou, uuid) s'.b.svcs = some { cookie := s.b.nextCookie, objCookie := oc } ∧
      s'.b.nextCookie = s.b.nextCookie + 1 ∧
      s'.out = s.out ++ [⟨id, .createServiceReply serial (.ok s.b.nextCookie), none⟩] :=
  createService_fresh hc ha ho hs hobj hown

theorem query_version_live {s : St} {id serial svc} {c : Conn} (hc : AL.find? id s.b.conns = some c) :
    queryServiceVersion s id serial svc =
      .ok (s.send id (.queryServiceVersionReply serial ((AL.find? svc s.b.svcUuids).map (·.2.2.version)))) :=
  queryServiceVersion_spec hc

/-! non-vacuity: re-creation after destruction gives a new cookie; a foreign destroy is refused; destroying
the object destroys its service (the later query says so) -/
example : (match run {} {} [.newConn 0 20, .newConn 1 20, .msg 0 (.createObject 1 5), .msg 0 (.createService 2 0 6 3),
      .msg 1 (.destroyObject 3 0), .msg 0 (.destroyObject 4 0), .msg 1 (.queryServiceVersion 5 1),
      .msg 1 (.createObject 6 5)] with
    | .ok (_, _, outs) => outs.drop 4 | .error _ => []) =
    [[⟨1, .destroyObjectReply 3 .foreignObject, none⟩], [⟨0, .destroyObjectReply 4 .ok, none⟩],
     [⟨1, .queryServiceVersionReply 5 none, none⟩], [⟨1, .createObjectReply 6 (.ok 2), none⟩]] := by decide

end Aldrin.Broker
