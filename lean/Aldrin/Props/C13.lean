/-
C13 — Value epoch conversion preserves meaning and removes new encodings.

Statement (properties.jsonl): converting a well-formed serialized value to a protocol version before
1.20 yields a well-formed value that decodes to the same value and contains none of the container
encodings introduced in 1.20; converting to the same or a newer epoch returns the input unchanged,
and converting twice equals converting once. Conversion fails only for ill-formed input (UTF-8
validity aside) or for versions outside 1.14..1.20, and never panics.

"Contains none of the new encodings" is stated operationally: the output is accepted — with the
same value — by `DecCfg.legacy`, a decoder to which the kinds 43..65 do not exist.
The `≤ u32Max` hypotheses are the `Overflow` branch of `convert_*2_to_*1` (an element count ≥ 2³²
needs an input ≥ 4 GiB); they are forced by the code, not by the proof technique.
-/
import Aldrin.Lemmas.DecWF
import Aldrin.Lemmas.Depth
import Aldrin.Lemmas.Utf8Flag

namespace Aldrin
open Generated

/-- The epoch table in the source is the one the property talks about. -/
theorem epoch_table :
    epochV1min = (1, 14) ∧ epochV1max = (1, 19) ∧ epochV2min = (1, 20) ∧ epochV2max = (1, 20) ∧
    convertDefaultFrom = (1, 20) := by decide

theorem epochOf_iff (v : Nat × Nat) :
    (epochOf v = some .v1 ↔ v.1 = 1 ∧ 14 ≤ v.2 ∧ v.2 ≤ 19) ∧ (epochOf v = some .v2 ↔ v.1 = 1 ∧ v.2 = 20) ∧
    (epochOf v = none ↔ ¬ (v.1 = 1 ∧ 14 ≤ v.2 ∧ v.2 ≤ 20)) := by
  obtain ⟨a, b⟩ := v
  simp only [epochOf, verLe, epochV1min, epochV1max, epochV2min, epochV2max]
  grind

/-- Core of the property: the converter computes "decode (without UTF-8 validation), then write in
the legacy encoding". -/
theorem convert_is_reencode (bs : Bytes) (hl : bs.length ≤ u32Max) (v : Value)
    (h : decodeTop .lax bs = .ok v) : conv (fuelFor bs) bs 0 = .ok (encRaw .v1 v, []) := by
  unfold decodeTop at h
  split at h
  · simp at h
  · rename_i v' rest hd
    split at h
    · rename_i he
      have hr : rest = [] := by simpa using he
      subst hr
      simp at h; subst h
      have := conv_dec_all.1 (fuelFor bs) bs 0 hl
      rw [hd] at this
      simpa [norm_eq_ok] using this
    · simp at h

theorem decodeTop_std_lax {bs : Bytes} {v : Value} (h : decodeTop .std bs = .ok v) : decodeTop .lax bs = .ok v := by
  unfold decodeTop at h ⊢
  split at h
  · simp at h
  · rename_i v' rest hd
    rw [dec_true_false hd]
    exact h

/-- Converting a well-formed value from the 1.20 epoch to an older one succeeds; the result decodes
to the same value with the current decoder and with a decoder that predates 1.20. -/
theorem convert_preserves (frm : Option (Nat × Nat)) (to : Nat × Nat) (bs : Bytes) (v : Value)
    (hf : epochOf (frm.getD convertDefaultFrom) = some .v2) (ht : epochOf to = some .v1)
    (h : decodeTop .std bs = .ok v) (hl : bs.length ≤ u32Max) :
    ∃ bs', convertTop frm to bs = .ok bs' ∧ decodeTop .std bs' = .ok v ∧ decodeTop .legacy bs' = .ok v := by
  refine ⟨encRaw .v1 v, ?_, ?_, ?_⟩
  · have := convert_is_reencode bs hl v (decodeTop_std_lax h)
    simp [convertTop, hf, ht, this]
  · unfold decodeTop at h
    split at h
    · simp at h
    · rename_i v' rest hd
      split at h
      · simp at h; subst h
        have hw := dec_wf hd hl
        have := dec_encRaw .std .v1 (by intro h; cases h) v' 0 [] (fuelFor (encRaw .v1 v')) hw.1 hw.2
          (by unfold fuelFor; omega)
        simp only [List.append_nil] at this
        simp [decodeTop, this]
      · simp at h
  · unfold decodeTop at h
    split at h
    · simp at h
    · rename_i v' rest hd
      split at h
      · simp at h; subst h
        have hw := dec_wf hd hl
        have := dec_encRaw .legacy .v1 (by intro h; cases h) v' 0 [] (fuelFor (encRaw .v1 v')) hw.1 hw.2
          (by unfold fuelFor; omega)
        simp only [List.append_nil] at this
        simp [decodeTop, this]
      · simp at h

/-- Converting to the same or a newer epoch returns the input unchanged. -/
theorem convert_same_or_newer (frm : Option (Nat × Nat)) (to : Nat × Nat) (bs : Bytes) (ef et : Epoch)
    (hf : epochOf (frm.getD convertDefaultFrom) = some ef) (ht : epochOf to = some et)
    (h : ¬ (et = .v1 ∧ ef = .v2)) : convertTop frm to bs = .ok bs := by
  simp [convertTop, hf, ht, h]

/-- Versions outside 1.14..1.20 are rejected as such, whatever the bytes. -/
theorem convert_bad_version (frm : Option (Nat × Nat)) (to : Nat × Nat) (bs : Bytes)
    (h : epochOf (frm.getD convertDefaultFrom) = none ∨ epochOf to = none) :
    convertTop frm to bs = .error .version := by
  rcases h with h | h
  · simp [convertTop, h]
  · cases hf : epochOf (frm.getD convertDefaultFrom) <;> simp [convertTop, hf, h]

/-- Converting twice equals converting once (for inputs that are well-formed values). -/
theorem convert_idem (frm : Option (Nat × Nat)) (to : Nat × Nat) (bs bs' : Bytes) (v : Value)
    (hv : decodeTop .std bs = .ok v) (hl : bs.length ≤ u32Max) (hl' : bs'.length ≤ u32Max)
    (h : convertTop frm to bs = .ok bs') : convertTop frm to bs' = .ok bs' := by
  cases hf : epochOf (frm.getD convertDefaultFrom) with
  | none => simp [convertTop, hf] at h
  | some ef =>
    cases ht : epochOf to with
    | none => simp [convertTop, hf, ht] at h
    | some et =>
      by_cases hc : et = .v1 ∧ ef = .v2
      · obtain ⟨rfl, rfl⟩ := hc
        obtain ⟨b2, h1, h2, _⟩ := convert_preserves frm to bs v hf ht hv hl
        rw [h] at h1
        simp at h1; subst h1
        obtain ⟨b3, h3, h4, _⟩ := convert_preserves frm to bs' v hf ht h2 hl'
        have e1 := convert_is_reencode bs hl v (decodeTop_std_lax hv)
        have e2 := convert_is_reencode bs' hl' v (decodeTop_std_lax h2)
        simp [convertTop, hf, ht, e1] at h
        simp [convertTop, hf, ht, e2, h]
      · simp [convertTop, hf, ht, hc] at h ⊢

/-- Conversion fails only for a bad version, for input that does not decode even without UTF-8
validation, or (formally) for inputs of 4 GiB and more. -/
theorem convert_fails_only_if (frm : Option (Nat × Nat)) (to : Nat × Nat) (bs : Bytes) (e : DeErr)
    (h : convertTop frm to bs = .error e) :
    (e = .version ∧ (epochOf (frm.getD convertDefaultFrom) = none ∨ epochOf to = none)) ∨
    (∀ v, decodeTop .lax bs ≠ .ok v) ∨ bs.length > u32Max := by
  cases hf : epochOf (frm.getD convertDefaultFrom) with
  | none => simp [convertTop, hf] at h; exact Or.inl ⟨h.symm, Or.inl rfl⟩
  | some ef =>
    cases ht : epochOf to with
    | none => simp [convertTop, hf, ht] at h; exact Or.inl ⟨h.symm, Or.inr rfl⟩
    | some et =>
      by_cases hc : et = .v1 ∧ ef = .v2
      · by_cases hl : bs.length ≤ u32Max
        · right; left
          intro v hv
          have := convert_is_reencode bs hl v hv
          obtain ⟨rfl, rfl⟩ := hc
          simp [convertTop, hf, ht, this] at h
        · right; right; omega
      · simp [convertTop, hf, ht, hc] at h

/-- The converter never stops because its recursion budget ran out. -/
theorem convert_total (frm : Option (Nat × Nat)) (to : Nat × Nat) (bs : Bytes) (hl : bs.length ≤ u32Max) :
    convertTop frm to bs ≠ .error .fuel := by
  intro h
  rcases convert_fails_only_if frm to bs .fuel h with ⟨h1, _⟩ | h2 | h3
  · cases h1
  · cases hf : epochOf (frm.getD convertDefaultFrom) with
    | none => simp [convertTop, hf] at h
    | some ef =>
      cases ht : epochOf to with
      | none => simp [convertTop, hf, ht] at h
      | some et =>
        by_cases hc : et = .v1 ∧ ef = .v2
        · simp only [convertTop, hf, ht, hc, and_self, ↓reduceIte] at h
          have hn := conv_dec_all.1 (fuelFor bs) bs 0 hl
          have ht' := dec_total .lax bs 0
          cases hcv : conv (fuelFor bs) bs 0 with
          | error e' =>
            rw [hcv] at h hn
            simp at h; subst h
            cases hd : dec .lax (fuelFor bs) bs 0 with
            | error e2 =>
              rw [hd] at hn; simp at hn
              exact ht' (by rw [hd, cls_eq_fuel.mp hn.symm])
            | ok p => cases p; rw [hd] at hn; simp at hn
          | ok p =>
            obtain ⟨o, r⟩ := p
            rw [hcv] at h
            simp at h
            split at h <;> simp at h
        · simp [convertTop, hf, ht, hc] at h
  · omega

/-- Non-vacuity: a V2 vector of two `u8`s (`[43, 1, 3, 7, 1, 3, 9, 0]`) converts to the V1 form. -/
example : convertTop none (1, 14) [43, 1, 3, 7, 1, 3, 9, 0] = .ok [17, 2, 3, 7, 3, 9] := by rfl

end Aldrin
