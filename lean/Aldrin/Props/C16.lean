/-
C16 — generated Rust types are wire-compatible with their schema.

The model (`Model/Typed.lean`) is the composition "deserialize as the generated type, serialize again" on
dynamic values, for every schema type over every environment of struct / enum / newtype definitions.
What is proved here holds for all environments with pairwise distinct field ids per struct (`Env.WF`,
enforced by schema validation), all types, all values and every `shape` fuel:

* `accepts_exactly_conforming` — a value is accepted iff it conforms to the schema type (`Conf`, a declarative
  definition: unknown field ids tolerated, required fields present, declared fields and variant payloads of
  the declared type, unknown variants only with a fallback); the three rejections of the statement are
  corollaries;
* `reencoding_stable` — what is written back is accepted again and written back unchanged;
* `newer_data_survives_older_type` — for two environments where the new one keeps every definition, field and
  variant of the old one (and may add fields, variants and definitions) and the old structs / enums have a
  fallback: whatever the old types write back for a value is read by the new types exactly as they read the
  value itself, at every nesting level;
* `known_fields_written`, `unknown_fields_kept`, `unknown_fields_dropped_without_fallback`,
  `unknown_variant_kept` — what exactly is written back for a struct / enum, with and without fallback.

That the generated code compiles is not a statement about this model: the harness build compiles the code
generator's output for the schema corpus (see DESIGN.md).
-/
import Aldrin.Lemmas.TypedConf
import Aldrin.Lemmas.TypedFields
import Aldrin.Lemmas.TypedEvolve

namespace Aldrin.Typed
open Aldrin

/-- A generated type decodes exactly the dynamic values that conform to its schema type. -/
theorem accepts_exactly_conforming {env : Env} (hwf : env.WF) (n : Nat) (ty : Ty) (v : Value) :
    (∃ w, accept env n ty v = .ok w) ↔ Conf env n ty v :=
  accept_ok_iff_conf hwf n ty v

/-- Decode/encode is stable: the re-encoded value decodes again, to itself. -/
theorem reencoding_stable {env : Env} (hwf : env.WF) (n : Nat) (ty : Ty) (v w : Value)
    (h : accept env n ty v = .ok w) : accept env n ty w = .ok w :=
  accept_idem env hwf n v ty w h

/-- ... and the re-encoded value conforms to the schema type. -/
theorem reencoded_conforms {env : Env} (hwf : env.WF) (n : Nat) (ty : Ty) (v w : Value)
    (h : accept env n ty v = .ok w) : Conf env n ty w :=
  accept_conf env n w ty w (accept_idem env hwf n v ty w h)

theorem error_of_not_conf {env : Env} {n : Nat} {ty : Ty} {v : Value} (h : ¬ Conf env n ty v) :
    accept env n ty v = .error () := by
  cases ha : accept env n ty v with
  | error e => rfl
  | ok w => exact absurd (accept_conf env n v ty w ha) h

/-- A value that lacks a required field is rejected. -/
theorem missing_required_field_rejected {env : Env} {n : Nat} {ty : Ty} {fs : List Field} {fb : Bool}
    {es : List (Key × Value)} {f : Field} (hs : shape env n ty = .struct fs fb)
    (hf : f ∈ fs) (hr : f.required = true) (hmiss : ∀ p ∈ es, keyId p.1 ≠ some f.id) :
    accept env n ty (.map .field es) = .error () := by
  apply error_of_not_conf
  intro hc
  cases hc with
  | any h => rw [hs] at h; cases h
  | map h => rw [hs] at h; cases h
  | struct h _ _ hreq =>
    rw [hs] at h; cases h
    obtain ⟨p, hp, hk⟩ := hreq f hf hr
    exact hmiss p hp hk

/-- A value that carries a wrongly typed field is rejected (a declared id whose value the field's type does
not accept; for an optional field the wire type is `Option<T>`). -/
theorem wrongly_typed_field_rejected {env : Env} (hwf : env.WF) {n : Nat} {ty : Ty} {fs : List Field} {fb : Bool}
    {es : List (Key × Value)} {k : Key} {x : Value} {id : Nat} {f : Field}
    (hs : shape env n ty = .struct fs fb) (hp : (k, x) ∈ es) (hk : keyId k = some id)
    (hf : findField fs id = some f) (hbad : accept env n f.wireTy x = .error ()) :
    accept env n ty (.map .field es) = .error () := by
  apply error_of_not_conf
  intro hc
  cases hc with
  | any h => rw [hs] at h; cases h
  | map h => rw [hs] at h; cases h
  | struct h _ hty _ =>
    rw [hs] at h; cases h
    obtain ⟨w, hw⟩ := conf_accept hwf (hty (k, x) hp id f hk hf)
    rw [hbad] at hw; cases hw

/-- An unknown variant is rejected by an enum without fallback. -/
theorem unknown_variant_rejected {env : Env} {n : Nat} {ty : Ty} {vs : List Variant} {id : Nat} {x : Value}
    (hs : shape env n ty = .enum vs false) (hv : findVariant vs id = none) :
    accept env n ty (.enum id x) = .error () := by
  simp [accept, hs, hv]

/-- A declared variant with a payload of the wrong type is rejected. -/
theorem wrong_payload_rejected {env : Env} {n : Nat} {ty : Ty} {vs : List Variant} {fb : Bool} {id id' : Nat}
    {t : Ty} {x : Value} (hs : shape env n ty = .enum vs fb) (hv : findVariant vs id = some ⟨id', some t⟩)
    (hbad : accept env n t x = .error ()) : accept env n ty (.enum id x) = .error () := by
  simp [accept, hs, hv, hbad]

/-- An enum with a fallback variant keeps an unknown variant intact. -/
theorem unknown_variant_kept {env : Env} {n : Nat} {ty : Ty} {vs : List Variant} {id : Nat} {x : Value}
    (hs : shape env n ty = .enum vs true) (hv : findVariant vs id = none) :
    accept env n ty (.enum id x) = .ok (.enum id x) := by
  simp [accept, hs, hv]

/-- A struct with a fallback field keeps every unknown field intact (the last value per id, as the unknown
fields are collected in a map). -/
theorem unknown_fields_kept {env : Env} {n : Nat} {ty : Ty} {fs : List Field} {es : List (Key × Value)} {w : Value}
    (hs : shape env n ty = .struct fs true) (h : accept env n ty (.map .field es) = .ok w) :
    ∃ out, w = .map .field out ∧
      ∀ id x, findField fs id = none → lastOf id (entries es) = some x → (Key.int id, x) ∈ out := by
  obtain ⟨kn, un, hacc, _, rfl⟩ := struct_out hs h
  refine ⟨_, rfl, fun id x hf hl => ?_⟩
  have := ((acceptFields_lastOf env n fs es kn un hacc id).2 hf).1
  simp only [↓reduceIte, List.mem_append]
  exact Or.inr (mem_dedupLast (this.trans hl))

/-- A struct without a fallback field writes back declared fields only: unknown field ids are tolerated and
dropped. -/
theorem unknown_fields_dropped_without_fallback {env : Env} {n : Nat} {ty : Ty} {fs : List Field}
    {es : List (Key × Value)} {w : Value}
    (hs : shape env n ty = .struct fs false) (h : accept env n ty (.map .field es) = .ok w) :
    ∃ out, w = .map .field out ∧ ∀ p ∈ out, ∃ f ∈ fs, p.1 = Key.int f.id := by
  obtain ⟨kn, un, hacc, _, rfl⟩ := struct_out hs h
  refine ⟨_, rfl, fun p hp => ?_⟩
  simp only [Bool.false_eq_true, ↓reduceIte, List.append_nil, List.mem_filterMap] at hp
  obtain ⟨f, hf, he⟩ := hp
  exact ⟨f, hf, (emit_id he).1⟩

/-- What is written back for the declared fields of a struct: a required field carries what its type makes
of the (last) input value; an optional field is written as `Some` of what its type makes of the payload, and
is omitted when the input has `None` or nothing for it. -/
theorem known_fields_written {env : Env} (hwf : env.WF) {n : Nat} {ty : Ty} {fs : List Field} {fb : Bool}
    {es : List (Key × Value)} {w : Value}
    (hs : shape env n ty = .struct fs fb) (h : accept env n ty (.map .field es) = .ok w) :
    ∃ out, w = .map .field out ∧ ∀ f ∈ fs,
      (f.required = true → ∃ x y, lastOf f.id (entries es) = some x ∧ accept env n f.ty x = .ok y ∧
          (Key.int f.id, y) ∈ out) ∧
      (f.required = false → ∀ x, lastOf f.id (entries es) = some (.some x) →
          ∃ y, accept env n f.ty x = .ok y ∧ (Key.int f.id, .some y) ∈ out) := by
  obtain ⟨kn, un, hacc, hreq, rfl⟩ := struct_out hs h
  have hn := shape_struct_nodup hwf n ty hs
  refine ⟨_, rfl, fun f hf => ⟨fun hr => ?_, fun hr x hl => ?_⟩⟩
  · have hl := ((acceptFields_lastOf env n fs es kn un hacc f.id).1 f (findField_of_mem hn hf)).1
    have hsome := hreq f hf hr
    cases hx : lastOf f.id (entries es) with
    | none => simp [hl, hx] at hsome
    | some x =>
      simp only [hx, Option.bind_some, Field.wireTy, hr, ↓reduceIte] at hl
      cases ha : accept env n f.ty x with
      | error e => simp [hl, ha, okVal] at hsome
      | ok y =>
        refine ⟨x, y, rfl, ha, List.mem_append_left _ ?_⟩
        simp only [List.mem_filterMap]
        exact ⟨f, hf, by simp [emit, hl, ha, okVal, hr]⟩
  · have hl' := ((acceptFields_lastOf env n fs es kn un hacc f.id).1 f (findField_of_mem hn hf)).1
    simp only [hl, Option.bind_some, Field.wireTy, hr, Bool.false_eq_true, ↓reduceIte] at hl'
    obtain ⟨w', hw'⟩ := acceptFields_lastOf.acceptFields_later_ok env n fs es kn un hacc f.id f
      (findField_of_mem hn hf) _ hl
    simp only [Field.wireTy, hr, Bool.false_eq_true, ↓reduceIte] at hw'
    unfold accept at hw'
    have hso : shape env n (.opt f.ty) = .opt f.ty := by
      cases n with
      | zero =>
        -- without fuel nothing has a shape, so nothing is accepted
        simp [shape] at hw'
      | succ n => simp [shape]
    simp only [hso] at hw'
    cases ha : accept env n f.ty x with
    | error e => simp [ha] at hw'
    | ok y =>
      refine ⟨y, rfl, List.mem_append_left _ ?_⟩
      simp only [List.mem_filterMap]
      refine ⟨f, hf, ?_⟩
      have : accept env n (.opt f.ty) (.some x) = .ok (.some y) := by
        unfold accept; simp [hso, ha]
      simp [emit, hl', this, okVal, hr]

/-- Data written by a newer schema version survives passing through code generated from an older one: for
every value that both versions of a type accept, the new type reads the old type's output as it reads the
original. -/
theorem newer_data_survives_older_type {envO envN : Env} (hx : Ext envO envN) (n : Nat) (ty : Ty) (v wo wn : Value)
    (hO : accept envO n ty v = .ok wo) (hN : accept envN n ty v = .ok wn) :
    accept envN n ty wo = .ok wn :=
  survives hx n v ty wo wn hO hN

/-- ... and the old type does accept it when it conforms to the old schema with unknown fields / variants
tolerated, which for a struct or enum with fallback is all that can be asked of data it has never seen. -/
theorem older_type_accepts {envO : Env} (hwf : envO.WF) (n : Nat) (ty : Ty) (v : Value)
    (h : Conf envO n ty v) : ∃ wo, accept envO n ty v = .ok wo :=
  conf_accept hwf h

/-! ### the premises are satisfiable, and the statements say something about concrete values -/

def envEx : Env :=
  [("Open", .struct [⟨1, true, .int .u8⟩, ⟨2, false, .string⟩] true),
   ("Closed", .struct [⟨1, true, .int .u8⟩, ⟨2, false, .string⟩] false),
   ("Choice", .enum [⟨1, none⟩, ⟨2, some (.int .u32)⟩] true),
   ("Strict", .enum [⟨1, none⟩, ⟨2, some (.int .u32)⟩] false),
   ("Id", .newtype (.box (.ref "Open")))]

theorem envEx_wf : envEx.WF := Env.WF_of_check (by decide)

-- an unknown field (id 9) survives the struct with fallback, through the newtype and the box, ...
example : accept envEx 8 (.ref "Id") (.map .field [(.int 1, .int .u8 7), (.int 9, .bool true), (.int 2, .none)])
    = .ok (.map .field [(.int 1, .int .u8 7), (.int 9, .bool true)]) := by
  simp [accept, shape, envEx, Env.get?, acceptFields, keyId, findField, Field.wireTy, finishFields, lastOf, dedupLast]

-- ... is dropped by the one without, ...
example : accept envEx 8 (.ref "Closed") (.map .field [(.int 1, .int .u8 7), (.int 9, .bool true)])
    = .ok (.map .field [(.int 1, .int .u8 7)]) := by
  simp [accept, shape, envEx, Env.get?, acceptFields, keyId, findField, Field.wireTy, finishFields, lastOf, dedupLast]

-- ... a missing required field, a wrongly typed field and an Option-less optional field are rejected, ...
example : accept envEx 8 (.ref "Open") (.map .field [(.int 2, .some (.string []))]) = .error () := by
  simp [accept, shape, envEx, Env.get?, acceptFields, keyId, findField, Field.wireTy, finishFields, lastOf, dedupLast]
example : accept envEx 8 (.ref "Open") (.map .field [(.int 1, .int .u16 7)]) = .error () := by
  simp [accept, shape, envEx, Env.get?, acceptFields, keyId, findField, Field.wireTy, finishFields, lastOf, dedupLast]
example : accept envEx 8 (.ref "Open") (.map .field [(.int 1, .int .u8 7), (.int 2, .string [])]) = .error () := by
  simp [accept, shape, envEx, Env.get?, acceptFields, keyId, findField, Field.wireTy, finishFields, lastOf, dedupLast]

-- ... and an unknown variant is kept or rejected.
example : accept envEx 8 (.ref "Choice") (.enum 5 (.bool true)) = .ok (.enum 5 (.bool true)) := by
  simp [accept, shape, envEx, Env.get?, findVariant]
example : accept envEx 8 (.ref "Strict") (.enum 5 (.bool true)) = .error () := by
  simp [accept, shape, envEx, Env.get?, findVariant]

-- an old and a new version of a record type: the new one adds a field and a variant
def envOld : Env :=
  [("Kind", .enum [⟨0, none⟩, ⟨1, some (.int .u16)⟩] true),
   ("Record", .struct [⟨1, true, .int .u32⟩, ⟨2, false, .ref "Kind"⟩] true)]

def envNew : Env :=
  [("Kind", .enum [⟨0, none⟩, ⟨1, some (.int .u16)⟩, ⟨2, some .string⟩] true),
   ("Record", .struct [⟨1, true, .int .u32⟩, ⟨2, false, .ref "Kind"⟩, ⟨3, false, .vec .string⟩] true)]

theorem envOld_envNew_ext : Ext envOld envNew := Ext_of_check (by decide)

-- a record written by the new version (new variant inside an old field, new field), through the old type ...
example : accept envOld 8 (.ref "Record")
      (.map .field [(.int 3, .some (.vec [.string [104]])), (.int 2, .some (.enum 2 (.string [120]))), (.int 1, .int .u32 5)])
    = .ok (.map .field [(.int 1, .int .u32 5), (.int 2, .some (.enum 2 (.string [120]))), (.int 3, .some (.vec [.string [104]]))]) := by
  simp [accept, shape, envOld, Env.get?, acceptFields, keyId, findField, findVariant, Field.wireTy, finishFields, lastOf, dedupLast]

-- ... and read by the new type again: everything is still there.
example : accept envNew 8 (.ref "Record")
      (.map .field [(.int 1, .int .u32 5), (.int 2, .some (.enum 2 (.string [120]))), (.int 3, .some (.vec [.string [104]]))])
    = .ok (.map .field [(.int 1, .int .u32 5), (.int 2, .some (.enum 2 (.string [120]))), (.int 3, .some (.vec [.string [104]]))]) := by
  simp [accept, acceptElems, shape, envNew, Env.get?, acceptFields, keyId, findField, findVariant, Field.wireTy, finishFields, lastOf, dedupLast]

end Aldrin.Typed
