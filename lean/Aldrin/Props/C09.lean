/-
C09 — Disconnect and shutdown cleanup: no residual state, exact counters.

Statement (properties.jsonl): when a connection ends for any reason, everything it owned or subscribed
to is released and every affected peer is notified once; once all connections are gone the broker
holds no objects, services, calls, channels, listeners or subscriptions and an idle-shutdown request
completes. The published statistics counters always equal the true number of live connections,
objects, services, channels and bus listeners. A broker shutdown sends each connection a shutdown
message and terminates.

What is proved here (model M4):
* for ALL histories of broker events (all four ways a connection can end, at any point, including with
  requests still queued) the channel and bus-listener gauges equal the sizes of the maps, cookies are
  never reused as map keys, and keys are unique (`channel_listener_gauges_all_histories`); the proof
  uses the translator fact that `create_channel` counts the channel before the reply is sent
  (`createChannelCountsBeforeReply`, regenerated from broker.rs on every run — this is where the
  defect fixed in 2be3d48 shows up as a broken proof);
* likewise the gauges for connections, objects and services, the equal size of the two views of the object
  and of the service registry, unique keys and cookie freshness (`registry_gauges_all_histories`);
* run-loop exit condition (`finished_iff`), broker shutdown queues every connection for removal with
  a Shutdown message and sets the flag (`broker_shutdown_queues_all`), and the turn that handles it ends with no
  connection left, nothing deferred and the exit condition true (`broker_shutdown_completes`, from any state); a
  connection removed with notice whose task still takes messages gets `Shutdown` first
  (`removal_with_notice_sends_shutdown_first`); idle
  shutdown only sets its flag (`idle_shutdown_sets_flag`).
* in every reachable state (fewer than 2³² calls pending at a time) a call whose caller is no longer connected has
  been ended on the caller's side: it is marked aborted, so nothing will ever be delivered for it
  (`calls_of_a_removed_connection_are_ended`, from the cross-reference invariant of C02); in particular with no
  connection left every remaining entry of the call table is an aborted one (`no_connections_no_live_call`).
* for ALL histories, once no connection is left the broker holds no object and no service in any of the four registry
  maps (`no_connections_no_objects_no_services`, from the registry cross-reference invariant of C03: every object
  has a connected owner, every service a live object) — hence also no subscription, which lives inside a service
  entry or a connection entry.
* likewise no channel and no bus listener (`no_connections_no_channels_no_listeners`, from the ownership invariant of
  C05: every channel has a claimed end, every claimed end and every listener a connected owner), and in every
  reachable state no call (`no_connections_no_calls`, from the callee-side invariant of C02) — together the seven
  `debug_assert!`s at the end of `Broker::run` (`conns`, `obj_uuids`, `objs`, `svc_uuids`, `svcs`, `function_calls`
  empty; no work left) and "no residual state";
Partial: that every affected peer is *notified* once; these are covered by the correspondence runs (every scenario ends by
closing everything in one of two orders, comparing `take_statistics` with the model and the model's gauges with
its map sizes, and requiring `Broker::run` to finish), not by a theorem.
-/
import Aldrin.Lemmas.Broker.Gauge5
import Aldrin.Lemmas.Broker.Xref2
import Aldrin.Lemmas.Broker.Reg
import Aldrin.Lemmas.Broker.Own
import Aldrin.Lemmas.Broker.Callee
import Aldrin.Lemmas.Broker.Shutdown
import Aldrin.Lemmas.Broker.OutGrows

namespace Aldrin.Broker
open Generated

theorem channel_listener_gauges_all_histories (es : List Event) (b : Broker) (w : Work) (outs : List (List Out))
    (h : run {} {} es = .ok (b, w, outs)) :
    b.stats.numChannels = b.channels.length ∧ b.stats.numBusListeners = b.listeners.length ∧
    AL.NodupKeys b.channels ∧ AL.NodupKeys b.listeners ∧
    (∀ k v, AL.find? k b.channels = some v → k < b.nextCookie) ∧
    (∀ k v, AL.find? k b.listeners = some v → k < b.nextCookie) := by
  obtain ⟨h1, h2⟩ := run_G2 es _ _ _ _ _ G2_init h
  exact ⟨h1.size, h2.size, h1.nodup, h2.nodup, h1.below, h2.below⟩

/-- all five gauges, for every history: connections, objects (both views), services (both views) — sizes
equal the gauge, keys are unique, issued cookies are below the counter -/
theorem registry_gauges_all_histories (es : List Event) (b : Broker) (w : Work) (outs : List (List Out))
    (h : run {} {} es = .ok (b, w, outs)) :
    b.stats.numConnections = b.conns.length ∧ b.stats.numObjects = b.objUuids.length ∧ b.stats.numObjects = b.objs.length ∧
    b.stats.numServices = b.svcUuids.length ∧ b.stats.numServices = b.svcs.length ∧
    AL.NodupKeys b.conns ∧ AL.NodupKeys b.objUuids ∧ AL.NodupKeys b.objs ∧ AL.NodupKeys b.svcUuids ∧ AL.NodupKeys b.svcs ∧
    (∀ k v, AL.find? k b.objUuids = some v → k < b.nextCookie) ∧ (∀ k v, AL.find? k b.svcUuids = some v → k < b.nextCookie) := by
  obtain ⟨g1, g2, g3, g4, g5⟩ := run_G5 es _ _ _ _ _ G5_init h
  exact ⟨by simpa using g1.size, by simpa using g2.size, by simpa using g3.size, g4.size, g5.size,
    g1.nodup, g2.nodup, g3.nodup, g4.nodup, g5.nodup, g2.below, g4.below⟩

/-- once all connections are gone the connection gauge is zero (and the run loop's idle exit condition holds
as soon as idle shutdown was requested) -/
theorem no_connections_gauge_zero (es : List Event) (b : Broker) (w : Work) (outs : List (List Out))
    (h : run {} {} es = .ok (b, w, outs)) (hc : b.conns = []) : b.stats.numConnections = 0 := by
  have := (registry_gauges_all_histories es b w outs h).1
  rw [hc] at this; exact this

theorem counts_channel_before_reply : createChannelCountsBeforeReply = true := by decide

theorem finished_iff (b : Broker) (w : Work) :
    finished b w = true ↔ w.shutdownNow = true ∨ (w.shutdownIdle = true ∧ b.conns = []) := by
  unfold finished
  simp [List.isEmpty_iff]

theorem broker_shutdown_queues_all (s s' : St) (h : handleEvent s .shutdownBroker = .ok s') :
    s'.w.shutdownNow = true ∧ ∀ p ∈ s.b.conns, (p.1, true) ∈ s'.w.removeConns := by
  simp only [handleEvent, Except.ok.injEq] at h
  subst h
  refine ⟨by simp, ?_⟩
  intro p hp
  simp only [St.setWShutdownNow_w_removeConns, St.setWRemoveConns_w_removeConns, List.mem_append, List.mem_reverse, List.mem_map]
  exact Or.inl ⟨p, hp, rfl⟩

/-- **A broker shutdown removes every connection and ends `Broker::run`**: the turn that handles `ShutdownBroker`, from
any state whatever, ends with no connection left, nothing deferred, and the exit condition of the run loop true.
(Every connection is queued for removal with a `Shutdown` message; the work loop handles removals first and each
removal takes its connection out of the map and keeps the rest of the queue, `Lemmas/Broker/Shutdown.lean`.) -/
theorem broker_shutdown_completes {b b' : Broker} {w w' : Work} {out : List Out}
    (hr : step b w .shutdownBroker = .ok (b', w', out)) : b'.conns = [] ∧ w'.idle ∧ finished b' w' = true :=
  shutdownBroker_completes hr

/-- **A connection removed with notice gets `Shutdown` first.** The removal of a connection queued by a broker
shutdown or forced through the handle (`send_shutdown = true`), whose task still takes messages, puts `Shutdown` into
that connection's queue before anything else the removal sends to anybody; nothing that was in the queues before is
lost or reordered (`Lemmas/Broker/OutGrows.lean`: the output of a turn only grows at its end). -/
theorem removal_with_notice_sends_shutdown_first {s s' : St} {id : ConnId} {conn : Conn} (hconn : AL.find? id s.b.conns = some conn)
    (ha : conn.alive = true) (hr : shutdownConnection s id true = .ok s') :
    ∃ rest, s'.out = s.out ++ [⟨id, .shutdown, none⟩] ++ rest :=
  shutdownConnection_sends_shutdown hconn ha hr

theorem idle_shutdown_sets_flag (s s' : St) (h : handleEvent s .shutdownIdle = .ok s') :
    s'.w.shutdownIdle = true ∧ s'.b = s.b ∧ s'.out = s.out := by
  simp only [handleEvent, Except.ok.injEq] at h
  subst h
  exact ⟨rfl, rfl, rfl⟩

/-! non-vacuity: a connection with a channel and a listener is dropped with a request still queued; then
everything ends; gauges are zero and the loop is finished -/
example : (match run {} {} [.newConn 0 20, .newConn 1 20, .msg 0 (.createChannel 1 .sender 0), .msg 0 (.createBusListener 2),
      .msg 1 (.claimChannelEnd 3 0 .receiver 5), .taskDropped 0, .msg 0 (.createChannel 4 .receiver 1),
      .connShutdown 1, .shutdownIdle] with
    | .ok (b, w, _) => (b.stats.numChannels, b.channels.length, b.stats.numBusListeners, b.conns.length, finished b w)
    | .error _ => (9, 9, 9, 9, false)) = (0, 0, 0, 0, true) := by decide


/-- a call whose caller is gone is marked aborted (`shutdown_connection` queues the abort of every call of the
connection it removes, and the work loop has run them all before the next event) -/
theorem calls_of_a_removed_connection_are_ended {b : Broker} {w : Work} (h : Reachable b w) {bs : Nat} {call : Call}
    (hg : b.calls.get? bs = some call) (hgone : AL.find? call.callerConn b.conns = none) : call.aborted = true := by
  cases hna : call.aborted with
  | true => rfl
  | false =>
    exfalso
    have hi := h.idle
    rcases hi.x.b bs call hg hna with ⟨t, al, callee, hk, _⟩ | ⟨_, y, hy⟩ | ⟨_, _, _, h3, _⟩
    · rw [ck_of_find_none hgone] at hk; simp at hk
    · rw [hi.a] at hy; simp at hy
    · simp at h3

theorem AL.exists_find_of_ne_nil {K V : Type} [DecidableEq K] {m : List (K × V)} (h : m ≠ []) : ∃ k v, AL.find? k m = some v := by
  cases m with
  | nil => exact absurd rfl h
  | cons p m => exact ⟨p.1, p.2, by simp [AL.find?]⟩

/-- for ALL histories: once all connections are gone the broker holds no objects and no services -/
theorem no_connections_no_objects_no_services (es : List Event) (b : Broker) (w : Work) (outs : List (List Out))
    (h : run {} {} es = .ok (b, w, outs)) (hc : b.conns = []) :
    b.objs = [] ∧ b.objUuids = [] ∧ b.svcs = [] ∧ b.svcUuids = [] := by
  obtain ⟨h1, h2, h3, h4, h5, h6, h7, h8⟩ := run_reg es _ _ _ _ _ G5_init Reg.init h
  have ho : b.objs = [] := by
    false_or_by_contra
    rename_i hne
    obtain ⟨u, o, hf⟩ := AL.exists_find_of_ne_nil hne
    rcases h3 u o hf with ⟨l, hl, _⟩ | ⟨l, hl, _⟩
    · simp [ro, hc, AL.find?] at hl
    · simp at hl
  have hou : b.objUuids = [] := by
    false_or_by_contra
    rename_i hne
    obtain ⟨c, u, hf⟩ := AL.exists_find_of_ne_nil hne
    obtain ⟨o, ho', _⟩ := h1 c u hf
    simp [obv, ho, AL.find?] at ho'
  have hsu : b.svcUuids = [] := by
    false_or_by_contra
    rename_i hne
    obtain ⟨c, v, hf⟩ := AL.exists_find_of_ne_nil hne
    obtain ⟨oid, svu, info⟩ := v
    rcases h7 c oid svu info hf with ⟨ha, _⟩ | ⟨l, hl, _⟩
    · simp [ouv, hou, AL.find?] at ha
    · simp at hl
  refine ⟨ho, hou, ?_, hsu⟩
  false_or_by_contra
  rename_i hne
  obtain ⟨k, sv, hf⟩ := AL.exists_find_of_ne_nil hne
  obtain ⟨info, hi⟩ := h6 k.1 k.2 sv.cookie sv.objCookie (sk_find (k := (k.1, k.2)) hf)
  simp [suv, hsu, AL.find?] at hi

/-- for ALL histories: once all connections are gone the broker holds no channels and no bus listeners -/
theorem no_connections_no_channels_no_listeners (es : List Event) (b : Broker) (w : Work) (outs : List (List Out))
    (h : run {} {} es = .ok (b, w, outs)) (hc : b.conns = []) : b.channels = [] ∧ b.listeners = [] := by
  have hown := run_own es _ _ _ _ _ G2_init Own.init h
  have hch := (run_CLInv es _ _ _ _ _ CLInv_init h).1
  have nobody : ∀ x o, own ⟨b, w, []⟩ x = some o → False := by
    intro x o hx
    rcases hown.o1 x o hx with ⟨L, hl, _⟩ | ⟨L, hp, _⟩
    · simp [co, cv, hc, AL.find?] at hl
    · simp at hp
  constructor
  · false_or_by_contra
    rename_i hne
    obtain ⟨ck, ch, hf⟩ := AL.exists_find_of_ne_nil hne
    obtain ⟨os, or⟩ := own_chan (s := ⟨b, w, []⟩) hf
    have hwf : ch.WF := (AllV_find hch hf).1
    rcases hwf with hs | hr
    · cases hse : ch.sender <;> simp [hse, EndState.isClaimed] at hs
      exact nobody _ _ (by rw [os, hse]; rfl)
    · cases hre : ch.receiver <;> simp [hre, EndState.isClaimed] at hr
      exact nobody _ _ (by rw [or, hre]; rfl)
  · false_or_by_contra
    rename_i hne
    obtain ⟨ck, l, hf⟩ := AL.exists_find_of_ne_nil hne
    exact nobody (.lsn, ck) l.conn (by simp [own, hf])

/-- in every reachable state: once all connections are gone the call table is empty -/
theorem no_connections_no_calls {b : Broker} {w : Work} (h : Reachable b w) (hc : b.conns = []) : b.calls.elems = [] := by
  false_or_by_contra
  rename_i hne
  obtain ⟨bs, call, hf⟩ := AL.exists_find_of_ne_nil hne
  obtain ⟨sv, info, o, owner, _, _, _, _, _, hown⟩ := callee_of_call (s := ⟨b, w, []⟩) h.cal h.reg.2 (bs := bs) (call := call) hf
  simp [hc, AL.find?] at hown

theorem no_connections_no_live_call {b : Broker} {w : Work} (h : Reachable b w) (hc : b.conns = []) {bs : Nat} {call : Call}
    (hg : b.calls.get? bs = some call) : call.aborted = true :=
  calls_of_a_removed_connection_are_ended h hg (by simp [hc, AL.find?])

end Aldrin.Broker
