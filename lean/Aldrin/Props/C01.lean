/-
C01 — Value codec round-trip and nesting limit.

Statement (properties.jsonl): any dynamic value nested at most 32 levels serializes, and
deserializing those bytes yields an equal value while consuming exactly all bytes, for the current
and for the legacy container encoding; a value nested deeper is rejected with a nesting error by
serialization and, symmetrically, by deserialization, never by stack exhaustion.

`WF` is exactly what the Rust types guarantee (integers in range, strings valid UTF-8, ids 16
bytes, counts ≤ u32::MAX). Maps and sets are lists in wire order in the model, so equality of lists
below is stronger than the equality "as sets" the property asks for.
-/
import Aldrin.Lemmas.Depth
import Aldrin.Lemmas.Fuel

namespace Aldrin
open Generated

/-- The limit the theorems below speak about is the one in the source. -/
theorem depth_limit : maxValueDepth = 32 := by decide

/-- Round trip, both epochs: a well-formed value of depth ≤ 32 serializes, and decoding the bytes
yields exactly that value and consumes exactly all bytes (`decodeTop` fails on trailing bytes). -/
theorem roundtrip (ep : Epoch) (v : Value) (hw : v.WF) (hd : v.depth ≤ maxValueDepth) :
    ∃ bs, encodeTop ep v = .ok bs ∧ decodeTop .std bs = .ok v := by
  refine ⟨encRaw ep v, ?_, ?_⟩
  · simp [encodeTop, enc, encCheck_wf ep v 0 hw, hd]
  · have h := dec_encRaw .std ep (fun _ => rfl) v 0 [] (fuelFor (encRaw ep v)) hw (by omega) (by unfold fuelFor; omega)
    simp only [List.append_nil] at h
    simp [decodeTop, h]

/-- The decoder is insensitive to what follows the value: it consumes exactly the value's bytes. -/
theorem roundtrip_prefix (ep : Epoch) (v : Value) (hw : v.WF) (hd : v.depth ≤ maxValueDepth)
    (rest : Bytes) :
    dec .std (fuelFor (encRaw ep v ++ rest)) (encRaw ep v ++ rest) 0 = .ok (v, rest) :=
  dec_encRaw .std ep (fun _ => rfl) v 0 rest _ hw (by omega) (by unfold fuelFor; simp; omega)

/-- Serialization rejects a value nested deeper than the limit with the nesting error. -/
theorem too_deep_ser (ep : Epoch) (v : Value) (hw : v.WF) (hd : v.depth > maxValueDepth) :
    encodeTop ep v = .error .tooDeep := by
  have : ¬ (v.depth ≤ maxValueDepth) := by omega
  simp [encodeTop, enc, encCheck_wf ep v 0 hw, this]

/-- Symmetrically, deserializing the encoding of such a value (written without the limit) is
rejected with the nesting error. -/
theorem too_deep_de (ep : Epoch) (v : Value) (hw : v.WF) (hd : v.depth > maxValueDepth) :
    decodeTop .std (encRaw ep v) = .error .tooDeep := by
  have h := dec_tooDeep .std ep (fun _ => rfl) v 0 [] (fuelFor (encRaw ep v)) hw (by omega) (by unfold fuelFor; omega)
  simp only [List.append_nil] at h
  simp [decodeTop, h]

/-- Serialization of a well-formed value fails only with the nesting error. -/
theorem ser_fails_only_too_deep (ep : Epoch) (v : Value) (hw : v.WF) (e : SerErr)
    (h : encodeTop ep v = .error e) : e = .tooDeep ∧ v.depth > maxValueDepth := by
  simp only [encodeTop, enc, encCheck_wf ep v 0 hw] at h
  simp only [Nat.zero_add] at h
  by_cases hd : v.depth ≤ maxValueDepth
  · simp [hd] at h
  · simp [hd] at h; exact ⟨h.symm, by omega⟩

/-- "Never by stack exhaustion", model level: with the standard budget the decoder never stops
because the budget ran out, on any input — its recursion is bounded by the input length — … -/
theorem decode_terminates (cfg : DecCfg) (bs : Bytes) : decodeTop cfg bs ≠ .error .fuel := by
  have := dec_total cfg bs 0
  unfold decodeTop
  split
  · rename_i e h; intro he; simp at he; subst he; exact this h
  · split <;> simp

/-- Non-vacuity: a mixed value of depth exactly 32 (and one of depth 33) meeting `WF`. -/
def nest : Nat → Value → Value
  | 0, v => v
  | n + 1, v => .vec [.some (.map (.int .u16) [(.int 300, .enum 7 (nest n v))])]

example : (nest 7 (.set .string [.blob [104, 105]])).WF ∧ (nest 7 (.set .string [.blob [104, 105]])).depth = 29 := by
  simp [nest, Value.WF, WFList, WFEntries, KeyWF, Value.depth, depthList, depthEntries, IntTy.inRange,
    IntTy.signed, IntTy.bytes, u32Max, validUtf8, utf8Run, utf8Step]

example : (nest 8 (.int .i64 (-5))).WF ∧ (nest 8 (.int .i64 (-5))).depth = 33 := by
  simp [nest, Value.WF, WFList, WFEntries, KeyWF, Value.depth, depthList, depthEntries, IntTy.inRange,
    IntTy.signed, IntTy.bytes, u32Max]

end Aldrin
