/-
C11 — Broker survives arbitrary message sequences and keeps serving others.

Statement (properties.jsonl): whatever sequence of well-formed protocol messages a connection sends —
wrong direction, stale or foreign cookies and serials, duplicates, out-of-state requests — the broker
does not panic or hang; it answers, ignores, or closes that connection. Afterwards a well-behaved
connection is still served correctly, and objects, calls and channels of other connections are affected
only in the ways the protocol defines for a peer that disconnects.

What is proved here (model M4, where every `expect("inconsistent state")`, `unreachable!()` and
`debug_assert!` of the broker is an explicit `Panic` result):
* wrong-direction kinds and kinds newer than the negotiated version only make the handler fail, which
  closes the sender and nothing else (`wrong_direction_closes_sender`, C12 `gated_message_fails`);
* for ALL histories every stored channel and bus listener satisfies its invariant (C05, C10), and under
  those invariants the panic sites of `channel.rs` (5 `unreachable!()` arms, 3 `debug_assert!`s) and of
  `bus_listener.rs` (2 `unreachable!()` arms) are not reachable from the operations the handlers apply
  to stored entries (`channel_ops_do_not_panic`, `listener_enumeration_does_not_panic`);
* requests naming unknown cookies / serials are answered or ignored without touching other state
  (`unknown_*`).
* the three `debug_assert!`s of `ConnectionState::remove_call` (`call_function_reply`, `abort_call`, the deferred
  `remove_function_call` items) hold in every turn of `Broker::run`, by the cross-reference invariant of the call
  tables proved for C02 (`remove_call_asserts_hold`; reachable states with fewer than 2³² pending calls);
Partial: the remaining `expect("inconsistent state")` sites are cross-reference lookups between the
broker's maps; their unreachability is the registry / call / subscription consistency invariant, which
is not proved. It is covered by the correspondence runs of the "abuse" profile (the model reports the
panic site by name, the harness catches panics around every poll and checks that every live connection
is still answered at the end of each scenario).
-/
import Aldrin.Lemmas.Broker.Gauge
import Aldrin.Lemmas.Broker.Events
import Aldrin.Lemmas.Broker.CallAsserts

namespace Aldrin.Broker

theorem wrong_direction_closes_sender (s s' : St) (id : ConnId) (k : Nat)
    (h : handleEvent s (.msg id (.other k)) = .ok s') :
    s'.w.removeConns = (id, false) :: s.w.removeConns ∧ s'.b.conns = s.b.conns ∧ s'.out = s.out := by
  simp [handleEvent, handleMessage, errH, St.pushRemoveConn] at h
  subst h
  simp

/-- every operation a handler applies to a stored channel is panic-free (the `close` case needs the end
not to be closed already, which `check_close` / the claimed-state checks of the callers establish) -/
theorem channel_ops_do_not_panic (es : List Event) (b : Broker) (w : Work) (outs : List (List Out))
    (h : run {} {} es = .ok (b, w, outs)) (ck : Cookie) (ch : Chan) (hc : AL.find? ck b.channels = some ch)
    (conn : ConnId) (cap : Nat) :
    (∃ r, ch.sendItem conn = .ok r) ∧ (∃ r, ch.addCapacity conn cap = .ok r) ∧
    (∃ r, ch.claimSender conn = .ok r) ∧ (∃ r, ch.claimReceiver conn cap = .ok r) ∧
    (∀ e, ch.endState e ≠ .closed → ∃ r, ch.close e = .ok r) := by
  have hok : ch.OK := AllV_find (run_CLInv es _ _ _ _ _ CLInv_init h).1 hc
  refine ⟨?_, ?_, ?_, ?_, ?_⟩
  · obtain ⟨r, hr, _⟩ := okAnd_iff.mp (sendItem_ok (conn := conn) hok); exact ⟨r, hr⟩
  · obtain ⟨r, hr, _⟩ := okAnd_iff.mp (addCapacity_ok (conn := conn) (cap := cap) hok); exact ⟨r, hr⟩
  · obtain ⟨r, hr, _⟩ := okAnd_iff.mp (claimSender_ok (conn := conn) hok); exact ⟨r, hr⟩
  · obtain ⟨r, hr, _⟩ := okAnd_iff.mp (claimReceiver_ok (conn := conn) (cap := cap) hok); exact ⟨r, hr⟩
  · intro e he
    obtain ⟨r, hr, _⟩ := okAnd_iff.mp (close_ok hok he); exact ⟨r, hr⟩

theorem listener_enumeration_does_not_panic (es : List Event) (b : Broker) (w : Work) (outs : List (List Out))
    (h : run {} {} es = .ok (b, w, outs)) (ck : Cookie) (l : Listener) (hl : AL.find? ck b.listeners = some l)
    (sc : Option Scope) :
    (∃ r, ({ l with scope := sc } : Listener).specificObjects = .ok r) ∧
    (∃ r, ({ l with scope := sc } : Listener).specificServices? = .ok r) := by
  have hok : l.OK := AllV_find (P := Listener.OK) (run_CLInv es _ _ _ _ _ CLInv_init h).2 hl
  have hok' : ({ l with scope := sc } : Listener).OK := Listener.setScope_ok sc hok
  exact ⟨⟨_, Listener.specificObjects_ok hok'⟩, ⟨_, Listener.specificServices?_ok hok'⟩⟩

theorem unknown_call_reply_ignored {s : St} {id serial r} (hn : s.b.calls.get? serial = none) :
    callFunctionReply s id serial r = .ok (s, true) := reply_unknown_ignored hn

theorem unknown_channel_item_ignored {s : St} {id c p} (hn : AL.find? c s.b.channels = none) :
    sendItem s id c p = .ok (s, true) := by
  unfold sendItem
  cases hc : s.conn? id <;> simp [hn, okH]

theorem unknown_listener_filter_ignored {s : St} {id c} {f : Listener → Listener} (hn : AL.find? c s.b.listeners = none) :
    updListener s id c f = .ok (s, true) := by
  unfold updListener; simp [hn, okH]

theorem foreign_listener_untouched {s : St} {id c} {f : Listener → Listener} {l : Listener}
    (hl : AL.find? c s.b.listeners = some l) (hne : l.conn ≠ id) :
    updListener s id c f = .ok (s, true) := by
  unfold updListener; simp [hl, hne, okH]

/-- **The three `debug_assert!`s of `ConnectionState::remove_call` hold in every turn of `Broker::run`** (every
reachable state with fewer than 2³² pending calls, every event, every step of the work loop): in `call_function_reply`
(the handler runs on the state between two events), in `abort_call` and for the deferred `remove_function_call` items
(both run on states inside the work loop). -/
theorem remove_call_asserts_hold :
    (∀ {b : Broker} {w : Work}, Reachable b w → ∀ id serial r,
        callFunctionReply ⟨b, w, []⟩ id serial r ≠ .error (.debugAssert "remove_call")) ∧
    (∀ {s : St}, InTurn s → ∀ bs cid rest,
        abortCall (s.setWAbortCalls rest) bs cid ≠ .error (.debugAssert "abort_call: remove_call")) ∧
    (∀ {s : St}, InTurn s → ∀ serial cid result rest conn, s.w.removeCalls = (serial, cid, result) :: rest →
        AL.find? cid s.b.conns = some conn → AL.find? serial conn.calls ≠ none) :=
  ⟨fun hr id serial r => reply_remove_call_assert_holds hr.idle.x id serial r,
   fun hs bs cid rest => abort_remove_call_assert_holds hs.xref bs cid rest,
   fun hs serial cid result rest conn hq hc => loop_remove_call_assert_holds hs.xref hq hc⟩



/-! non-vacuity: abuse by connection 1 (wrong direction, then it is gone); connection 0 is still served -/
example : (match run {} {} [.newConn 0 20, .newConn 1 14, .msg 1 (.other 31), .msg 1 (.sync 5), .msg 0 (.sync 6)] with
    | .ok (b, _, outs) => (b.conns.map (·.1), outs.drop 2) | .error _ => ([], [])) =
    ([0], [[], [], [⟨0, .syncReply 6, none⟩]]) := by decide

end Aldrin.Broker
