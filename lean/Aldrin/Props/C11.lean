/-
C11 — Broker survives arbitrary message sequences and keeps serving others.

Statement (properties.jsonl): whatever sequence of well-formed protocol messages a connection sends —
wrong direction, stale or foreign cookies and serials, duplicates, out-of-state requests — the broker
does not panic or hang; it answers, ignores, or closes that connection. Afterwards a well-behaved
connection is still served correctly, and objects, calls and channels of other connections are affected
only in the ways the protocol defines for a peer that disconnects.

What is proved here (model M4, where every `expect("inconsistent state")`, `unreachable!()` and
`debug_assert!` of the broker is an explicit `Panic` result):
* wrong-direction kinds and kinds newer than the negotiated version only make the handler fail, which
  closes the sender and nothing else (`wrong_direction_closes_sender`, C12 `gated_message_fails`);
* for ALL histories every stored channel and bus listener satisfies its invariant (C05, C10), and under
  those invariants the panic sites of `channel.rs` (5 `unreachable!()` arms, 3 `debug_assert!`s) and of
  `bus_listener.rs` (2 `unreachable!()` arms) are not reachable from the operations the handlers apply
  to stored entries (`channel_ops_do_not_panic`, `listener_enumeration_does_not_panic`);
* requests naming unknown cookies / serials are answered or ignored without touching other state
  (`unknown_*`).
* the three `debug_assert!`s of `ConnectionState::remove_call` (`call_function_reply`, `abort_call`, the deferred
  `remove_function_call` items) hold in every turn of `Broker::run`, by the cross-reference invariant of the call
  tables proved for C02 (`remove_call_asserts_hold`; reachable states with fewer than 2³² pending calls);
* the cross-reference lookups of the call handlers cannot fail in a reachable state (registry invariant of C03,
  callee-side invariant of C02): `call_reply_lookups_hold` — `call_function_reply` never returns one of its
  `expect("inconsistent state")` results —, `remove_service_lookups_hold` — neither `remove_service` nor the loop over
  the calls the service holds does —, `call_function_lookups_hold`;
* for ALL histories `claim_channel_end` finds the connection that holds the other end (`claim_lookup_holds`, from the
  ownership invariant of C05: a claimed end is held by a connection that is there);
Partial: the remaining `expect("inconsistent state")` sites (subscriptions, introspection, the owner lookups of the
event handlers) are cross-reference lookups whose unreachability needs the subscription / introspection parts of the
consistency invariant, which are not proved. It is covered by the correspondence runs of the "abuse" profile (the model reports the
panic site by name, the harness catches panics around every poll and checks that every live connection
is still answered at the end of each scenario).
-/
import Aldrin.Lemmas.Broker.Gauge
import Aldrin.Lemmas.Broker.Events
import Aldrin.Lemmas.Broker.CallAsserts
import Aldrin.Lemmas.Broker.Callee
import Aldrin.Lemmas.Broker.Own

namespace Aldrin.Broker

theorem wrong_direction_closes_sender (s s' : St) (id : ConnId) (k : Nat)
    (h : handleEvent s (.msg id (.other k)) = .ok s') :
    s'.w.removeConns = (id, false) :: s.w.removeConns ∧ s'.b.conns = s.b.conns ∧ s'.out = s.out := by
  simp [handleEvent, handleMessage, errH, St.pushRemoveConn] at h
  subst h
  simp

/-- every operation a handler applies to a stored channel is panic-free (the `close` case needs the end
not to be closed already, which `check_close` / the claimed-state checks of the callers establish) -/
theorem channel_ops_do_not_panic (es : List Event) (b : Broker) (w : Work) (outs : List (List Out))
    (h : run {} {} es = .ok (b, w, outs)) (ck : Cookie) (ch : Chan) (hc : AL.find? ck b.channels = some ch)
    (conn : ConnId) (cap : Nat) :
    (∃ r, ch.sendItem conn = .ok r) ∧ (∃ r, ch.addCapacity conn cap = .ok r) ∧
    (∃ r, ch.claimSender conn = .ok r) ∧ (∃ r, ch.claimReceiver conn cap = .ok r) ∧
    (∀ e, ch.endState e ≠ .closed → ∃ r, ch.close e = .ok r) := by
  have hok : ch.OK := AllV_find (run_CLInv es _ _ _ _ _ CLInv_init h).1 hc
  refine ⟨?_, ?_, ?_, ?_, ?_⟩
  · obtain ⟨r, hr, _⟩ := okAnd_iff.mp (sendItem_ok (conn := conn) hok); exact ⟨r, hr⟩
  · obtain ⟨r, hr, _⟩ := okAnd_iff.mp (addCapacity_ok (conn := conn) (cap := cap) hok); exact ⟨r, hr⟩
  · obtain ⟨r, hr, _⟩ := okAnd_iff.mp (claimSender_ok (conn := conn) hok); exact ⟨r, hr⟩
  · obtain ⟨r, hr, _⟩ := okAnd_iff.mp (claimReceiver_ok (conn := conn) (cap := cap) hok); exact ⟨r, hr⟩
  · intro e he
    obtain ⟨r, hr, _⟩ := okAnd_iff.mp (close_ok hok he); exact ⟨r, hr⟩

theorem listener_enumeration_does_not_panic (es : List Event) (b : Broker) (w : Work) (outs : List (List Out))
    (h : run {} {} es = .ok (b, w, outs)) (ck : Cookie) (l : Listener) (hl : AL.find? ck b.listeners = some l)
    (sc : Option Scope) :
    (∃ r, ({ l with scope := sc } : Listener).specificObjects = .ok r) ∧
    (∃ r, ({ l with scope := sc } : Listener).specificServices? = .ok r) := by
  have hok : l.OK := AllV_find (P := Listener.OK) (run_CLInv es _ _ _ _ _ CLInv_init h).2 hl
  have hok' : ({ l with scope := sc } : Listener).OK := Listener.setScope_ok sc hok
  exact ⟨⟨_, Listener.specificObjects_ok hok'⟩, ⟨_, Listener.specificServices?_ok hok'⟩⟩

theorem unknown_call_reply_ignored {s : St} {id serial r} (hn : s.b.calls.get? serial = none) :
    callFunctionReply s id serial r = .ok (s, true) := reply_unknown_ignored hn

theorem unknown_channel_item_ignored {s : St} {id c p} (hn : AL.find? c s.b.channels = none) :
    sendItem s id c p = .ok (s, true) := by
  unfold sendItem
  cases hc : s.conn? id <;> simp [hn, okH]

theorem unknown_listener_filter_ignored {s : St} {id c} {f : Listener → Listener} (hn : AL.find? c s.b.listeners = none) :
    updListener s id c f = .ok (s, true) := by
  unfold updListener; simp [hn, okH]

theorem foreign_listener_untouched {s : St} {id c} {f : Listener → Listener} {l : Listener}
    (hl : AL.find? c s.b.listeners = some l) (hne : l.conn ≠ id) :
    updListener s id c f = .ok (s, true) := by
  unfold updListener; simp [hl, hne, okH]

/-- **The three `debug_assert!`s of `ConnectionState::remove_call` hold in every turn of `Broker::run`** (every
reachable state with fewer than 2³² pending calls, every event, every step of the work loop): in `call_function_reply`
(the handler runs on the state between two events), in `abort_call` and for the deferred `remove_function_call` items
(both run on states inside the work loop). -/
theorem remove_call_asserts_hold :
    (∀ {b : Broker} {w : Work}, Reachable b w → ∀ id serial r,
        callFunctionReply ⟨b, w, []⟩ id serial r ≠ .error (.debugAssert "remove_call")) ∧
    (∀ {s : St}, InTurn s → ∀ bs cid rest,
        abortCall (s.setWAbortCalls rest) bs cid ≠ .error (.debugAssert "abort_call: remove_call")) ∧
    (∀ {s : St}, InTurn s → ∀ serial cid result rest conn, s.w.removeCalls = (serial, cid, result) :: rest →
        AL.find? cid s.b.conns = some conn → AL.find? serial conn.calls ≠ none) :=
  ⟨fun hr id serial r => reply_remove_call_assert_holds hr.idle.x id serial r,
   fun hs bs cid rest => abort_remove_call_assert_holds hs.xref bs cid rest,
   fun hs serial cid result rest conn hq hc => loop_remove_call_assert_holds hs.xref hq hc⟩



/-- **`call_function_reply` finds what it looks up.** In every reachable state, whoever sends whatever reply: the
object and the service of the call are found (`expect("inconsistent state")` ×2). -/
theorem call_reply_lookups_hold {b : Broker} {w : Work} (h : Reachable b w) (id : ConnId) (serial : Nat) (r : CallResult) (site : String) :
    callFunctionReply ⟨b, w, []⟩ id serial r ≠ .error (.inconsistent site) := by
  intro he
  unfold callFunctionReply at he
  split at he
  · simp [okH] at he
  · split at he
    · simp [okH] at he
    · rename_i call hcall
      obtain ⟨sv, info, o, owner, q1, _, _, q4, _, _⟩ := callee_of_call (s := ⟨b, w, []⟩) h.cal h.reg.2 hcall
      simp only [q4] at he
      split at he
      · simp [okH] at he
      · simp only [St.setCalls_b_svcs, q1] at he
        repeat' (split at he)
        all_goals (simp [okH] at he)

theorem calls_no_error {k : Uuid × Uuid} {l : List Nat} {t : St} {e : Panic} (hc : Cal (some (k, l)) t)
    (he : removeService.calls t l = .error e) : False := by
  obtain ⟨s1, hs1⟩ := removeService_calls_no_panic l t hc
  rw [hs1] at he; cases he

/-- **`remove_service` finds what it looks up.** In every reachable state, for every cookie: the service entry is
found, and so is every call the entry holds (`expect("inconsistent state")` ×2). -/
theorem remove_service_lookups_hold {b : Broker} {w : Work} (h : Reachable b w) (c : Cookie) :
    ∃ s', removeService ⟨b, w, []⟩ c = .ok s' := by
  have hcal := h.cal
  have hreg := h.reg.2
  unfold removeService
  split
  · exact ⟨_, rfl⟩
  · rename_i objId svcUuid info hu
    have h5 := hreg.i5 c objId svcUuid info hu
    simp only [sk, skl] at h5
    split at h5
    · rename_i svc hsv
      simp only [St.setSvcUuids_b_svcs, hsv]
      have hmid : Cal (some ((objId.uuid, svcUuid), svc.calls)) ((match AL.find? objId.uuid (((⟨b, w, []⟩ : St).setSvcUuids (AL.erase c b.svcUuids)).setSvcs
            (AL.erase (objId.uuid, svcUuid) b.svcs)).b.objs with
          | some o => (((⟨b, w, []⟩ : St).setSvcUuids (AL.erase c b.svcUuids)).setSvcs (AL.erase (objId.uuid, svcUuid) b.svcs)).setObjs
                (AL.insert objId.uuid { o with svcs := sremove c o.svcs }
                  (((⟨b, w, []⟩ : St).setSvcUuids (AL.erase c b.svcUuids)).setSvcs (AL.erase (objId.uuid, svcUuid) b.svcs)).b.objs)
          | none => ((⟨b, w, []⟩ : St).setSvcUuids (AL.erase c b.svcUuids)).setSvcs (AL.erase (objId.uuid, svcUuid) b.svcs))) := by
        refine Cal.of_views (CalleeP.drop_entry hcal (k := (objId.uuid, svcUuid)) (l := svc.calls) (scv_find hsv)) ?_ ?_
        · intro bs; split <;> simp [gk]
        · intro k
          have : ∀ t : St, t.b.svcs = AL.erase (objId.uuid, svcUuid) b.svcs → scv t k = upd (scv ⟨b, w, []⟩) (objId.uuid, svcUuid) none k := by
            intro t ht
            simp only [scv, ht, scl_erase, upd_apply]
          split <;> exact this _ (by simp)
      split
      · rename_i e heq
        exfalso
        refine calls_no_error (k := (objId.uuid, svcUuid)) ?_ heq
        exact Cal.of_eq hmid rfl rfl
      · exact ⟨_, rfl⟩
    · simp at h5

/-- **`call_function` finds what it looks up.** In every reachable state, whoever calls whatever: the object of the
service, its owner's connection and the service entry are found (`expect("inconsistent state")` ×3). -/
theorem call_function_lookups_hold {b : Broker} {w : Work} (h : Reachable b w) (id : ConnId) (serial : Nat) (svc : Cookie) (f : Nat)
    (v : Option Nat) (p : Payload) (site : String) :
    callFunctionImpl ⟨b, w, []⟩ id serial svc f v p ≠ .error (.inconsistent site) := by
  intro he
  have hreg := h.reg.2
  unfold callFunctionImpl at he
  split at he
  · simp [okH] at he
  · rename_i conn hconn
    split at he
    · simp at he
    · rename_i objId svcUuid info hsvc
      rcases hreg.i7 svc objId svcUuid info hsvc with ⟨_, o, ho, _⟩ | ⟨l, hl, _⟩
      · simp only [obv] at ho
        simp only [ho] at he
        split at he
        · simp [errH] at he
        · rcases hreg.i3 _ o ho with ⟨lo, hlo, _⟩ | ⟨lo, hlo, _⟩
          · simp only [ro] at hlo
            split at hlo
            · rename_i owner hown
              have h5 := hreg.i5 svc objId svcUuid info hsvc
              simp only [sk, skl] at h5
              split at h5
              · rename_i sv hsv
                have e1 : ∀ t : St, t.b.conns = AL.insert id { conn with calls := conn.calls ++ [(serial, ((b.calls.insert (⟨serial, id, objId.uuid, svcUuid, false⟩ : Call)).2, o.conn))] } b.conns →
                    ∃ callee, t.conn? o.conn = some callee := by
                  intro t ht
                  simp only [St.conn?, ht, AL.find?_insert]
                  split
                  · exact ⟨_, rfl⟩
                  · exact ⟨owner, hown⟩
                obtain ⟨callee, hcallee⟩ := e1 (((⟨b, w, []⟩ : St).setCalls (b.calls.insert (⟨serial, id, objId.uuid, svcUuid, false⟩ : Call)).1).setConn id
                  { conn with calls := conn.calls ++ [(serial, ((b.calls.insert (⟨serial, id, objId.uuid, svcUuid, false⟩ : Call)).2, o.conn))] }) (by simp)
                simp only [hcallee, St.setConn_b_svcs, St.setCalls_b_svcs, hsv] at he
                simp [okH] at he
              · simp at h5
            · simp at hlo
          · simp at hlo
      · simp at hl

theorem isNone_isSome_absurd {α : Type} {o : Option α} (h1 : o.isNone = true) (h2 : o.isSome = true) : False := by
  cases o <;> simp_all

theorem claimSender_other {c c' : Chan} {conn other : ConnId} {cap : Nat} (h : c.claimSender conn = .ok (.ok (c', other, cap))) :
    endOwner c.receiver = some other := by
  unfold Chan.claimSender at h
  repeat' ((try simp only [] at h); split at h)
  all_goals (try (simp at h; done))
  all_goals (simp only [Except.ok.injEq, Prod.mk.injEq] at h; obtain ⟨_, rfl, _⟩ := h)
  all_goals (simp_all [endOwner])

theorem claimReceiver_other {c c' : Chan} {conn other : ConnId} {cap : Nat} (h : c.claimReceiver conn cap = .ok (.ok (c', other))) :
    endOwner c.sender = some other := by
  unfold Chan.claimReceiver at h
  repeat' ((try simp only [] at h); split at h)
  all_goals (try (simp at h; done))
  all_goals (simp only [Except.ok.injEq, Prod.mk.injEq] at h; obtain ⟨_, rfl⟩ := h)
  all_goals (simp_all [endOwner])

theorem claimSender_error {c : Chan} {conn : ConnId} {p : Panic} (h : c.claimSender conn = .error p) : ∀ site, p ≠ .inconsistent site := by
  unfold Chan.claimSender at h
  repeat' ((try simp only [] at h); split at h)
  all_goals (try (simp at h; done))
  all_goals (simp only [Except.error.injEq] at h; subst h; intro site hh; cases hh)

theorem claimReceiver_error {c : Chan} {conn : ConnId} {cap : Nat} {p : Panic} (h : c.claimReceiver conn cap = .error p) :
    ∀ site, p ≠ .inconsistent site := by
  unfold Chan.claimReceiver at h
  repeat' ((try simp only [] at h); split at h)
  all_goals (try (simp at h; done))
  all_goals (simp only [Except.error.injEq] at h; subst h; intro site hh; cases hh)

/-- **`claim_channel_end` finds the connection that holds the other end**, after every history, whoever claims whatever -/
theorem claim_lookup_holds (es : List Event) (b : Broker) (w : Work) (outs : List (List Out))
    (h : run {} {} es = .ok (b, w, outs)) (id : ConnId) (serial : Nat) (ck : Cookie) (e : ChanEnd) (cap : Nat) (site : String) :
    claimChannelEnd ⟨b, w, []⟩ id serial ck e cap ≠ .error (.inconsistent site) := by
  have hown := run_own es _ _ _ _ _ G2_init Own.init h
  have there : ∀ (x : Hold) (o : ConnId), own ⟨b, w, []⟩ x = some o → (AL.find? o b.conns).isSome = true := by
    intro x o hx
    rcases hown.o1 x o hx with ⟨L, hl, _⟩ | ⟨L, hp, _⟩
    · simp only [co, cv] at hl
      split at hl
      · rename_i conn hconn; simp [hconn]
      · simp at hl
    · simp at hp
  intro he
  unfold claimChannelEnd at he
  split at he
  · simp [okH] at he
  · split at he
    · simp at he
    · rename_i ch hch
      obtain ⟨os, or⟩ := own_chan (s := ⟨b, w, []⟩) hch
      simp only [] at he
      cases e <;> simp only [] at he
      · cases hcl : ch.claimSender id with
        | error p => simp only [hcl, Except.error.injEq] at he; exact claimSender_error hcl site he
        | ok r =>
          cases r with
          | error r' => simp [hcl] at he
          | ok v =>
            obtain ⟨ch', other, c⟩ := v
            simp only [hcl] at he
            have hth := there (.rcv, ck) other (by rw [or]; exact claimSender_other hcl)
            split at he
            · rename_i hnone
              simp only [St.conn?, St.send_b_conns] at hnone
              have := conn?_isSome_updConn ((⟨b, w, []⟩ : St).setChannels (AL.insert ck ch' b.channels)) id
                (fun c => { c with senders := sinsert ck c.senders }) other
              simp only [St.conn?, St.setChannels_b_conns] at this
              rw [hth] at this
              exact isNone_isSome_absurd hnone this
            · simp at he
      · cases hcl : ch.claimReceiver id cap with
        | error p => simp only [hcl, Except.error.injEq] at he; exact claimReceiver_error hcl site he
        | ok r =>
          cases r with
          | error r' => simp [hcl] at he
          | ok v =>
            obtain ⟨ch', other⟩ := v
            simp only [hcl] at he
            have hth := there (.snd, ck) other (by rw [os]; exact claimReceiver_other hcl)
            split at he
            · rename_i hnone
              simp only [St.conn?, St.send_b_conns] at hnone
              have := conn?_isSome_updConn ((⟨b, w, []⟩ : St).setChannels (AL.insert ck ch' b.channels)) id
                (fun c => { c with receivers := sinsert ck c.receivers }) other
              simp only [St.conn?, St.setChannels_b_conns] at this
              rw [hth] at this
              exact isNone_isSome_absurd hnone this
            · simp at he

/-! non-vacuity: abuse by connection 1 (wrong direction, then it is gone); connection 0 is still served -/
example : (match run {} {} [.newConn 0 20, .newConn 1 14, .msg 1 (.other 31), .msg 1 (.sync 5), .msg 0 (.sync 6)] with
    | .ok (b, _, outs) => (b.conns.map (·.1), outs.drop 2) | .error _ => ([], [])) =
    ([0], [[], [], [⟨0, .syncReply 6, none⟩]]) := by decide

end Aldrin.Broker
