/-
C11 — Broker survives arbitrary message sequences and keeps serving others.

Statement (properties.jsonl): whatever sequence of well-formed protocol messages a connection sends —
wrong direction, stale or foreign cookies and serials, duplicates, out-of-state requests — the broker
does not panic or hang; it answers, ignores, or closes that connection. Afterwards a well-behaved
connection is still served correctly, and objects, calls and channels of other connections are affected
only in the ways the protocol defines for a peer that disconnects.

What is proved here (model M4, where every `expect("inconsistent state")`, `unreachable!()` and
`debug_assert!` of the broker is an explicit `Panic` result):
* wrong-direction kinds and kinds newer than the negotiated version only make the handler fail, which
  closes the sender and nothing else (`wrong_direction_closes_sender`, C12 `gated_message_fails`);
* for ALL histories every stored channel and bus listener satisfies its invariant (C05, C10), and under
  those invariants the panic sites of `channel.rs` (5 `unreachable!()` arms, 3 `debug_assert!`s) and of
  `bus_listener.rs` (2 `unreachable!()` arms) are not reachable from the operations the handlers apply
  to stored entries (`channel_ops_do_not_panic`, `listener_enumeration_does_not_panic`);
* requests naming unknown cookies / serials are answered or ignored without touching other state
  (`unknown_*`).
* the three `debug_assert!`s of `ConnectionState::remove_call` (`call_function_reply`, `abort_call`, the deferred
  `remove_function_call` items) hold in every turn of `Broker::run`, by the cross-reference invariant of the call
  tables proved for C02 (`remove_call_asserts_hold`; reachable states with fewer than 2³² pending calls);
* **of the 35 lookup sites of the model (the 38 `expect("inconsistent state")` calls of `broker.rs`; the two service handlers and some removal paths share a site) only the four of the introspection code can be reached**
  (`inconsistent_state_only_in_introspection`: one whole turn of `Broker::run` — the handler of any event and every step
  of the deferred work — from any reachable state; `Lemmas/Broker/Lookups.lean`, from the registry invariant of C03,
  the callee-side invariant of C02 and the ownership invariant of C05); `request_does_not_panic` (no panic of any kind —
  lookup, `unreachable!()`, `debug_assert!` — in the handler of the 31 request kinds that are not about introspection; with
  the channel and listener invariants of C05 / C10 and the caller-side invariant of C02), `remove_service_and_object_cannot_fail`,
  `shutdown_connection_lookups_hold`;
* the work loop stops after finitely many items from every state (`work_loop_terminates`, a lexicographic measure;
  `Lemmas/Broker/Terminate.lean`), so the outcome of a turn does not depend on the model's budget once that is large
  enough (`work_loop_outcome_is_independent_of_the_budget`): "does not hang";
* **`turn_panics_only_in_introspection`**: one whole turn from any reachable state, for any event, ends in a panic of any
  kind only inside the introspection code, or on a connection id that is already in use, or by running out of the
  model's budget (`Lemmas/Broker/NoPanic.lean`; adds that a connection lists a channel end once — `Nodup.lean` — and that
  closing one end of a channel leaves the other as it was, so that the teardown of a connection only closes ends that
  are still claimed); `teardown_panics_only_in_introspection`; `set_wrapper_asserts_hold` (the `debug_assert!`s inside the
  set wrappers of `conn_state.rs`, `object.rs`, `service.rs`, which the model does not have as panic sites: what is
  inserted is new, what is removed is there);
Partial: the four lookups and four `debug_assert!`s of the introspection code (their invariant — serials ↔ queried
entries, pending queries of live connections — is not proved), and that the concrete budget `loopFuel` of the model's
`step` suffices (it is generous; the correspondence runs would show a `fuel` result) are not theorems; that a
connection id is new is an assumption about the acceptor. It is covered by the correspondence runs of the "abuse" profile (the model reports the
panic site by name, the harness catches panics around every poll and checks that every live connection
is still answered at the end of each scenario).
-/
import Aldrin.Lemmas.Broker.Gauge
import Aldrin.Lemmas.Broker.Events
import Aldrin.Lemmas.Broker.CallAsserts
import Aldrin.Lemmas.Broker.Lookups
import Aldrin.Lemmas.Broker.Terminate
import Aldrin.Lemmas.Broker.NoPanic
import Aldrin.Lemmas.ConnId.Inv
import Aldrin.Lemmas.Broker.ConnIdBroker

namespace Aldrin.Broker

theorem wrong_direction_closes_sender (s s' : St) (id : ConnId) (k : Nat)
    (h : handleEvent s (.msg id (.other k)) = .ok s') :
    s'.w.removeConns = (id, false) :: s.w.removeConns ∧ s'.b.conns = s.b.conns ∧ s'.out = s.out := by
  simp [handleEvent, handleMessage, errH, St.pushRemoveConn] at h
  subst h
  simp

/-- every operation a handler applies to a stored channel is panic-free (the `close` case needs the end
not to be closed already, which `check_close` / the claimed-state checks of the callers establish) -/
theorem channel_ops_do_not_panic (es : List Event) (b : Broker) (w : Work) (outs : List (List Out))
    (h : run {} {} es = .ok (b, w, outs)) (ck : Cookie) (ch : Chan) (hc : AL.find? ck b.channels = some ch)
    (conn : ConnId) (cap : Nat) :
    (∃ r, ch.sendItem conn = .ok r) ∧ (∃ r, ch.addCapacity conn cap = .ok r) ∧
    (∃ r, ch.claimSender conn = .ok r) ∧ (∃ r, ch.claimReceiver conn cap = .ok r) ∧
    (∀ e, ch.endState e ≠ .closed → ∃ r, ch.close e = .ok r) := by
  have hok : ch.OK := AllV_find (run_CLInv es _ _ _ _ _ CLInv_init h).1 hc
  refine ⟨?_, ?_, ?_, ?_, ?_⟩
  · obtain ⟨r, hr, _⟩ := okAnd_iff.mp (sendItem_ok (conn := conn) hok); exact ⟨r, hr⟩
  · obtain ⟨r, hr, _⟩ := okAnd_iff.mp (addCapacity_ok (conn := conn) (cap := cap) hok); exact ⟨r, hr⟩
  · obtain ⟨r, hr, _⟩ := okAnd_iff.mp (claimSender_ok (conn := conn) hok); exact ⟨r, hr⟩
  · obtain ⟨r, hr, _⟩ := okAnd_iff.mp (claimReceiver_ok (conn := conn) (cap := cap) hok); exact ⟨r, hr⟩
  · intro e he
    obtain ⟨r, hr, _⟩ := okAnd_iff.mp (close_ok hok he); exact ⟨r, hr⟩

theorem listener_enumeration_does_not_panic (es : List Event) (b : Broker) (w : Work) (outs : List (List Out))
    (h : run {} {} es = .ok (b, w, outs)) (ck : Cookie) (l : Listener) (hl : AL.find? ck b.listeners = some l)
    (sc : Option Scope) :
    (∃ r, ({ l with scope := sc } : Listener).specificObjects = .ok r) ∧
    (∃ r, ({ l with scope := sc } : Listener).specificServices? = .ok r) := by
  have hok : l.OK := AllV_find (P := Listener.OK) (run_CLInv es _ _ _ _ _ CLInv_init h).2 hl
  have hok' : ({ l with scope := sc } : Listener).OK := Listener.setScope_ok sc hok
  exact ⟨⟨_, Listener.specificObjects_ok hok'⟩, ⟨_, Listener.specificServices?_ok hok'⟩⟩

theorem unknown_call_reply_ignored {s : St} {id serial r} (hn : s.b.calls.get? serial = none) :
    callFunctionReply s id serial r = .ok (s, true) := reply_unknown_ignored hn

theorem unknown_channel_item_ignored {s : St} {id c p} (hn : AL.find? c s.b.channels = none) :
    sendItem s id c p = .ok (s, true) := by
  unfold sendItem
  cases hc : s.conn? id <;> simp [hn, okH]

theorem unknown_listener_filter_ignored {s : St} {id c} {f : Listener → Listener} (hn : AL.find? c s.b.listeners = none) :
    updListener s id c f = .ok (s, true) := by
  unfold updListener; simp [hn, okH]

theorem foreign_listener_untouched {s : St} {id c} {f : Listener → Listener} {l : Listener}
    (hl : AL.find? c s.b.listeners = some l) (hne : l.conn ≠ id) :
    updListener s id c f = .ok (s, true) := by
  unfold updListener; simp [hl, hne, okH]

/-- **The three `debug_assert!`s of `ConnectionState::remove_call` hold in every turn of `Broker::run`** (every
reachable state with fewer than 2³² pending calls, every event, every step of the work loop): in `call_function_reply`
(the handler runs on the state between two events), in `abort_call` and for the deferred `remove_function_call` items
(both run on states inside the work loop). -/
theorem remove_call_asserts_hold :
    (∀ {b : Broker} {w : Work}, Reachable b w → ∀ id serial r,
        callFunctionReply ⟨b, w, []⟩ id serial r ≠ .error (.debugAssert "remove_call")) ∧
    (∀ {s : St}, InTurn s → ∀ bs cid rest,
        abortCall (s.setWAbortCalls rest) bs cid ≠ .error (.debugAssert "abort_call: remove_call")) ∧
    (∀ {s : St}, InTurn s → ∀ serial cid result rest conn, s.w.removeCalls = (serial, cid, result) :: rest →
        AL.find? cid s.b.conns = some conn → AL.find? serial conn.calls ≠ none) :=
  ⟨fun hr id serial r => reply_remove_call_assert_holds hr.idle.x id serial r,
   fun hs bs cid rest => abort_remove_call_assert_holds hs.xref bs cid rest,
   fun hs serial cid result rest conn hq hc => loop_remove_call_assert_holds hs.xref hq hc⟩



/-- **One turn of `Broker::run`, from any reachable state (fewer than 2³² pending calls), for any event — any message
of any connection, connects, disconnects of all four kinds, shutdown —, including every step of the deferred work:** if
the turn stops at an `expect("inconsistent state")`, it is one of the four lookups of the introspection code. All other
such sites of `broker.rs` (objects, services, owners, calls, subscriptions, channels) are unreachable. -/
theorem inconsistent_state_only_in_introspection {b : Broker} {w : Work} (h : Reachable b w) (hroom : b.calls.elems.length ≤ u32Max)
    {e : Event} {site : String} (he : step b w e = .error (.inconsistent site)) :
    site ∈ ["query introspection: conn", "introspection pending: conn", "remove_introspection_conn: serial", "query_replied: entry"] :=
  step_sites h hroom he

/-- **No request other than the three about introspection makes the broker panic in any way** — no failed lookup, no
`unreachable!()`, no `debug_assert!` — in any reachable state: 31 of the 34 request kinds, sent by anybody, with any
cookies and serials. (For the deferred work that follows the request see `inconsistent_state_only_in_introspection`.) -/
theorem request_does_not_panic {b : Broker} {w : Work} (h : Reachable b w) (id : ConnId) (m : Req) (p : Panic)
    (hm : ∀ tys, m ≠ .registerIntrospection tys) (hq : ∀ serial ty, m ≠ .queryIntrospection serial ty)
    (hr : ∀ serial r, m ≠ .queryIntrospectionReply serial r) :
    handleMessage ⟨b, w, []⟩ id m ≠ .error p :=
  handleMessage_np h id m p hm hq hr

/-- **`remove_service` and `remove_object` cannot fail at all** in a reachable state, for any cookie: the service entry,
every call the entry holds, the object and each of its services are found. -/
theorem remove_service_and_object_cannot_fail {b : Broker} {w : Work} (h : Reachable b w) (c : Cookie) :
    (∃ s', removeService ⟨b, w, []⟩ c = .ok s') ∧ (∃ s', removeObject ⟨b, w, []⟩ c = .ok s') :=
  ⟨removeService_ok h.cal h.reg.2 c, removeObject_ok h.cal h.reg.2 c⟩

/-- the removal of a connection, in a reachable state: only the introspection lookups can fail -/
theorem shutdown_connection_lookups_hold {b : Broker} {w : Work} (h : Reachable b w) (id : ConnId) (send : Bool) (site : String)
    (he : shutdownConnection ⟨b, w, []⟩ id send = .error (.inconsistent site)) : site ∈ introspectionSites :=
  shutdownConnection_sites h.lkinv he

/-- **The broker does not panic.** One whole turn of `Broker::run` from any reachable state (fewer than 2³² pending
calls), for any event — any message of any connection, connects, the four kinds of disconnect, shutdown —, including
every step of the deferred work and the teardown of connections: if the turn ends in a panic of the model — a failed
`expect`, an `unreachable!()`, a `debug_assert!` — then it is one raised by the introspection code (the handler of one of
the three introspection requests, or `remove_introspection_conn`), or the id of a new connection was already in use
(the acceptor never hands out an id twice), or the model's budget for the work loop ran out (see
`work_loop_terminates`). -/
theorem turn_panics_only_in_introspection {b : Broker} {w : Work} (h : Reachable b w) (hroom : b.calls.elems.length ≤ u32Max)
    {e : Event} {p : Panic} (he : step b w e = .error p) :
    p = .fuel ∨ p = .debugAssert "NewConnection: duplicate id" ∨ (∃ t cid, removeIntrospectionConn t cid = .error p) ∨
      (∃ id m, m.isIntrospection = true ∧ handleMessage ⟨b, w, []⟩ id m = .error p) :=
  step_panics h hroom he

/-- the teardown of a connection, from any reachable state: it can only panic inside `remove_introspection_conn` -/
theorem teardown_panics_only_in_introspection {b : Broker} {w : Work} (h : Reachable b w) (id : ConnId) (send : Bool) (p : Panic)
    (he : shutdownConnection ⟨b, w, []⟩ id send = .error p) : ∃ t cid, removeIntrospectionConn t cid = .error p :=
  shutdownConnection_panics h.lkinv h.clinv.1 h.nd he

/-- **The `debug_assert!`s of the set wrappers hold** (`ConnectionState::{add,remove}_*`, `Object::{add,remove}_service`,
`Service::{add,remove}_function_call` assert that an insert adds something new and a removal removes something present;
the model uses plain set operations there). In every reachable state: the next cookie is not listed by any connection
as an object, a sender end, a receiver end or a bus listener, nor by any object as a service; what is registered is
listed where the removal will look for it. -/
theorem set_wrapper_asserts_hold {b : Broker} {w : Work} (h : Reachable b w) :
    (∀ id conn, AL.find? id b.conns = some conn →
        b.nextCookie ∉ conn.objects ∧ b.nextCookie ∉ conn.senders ∧ b.nextCookie ∉ conn.receivers ∧ b.nextCookie ∉ conn.busListeners) ∧
    (∀ u o, AL.find? u b.objs = some o → b.nextCookie ∉ o.svcs) ∧
    (∀ u o, AL.find? u b.objs = some o → ∃ conn, AL.find? o.conn b.conns = some conn ∧ o.cookie ∈ conn.objects) ∧
    (∀ sc oid svu info, AL.find? sc b.svcUuids = some (oid, svu, info) → ∃ o, AL.find? oid.uuid b.objs = some o ∧ sc ∈ o.svcs) ∧
    (∀ bs call, b.calls.get? bs = some call → ∃ sv, AL.find? (call.calleeObj, call.calleeSvc) b.svcs = some sv ∧ bs ∈ sv.calls) := by
  have hreg := h.reg
  have hown := h.own
  have hrc := RegistryConsistent.of_reg (b := b) (w := w) (out := []) hreg.2
  have fo : AL.find? b.nextCookie b.objUuids = none := KeysBelow_fresh hreg.1.2.1.below
  have fs : AL.find? b.nextCookie b.svcUuids = none := KeysBelow_fresh hreg.1.2.2.2.1.below
  have fc : AL.find? b.nextCookie b.channels = none := KeysBelow_fresh hown.1.1.below
  have fl : AL.find? b.nextCookie b.listeners = none := KeysBelow_fresh hown.1.2.below
  refine ⟨fun id conn hc => ⟨?_, ?_, ?_, ?_⟩, ?_, hrc.owner_lists_object, ?_, ?_⟩
  · intro hm
    obtain ⟨u, o, hu, _, _⟩ := hrc.listed_object_is_owned id conn _ hc hm
    rw [fo] at hu; simp at hu
  · intro hm
    have := hown.2.o2 id _ (.snd, b.nextCookie) (co_find (s := ⟨b, w, []⟩) hc) (by rw [mem_holds]; exact Or.inl ⟨rfl, hm⟩)
    simp [own, fc] at this
  · intro hm
    have := hown.2.o2 id _ (.rcv, b.nextCookie) (co_find (s := ⟨b, w, []⟩) hc) (by rw [mem_holds]; exact Or.inr (Or.inl ⟨rfl, hm⟩))
    simp [own, fc] at this
  · intro hm
    have := hown.2.o2 id _ (.lsn, b.nextCookie) (co_find (s := ⟨b, w, []⟩) hc) (by rw [mem_holds]; exact Or.inr (Or.inr ⟨rfl, hm⟩))
    simp [own, fl] at this
  · intro u o ho hm
    obtain ⟨svu, info, hs⟩ := hrc.listed_service_is_of_object u o _ ho hm
    rw [fs] at hs; simp at hs
  · intro sc oid svu info hs
    exact (hrc.service_has_live_object sc oid svu info hs).2
  · intro bs call hg
    obtain ⟨sv, _, _, _, q1, q2, _⟩ := callee_of_call (s := ⟨b, w, []⟩) h.cal hreg.2 hg
    exact ⟨sv, q1, q2⟩

/-- **The broker does not hang in its work loop.** From every state — reachable or not — the loop of
`process_loop_result` stops after finitely many items of deferred work: nothing is left, or an item fails. (Lexicographic
measure: connections; deferred items other than removals of connections; removals of connections. A `send!` to a
connection whose task is gone only ever defers the removal of that connection.) -/
theorem work_loop_terminates (s : St) : ∃ s1, Steps s s1 ∧ (processOne s1 = none ∨ ∃ p, processOne s1 = some (.error p)) :=
  loop_terminates s

/-- hence the outcome of the model's `processLoop` does not depend on its budget once that is large enough: the model's
"out of fuel" result is never what ends the loop -/
theorem work_loop_outcome_is_independent_of_the_budget (s : St) : ∃ n r, (∀ fuel, n ≤ fuel → processLoop fuel s = r) ∧
    (r = .error .fuel → ∃ s1, Steps s s1 ∧ processOne s1 = some (.error .fuel)) :=
  processLoop_stable s

/-! ### the allocator of connection ids (`broker/src/conn_id.rs`)

`turn_panics_only_in_introspection` leaves "the id of a new connection was already in use" as one way for a turn to
fail. The ids come from `ConnectionIdManager`; model `Model/ConnId.lean`, invariant `Lemmas/ConnId/Inv.lean`. -/

/-- **No connection id is handed out twice.** After every history of acquiring ids and of dropping ids that are in
use — any number of them, in any order —, neither `debug_assert!` of `Inner::release` has failed, the ids in use are
pairwise different, and the id that the next `acquire` returns is not in use. -/
theorem connection_ids_are_never_handed_out_twice (ops : List ConnId.Op) :
    ∃ s, ConnId.Sys.run {} ops = .ok s ∧ s.held.Nodup ∧ s.ids.acquire.1 ∉ s.held := by
  obtain ⟨s, hr, hi⟩ := ConnId.run_ok ConnId.Inv.init ops
  exact ⟨s, hr, hi.heldNd, ConnId.acquire_fresh hi⟩

/-- what the allocator keeps track of, in every state it can reach: the ids below `next` are exactly the ids in use
and the ids on the free list, and none is both -/
theorem connection_id_bookkeeping (ops : List ConnId.Op) :
    ∃ s, ConnId.Sys.run {} ops = .ok s ∧ s.ids.free.Nodup ∧ (∀ i, i ∈ s.held → i ∉ s.ids.free) ∧
      ∀ i, i < s.ids.next ↔ (i ∈ s.held ∨ i ∈ s.ids.free) := by
  obtain ⟨s, hr, hi⟩ := ConnId.run_ok ConnId.Inv.init ops
  exact ⟨s, hr, hi.freeNd, hi.disj, hi.cover⟩

/-- **The duplicate-id assertion of `NewConnection` cannot fail.** The broker together with its allocator (`Node`): a new
connection gets the id that `acquire` returns; any other event may happen; the last clone of an id may go at any time
at which the broker has no connection under it (the key of the broker's map is a clone). After every such history, the
id that the next `connect` acquires is not the id of a connection the broker has, so the handling of its
`NewConnection` passes the check — the second alternative of `turn_panics_only_in_introspection` does not occur — and
the ids of the broker's connections are all in use and the allocator's bookkeeping is right. -/
theorem new_connection_id_is_never_a_duplicate (es : List NEv) (n : Node) (h : Node.run {} es = .ok n) (v : Nat) :
    (AL.find? n.ids.ids.acquire.1 n.b.conns).isSome = false ∧
    (∃ s, handleEvent ⟨n.b, n.w, []⟩ (.newConn n.ids.ids.acquire.1 v) = .ok s) ∧
    (∀ c conn, AL.find? c n.b.conns = some conn → c ∈ n.ids.held) ∧ n.ids.held.Nodup := by
  have hi := Node.run_inv es _ _ NInv.init h
  refine ⟨hi.acquired_is_new, hi.handleEvent_newConn_ok v, ?_, hi.ids.heldNd⟩
  intro c conn hc
  exact hi.held c (by simp [exB, hc])

/-! non-vacuity: two connections, the first shuts down and its id goes, a third connection gets the id 0 again -/
example : (match Node.run {} [.connect 20, .connect 20, .ev (.connShutdown 0), .dropId 0, .connect 18] with
    | .ok n => (n.b.conns.map (fun p => (p.1, p.2.version)), n.ids.held, n.ids.ids.next) | .error _ => ([], [], 0)) =
    ([(1, 20), (0, 18)], [0, 1], 2) := by decide

/-! non-vacuity: ids 0 1 2 acquired, 1 then 2 dropped (the second lowers `next`), two more acquired: 1 from the free
list, then 2 again -/
example : (match ConnId.Sys.run {} [.acquire, .acquire, .acquire, .release 1, .release 2, .acquire, .acquire] with
    | .ok s => (s.ids.next, s.ids.free, s.held) | .error _ => (0, [], [])) = (3, [], [2, 1, 0]) := by decide

/-! non-vacuity: abuse by connection 1 (wrong direction, then it is gone); connection 0 is still served -/
example : (match run {} {} [.newConn 0 20, .newConn 1 14, .msg 1 (.other 31), .msg 1 (.sync 5), .msg 0 (.sync 6)] with
    | .ok (b, _, outs) => (b.conns.map (·.1), outs.drop 2) | .error _ => ([], [])) =
    ([0], [[], [], [⟨0, .syncReply 6, none⟩]]) := by decide

end Aldrin.Broker
