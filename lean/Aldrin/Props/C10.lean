/-
C10 — Bus listeners report exactly the matching current and new events.

Statement (properties.jsonl): starting a listener with a scope that includes current entities yields
exactly one created-event, tagged with the listener, for every existing object and service matching
any of its filters, followed by one end-of-current marker; nothing else carries the tag. While
started with a scope that includes new entities, each creation or destruction of a matching object or
service is reported exactly once per connection (not once per listener); stopped, unstarted or
destroyed listeners and non-matching filters produce nothing.

What is proved here about the model of `broker/src/bus_listener.rs` and the listener handlers (M4):
* for ALL histories of broker events every stored listener's cached flags (`matches_all_objects`,
  `matches_specific_services`) equal their recomputation from the filter set, and the filter set has
  no duplicates (`listener_flags_all_histories`; component form `filter_history`);
* hence the two `unreachable!()` arms of `specific_objects` / `specific_services` are dead and the
  enumeration strategy depends on the filter set alone (`specific_*_choice`);
* the optimised "specific" enumeration lists exactly the uuids (pairs) a matching object (service)
  can have, each once (`specific_objects_exact`, `specific_services_exact`), and the scan path uses
  the plain filter predicate (`scan_objects_exact`, `matches_object_is_filter_semantics`);
* a new bus event goes to exactly the connections owning a started (scope includes new) listener with
  a matching filter, once per connection, untagged (`new_event_once_per_connection`).
* the maps the two enumeration paths read agree (cookie ↔ uuid views): by the registry invariant of C03 both paths list
  exactly the registered objects / services that match (`start_lists_exactly_the_matching_objects`,
  `start_lists_exactly_the_matching_services`, `registry_views_agree_all_histories`).
-/
import Aldrin.Lemmas.Broker.Handlers
import Aldrin.Lemmas.Broker.CurrentView

namespace Aldrin.Broker

theorem listener_flags_all_histories (es : List Event) (b : Broker) (w : Work) (outs : List (List Out))
    (h : run {} {} es = .ok (b, w, outs)) (ck : Cookie) (l : Listener) (hl : AL.find? ck b.listeners = some l) :
    l.allObjects = l.filters.any Filter.isAnyObject ∧
    l.specificServices = l.filters.all Filter.isSpecificService ∧ l.filters.Nodup := by
  have : l.OK := AllV_find (P := Listener.OK) (run_CLInv es _ _ _ _ _ CLInv_init h).2 hl
  exact this

/-- component form: any sequence of add / remove / clear on a new listener -/
theorem filter_history (c : ConnId) (ops : List FOp) : (ops.foldl Listener.applyF { conn := c }).OK :=
  Listener.history_ok c ops

theorem specific_objects_choice {l : Listener} (h : l.OK) :
    l.specificObjects = .ok (if l.filters.any Filter.isAnyObject then none
      else some (l.filters.filterMap Filter.objectUuid?)) := Listener.specificObjects_ok h

theorem specific_services_choice {l : Listener} (h : l.OK) :
    l.specificServices? = .ok (if l.filters.all Filter.isSpecificService
      then some (l.filters.filterMap Filter.servicePair?) else none) := Listener.specificServices?_ok h

theorem matches_object_is_filter_semantics {l : Listener} (h : l.OK) (o : ObjId) :
    l.matchesObject o = l.filters.any (·.matchesObject o) := Listener.matchesObject_spec h o

/-- specific path, objects: listed uuids = uuids of matching objects; no uuid twice -/
theorem specific_objects_exact {l : Listener} (h : l.OK) (hno : l.filters.any Filter.isAnyObject = false) (o : ObjId) :
    (l.matchesObject o = true ↔ o.uuid ∈ l.filters.filterMap Filter.objectUuid?) ∧
    (l.filters.filterMap Filter.objectUuid?).Nodup :=
  ⟨Listener.specificObjects_complete h hno o, Listener.specificObjects_nodup h⟩

theorem specific_services_exact {l : Listener} (h : l.OK) (hall : l.filters.all Filter.isSpecificService = true) (s : SvcId) :
    (l.matchesService s = true ↔ (s.obj.uuid, s.uuid) ∈ l.filters.filterMap Filter.servicePair?) ∧
    (l.filters.filterMap Filter.servicePair?).Nodup :=
  ⟨Listener.specificServices_complete hall s, Listener.specificServices_nodup h⟩

/-- scan path, objects: a tagged created-event for exactly the existing objects that match -/
theorem scan_objects_exact (b : Broker) (l : Listener) (cookie : Cookie) (o : ObjId) :
    Rsp.emitBusEvent (some cookie) (.objCreated o) ∈ currentObjMsgs b l cookie none ↔
      (o.cookie, o.uuid) ∈ b.objUuids ∧ l.matchesObject o = true := by
  simp only [currentObjMsgs, List.mem_filterMap]
  constructor
  · rintro ⟨p, hp, hm⟩
    split at hm
    · simp only [Option.some.injEq, Rsp.emitBusEvent.injEq, true_and, BusEv.objCreated.injEq] at hm
      subst hm
      exact ⟨hp, ‹_›⟩
    · simp at hm
  · rintro ⟨hp, hm⟩
    exact ⟨(o.cookie, o.uuid), hp, by simp [hm]⟩

/-- everything `start` sends besides its reply carries the listener's tag or is the end marker -/
theorem current_msgs_tagged (b : Broker) (l : Listener) (cookie : Cookie) (so) (ss) (m : Rsp)
    (hm : m ∈ currentObjMsgs b l cookie so ++ currentSvcMsgs b l cookie ss) :
    ∃ e, m = .emitBusEvent (some cookie) e := by
  simp only [List.mem_append] at hm
  rcases hm with hm | hm
  · cases so <;> simp only [currentObjMsgs, List.mem_filterMap] at hm
    · obtain ⟨p, _, h⟩ := hm; split at h <;> simp at h; exact ⟨_, h.symm⟩
    · obtain ⟨u, _, h⟩ := hm
      cases hf : AL.find? u b.objs <;> simp [hf] at h
      exact ⟨_, h.symm⟩
  · cases ss <;> simp only [currentSvcMsgs, List.mem_filterMap] at hm
    · obtain ⟨p, _, h⟩ := hm; split at h <;> simp at h; exact ⟨_, h.symm⟩
    · obtain ⟨u, _, h⟩ := hm
      cases hf : AL.find? u b.svcs <;> simp [hf] at h
      exact ⟨_, h.symm⟩

/-- **Both enumeration paths of `start` list exactly the existing objects that match.** In a consistent registry with
unique cookies (every state the broker reaches: `registry_views_agree_all_histories`), for a listener whose cached flags
are right and whichever path `specific_objects` selects: a tagged created-event for the object id `o` is sent iff `o` is
registered and the listener's filters match it. -/
theorem start_lists_exactly_the_matching_objects {b : Broker} (hrc : RegistryConsistent b) (hn : AL.NodupKeys b.objUuids)
    {l : Listener} (h : l.OK) (cookie : Cookie) {so : Option (List Uuid)} (hso : l.specificObjects = .ok so) (o : ObjId) :
    Rsp.emitBusEvent (some cookie) (.objCreated o) ∈ currentObjMsgs b l cookie so ↔
      ((o.cookie, o.uuid) ∈ b.objUuids ∧ l.matchesObject o = true) := by
  cases so with
  | none => exact scan_objects_exact b l cookie o
  | some uuids =>
    have hch := specific_objects_choice h
    rw [hso] at hch
    have hno : l.filters.any Filter.isAnyObject = false := by
      cases hany : l.filters.any Filter.isAnyObject
      · rfl
      · simp [hany] at hch
    simp only [hno, Bool.false_eq_true, ↓reduceIte, Except.ok.injEq, Option.some.injEq] at hch
    subst hch
    obtain ⟨hex, _⟩ := specific_objects_exact h hno o
    rw [object_views_agree hrc hn o, hex]
    simp only [currentObjMsgs, List.mem_filterMap]
    constructor
    · rintro ⟨u, hu, hm⟩
      cases hf : AL.find? u b.objs with
      | none => simp [hf] at hm
      | some ob =>
        simp only [hf, Option.map_some, Option.some.injEq, Rsp.emitBusEvent.injEq, true_and, BusEv.objCreated.injEq] at hm
        subst hm
        exact ⟨⟨ob, hf, rfl⟩, hu⟩
    · rintro ⟨⟨ob, hf, hc⟩, hu⟩
      refine ⟨o.uuid, hu, ?_⟩
      simp only [hf, Option.map_some, Option.some.injEq, Rsp.emitBusEvent.injEq, true_and, BusEv.objCreated.injEq]
      cases o
      simp_all

/-- the same for services: whichever path `specific_services` selects, a tagged created-event for the service id `sid` is
sent iff `sid` is registered and the listener's filters match it -/
theorem start_lists_exactly_the_matching_services {b : Broker} (hrc : RegistryConsistent b) (hn : AL.NodupKeys b.svcUuids)
    {l : Listener} (h : l.OK) (cookie : Cookie) {ss : Option (List (Uuid × Uuid))} (hss : l.specificServices? = .ok ss) (sid : SvcId) :
    Rsp.emitBusEvent (some cookie) (.svcCreated sid) ∈ currentSvcMsgs b l cookie ss ↔
      ((∃ info, (sid.cookie, (sid.obj, sid.uuid, info)) ∈ b.svcUuids) ∧ l.matchesService sid = true) := by
  cases ss with
  | none =>
    simp only [currentSvcMsgs, List.mem_filterMap]
    constructor
    · rintro ⟨p, hp, hm⟩
      split at hm
      · rename_i hmatch
        simp only [Option.some.injEq, Rsp.emitBusEvent.injEq, true_and, BusEv.svcCreated.injEq] at hm
        subst hm
        exact ⟨⟨p.2.2.2, hp⟩, hmatch⟩
      · simp at hm
    · rintro ⟨⟨info, hp⟩, hm⟩
      exact ⟨(sid.cookie, (sid.obj, sid.uuid, info)), hp, by simp [hm]⟩
  | some pairs =>
    have hch := specific_services_choice h
    rw [hss] at hch
    have hall : l.filters.all Filter.isSpecificService = true := by
      cases ha : l.filters.all Filter.isSpecificService
      · simp [ha] at hch
      · rfl
    simp only [hall, ↓reduceIte, Except.ok.injEq, Option.some.injEq] at hch
    subst hch
    obtain ⟨hex, _⟩ := specific_services_exact h hall sid
    rw [service_views_agree hrc hn sid, hex]
    simp only [currentSvcMsgs, List.mem_filterMap]
    constructor
    · rintro ⟨p, hp, hm⟩
      cases hf : AL.find? p b.svcs with
      | none => simp [hf] at hm
      | some sv =>
        simp only [hf, Option.map_some, Option.some.injEq, Rsp.emitBusEvent.injEq, true_and, BusEv.svcCreated.injEq] at hm
        subst hm
        exact ⟨⟨sv, hf, rfl, rfl⟩, hp⟩
    · rintro ⟨⟨sv, hf, hc, hoc⟩, hp⟩
      refine ⟨(sid.obj.uuid, sid.uuid), hp, ?_⟩
      simp only [hf, Option.map_some, Option.some.injEq, Rsp.emitBusEvent.injEq, true_and, BusEv.svcCreated.injEq]
      obtain ⟨⟨ou, oc⟩, su, sc⟩ := sid
      simp_all

/-- for ALL histories the hypotheses of `start_lists_exactly_the_matching_objects` hold: the registry is consistent and
no cookie is registered twice -/
theorem registry_views_agree_all_histories (es : List Event) (b : Broker) (w : Work) (outs : List (List Out))
    (h : run {} {} es = .ok (b, w, outs)) :
    RegistryConsistent b ∧ AL.NodupKeys b.objUuids ∧ AL.NodupKeys b.svcUuids := by
  have hg := run_G5 es _ _ _ _ _ G5_init h
  have hr := run_reg es _ _ _ _ _ G5_init Reg.init h
  exact ⟨RegistryConsistent.of_reg hr, hg.2.1.nodup, hg.2.2.2.1.nodup⟩

/-- new events: one untagged copy per connection owning a started matching listener -/
theorem new_event_once_per_connection (s : St) (e : BusEv) :
    (emitBusEvent s e).out = s.out ++ (busTargets s e).filterMap (fun cid => match AL.find? cid s.b.conns with
        | some c => if c.alive then some ⟨cid, .emitBusEvent none e, none⟩ else none
        | none => none) ∧
    (busTargets s e).Nodup ∧
    (∀ c, c ∈ busTargets s e ↔ ∃ p ∈ s.b.listeners, p.2.conn = c ∧ p.2.matchesNewEvent e = true) :=
  ⟨emitBusEvent_out s e, busTargets_nodup s e, busTargets_mem s e⟩

/-- an unstarted or stopped listener, or one started for current entities only, matches no new event -/
theorem not_started_matches_nothing (l : Listener) (e : BusEv)
    (h : l.scope = none ∨ l.scope = some .current) : l.matchesNewEvent e = false := by
  rcases h with h | h <;> simp [Listener.matchesNewEvent, h, Scope.includesNew]

/-! non-vacuity: two listeners of one connection, both matching; the new object is reported once -/
example : (match run {} {} [.newConn 0 20, .newConn 1 20,
      .msg 0 (.createBusListener 1), .msg 0 (.createBusListener 2),
      .msg 0 (.addFilter 0 (.object none)), .msg 0 (.addFilter 1 (.object (some 7))),
      .msg 0 (.startBusListener 3 0 .all), .msg 0 (.startBusListener 4 1 .new),
      .msg 1 (.createObject 5 7)] with
    | .ok (_, _, outs) => outs.getLast? | .error _ => none) =
    some [⟨1, .createObjectReply 5 (.ok 2), none⟩, ⟨0, .emitBusEvent none (.objCreated ⟨7, 2⟩), none⟩] := by decide

end Aldrin.Broker
