/-
C06 — Clients and broker agree on the protocol under every schedule.

Statement (properties.jsonl): when applications use only the public client API, no client ever stops because
the broker sent it a message it did not expect, neither side panics, and every API operation that the
application awaits completes once its peer has acted, on unbounded as well as on small bounded transports.
Results are consistent: a call returns the value computed for that very call, and once all clients have shut
down cleanly a broker asked to stop when idle stops.

What is proved here is the client's half of the agreement, on the model of `Client::run`'s message handling
(`Model/Client.lean`, one case per `msg_*` function), for histories of any length:

* `pending_is_open_requests` — after ANY history of sent requests and accepted messages, a serial is in the
  map of its request kind iff a request of that kind with that serial has been sent and not been answered.
  The client's book-keeping is exactly "requests on their way"; it does not depend on the schedule.
* `unknown_serial_is_refused` — a reply whose serial is not in that map stops the client
  (`UnexpectedMessageReceived`), for each of the 17 reply kinds that are checked;
* `reply_to_open_request_is_not_refused` — conversely a reply to a request that is on its way is never
  refused, for the 12 kinds whose acceptance depends on nothing else; hence a broker that answers every
  request once under its serial (C02, C03, C05 on the broker model) never makes the client stop through one
  of these. The other five (claim, start / stop of a bus listener, subscribe / unsubscribe all) have their
  extra condition stated (`claim_reply_*`, `start_reply_ok_needs_stopped_listener`, …).
* `lenient_replies_never_refused` — replies to calls, object and service destruction are never refused.
* `item_accepted_iff`, `capacity_accepted_iff`, `end_claimed_accepted_iff`, `end_closed_accepted_iff`,
  `current_event_accepted_iff`, `current_finished_accepted_iff` — what the client requires of the messages
  that carry no serial, in terms of its channel-end and listener state.

The composed system (`Model/System.lean`: the broker model, one client model per connection, two
order-preserving queues per connection, EVERY interleaving of "a client sends", "the broker handles the oldest
request of a connection", "any other broker event", "a client handles its oldest message", "a client goes
away"), for the replies that carry a checked serial:

* `replies_carry_open_serials` — in every reachable state, every serial reply that is on its way to a client
  names a serial that is in the client's map of that kind (16 kinds; `queryIntrospectionReply` is answered
  later and is not covered). Rests on `step_msg_reply` / `step_other_no_reply` (Lemmas/Broker/Replies.lean):
  one turn of the broker answers a request at most once, to the requester, under the request's kind and
  serial, and emits no serial reply otherwise — proved for all 35 handlers, connection clean-up and the
  deferred-work loop; and on the invariant `SysInv` (Lemmas/Client/Agreement.lean).
* `broker_replies_never_refused` — hence in no interleaving is a reply of the 11 plain kinds refused.
  The only assumption about the clients is `freshSerial` (a request does not reuse a serial that is still
  open — what `SerialMap::insert` guarantees); the driver checks it on every `cs` line of every trace of the
  real client (`reused-serial`).

* `listener_messages_never_refused` — bus listeners: in every interleaving, whatever the broker has put into a
  client's queue about its listeners — replies to create / destroy / start / stop, the tagged created-events that
  answer a start, the end-of-current marker — is not refused when the client gets to it: the listener is known, a
  start finds it stopped, a stop finds it started, tagged events come only between a start whose scope includes
  what exists and its marker, and the marker comes once. Rests on exact characterisations of the four listener
  handlers (Lemmas/Broker/ListenerSpec.lean), on "a connection that is gone or whose task has ended never comes
  back" for all handlers, clean-up and the work loop (Lemmas/Broker/Alive.lean), on "no other request and nothing
  in the work loop touches another connection's listeners or emits a tagged message", and on the client's listener
  book-keeping being a machine of its own that commutes with sending (Lemmas/Client/ListenerView.lean). The
  invariant (`LSysInv`, Lemmas/Client/ListenerAgreement.lean) relates, per live connection, the broker's listener
  table to the client's listener map *after* the client will have handled what is on its way to it.

* `channel_messages_never_refused` — channels: in every interleaving, whatever the broker has put into a client's
  queue about channels — replies to create / close / claim, "the other end was claimed", "the other end was closed",
  items, capacity — is not refused when the client gets to it: a claim reply is of the kind of the claim, an end that
  is told "claimed" is pending, one that is told "closed" exists and has not been told before, items and capacity
  reach established ends only. This covers close racing claim, closes by flow-control violations, and the
  clean-up of a connection that ends. The invariant (`CSysInv`, Lemmas/Client/ChannelAgreement.lean): for every
  live connection and every end it has claimed in the broker's channel table, the client's map of that end —
  after the messages on their way — says `pending` while the other end is unclaimed and `established` once it is
  claimed; every channel request on its way has its entry; ends are owned by connections that exist. It is
  preserved by `remove_channel_end` (whoever calls it), the five channel handlers (exact characterisations),
  connection clean-up and the work loop; everything else neither touches the table nor emits a channel message
  (Lemmas/Broker/ChanOut.lean).

* `pending_serials_are_on_their_way`, `quiescent_no_pending` — nothing is left waiting for the broker: in every
  reachable state, for a connection the broker still serves, every serial in one of the client's 16 maps belongs to
  a request that is on its way to the broker or to a reply that is on its way to the client; when both queues of
  the connection are empty, the maps are empty. Rests on `step_msg_answers` (Lemmas/Broker/Answers.lean): a turn
  of the broker for such a request of a connection that is alive before and after the turn puts the reply into the
  queue in that very turn — either the handler answers, or it closes the connection, and then the first round of the
  work loop removes it. This is the protocol half of "every operation that only waits for the broker completes";
  that the real client's futures are woken is the harness' business.

Partial (see DESIGN.md): the same for calls and subscriptions (`NotSupported` is never sent to a client that asked
only when it may) is the remaining part of the composed-system invariant; it is not a theorem here. The `assert!`s
of the client about its own maps (a new cookie is not in the map yet) are not covered by these theorems either. It is checked by the runs of `harness/src/bin/sys.rs`
(real broker, 2-4 real clients, PRNG-chosen schedule, FIFO sizes 1..16 and unbounded), whose transport traces
are replayed through this model. Lost wake-ups, fairness of `select` and back-pressure are runtime behaviour
no theorem about this model can exhibit; the same runs check them (quiescence implies completion).
-/
import Aldrin.Lemmas.Client.Serial
import Aldrin.Lemmas.Client.Agreement
import Aldrin.Lemmas.Client.ListenerAgreement
import Aldrin.Lemmas.Client.ChannelAgreement
import Aldrin.Lemmas.Client.Answered

namespace Aldrin.Client
open Aldrin.Broker

/-- a freshly connected client -/
def CSt.init (version : Nat) : CSt := { version := version }

theorem pending_is_open_requests (version : Nat) (h : List Ev) (s : CSt) (k : SKind) (x : Nat)
    (hr : replay (CSt.init version) h = some s) :
    x ∈ pendingOf s k ↔ openFrom false k x h = true := by
  have := replay_pending h (CSt.init version) s k x hr
  have h0 : decide (x ∈ pendingOf (CSt.init version) k) = false := by
    cases k <;> simp [pendingOf, CSt.init, AL.keys]
  rwa [h0] at this

theorem unknown_serial_is_refused (s : CSt) (m : Rsp) (k : SKind) (x : Nat) (hk : rspKey m = some (k, x))
    (hx : x ∉ pendingOf s k) : onRecv s m = .unexpected :=
  onRecv_unknown_serial s m k x hk hx

theorem mem_keys_find {V : Type} {x : Nat} {m : List (Nat × V)} (h : x ∈ AL.keys m) : ∃ v, AL.find? x m = some v := by
  cases hf : AL.find? x m with
  | some v => exact ⟨v, rfl⟩
  | none => exact absurd h (find_none_not_mem_keys hf)

/-- reply kinds that are accepted whenever their serial is known -/
def plainReply : Rsp → Bool
  | .createObjectReply .. | .createServiceReply .. | .subscribeEventReply .. | .queryServiceVersionReply ..
  | .queryServiceInfoReply .. | .subscribeServiceReply .. | .createChannelReply .. | .closeChannelEndReply ..
  | .syncReply .. | .createBusListenerReply .. | .destroyBusListenerReply .. => true
  | _ => false

theorem known_serial_not_refused (s : CSt) (m : Rsp) (k : SKind) (x : Nat) (hp : plainReply m = true)
    (hk : rspKey m = some (k, x)) (hx : x ∈ pendingOf s k) : onRecv s m ≠ .unexpected := by
  cases m <;> simp only [plainReply, Bool.false_eq_true] at hp <;>
    simp only [rspKey, Option.some.injEq, Prod.mk.injEq] at hk <;> obtain ⟨rfl, rfl⟩ := hk <;>
    simp only [pendingOf] at hx <;> simp only [onRecv]
  all_goals first
    | (have ht : take _ _ = some _ := take_eq_some_iff.mpr ⟨hx, rfl⟩
       simp only [ht]
       repeat' split
       all_goals simp)
    | (obtain ⟨v, hv⟩ := mem_keys_find hx
       have ht : takeAL _ _ = some (v, _) := takeAL_eq_some_iff.mpr ⟨hv, rfl⟩
       simp only [ht]
       repeat' split
       all_goals simp)

theorem reply_to_open_request_is_not_refused (version : Nat) (h : List Ev) (s : CSt) (m : Rsp) (k : SKind) (x : Nat)
    (hr : replay (CSt.init version) h = some s) (hp : plainReply m = true) (hk : rspKey m = some (k, x))
    (hopen : openFrom false k x h = true) : onRecv s m ≠ .unexpected :=
  known_serial_not_refused s m k x hp hk ((pending_is_open_requests version h s k x hr).mpr hopen)

theorem lenient_replies_never_refused (s : CSt) :
    (∀ n r, onRecv s (.destroyObjectReply n r) ≠ .unexpected) ∧
    (∀ n r, onRecv s (.callFunctionReply n r) ≠ .unexpected) ∧
    (∀ n r, onRecv s (.destroyServiceReply n r) ≠ .unexpected) := by
  refine ⟨?_, ?_, ?_⟩
  · intro n r; simp [onRecv]
  · intro n r; simp [onRecv]
  · intro n r
    simp only [onRecv]
    repeat' split
    all_goals simp

/-! ### the replies with a second condition -/

theorem claim_reply_matching (s : CSt) (n : Nat) (ck : Cookie) (cap : Nat)
    (hs : AL.find? n s.claimChannelEnd = some (.sender, ck)) :
    onRecv s (.claimChannelEndReply n (.senderClaimed cap)) ≠ .unexpected ∧
    onRecv s (.claimChannelEndReply n .receiverClaimed) = .unexpected := by
  have ht : takeAL n s.claimChannelEnd = some ((.sender, ck), AL.erase n s.claimChannelEnd) :=
    takeAL_eq_some_iff.mpr ⟨hs, rfl⟩
  constructor
  · simp only [onRecv, ht]
    repeat' split
    all_goals simp_all
  · simp [onRecv, ht]

theorem claim_reply_failure_accepted (s : CSt) (n : Nat) (e : ChanEnd) (ck : Cookie)
    (hs : AL.find? n s.claimChannelEnd = some (e, ck)) :
    (∃ s', onRecv s (.claimChannelEndReply n .invalidChannel) = .ok s') ∧
    (∃ s', onRecv s (.claimChannelEndReply n .alreadyClaimed) = .ok s') := by
  have ht : takeAL n s.claimChannelEnd = some ((e, ck), AL.erase n s.claimChannelEnd) :=
    takeAL_eq_some_iff.mpr ⟨hs, rfl⟩
  constructor <;> cases e <;> simp [onRecv, ht]

theorem start_reply_ok_needs_stopped_listener (s : CSt) (n : Nat) (ck : Cookie) (sc : Scope)
    (hs : AL.find? n s.startBusListener = some (ck, sc)) :
    onRecv s (.startBusListenerReply n .ok) ≠ .unexpected ↔
      ∃ l, AL.find? ck s.listeners = some l ∧ l.scope = none := by
  have ht : takeAL n s.startBusListener = some ((ck, sc), AL.erase n s.startBusListener) :=
    takeAL_eq_some_iff.mpr ⟨hs, rfl⟩
  simp only [onRecv, ht]
  cases hl : AL.find? ck s.listeners with
  | none => simp
  | some l => cases hsc : l.scope <;> simp [hsc]

theorem stop_reply_ok_needs_started_listener (s : CSt) (n : Nat) (ck : Cookie)
    (hs : AL.find? n s.stopBusListener = some ck) :
    onRecv s (.stopBusListenerReply n .ok) ≠ .unexpected ↔
      ∃ l, AL.find? ck s.listeners = some l ∧ l.scope.isSome = true := by
  have ht : takeAL n s.stopBusListener = some (ck, AL.erase n s.stopBusListener) :=
    takeAL_eq_some_iff.mpr ⟨hs, rfl⟩
  simp only [onRecv, ht]
  cases hl : AL.find? ck s.listeners with
  | none => simp
  | some l => cases hsc : l.scope <;> simp [hsc]

/-- `NotSupported` is never an acceptable answer: the client only asks when the service said it can -/
theorem not_supported_refused (s : CSt) (n : Nat) :
    onRecv s (.subscribeAllEventsReply n .notSupported) = .unexpected ∧
    onRecv s (.unsubscribeAllEventsReply n .notSupported) = .unexpected := by
  constructor <;> simp only [onRecv] <;> split <;> simp

/-! ### messages without a serial -/

theorem item_accepted_iff (s : CSt) (ck : Cookie) (p : Payload) :
    onRecv s (.itemReceived ck p) = .ok s ↔ AL.find? ck s.receivers = some .established := by
  simp only [onRecv]; split <;> simp_all

theorem capacity_accepted_iff (s : CSt) (ck : Cookie) (n : Nat) :
    onRecv s (.addChannelCapacity ck n) = .ok s ↔ AL.find? ck s.senders = some .established := by
  simp only [onRecv]; split <;> simp_all

/-- the other end was claimed: accepted exactly once, while this client's end is still pending -/
theorem end_claimed_accepted_iff (s : CSt) (ck : Cookie) (e : ChanEnd) (cap : Nat) :
    onRecv s (.channelEndClaimed ck e cap) ≠ .unexpected ↔
      AL.find? ck (ends s (peerEnd e)) = some .pending := by
  simp only [onRecv, channelEndClaimed]
  split <;> simp_all

/-- the other end was closed: accepted once, while this client's end exists and has not been told already -/
theorem end_closed_accepted_iff (s : CSt) (ck : Cookie) (e : ChanEnd) :
    onRecv s (.channelEndClosed ck e) ≠ .unexpected ↔
      ∃ st, AL.find? ck (ends s (peerEnd e)) = some st ∧ st ≠ .peerClosed := by
  simp only [onRecv, channelEndClosed]
  split <;> simp_all

theorem current_event_accepted_iff (s : CSt) (ck : Cookie) (ev : BusEv) :
    onRecv s (.emitBusEvent (some ck) ev) = .ok s ↔
      ∃ l, AL.find? ck s.listeners = some l ∧ (l.scope.map Scope.includesCurrent).getD false = true ∧ l.currentFinished = false := by
  simp only [onRecv]
  cases hl : AL.find? ck s.listeners with
  | none => simp
  | some l => by_cases h1 : (l.scope.map Scope.includesCurrent).getD false = true <;> cases h2 : l.currentFinished <;> simp_all

theorem current_finished_accepted_iff (s : CSt) (ck : Cookie) :
    onRecv s (.busListenerCurrentFinished ck) ≠ .unexpected ↔
      ∃ l, AL.find? ck s.listeners = some l ∧ l.currentFinished = false := by
  simp only [onRecv]
  cases hl : AL.find? ck s.listeners with
  | none => simp
  | some l => cases h2 : l.currentFinished <;> simp_all

/-- events, service notifications and untagged bus events are always accepted -/
theorem notifications_always_accepted (s : CSt) :
    (∀ c e p, onRecv s (.emitEvent c e p) = .ok s) ∧ (∀ c, onRecv s (.serviceDestroyed c) = .ok s) ∧
    (∀ c e, onRecv s (.subscribeEvent c e) = .ok s) ∧ (∀ c e, onRecv s (.unsubscribeEvent c e) = .ok s) ∧
    (∀ ev, onRecv s (.emitBusEvent none ev) = .ok s) := by
  simp [onRecv]

/-! ### the composed system -/

open Aldrin.System in
/-- In every interleaving of the composed system, a serial reply that is on its way to a client names a serial
the client has in its map of that kind. -/
theorem replies_carry_open_serials (es : List SysEv) (s : Sys) (hr : sysRun {} es = some s)
    (c : ConnId) (l : Link) (hl : s.links c = some l) (m : Rsp) (hm : m ∈ l.down)
    (k : SKind) (n : Nat) (hk : strictKey m = some (k, n)) : n ∈ pendingOf l.mon k :=
  head_is_pending (sysRun_inv es {} s hr SysInv_init) hl hm hk

theorem plainReply_strict {m : Rsp} (hp : plainReply m = true) : ∃ k n, strictKey m = some (k, n) := by
  cases m <;> simp only [plainReply, Bool.false_eq_true] at hp <;> exact ⟨_, _, rfl⟩

open Aldrin.System in
/-- In every interleaving of the composed system, the next message of a client is not a refused plain reply. -/
theorem broker_replies_never_refused (es : List SysEv) (s : Sys) (hr : sysRun {} es = some s)
    (c : ConnId) (l : Link) (hl : s.links c = some l) (m : Rsp) (rest : List Rsp) (hd : l.down = m :: rest)
    (hp : plainReply m = true) : onRecv l.mon m ≠ .unexpected := by
  obtain ⟨k, n, hk⟩ := plainReply_strict hp
  have hx := replies_carry_open_serials es s hr c l hl m (by simp [hd]) k n hk
  exact known_serial_not_refused l.mon m k n hp (strictKey_kind hk).2 hx

open Aldrin.System in
/-- In every interleaving of the composed system, the next message of a client, if it is about its bus listeners, is
not refused. -/
theorem listener_messages_never_refused (es : List SysEv) (s : Sys) (hr : sysRun {} es = some s)
    (c : ConnId) (l : Link) (hl : s.links c = some l) (m : Rsp) (rest : List Rsp) (hd : l.down = m :: rest)
    (hL : isL m = true) : onRecv l.mon m ≠ .unexpected :=
  listener_head_accepted (sysRun_linv es {} s hr SysInv_init LSysInv_init).2 hl hd hL

open Aldrin.System in
/-- In every interleaving of the composed system, the next message of a client, if it is about channels, is not
refused. -/
theorem channel_messages_never_refused (es : List SysEv) (s : Sys) (hr : sysRun {} es = some s)
    (c : ConnId) (l : Link) (hl : s.links c = some l) (m : Rsp) (rest : List Rsp) (hd : l.down = m :: rest)
    (hC : isC m = true) : onRecv l.mon m ≠ .unexpected :=
  channel_head_accepted (sysRun_cinv es {} s hr SysInv_init CSysInv_init).2 hl hd hC

open Aldrin.System in
/-- In every interleaving of the composed system, for a connection the broker still serves: a serial that the client
has in the map of one of the 16 request kinds is that of a request on its way to the broker or of a reply on its way
to the client. -/
theorem pending_serials_are_on_their_way (es : List SysEv) (s : Sys) (hr : sysRun {} es = some s)
    (c : ConnId) (l : Link) (hl : s.links c = some l) (ha : aliveB (stOf s) c = true)
    (k : SKind) (n : Nat) (hk : k ≠ .queryIntrospection) (hn : n ∈ pendingOf l.mon k) :
    (k, n) ∈ l.up.filterMap reqKeyS ∨ (k, n) ∈ l.down.filterMap strictKey := by
  have := sysRun_ans es {} s hr AnsInv_init c l hl ha k n hk hn
  simp only [cnt, keysUp, keysDown] at this
  by_cases h1 : (k, n) ∈ l.up.filterMap reqKeyS
  · exact Or.inl h1
  · right
    have h0 := List.count_eq_zero.mpr h1
    exact List.count_pos_iff.mp (by omega)

open Aldrin.System in
/-- … so with nothing on its way in either direction, no operation waits for the broker. -/
theorem quiescent_no_pending (es : List SysEv) (s : Sys) (hr : sysRun {} es = some s)
    (c : ConnId) (l : Link) (hl : s.links c = some l) (ha : aliveB (stOf s) c = true) (hu : l.up = []) (hd : l.down = [])
    (k : SKind) (hk : k ≠ .queryIntrospection) : pendingOf l.mon k = [] := by
  cases hp : pendingOf l.mon k with
  | nil => rfl
  | cons n rest =>
    have := pending_serials_are_on_their_way es s hr c l hl ha k n hk (by rw [hp]; simp)
    simp [hu, hd] at this

/-- the messages of the broker that the three agreement theorems cover: serial replies of the 11 plain kinds, everything about
bus listeners, everything about channels -/
def covered (m : Rsp) : Bool := plainReply m || isL m || isC m

/-- the messages the client never refuses, whatever its state -/
def harmless : Rsp → Bool
  | .destroyObjectReply .. | .destroyServiceReply .. | .callFunction .. | .callFunction2 .. | .callFunctionReply ..
  | .subscribeEvent .. | .unsubscribeEvent .. | .emitEvent .. | .serviceDestroyed .. | .emitBusEvent none _ | .shutdown => true
  | _ => false

theorem harmless_never_refused (s : CSt) (m : Rsp) (h : harmless m = true) : onRecv s m ≠ .unexpected := by
  cases m <;> simp only [harmless, Bool.false_eq_true] at h <;> simp only [onRecv] <;> (repeat' split) <;> simp_all [harmless]

open Aldrin.System in
/-- In every interleaving of the composed system, the next message of a client is not refused if it is of a covered
or of a harmless kind. Of the broker's 37 message kinds 20 are covered and 10 are harmless; the other seven are the
version-gated `abortFunctionCall`, `queryIntrospection`, `queryIntrospectionReply`, the owner-directed
`subscribeAllEvents` / `unsubscribeAllEvents`, and `subscribeAllEventsReply` / `unsubscribeAllEventsReply`, which are
refused exactly when they say `NotSupported`. -/
theorem covered_messages_never_refused (es : List SysEv) (s : Sys) (hr : sysRun {} es = some s)
    (c : ConnId) (l : Link) (hl : s.links c = some l) (m : Rsp) (rest : List Rsp) (hd : l.down = m :: rest)
    (hc : covered m = true ∨ harmless m = true) : onRecv l.mon m ≠ .unexpected := by
  rcases hc with hc | hh
  rotate_left
  · exact harmless_never_refused l.mon m hh
  simp only [covered, Bool.or_eq_true] at hc
  rcases hc with (hp | hL) | hC
  · exact broker_replies_never_refused es s hr c l hl m rest hd hp
  · exact listener_messages_never_refused es s hr c l hl m rest hd hL
  · exact channel_messages_never_refused es s hr c l hl m rest hd hC

/-- how many of the broker's message kinds are covered -/
example : ([Rsp.createObjectReply 0 .duplicate, .createServiceReply 0 .duplicate, .subscribeEventReply 0 .ok, .queryServiceVersionReply 0 none,
    .queryServiceInfoReply 0 none, .subscribeServiceReply 0 .ok, .createChannelReply 0 0, .closeChannelEndReply 0 .ok, .syncReply 0,
    .createBusListenerReply 0 0, .destroyBusListenerReply 0 .ok, .startBusListenerReply 0 .ok, .stopBusListenerReply 0 .ok,
    .emitBusEvent (some 0) (.objCreated ⟨0, 0⟩), .busListenerCurrentFinished 0, .claimChannelEndReply 0 .receiverClaimed,
    .channelEndClosed 0 .sender, .channelEndClaimed 0 .sender 0, .itemReceived 0 [], .addChannelCapacity 0 0].all covered) = true := by decide

namespace SystemExample
open Aldrin.System

/-- two clients, interleaved; client 1 has two requests on their way before the broker handles any -/
def hist : List SysEv :=
  [.attach 1 14, .attach 2 14,
   .clientSends 1 (.sync 7), .clientSends 1 (.createChannel 8 .sender 0), .clientSends 2 (.sync 7),
   .brokerHandles 1, .brokerHandles 2, .brokerHandles 1]

example : (sysRun {} hist).bind (fun s => (s.links 1).map (·.down)) = some [.syncReply 7, .createChannelReply 8 0] := by decide
example : (sysRun {} (hist ++ [.clientHandles 1, .clientHandles 1, .clientHandles 2])).isSome = true := by decide
/-- the assumption is needed: a second `sync 7` while the first is open cannot be sent -/
example : (sysRun {} (hist ++ [.clientSends 1 (.sync 7)])).isSome = false := by decide

/-- client 1 creates a channel with its sender end, client 2 claims the receiver with capacity 2, client 1 sends an item
and closes its end while client 2 adds capacity: every message is handled by both clients -/
def channelHist : List SysEv :=
  [.attach 1 20, .attach 2 20, .clientSends 1 (.createChannel 0 .sender 0), .brokerHandles 1, .clientHandles 1,
   .clientSends 2 (.claimChannelEnd 0 0 .receiver 2), .brokerHandles 2, .clientHandles 2, .clientHandles 1,
   .clientSends 1 (.sendItem 0 [1]), .clientSends 1 (.closeChannelEnd 1 0 .sender), .clientSends 2 (.addChannelCapacity 0 1),
   .brokerHandles 1, .brokerHandles 2, .brokerHandles 1]

example : (sysRun {} channelHist).bind (fun s => (s.links 2).map (·.down)) =
    some [.itemReceived 0 [1], .channelEndClosed 0 .sender] := by decide
example : (sysRun {} (channelHist ++ [.clientHandles 2, .clientHandles 2, .clientHandles 1, .clientHandles 1])).isSome = true := by decide

/-- a listener is created, given a filter, started for what exists (one object of client 2), stopped; every message
is handled by client 1 -/
def listenerHist : List SysEv :=
  [.attach 1 20, .attach 2 20, .clientSends 2 (.createObject 0 5), .brokerHandles 2,
   .clientSends 1 (.createBusListener 0), .brokerHandles 1, .clientHandles 1,
   .clientSends 1 (.addFilter 1 (.object none)), .clientSends 1 (.startBusListener 0 1 .all), .brokerHandles 1, .brokerHandles 1,
   .clientSends 1 (.stopBusListener 0 1), .brokerHandles 1]

example : (sysRun {} listenerHist).bind (fun s => (s.links 1).map (·.down)) =
    some [.startBusListenerReply 0 .ok, .emitBusEvent (some 1) (.objCreated ⟨5, 0⟩), .busListenerCurrentFinished 1,
          .stopBusListenerReply 0 .ok] := by decide
example : (sysRun {} (listenerHist ++ [.clientHandles 1, .clientHandles 1, .clientHandles 1, .clientHandles 1])).isSome = true := by decide

end SystemExample

/-! ### non-vacuity: a history in which a channel is created, claimed by the peer, used and closed -/

def exHistory : List Ev :=
  [.sent (.createChannel 0 .sender 0), .got (.createChannelReply 0 7), .sent (.sync 0), .got (.channelEndClaimed 7 .receiver 4),
   .got (.syncReply 0), .got (.addChannelCapacity 7 2), .sent (.closeChannelEnd 0 7 .sender), .got (.channelEndClosed 7 .receiver),
   .sent (.createObject 3 9)]

example : (replay (CSt.init 20) exHistory).isSome = true := by decide
example : openFrom false .closeChannelEnd 0 exHistory = true ∧ openFrom false .createObject 3 exHistory = true ∧
    openFrom false .sync 0 exHistory = false := by decide
example : ∀ s, replay (CSt.init 20) exHistory = some s → onRecv s (.closeChannelEndReply 0 .ok) ≠ .unexpected :=
  fun s hs => reply_to_open_request_is_not_refused 20 exHistory s _ .closeChannelEnd 0 hs rfl rfl (by decide)
example : ∀ s, replay (CSt.init 20) exHistory = some s → onRecv s (.syncReply 0) = .unexpected :=
  fun s hs => unknown_serial_is_refused s _ .sync 0 rfl
    (fun hm => by have := (pending_is_open_requests 20 exHistory s .sync 0 hs).mp hm; revert this; decide)

end Aldrin.Client
