/-
C08 — Message codec round-trip and strict parsing of all message kinds.

Statement (properties.jsonl): every protocol message of every kind (with a non-empty payload where
it has one) serializes to a frame whose 4-byte little-endian length prefix equals the frame length,
and parsing that frame yields an equal message with an identical payload. Parsing arbitrary bytes
never panics; it accepts a frame only if the length prefix matches, the kind is known, every field
is well-formed and nothing is left over, and whatever it accepts re-serializes to a frame that
parses to the same message.

The layouts quantified over here are the ones translated from the 63 `serialize_message` /
`deserialize_message` bodies on every run (`Generated.deTrees`, `Generated.serPaths`).
-/
import Aldrin.Lemmas.Msg

namespace Aldrin
open Generated

/-! ### Obligations on the translated source -/

mutual
/-- Paths of a decision tree. -/
def L.paths : L → List (VMode × List Item)
  | .u32 k => (L.paths k).map (fun p => (p.1, Item.u32 :: p.2))
  | .uuid k => (L.paths k).map (fun p => (p.1, Item.uuid :: p.2))
  | .enumv vals k => (L.paths k).map (fun p => (p.1, Item.enumv vals :: p.2))
  | .tag alts => altPaths alts
  | .fin m => [(m, [])]
def altPaths : List (Nat × L) → List (VMode × List Item)
  | [] => []
  | (n, k) :: r => (L.paths k).map (fun p => (p.1, Item.disc n :: p.2)) ++ altPaths r
end

def sameSet {α : Type} [DecidableEq α] (a b : List α) : Bool :=
  a.all (b.contains ·) && b.all (a.contains ·)

/-- For every one of the 63 kinds, the set of byte layouts `serialize_message` can write is exactly
the set of layouts `deserialize_message` accepts (fields, their order, discriminants, and whether a
value is carried, written as `None`, or absent). -/
theorem ser_de_agree :
    (deTrees.map (·.1)) = (serPaths.map (·.1)) ∧
    (deTrees.all (fun p => sameSet (L.paths p.2) ((lookupKind p.1 serPaths).getD []))) = true := by
  refine ⟨by decide, by decide⟩

/-- The kind table: 63 kinds, numbered 0..62 without gaps, the same set the dispatcher knows. -/
theorem kind_table :
    messageKinds.map (·.2) = List.range 63 ∧ deTrees.map (·.1) = List.range 63 := by
  refine ⟨by decide, by decide⟩

/-- No `match` on a discriminant lists the same discriminant twice (decoding is deterministic). -/
def altsDistinct : L → Bool
  | .u32 k | .uuid k | .enumv _ k => altsDistinct k
  | .tag alts => go alts [] 
  | .fin _ => true
where go : List (Nat × L) → List Nat → Bool
  | [], _ => true
  | (n, k) :: r, seen => !seen.contains n && altsDistinct k && go r (n :: seen)

theorem discriminants_distinct : (deTrees.all (fun p => altsDistinct p.2)) = true := by decide

/-! ### The codec -/

/-- Parsing a frame that was assembled without a value slot. -/
theorem decodeFrame_noValue (kind : Nat) (t : L) (body : Bytes) (hk : kind < 256)
    (ht : lookupKind kind deTrees = some t) (hc : lookupKind kind deCtorHasValue = some false)
    (hl : 5 + body.length ≤ 4294967295) :
    decodeFrame (u32le (5 + body.length) ++ UInt8.ofNat kind :: body) =
      match decTree t body with
      | .error e => .error e
      | .ok (fs, _, rest) =>
        if rest.isEmpty then .ok { kind := kind, flds := fs, value := none } else .error .trailing := by
  have hkb : (UInt8.ofNat kind).toNat = kind := encFld_disc_lt hk
  have hlen : (u32le (5 + body.length) ++ UInt8.ofNat kind :: body).length = 5 + body.length := by
    simp [u32le_length]; omega
  unfold decodeFrame
  rw [hlen]
  have h5 : ¬ (5 + body.length < 5) := by omega
  simp only [h5, ↓reduceIte]
  rw [hdr_getD _ _ _ (u32le_length _), hkb, ht, hc]
  simp only
  rw [hdr_take _ _ (u32le_length _), ofLeBytes_u32le hl, hdr_drop5 _ _ _ (u32le_length _)]
  simp only [ne_eq, not_true_eq_false, ↓reduceIte]
  cases decTree t body with
  | error e => rfl
  | ok p => obtain ⟨fs, m, rest⟩ := p; rfl

/-- Parsing a frame that was assembled with a value slot. -/
theorem decodeFrame_value (kind : Nat) (t : L) (v body : Bytes) (hk : kind < 256)
    (ht : lookupKind kind deTrees = some t) (hc : lookupKind kind deCtorHasValue = some true)
    (hv : 1 ≤ v.length) (hl : 9 + v.length + body.length ≤ 4294967295) :
    decodeFrame (u32le (9 + v.length + body.length) ++ UInt8.ofNat kind :: (u32le v.length ++ (v ++ body))) =
      match decTree t body with
      | .error e => .error e
      | .ok (fs, m, rest) =>
        if rest.isEmpty then .ok { kind := kind, flds := fs, value := if m = .keep then some v else none }
        else .error .trailing := by
  have hkb : (UInt8.ofNat kind).toNat = kind := encFld_disc_lt hk
  have hlen : (u32le (9 + v.length + body.length) ++ UInt8.ofNat kind :: (u32le v.length ++ (v ++ body))).length
      = 9 + v.length + body.length := by
    simp [u32le_length]; omega
  unfold decodeFrame
  rw [hlen]
  have h5 : ¬ (9 + v.length + body.length < 5) := by omega
  have h10 : ¬ (9 + v.length + body.length < 10) := by omega
  simp only [h5, ↓reduceIte]
  rw [hdr_getD _ _ _ (u32le_length _), hkb, ht, hc]
  simp only [h10, ↓reduceIte]
  rw [hdr_take _ _ (u32le_length _), ofLeBytes_u32le hl,
    hdr_drop5_take4 _ _ _ _ (u32le_length _) (u32le_length _), ofLeBytes_u32le (by omega),
    hdr_drop9 _ _ _ _ (u32le_length _) (u32le_length _),
    hdr_drop9n _ _ _ _ _ (u32le_length _) (u32le_length _)]
  have e2 : ¬ v.length < 1 := by omega
  have e3 : ¬ (v.length > 9 + v.length + body.length - 9) := by omega
  simp only [ne_eq, not_true_eq_false, ↓reduceIte, e2, e3, List.take_left']
  cases decTree t body with
  | error e => rfl
  | ok p => obtain ⟨fs, m, rest⟩ := p; rfl

/-- Round trip: a well-formed message serializes to a frame whose length prefix is the frame
length, and parsing that frame yields the same message with the identical payload. -/
theorem msg_roundtrip (r : Rec) (hw : r.WF) :
    ∃ fr, encodeFrame r = .ok fr ∧ fr.take 4 = u32le fr.length ∧ decodeFrame fr = .ok r := by
  obtain ⟨t, m, ht, hm, hv, hl⟩ := hw
  obtain ⟨hk, hvf, hctor, hok⟩ := kind_facts ht
  have hmode := modeOf_modesOk hvf t r.flds m hm hok
  cases m with
  | none =>
    have hvf' : hvf = false := by cases hvf <;> simp_all
    subst hvf'
    simp only at hv hl
    have hlen : ¬ (5 + (encFlds r.flds).length > 4294967295) := by omega
    refine ⟨u32le (5 + (encFlds r.flds).length) ++ UInt8.ofNat r.kind :: encFlds r.flds, ?_, ?_, ?_⟩
    · simp [encodeFrame, ht, hm, hlen]
    · rw [hdr_take _ _ (u32le_length _)]
      congr 1; simp [u32le_length]; omega
    · rw [decodeFrame_noValue r.kind t _ hk ht hctor (by omega)]
      have hdec := decTree_encFlds t r.flds .none [] hm
      simp only [List.append_nil] at hdec
      rw [hdec]
      simp only [List.isEmpty_nil, ↓reduceIte]
      cases r; simp_all
  | keep =>
    have hvf' : hvf = true := by cases hvf <;> simp_all
    subst hvf'
    obtain ⟨v, hv1, hv2⟩ := hv
    simp only [hv1, Option.getD_some] at hl
    refine ⟨u32le (9 + v.length + (encFlds r.flds).length) ++ UInt8.ofNat r.kind ::
      (u32le v.length ++ (v ++ encFlds r.flds)), ?_, ?_, ?_⟩
    · have h1 : ¬ v.length < 1 := by omega
      have h2 : ¬ v.length > 4294967295 := by omega
      have h3 : ¬ (9 + v.length + (encFlds r.flds).length > 4294967295) := by omega
      simp [encodeFrame, ht, hm, hv1, h1, h2, h3]
    · rw [hdr_take _ _ (u32le_length _)]
      congr 1; simp [u32le_length]; omega
    · rw [decodeFrame_value r.kind t v _ hk ht hctor hv2 (by omega)]
      have hdec := decTree_encFlds t r.flds .keep [] hm
      simp only [List.append_nil] at hdec
      rw [hdec]
      simp only [List.isEmpty_nil, ↓reduceIte]
      cases r; simp_all
  | discard =>
    have hvf' : hvf = true := by cases hvf <;> simp_all
    subst hvf'
    simp only at hv hl
    refine ⟨u32le (9 + ([0] : Bytes).length + (encFlds r.flds).length) ++ UInt8.ofNat r.kind ::
      (u32le ([0] : Bytes).length ++ (([0] : Bytes) ++ encFlds r.flds)), ?_, ?_, ?_⟩
    · have h3 : ¬ (9 + 1 + (encFlds r.flds).length > 4294967295) := by omega
      simp [encodeFrame, ht, hm, h3]
    · rw [hdr_take _ _ (u32le_length _)]
      congr 1; simp only [u32le_length, List.length_append, List.length_cons, List.length_nil]; omega
    · have hl' : 9 + ([0] : Bytes).length + (encFlds r.flds).length ≤ 4294967295 := by
        simp only [List.length_singleton]; omega
      rw [decodeFrame_value r.kind t [0] _ hk ht hctor (by simp) hl']
      have hdec := decTree_encFlds t r.flds .discard [] hm
      simp only [List.append_nil] at hdec
      rw [hdec]
      simp only [List.isEmpty_nil, ↓reduceIte]
      cases r; simp_all

theorem ofLeBytes_take4_lt (fr : Bytes) : ofLeBytes (fr.take 4) < 4294967296 := by
  have := ofLeBytes_lt (fr.take 4)
  have h4 : (fr.take 4).length ≤ 4 := by simp; omega
  have : (256 : Nat) ^ (fr.take 4).length ≤ 256 ^ 4 := Nat.pow_le_pow_right (by omega) h4
  omega

/-- Strict parsing: a frame is accepted only if it is at least a header long, its length prefix
equals its length, its kind byte is one of the known kinds, its fields follow the kind's layout and
nothing is left over — i.e. the result is a well-formed message … -/
theorem msg_strict (fr : Bytes) (r : Rec) (h : decodeFrame fr = .ok r) :
    5 ≤ fr.length ∧ ofLeBytes (fr.take 4) = fr.length ∧ r.kind = (fr.getD 4 0).toNat ∧
    (lookupKind r.kind deTrees).isSome ∧ r.WF := by
  unfold decodeFrame at h
  split at h
  · simp at h
  · rename_i h5
    simp only at h
    split at h
    · -- without value
      rename_i t ht hc
      split at h
      · simp at h
      · rename_i hlen
        split at h
        · simp at h
        · rename_i fs m rest hd
          split at h
          · rename_i he
            have hr : rest = [] := by simpa using he
            subst hr
            simp only [Except.ok.injEq] at h
            subst h
            have hs := decTree_sound t _ fs m [] hd
            have hsz := decTree_size t _ fs m [] hd
            obtain ⟨hk, hvf, hctor, hok⟩ := kind_facts ht
            rw [hc] at hctor
            simp only [Option.some.injEq] at hctor
            subst hctor
            have hmode := modeOf_modesOk false t fs m hs.1 hok
            simp only [Bool.false_eq_true, ↓reduceIte] at hmode
            subst hmode
            have hlt := ofLeBytes_take4_lt fr
            simp only [ne_eq, Decidable.not_not] at hlen
            have hdl : (List.drop 5 fr).length = fr.length - 5 := List.length_drop
            have hnl : ([] : Bytes).length = 0 := rfl
            refine ⟨by omega, hlen, rfl, by rw [ht]; rfl, t, .none, ht, hs.1, rfl, ?_⟩
            simp only
            omega
          · simp at h
    · -- with value
      rename_i t ht hc
      split at h
      · simp at h
      · rename_i h10
        split at h
        · simp at h
        · rename_i hlen
          split at h
          · simp at h
          · rename_i hv1
            split at h
            · simp at h
            · rename_i hv2
              split at h
              · simp at h
              · rename_i fs m rest hd
                split at h
                · rename_i he
                  have hr : rest = [] := by simpa using he
                  subst hr
                  simp only [Except.ok.injEq] at h
                  subst h
                  have hs := decTree_sound t _ fs m [] hd
                  have hsz := decTree_size t _ fs m [] hd
                  obtain ⟨hk, hvf, hctor, hok⟩ := kind_facts ht
                  rw [hc] at hctor
                  simp only [Option.some.injEq] at hctor
                  subst hctor
                  have hmode := modeOf_modesOk true t fs m hs.1 hok
                  simp only [↓reduceIte] at hmode
                  have hlt := ofLeBytes_take4_lt fr
                  simp only [ne_eq, Decidable.not_not] at hlen
                  have hvl : ((fr.drop 9).take (ofLeBytes ((fr.drop 5).take 4))).length
                      = ofLeBytes ((fr.drop 5).take 4) := by
                    simp only [List.length_take, List.length_drop]; omega
                  have hdl : (List.drop (9 + ofLeBytes ((fr.drop 5).take 4)) fr).length
                      = fr.length - (9 + ofLeBytes ((fr.drop 5).take 4)) := List.length_drop
                  have hnl : ([] : Bytes).length = 0 := rfl
                  refine ⟨by omega, hlen, rfl, by rw [ht]; rfl, t, m, ht, hs.1, ?_, ?_⟩
                  · cases m with
                    | none => exact absurd rfl hmode
                    | keep => exact ⟨(fr.drop 9).take (ofLeBytes ((fr.drop 5).take 4)), by simp, by rw [hvl]; omega⟩
                    | discard => simp
                  · cases m with
                    | none => exact absurd rfl hmode
                    | keep => simp only [↓reduceIte, Option.getD_some, hvl]; omega
                    | discard => simp only; omega
                · simp at h
    · simp at h

/-- … and whatever is accepted re-serializes to a frame with a correct length prefix that parses
to the same message. -/
theorem msg_reserialize (fr : Bytes) (r : Rec) (h : decodeFrame fr = .ok r) :
    ∃ fr', encodeFrame r = .ok fr' ∧ fr'.take 4 = u32le fr'.length ∧ decodeFrame fr' = .ok r :=
  msg_roundtrip r (msg_strict fr r h).2.2.2.2

/-- Parsing is a total function of the bytes: the tree walk is structural recursion on the
(generated, finite) layout — there is no recursion budget that could run out. -/
theorem msg_total (fr : Bytes) : ∃ x, decodeFrame fr = x := ⟨_, rfl⟩

/-- Non-vacuity: `CallFunction { serial: 300, service_cookie, function: 7, value: [3, 4] }`. -/
example : decodeFrame ([31, 0, 0, 0, 11, 2, 0, 0, 0, 3, 4, 253, 44, 1] ++ List.replicate 16 9 ++ [7])
    = .ok { kind := 11, flds := [.u32 300, .uuid (List.replicate 16 9), .u32 7], value := some [3, 4] } := by
  rfl

end Aldrin
