/-
C07 — Decoding untrusted bytes is total; skipping agrees with decoding.

Statement (properties.jsonl): for arbitrary bytes, decoding a value, measuring or skipping it,
splitting it off as an opaque value and reading its kind all return a result or an error (no
panic, no unbounded allocation); whenever full decoding succeeds, skipping succeeds and reports
exactly the number of bytes decoding consumed; skipping accepts exactly the inputs decoding accepts
except that it does not validate UTF-8.

The theorems quantify over *all* byte strings. The skip widths and modes of
`Deserializer::skip` and `KeyTagImpl::skip` enter through the generated tables
(`Generated.skipU16 … keyI64Skip`), so these theorems are re-checked against what the source says
on every run. What a theorem cannot carry: that the Rust code does not panic or read out of
bounds — that is observed by the harness (catch_unwind), not proved.
-/
import Aldrin.Lemmas.SkipDec
import Aldrin.Lemmas.Utf8Flag
import Aldrin.Lemmas.Size

namespace Aldrin
open Generated

/-- Whenever decoding succeeds, skipping succeeds and stops at exactly the same place. -/
theorem skip_of_decode (f : Nat) (bs : Bytes) (d : Nat) (v : Value) (rest : Bytes)
    (h : dec .std f bs d = .ok (v, rest)) : skip f bs d = .ok rest := by
  have h' := dec_true_false h
  have := skip_dec_all.1 f bs d
  rw [h'] at this
  simpa [norm_eq_ok] using this

/-- Skipping accepts exactly what decoding-without-UTF-8-validation accepts. -/
theorem decode_of_skip (f : Nat) (bs : Bytes) (d : Nat) (rest : Bytes)
    (h : skip f bs d = .ok rest) : ∃ v, dec .lax f bs d = .ok (v, rest) := by
  have := skip_dec_all.1 f bs d
  rw [h] at this
  cases hd : dec .lax f bs d with
  | error e => rw [hd] at this; simp at this
  | ok p =>
    obtain ⟨v, r⟩ := p
    rw [hd] at this
    simp at this
    exact ⟨v, by rw [this]⟩

theorem skip_iff_decode_no_utf8 (f : Nat) (bs : Bytes) (d : Nat) (rest : Bytes) :
    skip f bs d = .ok rest ↔ ∃ v, dec .lax f bs d = .ok (v, rest) := by
  constructor
  · exact decode_of_skip f bs d rest
  · rintro ⟨v, h⟩
    have := skip_dec_all.1 f bs d
    rw [h] at this
    simpa [norm_eq_ok] using this

/-- Skipping and decoding fail with the nesting error on exactly the same inputs. -/
theorem skip_tooDeep_iff (f : Nat) (bs : Bytes) (d : Nat) :
    skip f bs d = .error .tooDeep ↔ dec .lax f bs d = .error .tooDeep := by
  have := skip_dec_all.1 f bs d
  constructor
  · intro hs
    rw [hs] at this
    cases hd : dec .lax f bs d with
    | error e => rw [hd] at this; simp at this; rw [cls_eq_tooDeep.mp this.symm]
    | ok p => cases p; rw [hd] at this; simp at this
  · intro hd
    rw [hd] at this
    cases hs : skip f bs d with
    | error e => rw [hs] at this; simp at this; rw [cls_eq_tooDeep.mp this]
    | ok r => rw [hs] at this; simp at this

/-- `Deserializer::len` / `split_off_serialized_value` on a value that decodes completely: the
measured length is the whole input, so the opaque copy is the input and re-decodes to the same
value. -/
theorem len_eq (bs : Bytes) (v : Value) (h : decodeTop .std bs = .ok v) : lenTop bs = .ok bs.length := by
  unfold decodeTop at h
  split at h
  · simp at h
  · rename_i v' rest hd
    split at h
    · rename_i he
      have hr : rest = [] := by simpa using he
      subst hr
      have := skip_of_decode _ _ _ _ _ hd
      simp [lenTop, this]
    · simp at h

/-- Totality: with the standard budget, none of the walkers stops because the budget ran out,
on any input (the recursion of decode and skip is bounded by the input length). -/
theorem decode_total (cfg : DecCfg) (bs : Bytes) (d : Nat) : dec cfg (fuelFor bs) bs d ≠ .error .fuel :=
  dec_total cfg bs d

theorem skip_total (bs : Bytes) (d : Nat) : skip (fuelFor bs) bs d ≠ .error .fuel := by
  intro h
  have := skip_dec_all.1 (fuelFor bs) bs d
  rw [h] at this
  cases hd : dec .lax (fuelFor bs) bs d with
  | error e =>
    rw [hd] at this
    simp at this
    exact dec_total .lax bs d (by rw [hd, cls_eq_fuel.mp this.symm])
  | ok p => cases p; rw [hd] at this; simp at this

theorem kind_total (bs : Bytes) : kindTop bs ≠ .error .fuel := by
  unfold kindTop
  split
  · simp
  · split
    · simp
    · split <;> simp

/-- No amplification: a decoded value (node count + payload bytes) is never larger than the bytes
it was decoded from — no count read from the wire is trusted before the elements are read. -/
theorem decode_size (cfg : DecCfg) (f : Nat) (bs : Bytes) (d : Nat) (v : Value) (rest : Bytes)
    (h : dec cfg f bs d = .ok (v, rest)) : v.size + rest.length ≤ bs.length :=
  dec_size h

/-- Every successful decode or skip consumes at least one byte. -/
theorem decode_consumes (cfg : DecCfg) (f : Nat) (bs : Bytes) (d : Nat) (v : Value) (rest : Bytes)
    (h : dec cfg f bs d = .ok (v, rest)) : rest.length < bs.length := dec_shrink h

/-- The key-skip table is what the decoder needs: obligations on the generated constants. -/
theorem key_skip_table :
    keyU8Skip = (.fixed, 1) ∧ keyI8Skip = (.fixed, 1) ∧ keyU16Skip = (.varint, 2) ∧ keyI16Skip = (.varint, 2) ∧
    keyU32Skip = (.varint, 4) ∧ keyI32Skip = (.varint, 4) ∧ keyU64Skip = (.varint, 8) ∧ keyI64Skip = (.varint, 8) ∧
    keyStringSkip = (.lenprefixed, 4) ∧ keyUuidSkip = (.fixed, 16) := by decide

/-- Non-vacuity: a set with a 4-byte `u32` key (the shape on which the repaired defect showed). -/
example : dec .std 20 [59, 1, 255, 199, 181, 7, 96, 0] 0 = .ok (.set (.int .u32) [.int 1611118023], [])
    ∧ skip 20 [59, 1, 255, 199, 181, 7, 96, 0] 0 = .ok [] := by constructor <;> rfl

end Aldrin
