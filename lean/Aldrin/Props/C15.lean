/-
C15 — Client termination: every pending operation resolves at any fault point.

Statement (properties.jsonl): whenever a client stops — shutdown requested, last handle dropped, broker
shutdown, or the transport failing or closing at any point — its run future returns (ok for the clean cases,
the transport error otherwise) and every operation pending or started afterwards on any of its handles,
objects, services, proxies, channels and listeners completes with a shutdown error or end-of-stream instead
of hanging. The broker side observes the connection as closed and cleans up.

What is proved here, on the model of `Client::run` (`Model/Client.lean`: `recv`, `sent`, `transportFailed`,
`flushed` around `onRecv` / `onSend`), for histories of any length:

* `fault_at_any_point_returns_transport_error` — wherever in a history the transport fails, if the client had
  not returned before, it returns the transport error, and nothing that happens afterwards changes that;
* `stopped_is_final` — a client that has returned stays returned with the same result;
* `own_shutdown_then_brokers_returns_ok`, `brokers_shutdown_then_flush_returns_ok` — the two clean exchanges
  end in `Ok(())`, whatever the broker sends in between: while draining the client looks at nothing but
  `Shutdown` (`draining_ignores_everything_else`), in particular it cannot stop with
  `UnexpectedMessageReceived` any more;
* `result_is_unexpected_only_by_refusal` — `UnexpectedMessageReceived` is returned only for a message that
  `handle_message` refuses while the client is in its main loop.

Partial (see DESIGN.md): that every pending operation completes once the client has returned is Rust drop
semantics (the maps own the `oneshot` senders; dropping `Client` drops them, which wakes the receivers with
`Canceled`, mapped to `Error::Shutdown`). The model has no notion of it. It is checked by the runs of
`harness/src/bin/sys.rs`: for every scenario with a fault at the k-th transport operation (k random per
scenario, both kinds) and for the four clean causes, every operation task must be complete once the system
is quiescent, operations started after the stop must complete at once, the run result must be the one this
model computes (`cend` lines), the broker must count no connection, object, service, channel or listener.
-/
import Aldrin.Model.Client

namespace Aldrin.Client
open Aldrin.Broker

/-- what happens to a running client, seen at its transport -/
inductive REv where
  | got (m : Rsp)
  | sent (r : Option Req)       -- `none` = its own `Shutdown`
  | fail                        -- the transport reports an error or the end of the stream
  | flushed
  deriving Repr

def stepR (s : CSt) : REv → CSt
  | .got m => (recv s m).1
  | .sent r => sent s r
  | .fail => transportFailed s
  | .flushed => flushed s

def runR (s : CSt) (h : List REv) : CSt := h.foldl stepR s

def CSt.result (s : CSt) : Option StopResult :=
  match s.phase with
  | .stopped r => some r
  | _ => none

theorem onSend_phase (s : CSt) (r : Req) : (onSend s r).phase = s.phase := by
  cases r <;> (try (rename_i o _ _; cases o)) <;> (try (rename_i o _; cases o)) <;> rfl

@[simp] theorem setEnds_phase (s : CSt) (e : ChanEnd) (m) : (setEnds s e m).phase = s.phase := by
  cases e <;> rfl

theorem onRecv_phase (s s' : CSt) (m : Rsp) (h : onRecv s m = .ok s') : s'.phase = s.phase := by
  cases m <;> simp only [onRecv, channelEndClosed, channelEndClaimed] at h <;> (repeat' (split at h)) <;>
    (try (simp only [reduceCtorEq, Verdict.ok.injEq] at h)) <;> (try subst h) <;> simp_all

theorem stepR_stopped (s : CSt) (e : REv) (r : StopResult) (h : s.phase = .stopped r) : (stepR s e).phase = .stopped r := by
  cases e with
  | got m => simp [stepR, recv, h]
  | sent o =>
    cases o with
    | none => simp [stepR, sent, h]
    | some q => simp [stepR, sent, onSend_phase, h]
  | fail => simp [stepR, transportFailed, h]
  | flushed => simp [stepR, flushed, h]

theorem stopped_is_final (s : CSt) (h : List REv) (r : StopResult) (hs : s.phase = .stopped r) :
    (runR s h).phase = .stopped r := by
  induction h generalizing s with
  | nil => exact hs
  | cons e h ih => exact ih _ (stepR_stopped s e r hs)

theorem runR_append (s : CSt) (h1 h2 : List REv) : runR s (h1 ++ h2) = runR (runR s h1) h2 := by
  simp [runR, List.foldl_append]

theorem fault_at_any_point_returns_transport_error (s : CSt) (before after : List REv)
    (hrun : (runR s before).result = none) :
    (runR s (before ++ [.fail] ++ after)).result = some .transport := by
  rw [List.append_assoc, runR_append, runR_append]
  have h1 : (runR (runR s before) [.fail]).phase = .stopped .transport := by
    generalize runR s before = t at hrun
    simp only [runR, List.foldl, stepR, transportFailed]
    cases hp : t.phase <;> simp_all [CSt.result]
  simp [CSt.result, stopped_is_final _ after _ h1]

/-- and if it had returned before, the fault changes nothing -/
theorem fault_after_return_changes_nothing (s : CSt) (before after : List REv) (r : StopResult)
    (hrun : (runR s before).result = some r) :
    (runR s (before ++ [.fail] ++ after)).result = some r := by
  rw [List.append_assoc, runR_append]
  have hp : (runR s before).phase = .stopped r := by
    simp only [CSt.result] at hrun
    split at hrun <;> simp_all
  simp [CSt.result, stopped_is_final _ _ _ hp]

theorem draining_ignores_everything_else (s : CSt) (w : Bool) (m : Rsp) (hs : s.phase = .draining w) (hm : m ≠ .shutdown) :
    recv s m = (s, "ok") := by
  simp [recv, hs, hm]

/-- messages other than `Shutdown` -/
def noShutdown (h : List REv) : Prop := ∀ e ∈ h, (∀ m, e = .got m → m ≠ .shutdown) ∧ e ≠ .fail ∧ e ≠ .flushed

theorem draining_stays (s : CSt) (h : List REv) (hs : s.phase = .draining true) (hn : noShutdown h) :
    (runR s h).phase = .draining true := by
  induction h generalizing s with
  | nil => exact hs
  | cons e h ih =>
    have he := hn e (by simp)
    have hn' : noShutdown h := fun e' he' => hn e' (by simp [he'])
    apply ih _ _ hn'
    cases e with
    | got m => simp [stepR, draining_ignores_everything_else s true m hs (he.1 m rfl), hs]
    | sent o =>
      cases o with
      | none => simp [stepR, sent, hs]
      | some q => simp [stepR, sent, onSend_phase, hs]
    | fail => exact absurd rfl he.2.1
    | flushed => exact absurd rfl he.2.2

/-- the client stops on its own (shutdown requested, or the last handle is gone): it says `Shutdown`, ignores
whatever else arrives, and returns `Ok(())` when the broker's `Shutdown` comes -/
theorem own_shutdown_then_brokers_returns_ok (s : CSt) (between after : List REv) (hs : s.phase = .running)
    (hn : noShutdown between) :
    (runR s ([.sent none] ++ between ++ [.got .shutdown] ++ after)).result = some .clean := by
  rw [List.append_assoc, List.append_assoc, runR_append, runR_append, runR_append]
  have h1 : (runR s [.sent none]).phase = .draining true := by simp [runR, stepR, sent, hs]
  have h2 := draining_stays _ between h1 hn
  have h3 : (runR (runR (runR s [.sent none]) between) [.got .shutdown]).phase = .stopped .clean := by
    generalize runR (runR s [.sent none]) between = t at h2
    simp [runR, stepR, recv, h2]
  simp [CSt.result, stopped_is_final _ after _ h3]

/-- the broker says `Shutdown` first: the client answers and returns `Ok(())` once its answer is flushed -/
theorem brokers_shutdown_then_flush_returns_ok (s : CSt) (q : Option Req) (after : List REv) (hs : s.phase = .running)
    (hq : q = none) :
    (runR s ([.got .shutdown, .sent q, .flushed] ++ after)).result = some .clean := by
  subst hq
  rw [runR_append]
  have h3 : (runR s [.got .shutdown, .sent none, .flushed]).phase = .stopped .clean := by
    simp [runR, stepR, recv, hs, onRecv, sent, flushed]
  simp [CSt.result, stopped_is_final _ after _ h3]

/-- one step can only produce `unexpected` from the main loop, on a message `handle_message` refuses -/
theorem result_is_unexpected_only_by_refusal (s : CSt) (e : REv) (hs : s.result ≠ some .unexpected)
    (h : (stepR s e).result = some .unexpected) :
    ∃ m, e = .got m ∧ s.phase = .running ∧ onRecv s m = .unexpected := by
  cases e with
  | got m =>
    refine ⟨m, rfl, ?_⟩
    simp only [stepR, recv] at h
    cases hp : s.phase with
    | running =>
      simp only [hp] at h
      cases ho : onRecv s m with
      | ok s1 =>
        have := onRecv_phase s s1 m ho
        simp_all [CSt.result]
      | _ => simp_all [CSt.result]
    | draining w =>
      simp only [hp] at h
      cases w <;> split at h <;> simp_all [CSt.result]
    | stopped r => simp_all [CSt.result]
  | sent o =>
    cases o with
    | none =>
      simp only [stepR, sent] at h
      cases hp : s.phase <;> simp_all [CSt.result]
    | some q =>
      have := onSend_phase s q
      simp_all [stepR, sent, CSt.result]
  | fail =>
    simp only [stepR, transportFailed] at h
    cases hp : s.phase <;> simp_all [CSt.result]
  | flushed =>
    simp only [stepR, flushed] at h
    cases hp : s.phase with
    | draining w => cases w <;> simp_all [CSt.result]
    | _ => simp_all [CSt.result]

/-! ### non-vacuity -/

example : (runR { version := 20 } [.sent (some (.sync 0)), .got (.syncReply 0), .sent none, .got (.itemReceived 3 []),
    .got .shutdown, .got (.syncReply 5)]).result = some .clean := by decide
example : (runR { version := 20 } [.sent (some (.sync 0)), .fail, .got (.syncReply 0)]).result = some .transport := by decide
example : (runR { version := 20 } [.got (.itemReceived 3 [])]).result = some .unexpected := by decide

end Aldrin.Client
