/-
C04 — Event delivery matches subscriptions; owner sees 0<->1 transitions.

Statement (properties.jsonl): an event emitted by a service's owner is delivered exactly once, payload
unchanged, to every connection that at that moment is subscribed to that event id or to all events of
the service, and to no other connection; events emitted by non-owners are dropped. The owner is told to
start or stop producing an event (or all events) exactly when the number of subscribed connections
changes between zero and non-zero. When a service is destroyed, each subscribed connection is notified
once and its subscriptions to that service end.

What is proved here (model M4 of `broker/src/broker/service.rs` and the event handlers):
* the fan-out of `emit_event`, for every broker state (`fanout_exact`, `foreign_emit_dropped`);
* the subscriber bookkeeping of a service for ALL histories of subscribe / unsubscribe on an event id:
  `first` / `last` (which trigger the message to the owner) are raised exactly when the subscriber set
  changes between empty and non-empty, membership changes only for the acting connection, and no empty
  entry is kept (`subscribe_transition`, `unsubscribe_transition`, `transitions_all_histories`), likewise for
  the all-events set (`subscribe_all_transition`, `unsubscribe_all_transition`).
* who is told that a service is destroyed, for every service entry: exactly the connections subscribed to one of its
  events or to the service itself, each once (`service_destroyed_audience`); `remove_service` queues one
  `ServiceDestroyed` notification for each of them that is still connected, each once, and nothing else
  (`service_destroyed_queued_once`; the work loop then sends one message per queued notification).
Partial: agreement of the per-connection mirror (`ConnectionState.events`) with the per-service sets over
histories with disconnects is tied by the correspondence runs, not proved; the owner's client-side record of what
it was told to produce by scenario B of the `sys` harness.
-/
import Aldrin.Lemmas.Broker.Events
import Aldrin.Lemmas.Broker.SvcDestroyed

namespace Aldrin.Broker

theorem fanout_exact {s : St} {id svc ev p} {emitter : Conn} {oid : ObjId} {su info} {o : Obj}
    (hc : AL.find? id s.b.conns = some emitter) (hs : AL.find? svc s.b.svcUuids = some (oid, su, info))
    (ho : AL.find? oid.uuid s.b.objs = some o) (hown : o.conn = id) :
    ∃ s', emitEvent s id svc ev p = .ok (s', true) ∧
      s'.out = s.out ++ s.b.conns.filterMap (fun q => if q.2.isSubscribedToEvent svc ev then
        (match AL.find? q.1 s.b.conns with
          | some c => if c.alive then some ⟨q.1, .emitEvent svc ev p, some emitter.version⟩ else none
          | none => none) else none) := emitEvent_fanout hc hs ho hown

theorem foreign_emit_dropped {s : St} {id svc ev p} {emitter : Conn} {oid : ObjId} {su info} {o : Obj}
    (hc : AL.find? id s.b.conns = some emitter) (hs : AL.find? svc s.b.svcUuids = some (oid, su, info))
    (ho : AL.find? oid.uuid s.b.objs = some o) (hne : o.conn ≠ id) :
    emitEvent s id svc ev p = .ok (s, true) := emitEvent_foreign_dropped hc hs ho hne

theorem subscribe_transition (s : Svc) (ev : Nat) (c : ConnId) (h : s.OK) :
    ((s.subscribeEvent ev c).2 = true ↔ s.subscribers ev = []) ∧
    (∀ x, x ∈ (s.subscribeEvent ev c).1.subscribers ev ↔ x = c ∨ x ∈ s.subscribers ev) ∧
    (∀ ev', ev' ≠ ev → (s.subscribeEvent ev c).1.subscribers ev' = s.subscribers ev') ∧
    (s.subscribeEvent ev c).1.OK := Svc.subscribeEvent_spec s ev c h

theorem unsubscribe_transition (s : Svc) (ev : Nat) (c : ConnId) (h : s.OK) :
    ((s.unsubscribeEvent ev c).2 = true ↔ (s.subscribers ev ≠ [] ∧ (s.unsubscribeEvent ev c).1.subscribers ev = [])) ∧
    (∀ x, x ∈ (s.unsubscribeEvent ev c).1.subscribers ev ↔ x ≠ c ∧ x ∈ s.subscribers ev) ∧
    (∀ ev', ev' ≠ ev → (s.unsubscribeEvent ev c).1.subscribers ev' = s.subscribers ev') ∧
    (s.unsubscribeEvent ev c).1.OK := Svc.unsubscribeEvent_spec s ev c h

theorem subscribe_all_transition (s : Svc) (c : ConnId) :
    ((s.subscribeAll c).2 = true ↔ s.allEvents = []) ∧
    (∀ x, x ∈ (s.subscribeAll c).1.allEvents ↔ x = c ∨ x ∈ s.allEvents) := Svc.subscribeAll_spec s c

theorem unsubscribe_all_transition (s : Svc) (c : ConnId) :
    ((s.unsubscribeAll c).2 = true ↔ (s.allEvents ≠ [] ∧ (s.unsubscribeAll c).1.allEvents = [])) ∧
    (∀ x, x ∈ (s.unsubscribeAll c).1.allEvents ↔ x ≠ c ∧ x ∈ s.allEvents) := Svc.unsubscribeAll_spec s c

/-- all histories of subscribe / unsubscribe by any connections on one event id of a new service: at
every step the flag that makes the broker notify the owner is raised iff emptiness of the subscriber
set flipped -/
theorem transitions_all_histories (ev : Nat) (ops : List SubOp) (c oc : Cookie) :
    (ops.foldl (fun (a : Svc × Prop) op => ((a.1.applySub ev op).1,
        a.2 ∧ (((a.1.applySub ev op).2 = true) ↔
          ((a.1.subscribers ev = []) ≠ (((a.1.applySub ev op).1).subscribers ev = []))))) ({ cookie := c, objCookie := oc }, True)).2 :=
  (Svc.history_transitions ev ops _ (Svc.new_ok c oc)).1

/-! non-vacuity: two subscribers, the owner is told once to start and once to stop -/
example : (match run {} {} [.newConn 0 20, .newConn 1 20, .newConn 2 20, .msg 0 (.createObject 1 5),
      .msg 0 (.createService 2 0 6 1), .msg 1 (.subscribeEvent (some 3) 1 7), .msg 2 (.subscribeEvent (some 4) 1 7),
      .msg 0 (.emitEvent 1 7 [3, 9]), .msg 1 (.unsubscribeEvent 1 7), .msg 2 (.unsubscribeEvent 1 7)] with
    | .ok (_, _, outs) => outs.drop 5 | .error _ => []) =
    [[⟨1, .subscribeEventReply 3 .ok, none⟩, ⟨0, .subscribeEvent 1 7, none⟩], [⟨2, .subscribeEventReply 4 .ok, none⟩],
     [⟨1, .emitEvent 1 7 [3, 9], some 20⟩, ⟨2, .emitEvent 1 7 [3, 9], some 20⟩], [], [⟨0, .unsubscribeEvent 1 7, none⟩]] := by decide

/-- **Who is told that a service is gone**: `Service::subscribed_conn_ids` lists exactly the connections subscribed to
one of the service's events or to the service itself, and lists each once. -/
theorem service_destroyed_audience (s : Svc) :
    s.subscribedConnIds.Nodup ∧ ∀ x, x ∈ s.subscribedConnIds ↔ (∃ p, p ∈ s.events ∧ x ∈ p.2) ∨ x ∈ s.subs :=
  subscribedConnIds_spec s

/-- … and `remove_service` queues, for a list of such connections, one `ServiceDestroyed` notification per connection of
the list that is still there (in turn, newest first), and nothing else. With `service_destroyed_audience`: each
subscribed connection that is still connected is notified once. -/
theorem service_destroyed_queued_once (svcCookie : Cookie) (l : List ConnId) (s : St) :
    (l.foldl (fun s cid =>
          match s.conn? cid with
          | some c =>
            let s := s.setConn cid (c.unsubscribeAllOf svcCookie)
            (s.setWServicesDestroyed ((cid, svcCookie) :: s.w.servicesDestroyed))
          | none => s) s).w.servicesDestroyed =
      ((l.filter (fun cid => (s.conn? cid).isSome)).map (fun cid => (cid, svcCookie))).reverse ++ s.w.servicesDestroyed :=
  (queue_destroyed_spec svcCookie l s).1

end Aldrin.Broker
