/-
C14 — Byte-stream framing is independent of fragmentation and backpressure.

Statement (properties.jsonl): feeding the concatenation of serialized messages to the packetizer in
arbitrary pieces, through either of its input interfaces, yields exactly the original frames in
order, each only once it is complete, with no bytes lost or duplicated. The stream transport built
on it delivers every sent message once and in order for any pattern of short reads, short writes
and pending I/O, reports end-of-stream and zero-length writes as errors, and a flush returns only
after all earlier messages were written.

Quantifiers: all frame lists (each frame carrying its own length in its 4-byte prefix — which is
what `msg_roundtrip` of C08 guarantees for every serialized message), all operation sequences of
`extend_from_slice` / `spare_capacity_mut`+`bytes_written` / `next_message` with arbitrary sizes, all
scripts of read / write / flush results. What a theorem cannot carry here: waker registration of a
real reactor and real sockets (the I/O object is a script).
-/
import Aldrin.Lemmas.Transport
import Aldrin.Props.C08

namespace Aldrin

/-- Frames produced by the message serializer carry their length in their prefix (C08). -/
theorem serialized_frames_wellprefixed (r : Rec) (fr : Bytes) (h : encodeFrame r = .ok fr) (hw : r.WF) :
    WellPrefixed fr := by
  obtain ⟨fr', h1, h2, h3⟩ := msg_roundtrip r hw
  rw [h] at h1; cases h1
  have hs := msg_strict fr r h3
  exact ⟨by omega, hs.2.1⟩

/-- No frame early, none twice, none out of order: after ANY sequence of feed and drain operations
(either feed interface, any sizes, any interleaving), the frames handed out so far are exactly the
first `k` original frames, for some `k`; and the bytes still inside plus the bytes not yet fed are
exactly the remaining frames — nothing lost, nothing duplicated. -/
theorem packetizer_prefix (fs : List Bytes) (hw : ∀ f ∈ fs, WellPrefixed f) (ops : List PkOp) :
    ∃ k, k ≤ fs.length ∧ ((PkRun.mk {} (flat fs) [] false).run ops).out = fs.take k ∧
      ((PkRun.mk {} (flat fs) [] false).run ops).pk.buf ++ ((PkRun.mk {} (flat fs) [] false).run ops).unfed
        = flat (fs.drop k) := by
  obtain ⟨k, _, h⟩ := run_inv fs hw ops _ 0 (init_inv fs)
  exact ⟨k, h.1, h.2.1, h.2.2.1⟩

/-- Chunking independence: once all bytes have been fed — in whatever pieces, through whichever
interface, with whatever draining in between — draining yields exactly the original frames. -/
theorem packetizer_chunking (fs : List Bytes) (hw : ∀ f ∈ fs, WellPrefixed f) (ops : List PkOp)
    (hfed : ((PkRun.mk {} (flat fs) [] false).run ops).unfed = []) :
    (((PkRun.mk {} (flat fs) [] false).run ops).run (List.replicate fs.length .drain)).out = fs := by
  obtain ⟨k, _, hinv⟩ := run_inv fs hw ops _ 0 (init_inv fs)
  generalize (PkRun.mk {} (flat fs) [] false).run ops = r at hfed hinv
  -- j more drains advance the index to min (k + j) |fs|
  have key : ∀ (j : Nat) (r : PkRun) (k : Nat), PkInvK fs r k → r.unfed = [] →
      ∃ k', PkInvK fs (r.run (List.replicate j .drain)) k' ∧ (r.run (List.replicate j .drain)).unfed = [] ∧
        min (k + j) fs.length ≤ k' := by
    intro j
    induction j with
    | zero => intro r k h hu; exact ⟨k, h, hu, by have := h.1; omega⟩
    | succ j ih =>
      intro r k h hu
      by_cases hk : k < fs.length
      · obtain ⟨h1, h2⟩ := drain_progress fs hw r k h hu hk
        obtain ⟨k', h3, h4, h5⟩ := ih (r.step .drain) (k + 1) h1 h2
        exact ⟨k', by simpa [PkRun.run, List.replicate_succ] using h3,
          by simpa [PkRun.run, List.replicate_succ] using h4, by omega⟩
      · have hkl : k = fs.length := by have := h.1; omega
        have hu' : (r.step .drain).unfed = [] := by
          simp only [PkRun.step]; split <;> simp [hu]
        rcases step_inv fs hw r k .drain h with h1 | ⟨_, h1⟩
        · obtain ⟨k', h3, h4, h5⟩ := ih (r.step .drain) k h1 hu'
          exact ⟨k', by simpa [PkRun.run, List.replicate_succ] using h3,
            by simpa [PkRun.run, List.replicate_succ] using h4, by omega⟩
        · have := h1.1; omega
  obtain ⟨k', h1, _, h3⟩ := key fs.length r k hinv hfed
  have hk' : k' = fs.length := by have := h1.1; omega
  rw [h1.2.1, hk']; simp

/-- The slice offered for filling is never empty (see `Lemmas/Transport.lean`). -/
theorem spare_slice_nonempty (p : Pk) (hc : p.buf.length ≤ p.cap) : 0 < p.spareLen :=
  spare_nonempty p hc

/-- Sending: for any script of write results (short writes, pending, errors), the bytes accepted by
the I/O object followed by the bytes still buffered are exactly the frames sent so far, in order. -/
theorem transport_send_conserves (t : Tp) (frame : Bytes) (script : List IoStep) :
    ((t.sendStart frame).flush script).1.written ++ ((t.sendStart frame).flush script).1.wbuf
      = t.written ++ t.wbuf ++ frame := by
  rw [(flush_conserves _ _).1]; simp [Tp.sendStart, List.append_assoc]

/-- A flush reports success only after everything sent earlier has been written. -/
theorem flush_done (t : Tp) (script : List IoStep) (u : Unit) (h : (t.flush script).2.1 = .ready u) :
    (t.flush script).1.wbuf = [] ∧ (t.flush script).1.written = t.written ++ t.wbuf := by
  have hc := flush_conserves t script
  have hw := hc.2.2.2 u h
  refine ⟨hw, ?_⟩
  have := hc.1
  rw [hw] at this
  simpa using this

/-- A zero-length write with bytes pending is reported as an error. -/
theorem write_zero_is_error (t : Tp) (s : List IoStep) (h : t.wbuf ≠ []) :
    (t.flush (.ok 0 :: s)).2.1 = .err .writeZero := flush_write_zero t s h

/-- Receiving: whatever the script of read results (short reads, pending), each `receive_poll`
behaves as a packetizer run on the pending input — so the frames it returns over time are the
frames of the input stream, each once, in order (by `packetizer_prefix`). -/
theorem transport_recv (fs : List Bytes) (hw : ∀ f ∈ fs, WellPrefixed f) (t : Tp) (script : List IoStep) (k : Nat)
    (hinv : PkInvK fs (PkRun.mk t.pk t.inp (fs.take k) false) k) :
    ∃ k', k ≤ k' ∧ k' ≤ fs.length ∧
      (t.receive script).1.pk.buf ++ (t.receive script).1.inp = flat (fs.drop k') ∧
      (match (t.receive script).2.1 with
       | .ready f => fs.take k' = fs.take k ++ [f]
       | _ => k' = k) := by
  obtain ⟨ops, h1, h2, h3, _, _⟩ := receive_is_run t script (fs.take k) false
  obtain ⟨k', hk, hi⟩ := run_inv fs hw ops _ k hinv
  refine ⟨k', hk, hi.1, by rw [← h1, ← h2]; exact hi.2.2.1, ?_⟩
  have hout := hi.2.1
  rw [h3] at hout
  cases hr : (t.receive script).2.1 with
  | ready f => simp only [hr, resOut] at hout ⊢; exact hout.symm
  | pending =>
    simp only [hr, resOut] at hout ⊢
    have : (fs.take k).length = (fs.take k').length := by rw [hout]
    simp at this; have := hi.1; omega
  | err e =>
    simp only [hr, resOut] at hout ⊢
    have : (fs.take k).length = (fs.take k').length := by rw [hout]
    simp at this; have := hi.1; omega

/-- End of stream is an error: when nothing more can be delivered and no complete frame is
buffered, a read that returns no bytes ends `receive_poll` with `UnexpectedEof`. -/
theorem eof_is_error (t : Tp) (n : Nat) (s : List IoStep) (pk : Pk) (hn : t.pk.next = (pk, none))
    (hinp : t.inp = []) : (t.receive (.ok n :: s)).2.1 = .err .eof := by
  simp [Tp.receive, hn, hinp]

/-- Non-vacuity: two frames fed as 3 + 4 + 3 bytes with an early drain. -/
example : ((PkRun.mk {} (flat [[5, 0, 0, 0, 2], [5, 0, 0, 0, 2]]) [] false).run
    [.extend 3, .drain, .fill 4, .drain, .extend 3, .drain, .drain]).out = [[5, 0, 0, 0, 2], [5, 0, 0, 0, 2]] := by
  rfl

end Aldrin
