/-
C17 — Schema front end is total: parse, diagnose, format never panic.

Statement (properties.jsonl): for any source text, parsing the schema (with any set of resolvable or missing
imports), rendering every reported error and warning, and formatting it terminate without panicking, and
produce the same diagnostics when repeated. Code generation is only reachable for schemas without errors and
then terminates without panicking as well.

Absence of panics in pest, comrak, annotate-snippets and the glue around them is a statement about Rust code
paths; a theorem about a total Lean function cannot carry it. What the repository itself computes with
indices, and hands to code that slices the source with them, is the mapping of a markdown position inside a
doc comment back to a byte offset of the schema (`BrokenDocLink::linecol_to_index`, `sourcepos_to_span`).
That arithmetic is modelled with `usize` wrap-around as an explicit outcome (`Model/Schema/Span.lean`) and
proved, for ALL doc comments and positions:

* `doc_link_offset_never_wraps` — with a column of at least 1 the subtraction cannot wrap, and
  `wrap_needs_column_zero`: column 0 is the only way (the harness flags every column 0 it sees from comrak);
* `doc_link_offset_in_bounds` — an offset that is returned lies inside the doc string it was computed for and
  on a character boundary of it, so slicing the source there cannot panic;
* `doc_link_span_is_ordered` — if the link's start is not after its end in the comment, the start offset is
  not after the end offset in the source (for doc strings that follow each other in the source), so the span
  handed to the renderer is a valid range; `fallback_span_is_ordered` for the whole-comment fallback.

The grammar itself is covered by the PEG model of C18 (`Model/Schema/Parse.lean`): a total function whose
accept / reject decision and AST are compared with the real parser on every input of the runs below.

Partial: everything else (pest's generated parser, validation, rendering, formatting, code generation) is
exercised, not proved: `harness/src/bin/front.rs` runs the whole pipeline twice under `catch_unwind` on token
soups, mutations of every schema file of the repository and generated schemas with adversarial doc comments,
with resolvable and missing imports, and compares the two runs' diagnostics as multisets.
-/
import Aldrin.Lemmas.Schema.SpanLemmas
import Aldrin.Model.Schema.Parse

namespace Aldrin.Schema.Span

theorem doc_link_offset_never_wraps (docs : List DocLine) (line col : Nat) (isEnd : Bool) (hc : 1 ≤ col) :
    linecolToIndex docs line col isEnd ≠ .underflow := no_underflow docs line col isEnd hc

theorem wrap_needs_column_zero (docs : List DocLine) (line col : Nat) (isEnd : Bool)
    (h : linecolToIndex docs line col isEnd = .underflow) : col = 0 :=
  underflow_only_at_column_zero docs line col isEnd h

theorem doc_link_offset_in_bounds (docs : List DocLine) (line col : Nat) (isEnd : Bool) (i : Nat)
    (h : linecolToIndex docs line col isEnd = .some i) :
    ∃ d ∈ docs, d.start ≤ i ∧ i ≤ d.start + d.value.length ∧ isCharBoundary d.value (i - d.start) = true :=
  index_in_doc docs line col isEnd i h

theorem doc_link_span_is_ordered (docs : List DocLine) (ho : Ordered docs) (l1 c1 l2 c2 s t : Nat) (hc1 : 1 ≤ c1)
    (hle : l1 < l2 ∨ (l1 = l2 ∧ c1 ≤ c2))
    (hs : linecolToIndex docs l1 c1 false = .some s) (ht : linecolToIndex docs l2 c2 true = .some t) : s ≤ t :=
  span_ordered docs ho l1 c1 l2 c2 s t hc1 hle hs ht

theorem fallback_span_is_ordered (docs : List DocLine) (ho : Ordered docs) (d1 d2 : DocLine)
    (h1 : docs.head? = some d1) (h2 : docs.getLast? = some d2) : d1.start ≤ d2.start + d2.value.length := by
  cases docs with
  | nil => simp at h1
  | cons d ds =>
    simp at h1; subst h1
    by_cases hds : ds = []
    · subst hds; simp at h2; subst h2; omega
    · have hlast : (d :: ds).getLast? = some ((d :: ds)[ds.length]'(by simp)) := by
        rw [List.getLast?_eq_getElem?]; simp
      rw [hlast] at h2
      simp at h2
      have hpos : 0 < ds.length := List.length_pos_iff.mpr hds
      have := ho 0 ds.length (by simp) (by simp) hpos
      simp only [List.getElem_cons_zero] at this
      rw [← h2]
      omega

/-- every span `sourcepos_to_span` returns is a valid range, under the two assumptions about its inputs -/
theorem sourcepos_span_is_a_range (docs : List DocLine) (ho : Ordered docs) (hne : docs ≠ []) (l1 c1 l2 c2 : Nat) (hc1 : 1 ≤ c1)
    (hle : l1 < l2 ∨ (l1 = l2 ∧ c1 ≤ c2)) (s t : Nat) (h : sourceposToSpan docs l1 c1 l2 c2 = some (s, t)) : s ≤ t := by
  have hfb : ∀ a b, ((docs.head?.map (·.start)).getD 0, (docs.getLast?.map (fun d => d.start + d.value.length)).getD 0) = (a, b) → a ≤ b := by
    intro a b hab
    cases hh : docs.head? with
    | none => cases docs <;> simp_all
    | some d1 =>
      cases hl : docs.getLast? with
      | none => cases docs <;> simp_all
      | some d2 =>
        have := fallback_span_is_ordered docs ho d1 d2 hh hl
        simp [hh, hl] at hab
        omega
  unfold sourceposToSpan at h
  split at h
  · simp at h
  · rename_i s' hs'
    split at h
    · simp at h
    · rename_i t' ht'
      simp at h
      obtain ⟨rfl, rfl⟩ := h
      exact span_ordered docs ho l1 c1 l2 c2 _ _ hc1 hle hs' ht'
    · simp only [Option.some.injEq] at h; exact hfb s t h
  · simp only [Option.some.injEq] at h; exact hfb s t h

/-! ### non-vacuity: a two-line comment with a carriage return and a two-byte character -/

def exDocs : List DocLine := [⟨10, [91, 97, 93, 13, 98]⟩, ⟨20, [195, 164, 91, 120, 93]⟩]

example : Ordered exDocs := by
  intro i j hi hj hij
  have : i = 0 ∧ j = 1 := by simp [exDocs] at hi hj; omega
  obtain ⟨rfl, rfl⟩ := this
  simp [exDocs]
example : linecolToIndex exDocs 1 1 false = .some 10 ∧ linecolToIndex exDocs 1 3 true = .some 13 ∧
    linecolToIndex exDocs 3 3 false = .some 22 ∧ linecolToIndex exDocs 3 2 false = .none ∧
    linecolToIndex exDocs 1 0 false = .underflow ∧ linecolToIndex exDocs 2 0 false = .some 13 := by decide
example : sourceposToSpan exDocs 1 1 3 5 = some (10, 25) := by decide

open Aldrin.Schema in
/-- the grammar model decides every text: it is a function, and a finite amount of fuel is all it uses -/
theorem parse_is_total (src : Str) : parseSchema src = none ∨ ∃ s, parseSchema src = some s := by
  cases parseSchema src <;> simp

end Aldrin.Schema.Span
