/-
C20 — Type ids are structural: equal iff the wire-relevant layout is equal.

Statement (properties.jsonl): the introspection type id of a type or service is a deterministic function
of its wire-relevant description — schema and type name, field/variant/function/event ids and names,
required flags, referenced types, fallbacks, and transitively the same for everything it references —
and of nothing else: documentation, declaration order and the order references are visited do not
change it, while changing any of the listed aspects does. An introspection record serializes and
deserializes to an equal record whose references resolve.

Model (M8, `Model/TypeId.lean`): the IR generically (records with all declared fields by name, docs
included), the serialization of a record driven by the table `Generated.irRecs` that the translator reads
from the seventeen `Serialize` impls of `core/src/introspection/ir/*.rs` on every run (which fields, which
ids, which only-if-present), the work-list closure of `compute_from_dyn`, the ordered set, the `Compute`
record, UUIDv5. The driver evaluates the model including SHA-1, so the correspondence compares final ids.

Proved here:
* `doc` is declared but never serialized, for every IR record, and is the only such field
  (`docs_never_serialized`, `only_docs_are_dropped` — facts about the translated tables), hence replacing
  any documentation anywhere in a layout leaves its bytes unchanged (`docs_do_not_matter`);
* listing a record's fields in another order leaves the bytes unchanged (`field_order_does_not_matter`); maps
  are `BTreeMap`s in the code, i.e. already ordered by id when they reach the serializer;
* the ordered set of referenced layouts — and hence the pre-image — depends only on WHICH serialized layouts
  were collected, not on visiting order or multiplicity (`reference_order_does_not_matter`, `preimage_of_set`);
* sensitivity: a serialized field whose contribution changes changes the record's value
  (`serialized_field_matters`, with unique ids per record from the tables), different values have different
  bytes (`encoding_injective`, from the C01 round trip), and the pre-image determines root layout and set
  (`preimage_injective`).
Trusted / partial: SHA-1 collision resistance (two different pre-images give different ids) is assumed, not
proved; that the closure loop reaches exactly the reachable types is tied by the correspondence runs (random
graphs with cycles, shuffled and duplicated reference lists), not proved; the round trip of the
`Introspection` record and the agreement of macro- and codegen-produced layouts are oracle-checked only.
-/
import Aldrin.Lemmas.TypeId
import Aldrin.Lemmas.ByteSet

namespace Aldrin.TypeIdM
open Generated

theorem docs_never_serialized : ∀ r ∈ irRecs, ∀ f ∈ r.2, f.2.1 ≠ "doc" := doc_not_serialized

theorem only_docs_are_dropped : ∀ d ∈ irDeclared, ∀ n ∈ d.2,
    n = "doc" ∨ ∃ r ∈ irRecs, r.1 = d.1 ∧ ∃ f ∈ r.2, f.2.1 = n := only_doc_dropped

theorem ids_unique_per_record : ∀ r ∈ irRecs, (r.2.map (·.1)).Nodup := field_ids_unique

/-- replacing every documentation string at every depth by anything leaves the serialized layout unchanged -/
theorem docs_do_not_matter (f : Ir → Ir) (l : Ir) : layoutBytes (l.mapDocs f) = layoutBytes l := by
  unfold layoutBytes; rw [toValue_mapDocs]

theorem field_order_does_not_matter (ty : String) (fs fs' : List (String × Ir)) (hp : fs.Perm fs')
    (hn : (fs.map (·.1)).Nodup) : layoutBytes (.record ty fs) = layoutBytes (.record ty fs') := by
  unfold layoutBytes; rw [record_field_order ty fs fs' hp hn]

/-- visiting references in another order, or reporting a reference several times, gives the same set -/
theorem reference_order_does_not_matter (xs ys : List Ir)
    (h : ∀ b, b ∈ xs.map layoutBytes ↔ b ∈ ys.map layoutBytes) (root : Ir) :
    computeBytes root xs = computeBytes root ys := by
  unfold computeBytes
  simp only []
  rw [toSet_ext _ _ h]

/-- the pre-image is a function of the root's bytes and the set of referenced bytes -/
theorem preimage_of_set (root : Ir) (xs : List Ir) :
    computeBytes root xs = computeBytesOfSet root (toSet (xs.map layoutBytes)) := rfl

theorem serialized_field_matters (ty : String) (fs fs' : List (String × Ir)) (id : Nat) (n : String) (ifSome : Bool)
    (hs : (id, n, ifSome) ∈ schemaOf ty) (hu : ((schemaOf ty).map (·.1)).Nodup)
    (v v' : Value) (hl : lookupV n (fieldsToValue fs) = some v) (hl' : lookupV n (fieldsToValue fs') = some v')
    (hne : v ≠ v') : (Ir.record ty fs).toValue ≠ (Ir.record ty fs').toValue :=
  record_field_sensitive ty fs fs' id n ifSome hs hu v v' hl hl' hne

theorem encoding_injective (v w : Value) (hv : v.WF) (hw : w.WF) (dv : v.depth ≤ maxValueDepth) (dw : w.depth ≤ maxValueDepth)
    (h : encRaw .v2 v = encRaw .v2 w) : v = w := encRaw_injective v w hv hw dv dw h

/-- equal pre-images come from equal root layouts and equal sets of referenced layouts (all being encodings
of well-formed values, which serialized layouts are) -/
theorem preimage_injective (r r' : Ir) (xs ys : List Bytes)
    (hr : IsEnc (layoutBytes r)) (hr' : IsEnc (layoutBytes r')) (hx : ∀ x ∈ xs, IsEnc x) (hy : ∀ y ∈ ys, IsEnc y)
    (h : computeBytesOfSet r xs = computeBytesOfSet r' ys) : layoutBytes r = layoutBytes r' ∧ xs = ys :=
  computeBytesOfSet_injective r r' xs ys hr hr' hx hy h

/-! non-vacuity: a struct with one field; changing the doc keeps the bytes, changing `is_required` does not -/
example :
    let f (req : Bool) (doc : Ir) : Ir := .enumv 1 (.record "StructIr" [("schema", .str [115]), ("name", .str [84]), ("doc", doc),
      ("fields", .map [(0, .record "FieldIr" [("id", .u32 0), ("name", .str [97]), ("doc", doc), ("is_required", .bool req),
        ("field_type", .uuid (List.replicate 16 7))])]), ("fallback", .none)])
    layoutBytes (f true .none) = layoutBytes (f true (.some (.str [100]))) ∧ layoutBytes (f true .none) ≠ layoutBytes (f false .none) := by
  decide

end Aldrin.TypeIdM
